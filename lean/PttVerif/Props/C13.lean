import PttVerif.Proofs.C13
/-
C13 — Article IDs are a bijective encoding of article file names.
Property theorems only (helper lemmas live in Proofs/C13.lean).
-/
namespace PttVerif.C13.Props
open PttVerif PttVerif.C13

/-- the number a name of the domain encodes to. -/
def code (isM : Bool) (t p : Nat) : Nat := (if isM then 0 else 1) * 2 ^ 44 + t * 2 ^ 12 + p

/-! #### the regenerated tables -/

/-- every alphabet character decodes to its own position (whole table, kernel evaluation). -/
theorem table_inverts_alphabet (i : Nat) (h : i < 64) :
    decodeTable[alphabet.getD i 0]? = some i := (table_facts' i h).2.2.2

theorem alphabet_nodup : alphabet.Nodup := by decide +kernel

/-- no alphabet character is a terminator of the decoder or outside its table. -/
theorem alphabet_in_table (i : Nat) (h : i < 64) :
    alphabet.getD i 0 ≠ 0 ∧ alphabet.getD i 0 ≠ 64 ∧ alphabet.getD i 0 < decodeTable.length := by
  have := table_facts' i h
  rw [table_length]; exact ⟨this.1, this.2.1, this.2.2.1⟩

/-! #### (iii) number ↔ text over the whole 48-bit range -/

theorem aidu_aidc_inv (a : Nat) (h : a < 2 ^ 48) : aidcToAidu (aiduToAidc a) = .ok a := by
  have := decode_toAidcAux 8 a 0 [] (by simpa using h) (by simp [two64]; omega)
  simpa [aidcToAidu, aiduToAidc, aidcToAiduAux] using this

theorem aiduToAidc_length (a : Nat) : (aiduToAidc a).length = 8 := by
  simp [aiduToAidc, toAidcAux_length]

theorem aidc_aidu_inv (cs : List Nat) (hlen : cs.length = 8) (hal : ∀ c ∈ cs, c ∈ alphabet) :
    ∃ a, aidcToAidu cs = .ok a ∧ a < 2 ^ 48 ∧ aiduToAidc a = cs := by
  let is := cs.map (fun c => decodeTable.getD c 0)
  have his : ∀ i ∈ is, i < 64 := by
    intro i hi
    simp only [is, List.mem_map] at hi
    obtain ⟨c, hc, rfl⟩ := hi
    exact (alphabet_facts c (hal c hc)).1
  have hmap : is.map dch = cs := by
    simp only [is, List.map_map]
    conv => rhs; rw [← List.map_id cs]
    apply List.map_congr_left
    intro c hc
    exact (alphabet_facts c (hal c hc)).2
  have hl : is.length = 8 := by simp [is, hlen]
  refine ⟨valOf 0 is, ?_, ?_, ?_⟩
  · have := decode_digits is 0 his (by rw [hl]; simp [two64])
    rw [hmap] at this; exact this
  · have := valOf_bound is 0 his
    rw [hl] at this; simpa using this
  · have := encode_valOf is 0 [] his
    rw [hl, hmap] at this
    simpa [aiduToAidc] using this

/-! #### (i) name → number → name on the domain -/

theorem render_eq (isM : Bool) (t p : Nat) :
    render isM t p = body (if isM then 77 else 71) t p ++ List.replicate 10 0 := by
  have hl : (body (if isM then 77 else 71) t p).length = 18 := by
    simp [body, digitsFixed_length, hex3]
  have hF : FNLEN = 28 := by decide +kernel
  unfold render
  show copyInto FNLEN (body _ t p) = _
  rw [hF, copyInto_of_le _ _ (by omega), hl]

theorem fnToAidu_render (isM : Bool) (t p : Nat) (h : InDomain t p) :
    fnToAidu (render isM t p) = code isM t p := by
  obtain ⟨h1, h2, h3⟩ := h
  obtain ⟨d0, d1, d2, d3, d4, d5, d6, d7, d8, d9, hd⟩ := length10 _ (digitsFixed_length 10 t)
  have hat : atoi [d0, d1, d2, d3, d4, d5, d6, d7, d8, d9] = some (Int.ofNat t) := by
    rw [← hd, atoi_digitsFixed 9 t]
    congr 2; exact Nat.mod_eq_of_lt (by omega)
  have hhx := parseHex3_hex3 p h3
  rw [render_eq]
  unfold body
  rw [hd]
  unfold hex3 at hhx ⊢
  unfold fnToAidu fnType fnCreateTime
  have ht32 := toInt32_ofNat t (by omega)
  have ht64 := int32ToU64_ofNat t (by omega)
  cases isM <;>
  · simp [hat, hhx, code, ht32, ht64, two64]
    omega

theorem aiduToFN_code (isM : Bool) (t p : Nat) (h : InDomain t p) :
    aiduToFN (code isM t p) = render isM t p := by
  obtain ⟨h1, h2, h3⟩ := h
  have hty : aiduType (code isM t p) = if isM then 0 else 1 := by
    unfold aiduType code; cases isM <;> simp <;> omega
  have htm : aiduTime (code isM t p) = Int.ofNat t := by
    have e : (code isM t p / 2 ^ 12) % 2 ^ 32 = t := by
      unfold code; cases isM <;> simp <;> omega
    unfold aiduTime; rw [e]; exact toInt32_ofNat t (by omega)
  have hpf : aiduPostfix (code isM t p) = p := by
    unfold aiduPostfix code; cases isM <;> simp <;> omega
  have hdec : intToDec (Int.ofNat t) = digitsFixed 10 t := by
    unfold intToDec
    simp only [Int.natAbs_natCast, Int.ofNat_eq_natCast]
    exact natToDec_eq_digitsFixed 9 t (by omega) (by omega)
  unfold aiduToFN render
  rw [hty, htm, hpf, hdec]
  cases isM <;> simp

/-- (i) converting a name of the domain to its number and back yields the same name. -/
theorem fn_roundtrip (isM : Bool) (t p : Nat) (h : InDomain t p) :
    aiduToFN (fnToAidu (render isM t p)) = render isM t p := by
  rw [fnToAidu_render isM t p h, aiduToFN_code isM t p h]

/-- (ii) distinct names have distinct numbers. -/
theorem toAidu_injective (m m' : Bool) (t p t' p' : Nat) (h : InDomain t p) (h' : InDomain t' p')
    (e : fnToAidu (render m t p) = fnToAidu (render m' t' p')) : m = m' ∧ t = t' ∧ p = p' := by
  rw [fnToAidu_render m t p h, fnToAidu_render m' t' p' h'] at e
  obtain ⟨h1, h2, h3⟩ := h
  obtain ⟨h1', h2', h3'⟩ := h'
  unfold code at e
  cases m <;> cases m' <;> simp at e <;> (refine ⟨by first | rfl | omega, ?_, ?_⟩ <;> omega)

theorem code_lt (isM : Bool) (t p : Nat) (h : InDomain t p) : code isM t p < 2 ^ 48 := by
  obtain ⟨h1, h2, h3⟩ := h
  unfold code; cases isM <;> simp <;> omega

theorem idName_render (isM : Bool) (t p : Nat) : idName (render isM t p) = render isM t p := by
  rw [render_eq]; unfold idName isDeleted body
  cases isM <;> simp

/-- the safe-delete mark: the first two bytes of the name become ".d" (cmsys.DeleteRecord). -/
def markDeleted (f : List Nat) : List Nat := [46, 100] ++ f.drop 2

/-- a delete-marked entry is encoded under its original (type M) name, so its id still designates
the index entry with that time and suffix (what the paging cursor relies on). -/
theorem idName_deleted (isM : Bool) (t p : Nat) :
    idName (markDeleted (render isM t p)) = render true t p := by
  have hl : (body 77 t p).length = 18 := by simp [body, digitsFixed_length, hex3]
  have hF : FNLEN = 28 := by decide +kernel
  rw [render_eq, render_eq]
  unfold idName isDeleted markDeleted body
  rw [hF]
  cases isM <;>
  · simp [copyInto, digitsFixed_length, hex3]
    apply List.take_of_length_le
    simp [digitsFixed_length]

theorem toArticleID_deleted (isM : Bool) (t p : Nat) :
    toArticleID (markDeleted (render isM t p)) = toArticleID (render true t p) := by
  unfold toArticleID; rw [idName_deleted, idName_render]

/-- the 8-character id shown to clients designates the one article it was produced from. -/
theorem articleId_roundtrip (isM : Bool) (t p : Nat) (h : InDomain t p) :
    articleIDToRaw (toArticleID (render isM t p)) = .ok (render isM t p) := by
  unfold toArticleID articleIDToRaw
  rw [idName_render, fnToAidu_render isM t p h]
  have hnz : ∀ c ∈ aiduToAidc (code isM t p), c ≠ 0 :=
    toAidcAux_nonzero 8 _ [] (by simp)
  rw [cstr_of_nonzero _ hnz]
  have hc : copyInto 8 (aiduToAidc (code isM t p)) = aiduToAidc (code isM t p) := by
    rw [copyInto_of_le _ _ (by rw [aiduToAidc_length]; omega), aiduToAidc_length]; simp
  rw [hc, aidu_aidc_inv _ (code_lt isM t p h)]
  simp [bind, Except.bind, pure, Except.pure, aiduToFN_code isM t p h]

/-- the id text of a name of the domain is 8 alphabet characters (no terminator inside). -/
theorem articleId_length (isM : Bool) (t p : Nat) :
    (toArticleID (render isM t p)).length = 8 := by
  unfold toArticleID
  rw [idName_render]
  have hnz : ∀ c ∈ aiduToAidc (fnToAidu (render isM t p)), c ≠ 0 :=
    toAidcAux_nonzero 8 _ [] (by simp)
  rw [cstr_of_nonzero _ hnz]
  exact aiduToAidc_length _

/-! #### (iv) decoding arbitrary client text never faults -/

theorem aidc_decode_total (cs : List Nat) : ∃ v, aidcToAidu cs = .ok v :=
  aidcToAiduAux_total cs 0

theorem decode_total (a : List Nat) : ∃ f, articleIDToRaw a = .ok f := by
  unfold articleIDToRaw
  obtain ⟨v, hv⟩ := aidc_decode_total (copyInto 8 a)
  exact ⟨aiduToFN v, by rw [hv]; rfl⟩

/-! #### (v) designation: what is shown to a client leads back to the one article it was produced from

`webURL`, `urlLine`, `resolveURL`, `resolveLine`, `listEntry`, `aidcText` are the functions the
`designate` pass of the driver runs against ptt.GetWebURL, the line DoPostArticle stores, the real
decoder and bbs.NewArticleSummaryFromRaw. -/

/-- the 8 characters GetWebURL / the cross-post header print decode (`ArticleID.ToRaw`) to the record's
file name. -/
theorem aidcText_decodes (isM : Bool) (t p : Nat) (h : InDomain t p) :
    articleIDToRaw (aidcText (render isM t p)) = .ok (render isM t p) := by
  have := articleId_roundtrip isM t p h
  unfold toArticleID at this
  rw [idName_render] at this
  exact this

/-- file-name url: `URL_PREFIX/board/name.html` read back gives the board and exactly that record's
file name (no hypothesis on time or suffix is needed for this form). -/
theorem webURL_file_resolves (pfx board : List Nat) (isM : Bool) (t p : Nat) (hb : 47 ∉ cstr board) :
    resolveURL false pfx (webURL false pfx board (render isM t p))
      = .ok (some (cstr board, render isM t p)) := by
  have e : webURL false pfx board (render isM t p)
      = (pfx ++ [47]) ++ (cstr board ++ 47 :: (body (if isM then 77 else 71) t p ++ htmlExt)) := by
    simp [webURL, cstr_render]
  rw [e]
  unfold resolveURL
  rw [stripPrefix_append]
  simp only []
  rw [splitSlash_append _ _ hb]
  simp only [Bool.false_eq_true, if_false]
  rw [stripSuffix_append]
  simp only []
  rw [← render_body]
  rfl

/-- id url (USE_AID_URL): `URL_PREFIX/board/<aidc>` read back through the real decoder's model gives the
board and exactly that record's file name. -/
theorem webURL_aid_resolves (pfx board : List Nat) (isM : Bool) (t p : Nat) (h : InDomain t p)
    (hb : 47 ∉ cstr board) :
    resolveURL true pfx (webURL true pfx board (render isM t p))
      = .ok (some (cstr board, render isM t p)) := by
  have e : webURL true pfx board (render isM t p)
      = (pfx ++ [47]) ++ (cstr board ++ 47 :: aidcText (render isM t p)) := by
    simp [webURL]
  rw [e]
  unfold resolveURL
  rw [stripPrefix_append]
  simp only []
  rw [splitSlash_append _ _ hb]
  simp only [if_true]
  rw [aidcText_decodes isM t p h]
  rfl

/-- both url forms. -/
theorem webURL_resolves (useAid : Bool) (pfx board : List Nat) (isM : Bool) (t p : Nat)
    (h : InDomain t p) (hb : 47 ∉ cstr board) :
    resolveURL useAid pfx (webURL useAid pfx board (render isM t p))
      = .ok (some (cstr board, render isM t p)) := by
  cases useAid
  · exact webURL_file_resolves pfx board isM t p hb
  · exact webURL_aid_resolves pfx board isM t p h hb

/-- the line stored in the article (display name, blank, url, newline) leads back to the board and the
file name of the record it was computed from. -/
theorem urlLine_resolves (useAid : Bool) (disp pfx board : List Nat) (isM : Bool) (t p : Nat)
    (h : InDomain t p) (hb : 47 ∉ cstr board) :
    resolveLine useAid disp pfx (urlLine disp (webURL useAid pfx board (render isM t p)))
      = .ok (some (cstr board, render isM t p)) := by
  have e : urlLine disp (webURL useAid pfx board (render isM t p))
      = (disp ++ [32]) ++ (webURL useAid pfx board (render isM t p) ++ [10]) := by
    simp [urlLine]
  rw [e]
  unfold resolveLine
  rw [stripPrefix_append]
  simp only []
  rw [stripSuffix_append]
  simp only []
  exact webURL_resolves useAid pfx board isM t p h hb

/-- two names of the domain are the same name when they render the same. -/
theorem render_injective (m m' : Bool) (t p t' p' : Nat) (h : InDomain t p) (h' : InDomain t' p')
    (e : render m t p = render m' t' p') : m = m' ∧ t = t' ∧ p = p' :=
  toAidu_injective m m' t p t' p' h h' (by rw [e])

/-- two records with different names (or of different boards) never get the same url: a url designates
one board and one file name. -/
theorem webURL_injective (useAid : Bool) (pfx board board' : List Nat) (m m' : Bool) (t p t' p' : Nat)
    (h : InDomain t p) (h' : InDomain t' p') (hb : 47 ∉ cstr board) (hb' : 47 ∉ cstr board')
    (e : webURL useAid pfx board (render m t p) = webURL useAid pfx board' (render m' t' p')) :
    cstr board = cstr board' ∧ m = m' ∧ t = t' ∧ p = p' := by
  have r := webURL_resolves useAid pfx board m t p h hb
  rw [e, webURL_resolves useAid pfx board' m' t' p' h' hb'] at r
  injection r with r
  injection r with r
  injection r with rb rn
  exact ⟨rb.symm, render_injective m m' t p t' p' h h' rn.symm⟩

/-- the same for the stored lines. -/
theorem urlLine_injective (useAid : Bool) (disp pfx board board' : List Nat) (m m' : Bool)
    (t p t' p' : Nat) (h : InDomain t p) (h' : InDomain t' p')
    (hb : 47 ∉ cstr board) (hb' : 47 ∉ cstr board')
    (e : urlLine disp (webURL useAid pfx board (render m t p))
       = urlLine disp (webURL useAid pfx board' (render m' t' p'))) :
    cstr board = cstr board' ∧ m = m' ∧ t = t' ∧ p = p' := by
  have r := urlLine_resolves useAid disp pfx board m t p h hb
  rw [e, urlLine_resolves useAid disp pfx board' m' t' p' h' hb'] at r
  injection r with r
  injection r with r
  injection r with rb rn
  exact ⟨rb.symm, render_injective m m' t p t' p' h h' rn.symm⟩

/-- the id a listing entry (or the answer of CreateArticle) reports decodes to the entry's file name. -/
theorem listEntry_id_decodes (isM : Bool) (t p owner0 : Nat) (h : InDomain t p) :
    articleIDToRaw (listEntry (render isM t p) owner0).id = .ok (render isM t p) :=
  articleId_roundtrip isM t p h

/-- the file name string an entry reports is the record's file name. -/
theorem listEntry_filename (isM : Bool) (t p owner0 : Nat) :
    copyInto FNLEN (listEntry (render isM t p) owner0).filename = render isM t p := by
  show copyInto FNLEN (cstr (render isM t p)) = _
  rw [cstr_render, ← render_body]

/-- a delete-marked entry is reported as deleted, and its id decodes to the name the article file still
has in the board directory (`M.` + the rest of the name). -/
theorem listEntry_deleted (isM : Bool) (t p owner0 : Nat) (h : InDomain t p) :
    (listEntry (markDeleted (render isM t p)) owner0).deleted = true ∧
    articleIDToRaw (listEntry (markDeleted (render isM t p)) owner0).id = .ok (render true t p) := by
  refine ⟨by simp [listEntry, markDeleted], ?_⟩
  show articleIDToRaw (toArticleID (markDeleted (render isM t p))) = _
  rw [toArticleID_deleted]
  exact articleId_roundtrip true t p h

/-- entries with different names report different ids. -/
theorem listEntry_id_injective (m m' : Bool) (t p t' p' o o' : Nat) (h : InDomain t p) (h' : InDomain t' p')
    (e : (listEntry (render m t p) o).id = (listEntry (render m' t' p') o').id) :
    m = m' ∧ t = t' ∧ p = p' := by
  have r := listEntry_id_decodes m t p o h
  rw [e, listEntry_id_decodes m' t' p' o' h'] at r
  injection r with r
  exact render_injective m m' t p t' p' h h' r.symm

/-- the ids of a listing are pairwise distinct when the names in the index are. -/
theorem listing_ids_nodup (es : List (Bool × Nat × Nat)) (hd : ∀ e ∈ es, InDomain e.2.1 e.2.2)
    (hn : es.Nodup) (o : Nat) :
    (es.map (fun e => (listEntry (render e.1 e.2.1 e.2.2) o).id)).Nodup := by
  induction es with
  | nil => simp
  | cons a l ih =>
    rw [List.nodup_cons] at hn
    rw [List.map_cons, List.nodup_cons]
    refine ⟨?_, ih (fun e he => hd e (by simp [he])) hn.2⟩
    intro hm
    rw [List.mem_map] at hm
    obtain ⟨b, hb, eb⟩ := hm
    have := listEntry_id_injective b.1 a.1 b.2.1 b.2.2 a.2.1 a.2.2 o o
      (hd b (by simp [hb])) (hd a (by simp)) eb
    have hab : b = a := by
      obtain ⟨b1, b2, b3⟩ := b
      obtain ⟨a1, a2, a3⟩ := a
      simp at this
      simp [this]
    exact hn.1 (hab ▸ hb)

/-! #### (vi) an id addresses the entry whose name it encodes, or nothing

`filenameEq` is `Filename_t.Eq` as the code has it, `confirmWith filenameEq` the last step of
`cmsys.GetRecord`, `resolveId` an entry point that is handed an id; the position the search proposes
(FindRecordStartIdx: exact hit or the nearest entry — C06) is arbitrary here. -/

/-- `Eq` holds between two names of the domain exactly when creation time and suffix agree (the type
letter is not compared). -/
theorem filenameEq_render (m m' : Bool) (t p t' p' : Nat) (h : InDomain t p) (h' : InDomain t' p') :
    filenameEq (render m t p) (render m' t' p') = true ↔ t = t' ∧ p = p' := by
  unfold filenameEq
  rw [cstr_drop2_render, cstr_drop2_render]
  constructor
  · intro e
    have e' : tail18 t p = tail18 t' p' := by simpa using e
    have r : render true t p = render true t' p' := by rw [render_of_tail, render_of_tail, e']
    exact (render_injective true true t p t' p' h h' r).2
  · rintro ⟨rfl, rfl⟩; simp

/-- a delete-marked entry compares like the name it had. -/
theorem filenameEq_deleted (f g : List Nat) : filenameEq f (markDeleted g) = filenameEq f g := by
  simp [filenameEq, markDeleted]

/-- the confirmation returns the proposed position or nothing, and only an entry that `Eq`s the name. -/
theorem confirm_sound (idx : List (List Nat)) (want : List Nat) (pos q : Nat)
    (e : confirmWith filenameEq idx want pos = some q) :
    q = pos ∧ ∃ h, idx[pos]? = some h ∧ filenameEq want h = true := by
  unfold confirmWith at e
  cases hh : idx[pos]? with
  | none => simp [hh] at e
  | some h =>
    simp only [hh] at e
    by_cases c : filenameEq want h = true
    · simp [c] at e; exact ⟨e.symm, h, rfl, c⟩
    · simp [c] at e

/-- an index entry: delete-marked or not, type letter, time, suffix. -/
def entryName (e : Bool × Bool × Nat × Nat) : List Nat :=
  if e.1 then markDeleted (render e.2.1 e.2.2.1 e.2.2.2) else render e.2.1 e.2.2.1 e.2.2.2

theorem filenameEq_entry (m : Bool) (t p : Nat) (e : Bool × Bool × Nat × Nat) (h : InDomain t p)
    (he : InDomain e.2.2.1 e.2.2.2) :
    filenameEq (render m t p) (entryName e) = true ↔ t = e.2.2.1 ∧ p = e.2.2.2 := by
  unfold entryName
  split
  · rw [filenameEq_deleted]; exact filenameEq_render m e.2.1 t p e.2.2.1 e.2.2.2 h he
  · exact filenameEq_render m e.2.1 t p e.2.2.1 e.2.2.2 h he

/-- whatever position the search proposes (an exact hit, the nearest older entry, anything): an entry
point handed the id of a name resolves it to an entry with that creation time and suffix — never to a
neighbour. -/
theorem resolveId_designates (es : List (Bool × Bool × Nat × Nat)) (hd : ∀ e ∈ es, InDomain e.2.2.1 e.2.2.2)
    (m : Bool) (t p : Nat) (h : InDomain t p) (propose : List (List Nat) → List Nat → Nat) (pos : Nat)
    (r : resolveId (es.map entryName) (toArticleID (render m t p)) propose = .ok (some pos)) :
    ∃ e, es[pos]? = some e ∧ e.2.2.1 = t ∧ e.2.2.2 = p := by
  unfold resolveId at r
  rw [articleId_roundtrip m t p h] at r
  simp only [bind, Except.bind, pure, Except.pure, Except.ok.injEq] at r
  obtain ⟨hq, nm, hn, heq⟩ := confirm_sound _ _ _ _ r
  rw [← hq, List.getElem?_map] at hn
  cases he : es[pos]? with
  | none => simp [he] at hn
  | some e =>
    simp only [he, Option.map_some, Option.some.injEq] at hn
    subst hn
    have hm : e ∈ es := List.mem_of_getElem? he
    have := (filenameEq_entry m t p e h (hd e hm)).1 heq
    exact ⟨e, rfl, this.1.symm, this.2.symm⟩

/-- an id whose name has no entry in the index (article removed, arbitrary client text) resolves to
nothing, wherever the search falls back to. -/
theorem resolveId_absent (es : List (Bool × Bool × Nat × Nat)) (hd : ∀ e ∈ es, InDomain e.2.2.1 e.2.2.2)
    (m : Bool) (t p : Nat) (h : InDomain t p) (propose : List (List Nat) → List Nat → Nat)
    (habs : ∀ e ∈ es, ¬ (e.2.2.1 = t ∧ e.2.2.2 = p)) :
    resolveId (es.map entryName) (toArticleID (render m t p)) propose = .ok none := by
  cases r : resolveId (es.map entryName) (toArticleID (render m t p)) propose with
  | error f =>
    unfold resolveId at r
    rw [articleId_roundtrip m t p h] at r
    simp [bind, Except.bind, pure, Except.pure] at r
  | ok o =>
    cases o with
    | none => rfl
    | some pos =>
      obtain ⟨e, he, h1, h2⟩ := resolveId_designates es hd m t p h propose pos r
      exact absurd ⟨h1, h2⟩ (habs e (List.mem_of_getElem? he))

/-- the comparison "suffix only" (the three hex digits, `Filename_t.Postfix`). -/
def suffixEq (f g : List Nat) : Bool := (f.take 18).drop 15 == (g.take 18).drop 15

/-- why the creation time has to be part of `Eq`: with the suffix-only rule the confirmation accepts the
nearest entry for an absent name one second later; with the code's rule it does not. -/
theorem suffix_rule_witness :
    confirmWith suffixEq [render true 1607203395 13] (render true 1607203396 13) 0 = some 0 ∧
    confirmWith filenameEq [render true 1607203395 13] (render true 1607203396 13) 0 = none := by
  decide +kernel

/-! #### non-vacuity: the domain is inhabited and the statements say something on it -/

/-- "WhoAmI" in a 13-byte board-name array. -/
def exBoard : List Nat := [87, 104, 111, 65, 109, 73, 0, 0, 0, 0, 0, 0, 0]
/-- "http://localhost/bbs" -/
def exPrefix : List Nat :=
  [104, 116, 116, 112, 58, 47, 47, 108, 111, 99, 97, 108, 104, 111, 115, 116, 47, 98, 98, 115]

example : (47 : Nat) ∉ cstr exBoard := by decide
example : InDomain 1234567890 0x1AB ∧ InDomain 1234567890 0x1AC := by unfold InDomain; omega
-- the hypotheses of the designation theorems hold for a concrete record, in both url forms
example : resolveURL true exPrefix (webURL true exPrefix exBoard (render true 1234567890 0x1AB))
    = .ok (some (cstr exBoard, render true 1234567890 0x1AB)) :=
  webURL_resolves true exPrefix exBoard true 1234567890 0x1AB (by unfold InDomain; omega) (by decide)
example : resolveLine false [37] exPrefix (urlLine [37] (webURL false exPrefix exBoard (render true 1234567890 0x1AB)))
    = .ok (some (cstr exBoard, render true 1234567890 0x1AB)) :=
  urlLine_resolves false [37] exPrefix exBoard true 1234567890 0x1AB (by unfold InDomain; omega) (by decide)
-- two records of one board that differ only in the last suffix digit have different urls and ids
example : webURL true exPrefix exBoard (render true 1234567890 0x1AB)
    ≠ webURL true exPrefix exBoard (render true 1234567890 0x1AC) := by
  intro e
  have := webURL_injective true exPrefix exBoard exBoard true true 1234567890 0x1AB 1234567890 0x1AC
    (by unfold InDomain; omega) (by unfold InDomain; omega) (by decide) (by decide) e
  omega
example : (listEntry (render true 1234567890 0x1AB) 83).id ≠ (listEntry (render true 1234567890 0x1AC) 83).id := by
  intro e
  have := listEntry_id_injective true true 1234567890 0x1AB 1234567890 0x1AC 83 83
    (by unfold InDomain; omega) (by unfold InDomain; omega) e
  omega
example : ([(true, 1234567890, 0x1AB), (true, 1234567890, 0x1AC), (false, 1234567890, 0x1AB)] :
    List (Bool × Nat × Nat)).Nodup := by decide
-- the file-name url of a concrete record, spelled out
example : webURL false [104] exBoard (render true 1234567890 0x1AB)
    = [104, 47, 87, 104, 111, 65, 109, 73, 47, 77, 46, 49, 50, 51, 52, 53, 54, 55, 56, 57, 48, 46, 65, 46,
       49, 65, 66, 46, 104, 116, 109, 108] := by decide +kernel


example : InDomain 1234567890 0x1AB := by unfold InDomain; omega
example : fnToAidu (render true 1234567890 0x1AB) = 5056790077867 := by decide +kernel
example : aidcToAidu [128, 255, 48, 48, 48, 48, 48, 48] = .ok 0 := by
  simp [aidcToAidu, aidcToAiduAux, table_length]

-- (vi): an index with a present entry, its delete-marked neighbour, and an absent name next to them
example : ∀ e ∈ ([(false, true, 1607203395, 13), (true, true, 1607203395, 14)] : List (Bool × Bool × Nat × Nat)),
    InDomain e.2.2.1 e.2.2.2 ∧ ¬ (e.2.2.1 = 1607203396 ∧ e.2.2.2 = 13) := by
  intro e he
  simp at he
  rcases he with rfl | rfl <;> (unfold InDomain; simp)
example : filenameEq (render true 1607203395 13) (render false 1607203395 13) = true :=
  (filenameEq_render true false 1607203395 13 1607203395 13 (by unfold InDomain; omega) (by unfold InDomain; omega)).2 ⟨rfl, rfl⟩

end PttVerif.C13.Props
