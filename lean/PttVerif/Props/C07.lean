import PttVerif.Proofs.C07
set_option linter.unusedSimpArgs false
set_option linter.unusedVariables false
/-
C07 — Board read access is enforced identically at every read entry point.

`Spec.mayRead` is the rule of the property statement over named bit positions.  The theorems say, for ALL users
(any 32-bit level word, adult flag, uid), ALL boards (any 32-bit attribute and level words) and ALL relation facts:

  * the Go decision `boardPermStat` (masks regenerated from package ptttype) = `Spec.mayRead`;
  * every content-returning entry point of package ptt — its statement list REGENERATED from the source — performs
    the permission test on its own bid argument before any content read, and returns content iff `Spec.mayRead`;
  * every listing function includes a board iff `mayRead ∨ PERM_BOARD ∨ named moderator`, always with its title;
    the single-board summary always answers and shows the title under exactly that condition; the detail query
    answers under exactly that condition;
  * the listing-side write (`newBoardStat` sets BRD_POSTMASK on a hidden unmasked board listed by a non-friend)
    is characterised, and afterwards exactly the privileged and the listed friends can read.
-/
namespace PttVerif.C07.Props
open PttVerif.C07 PttVerif.Gen.Perm

/-! ### the decision -/

/-- the masks regenerated from ptttype are the single bits the rule names -/
theorem perm_constants :
    PERM_BASIC = 2 ^ 0 ∧ PERM_LOGINOK = 2 ^ 4 ∧ PERM_BM = 2 ^ 10 ∧ PERM_BOARD = 2 ^ 13 ∧ PERM_SYSOP = 2 ^ 14 ∧
    PERM_POLICE_MAN = 2 ^ 28 ∧ PERM_POLICE = 2 ^ 31 ∧ BRD_GROUPBOARD = 2 ^ 3 ∧ BRD_HIDE = 2 ^ 4 ∧ BRD_POSTMASK = 2 ^ 5 ∧
    BRD_SYMBOLIC = 2 ^ 15 ∧ BRD_OVER18 = 2 ^ 24 ∧ NBRD_INVALID = 0 ∧ NBRD_FAV = 1 ∧ NBRD_BOARD = 2 ∧
    USE_REAL_DESC_FOR_HIDDEN_BOARD_IN_MYFAV = false := by decide

/-- Go decision = declarative rule, for all users / boards / relations (both level words arbitrary 32-bit values). -/
theorem boardPermStat_eq_spec (u : UserView) (b : BoardView) (r : Relation) :
    (boardPermStat u b r != NBRD_INVALID) = Spec.mayRead u b r :=
  boardPermStat_ne_invalid u b r

example : ∃ u b r, Spec.mayRead u b r = true ∧ boardPermStat u b r = NBRD_FAV :=
  ⟨⟨0#32, false, 2⟩, ⟨0#32, 0#32⟩, ⟨false, false, false⟩, by decide⟩
example : ∃ u b r, Spec.mayRead u b r = false ∧ boardPermStat u b r = NBRD_INVALID :=
  ⟨⟨17#32, false, 2⟩, ⟨48#32, 0#32⟩, ⟨false, false, false⟩, by decide⟩

/-- the decision only ever yields INVALID, FAV or BOARD -/
theorem boardPermStat_values (u : UserView) (b : BoardView) (r : Relation) :
    boardPermStat u b r = NBRD_INVALID ∨ boardPermStat u b r = NBRD_FAV ∨ boardPermStat u b r = NBRD_BOARD := by
  have := boardPermStat_range u b r
  rw [nbrd_vals.1, nbrd_vals.2.1, nbrd_vals.2.2.1]; exact this

/-- `groupOp` is "administers boards or is a named moderator" — the disjunction of the property statement; the
PERM_NOCITIZEN statement of the Go function has no effect. -/
theorem groupOp_eq_administers (u : UserView) (r : Relation) : groupOp u r = Spec.administers u r := groupOp_eq u r

/-! ### read entry points -/

def guardedEntry (name : String) : Bool :=
  match lookup name Gen.ReadEntryPoints.readers with
  | some steps => guardShape steps
  | none => false

/-- the regenerated list covers exactly the required readers, in order -/
theorem entry_list : Gen.ReadEntryPoints.readers.map (·.1) = requiredReaders := by decide

/-- every required reader's regenerated statement list starts (after argument checks that can only refuse) with
GetBCache(bid) / error return / boardPermStat(user, uid, that header, bid) / `== NBRD_INVALID` ⇒ refusal, and only
then reads content.  Dropping, reordering or altering the test at one entry point breaks this. -/
theorem entry_guarded : ∀ name ∈ requiredReaders, guardedEntry name = true := by decide +kernel

/-- each reader returns content iff `mayRead` (a valid bid, no argument check firing); an invalid bid gives the
fetch error. -/
theorem entry_refines (name : String) (hn : name ∈ requiredReaders) (env : ReadEnv) (hp : env.precheck = false) :
    runEntry name env =
      if env.bidValid = false then .invalidBid
      else if Spec.mayRead env.u env.b env.r then .allow else .deny := by
  have hg := entry_guarded name hn
  unfold guardedEntry at hg
  unfold runEntry
  cases hl : lookup name Gen.ReadEntryPoints.readers with
  | none => rw [hl] at hg; exact absurd hg (by simp)
  | some steps =>
    rw [hl] at hg
    simp only []
    rw [runReader_of_guardShape env hp steps hg, ← boardPermStat_eq_spec]
    cases env.bidValid <;> by_cases h : boardPermStat env.u env.b env.r = NBRD_INVALID <;> simp [h]

/-- whatever the arguments (also when an argument check fires, also for an invalid bid): no reader reaches content
for a caller the rule refuses. -/
theorem entry_never_leaks (name : String) (hn : name ∈ requiredReaders) (env : ReadEnv)
    (h : runEntry name env = .allow) : env.bidValid = true ∧ Spec.mayRead env.u env.b env.r = true := by
  have hg := entry_guarded name hn
  unfold guardedEntry at hg
  unfold runEntry at h
  cases hl : lookup name Gen.ReadEntryPoints.readers with
  | none => rw [hl] at hg; exact absurd hg (by simp)
  | some steps =>
    rw [hl] at hg h
    obtain ⟨h1, h2⟩ := allow_of_guardShape env steps hg h
    refine ⟨h1, ?_⟩
    rw [← boardPermStat_eq_spec]; simpa [bne] using h2

example : runEntry "ReadPost" { u := ⟨17#32, false, 2⟩, b := ⟨48#32, 0#32⟩, r := ⟨false, false, false⟩, bidValid := true, precheck := false } = .deny := by
  decide +kernel
example : runEntry "ReadPost" { u := ⟨17#32, false, 2⟩, b := ⟨48#32, 0#32⟩, r := ⟨false, true, false⟩, bidValid := true, precheck := false } = .allow := by
  decide +kernel

/-- bbs.BBoardID.ToRaw (statement list read from the source) compares the client's name with the name of board <bid>
under no other condition than "the board table is attached" — in particular not depending on the table's busy flag —
and nothing before that comparison returns successfully. -/
theorem bbs_name_checked : nameCheckUnconditional = true := by decide

/-- so no bbs read entry point is reached with an inconsistent (number, name) pair, busy table or not -/
theorem bbs_name_mismatch_refused (busy : Bool) (entry : String) (env : ReadEnv) :
    bbsRead busy false entry env = .invalidBid := by
  have h := bbs_name_checked
  unfold bbsRead
  cases hg : nameCheckGuard with
  | none => simp [nameCheckUnconditional, hg] at h
  | some g => simp [h]

/-- and with a consistent pair the wrapper is the ptt entry point -/
theorem bbs_consistent_pair (busy : Bool) (entry : String) (env : ReadEnv) :
    bbsRead busy true entry env = runEntry entry env := by
  have h := bbs_name_checked
  unfold bbsRead
  cases hg : nameCheckGuard with
  | none => rfl
  | some g => simp [h]

/-! ### listings -/

/-- which per-board stat function each listing calls (regenerated) -/
theorem listing_sources :
    statFnOf "LoadGeneralBoards" = some "loadGeneralBoardStat" ∧
    statFnOf "LoadAutoCompleteBoards" = some "loadAutoCompleteBoardStat" ∧
    statFnOf "LoadBoardsByBids" = some "loadBoardStat" ∧
    statFnOf "LoadHotBoards" = some "loadHotBoardStat" ∧
    statFnOf "LoadFullClassBoards" = some "loadClassBoardStat" ∧
    statFnOf "LoadClassBoards" = some "loadClassBoardStat" := by decide

/-- the caller may see the board in a listing -/
def maySee (u : UserView) (b : BoardView) (r : Relation) : Bool := Spec.mayRead u b r || Spec.administers u r

/-- the header in the shared cache after a listing / summary call that reached newBoardStat -/
def after (u : UserView) (b : BoardView) (r : Relation) : BoardView :=
  if boardPermStat u b r == NBRD_BOARD then setMask b else b

/-- which boards a listing function lists at all -/
def kindOK (listing : String) (b : BoardView) : Bool :=
  if listing = "LoadBoardsByBids" then true
  else if listing = "LoadFullClassBoards" || listing = "LoadClassBoards" then Spec.groupOrSymbolic b
  else !Spec.groupOrSymbolic b

/-- the common tail of every stat function: the permission filter `!((state != NBRD_INVALID) || isGroupOp)`, then
newBoardStat, then parseBoardSummary. -/
theorem listing_core (u : UserView) (b : BoardView) (r : Relation) (f : Bool) (s : String) :
    (match
        (match some (!(boardPermStat u b r != NBRD_INVALID) && !groupOp u r) with
         | some true => StatOut.skipped s
         | some false => StatOut.included (newBoardStat (boardPermStat u b r) b (groupOp u r)).fst (newBoardStat (boardPermStat u b r) b (groupOp u r)).snd
         | none => StatOut.unmodelled "filter") with
      | StatOut.skipped _ => (ListOut.absent, b)
      | StatOut.included bs b' => (ListOut.present (parseBoardSummary bs f), b')
      | StatOut.unmodelled x => (ListOut.unmodelled x, b)) =
    (if maySee u b r then (ListOut.present Shape.full, after u b r) else (ListOut.absent, b)) := by
  rw [newBoardStat_eq, mut_cond]
  unfold maySee after
  rw [← boardPermStat_eq_spec, ← groupOp_eq]
  have hr := boardPermStat_range u b r
  generalize boardPermStat u b r = v at hr ⊢
  generalize groupOp u r = g
  rw [nbrd_vals.1, nbrd_vals.2.2.1]
  rcases hr with rfl | rfl | rfl <;> cases g <;> simp [parse_of_range]

/-- a listing includes a board iff `mayRead ∨ PERM_BOARD ∨ named moderator` — the code's disjunction is the
statement's — always with the full summary (title), and leaves the header as `after` says.  (Board in use, of the
kind the listing shows, no keyword filter.) -/
theorem listing_filter (listing : String) (hl : listing ∈ stepListings) (u : UserView) (b : BoardView) (r : Relation)
    (hk : kindOK listing b = true) :
    listBoard listing { u := u, b := b, r := r } =
      if maySee u b r then (.present .full, after u b r) else (.absent, b) := by
  simp only [stepListings, List.mem_cons, List.mem_nil_iff, or_false] at hl
  rcases hl with rfl | rfl | rfl | rfl | rfl | rfl
  all_goals unfold listBoard
  · rw [listing_sources.1]
    simp only [Gen.ReadEntryPoints.statFns, lookup, String.reduceEq, ↓reduceIte]
    simp [runStat, evalFilter, evalDisjunct, Step.kind, Step.a, Step.b, Step.c, Step.ds, harmlessStatCallees]
    have hk' : (Spec.bit b.attr 3 || Spec.bit b.attr 15) = false := by simpa [kindOK, Spec.groupOrSymbolic] using hk
    rw [test_GROUPSYM', hk']
    exact listing_core u b r _ _
  · rw [listing_sources.2.1]
    simp only [Gen.ReadEntryPoints.statFns, lookup, String.reduceEq, ↓reduceIte]
    simp [runStat, evalFilter, evalDisjunct, Step.kind, Step.a, Step.b, Step.c, Step.ds, harmlessStatCallees]
    have hk' : (Spec.bit b.attr 3 || Spec.bit b.attr 15) = false := by simpa [kindOK, Spec.groupOrSymbolic] using hk
    rw [test_GROUPSYM', hk']
    exact listing_core u b r _ _
  · rw [listing_sources.2.2.1]
    simp only [Gen.ReadEntryPoints.statFns, lookup, String.reduceEq, ↓reduceIte]
    simp [runStat, evalFilter, evalDisjunct, Step.kind, Step.a, Step.b, Step.c, Step.ds, harmlessStatCallees]
    exact listing_core u b r _ _
  · rw [listing_sources.2.2.2.1]
    simp only [Gen.ReadEntryPoints.statFns, lookup, String.reduceEq, ↓reduceIte]
    simp [runStat, evalFilter, evalDisjunct, Step.kind, Step.a, Step.b, Step.c, Step.ds, harmlessStatCallees]
    have hk' : (Spec.bit b.attr 3 || Spec.bit b.attr 15) = false := by simpa [kindOK, Spec.groupOrSymbolic] using hk
    rw [test_GROUPSYM', hk']
    exact listing_core u b r _ _
  · rw [listing_sources.2.2.2.2.1]
    simp only [Gen.ReadEntryPoints.statFns, lookup, String.reduceEq, ↓reduceIte]
    simp [runStat, evalFilter, evalDisjunct, Step.kind, Step.a, Step.b, Step.c, Step.ds, harmlessStatCallees]
    have hk' : (Spec.bit b.attr 3 || Spec.bit b.attr 15) = true := by simpa [kindOK, Spec.groupOrSymbolic] using hk
    rw [test_GROUPSYM', hk']
    exact listing_core u b r _ _
  · rw [listing_sources.2.2.2.2.2]
    simp only [Gen.ReadEntryPoints.statFns, lookup, String.reduceEq, ↓reduceIte]
    simp [runStat, evalFilter, evalDisjunct, Step.kind, Step.a, Step.b, Step.c, Step.ds, harmlessStatCallees]
    have hk' : (Spec.bit b.attr 3 || Spec.bit b.attr 15) = true := by simpa [kindOK, Spec.groupOrSymbolic] using hk
    rw [test_GROUPSYM', hk']
    exact listing_core u b r _ _

example : ∃ u b r, maySee u b r = true ∧ Spec.mayRead u b r = false :=
  ⟨⟨8209#32, false, 2⟩, ⟨48#32, 0#32⟩, ⟨false, false, false⟩, by decide⟩

/-- a listing never shows a masked entry: whoever is listed gets the title, whoever is not allowed gets nothing -/
theorem listing_never_masks (listing : String) (hl : listing ∈ stepListings) (u : UserView) (b : BoardView) (r : Relation)
    (hk : kindOK listing b = true) :
    (listBoard listing { u := u, b := b, r := r }).1 ≠ .present .masked := by
  rw [listing_filter listing hl u b r hk]; cases maySee u b r <;> simp

/-! ### single-board summary and detail -/

/-- ptt.LoadBoardSummary always answers for a valid bid; the title is there iff the caller may see the board. -/
theorem summary_masks_title (u : UserView) (b : BoardView) (r : Relation) :
    loadBoardSummary { u := u, b := b, r := r } =
      (.present (if maySee u b r then .full else .masked), after u b r) ∧
    Shape.hasTitle (if maySee u b r then .full else .masked) = maySee u b r := by
  constructor
  · unfold loadBoardSummary
    simp only [Gen.ReadEntryPoints.summaryFns, lookup, String.reduceEq, ↓reduceIte]
    simp [runStat, evalFilter, evalDisjunct, Step.kind, Step.a, Step.b, Step.c, Step.ds, harmlessStatCallees]
    rw [newBoardStat_eq, mut_cond]
    unfold maySee after
    rw [← boardPermStat_eq_spec, ← groupOp_eq]
    have hr := boardPermStat_range u b r
    generalize boardPermStat u b r = v at hr ⊢
    generalize groupOp u r = g
    rw [nbrd_vals.1, nbrd_vals.2.2.1]
    rcases hr with rfl | rfl | rfl <;> cases g <;> simp [parse_of_range]
  · cases maySee u b r <;> simp [Shape.hasTitle, perm_constants.2.2.2.2.2.2.2.2.2.2.2.2.2.2.2]

/-- ptt.LoadBoardDetail hands out the header under the rule of the listings. -/
theorem detail_filter (u : UserView) (b : BoardView) (r : Relation) :
    loadBoardDetail { u := u, b := b, r := r } =
      if maySee u b r then (.present .full, after u b r) else (.absent, b) := by
  unfold loadBoardDetail
  simp only [Gen.ReadEntryPoints.summaryFns, lookup, String.reduceEq, ↓reduceIte]
  simp [runStat, evalFilter, evalDisjunct, Step.kind, Step.a, Step.b, Step.c, Step.ds, harmlessStatCallees]
  rw [newBoardStat_eq, mut_cond]
  unfold maySee after
  rw [← boardPermStat_eq_spec, ← groupOp_eq]
  have hr := boardPermStat_range u b r
  generalize boardPermStat u b r = v at hr ⊢
  generalize groupOp u r = g
  rw [nbrd_vals.1, nbrd_vals.2.2.1]
  rcases hr with rfl | rfl | rfl <;> cases g <;> simp [skippedOut]

/-- an invalid bid is refused by both single-board queries before anything else -/
theorem single_board_invalid_bid (u : UserView) (b : BoardView) (r : Relation) :
    (loadBoardSummary { u := u, b := b, r := r, bidInvalid := true }).1 = .invalidBid ∧
    (loadBoardDetail { u := u, b := b, r := r, bidInvalid := true }).1 = .invalidBid := by
  constructor
  · unfold loadBoardSummary
    simp only [Gen.ReadEntryPoints.summaryFns, lookup, String.reduceEq, ↓reduceIte]
    simp [runStat, evalFilter, evalDisjunct, Step.kind, Step.a, Step.b, Step.c, Step.ds, harmlessStatCallees, skippedOut]
  · unfold loadBoardDetail
    simp only [Gen.ReadEntryPoints.summaryFns, lookup, String.reduceEq, ↓reduceIte]
    simp [runStat, evalFilter, evalDisjunct, Step.kind, Step.a, Step.b, Step.c, Step.ds, harmlessStatCallees, skippedOut]

/-! ### the listing-side write -/

/-- the header is rewritten exactly when a hidden, unmasked board is seen by a caller who is neither privileged nor
a friend; the write sets BRD_POSTMASK and nothing else. -/
theorem mutation_when (u : UserView) (b : BoardView) (r : Relation) :
    after u b r =
      if !Spec.sysop u && !(Spec.moderatorsBoard b && Spec.police u) && !Spec.moderator u r &&
          Spec.hidden b && !r.friend && !Spec.restricted b
      then setMask b else b := by
  unfold after; rw [boardPermStat_eq_BOARD]

theorem setMask_bits (b : BoardView) :
    Spec.restricted (setMask b) = true ∧ Spec.hidden (setMask b) = Spec.hidden b ∧
    Spec.adultOnly (setMask b) = Spec.adultOnly b ∧ Spec.groupOrSymbolic (setMask b) = Spec.groupOrSymbolic b ∧
    (setMask b).level = b.level := by
  simp [setMask, Spec.restricted, Spec.hidden, Spec.adultOnly, Spec.groupOrSymbolic, bit_setMask]

/-- `mayRead` is a function of the CURRENT attributes: once the mask is set on a hidden board, exactly the
privileged, the board's moderators and the listed friends read it — for every user, not only the one who listed. -/
theorem mayRead_after_mask (b : BoardView) (hb : Spec.hidden b = true) (u' : UserView) (r' : Relation) :
    Spec.mayRead u' (setMask b) r' =
      (Spec.sysop u' || (Spec.moderatorsBoard b && Spec.police u') || Spec.moderator u' r' || r'.friend) := by
  have h := setMask_bits b
  unfold Spec.mayRead
  rw [h.2.1, hb, h.1]
  simp [Spec.moderatorsBoard, h.2.2.2.2]

/-- the write never widens access -/
theorem mask_only_restricts (b : BoardView) (hb : Spec.hidden b = true) (u' : UserView) (r' : Relation)
    (h : Spec.mayRead u' (setMask b) r' = true) : Spec.mayRead u' b r' = true := by
  rw [mayRead_after_mask b hb] at h
  unfold Spec.mayRead
  rw [hb]
  cases h1 : Spec.sysop u' <;> cases h2 : (Spec.moderatorsBoard b && Spec.police u') <;> cases h3 : Spec.moderator u' r' <;>
    cases h4 : r'.friend <;> simp_all

/-- "list first, then read": the caller whose listing set the mask was shown the board (with its title) by that
listing, and is refused by every reader afterwards. -/
theorem list_then_read (listing : String) (hl : listing ∈ stepListings) (name : String) (hn : name ∈ requiredReaders)
    (u : UserView) (b : BoardView) (r : Relation) (hk : kindOK listing b = true)
    (hm : after u b r ≠ b) :
    (listBoard listing { u := u, b := b, r := r }).1 = .present .full ∧
    runEntry name { u := u, b := (listBoard listing { u := u, b := b, r := r }).2, r := r, bidValid := true, precheck := false } = .deny := by
  have hB : (boardPermStat u b r == NBRD_BOARD) = true := by
    unfold after at hm
    cases h : (boardPermStat u b r == NBRD_BOARD)
    · rw [h] at hm; exact absurd rfl hm
    · rfl
  have hsee : maySee u b r = true := by
    unfold maySee; rw [← boardPermStat_eq_spec]
    have : boardPermStat u b r = NBRD_BOARD := by simpa using hB
    rw [this, nbrd_vals.1, nbrd_vals.2.2.1]; simp
  have hfacts := hB
  rw [boardPermStat_eq_BOARD] at hfacts
  simp only [Bool.and_eq_true, Bool.not_eq_true'] at hfacts
  obtain ⟨⟨⟨⟨⟨h1, h2⟩, h3⟩, h4⟩, h5⟩, h6⟩ := hfacts
  rw [listing_filter listing hl u b r hk, hsee]
  refine ⟨rfl, ?_⟩
  rw [entry_refines name hn _ rfl]
  simp only [after, hB, ↓reduceIte]
  rw [mayRead_after_mask b h4, h1, h3, h5]
  simp at h2
  cases hmb : Spec.moderatorsBoard b <;> cases hp : Spec.police u <;> simp_all

example : ∃ u b r, after u b r ≠ b :=
  ⟨⟨17#32, false, 2⟩, ⟨16#32, 0#32⟩, ⟨false, false, false⟩, by decide⟩

/-! ### the named-moderator test: ptt.is_uBM against the '/'-separated names

FULL statement — it does NOT hold for the code as it is:

    ∀ id bm, isUBM id bm = Spec.namedIn id bm

`is_uBM` looks at the FIRST occurrence of the id only, and takes any non-alphanumeric byte for a separator.  Both
deviations are proved below with concrete witnesses; the theorems that do hold are the leak direction (soundness,
for every registered-style id and every moderator string made of ids and '/') and equality when no other moderator's
name contains the id. -/

/-- a named moderator the code does not recognise (first occurrence sits inside a longer name) -/
theorem is_uBM_misses_named :
    let id := "Kahou".toUTF8.toList.map (·.toNat); let bm := "Kahou2/Kahou".toUTF8.toList.map (·.toNat)
    Spec.namedIn id bm = true ∧ isUBM id bm = false := by decide +kernel

/-- junk separators: recognised by the code, not a '/'-separated name -/
theorem is_uBM_junk_separator :
    let id := "Kahou2".toUTF8.toList.map (·.toNat); let bm := "Kahou2.x".toUTF8.toList.map (·.toNat)
    Spec.namedIn id bm = false ∧ isUBM id bm = true := by decide +kernel

/-- the look-alike of the seeded defect is refused: "Kahou" is not a moderator of "Kahou2", "SYSOP/Kahou2" -/
theorem is_uBM_lookalike_refused :
    let id := "Kahou".toUTF8.toList.map (·.toNat)
    isUBM id ("Kahou2".toUTF8.toList.map (·.toNat)) = false ∧
    isUBM id ("SYSOP/Kahou2".toUTF8.toList.map (·.toNat)) = false ∧
    isUBM ("Kahou2".toUTF8.toList.map (·.toNat)) ("SYSOP/Kahou2".toUTF8.toList.map (·.toNat)) = true := by decide +kernel

/-- LEAK DIRECTION, all byte strings: for an alphanumeric non-empty id and a moderator string of ids and '/', whoever
is_uBM accepts IS one of the '/'-separated names. -/
theorem is_uBM_sound (id bm : List Nat) (hv : validId (cstr id)) (hw : wellFormedBM (cstr bm))
    (h : isUBM id bm = true) : Spec.namedIn id bm = true := by
  rw [namedIn_iff id bm hv.1]
  rw [isUBM_eq_scan id bm hv.1] at h
  have := scan_sound (cstr id) hv (cstr bm) hw none h
  rwa [avail_none] at this

/-- conversely, a named moderator is recognised when no OTHER name of the list contains the id as a substring -/
theorem is_uBM_complete (id bm : List Nat) (hv : validId (cstr id)) (hw : wellFormedBM (cstr bm))
    (hn : noLookalike (cstr id) (Spec.splitSlash (cstr bm))) (h : Spec.namedIn id bm = true) : isUBM id bm = true := by
  rw [isUBM_eq_scan id bm hv.1]
  apply scan_complete (cstr id) hv (cstr bm) hw none
  · intro h; simp [atStart] at h
  · rw [avail_none]; exact hn
  · rw [avail_none]; exact (namedIn_iff id bm hv.1).1 h

/-- `is_uBM_eq_spec`, partial: equality under exactly the hypothesis the first witness above violates -/
theorem is_uBM_eq_spec_partial (id bm : List Nat) (hv : validId (cstr id)) (hw : wellFormedBM (cstr bm))
    (hn : noLookalike (cstr id) (Spec.splitSlash (cstr bm))) : isUBM id bm = Spec.namedIn id bm := by
  cases h : Spec.namedIn id bm
  · cases h' : isUBM id bm
    · rfl
    · rw [is_uBM_sound id bm hv hw h'] at h; exact absurd h (by simp)
  · exact is_uBM_complete id bm hv hw hn h

-- "Kahou2" and "SYSOP/Kahou2"
example : validId (cstr [75, 97, 104, 111, 117, 50]) ∧ wellFormedBM (cstr [83, 89, 83, 79, 80, 47, 75, 97, 104, 111, 117, 50]) ∧
    noLookalike (cstr [75, 97, 104, 111, 117, 50]) (Spec.splitSlash (cstr [83, 89, 83, 79, 80, 47, 75, 97, 104, 111, 117, 50])) := by
  refine ⟨⟨by decide, by decide⟩, by unfold wellFormedBM; decide, ?_⟩
  intro n hn hne hinf
  have : n = [83, 89, 83, 79, 80] ∨ n = [75, 97, 104, 111, 117, 50] := by
    have : Spec.splitSlash (cstr [83, 89, 83, 79, 80, 47, 75, 97, 104, 111, 117, 50]) = [[83, 89, 83, 79, 80], [75, 97, 104, 111, 117, 50]] := by decide
    rw [this] at hn; simpa using hn
  rcases this with rfl | rfl
  · have := hinf.length_le; simp [cstr] at this
  · exact hne (by decide)

/-- with the named-moderator fact computed by is_uBM, "administers" never holds for a caller who neither has
PERM_BOARD nor is one of the names -/
theorem administers_sound (u : UserView) (r : Relation) (id bm : List Nat) (hr : r.namedBM = isUBM id bm)
    (hv : validId (cstr id)) (hw : wellFormedBM (cstr bm)) (h : Spec.administers u r = true) :
    Spec.boardAdmin u = true ∨ Spec.namedIn id bm = true := by
  unfold Spec.administers at h
  rw [Bool.or_eq_true] at h
  rcases h with h | h
  · exact Or.inl h
  · exact Or.inr (is_uBM_sound id bm hv hw (hr ▸ h))

/-! ### who the caller is: ptt.InitCurrentUser behind every bbs entry point

"Whether a user may see a board's content is a fixed function of the USER": the account a client-supplied id designates
(lookup ignores letter case) and the permissions it acts with must not depend on how the id was spelled. -/

/-- the source special-cases the built-in accounts by the id of the LOADED record: guest first, then SYSOP -/
theorem init_special_source :
    Gen.ReadEntryPoints.initCurrentUserSpecial =
      [("loaded", [103, 117, 101, 115, 116], "pwcuInitGuestPerm"), ("loaded", [83, 89, 83, 79, 80], "pwcuInitAdminPerm")] := by decide

/-- two spellings that differ in letter case only give the same account, the same uid and the same permissions —
for every user table, every stored record and every pair of spellings. -/
theorem spelling_irrelevant (tbl : UserTable) (stored : W) (o18 : Bool) (s1 s2 : List Nat) (h : caseEq s1 s2 = true) :
    initCurrentUser tbl stored o18 s1 = initCurrentUser tbl stored o18 s2 := by
  unfold initCurrentUser initCurrentUserWith
  have h0 : (s1.headD 0 = 0) ↔ (s2.headD 0 = 0) := by rw [headD_zero_iff, headD_zero_iff]; exact caseEq_nil s1 s2 h
  rw [searchUser_caseEq tbl s1 s2 h]
  by_cases ha : s1.headD 0 = 0
  · rw [if_pos ha, if_pos (h0.1 ha)]
  · rw [if_neg ha, if_neg (fun hb => ha (h0.2 hb))]
    have hl : ∀ e ∈ Gen.ReadEntryPoints.initCurrentUserSpecial, e.1 = "loaded" := by decide
    have hsp : ∀ recId, applySpecials s1 recId Gen.ReadEntryPoints.initCurrentUserSpecial stored =
        applySpecials s2 recId Gen.ReadEntryPoints.initCurrentUserSpecial stored :=
      fun recId => applySpecials_loaded s1 s2 recId _ stored hl
    simp only [hsp]

/-- hence every read entry point answers the same for both spellings -/
theorem same_decision_any_spelling (tbl : UserTable) (stored : W) (o18 : Bool) (s1 s2 : List Nat) (h : caseEq s1 s2 = true)
    (entry : String) (b : BoardView) (r : Relation) (valid : Bool) :
    (match initCurrentUser tbl stored o18 s1 with
     | .ok _ _ u => some (runEntry entry { u := u, b := b, r := r, bidValid := valid, precheck := false })
     | _ => none) =
    (match initCurrentUser tbl stored o18 s2 with
     | .ok _ _ u => some (runEntry entry { u := u, b := b, r := r, bidValid := valid, precheck := false })
     | _ => none) := by
  rw [spelling_irrelevant tbl stored o18 s1 s2 h]

/-- whatever is stored in its record and however its id is spelled, the guest account acts with no permission bit and
the SYSOP account with the administrator's, which reads every board -/
theorem builtin_accounts (tbl : UserTable) (stored : W) (o18 : Bool) (s : List Nat) (uid : Int) (id : List Nat) (u : UserView)
    (h : initCurrentUser tbl stored o18 s = .ok uid id u) :
    (cstr id = [103, 117, 101, 115, 116] → u.level = 0#32) ∧
    (cstr id = [83, 89, 83, 79, 80] → ∀ b r, Spec.mayRead u b r = true) := by
  unfold initCurrentUser initCurrentUserWith at h
  rw [init_special_source] at h
  by_cases h0 : s.headD 0 = 0
  · rw [if_pos h0] at h; exact absurd h (by simp)
  · rw [if_neg h0] at h
    dsimp only at h
    by_cases hv : (!uidValid (searchUser tbl s)) = true
    · rw [if_pos hv] at h; exact absurd h (by simp)
    · rw [if_neg hv] at h
      cases hid : idOf tbl (searchUser tbl s) with
      | none => rw [hid] at h; exact absurd h (by simp)
      | some recId =>
        rw [hid] at h
        simp only [applySpecials, ↓reduceIte] at h
        have hsys : ∀ uid' : Int, Spec.sysop { level := w Gen.ReadEntryPoints.adminPerm, over18 := o18, uid := uid' } = true := by
          intro uid'; show (w Gen.ReadEntryPoints.adminPerm).getLsbD 14 = true; decide
        cases e1 : cstrEq recId [103, 117, 101, 115, 116] <;> cases e2 : cstrEq recId [83, 89, 83, 79, 80]
        all_goals simp only [e1, e2, Bool.false_eq_true, ↓reduceIte, String.reduceEq, Loaded.ok.injEq] at h
        all_goals obtain ⟨_, hrec, hu⟩ := h
        all_goals subst hrec
        all_goals subst hu
        all_goals simp only [cstrEq, beq_iff_eq, beq_eq_false_iff_ne, ne_eq] at e1 e2
        · exact ⟨fun hg => absurd hg e1, fun hs => absurd hs e2⟩
        · refine ⟨fun hg => absurd hg e1, fun _ b r => ?_⟩
          simp [Spec.mayRead, hsys]
        · exact ⟨fun _ => rfl, fun hs => absurd hs e2⟩
        · rw [e1] at e2; exact absurd e2 (by decide)

/-- the broken rule, for the record: special-casing by the id the CALLER typed makes "sysop" and "SYSOP" two different
users of the same account (default fixture table, stored bits 037) -/
theorem special_by_supplied_splits_account :
    let tbl : UserTable := [(1, [83, 89, 83, 79, 80]), (5, [103, 117, 101, 115, 116])]
    let bySupplied := [("supplied", [103, 117, 101, 115, 116], "pwcuInitGuestPerm"), ("supplied", [83, 89, 83, 79, 80], "pwcuInitAdminPerm")]
    initCurrentUserWith bySupplied tbl 31#32 false [115, 121, 115, 111, 112] ≠ initCurrentUserWith bySupplied tbl 31#32 false [83, 89, 83, 79, 80] ∧
    initCurrentUser tbl 31#32 false [115, 121, 115, 111, 112] = initCurrentUser tbl 31#32 false [83, 89, 83, 79, 80] := by
  decide +kernel

/-! ### who moderates a board: cache.ResetBoard → buildBMCache → ParseBMList

"moderator OF THAT BOARD": the moderator cache of a board is a function of that board's own moderator string (and the
user table), whatever boards were created or reset before. -/

/-- ParseBMList writes into a freshly allocated array (read from the source) -/
theorem bmlist_fresh_array : Gen.ReadEntryPoints.parseBMListFreshArray = true := by decide

theorem parseBMList_length (tbl : UserTable) (bm : List Nat) : (parseBMList tbl bm).length = MAX_BMs := by
  unfold parseBMList
  have := parseLoop_length tbl (Spec.splitSlash (cstr bm)) [] (by simp)
  simp; omega

/-- every cached moderator of a board is a valid uid found under one of the '/'-separated names of THAT board's
moderator string; the other slots hold -1 -/
theorem moderators_come_from_own_string (tbl : UserTable) (bm : List Nat) (u : Int) (h : u ∈ parseBMList tbl bm) :
    u = -1 ∨ (uidValid u = true ∧ ∃ n ∈ Spec.splitSlash (cstr bm), searchUser tbl (n.take 13) = u) := by
  unfold parseBMList at h
  rcases List.mem_append.1 h with h1 | h1
  · rcases parseLoop_mem tbl _ [] u h1 with h2 | h2
    · exact absurd h2 (by simp)
    · exact Or.inr h2
  · left; exact (List.mem_replicate.1 h1).2

/-- the moderator string of the last reset of `bid` in a history -/
def lastReset (bid : Int) : List (Int × List Nat) → Option (List Nat)
  | [] => none
  | e :: rest =>
    match lastReset bid rest with
    | some bm => some bm
    | none => if e.1 = bid then some e.2 else none

def runResets (tbl : UserTable) (st : BMCacheSt) (hist : List (Int × List Nat)) : BMCacheSt :=
  hist.foldl (fun st e => buildBMCache tbl st e.1 e.2) st

/-- for EVERY history of board creations / resets: the moderator cache of a board is the parse of the moderator string
of ITS last reset — nothing of the boards handled before or in between carries over. -/
theorem moderator_cache_history_independent (tbl : UserTable) (hist : List (Int × List Nat)) (st : BMCacheSt) (bid : Int) :
    bmCacheOf (runResets tbl st hist) bid =
      match lastReset bid hist with
      | some bm => parseBMList tbl bm
      | none => bmCacheOf st bid := by
  induction hist generalizing st with
  | nil => rfl
  | cons e rest ih =>
    unfold runResets at ih ⊢
    simp only [List.foldl_cons]
    rw [ih]
    have hstep : lastReset bid (e :: rest) =
        (match lastReset bid rest with
         | some bm => some bm
         | none => if e.1 = bid then some e.2 else none) := rfl
    rw [hstep]
    cases hl : lastReset bid rest with
    | some bm => rfl
    | none =>
      simp only []
      rw [bmCacheOf_build]
      by_cases he : e.1 = bid <;> simp [he]

/-- so an account that the board's own last moderator string does not name is not in that board's cache -/
theorem no_moderator_carry_over (tbl : UserTable) (hist : List (Int × List Nat)) (bid : Int) (bm : List Nat) (u : Int)
    (hl : lastReset bid hist = some bm) (hu : uidValid u = true)
    (hn : ∀ n ∈ Spec.splitSlash (cstr bm), searchUser tbl (n.take 13) ≠ u) :
    u ∉ bmCacheOf (runResets tbl [] hist) bid := by
  rw [moderator_cache_history_independent, hl]
  intro hm
  rcases moderators_come_from_own_string tbl bm u hm with h1 | ⟨_, n, hn1, hn2⟩
  · subst h1; simp [uidValid] at hu
  · exact hn n hn1 hn2

/-- the broken rule, for the record: ParseBMList writing into one SHARED array leaves the moderators of the board
parsed before in the slots a shorter list does not overwrite -/
def parseShared (tbl : UserTable) (shared : List Int) (bm : List Nat) : List Int :=
  let found := parseLoop tbl (Spec.splitSlash (cstr bm)) []
  found ++ shared.drop found.length

theorem shared_array_carries_moderators_over :
    let tbl : UserTable := [(3, [98, 117, 100, 100, 121]), (4, [111, 116, 104, 101, 114])]
    let a := parseShared tbl [-1, -1, -1, -1] [98, 117, 100, 100, 121, 47, 111, 116, 104, 101, 114]   -- board A: "buddy/other"
    let b := parseShared tbl a []                                                                          -- board B: no moderators
    b = [3, 4, -1, -1] ∧ parseBMList tbl [] = [-1, -1, -1, -1] := by decide +kernel

/-! ### listing results are values

A caller still holds the list a listing returned (the bbs conversion loop, a request served concurrently) while the next
listing runs: what it holds must stay what its own call produced. -/

/-- ptt.showBoardList makes the list it returns and hands it to nothing that outlives the call (read from the source) -/
theorem showBoardList_fresh : Gen.ReadEntryPoints.showBoardListFresh = true := by decide

theorem runListings_fresh {α} (h : Heap α) (rs : List (List α)) :
    runListings true h rs = ({ cells := h.cells ++ rs }, List.range' h.cells.length rs.length) := by
  induction rs generalizing h with
  | nil => simp [runListings]
  | cons r rs ih =>
    simp only [runListings, handOut, ↓reduceIte]
    rw [ih]
    simp [List.range'_succ]

/-- for EVERY history of listing calls and every heap before it: each caller's handle still shows exactly what its own
call produced, and whatever was held before the history is untouched. -/
theorem held_listings_stable {α} (h : Heap α) (rs : List (List α)) :
    let out := runListings true h rs
    out.2.length = rs.length ∧
    (∀ i (hi : i < rs.length), deref out.1 (out.2.getD i 0) = rs[i]) ∧
    (∀ k, k < h.cells.length → deref out.1 k = deref h k) := by
  rw [runListings_fresh]
  refine ⟨by simp, ?_, ?_⟩
  · intro i hi
    have hk : (List.range' h.cells.length rs.length).getD i 0 = h.cells.length + i := by
      rw [List.getD_eq_getElem?_getD, List.getElem?_range' (by exact hi)]; simp
    simp only [hk, deref, List.getD_eq_getElem?_getD]
    rw [List.getElem?_append_right (by omega)]
    simp [hi]
  · intro k hk
    simp only [deref, List.getD_eq_getElem?_getD]
    rw [List.getElem?_append_left hk]

/-- the broken rule, for the record: with ONE pooled list handed out again and again, the list a plain caller holds
(`[3]`: the public board) shows the site administrator's listing (`[2, 3]`: the hidden board too) after the next call -/
theorem pooled_list_is_overwritten :
    let out := runListings false ({ cells := [] } : Heap Nat) [[3], [2, 3]]
    deref out.1 (out.2.getD 0 0) = [2, 3] ∧
    deref (runListings true ({ cells := [] } : Heap Nat) [[3], [2, 3]]).1 0 = [3] := by decide

/-! ### the friend list expires; the multi-board query answers per request entry -/

/-- once the cached friend list is older than the expiry, the board's file governs — also for a caller who is still on
the stale cached list; a list younger than the expiry governs as cached -/
theorem expired_list_follows_file (cached inFile : Bool) :
    (hbflFriend cached inFile true).1 = inFile ∧ (hbflFriend cached inFile false).1 = cached := by
  simp [hbflFriend]

/-- a caller taken off the friend file of a hidden, restricted board is refused by the rule once the cached list has
expired (unless privileged or a moderator), whatever the cached list still says -/
theorem removed_friend_refused_after_expiry (u : UserView) (b : BoardView) (r : Relation) (cached : Bool)
    (hs : Spec.sysop u = false) (hp : (Spec.moderatorsBoard b && Spec.police u) = false) (hm : Spec.moderator u r = false)
    (hh : Spec.hidden b = true) (hr : Spec.restricted b = true) :
    Spec.mayRead u b { r with friend := (hbflFriend cached false true).1 } = false := by
  have hm' : Spec.moderator u { r with friend := false } = false := by simpa [Spec.moderator] using hm
  simp [Spec.mayRead, hbflFriend, hs, hp, hm', hh, hr]

/-- the broken order, for the record: scanning the cached list before looking at its age keeps a removed friend -/
def hbflScanFirst (cached inFile expired : Bool) : Bool := if cached then true else if expired then inFile else false

theorem scan_before_expiry_keeps_removed_friend :
    hbflScanFirst true false true = true ∧ (hbflFriend true false true).1 = false := by decide

/-- bbs.IsBoardsValidUser: the answer under request entry i is the answer for entry i, whatever stands before it -/
theorem multi_query_per_entry {ε} (answer : ε → MultiAns) (request : List ε) (i : Nat) :
    (boardsValid answer request)[i]? = request[i]?.map answer := by
  simp [boardsValid]

/-- the broken indexing, for the record: answers stored under the index into the FILTERED request move every answer
behind a dropped id forward — the hidden board (entry 1) receives the public board's `valid` -/
def boardsValidShifted {ε} (answer : ε → MultiAns) (request : List ε) : List MultiAns :=
  let kept := (request.map answer).filter (· != .none)
  kept ++ List.replicate (request.length - kept.length) .none

theorem filtered_index_misattributes :
    let answer : Nat → MultiAns := fun e => if e = 0 then .none else if e = 1 then .invalid else .valid   -- stale id, hidden, public
    boardsValidShifted answer [0, 1, 2] = [.invalid, .valid, .none] ∧ boardsValid answer [0, 1, 2] = [.none, .invalid, .valid] := by
  decide

end PttVerif.C07.Props
