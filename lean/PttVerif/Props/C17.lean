import PttVerif.Proofs.C17
/-
C17 — Big5 <-> UTF-8 conversion is total, table-exact and ASCII-transparent.
Property theorems only (helper lemmas live in Proofs/C17.lean).

Every theorem of sections A–F is universal over the tables `b2u u2b : Table` (the lookup functions of
the two Go maps) and over all byte strings.  Section G is about the tables the modelled loader builds
from rows (`b2uMap`/`u2bMap`, "last row wins") under the decidable well-formedness `wfB2U`/`wfU2B`,
section H about the loader on files in the UAO format.
-/
namespace PttVerif.C17.Props
open PttVerif PttVerif.C17

/-! #### A. totality: both scanners return on every byte string -/

/-- each execution of the Big5 loop body returns (no panic) and, unless it breaks, consumes at least one byte. -/
theorem b2uBody_advances (b2u : Table) (p out : Bytes) (hp : p ≠ []) :
    ∃ st, b2uBody b2u p out = .ok st ∧ ∀ p' o, st = .next p' o → p'.length < p.length := by
  match p, hp with
  | a :: rest, _ =>
    rw [b2uBody_cons]
    by_cases ha : a < 0x80
    · simp only [ha, if_true]
      refine ⟨_, rfl, ?_⟩
      intro p' o e; simp only [Step.next.injEq] at e; rw [← e.1]; simp
    · simp only [ha, if_false]
      match rest with
      | [] => exact ⟨_, rfl, fun p' o e => by cases e⟩
      | b :: r =>
        refine ⟨_, rfl, ?_⟩
        intro p' o e; simp only [Step.next.injEq] at e; rw [← e.1]; simp; omega

/-- each execution of the UTF-8 loop body returns, never breaks, and consumes one, two or three bytes
(the final else-branch of commit 50179c3 is what makes the malformed cases advance). -/
theorem u2bBody_advances (u2b : Table) (p out : Bytes) (hp : p ≠ []) :
    ∃ p' o, u2bBody u2b p out = .ok (.next p' o) ∧ p'.length < p.length ∧ p.length ≤ p'.length + 3 := by
  match p, hp with
  | c :: rest, _ =>
    rw [u2bBody_cons]
    by_cases h0 : c < 0x80
    · simp only [h0, if_true]
      exact ⟨_, _, rfl, by simp, by simp⟩
    · simp only [h0, if_false]
      by_cases h1 : rest.length ≥ 1 ∧ c &&& 0xe0 = 0xc0
      · simp only [h1, and_self, if_true]
        exact ⟨_, _, rfl, by simp; omega, by simp; omega⟩
      · simp only [h1, if_false]
        by_cases h2 : rest.length ≥ 2 ∧ c &&& 0xf0 = 0xe0
        · simp only [h2, and_self, if_true]
          exact ⟨_, _, rfl, by simp; omega, by simp; omega⟩
        · simp only [h2, if_false]
          exact ⟨_, _, rfl, by simp, by simp⟩

/-- termination by a measure, for any loop body: if every iteration returns and shortens the remaining
input, the loop returns within `len(p)` iterations — for EVERY fuel above the input length, so the
fuel chosen in `big5ToUtf8`/`utf8ToBig5` hides nothing. -/
theorem goFor_terminates (body : Bytes → Bytes → M Step)
    (hadv : ∀ p out, p ≠ [] → ∃ st, body p out = .ok st ∧ ∀ p' o, st = .next p' o → p'.length < p.length) :
    ∀ (fuel : Nat) (p out : Bytes), p.length < fuel → ∃ r, goFor body fuel p out = .ok r := by
  intro fuel
  induction fuel with
  | zero => intro p out h; omega
  | succ n ih =>
    intro p out h
    match p, h with
    | [], _ => exact ⟨out, by simp [goFor]⟩
    | a :: rest, h =>
      obtain ⟨st, hst, hlen⟩ := hadv (a :: rest) out (by simp)
      simp only [goFor, List.length_cons, Nat.zero_lt_succ, if_true, hst]
      match st, hlen with
      | .stop o, _ => exact ⟨o, rfl⟩
      | .next p' o, hlen =>
        have := hlen p' o rfl
        simp only [List.length_cons] at this h
        exact ih p' o (by omega)

/-- `Big5ToUtf8` returns on every input (no panic, no divergence), and what it returns is `b2uSpec`. -/
theorem big5ToUtf8_total (b2u : Table) (s : Bytes) : big5ToUtf8 b2u s = .ok (b2uSpec b2u s) := by
  simpa [big5ToUtf8] using goFor_b2u b2u (s.length + 1) s [] (by omega)

/-- `Utf8ToBig5` returns on every input — including lone continuation bytes, 4-byte leads, truncated sequences. -/
theorem utf8ToBig5_total (u2b : Table) (s : Bytes) : utf8ToBig5 u2b s = .ok (u2bSpec u2b s) := by
  simpa [utf8ToBig5] using goFor_u2b u2b (s.length + 1) s [] (by omega)

/-- the result does not depend on the fuel: any fuel above the input length gives the same answer. -/
theorem fuel_irrelevant (b2u u2b : Table) (s : Bytes) (fuel : Nat) (h : s.length < fuel) :
    goFor (b2uBody b2u) fuel s [] = big5ToUtf8 b2u s ∧ goFor (u2bBody u2b) fuel s [] = utf8ToBig5 u2b s := by
  rw [big5ToUtf8_total, utf8ToBig5_total, goFor_b2u b2u fuel s [] h, goFor_u2b u2b fuel s [] h]
  simp

/-- the loop body of `Utf8ToBig5` BEFORE commit 50179c3: no final else, the iteration changes nothing. -/
def u2bBodyBeforeFix (u2b : Table) (p out : Bytes) : M Step := do
  let c ← idx p 0
  if c < 0x80 then
    let p' ← sliceFrom p 1
    pure (.next p' (out ++ [c]))
  else if p.length ≥ 2 ∧ c &&& 0xe0 = 0xc0 then
    let k ← slice p 0 2
    let p' ← sliceFrom p 2
    pure (.next p' (out ++ (u2b k).getD repl))
  else if p.length ≥ 3 ∧ c &&& 0xf0 = 0xe0 then
    let k ← slice p 0 3
    let p' ← sliceFrom p 3
    pure (.next p' (out ++ (u2b k).getD repl))
  else pure (.next p out)

/-- the totality theorems are not true by construction of `goFor`: the loop without the final else-branch
diverges on a lone continuation byte whatever the fuel (the defect the fix repaired). -/
theorem before_fix_stalls (u2b : Table) (fuel : Nat) (out : Bytes) :
    goFor (u2bBodyBeforeFix u2b) fuel [0x80] out = .error .diverge := by
  induction fuel with
  | zero => rfl
  | succ n ih =>
    have : u2bBodyBeforeFix u2b [0x80] out = .ok (.next [0x80] out) := by
      simp [u2bBodyBeforeFix, idx, bind, Except.bind, pure, Except.pure]
    simp only [goFor, List.length_cons, List.length_nil, Nat.zero_add, Nat.zero_lt_one, if_true, this]
    exact ih

/-! #### B. ASCII transparency -/

theorem big5ToUtf8_ascii (b2u : Table) (s : Bytes) (h : ∀ b ∈ s, b < 0x80) : big5ToUtf8 b2u s = .ok s := by
  rw [big5ToUtf8_total]
  congr 1
  induction s with
  | nil => simp
  | cons a rest ih =>
    rw [b2uSpec_ascii _ _ _ (h a (by simp)), ih (fun b hb => h b (by simp [hb]))]

theorem utf8ToBig5_ascii (u2b : Table) (s : Bytes) (h : ∀ b ∈ s, b < 0x80) : utf8ToBig5 u2b s = .ok s := by
  rw [utf8ToBig5_total]
  congr 1
  induction s with
  | nil => simp
  | cons a rest ih =>
    rw [u2bSpec_ascii _ _ _ (h a (by simp)), ih (fun b hb => h b (by simp [hb]))]

/-- in place: the scanners are compositional at unit boundaries — whatever precedes (as long as it ends at a
unit boundary) and whatever follows, each part converts independently … -/
theorem big5ToUtf8_append (b2u : Table) (pre post : Bytes) (h : b2uAligned pre = true) :
    big5ToUtf8 b2u (pre ++ post) = .ok (b2uSpec b2u pre ++ b2uSpec b2u post) := by
  rw [big5ToUtf8_total, b2uSpec_append_aux b2u pre.length pre post (Nat.le_refl _) h]

theorem utf8ToBig5_append (u2b : Table) (pre post : Bytes) (h : u2bAligned pre = true) :
    utf8ToBig5 u2b (pre ++ post) = .ok (u2bSpec u2b pre ++ u2bSpec u2b post) := by
  rw [utf8ToBig5_total, u2bSpec_append_aux u2b pre.length pre post (Nat.le_refl _) h]

/-- … so an ASCII byte at a unit boundary comes out as itself, in place, in both directions. -/
theorem ascii_in_place (b2u u2b : Table) (pre post : Bytes) (a : Nat) (ha : a < 0x80) :
    (b2uAligned pre = true → big5ToUtf8 b2u (pre ++ a :: post) = .ok (b2uSpec b2u pre ++ a :: b2uSpec b2u post)) ∧
    (u2bAligned pre = true → utf8ToBig5 u2b (pre ++ a :: post) = .ok (u2bSpec u2b pre ++ a :: u2bSpec u2b post)) := by
  constructor
  · intro h; rw [big5ToUtf8_append b2u pre _ h, b2uSpec_ascii _ _ _ ha]
  · intro h; rw [utf8ToBig5_append u2b pre _ h, u2bSpec_ascii _ _ _ ha]

/-! #### C. exactness, and what happens to unmapped / malformed input -/

/-- a two-byte unit (lead byte ≥ 0x80) yields exactly the table's bytes — nothing when the code has no entry —
and the scan continues behind it. -/
theorem big5ToUtf8_unit (b2u : Table) (a b : Nat) (rest : Bytes) (ha : 0x80 ≤ a) :
    big5ToUtf8 b2u (a :: b :: rest) = .ok ((b2u [a, b]).getD [] ++ b2uSpec b2u rest) := by
  rw [big5ToUtf8_total, b2uSpec_pair _ _ _ _ (by omega)]

theorem big5ToUtf8_exact (b2u : Table) (a b : Nat) (v : Bytes) (ha : 0x80 ≤ a) (hv : b2u [a, b] = some v) :
    big5ToUtf8 b2u [a, b] = .ok v := by
  rw [big5ToUtf8_unit b2u a b [] ha, hv]; simp

/-- a lead byte at the very end is dropped. -/
theorem big5ToUtf8_lone_lead (b2u : Table) (pre : Bytes) (a : Nat) (ha : 0x80 ≤ a) (h : b2uAligned pre = true) :
    big5ToUtf8 b2u (pre ++ [a]) = .ok (b2uSpec b2u pre) := by
  rw [big5ToUtf8_append b2u pre _ h, b2uSpec_lone _ _ (by omega)]; simp

/-- the UTF-8 encoding of a BMP code point ≥ 0x80 yields exactly the table's bytes, the replacement FF FD when
the code point has no entry. -/
theorem utf8ToBig5_unit (u2b : Table) (cp : Nat) (rest : Bytes) (h1 : 0x80 ≤ cp) (h2 : cp < 0x10000) :
    utf8ToBig5 u2b (utf8enc cp ++ rest) = .ok ((u2b (utf8enc cp)).getD repl ++ u2bSpec u2b rest) := by
  rw [utf8ToBig5_total, u2bSpec_utf8enc u2b cp rest h1 h2]

theorem utf8ToBig5_exact (u2b : Table) (cp : Nat) (v : Bytes) (h1 : 0x80 ≤ cp) (h2 : cp < 0x10000)
    (hv : u2b (utf8enc cp) = some v) : utf8ToBig5 u2b (utf8enc cp) = .ok v := by
  have := utf8ToBig5_unit u2b cp [] h1 h2
  simpa [hv] using this

/-- malformed input never stalls: a lone continuation byte (80..BF) and a byte F0..FF (4-byte leads, F5+)
become one replacement code and exactly that byte is consumed … -/
theorem utf8ToBig5_malformed_byte (u2b : Table) (c : Nat) (rest : Bytes)
    (h : (0x80 ≤ c ∧ c < 0xC0) ∨ (0xF0 ≤ c ∧ c < 256)) :
    utf8ToBig5 u2b (c :: rest) = .ok (repl ++ u2bSpec u2b rest) := by
  rw [utf8ToBig5_total, u2bSpec_bad u2b c rest h]

/-- … and so does a truncated sequence: a 2-byte lead as the last byte, a 3-byte lead with fewer than two bytes
behind it. -/
theorem utf8ToBig5_truncated (u2b : Table) (c : Nat) (rest : Bytes) :
    (0xC0 ≤ c → c < 0xE0 → utf8ToBig5 u2b [c] = .ok repl) ∧
    (0xE0 ≤ c → c < 0xF0 → rest.length < 2 → utf8ToBig5 u2b (c :: rest) = .ok (repl ++ u2bSpec u2b rest)) := by
  constructor
  · intro h1 h2; rw [utf8ToBig5_total, u2bSpec_trunc2 u2b c h1 h2]
  · intro h1 h2 h3; rw [utf8ToBig5_total, u2bSpec_trunc3 u2b c rest h1 h2 h3]

/-- a complete 4-byte sequence (e.g. an emoji) becomes four replacement codes. -/
theorem utf8ToBig5_four_byte (u2b : Table) (a b c d : Nat) (rest : Bytes) (ha : 0xF0 ≤ a ∧ a < 256)
    (hb : isCont b = true) (hc : isCont c = true) (hd : isCont d = true) :
    utf8ToBig5 u2b (a :: b :: c :: d :: rest) = .ok (repl ++ repl ++ repl ++ repl ++ u2bSpec u2b rest) := by
  have cont : ∀ x, isCont x = true → (0x80 ≤ x ∧ x < 0xC0) ∨ (0xF0 ≤ x ∧ x < 256) := by
    intro x hx; simp [isCont] at hx; omega
  rw [utf8ToBig5_total, u2bSpec_bad u2b a _ (Or.inr ha), u2bSpec_bad u2b b _ (cont b hb),
    u2bSpec_bad u2b c _ (cont c hc), u2bSpec_bad u2b d _ (cont d hd)]
  simp

/-! #### D. the output of Big5ToUtf8 is well-formed UTF-8 -/

/-- for EVERY input (mapped, unmapped, truncated), as soon as every table value is well-formed UTF-8. -/
theorem big5ToUtf8_valid_utf8 (b2u : Table) (hT : TableValid b2u) (s : Bytes) :
    ∃ out, big5ToUtf8 b2u s = .ok out ∧ validUtf8 out = true :=
  ⟨_, big5ToUtf8_total b2u s, b2uSpec_valid_aux b2u hT s.length s (Nat.le_refl _)⟩

/-- the hypothesis is needed: one ill-formed table value (here a lone continuation byte) shows up in the output. -/
example : ∃ (b2u : Table) (s : Bytes), ∀ out, big5ToUtf8 b2u s = .ok out → validUtf8 out = false :=
  ⟨fun _ => some [0x80], [0xA4, 0x40], by
    intro out h
    rw [big5ToUtf8_exact _ 0xA4 0x40 [0x80] (by omega) rfl] at h
    cases h; decide⟩

/-! #### E. round trip for codes the two tables map to each other -/

/-- `s` consists of ASCII bytes and two-byte codes that `b2u` maps to the encoding of a code point which `u2b`
maps back to the same code. -/
inductive MutualBig5 (b2u u2b : Table) : Bytes → Prop where
  | nil : MutualBig5 b2u u2b []
  | ascii (a : Nat) (rest : Bytes) : a < 0x80 → MutualBig5 b2u u2b rest → MutualBig5 b2u u2b (a :: rest)
  | code (a b cp : Nat) (rest : Bytes) : 0x80 ≤ a → 0x80 ≤ cp → cp < 0x10000 →
      b2u [a, b] = some (utf8enc cp) → u2b (utf8enc cp) = some [a, b] →
      MutualBig5 b2u u2b rest → MutualBig5 b2u u2b (a :: b :: rest)

/-- the same, seen from the UTF-8 side. -/
inductive MutualUtf8 (b2u u2b : Table) : Bytes → Prop where
  | nil : MutualUtf8 b2u u2b []
  | ascii (a : Nat) (rest : Bytes) : a < 0x80 → MutualUtf8 b2u u2b rest → MutualUtf8 b2u u2b (a :: rest)
  | code (a b cp : Nat) (rest : Bytes) : 0x80 ≤ a → 0x80 ≤ cp → cp < 0x10000 →
      b2u [a, b] = some (utf8enc cp) → u2b (utf8enc cp) = some [a, b] →
      MutualUtf8 b2u u2b rest → MutualUtf8 b2u u2b (utf8enc cp ++ rest)

/-- Big5 → UTF-8 → Big5 is the identity on strings of ASCII and mutually mapped codes. -/
theorem roundtrip_big5 (b2u u2b : Table) (s : Bytes) (h : MutualBig5 b2u u2b s) :
    (big5ToUtf8 b2u s >>= utf8ToBig5 u2b) = .ok s := by
  rw [big5ToUtf8_total]
  show utf8ToBig5 u2b (b2uSpec b2u s) = .ok s
  rw [utf8ToBig5_total]
  congr 1
  induction h with
  | nil => simp
  | ascii a rest ha _ ih => rw [b2uSpec_ascii _ _ _ ha, u2bSpec_ascii _ _ _ ha, ih]
  | code a b cp rest ha h1 h2 hb hu _ ih =>
    rw [b2uSpec_pair _ _ _ _ (by omega), hb]
    simp only [Option.getD_some]
    rw [u2bSpec_utf8enc u2b cp _ h1 h2, hu, ih]
    simp

/-- UTF-8 → Big5 → UTF-8 likewise. -/
theorem roundtrip_utf8 (b2u u2b : Table) (s : Bytes) (h : MutualUtf8 b2u u2b s) :
    (utf8ToBig5 u2b s >>= big5ToUtf8 b2u) = .ok s := by
  rw [utf8ToBig5_total]
  show big5ToUtf8 b2u (u2bSpec u2b s) = .ok s
  rw [big5ToUtf8_total]
  congr 1
  induction h with
  | nil => simp
  | ascii a rest ha _ ih => rw [u2bSpec_ascii _ _ _ ha, b2uSpec_ascii _ _ _ ha, ih]
  | code a b cp rest ha h1 h2 hb hu _ ih =>
    rw [u2bSpec_utf8enc u2b cp _ h1 h2, hu]
    simp only [Option.getD_some, List.cons_append, List.nil_append]
    rw [b2uSpec_pair _ _ _ _ (by omega), hb, ih]
    simp

/-- the single-code form of the record's last sentence. -/
theorem roundtrip_code (b2u u2b : Table) (a b cp : Nat) (ha : 0x80 ≤ a) (h1 : 0x80 ≤ cp) (h2 : cp < 0x10000)
    (hb : b2u [a, b] = some (utf8enc cp)) (hu : u2b (utf8enc cp) = some [a, b]) :
    (big5ToUtf8 b2u [a, b] >>= utf8ToBig5 u2b) = .ok [a, b] :=
  roundtrip_big5 b2u u2b [a, b] (.code a b cp [] ha h1 h2 hb hu .nil)

/-- non-vacuity: a pair of tables with a mutually mapped code (A4 40 ↔ U+4E00) and a string over it. -/
example : ∃ b2u u2b : Table, MutualBig5 b2u u2b [0x41, 0xA4, 0x40, 0x42] :=
  ⟨fun k => if k = [0xA4, 0x40] then some (utf8enc 0x4E00) else none,
   fun u => if u = utf8enc 0x4E00 then some [0xA4, 0x40] else none,
   .ascii _ _ (by omega) (.code 0xA4 0x40 0x4E00 _ (by omega) (by omega) (by omega) (by simp) (by simp)
     (.ascii _ _ (by omega) .nil))⟩

/-! #### F. the hand-written encoder of `initToUtf8` -/

/-- for every code point in 0x80 … 0xFFFF the hand encoder produces the standard UTF-8 bytes
(surrogates included: there it produces the generalised form, which is not valid UTF-8 — see below). -/
theorem encodeUcs2_correct (cp : Nat) (h1 : 0x80 ≤ cp) (h2 : cp < 0x10000) : encodeUcs2 cp = utf8enc cp :=
  encodeUcs2_eq cp h1 h2

/-- … and the result is well-formed UTF-8 exactly when the code point is not a surrogate. -/
theorem encodeUcs2_valid_iff (cp : Nat) (h1 : 0x80 ≤ cp) (h2 : cp < 0x10000) :
    validUtf8 (encodeUcs2 cp) = true ↔ isSurrogate cp = false := by
  rw [encodeUcs2_eq cp h1 h2]
  constructor
  · intro hv
    cases hs : isSurrogate cp with
    | false => rfl
    | true => rw [validUtf8_surrogate cp hs] at hv; cases hv
  · intro hs
    have := validUtf8_utf8enc_append cp [] (by omega) hs
    simpa [validUtf8] using this

/-- the `< 0x80` branch returns one NUL byte instead of the character (harmless under `wfB2U`/`wfU2B`, which
exclude such rows; the real tables have none). -/
theorem encodeUcs2_ascii_wrong (cp : Nat) (h : cp < 0x80) : encodeUcs2 cp = [0] := by
  unfold encodeUcs2
  have : cp >>> 7 = 0 := by rw [Nat.shiftRight_eq_div_pow]; omega
  simp [this]

/-- distinct code points have distinct encodings (so a `u2b` key identifies its code point). -/
theorem utf8enc_inj (cp cp' : Nat) (h1 : 0x80 ≤ cp) (h2 : cp < 0x10000) (h1' : 0x80 ≤ cp') (h2' : cp' < 0x10000)
    (e : utf8enc cp = utf8enc cp') : cp = cp' := utf8enc_injective cp cp' h1 h2 h1' h2' e

/-- the standard encoding of every Unicode scalar value is accepted by `validUtf8` (sanity of the definition). -/
theorem validUtf8_scalar (cp : Nat) (h : cp < 0x110000) (hs : isSurrogate cp = false) : validUtf8 (utf8enc cp) = true := by
  have := validUtf8_utf8enc_append cp [] h hs
  simpa [validUtf8] using this

/-! #### G. the tables the loader builds: "last row wins", and what WF gives -/

/-- the map built from rows answers with the LAST row of a key (Go map assignment in file order). -/
theorem b2uMap_last_row_wins (rows : List Row) (k : Bytes) :
    tableOf (b2uMap rows) k = (lastByKey rows k).map encodeUcs2 := tableOf_b2uMap rows k

theorem u2bMap_last_row_wins (rows : List Row) (u : Bytes) :
    tableOf (u2bMap rows) u = lastByUtf8 rows u := tableOf_u2bMap rows u

/-- WF rows give a table all of whose values are well-formed UTF-8 … -/
theorem wfB2U_tableValid (rows : List Row) (hwf : wfB2U rows = true) : TableValid (tableOf (b2uMap rows)) := by
  intro k v hv
  rw [tableOf_b2uMap] at hv
  cases hl : lastByKey rows k with
  | none => simp [hl] at hv
  | some cp =>
    simp [hl] at hv
    have hm := lastByKey_mem rows k cp hl
    have hr := (wfB2URow_iff (k, cp)).1 (List.all_eq_true.1 hwf _ hm)
    rw [← hv, encodeUcs2_eq cp hr.2.2.1 hr.2.2.2.1]
    have := validUtf8_utf8enc_append cp [] (by have := hr.2.2.2.1; omega) hr.2.2.2.2
    simpa [validUtf8] using this

/-- … hence: with a WF b2u table, `Big5ToUtf8` returns well-formed UTF-8 on every byte string. -/
theorem big5ToUtf8_table_valid_utf8 (rows : List Row) (hwf : wfB2U rows = true) (s : Bytes) :
    ∃ out, big5ToUtf8 (tableOf (b2uMap rows)) s = .ok out ∧ validUtf8 out = true :=
  big5ToUtf8_valid_utf8 _ (wfB2U_tableValid rows hwf) s

/-- table exactness, Big5 side: a code whose last row says `cp` converts to exactly the standard UTF-8 of `cp`. -/
theorem b2u_table_exact (rows : List Row) (hwf : wfB2U rows = true) (a b cp : Nat)
    (hrow : lastByKey rows [a, b] = some cp) :
    big5ToUtf8 (tableOf (b2uMap rows)) [a, b] = .ok (utf8enc cp) := by
  have hm := lastByKey_mem rows _ cp hrow
  have hr := (wfB2URow_iff ([a, b], cp)).1 (List.all_eq_true.1 hwf _ hm)
  have ha : 0x80 ≤ a := by simpa using hr.2.1
  apply big5ToUtf8_exact _ a b _ ha
  rw [tableOf_b2uMap, hrow]
  simp [encodeUcs2_eq cp hr.2.2.1 hr.2.2.2.1]

/-- a code without a row is dropped. -/
theorem b2u_table_unmapped (rows : List Row) (a b : Nat) (ha : 0x80 ≤ a) (hrow : lastByKey rows [a, b] = none) :
    big5ToUtf8 (tableOf (b2uMap rows)) [a, b] = .ok [] := by
  rw [big5ToUtf8_unit _ a b [] ha, tableOf_b2uMap, hrow]; simp

/-- table exactness, UTF-8 side: the standard UTF-8 of a code point that has a row converts to exactly the Big5
bytes of the last row with that code point; without a row, to the replacement code. -/
theorem u2b_table_exact (rows : List Row) (hwf : wfU2B rows = true) (cp : Nat) (h1 : 0x80 ≤ cp) (h2 : cp < 0x10000) :
    utf8ToBig5 (tableOf (u2bMap rows)) (utf8enc cp) = .ok ((lastByCp rows cp).getD repl) := by
  have := utf8ToBig5_unit (tableOf (u2bMap rows)) cp [] h1 h2
  simp only [List.append_nil, u2bSpec_nil] at this
  rw [this, tableOf_u2bMap, lastByUtf8_eq_lastByCp rows hwf cp h1 h2]

/-- round trip through the loaded tables: a code whose last b2u row says `cp`, while the last u2b row of `cp` says
that code, converts to UTF-8 and back unchanged. -/
theorem table_roundtrip (rowsB rowsU : List Row) (hB : wfB2U rowsB = true) (hU : wfU2B rowsU = true) (a b cp : Nat)
    (hb : lastByKey rowsB [a, b] = some cp) (hu : lastByCp rowsU cp = some [a, b]) :
    (big5ToUtf8 (tableOf (b2uMap rowsB)) [a, b] >>= utf8ToBig5 (tableOf (u2bMap rowsU))) = .ok [a, b] := by
  have hm := lastByKey_mem rowsB _ cp hb
  have hr := (wfB2URow_iff ([a, b], cp)).1 (List.all_eq_true.1 hB _ hm)
  rw [b2u_table_exact rowsB hB a b cp hb]
  show utf8ToBig5 _ (utf8enc cp) = _
  rw [u2b_table_exact rowsU hU cp hr.2.2.1 hr.2.2.2.1, hu]
  rfl

/-- non-vacuity of the WF hypotheses and of `table_roundtrip`. -/
example : wfB2U [([0xA4, 0x40], 0x4E00)] = true ∧ wfU2B [([0xA4, 0x40], 0x4E00)] = true ∧
    lastByKey [([0xA4, 0x40], 0x4E00)] [0xA4, 0x40] = some 0x4E00 ∧
    lastByCp [([0xA4, 0x40], 0x4E00)] 0x4E00 = some [0xA4, 0x40] := by decide

/-! #### H. the loader on files in the UAO format -/

/-- one well-formed line `0xKKKK 0xCCCC` (with or without CR) parses to its row. -/
theorem parseLine_row (k cp : Nat) (cr : Bool) (hk : k < 65536) (hc : cp < 65536) :
    parseLine (renderRow k cp cr) = .ok (some ([k / 256, k % 256], cp)) := parseLine_renderRow k cp cr hk hc

/-- the loader returns exactly the rows of a file in the UAO format (header line, one row per line, LF or CR LF):
the header is dropped, the empty piece behind the last newline is skipped, nothing panics. -/
theorem parseTable_uao_file (header : Bytes) (rows : List (Nat × Nat)) (cr : Bool) (hh : 10 ∉ header)
    (hr : ∀ r ∈ rows, r.1 < 65536 ∧ r.2 < 65536) :
    parseTable (renderFile header rows cr) = .ok (rows.map rowOf) := parseTable_renderFile header rows cr hh hr

/-- the loader is NOT total on arbitrary files: a first field shorter than "0x" makes `lineList[0][2:]` panic
(observed on the real loader by the `tbl` ops of the harness; out of the property's scope, recorded). -/
theorem parseLine_short_field_panics : parseLine [48, 32, 48, 120, 52, 49] = .error .panic := by rfl

/-! #### I. the configured table paths (types/config.go, regenerated data) -/

/-- `config()` assigns each of the two table-path variables exactly once, through `setStringConfig`, from the ini
key of its OWN name and with its OWN previous value as default (kernel evaluation over the regenerated list:
a copy-paste slip in a key or a default breaks this theorem). -/
theorem config_reads_pinned :
    Gen.Big5.configReads.filter (fun r => r.var == "BIG5_TO_UTF8" || r.var == "UTF8_TO_BIG5") =
      [⟨"BIG5_TO_UTF8", "setStringConfig", "BIG5_TO_UTF8", "go-pttbbs:types.big5_to_utf8", "BIG5_TO_UTF8"⟩,
       ⟨"UTF8_TO_BIG5", "setStringConfig", "UTF8_TO_BIG5", "go-pttbbs:types.utf8_to_big5", "UTF8_TO_BIG5"⟩] := by
  decide

/-- hence, for EVERY ini content and every initial value: after `config()` each table path is the ini value of its
own key when that key is set, and its default otherwise — the two tables cannot be swapped or doubled by configuration. -/
theorem config_resolves (ini env : Env) :
    cfgVar (runConfig Gen.Big5.configReads ini env) "BIG5_TO_UTF8" =
      (ini.lookup "go-pttbbs:types.big5_to_utf8").getD (cfgVar env "BIG5_TO_UTF8") ∧
    cfgVar (runConfig Gen.Big5.configReads ini env) "UTF8_TO_BIG5" =
      (ini.lookup "go-pttbbs:types.utf8_to_big5").getD (cfgVar env "UTF8_TO_BIG5") := by
  simp only [runConfig, Gen.Big5.configReads, List.foldl_cons, List.foldl_nil, cfgStep, cfgVar]
  constructor
  · simp [List.lookup]
    cases ini.lookup "go-pttbbs:types.big5_to_utf8" <;> simp
  · simp [List.lookup]
    cases ini.lookup "go-pttbbs:types.utf8_to_big5" <;> simp

/-! #### J. the loader across several initialisations (error path: a table file cannot be read) -/

/-- whenever `initBig5` reports success, EACH map is loaded: it was non-empty before and is unchanged, or it has just
been filled from the file at its configured path.  (A loader that reports success without having loaded the second
table — see `single_guard_skips_second_table` — violates the second conjunct.) -/
theorem initBig5_success_means_loaded (fs : FS) (pb pu : String) (st st' : Loader)
    (h : initBig5 fs pb pu st = .ok (st', false)) :
    ((0 < st.b2u.size ∧ st'.b2u = st.b2u) ∨
      ∃ c rows, fs pb = some c ∧ parseTable c = .ok rows ∧ st'.b2u = b2uMapFrom st.b2u rows) ∧
    ((0 < st.u2b.size ∧ st'.u2b = st.u2b) ∨
      ∃ c rows, fs pu = some c ∧ parseTable c = .ok rows ∧ st'.u2b = u2bMapFrom st.u2b rows) := by
  unfold initBig5 at h
  cases h1 : initB2U fs pb st with
  | error x => simp [h1, bind, Except.bind] at h
  | ok r1 =>
    obtain ⟨st1, e1⟩ := r1
    simp only [h1, bind, Except.bind] at h
    cases e1 with
    | true => simp [pure, Except.pure] at h
    | false =>
      simp only [Bool.false_eq_true, if_false] at h
      obtain ⟨hu1, hb1⟩ := initB2U_cases fs pb st st1 false h1
      obtain ⟨hb2, hu2⟩ := initU2B_cases fs pu st1 st' false h
      constructor
      · rw [hb2]
        rcases hb1 with ⟨hs, he, _⟩ | ⟨_, _, _, he⟩ | ⟨_, _, c, rows, hf, hp, hm⟩
        · exact Or.inl ⟨hs, by rw [he]⟩
        · cases he
        · exact Or.inr ⟨c, rows, hf, hp, hm⟩
      · rw [← hu1]
        rcases hu2 with ⟨hs, he, _⟩ | ⟨_, _, _, he⟩ | ⟨_, _, c, rows, hf, hp, hm⟩
        · exact Or.inl ⟨hs, by rw [he]⟩
        · cases he
        · exact Or.inr ⟨c, rows, hf, hp, hm⟩

/-- an error is only reported when a table that is still missing cannot be read, and a table loaded before (or
during) the failing call stays loaded. -/
theorem initBig5_failure (fs : FS) (pb pu : String) (st st' : Loader)
    (h : initBig5 fs pb pu st = .ok (st', true)) :
    (st.b2u.size = 0 ∧ fs pb = none ∧ st' = st) ∨
    (st.u2b.size = 0 ∧ fs pu = none ∧ st'.u2b = st.u2b ∧
      ((0 < st.b2u.size ∧ st'.b2u = st.b2u) ∨
        ∃ c rows, fs pb = some c ∧ parseTable c = .ok rows ∧ st'.b2u = b2uMapFrom st.b2u rows)) := by
  unfold initBig5 at h
  cases h1 : initB2U fs pb st with
  | error x => simp [h1, bind, Except.bind] at h
  | ok r1 =>
    obtain ⟨st1, e1⟩ := r1
    simp only [h1, bind, Except.bind] at h
    cases e1 with
    | true =>
      simp only [if_true, pure, Except.pure] at h
      cases h
      obtain ⟨_, hb1⟩ := initB2U_cases fs pb st st' true h1
      rcases hb1 with ⟨_, _, he⟩ | ⟨hz, hf, he, _⟩ | ⟨_, he, _⟩
      · cases he
      · exact Or.inl ⟨hz, hf, he⟩
      · cases he
    | false =>
      simp only [Bool.false_eq_true, if_false] at h
      obtain ⟨hu1, hb1⟩ := initB2U_cases fs pb st st1 false h1
      obtain ⟨hb2, hu2⟩ := initU2B_cases fs pu st1 st' true h
      rcases hu2 with ⟨_, _, he⟩ | ⟨hz, hf, he, _⟩ | ⟨_, he, _⟩
      · cases he
      · refine Or.inr ⟨by rw [← hu1]; exact hz, hf, by rw [he, hu1], ?_⟩
        rw [hb2]
        rcases hb1 with ⟨hs, he', _⟩ | ⟨_, _, _, he'⟩ | ⟨_, _, c, rows, hf', hp, hm⟩
        · exact Or.inl ⟨hs, by rw [he']⟩
        · cases he'
        · exact Or.inr ⟨c, rows, hf', hp, hm⟩
      · cases he

/-- the history of the record's error path, for ALL file contents: the first initialisation loads the Big5→UTF-8
table and fails on the other one (unreadable); ANY later initialisation under which the UTF-8→Big5 file is readable
succeeds — whatever the first path is by then — and afterwards BOTH lookups are those of the tables built from the
two files. -/
theorem retry_after_failed_second_table (fs fs' : FS) (pb pu pb' pu' : String) (st0 : Loader) (cb cu : Bytes)
    (rb ru : List Row) (h0 : st0.b2u.size = 0) (h0' : st0.u2b.size = 0)
    (hb : fs pb = some cb) (hpb : parseTable cb = .ok rb) (hne : rb ≠ []) (hu : fs pu = none)
    (hu' : fs' pu' = some cu) (hpu : parseTable cu = .ok ru) :
    ∃ st1 st2, initBig5 fs pb pu st0 = .ok (st1, true) ∧ initBig5 fs' pb' pu' st1 = .ok (st2, false) ∧
      tableOf st2.b2u = tableOf (b2uMap rb) ∧ tableOf st2.u2b = tableOf (u2bMap ru) := by
  have hz : ¬ (st0.b2u.size > 0) := by omega
  have hz' : ¬ (st0.u2b.size > 0) := by omega
  have hpos : 0 < (b2uMapFrom st0.b2u rb).size := size_foldl_insert_pos _ _ rb st0.b2u hne
  refine ⟨{ st0 with b2u := b2uMapFrom st0.b2u rb }, { b2u := b2uMapFrom st0.b2u rb, u2b := u2bMapFrom st0.u2b ru }, ?_, ?_, ?_, ?_⟩
  · simp [initBig5, initB2U, initU2B, hz, hz', hb, hpb, hu, bind, Except.bind, pure, Except.pure]
  · simp [initBig5, initB2U, initU2B, hpos, hz', hu', hpu, bind, Except.bind, pure, Except.pure]
  · exact tableOf_b2uMapFrom _ h0 rb
  · exact tableOf_u2bMapFrom _ h0' ru

/-- the loader with ONE guard on the first map only (the shape of a de-duplicating refactoring): -/
def initBig5SingleGuard (fs : FS) (pb pu : String) (st : Loader) : M (Loader × Bool) :=
  if st.b2u.size > 0 then .ok (st, false)
  else match fs pb with
    | none => .ok (st, true)
    | some cb => do
      let rb ← parseTable cb
      let st1 := { st with b2u := b2uMapFrom st.b2u rb }
      match fs pu with
      | none => .ok (st1, true)
      | some cu => do
        let ru ← parseTable cu
        pure ({ st1 with u2b := u2bMapFrom st1.u2b ru }, false)

/-- … after the same failed first call it reports success forever without ever loading the second table: every
lookup in it is a miss, so `Utf8ToBig5` answers FF FD for every code point. -/
theorem single_guard_skips_second_table (fs fs' : FS) (pb pu pb' pu' : String) (st0 : Loader) (cb : Bytes)
    (rb : List Row) (h0 : st0.b2u.size = 0) (h0' : st0.u2b.size = 0)
    (hb : fs pb = some cb) (hpb : parseTable cb = .ok rb) (hne : rb ≠ []) (hu : fs pu = none) :
    ∃ st1, initBig5SingleGuard fs pb pu st0 = .ok (st1, true) ∧
      initBig5SingleGuard fs' pb' pu' st1 = .ok (st1, false) ∧ ∀ k, tableOf st1.u2b k = none := by
  have hz : ¬ (st0.b2u.size > 0) := by omega
  have hpos : 0 < (b2uMapFrom st0.b2u rb).size := size_foldl_insert_pos _ _ rb st0.b2u hne
  refine ⟨{ st0 with b2u := b2uMapFrom st0.b2u rb }, ?_, ?_, ?_⟩
  · simp [initBig5SingleGuard, hz, hb, hpb, hu, bind, Except.bind]
  · simp [initBig5SingleGuard, hpos]
  · intro k; exact getElem?_of_size_zero _ h0' k

/-- table exactness after the retry: with WF rows, every code point converts to the Big5 bytes of its last row. -/
theorem utf8ToBig5_exact_after_retry (st2 : Loader) (ru : List Row) (hT : tableOf st2.u2b = tableOf (u2bMap ru))
    (hwf : wfU2B ru = true) (cp : Nat) (h1 : 0x80 ≤ cp) (h2 : cp < 0x10000) :
    utf8ToBig5 (tableOf st2.u2b) (utf8enc cp) = .ok ((lastByCp ru cp).getD repl) := by
  rw [hT]
  exact u2b_table_exact ru hwf cp h1 h2

/-! #### K. the header line: the loader drops line 1 unconditionally -/

/-- what the unconditional `lines = lines[1:]` does, for EVERY file content: the loaded rows are all rows of the file
when the first line is not a row; when the first line IS a row, exactly that row is lost. -/
theorem loader_drops_exactly_first_line (content : Bytes) (all : List Row) (h : parseAllRows content = .ok all) :
    (parseLine (firstLine content) = .ok none → parseTable content = .ok all) ∧
    (∀ r, parseLine (firstLine content) = .ok (some r) → ∃ rows, parseTable content = .ok rows ∧ all = r :: rows) := by
  unfold parseAllRows at h
  unfold parseTable firstLine
  cases hs : split 10 content with
  | nil => exact absurd hs (splitAux_ne_nil 10 content [] [])
  | cons first rest =>
    rw [hs] at h
    simp only [List.mapM_cons, bind, Except.bind] at h
    have hsl : sliceFrom (first :: rest) 1 = .ok rest := by
      simp only [sliceFrom, slice]; simp
    simp only [List.headD_cons, hsl, bind, Except.bind]
    cases h1 : parseLine first with
    | error e => simp [h1] at h
    | ok o =>
      simp only [h1] at h
      cases h2 : List.mapM parseLine rest with
      | error e => simp [h2] at h
      | ok rs =>
        simp only [h2, pure, Except.pure] at h
        cases h
        constructor
        · intro ho; cases ho; simp [pure, Except.pure]
        · intro r ho; cases ho; exact ⟨_, rfl, by simp⟩

/-- kernel evaluation over the regenerated first lines: neither real table file starts with a data row, so the
loader loses nothing (removing the header line from a file breaks this theorem). -/
theorem real_tables_first_line_is_no_row :
    parseLine Gen.Big5.b2uFirstLine = .ok none ∧ parseLine Gen.Big5.u2bFirstLine = .ok none := by
  constructor <;> rfl

/-- witness of the broken combination: a file in UAO format WITHOUT a header line loses its first row. -/
theorem headerless_file_loses_first_row (k cp : Nat) (rows : List (Nat × Nat)) (cr : Bool) (hk : k < 65536) (hc : cp < 65536)
    (hr : ∀ r ∈ rows, r.1 < 65536 ∧ r.2 < 65536) :
    parseTable (renderRow k cp cr ++ 10 :: (rows.map fun r => renderRow r.1 r.2 cr ++ [10]).flatten) = .ok (rows.map rowOf) :=
  parseTable_renderFile (renderRow k cp cr) rows cr (newline_not_in_renderRow k cp cr hk hc) hr

/-! #### L. the start-up sequence -/

/-- with both files readable, `types.InitConfig` succeeds from any state and leaves the UTF-8→Big5 lookups of the file —
provided the map was empty or already held them. -/
theorem initBig5_readable (fs : FS) (pb pu : String) (cb cu : Bytes) (rb ru : List Row) (st : Loader)
    (hb : fs pb = some cb) (hpb : parseTable cb = .ok rb) (hu : fs pu = some cu) (hpu : parseTable cu = .ok ru)
    (hpre : st.u2b.size = 0 ∨ tableOf st.u2b = tableOf (u2bMap ru)) :
    ∃ st', initBig5 fs pb pu st = .ok (st', false) ∧ tableOf st'.u2b = tableOf (u2bMap ru) := by
  unfold initBig5 initB2U initU2B
  by_cases h1 : st.b2u.size > 0 <;> by_cases h2 : st.u2b.size > 0
  · refine ⟨st, by simp [h1, h2, bind, Except.bind], ?_⟩
    rcases hpre with h | h
    · omega
    · exact h
  · refine ⟨{ st with u2b := u2bMapFrom st.u2b ru }, by simp [h1, h2, hu, hpu, bind, Except.bind, pure, Except.pure], ?_⟩
    exact tableOf_u2bMapFrom _ (by omega) ru
  · refine ⟨{ st with b2u := b2uMapFrom st.b2u rb }, by simp [h1, h2, hb, hpb, bind, Except.bind, pure, Except.pure], ?_⟩
    rcases hpre with h | h
    · omega
    · exact h
  · refine ⟨{ b2u := b2uMapFrom st.b2u rb, u2b := u2bMapFrom st.u2b ru },
      by simp [h1, h2, hb, hpb, hu, hpu, bind, Except.bind, pure, Except.pure], ?_⟩
    exact tableOf_u2bMapFrom _ (by omega) ru

/-- once the tables are loaded, whatever is initialised afterwards (in any order, any number of times) succeeds, and a
site name converted then is converted with the file's table. -/
theorem boot_after_types (fs : FS) (pb pu : String) (cb cu : Bytes) (rb ru : List Row) (name : Bytes)
    (hb : fs pb = some cb) (hpb : parseTable cb = .ok rb) (hu : fs pu = some cu) (hpu : parseTable cu = .ok ru) :
    ∀ (order : List String) (b : Boot), tableOf b.loader.u2b = tableOf (u2bMap ru) →
      ∃ b', boot fs pb pu name order b = .ok (b', false) ∧ tableOf b'.loader.u2b = tableOf (u2bMap ru) ∧
        b'.bbsnameBig5 = if "ptttype" ∈ order then some (u2bSpec (tableOf (u2bMap ru)) name) else b.bbsnameBig5 := by
  intro order
  induction order with
  | nil => intro b hT; exact ⟨b, rfl, hT, by simp⟩
  | cons p ps ih =>
    intro b hT
    by_cases ht : p = "types"
    · obtain ⟨st', h1, h2⟩ := initBig5_readable fs pb pu cb cu rb ru b.loader hb hpb hu hpu (Or.inr hT)
      obtain ⟨b', e1, e2, e3⟩ := ih { b with loader := st' } h2
      refine ⟨b', ?_, e2, ?_⟩
      · simp only [boot, bootStep, ht, if_true, h1, bind, Except.bind, pure, Except.pure]
        simpa using e1
      · rw [e3]; simp [ht]
    · by_cases hp : p = "ptttype"
      · obtain ⟨b', e1, e2, e3⟩ := ih { b with bbsnameBig5 := some (u2bSpec (tableOf (u2bMap ru)) name) } hT
        refine ⟨b', ?_, e2, ?_⟩
        · have hne : ¬ ("ptttype" = "types") := by decide
          simp only [boot, bootStep, hp, hne, if_true, if_false, utf8ToBig5_total, hT, bind, Except.bind, pure, Except.pure]
          simpa using e1
        · rw [e3]; simp [hp]
      · obtain ⟨b', e1, e2, e3⟩ := ih b hT
        refine ⟨b', ?_, e2, ?_⟩
        · simp only [boot, bootStep, ht, hp, if_false, bind, Except.bind, pure, Except.pure]
          simpa using e1
        · rw [e3]
          have : ("ptttype" ∈ p :: ps) = ("ptttype" ∈ ps) := by
            simp [List.mem_cons, Ne.symm hp]
          simp only [this]

/-- the property clause for the start-up: in a FRESH process (empty maps), for every order of the `InitConfig` calls in
which `types` comes before the last `ptttype` — and no earlier `types` call is needed — the site name kept for the
lifetime of the process is the table-exact conversion of the configured name. -/
theorem startup_converts_with_loaded_tables (fs : FS) (pb pu : String) (cb cu : Bytes) (rb ru : List Row) (name : Bytes)
    (hb : fs pb = some cb) (hpb : parseTable cb = .ok rb) (hu : fs pu = some cu) (hpu : parseTable cu = .ok ru) :
    ∀ (pre rest : List String) (b : Boot), "types" ∉ pre → "ptttype" ∈ rest → b.loader.u2b.size = 0 →
      ∃ b', boot fs pb pu name (pre ++ "types" :: rest) b = .ok (b', false) ∧
        b'.bbsnameBig5 = some (u2bSpec (tableOf (u2bMap ru)) name) := by
  intro pre
  induction pre with
  | nil =>
    intro rest b _ hin h0
    obtain ⟨st', h1, h2⟩ := initBig5_readable fs pb pu cb cu rb ru b.loader hb hpb hu hpu (Or.inl h0)
    obtain ⟨b', e1, _, e3⟩ := boot_after_types fs pb pu cb cu rb ru name hb hpb hu hpu rest { b with loader := st' } h2
    refine ⟨b', ?_, by rw [e3]; simp [hin]⟩
    simp only [List.nil_append, boot, bootStep, if_true, h1, bind, Except.bind, pure, Except.pure]
    simpa using e1
  | cons p ps ih =>
    intro rest b hnot hin h0
    have hp : p ≠ "types" := fun e => hnot (by simp [e])
    have hps : "types" ∉ ps := fun e => hnot (by simp [e])
    by_cases hpt : p = "ptttype"
    · obtain ⟨b', e1, e2⟩ := ih rest { b with bbsnameBig5 := some (u2bSpec (tableOf b.loader.u2b) name) } hps hin h0
      refine ⟨b', ?_, e2⟩
      have hne : ¬ ("ptttype" = "types") := by decide
      simp only [List.cons_append, boot, bootStep, hpt, hne, if_true, if_false, utf8ToBig5_total, bind, Except.bind, pure,
        Except.pure]
      simpa using e1
    · obtain ⟨b', e1, e2⟩ := ih rest b hps hin h0
      refine ⟨b', ?_, e2⟩
      simp only [List.cons_append, boot, bootStep, hp, hpt, if_false, bind, Except.bind, pure, Except.pure]
      simpa using e1

/-- kernel evaluation over the regenerated call order of initgin.InitAllConfig: `types.InitConfig` is called before
`ptttype.InitConfig`, and `ptttype` is not called before it (moving ptttype to the front breaks this theorem). -/
theorem startup_order_pinned :
    ∃ pre rest, Gen.Big5.initOrder = pre ++ "types" :: rest ∧ "types" ∉ pre ∧ "ptttype" ∉ pre ∧ "ptttype" ∈ rest :=
  ⟨["api"], ["ptttype", "boardd"], by decide, by decide, by decide, by decide⟩

/-- the only conversion performed outside package types is the one of the site name (regenerated list of call sites:
a new start-up conversion shows up here and has to be driven). -/
theorem conversion_callers_pinned : Gen.Big5.conversionCallers = [("ptttype", "setBBSName", "Utf8ToBig5")] := by decide

/-- hence the real start-up, for every site name and all table contents: -/
theorem real_startup_bbsname_exact (fs : FS) (pb pu : String) (cb cu : Bytes) (rb ru : List Row) (name : Bytes) (b : Boot)
    (hb : fs pb = some cb) (hpb : parseTable cb = .ok rb) (hu : fs pu = some cu) (hpu : parseTable cu = .ok ru)
    (h0 : b.loader.u2b.size = 0) :
    ∃ b', boot fs pb pu name Gen.Big5.initOrder b = .ok (b', false) ∧
      b'.bbsnameBig5 = some (u2bSpec (tableOf (u2bMap ru)) name) := by
  obtain ⟨pre, rest, e, h1, _, h3⟩ := startup_order_pinned
  rw [e]
  exact startup_converts_with_loaded_tables fs pb pu cb cu rb ru name hb hpb hu hpu pre rest b h1 h3 h0

/-- witness of the broken rule: with `ptttype` first (and not again after `types`), a fresh process converts the
site name against EMPTY tables — every lookup misses, every non-ASCII character becomes FF FD — and keeps that. -/
theorem startup_ptttype_first_uses_empty_table (fs : FS) (pb pu : String) (cb cu : Bytes) (rb ru : List Row) (name : Bytes)
    (b : Boot) (hb : fs pb = some cb) (hpb : parseTable cb = .ok rb) (hu : fs pu = some cu) (hpu : parseTable cu = .ok ru)
    (h0 : b.loader.u2b.size = 0) (h0' : b.loader.b2u.size = 0) :
    ∃ b', boot fs pb pu name ["ptttype", "api", "types", "boardd"] b = .ok (b', false) ∧
      b'.bbsnameBig5 = some (u2bSpec (fun _ => none) name) := by
  have hT : tableOf b.loader.u2b = fun _ => none := by
    funext k; exact getElem?_of_size_zero _ h0 k
  have hz : ¬ (b.loader.b2u.size > 0) := by omega
  have hz' : ¬ (b.loader.u2b.size > 0) := by omega
  refine ⟨{ loader := { b2u := b2uMapFrom b.loader.b2u rb, u2b := u2bMapFrom b.loader.u2b ru },
             bbsnameBig5 := some (u2bSpec (fun _ => none) name) }, ?_, rfl⟩
  · have n1 : ¬ ("ptttype" = "types") := by decide
    have n2 : ¬ ("api" = "types") := by decide
    have n3 : ¬ ("api" = "ptttype") := by decide
    have n4 : ¬ ("boardd" = "types") := by decide
    have n5 : ¬ ("boardd" = "ptttype") := by decide
    simp only [boot, bootStep, n1, n2, n3, n4, n5, if_true, if_false, utf8ToBig5_total, hT, initBig5, initB2U, initU2B,
      hz, hz', hb, hpb, hu, hpu, bind, Except.bind, pure, Except.pure]
    simp

/-! #### M. the loader's accept rule (exactly two ' '-separated fields) against rows by content -/

/-- the loader's rule as it is: a line that does not split into exactly two pieces at ' ' is skipped — silently. -/
theorem parseLine_skips_unless_two_fields (line : Bytes) (h : (split 32 line).length ≠ 2) : parseLine line = .ok none := by
  simp [parseLine, h, pure, Except.pure]

/-- counts over the regenerated table files (translator): every line that is a row by content (first two fields
`0xHHHH 0xHHHH`, whatever follows) is also a row by the loader's rule — no row of the real files is silently dropped.
(An inline comment behind a row breaks this theorem.) -/
theorem real_tables_no_row_dropped :
    Gen.Big5.b2uRowsByContent = Gen.Big5.b2uRowsByLoaderRule ∧ Gen.Big5.u2bRowsByContent = Gen.Big5.u2bRowsByLoaderRule := by
  decide

/-- witness of the broken combination, for every row: the row followed by an inline comment is a row by content, and
the loader skips it. -/
theorem commented_row_is_dropped (k cp : Nat) (hk : k < 65536) (hc : cp < 65536) (comment : Bytes) :
    parseLine (renderRow k cp false ++ [32, 35] ++ comment) = .ok none ∧
    rowByContent (renderRow k cp false ++ [32, 35, 99]) = some ([k / 256, k % 256], cp) := by
  have n1 := (upHex_facts (k / 4096 % 16) (by omega))
  have n2 := (upHex_facts (k / 256 % 16) (by omega))
  have n3 := (upHex_facts (k / 16 % 16) (by omega))
  have n4 := (upHex_facts (k % 16) (by omega))
  have m1 := (upHex_facts (cp / 4096 % 16) (by omega))
  have m2 := (upHex_facts (cp / 256 % 16) (by omega))
  have m3 := (upHex_facts (cp / 16 % 16) (by omega))
  have m4 := (upHex_facts (cp % 16) (by omega))
  constructor
  · apply parseLine_skips_unless_two_fields
    have e : renderRow k cp false ++ [32, 35] ++ comment =
        ([48, 120] ++ hex4 k) ++ 32 :: (([48, 120] ++ hex4 cp) ++ 32 :: (35 :: comment)) := by
      simp [renderRow]
    rw [e, split_piece, split_piece]
    · have := splitAux_ne_nil 32 (35 :: comment) [] []
      unfold split
      cases hs : splitAux 32 (35 :: comment) [] [] with
      | nil => exact absurd hs this
      | cons a as => simp
    · simp [hex4]; omega
    · simp [hex4]; omega
  · have b1 : ∀ d, d < 16 → isBlank (upHex d) = false := by decide
    have c1 : isBlank 48 = false := by decide
    have c2 : isBlank 120 = false := by decide
    have c3 : isBlank 32 = true := by decide
    have c4 : isBlank 35 = false := by decide
    have c5 : isBlank 99 = false := by decide
    simp [rowByContent, fields, fieldsAux, renderRow, hex4, c1, c2, c3, c4, c5, b1 _ (show k / 4096 % 16 < 16 by omega),
      b1 _ (show k / 256 % 16 < 16 by omega), b1 _ (show k / 16 % 16 < 16 by omega), b1 _ (show k % 16 < 16 by omega),
      b1 _ (show cp / 4096 % 16 < 16 by omega), b1 _ (show cp / 256 % 16 < 16 by omega), b1 _ (show cp / 16 % 16 < 16 by omega),
      b1 _ (show cp % 16 < 16 by omega), hexField, n1.1, n2.1, n3.1, n4.1, m1.1, m2.1, m3.1, m4.1]
    omega

/-! #### N. the table file as a FUNCTION: no key twice -/

/-- when no key occurs twice among the rows, EVERY row of the file is what the loaded map answers for its key
(with a duplicated key the map is last-wins and the earlier row is lost — and whatever key was meant is missing). -/
theorem nodup_keys_every_row_loaded (rows : List Row) (hn : (rows.map (·.1)).Nodup) (k : Bytes) (cp : Nat)
    (hm : (k, cp) ∈ rows) : tableOf (b2uMap rows) k = some (encodeUcs2 cp) := by
  rw [tableOf_b2uMap]
  unfold lastByKey
  cases hf : rows.reverse.find? (fun r => r.1 == k) with
  | none =>
    have := List.find?_eq_none.1 hf (k, cp) (by simpa using hm)
    simp at this
  | some r =>
    have hr : r ∈ rows := by simpa using List.mem_of_find?_eq_some hf
    have hk : r.1 = k := by simpa using List.find?_some hf
    have : r = (k, cp) := key_unique_of_nodup rows hn r (k, cp) hr hm hk
    simp [this]

/-- witness: a duplicated key loses the earlier row. -/
theorem duplicate_key_loses_first_row (k : Bytes) (cp cp' : Nat) (h : encodeUcs2 cp ≠ encodeUcs2 cp') :
    tableOf (b2uMap [(k, cp), (k, cp')]) k ≠ some (encodeUcs2 cp) := by
  rw [tableOf_b2uMap]
  simp [lastByKey, Ne.symm h]

/-- counts over the regenerated table files: both files are functions — as many distinct keys (Big5 code in the b2u
file, code point in the u2b file) as rows. (A mistyped key that repeats another one breaks this theorem.) -/
theorem real_tables_have_no_duplicate_key :
    Gen.Big5.b2uDistinctKeys = Gen.Big5.b2uRowsByContent ∧ Gen.Big5.u2bDistinctKeys = Gen.Big5.u2bRowsByContent := by
  decide

end PttVerif.C17.Props
