import PttVerif.Proofs.C16
/-!
C16 — only unexpired tokens of the right kind, issued by this server, authenticate.

Everything below is about the server's DECISION LOGIC (`Model/C16.lean`) on top of an uninterpreted
signature oracle `Token.hmacOK : Secret → Bool` ("the signature bytes equal the HMAC of header.payload
under this key"); HMAC, base64url and JSON are outside the model (claimed partial).  All theorems hold for
every configuration `c : Cfg`, every token, every clock value `t : Int`, unless a hypothesis says otherwise;
the instances for the configuration read from the source (`srcCfg`, `Gen/Token.lean`) follow.

`verify k tok = tok.alg.isHMAC && tok.hmacOK k` is what the library does with a `[]byte` key; the only
cryptographic assumption, `SignedOnly K σ` (a signature made with `K` verifies under no other key), is an
explicit hypothesis of exactly the theorems that need it.
-/
namespace PttVerif.C16
open PttVerif.Gen

/-! ## facts about the source (kernel-checked on the regenerated data) -/

/-- the three default secrets of api/00-config.go, as the verifiers use them, are pairwise distinct -/
theorem secrets_pairwise_distinct :
    srcCfg.vAccess ≠ srcCfg.vRefresh ∧ srcCfg.vAccess ≠ srcCfg.vEmail ∧ srcCfg.vRefresh ≠ srcCfg.vEmail := by
  decide

/-- each Create* signs with the secret the matching Verify* checks -/
theorem sign_keys_are_verify_keys :
    srcCfg.sAccess = srcCfg.vAccess ∧ srcCfg.sRefresh = srcCfg.vRefresh ∧ srcCfg.sEmail = srcCfg.vEmail := by
  decide

/-- every Create* uses jwt.SigningMethodHS256 (the model's `createToken…` say `.hs256`) -/
theorem issued_with_hs256 :
    Token.createAccessAlg = "HS256" ∧ Token.createRefreshAlg = "HS256" ∧ Token.createEmailAlg = "HS256" := by
  decide

/-- ParseJwt's key callback hands the `[]byte` secret to the library whatever the algorithm is: the choice of
algorithms is the library's (HMAC only for such a key), as `verify` says. -/
theorem keyfunc_returns_secret_only : Token.keyfuncPlain = true := by decide

/-- the claims each Verify* reads are the claims the matching Create* writes, with the types the model uses -/
theorem claims_written_are_claims_read :
    Token.createAccessClaims = Token.verifyAccessClaims ∧ Token.createRefreshClaims = Token.verifyRefreshClaims ∧
    Token.createEmailClaims = Token.verifyEmailClaims ∧
    Token.verifyAccessClaimKinds = [("cli", "string"), ("exp", "int"), ("sub", "string")] ∧
    Token.verifyRefreshClaimKinds = [("cli", "string"), ("exp", "int"), ("sub", "string"), ("typ", "string")] ∧
    Token.verifyEmailClaimKinds = [("cli", "string"), ("ctx", "string"), ("eml", "string"), ("exp", "int"), ("sub", "string")] := by
  decide

/-- the expected distance of a pair exceeds the tolerance, the type of a refresh token and the two e-mail
contexts are non-empty and different, the durations fit the int32 clock -/
theorem source_constants :
    srcCfg.eps < srcCfg.pairDiff ∧ 0 ≤ srcCfg.eps ∧ srcCfg.refreshType ≠ [] ∧
    Token.contextChangeEmail ≠ [] ∧ Token.contextSetIDEmail ≠ [] ∧ Token.contextChangeEmail ≠ Token.contextSetIDEmail ∧
    0 < srcCfg.ttlAccess ∧ srcCfg.ttlAccess < 2147483648 ∧ 0 < srcCfg.ttlRefresh ∧ srcCfg.ttlRefresh < 2147483648 ∧
    0 < srcCfg.ttlEmail ∧ srcCfg.pairDiff = srcCfg.ttlRefresh - srcCfg.ttlAccess := by
  decide

/-- RECORDED: CreateEmailToken adds JWT_TOKEN_EXPIRE_TS (the access lifetime, one day), not
EMAIL_JWT_TOKEN_EXPIRE_TS (15 minutes), which no function uses. -/
theorem email_token_lives_access_ttl :
    Token.createEmailTTLName = "JWT_TOKEN_EXPIRE_TS" ∧ srcCfg.ttlEmail = srcCfg.ttlAccess ∧
    Token.emailJwtTokenExpireTS < srcCfg.ttlEmail := by
  decide

/-! ## the configuration after `InitConfig()` (api/config.go), kernel-checked on the regenerated lines and on
the ini files shipped with the repository -/

/-- every line `X = setYConfig("KEY", DEFAULT)` of config() reads the key named like the variable it assigns and
falls back to THAT variable: without an ini entry a variable keeps its 00-config.go value (in particular no
secret falls back to another secret) -/
theorem config_keys_and_defaults_are_own_variables :
    Token.configLines.all (fun l => l.2.2.1 == l.1 && l.2.2.2.2 == l.1) = true := by decide

/-- the setters config() calls hand the ini value (or the default) over unchanged: `runConfig` takes the
configured secret at its FULL length — no truncation, hashing or other transformation that could make
different configured secrets one key -/
theorem config_setters_are_plain_forwarders :
    Token.settersPlain = [("setStringConfig", true), ("setBytesConfig", true), ("setIntConfig", true)] := by decide

/-- config() assigns each of the three secrets exactly once -/
theorem config_assigns_each_secret_once :
    ["JWT_SECRET", "REFRESH_JWT_SECRET", "EMAIL_JWT_SECRET"].all
      (fun v => (Token.configLines.filter (fun l => l.1 == v)).length == 1) = true := by decide

/-- with no `[go-pttbbs:api]` entry at all, `InitConfig()` leaves the configuration of the source -/
theorem effective_config_without_ini_is_source_config : effCfg [] = some srcCfg := by decide

/-- the ini files the theorems below range over: none, and every ini file shipped with the repository -/
def shippedInis : List Env := [] :: Token.iniFiles.map (·.2)

/-- **the effective secrets after `InitConfig()` are pairwise distinct**, with no ini entry and with every
shipped ini file (none of which sets REFRESH_JWT_SECRET) -/
theorem effective_secrets_pairwise_distinct :
    shippedInis.all (fun ini => (effSecrets ini).map pairwiseDistinct == some true) = true := by decide

/-- what separates the kinds at the login check, as a test on a configuration -/
def kindsSeparated (c : Cfg) : Bool :=
  c.sRefresh != c.vAccess && c.sEmail != c.vAccess && c.sAccess == c.vAccess && c.sRefresh == c.vRefresh && c.sEmail == c.vEmail

theorem effective_configs_separate_kinds :
    shippedInis.all (fun ini => (effCfg ini).map kindsSeparated == some true) = true := by decide

/-! ## the library law that is mirrored -/

/-- a `[]byte` key verifies HMAC algorithms only: `none` and the asymmetric methods never verify -/
theorem verify_hmac_only (k : Secret) (tok : Token) (h : verify k tok = true) :
    tok.alg.isHMAC = true ∧ tok.hmacOK k = true := verify_iff.mp h

theorem none_and_asymmetric_never_verify (k : Secret) (tok : Token) (h : tok.alg = .none ∨ tok.alg = .asym) :
    verify k tok = false := by
  rcases h with h | h <;> simp [verify, h, Alg.isHMAC]

/-! ## access tokens -/

/-- `VerifyJwt` succeeds only for the empty string (guest) or for a token that verifies under the access
secret with an HMAC algorithm, passes the library's exp/iat/nbf validation, and whose claims give the
returned identity; with the expiry check on, the server's clock has not passed `int(exp)`. -/
theorem verifyJwt_sound (c : Cfg) (t : Int) (raw : Raw) (chk : Bool) (id : Ident)
    (h : verifyJwt c t raw chk = .ok id) :
    (raw = .empty ∧ id = ⟨c.guest, 0, []⟩) ∨
    ∃ tok, raw = .tok tok ∧ verify c.vAccess tok = true ∧ tok.alg.isHMAC = true ∧ claimsValid t tok = true ∧
      claimString tok.sub = some id.user ∧ claimString tok.cli = some id.cli ∧ claimInt tok.exp = some id.exp ∧
      (chk = true → srvNow t ≤ id.exp) := by
  rcases verifyJwt_ok.mp h with h | ⟨_, hp, he⟩
  · exact Or.inl h
  · obtain ⟨tok, h1, h2, h3, hcli, hsub, hexp⟩ := parseJwtClaim_some.mp hp
    exact Or.inr ⟨tok, h1, h3, (verify_iff.mp h3).1, h2, hsub, hcli, hexp, he⟩

/-- **access_sound.** If the login-required wrapper runs the handler as a user `U` other than the guest,
the Authorization header had exactly two fields, the second one is a token that verifies under the ACCESS
secret with an HMAC algorithm, is unexpired (server rule and library rule), and its subject is `U`. -/
theorem access_sound (c : Cfg) (t : Int) (nfields : Nat) (second : Raw) (U : Bytes)
    (h : authAs c t nfields second = U) (hU : U ≠ c.guest) :
    ∃ tok, nfields = 2 ∧ second = .tok tok ∧ verify c.vAccess tok = true ∧ tok.alg.isHMAC = true ∧
      Unexpired t tok ∧ claimString tok.sub = some U := by
  unfold authAs at h
  split at h
  · rename_i id hv
    subst h
    rcases verifyJwt_sound c t _ true id hv with ⟨_, hid⟩ | ⟨tok, h1, h2, h3, h4, hsub, _, hexp, he⟩
    · exact absurd (by rw [hid]) hU
    · unfold getJwt at h1
      split at h1
      · rename_i hn
        exact ⟨tok, hn, h1, h2, h3, ⟨⟨id.exp, hexp, he rfl⟩, claimsValid_exp h4⟩, hsub⟩
      · cases h1
  · exact absurd h.symm hU

/-- the same in the calendar range of the int32 clock: the clock has not passed `int(exp)`, and if `exp` is
a non-zero number the clock is strictly before its floor -/
theorem access_sound_epoch (c : Cfg) (t : Int) (nfields : Nat) (second : Raw) (U : Bytes)
    (h0 : 0 ≤ t) (h1 : t < 2147483648)
    (h : authAs c t nfields second = U) (hU : U ≠ c.guest) :
    ∃ tok e, second = .tok tok ∧ verify c.vAccess tok = true ∧ claimString tok.sub = some U ∧
      claimInt tok.exp = some e ∧ t ≤ e ∧
      (∀ fl fr, tok.exp = .num fl fr → (fl = 0 ∧ fr = false) ∨ t < fl) := by
  obtain ⟨tok, _, hs, hv, _, ⟨⟨e, he, hle⟩, hd⟩, hsub⟩ := access_sound c t nfields second U h hU
  rw [srvNow_of_range h0 h1] at hle
  refine ⟨tok, e, hs, hv, hsub, he, hle, ?_⟩
  intro fl fr hx
  rw [hx] at hd
  simp only [dateOK, Bool.or_eq_true, Bool.and_eq_true, beq_iff_eq, Bool.not_eq_true', decide_eq_true_eq] at hd
  exact hd

/-- **guest_on_failure.** Whatever makes `VerifyJwt(jwt, true)` fail, the wrapper does not answer with an
error: the handler runs, as the guest. -/
theorem guest_on_failure (c : Cfg) (t : Int) (nfields : Nat) (second : Raw) (e : Err)
    (h : verifyJwt c t (getJwt nfields second) true = .error e) :
    authAs c t nfields second = c.guest ∧ loginRequired c t true nfields second = .ok c.guest := by
  have : authAs c t nfields second = c.guest := by simp [authAs, h]
  exact ⟨this, by simp [loginRequired, this]⟩

/-- a presented token that does not verify under the access secret — altered, re-signed with another key,
`alg` none or asymmetric, a token of another kind — is downgraded to the guest -/
theorem guest_if_not_verified (c : Cfg) (t : Int) (nfields : Nat) (second : Raw)
    (h : ∀ tok, second = .tok tok → verify c.vAccess tok = false) :
    authAs c t nfields second = c.guest := by
  apply Classical.byContradiction
  intro hne
  obtain ⟨tok, _, hs, hv, _⟩ := access_sound c t nfields second _ rfl hne
  rw [h tok hs] at hv
  cases hv

/-- an expired token (the server's clock has passed `int(exp)`; a token without `exp` counts as 0) is
downgraded to the guest -/
theorem guest_if_expired (c : Cfg) (t : Int) (nfields : Nat) (tok : Token)
    (h : ∀ e, claimInt tok.exp = some e → e < srvNow t) :
    authAs c t nfields (.tok tok) = c.guest := by
  apply Classical.byContradiction
  intro hne
  obtain ⟨tok', _, hs, _, _, ⟨⟨e, he, hle⟩, _⟩, _⟩ := access_sound c t nfields _ _ rfl hne
  cases hs
  have := h e he
  omega

/-- a malformed string or a header that does not have exactly two fields: guest -/
theorem guest_if_malformed (c : Cfg) (t : Int) (nfields : Nat) (second : Raw)
    (h : nfields ≠ 2 ∨ second = .malformed ∨ second = .empty) :
    authAs c t nfields second = c.guest := by
  apply Classical.byContradiction
  intro hne
  obtain ⟨tok, hn, hs, _⟩ := access_sound c t nfields second _ rfl hne
  rcases h with h | h | h
  · exact h hn
  · rw [h] at hs; cases hs
  · rw [h] at hs; cases hs

/-! ## refresh and e-mail tokens -/

/-- **refresh_sound.** -/
theorem refresh_sound (c : Cfg) (t : Int) (raw : Raw) (id : Ident) (h : verifyRefreshJwt c t raw = .ok id) :
    (raw = .empty ∧ id = ⟨c.guest, 0, []⟩) ∨
    ∃ tok, raw = .tok tok ∧ verify c.vRefresh tok = true ∧ tok.alg.isHMAC = true ∧
      claimString tok.typ = some c.refreshType ∧ Unexpired t tok ∧
      claimString tok.sub = some id.user ∧ claimString tok.cli = some id.cli ∧ claimInt tok.exp = some id.exp := by
  rcases verifyRefreshJwt_ok.mp h with h | ⟨_, hp, he⟩
  · exact Or.inl h
  · obtain ⟨tok, h1, h2, h3, hcli, hsub, hexp, htyp⟩ := parseRefreshJwtClaim_some.mp hp
    exact Or.inr ⟨tok, h1, h3, (verify_iff.mp h3).1, htyp, ⟨⟨id.exp, hexp, he⟩, claimsValid_exp h2⟩, hsub, hcli, hexp⟩

/-- with a non-empty REFRESH_JWT_CLAIM_TYPE the `typ` claim must be present and equal to it -/
theorem refresh_sound_typ (c : Cfg) (t : Int) (tok : Token) (id : Ident) (hty : c.refreshType ≠ [])
    (h : verifyRefreshJwt c t (.tok tok) = .ok id) : tok.typ = .str c.refreshType := by
  rcases refresh_sound c t _ id h with ⟨h', _⟩ | ⟨tok', h1, _, _, htyp, _⟩
  · cases h'
  · cases h1
    cases hx : tok.typ <;> rw [hx] at htyp <;> simp [claimString] at htyp
    · exact absurd htyp hty
    · rw [htyp]

/-- **email_sound_ctx.** `VerifyEmailJwt(raw, context)` succeeds only for a token that verifies under the
E-MAIL secret, is unexpired, and whose `ctx` claim is the asked context. -/
theorem email_sound_ctx (c : Cfg) (t : Int) (raw : Raw) (context : Bytes) (id : Ident) (eml : Bytes)
    (h : verifyEmailJwt c t raw context = .ok (id, eml)) :
    ∃ tok, raw = .tok tok ∧ verify c.vEmail tok = true ∧ tok.alg.isHMAC = true ∧
      claimString tok.ctx = some context ∧ Unexpired t tok ∧
      claimString tok.sub = some id.user ∧ claimString tok.eml = some eml ∧ claimInt tok.exp = some id.exp := by
  obtain ⟨hp, he⟩ := verifyEmailJwt_ok.mp h
  obtain ⟨tok, h1, h2, h3, _, hsub, heml, hexp, hctx⟩ := parseEmailJwtClaim_some.mp hp
  exact ⟨tok, h1, h3, (verify_iff.mp h3).1, hctx, ⟨⟨id.exp, hexp, he⟩, claimsValid_exp h2⟩, hsub, heml, hexp⟩

/-- an e-mail token issued for one context is refused for every other context — by the `ctx` comparison
alone, whatever the signature oracle says -/
theorem email_rejects_other_context (c : Cfg) (t t0 : Int) (user cli eml ctx₁ ctx₂ : Bytes) (σ : Secret → Bool)
    (hne : ctx₁ ≠ ctx₂) :
    verifyEmailJwt c t (.tok (createEmailToken c t0 user cli eml ctx₁ σ)) ctx₂ = .error .invalidToken := by
  cases h : verifyEmailJwt c t (.tok (createEmailToken c t0 user cli eml ctx₁ σ)) ctx₂ with
  | error e =>
    unfold verifyEmailJwt at h
    split at h
    · cases h; rfl
    · split at h
      · cases h; rfl
      · split at h
        · cases h; rfl
        · split at h
          · cases h; rfl
          · cases h
  | ok p =>
    obtain ⟨id, em⟩ := p
    obtain ⟨tok, h1, _, _, hctx, _⟩ := email_sound_ctx c t _ ctx₂ id em h
    cases h1
    simp [createEmailToken, claimString] at hctx
    exact absurd hctx hne

/-- `userInfoIsValidEmailUser` (ChangeEmail, SetIDEmail): valid only if the requester is the target user (or
a sysop where sysops are allowed) and the e-mail token verifies, is unexpired, is of the asked context and
is a token OF THE TARGET USER. -/
theorem email_user_sound (c : Cfg) (t : Int) (strGuest uuser query : Bytes) (raw : Raw) (context : Bytes)
    (allow sysop : Bool) (eml : Bytes)
    (h : emailUserOK c t strGuest uuser query raw context allow sysop = some eml) :
    query ≠ strGuest ∧ (uuser = query ∨ (allow = true ∧ sysop = true)) ∧
    ∃ tok, raw = .tok tok ∧ verify c.vEmail tok = true ∧ claimString tok.ctx = some context ∧ Unexpired t tok ∧
      claimString tok.sub = some query ∧ claimString tok.eml = some eml := by
  unfold emailUserOK at h
  split at h
  · cases h
  · rename_i hq
    split at h
    · cases h
    · rename_i hs
      split at h
      · cases h
      · rename_i id em hv
        split at h
        · cases h
        · rename_i hqu
          simp at h; subst h
          simp only [ne_eq, Decidable.not_not] at hqu
          obtain ⟨tok, h1, h2, _, hctx, hun, hsub, heml, _⟩ := email_sound_ctx c t raw context id em hv
          refine ⟨hq, ?_, tok, h1, h2, hctx, hun, by rw [hqu]; exact hsub, heml⟩
          simp only [Bool.and_eq_true, Bool.not_eq_true', Bool.and_eq_false_iff, ne_eq, not_and] at hs
          by_cases hu : uuser = query
          · exact Or.inl hu
          · right
            cases allow <;> cases sysop <;> simp_all

/-- **the e-mail token is bound to the user it was issued for, whoever presents it**: a privileged caller
(PERM_SYSOP / PERM_ACCOUNTS / PERM_ACCTREG, on a route that allows sysops) is let through the requester test
only — a token whose subject is not the target user is refused for him as for everybody. -/
theorem email_token_bound_to_its_user (c : Cfg) (t : Int) (strGuest uuser query : Bytes) (tok : Token) (context : Bytes)
    (allow sysop : Bool) (hsub : claimString tok.sub ≠ some query) :
    emailUserOK c t strGuest uuser query (.tok tok) context allow sysop = none := by
  cases h : emailUserOK c t strGuest uuser query (.tok tok) context allow sysop with
  | none => rfl
  | some eml =>
    obtain ⟨_, _, tok', h1, _, _, _, hs, _⟩ := email_user_sound c t strGuest uuser query _ context allow sysop eml h
    cases h1
    exact absurd hs hsub

/-- witness for the rule above being needed: the gate WITHOUT the `queryUUserID != emailUserID` test for
privileged callers (`emailUserOKSysopFirst`: verify, let a sysop through, test requester = target = subject for
the others) accepts alice's id-e-mail token for the target bob when a sysop presents it. -/
def emailUserOKSysopFirst (c : Cfg) (t : Int) (strGuest uuser query : Bytes) (raw : Raw) (context : Bytes)
    (isAllowSysop isSysop : Bool) : Option Bytes :=
  if query = strGuest then none
  else match verifyEmailJwt c t raw context with
    | .error _ => none
    | .ok (id, eml) =>
      if isAllowSysop && isSysop then some eml
      else if uuser ≠ query || query ≠ id.user then none else some eml

theorem sysop_first_gate_unbinds_token :
    let alice : Bytes := [97, 108, 105, 99, 101]
    let bob : Bytes := [98, 111, 98]
    let root : Bytes := [114, 111, 111, 116]
    let ctx := Token.contextSetIDEmail
    let tok := createEmailToken srcCfg 1800000000 alice [] [109] ctx (fun k => k == srcCfg.sEmail)
    emailUserOKSysopFirst srcCfg 1800000000 Token.strGuest root bob (.tok tok) ctx true true = some [109] ∧
    emailUserOK srcCfg 1800000000 Token.strGuest root bob (.tok tok) ctx true true = none ∧
    emailUserOK srcCfg 1800000000 Token.strGuest root alice (.tok tok) ctx true true = some [109] := by
  decide

/-- `GetEmailTokenInfo`: information is given only about a token that verifies for the asked context, is
unexpired, is not a guest's, and whose subject is the caller — or the caller is privileged. -/
theorem email_info_sound (c : Cfg) (t : Int) (strGuest uuser : Bytes) (body : Raw) (context : Bytes) (sysop : Bool)
    (id : Ident) (eml : Bytes)
    (h : getEmailTokenInfo c t strGuest uuser body context sysop = .ok (id, eml)) :
    id.user ≠ strGuest ∧ (uuser = id.user ∨ sysop = true) ∧
    ∃ tok, body = .tok tok ∧ verify c.vEmail tok = true ∧ claimString tok.ctx = some context ∧ Unexpired t tok ∧
      claimString tok.sub = some id.user ∧ claimString tok.eml = some eml := by
  unfold getEmailTokenInfo at h
  split at h
  · cases h
  · rename_i id' eml' hv
    split at h
    · cases h
    · rename_i e he
      simp at h
      obtain ⟨h1, h2⟩ := h
      subst h1; subst h2
      obtain ⟨hq, hreq, tok, ht, hver, hctx, hun, hsub, _⟩ := email_user_sound c t strGuest uuser _ body context true sysop e he
      obtain ⟨tok', ht', _, _, _, _, _, heml, _⟩ := email_sound_ctx c t body context _ _ hv
      rw [ht] at ht'; cases ht'
      refine ⟨hq, ?_, tok, ht, hver, hctx, hun, hsub, heml⟩
      rcases hreq with h | ⟨_, h⟩
      · exact Or.inl h
      · exact Or.inr h

/-! ## tokens of one kind presented as another kind -/

/-- **access_rejects_other_kinds** (refresh token as access token).  The ONLY thing that separates a
refresh token from an access token in `VerifyJwt` is the secret (`VerifyJwt` does not look at `typ`): under the
configuration hypothesis `c.sRefresh ≠ c.vAccess` and the cryptographic hypothesis `SignedOnly c.sRefresh σ`, a
refresh token this server issued does not authenticate. -/
theorem access_rejects_refresh_token (c : Cfg) (t t0 : Int) (user cli : Bytes) (σ : Secret → Bool)
    (hk : c.sRefresh ≠ c.vAccess) (hσ : SignedOnly c.sRefresh σ) (n : Nat) :
    authAs c t n (.tok (createRefreshToken c t0 user cli σ).1) = c.guest := by
  apply guest_if_not_verified
  intro tok htok
  cases htok
  cases hv : verify c.vAccess (createRefreshToken c t0 user cli σ).1 with
  | false => rfl
  | true =>
    have := (verify_iff.mp hv).2
    simp only [createRefreshToken] at this
    exact absurd (hσ _ this).symm hk

/-- **access_rejects_other_kinds** (e-mail token as access token): again the secret alone. -/
theorem access_rejects_email_token (c : Cfg) (t t0 : Int) (user cli eml ctx : Bytes) (σ : Secret → Bool)
    (hk : c.sEmail ≠ c.vAccess) (hσ : SignedOnly c.sEmail σ) (n : Nat) :
    authAs c t n (.tok (createEmailToken c t0 user cli eml ctx σ)) = c.guest := by
  apply guest_if_not_verified
  intro tok htok
  cases htok
  cases hv : verify c.vAccess (createEmailToken c t0 user cli eml ctx σ) with
  | false => rfl
  | true =>
    have := (verify_iff.mp hv).2
    simp only [createEmailToken] at this
    exact absurd (hσ _ this).symm hk

/-- for the secrets of the source: refresh and e-mail tokens of this server are guests at the login check -/
theorem access_rejects_other_kinds (t t0 : Int) (user cli eml ctx : Bytes) (σ : Secret → Bool) (n : Nat) :
    (SignedOnly srcCfg.sRefresh σ → authAs srcCfg t n (.tok (createRefreshToken srcCfg t0 user cli σ).1) = srcCfg.guest) ∧
    (SignedOnly srcCfg.sEmail σ → authAs srcCfg t n (.tok (createEmailToken srcCfg t0 user cli eml ctx σ)) = srcCfg.guest) :=
  ⟨fun h => access_rejects_refresh_token srcCfg t t0 user cli σ (by decide) h n,
   fun h => access_rejects_email_token srcCfg t t0 user cli eml ctx σ (by decide) h n⟩

/-- the same after `InitConfig()` with no ini entry or any shipped ini file: whatever configuration `c` results,
refresh and e-mail tokens issued under it are guests at the login check -/
theorem access_rejects_other_kinds_effective (ini : Env) (hini : ini ∈ shippedInis) (c : Cfg) (hc : effCfg ini = some c)
    (t t0 : Int) (user cli eml ctx : Bytes) (σ : Secret → Bool) (n : Nat) :
    (SignedOnly c.sRefresh σ → authAs c t n (.tok (createRefreshToken c t0 user cli σ).1) = c.guest) ∧
    (SignedOnly c.sEmail σ → authAs c t n (.tok (createEmailToken c t0 user cli eml ctx σ)) = c.guest) := by
  have h := List.all_eq_true.mp effective_configs_separate_kinds ini hini
  rw [hc] at h
  simp only [Option.map_some, beq_iff_eq, Option.some.injEq, kindsSeparated, Bool.and_eq_true, bne_iff_ne, ne_eq] at h
  obtain ⟨⟨⟨⟨h1, h2⟩, _⟩, _⟩, _⟩ := h
  exact ⟨fun hs => access_rejects_refresh_token c t t0 user cli σ h1 hs n,
         fun hs => access_rejects_email_token c t t0 user cli eml ctx σ h2 hs n⟩

/-- **the separation of access tokens rests on the secrets only.**  In the configuration that is the source
configuration with the refresh and e-mail secrets set to the access secret, the refresh token the server
issues to "alice" authenticates her at the login check (witness; the signature is the ideal one). -/
theorem equal_secrets_break_kinds :
    let c : Cfg := { srcCfg with vRefresh := srcCfg.vAccess, vEmail := srcCfg.vAccess,
                                 sRefresh := srcCfg.vAccess, sEmail := srcCfg.vAccess }
    let alice : Bytes := [97, 108, 105, 99, 101]
    let σ : Secret → Bool := fun k => k == c.sRefresh
    SignedOnly c.sRefresh σ ∧
    authAs c 1000 2 (.tok (createRefreshToken c 1000 alice [] σ).1) = alice ∧ alice ≠ c.guest := by
  refine ⟨?_, by decide, by decide⟩
  intro k hk
  simpa using hk

/-- an access token presented as REFRESH token is refused by the `typ` comparison alone (no assumption on
signatures or secrets; REFRESH_JWT_CLAIM_TYPE must be non-empty, which `source_constants` states) -/
theorem refresh_rejects_access_token (c : Cfg) (t t0 : Int) (user cli : Bytes) (σ : Secret → Bool)
    (hty : c.refreshType ≠ []) (id : Ident) :
    verifyRefreshJwt c t (.tok (createToken c t0 user cli σ).1) ≠ .ok id := by
  intro h
  have := refresh_sound_typ c t _ id hty h
  simp [createToken] at this

/-- an e-mail token presented as refresh token: refused by `typ` alone -/
theorem refresh_rejects_email_token (c : Cfg) (t t0 : Int) (user cli eml ctx : Bytes) (σ : Secret → Bool)
    (hty : c.refreshType ≠ []) (id : Ident) :
    verifyRefreshJwt c t (.tok (createEmailToken c t0 user cli eml ctx σ)) ≠ .ok id := by
  intro h
  have := refresh_sound_typ c t _ id hty h
  simp [createEmailToken] at this

/-- access and refresh tokens presented as e-mail token for a non-empty context: refused by `ctx` alone -/
theorem email_rejects_access_and_refresh_tokens (c : Cfg) (t t0 : Int) (user cli context : Bytes) (σ : Secret → Bool)
    (hctx : context ≠ []) (p : Ident × Bytes) :
    verifyEmailJwt c t (.tok (createToken c t0 user cli σ).1) context ≠ .ok p ∧
    verifyEmailJwt c t (.tok (createRefreshToken c t0 user cli σ).1) context ≠ .ok p := by
  obtain ⟨id, em⟩ := p
  constructor
  · intro h
    obtain ⟨tok, h1, _, _, hc, _⟩ := email_sound_ctx c t _ context id em h
    cases h1
    simp [createToken, claimString] at hc
    exact hctx hc
  · intro h
    obtain ⟨tok, h1, _, _, hc, _⟩ := email_sound_ctx c t _ context id em h
    cases h1
    simp [createRefreshToken, claimString] at hc
    exact hctx hc

/-! ## Refresh -/

/-- **refresh_same_user**, general form.  If `Refresh` succeeds for user `U = out.user`:
* the refresh token of the body is either a token that verifies under the REFRESH secret, has the refresh
  type, is unexpired and has subject `U` — or it is the empty string and `U` is the guest;
* the header token is either a token that verifies under the ACCESS secret with subject `U` — or the header
  carries no token and `U` is the guest;
* the expiry distance of the two is the expected one up to ε, and the client info of the refresh token equals
  the client info of the body or that of the access token;
* both issued tokens are HS256 tokens with subject `U`, the new refresh token has the refresh type, the new
  access token has no `typ`. -/
theorem refresh_same_user (c : Cfg) (t : Int) (nfields : Nat) (second : Raw) (pcli : Bytes) (praw : Raw)
    (σa σr : Secret → Bool) (out : RefreshOut)
    (h : refresh c t nfields second pcli praw σa σr = .ok out) :
    ∃ a r : Ident,
      a.user = out.user ∧ r.user = out.user ∧
      ((praw = .empty ∧ r = ⟨c.guest, 0, []⟩) ∨
        ∃ rt, praw = .tok rt ∧ verify c.vRefresh rt = true ∧ claimString rt.typ = some c.refreshType ∧
          Unexpired t rt ∧ claimString rt.sub = some out.user ∧ claimString rt.cli = some r.cli ∧ claimInt rt.exp = some r.exp) ∧
      ((getJwt nfields second = .empty ∧ a = ⟨c.guest, 0, []⟩) ∨
        ∃ tk, nfields = 2 ∧ second = .tok tk ∧ verify c.vAccess tk = true ∧ claimsValid t tk = true ∧
          claimString tk.sub = some out.user ∧ claimString tk.cli = some a.cli ∧ claimInt tk.exp = some a.exp) ∧
      (-c.eps ≤ r.exp - a.exp - c.pairDiff ∧ r.exp - a.exp - c.pairDiff ≤ c.eps) ∧
      (r.cli = pcli ∨ r.cli = a.cli) ∧
      out.access = (createToken c t out.user r.cli σa).1 ∧ out.refresh = (createRefreshToken c t out.user r.cli σr).1 ∧
      out.access.sub = .str out.user ∧ out.refresh.sub = .str out.user ∧
      out.access.alg = .hs256 ∧ out.refresh.alg = .hs256 ∧
      out.access.typ = .absent ∧ out.refresh.typ = .str c.refreshType := by
  unfold refresh at h
  split at h
  · cases h
  · rename_i a ha
    split at h
    · cases h
    · rename_i r hr
      split at h
      · cases h
      · rename_i hd
        split at h
        · cases h
        · rename_i hcli
          split at h
          · cases h
          · rename_i hu
            simp at h
            subst h
            simp only [ne_eq, Decidable.not_not] at hu
            simp only [Bool.or_eq_true, decide_eq_true_eq, not_or] at hd
            simp only [ne_eq, Bool.and_eq_true, decide_eq_true_eq, not_and, Decidable.not_not] at hcli
            refine ⟨a, r, hu.symm, rfl, ?_, ?_, ⟨by omega, by omega⟩, ?_, rfl, rfl, rfl, rfl, rfl, rfl, rfl, rfl⟩
            · rcases refresh_sound c t praw r hr with h' | ⟨rt, h1, h2, _, h4, h5, h6, h7, h8⟩
              · exact Or.inl h'
              · exact Or.inr ⟨rt, h1, h2, h4, h5, h6, h7, h8⟩
            · rcases verifyJwt_sound c t _ false a ha with h' | ⟨tk, h1, h2, _, h4, h5, h6, h7, _⟩
              · exact Or.inl h'
              · right
                unfold getJwt at h1
                split at h1
                · rename_i hn
                  exact ⟨tk, hn, h1, h2, h4, by simp only [hu]; exact h5, h6, h7⟩
                · cases h1
            · by_cases hx : r.cli = pcli
              · exact Or.inl hx
              · exact Or.inr (hcli hx)

/-- **refresh_same_user** as the property states it: once the server's clock is later than the expected pair
distance + ε after the epoch (source values: 6 days + 2 s) and non-negative, a successful `Refresh` had BOTH
tokens: an access token verifying under the access secret and a refresh token verifying under the refresh
secret (type refresh, unexpired), both with the subject the new tokens are issued for. -/
theorem refresh_same_user_epoch (c : Cfg) (t : Int) (nfields : Nat) (second : Raw) (pcli : Bytes) (praw : Raw)
    (σa σr : Secret → Bool) (out : RefreshOut)
    (hpd : c.eps < c.pairDiff) (h0 : 0 ≤ t) (hlate : c.pairDiff + c.eps < srvNow t)
    (h : refresh c t nfields second pcli praw σa σr = .ok out) :
    ∃ tk rt, nfields = 2 ∧ second = .tok tk ∧ praw = .tok rt ∧
      verify c.vAccess tk = true ∧ verify c.vRefresh rt = true ∧
      claimString rt.typ = some c.refreshType ∧ Unexpired t rt ∧
      claimString tk.sub = some out.user ∧ claimString rt.sub = some out.user ∧
      out.access.sub = .str out.user ∧ out.refresh.sub = .str out.user := by
  obtain ⟨a, r, _, _, hr, ha, ⟨hd1, hd2⟩, _, _, _, hs1, hs2, _⟩ :=
    refresh_same_user c t nfields second pcli praw σa σr out h
  rcases hr with ⟨_, hr⟩ | ⟨rt, hr1, hr2, hr3, hr4, hr5, _, hr7⟩
  · -- no refresh token: r.exp = 0, so a.exp is negative and non-zero, impossible at t ≥ 0
    exfalso
    subst hr
    simp only at hd1 hd2
    rcases ha with ⟨_, ha⟩ | ⟨tk, _, _, _, hcv, _, _, hexp⟩
    · subst ha; simp only at hd1 hd2; omega
    · have hlib := claimsValid_exp hcv
      cases hx : tk.exp with
      | absent => rw [hx] at hexp; simp [claimInt] at hexp; omega
      | str s => rw [hx] at hexp; simp [claimInt] at hexp
      | other => rw [hx] at hexp; simp [claimInt] at hexp
      | num fl fr =>
        rw [hx] at hexp hlib
        simp only [claimInt, Option.some.injEq] at hexp
        simp only [dateOK, Bool.or_eq_true, Bool.and_eq_true, beq_iff_eq, Bool.not_eq_true', decide_eq_true_eq] at hlib
        split at hexp <;> omega
  · rcases ha with ⟨_, ha⟩ | ⟨tk, hn, hs, hv, _, hsub, _, _⟩
    · -- no access token: a.exp = 0, the refresh token would have expired 6 days after the epoch
      exfalso
      subst ha
      simp only at hd1 hd2
      obtain ⟨⟨e, he, hle⟩, _⟩ := hr4
      rw [hr7] at he
      simp at he
      omega
    · exact ⟨tk, rt, hn, hs, hr1, hv, hr2, hr3, hr4, hsub, hr5, hs1, hs2⟩

/-- **the pair tolerance is two seconds** (api/const.go EPSILON_EXPIRE_TS, regenerated): the two tokens of a pair
are created back to back, and the expiry distance is the ONLY thing that identifies a pair — every second of
tolerance is a second within which the tokens of two different sessions of a user are interchangeable. -/
theorem pair_tolerance_is_two_seconds : srcCfg.eps = 2 ∧ srcCfg.pairDiff = 518400 := by decide

/-- in the source configuration a successful `Refresh` had tokens whose expiry times differ from the expected
distance (6 days) by at most 2 s -/
theorem refresh_pair_distance_src (t : Int) (nfields : Nat) (second : Raw) (pcli : Bytes) (praw : Raw)
    (σa σr : Secret → Bool) (out : RefreshOut)
    (h : refresh srcCfg t nfields second pcli praw σa σr = .ok out) :
    ∃ a r : Ident, verifyJwt srcCfg t (getJwt nfields second) false = .ok a ∧ verifyRefreshJwt srcCfg t praw = .ok r ∧
      -2 ≤ r.exp - a.exp - 518400 ∧ r.exp - a.exp - 518400 ≤ 2 := by
  unfold refresh at h
  split at h
  · cases h
  · rename_i a ha
    split at h
    · cases h
    · rename_i r hr
      split at h
      · cases h
      · rename_i hd
        simp only [Bool.or_eq_true, decide_eq_true_eq, not_or] at hd
        have he := pair_tolerance_is_two_seconds
        rw [he.1, he.2] at hd
        exact ⟨a, r, ha, hr, by omega, by omega⟩

/-- **cross-session pairs are refused**: the access token of a session opened at `t1` and the refresh token of a
session opened at `t2`, more than ε apart, do not refresh — whoever the users are, whatever the signatures
(times in the range of the int32 clock, `pairDiff` the difference of the two lifetimes). -/
theorem refresh_rejects_cross_session_pair (c : Cfg) (t t1 t2 : Int) (u1 u2 cli1 cli2 pcli : Bytes)
    (σ₁ σ₂ σa σr : Secret → Bool)
    (hpd : c.pairDiff = c.ttlRefresh - c.ttlAccess)
    (h1 : 0 ≤ t1) (h2 : 0 ≤ t2) (hA : 0 ≤ c.ttlAccess) (hR : 0 ≤ c.ttlRefresh)
    (hm1 : t1 + c.ttlAccess < 2147483648) (hm2 : t2 + c.ttlRefresh < 2147483648)
    (hfar : c.eps < t2 - t1 ∨ t2 - t1 < -c.eps) :
    refresh c t 2 (.tok (createToken c t1 u1 cli1 σ₁).1) pcli (.tok (createRefreshToken c t2 u2 cli2 σ₂).1) σa σr
      = .error .invalidToken := by
  have ea : (createToken c t1 u1 cli1 σ₁).1.exp = .num (t1 + c.ttlAccess) false := by
    simp [createToken, srvNow, toTime4_of_range h1 (by omega), toTime4_of_range hA (by omega), toTime4_of_range (by omega : 0 ≤ t1 + c.ttlAccess) hm1]
  have er : (createRefreshToken c t2 u2 cli2 σ₂).1.exp = .num (t2 + c.ttlRefresh) false := by
    simp [createRefreshToken, srvNow, toTime4_of_range h2 (by omega), toTime4_of_range hR (by omega), toTime4_of_range (by omega : 0 ≤ t2 + c.ttlRefresh) hm2]
  cases hres : refresh c t 2 (.tok (createToken c t1 u1 cli1 σ₁).1) pcli (.tok (createRefreshToken c t2 u2 cli2 σ₂).1) σa σr with
  | error e =>
    unfold refresh at hres
    split at hres
    · cases hres; rfl
    · split at hres
      · cases hres; rfl
      · split at hres
        · cases hres; rfl
        · split at hres
          · cases hres; rfl
          · split at hres
            · cases hres; rfl
            · cases hres
  | ok out =>
    exfalso
    obtain ⟨a, r, _, _, hr, ha, ⟨hd1, hd2⟩, _⟩ := refresh_same_user c t 2 _ pcli _ σa σr out hres
    rcases hr with ⟨hr, _⟩ | ⟨rt, hrt, _, _, _, _, _, hrexp⟩
    · cases hr
    · rcases ha with ⟨ha, _⟩ | ⟨tk, _, htk, _, _, _, _, haexp⟩
      · simp [getJwt] at ha
      · cases hrt; cases htk
        rw [er] at hrexp; rw [ea] at haexp
        simp [claimInt] at hrexp haexp
        omega

/-- witness: with the tolerance raised to 60 s, alice's access token of 12:00:00 and her refresh token of
12:00:30 — two different sessions — refresh; with the source's 2 s they do not. -/
theorem wide_tolerance_merges_sessions :
    let alice : Bytes := [97, 108, 105, 99, 101]
    let σ₁ : Secret → Bool := fun k => k == srcCfg.sAccess
    let σ₂ : Secret → Bool := fun k => k == srcCfg.sRefresh
    let acc := (createToken srcCfg 1800000000 alice [] σ₁).1
    let ref := (createRefreshToken srcCfg 1800000030 alice [] σ₂).1
    (∃ out, refresh { srcCfg with eps := 60 } 1800000040 2 (.tok acc) [] (.tok ref) σ₁ σ₂ = .ok out ∧ out.user = alice) ∧
    refresh srcCfg 1800000040 2 (.tok acc) [] (.tok ref) σ₁ σ₂ = .error .invalidToken := by
  exact ⟨⟨_, rfl, rfl⟩, rfl⟩

/-- RECORDED (configuration): `VerifyJwt("")` and `VerifyRefreshJwt("")` both answer "guest, no error", so a
`Refresh` that carries NO token at all is turned down only by the expiry-distance test, i.e. only because the
two configured lifetimes differ by more than ε (`source_constants`).  Witness: in the source configuration
with an expected distance of 0 the server signs a fresh token pair for "guest" for a request without
credentials. -/
theorem refresh_without_tokens_needs_distinct_ttls :
    let c : Cfg := { srcCfg with pairDiff := 0 }
    let σ : Secret → Bool := fun k => k == c.sAccess
    (∃ out, refresh c 1800000000 1 .empty [] .empty σ σ = .ok out ∧ out.user = c.guest) ∧
    refresh srcCfg 1800000000 1 .empty [] .empty σ σ = .error .invalidToken := by
  exact ⟨⟨_, rfl, rfl⟩, rfl⟩

/-! ## issued tokens are accepted (non-vacuity of everything above) -/

/-- **issued_tokens_verify**, access: a token `CreateToken` issues at `t0` is accepted by `VerifyJwt` (expiry
check on) at every `t` with `t0 ≤ t < t0 + ttl`, as that user — provided the signature verifies under the
signing key (the library's Sign/Verify round trip), the signing key is the verification key, and the times
are in the range of the int32 clock. -/
theorem issued_access_verifies (c : Cfg) (t0 t : Int) (user cli : Bytes) (σ : Secret → Bool)
    (hσ : σ c.sAccess = true) (hk : c.sAccess = c.vAccess)
    (h0 : 0 ≤ t0) (httl : 0 < c.ttlAccess) (hmax : t0 + c.ttlAccess < 2147483648)
    (ht0 : t0 ≤ t) (ht : t < t0 + c.ttlAccess) :
    verifyJwt c t (.tok (createToken c t0 user cli σ).1) true = .ok ⟨user, t0 + c.ttlAccess, cli⟩ ∧
    authAs c t 2 (.tok (createToken c t0 user cli σ).1) = user := by
  have e1 : srvNow t0 = t0 := srvNow_of_range h0 (by omega)
  have e2 : toTime4 c.ttlAccess = c.ttlAccess := toTime4_of_range (by omega) (by omega)
  have e3 : toTime4 (t0 + c.ttlAccess) = t0 + c.ttlAccess := toTime4_of_range (by omega) hmax
  have e4 : srvNow t = t := srvNow_of_range (by omega) (by omega)
  have hv : verifyJwt c t (.tok (createToken c t0 user cli σ).1) true = .ok ⟨user, t0 + c.ttlAccess, cli⟩ := by
    apply verifyJwt_ok.mpr
    right
    refine ⟨by simp, ?_, fun _ => by rw [e4]; simp only; omega⟩
    apply parseJwtClaim_some.mpr
    refine ⟨_, rfl, ?_, ?_, ?_, ?_, ?_⟩
    · simp only [createToken, claimsValid, dateOK, e1, e2, e3, Bool.and_true, Bool.or_eq_true, decide_eq_true_eq]
      right; exact ht
    · simp [verify, createToken, Alg.isHMAC, ← hk, hσ]
    · simp [createToken, claimString]
    · simp [createToken, claimString]
    · simp [createToken, claimInt, e1, e2, e3]
  refine ⟨hv, ?_⟩
  simp [authAs, getJwt, hv]

/-- **issued_tokens_verify**, refresh -/
theorem issued_refresh_verifies (c : Cfg) (t0 t : Int) (user cli : Bytes) (σ : Secret → Bool)
    (hσ : σ c.sRefresh = true) (hk : c.sRefresh = c.vRefresh)
    (h0 : 0 ≤ t0) (httl : 0 < c.ttlRefresh) (hmax : t0 + c.ttlRefresh < 2147483648)
    (ht0 : t0 ≤ t) (ht : t < t0 + c.ttlRefresh) :
    verifyRefreshJwt c t (.tok (createRefreshToken c t0 user cli σ).1) = .ok ⟨user, t0 + c.ttlRefresh, cli⟩ := by
  have e1 : srvNow t0 = t0 := srvNow_of_range h0 (by omega)
  have e2 : toTime4 c.ttlRefresh = c.ttlRefresh := toTime4_of_range (by omega) (by omega)
  have e3 : toTime4 (t0 + c.ttlRefresh) = t0 + c.ttlRefresh := toTime4_of_range (by omega) hmax
  have e4 : srvNow t = t := srvNow_of_range (by omega) (by omega)
  apply verifyRefreshJwt_ok.mpr
  right
  refine ⟨by simp, ?_, by rw [e4]; simp only; omega⟩
  apply parseRefreshJwtClaim_some.mpr
  refine ⟨_, rfl, ?_, ?_, ?_, ?_, ?_, ?_⟩
  · simp only [createRefreshToken, claimsValid, dateOK, e1, e2, e3, Bool.and_true, Bool.or_eq_true, decide_eq_true_eq]
    right; exact ht
  · simp [verify, createRefreshToken, Alg.isHMAC, ← hk, hσ]
  · simp [createRefreshToken, claimString]
  · simp [createRefreshToken, claimString]
  · simp [createRefreshToken, claimInt, e1, e2, e3]
  · simp [createRefreshToken, claimString]

/-- **issued_tokens_verify**, e-mail (for the context it was issued for) -/
theorem issued_email_verifies (c : Cfg) (t0 t : Int) (user cli eml ctx : Bytes) (σ : Secret → Bool)
    (hσ : σ c.sEmail = true) (hk : c.sEmail = c.vEmail)
    (h0 : 0 ≤ t0) (httl : 0 < c.ttlEmail) (hmax : t0 + c.ttlEmail < 2147483648)
    (ht0 : t0 ≤ t) (ht : t < t0 + c.ttlEmail) :
    verifyEmailJwt c t (.tok (createEmailToken c t0 user cli eml ctx σ)) ctx = .ok (⟨user, t0 + c.ttlEmail, cli⟩, eml) := by
  have e1 : srvNow t0 = t0 := srvNow_of_range h0 (by omega)
  have e4 : srvNow t = t := srvNow_of_range (by omega) (by omega)
  apply verifyEmailJwt_ok.mpr
  refine ⟨?_, by rw [e4]; simp only; omega⟩
  apply parseEmailJwtClaim_some.mpr
  refine ⟨_, rfl, ?_, ?_, ?_, ?_, ?_, ?_, ?_⟩
  · simp only [createEmailToken, claimsValid, dateOK, e1, Bool.and_true, Bool.or_eq_true, decide_eq_true_eq]
    right; exact ht
  · simp [verify, createEmailToken, Alg.isHMAC, ← hk, hσ]
  · simp [createEmailToken, claimString]
  · simp [createEmailToken, claimString]
  · simp [createEmailToken, claimString]
  · simp [createEmailToken, claimInt, e1]
  · simp [createEmailToken, claimString]

/-- the pair the server issues at `t0` is refreshable at every `t` while the access token is unexpired
(non-vacuity of `refresh_same_user`; the new tokens are for the same user) -/
theorem issued_pair_refreshes (c : Cfg) (t0 t : Int) (user cli pcli : Bytes) (σ₁ σ₂ σa σr : Secret → Bool)
    (hσ₁ : σ₁ c.sAccess = true) (hσ₂ : σ₂ c.sRefresh = true)
    (hk₁ : c.sAccess = c.vAccess) (hk₂ : c.sRefresh = c.vRefresh)
    (hpd : c.pairDiff = c.ttlRefresh - c.ttlAccess) (heps : 0 ≤ c.eps)
    (h0 : 0 ≤ t0) (httl : 0 < c.ttlAccess) (httl' : c.ttlAccess ≤ c.ttlRefresh) (hmax : t0 + c.ttlRefresh < 2147483648)
    (ht0 : t0 ≤ t) (ht : t < t0 + c.ttlAccess) :
    ∃ out, refresh c t 2 (.tok (createToken c t0 user cli σ₁).1) pcli (.tok (createRefreshToken c t0 user cli σ₂).1) σa σr = .ok out ∧
      out.user = user := by
  have ha := (issued_access_verifies c t0 t user cli σ₁ hσ₁ hk₁ h0 httl (by omega) ht0 ht).1
  have ha' : verifyJwt c t (.tok (createToken c t0 user cli σ₁).1) false = .ok ⟨user, t0 + c.ttlAccess, cli⟩ := by
    rcases verifyJwt_ok.mp ha with ⟨h', _⟩ | ⟨h1, h2, _⟩
    · cases h'
    · exact verifyJwt_ok.mpr (Or.inr ⟨h1, h2, fun hf => by cases hf⟩)
  have hr := issued_refresh_verifies c t0 t user cli σ₂ hσ₂ hk₂ h0 (by omega) hmax ht0 (by omega)
  unfold refresh
  simp only [getJwt, if_true, ha', hr]
  rw [if_neg, if_neg, if_neg]
  · exact ⟨_, rfl, rfl⟩
  · simp
  · simp
  · simp only [Bool.or_eq_true, decide_eq_true_eq, not_or]
    constructor <;> omega

/-- the source configuration satisfies the hypotheses of the four theorems above (so they are not vacuous):
a pair issued at 2027-01-15 is refreshable an hour later, and the access token authenticates. -/
theorem issued_tokens_verify_src :
    let σ₁ : Secret → Bool := fun k => k == srcCfg.sAccess
    let σ₂ : Secret → Bool := fun k => k == srcCfg.sRefresh
    let alice : Bytes := [97, 108, 105, 99, 101]
    authAs srcCfg 1800003600 2 (.tok (createToken srcCfg 1800000000 alice [] σ₁).1) = alice ∧
    (∃ out, refresh srcCfg 1800003600 2 (.tok (createToken srcCfg 1800000000 alice [] σ₁).1) []
        (.tok (createRefreshToken srcCfg 1800000000 alice [] σ₂).1) σ₁ σ₂ = .ok out ∧ out.user = alice) := by
  intro σ₁ σ₂ alice
  have hs := sign_keys_are_verify_keys
  have hc := source_constants
  refine ⟨(issued_access_verifies srcCfg 1800000000 1800003600 alice [] σ₁ (by simp [σ₁]) hs.1 (by omega) ?_ ?_ (by omega) ?_).2,
    issued_pair_refreshes srcCfg 1800000000 1800003600 alice [] [] σ₁ σ₂ σ₁ σ₂ (by simp [σ₁]) (by simp [σ₂]) hs.1 hs.2.1 ?_ ?_ (by omega) ?_ ?_ ?_ (by omega) ?_⟩
  all_goals decide

end PttVerif.C16
