import PttVerif.Proofs.C10
import PttVerif.Gen.PttConfig
/-
C10 — Comments are appended, never rewrite, and move the score by at most one.
Property theorems only (helper lemmas: Proofs/C10.lean; ModifyDirLite and its int8 arithmetic: Model/C05.lean).

Conventions: `find` is the search of cmsys.GetRecord that proposes an index entry (property C06); every
theorem holds for EVERY `find`, because GetRecord re-reads the proposed entry and compares its name.
`InRange b` : the stored byte `b` denotes a score in [-100, 100].   `scoreAfter t b` : the byte the comment
path stores (doAddRecommend's guarded update, then ModifyDirLite's int8 sum and clamp).
The board has an index file (`st.dir.present = true`) wherever a request is run.
-/
namespace PttVerif.C10.Props
open PttVerif PttVerif.C05 PttVerif.C10
open Gen.Comment Gen.RecFile

/-! #### regenerated data -/

/-- the type marks of `CommentType.Bytes()` are the pttbbs ones (white 推, red 噓, red →; Big5), every other
type value has no mark; the field offsets the frame theorem speaks about; the refusal bits. -/
theorem type_marks :
    typeBytes COMMENT_TYPE_RECOMMEND = [27, 91, 49, 59, 51, 55, 109, 177, 192] ∧
    typeBytes COMMENT_TYPE_BOO = [27, 91, 49, 59, 51, 49, 109, 188, 78] ∧
    typeBytes COMMENT_TYPE_COMMENT = [27, 91, 49, 59, 51, 49, 109, 161, 247] ∧
    (typeMarks.map (·.1)) = [COMMENT_TYPE_RECOMMEND, COMMENT_TYPE_BOO, COMMENT_TYPE_COMMENT] ∧
    offModified = 28 ∧ lenModified = 4 ∧ offRecommend = 33 ∧ lenRecommend = 1 ∧ offFilemode = 124 ∧
    offFilename = 0 ∧ lenFilename = 28 ∧ dirSz = 128 ∧
    Gen.Comment.FILE_MARKED = 2 ∧ Gen.Comment.FILE_SOLVED = 16 ∧ MAX_RECOMMENDS = 100 ∧ IDLEN = 12 ∧ IPV4LEN = 15 := by decide

/-- a type outside the table has no mark: its line starts with the blank. -/
theorem type_without_mark (t : Nat) (h : t ∉ typeMarks.map (·.1)) : typeBytes t = [] := by
  unfold typeBytes
  split
  · rename_i e he
    exfalso; apply h
    have h1 := List.mem_of_find?_eq_some he
    have h2 := List.find?_some he
    simp only [beq_iff_eq] at h2
    exact List.mem_map.2 ⟨e, h1, h2⟩
  · rfl

/-! #### score -/

/-- **score_step** (ModifyDirLite level): for a stored score in [-100,100] and a delta in {-1,0,1} the new
score is the saturated sum — the int8 addition does not wrap on this domain — and moves by at most one. -/
theorem score_step (cur : Nat) (d : Int) (hr : InRange cur) (hd : d = -1 ∨ d = 0 ∨ d = 1) :
    toInt8 (recommendUpdate cur d) = clamp (toInt8 cur + d) ∧
    -1 ≤ toInt8 (recommendUpdate cur d) - toInt8 cur ∧ toInt8 (recommendUpdate cur d) - toInt8 cur ≤ 1 := by
  have h := recommendUpdate_step cur d hr hd
  refine ⟨h, ?_⟩
  rw [h]
  obtain ⟨h1, h2⟩ := hr
  unfold clamp
  split
  · omega
  · split <;> omega

example : InRange 100 ∧ toInt8 (recommendUpdate 100 1) = 100 ∧ toInt8 (recommendUpdate 156 (-1)) = -100 := by decide

/-- **comment_score** (whole comment path): a push gives +1, a boo -1, every other type 0, saturating at ±100. -/
theorem comment_score (t cur : Nat) (hr : InRange cur) :
    toInt8 (scoreAfter t cur) = clamp (toInt8 cur + delta t) ∧ InRange (scoreAfter t cur) ∧
    (delta t = 1 ∨ delta t = -1 ∨ delta t = 0) ∧
    (t = COMMENT_TYPE_RECOMMEND → delta t = 1) ∧ (t = COMMENT_TYPE_BOO → delta t = -1) ∧
    (t ≠ COMMENT_TYPE_RECOMMEND → t ≠ COMMENT_TYPE_BOO → delta t = 0) := by
  refine ⟨scoreAfter_step t cur hr, scoreAfter_inRange t cur hr, ?_, ?_, ?_, ?_⟩
  · unfold delta; split
    · left; rfl
    · split
      · right; left; rfl
      · right; right; rfl
  · intro h; subst h; decide
  · intro h; subst h; decide
  · intro h1 h2; unfold delta; rw [if_neg h1, if_neg h2]

/-- **score_seq_bounded**: any sequence of comments of any types, from any start in range, stays in range. -/
theorem score_seq_bounded (ts : List Nat) (cur : Nat) (hr : InRange cur) :
    InRange (ts.foldl (fun c t => scoreAfter t c) cur) := by
  induction ts generalizing cur with
  | nil => exact hr
  | cons t ts ih => exact ih _ (scoreAfter_inRange t cur hr)

example : (List.replicate 5 COMMENT_TYPE_RECOMMEND).foldl (fun c t => scoreAfter t c) 98 = 100 := by decide

/-- **score_wraps_outside**: what happens outside the property's start range, kept explicit.
From an on-disk 127 ModifyDirLite(+1) wraps in int8 to -128 and is then clamped to -100; the comment path
itself does not get there: doAddRecommend's guard `fhdr.Recommend < MAX_RECOMMENDS` gives update 0, so a
push leaves 127 (still out of range), a boo gives 100; from -128 a push gives -100, a boo leaves -128. -/
theorem score_wraps_outside :
    toInt8 (recommendUpdate 127 1) = -100 ∧ toInt8 (recommendUpdate 128 (-1)) = 100 ∧
    scoreAfter COMMENT_TYPE_RECOMMEND 127 = 127 ∧ toInt8 (scoreAfter COMMENT_TYPE_BOO 127) = 100 ∧
    toInt8 (scoreAfter COMMENT_TYPE_RECOMMEND 128) = -100 ∧ scoreAfter COMMENT_TYPE_BOO 128 = 128 ∧
    ¬ InRange 127 ∧ ¬ InRange 128 := by decide

/-! #### the line -/

/-- **comment_line_shape**: type mark (new layout), commenter id, text, blanks, [IP], time, newline — in this
order; the old layout (OLDRECOMMEND) has the same fixed marks for every type. -/
theorem comment_line_shape (cfg : Cfg) (q : Req) :
    ∃ pre mid post,
      formatComment cfg q =
        pre ++ userBytes cfg q ++ mid ++ q.text ++ List.replicate (padLen cfg q) 32 ++ post ++ q.time ++ [10] ∧
      (cfg.oldRecommend = false →
        pre = typeBytes q.ctype ++ [32] ++ ansiColor c33 ∧ mid = ansiReset ++ ansiColor c33 ++ [58, 32] ∧
        post = ansiReset ++ (if isLogIP cfg then cstr q.ip else []) ++ [32]) ∧
      (cfg.oldRecommend = true →
        pre = ansiColor c131 ++ arrowGlyph ++ [32] ++ ansiColor c33 ∧ mid = ansiReset ++ ansiColor c33 ++ [58] ∧
        post = ansiReset ++ pushGlyph ++ (if isLogIP cfg then cstr q.ip else []) ++ [32]) := by
  cases ho : cfg.oldRecommend with
  | false =>
    refine ⟨typeBytes q.ctype ++ [32] ++ ansiColor c33, ansiReset ++ ansiColor c33 ++ [58, 32],
      ansiReset ++ (if isLogIP cfg then cstr q.ip else []) ++ [32], ?_, fun _ => ⟨rfl, rfl, rfl⟩, fun h => (by cases h)⟩
    unfold formatComment tail
    simp only [ho, Bool.false_eq_true, if_false, List.append_assoc, List.cons_append, List.nil_append]
  | true =>
    refine ⟨ansiColor c131 ++ arrowGlyph ++ [32] ++ ansiColor c33, ansiReset ++ ansiColor c33 ++ [58],
      ansiReset ++ pushGlyph ++ (if isLogIP cfg then cstr q.ip else []) ++ [32], ?_, fun h => (by cases h), fun _ => ⟨rfl, rfl, rfl⟩⟩
    unfold formatComment tail
    simp only [ho, if_true, List.append_assoc, List.cons_append, List.nil_append]

/-- the line always ends in a newline; when id, text, IP and time contain none it is the only one
(FormatCommentString itself writes the text as it is). -/
theorem comment_line_one_newline (cfg : Cfg) (q : Req) :
    (∃ body, formatComment cfg q = body ++ [10]) ∧
    (10 ∉ q.user → 10 ∉ q.text → 10 ∉ q.ip → 10 ∉ q.time → (formatComment cfg q).count 10 = 1) := by
  refine ⟨⟨_, formatComment_eq_body cfg q⟩, ?_⟩
  intro hu ht hi htm
  rw [formatComment_eq_body, List.count_append, List.count_eq_zero.2 (lineBody_no_newline cfg q hu ht hi htm)]
  rfl

/-- before b012a03 Recommend passed every text on: this text made the file grow by two lines (key
`append:newline-injection`); kept as the witness of why the text test below is needed. -/
theorem line_break_before_fix :
    ∃ cfg q, 10 ∉ q.user ∧ 10 ∉ q.ip ∧ 10 ∉ q.time ∧ hasLineBreak q.text = true ∧ (formatComment cfg q).count 10 = 2 :=
  ⟨⟨0, false, true⟩, ⟨[65, 49, 0, 0, 0, 0, 0, 0, 0, 0, 0, 0, 0], [], 3, [97, 10, 98], [], [48], 1⟩, by decide⟩

/-- fixed width: when id and text fit, id + text + blanks fill exactly the budget (62 columns, 47 with the IP
log, two less in the old layout); when they do not fit nothing is truncated and there are no blanks. -/
theorem comment_line_width (cfg : Cfg) (q : Req) :
    let budget : Int := baseLen cfg - (if cfg.oldRecommend then 2 else 0)
    (baseLen cfg = if isLogIP cfg then 47 else 62) ∧
    (((userBytes cfg q).length + q.text.length : Nat) ≤ budget →
      (((userBytes cfg q).length + q.text.length + padLen cfg q : Nat) : Int) = budget) ∧
    (budget < ((userBytes cfg q).length + q.text.length : Nat) → padLen cfg q = 0) := by
  simp only []
  refine ⟨by unfold baseLen; split <;> rfl, ?_, ?_⟩
  · unfold padLen
    cases cfg.oldRecommend <;> simp only [Bool.false_eq_true, if_false, if_true] <;> intro h <;> omega
  · unfold padLen
    cases cfg.oldRecommend <;> simp only [Bool.false_eq_true, if_false, if_true] <;> intro h <;> omega

/-! #### one request -/

/-- **comment_atomic**: a request either fails and leaves index and files exactly as they were, or it is
accepted (the remaining theorems describe that case). -/
theorem comment_atomic (find : Bytes → Nat → Bytes → Option Nat) (cfg : Cfg) (st : St) (q : Req)
    (hp : st.dir.present = true) :
    (recommend find cfg st q).1 = st ∨ ∃ line idx, (recommend find cfg st q).2 = .ok line idx := by
  rcases recommend_cases find cfg st q hp with ⟨e, _, h⟩ | ⟨k, old, _, _, _, _, _, _, h⟩
  · left; rw [h]
  · right; rw [h]; exact ⟨_, _, rfl⟩

/-- **comment_appends**: an accepted request returns `formatComment`, and the article file of the addressed
entry is the old content followed by that line; every other file is untouched; the addressed entry is one
whose name equals the requested one from the third byte on. -/
theorem comment_appends (find : Bytes → Nat → Bytes → Option Nat) (cfg : Cfg) (st st' : St) (q : Req)
    (line : Bytes) (idx : Nat) (hp : st.dir.present = true)
    (h : recommend find cfg st q = (st', .ok line idx)) :
    line = formatComment cfg q ∧ 1 ≤ idx ∧ idx * dirSz ≤ st.dir.bytes.length ∧
    nameEq q.name (field (record st.dir.bytes dirSz (idx - 1)) offFilename lenFilename) = true ∧
    ∃ old, fileGet st.files (cstr (field (record st.dir.bytes dirSz (idx - 1)) offFilename lenFilename)) = some old ∧
      fileGet st'.files (cstr (field (record st.dir.bytes dirSz (idx - 1)) offFilename lenFilename)) = some (old ++ line) ∧
      ∀ m, m ≠ cstr (field (record st.dir.bytes dirSz (idx - 1)) offFilename lenFilename) →
        fileGet st'.files m = fileGet st.files m := by
  rcases recommend_cases find cfg st q hp with ⟨e, he, h'⟩ | ⟨k, old, hle, _, hne, _, _, hf, h'⟩
  · rw [h'] at h; injection h with _ h2; exact absurd h2 (he _ _)
  · rw [h'] at h
    injection h with h1 h2
    injection h2 with h3 h4
    subst h1 h3 h4
    have hk : k + 1 - 1 = k := by omega
    rw [hk]
    refine ⟨rfl, by omega, hle, hne, old, hf, ?_, ?_⟩
    · exact fileGet_fileSet_same _ _ _ _ hf
    · intro m hm; exact fileGet_fileSet_other _ _ _ _ hm

/-- **comment_one_line**: an accepted comment is exactly ONE line, for every text: the text of an accepted
request contains neither `\n` nor `\r` (Recommend refuses those, see `comment_refuses_line_break`), so with an
id, IP and clock string free of newlines the appended bytes contain exactly one newline, the final one. -/
theorem comment_one_line (find : Bytes → Nat → Bytes → Option Nat) (cfg : Cfg) (st st' : St) (q : Req)
    (line : Bytes) (idx : Nat) (hp : st.dir.present = true)
    (h : recommend find cfg st q = (st', .ok line idx)) :
    10 ∉ q.text ∧ 13 ∉ q.text ∧ (∃ body, line = body ++ [10]) ∧
    (10 ∉ q.user → 10 ∉ q.ip → 10 ∉ q.time → line.count 10 = 1) := by
  rcases recommend_cases find cfg st q hp with ⟨e, he, h'⟩ | ⟨k, old, _, _, _, _, hb, _, h'⟩
  · rw [h'] at h; injection h with _ h2; exact absurd h2 (he _ _)
  · rw [h'] at h
    injection h with _ h2
    injection h2 with h3 _
    subst h3
    obtain ⟨h10, h13⟩ := not_mem_of_hasLineBreak_false hb
    exact ⟨h10, h13, (comment_line_one_newline cfg q).1, fun hu hi ht => (comment_line_one_newline cfg q).2 hu h10 hi ht⟩

/-- **comment_refuses_line_break**: a text with `\n` or `\r` is never accepted and leaves index and files as
they were (whatever else is wrong with the request). -/
theorem comment_refuses_line_break (find : Bytes → Nat → Bytes → Option Nat) (cfg : Cfg) (st : St) (q : Req)
    (hp : st.dir.present = true) (hb : 10 ∈ q.text ∨ 13 ∈ q.text) :
    (recommend find cfg st q).1 = st ∧ ∀ line idx, (recommend find cfg st q).2 ≠ .ok line idx := by
  rcases recommend_cases find cfg st q hp with ⟨e, he, h'⟩ | ⟨k, old, _, _, _, _, hnb, _, h'⟩
  · rw [h']; exact ⟨rfl, he⟩
  · exfalso
    obtain ⟨h10, h13⟩ := not_mem_of_hasLineBreak_false hnb
    rcases hb with hb | hb
    · exact h10 hb
    · exact h13 hb

/-- **comment_index_frame**: an accepted request keeps the length of the index; bytes of every other entry
(and of a torn tail) are unchanged; inside the addressed entry only the four bytes of `Modified` (which then
hold the file's mtime) and the `Recommend` byte (which then holds `scoreAfter`) can differ. -/
theorem comment_index_frame (find : Bytes → Nat → Bytes → Option Nat) (cfg : Cfg) (st st' : St) (q : Req)
    (line : Bytes) (idx : Nat) (hp : st.dir.present = true)
    (h : recommend find cfg st q = (st', .ok line idx)) :
    st'.dir.bytes.length = st.dir.bytes.length ∧ st'.dir.present = true ∧
    (∀ p, p / dirSz ≠ idx - 1 → st'.dir.bytes[p]? = st.dir.bytes[p]?) ∧
    (∀ j, j < 128 → ¬(28 ≤ j ∧ j < 32) → j ≠ 33 →
      st'.dir.bytes[(idx - 1) * dirSz + j]? = st.dir.bytes[(idx - 1) * dirSz + j]?) ∧
    (q.mtime > 0 →
      st'.dir.bytes[(idx - 1) * dirSz + 33]? = some (scoreAfter q.ctype (st.dir.bytes.getD ((idx - 1) * dirSz + 33) 0)) ∧
      ∀ j, j < 4 → st'.dir.bytes[(idx - 1) * dirSz + 28 + j]? = (le32 q.mtime.toNat)[j]?) := by
  rcases recommend_cases find cfg st q hp with ⟨e, he, h'⟩ | ⟨k, old, hle, _, _, _, _, _, h'⟩
  · rw [h'] at h; injection h with _ h2; exact absurd h2 (he _ _)
  · rw [h'] at h
    injection h with h1 h2
    injection h2 with h3 h4
    subst h1 h4
    have hk : k + 1 - 1 = k := by omega
    rw [hk]
    refine ⟨accepted_dir_length cfg st q k old hle, accepted_dir_present cfg st q k old hp,
      fun p hpk => accepted_dir_other cfg st q k old hle p hpk, ?_, ?_⟩
    · intro j hj h1 h2
      rw [accepted_dir_entry cfg st q k old hle j hj, if_neg (by omega), if_neg (by omega)]
    · intro hm
      refine ⟨?_, ?_⟩
      · rw [accepted_dir_entry cfg st q k old hle 33 (by omega), if_neg (by omega), if_pos ⟨rfl, hm⟩]
      · intro j hj
        have := accepted_dir_entry cfg st q k old hle (28 + j) (by omega)
        rw [if_pos ⟨by omega, by omega, hm⟩] at this
        rw [Nat.add_assoc, this]
        congr 1; omega

/-- **comment_refusals**: on a no-comment board, for a link entry (the name in the index entry starts with `L`,
under whatever letter it was requested) and for an entry that is marked and solved, nothing is accepted and
index and files stay exactly as they were; when the lookup itself succeeds the answer is the refusal. -/
theorem comment_refusals (find : Bytes → Nat → Bytes → Option Nat) (cfg : Cfg) (st : St) (q : Req)
    (hp : st.dir.present = true)
    (hclass : hasBit cfg.attr BRD_NORECOMMEND = true ∨
      (∃ idx r, getRecord find st.dir (st.dir.bytes.length / dirSz) q.name = .ok (idx, r) ∧ r.getD offFilename 0 = 76) ∨
      ∃ idx r, getRecord find st.dir (st.dir.bytes.length / dirSz) q.name = .ok (idx, r) ∧
        hasBit (r.getD offFilemode 0) Gen.Comment.FILE_MARKED = true ∧ hasBit (r.getD offFilemode 0) Gen.Comment.FILE_SOLVED = true) :
    (recommend find cfg st q).1 = st ∧ (∀ line idx, (recommend find cfg st q).2 ≠ .ok line idx) ∧
    (∀ idx r, getRecord find st.dir (st.dir.bytes.length / dirSz) q.name = .ok (idx, r) →
      st.dir.bytes.length / dirSz ≠ 0 → recommend find cfg st q = (st, .refused)) := by
  have key : ∀ idx r, getRecord find st.dir (st.dir.bytes.length / dirSz) q.name = .ok (idx, r) →
      refusedBy cfg q r = true := by
    intro idx r hg
    show (hasBit cfg.attr BRD_NORECOMMEND || r.getD offFilename 0 == 76 ||
      (hasBit (r.getD offFilemode 0) Gen.Comment.FILE_MARKED && hasBit (r.getD offFilemode 0) Gen.Comment.FILE_SOLVED)) = true
    rcases hclass with h | ⟨idx', r', hg', h⟩ | ⟨idx', r', hg', h1, h2⟩
    · rw [h]; rfl
    · rw [hg] at hg'
      injection hg' with hg'
      injection hg' with _ hr
      subst hr
      have h' : (r.getD offFilename 0 == 76) = true := by rw [h]; rfl
      rw [h', Bool.or_true, Bool.true_or]
    · rw [hg] at hg'
      injection hg' with hg'
      injection hg' with _ hr
      subst hr
      rw [h1, h2]; simp
  have third : ∀ idx r, getRecord find st.dir (st.dir.bytes.length / dirSz) q.name = .ok (idx, r) →
      st.dir.bytes.length / dirSz ≠ 0 → recommend find cfg st q = (st, .refused) := by
    intro idx r hg ht
    unfold recommend
    simp only []
    rw [if_neg ht, hg]
    simp only []
    rw [if_pos (key idx r hg)]
  rcases recommend_cases find cfg st q hp with ⟨e, he, h'⟩ | ⟨k, old, hle, hk, hne, hnr, _, _, h'⟩
  · exact ⟨by rw [h'], fun l i => by rw [h']; exact he l i, third⟩
  · exfalso
    -- an accepted request would have passed the refusal test on the entry GetRecord returned
    have ht : st.dir.bytes.length / dirSz ≠ 0 := by
      intro h0
      unfold recommend at h'
      simp only [] at h'
      rw [if_pos h0] at h'
      injection h' with _ h2
      cases h2
    have hg : getRecord find st.dir (st.dir.bytes.length / dirSz) q.name = .ok (k + 1, record st.dir.bytes dirSz k) := by
      cases hg : getRecord find st.dir (st.dir.bytes.length / dirSz) q.name with
      | error e =>
        unfold recommend at h'
        simp only [] at h'
        rw [if_neg ht, hg] at h'
        simp only [] at h'
        injection h' with _ h2
        unfold getRecord at hg
        split at hg
        · cases hg; cases h2
        · split at hg
          · cases hg; cases h2
          · simp only [] at hg
            split at hg
            · cases hg; cases h2
            · split at hg
              · cases hg; cases h2
              · cases hg
      | ok v =>
        obtain ⟨idx, r⟩ := v
        obtain ⟨k', rfl, rfl, _, _, hk'⟩ := getRecord_ok hg
        rw [hk] at hk'
        injection hk' with hk'
        subst hk'
        rfl
    have := key _ _ hg
    rw [hnr] at this
    cases this

/-- non-vacuity and the boundary of the refusal classes on a one-entry board (entry `M.1500000000.A.005`, or
`L.…`): an ordinary boo is accepted; a push on a no-comment board, on filemode marked|solved, and on the
`L` entry — requested under its own name or under the `M` name the lookup also accepts — is refused; an `M`
entry requested under the `L` name is an ordinary entry. -/
def exRec (letter mode score : Nat) : Bytes :=
  [letter, 46, 49, 53, 48, 48, 48, 48, 48, 48, 48, 48, 46, 65, 46, 48, 48, 53] ++ List.replicate 10 0 ++
  [1, 2, 3, 4, 0, score] ++ List.replicate 90 7 ++ [mode, 0, 0, 0]
def exName (letter : Nat) : Bytes := (exRec letter 0 0).take 28
def exSt (letter mode score : Nat) : St :=
  ⟨⟨true, exRec letter mode score⟩, [((exName letter).take 18, [104, 10])]⟩
def exReq (letter t : Nat) : Req :=
  ⟨[65, 49, 0, 0, 0, 0, 0, 0, 0, 0, 0, 0, 0], exName letter, t, [111, 107], List.replicate 16 0, List.replicate 11 48, 77⟩

example :
    (recommend findLinear ⟨0, false, true⟩ (exSt 77 0 100) (exReq 77 2)).2 = .ok (formatComment ⟨0, false, true⟩ (exReq 77 2)) 1 ∧
    (recommend findLinear ⟨0, false, true⟩ (exSt 77 0 100) (exReq 77 2)).1.dir.bytes.getD 33 0 = 99 ∧
    fileGet (recommend findLinear ⟨0, false, true⟩ (exSt 77 0 100) (exReq 77 2)).1.files ((exName 77).take 18) =
      some ([104, 10] ++ formatComment ⟨0, false, true⟩ (exReq 77 2)) := by
  decide +kernel
example : recommend findLinear ⟨BRD_NORECOMMEND, false, true⟩ (exSt 77 0 0) (exReq 77 1) = (exSt 77 0 0, .refused) := by
  decide +kernel
example : recommend findLinear ⟨0, false, true⟩ (exSt 77 18 0) (exReq 77 1) = (exSt 77 18 0, .refused) := by decide +kernel
example : recommend findLinear ⟨0, false, true⟩ (exSt 76 0 0) (exReq 76 1) = (exSt 76 0 0, .refused) := by decide +kernel
example : recommend findLinear ⟨0, false, true⟩ (exSt 76 0 0) (exReq 77 1) = (exSt 76 0 0, .refused) := by decide +kernel
example : (recommend findLinear ⟨0, false, true⟩ (exSt 77 0 0) (exReq 76 1)).2 =
    .ok (formatComment ⟨0, false, true⟩ (exReq 76 1)) 1 := by decide +kernel

/-- a carriage return is a line break too -/
example : recommend findLinear ⟨0, false, true⟩ (exSt 77 0 0) { exReq 77 1 with text := [97, 13] } = (exSt 77 0 0, .badText) := by
  decide +kernel

/-- the witness of the finding repaired by 0448f6d (`refusal:link-record`): the entry is a link entry, GetRecord
returns it for the request `M.…` (names are compared from the third byte on), the first byte of the REQUESTED
name — what the code tested before the fix — is not `L`; the fixed test refuses it. -/
theorem link_record_before_fix :
    getRecord findLinear (exSt 76 0 0).dir 1 (exReq 77 1).name = .ok (1, exRec 76 0 0) ∧
    (exRec 76 0 0).getD offFilename 0 = 76 ∧ (exReq 77 1).name.getD 0 0 ≠ 76 ∧
    recommend findLinear ⟨0, false, true⟩ (exSt 76 0 0) (exReq 77 1) = (exSt 76 0 0, .refused) := by
  decide +kernel

/-! #### histories -/

/-- the bytes a history appends to the article file `n`: the lines of its accepted requests that address
an entry of that name, in order. -/
def appended (find : Bytes → Nat → Bytes → Option Nat) (st : St) : List (Cfg × Req) → Bytes → Bytes
  | [], _ => []
  | (cfg, q) :: rest, n =>
    (match (recommend find cfg st q).2 with
      | .ok line idx =>
        if cstr (field (record st.dir.bytes dirSz (idx - 1)) offFilename lenFilename) = n then line else []
      | _ => []) ++ appended find (recommend find cfg st q).1 rest n

/-- **comments_sequence**: after ANY sequence of requests (accepted or not, any types, texts, articles,
configurations) every article file is its original content followed by the lines of the accepted comments on
it in order, the index has its original length, and every entry whose score started in [-100,100] still has a
score in [-100,100]. -/
theorem comments_sequence (find : Bytes → Nat → Bytes → Option Nat) (ops : List (Cfg × Req)) (st : St)
    (hp : st.dir.present = true) :
    (run find st ops).dir.present = true ∧
    (run find st ops).dir.bytes.length = st.dir.bytes.length ∧
    (∀ n, fileGet (run find st ops).files n = (fileGet st.files n).map (· ++ appended find st ops n)) ∧
    (∀ k, (k + 1) * dirSz ≤ st.dir.bytes.length → InRange (st.dir.bytes.getD (k * dirSz + 33) 0) →
      InRange ((run find st ops).dir.bytes.getD (k * dirSz + 33) 0)) := by
  induction ops generalizing st with
  | nil =>
    refine ⟨hp, rfl, ?_, fun _ _ h => h⟩
    intro n; simp only [run, appended, List.append_nil]
    cases fileGet st.files n <;> rfl
  | cons op ops ih =>
    obtain ⟨cfg, q⟩ := op
    simp only [run]
    rcases recommend_cases find cfg st q hp with ⟨e, he, h'⟩ | ⟨k, old, hle, _, _, _, _, hf, h'⟩
    · -- failed: nothing changed
      have h1 : (recommend find cfg st q).1 = st := by rw [h']
      have h2 : ∀ n, appended find st ((cfg, q) :: ops) n = appended find st ops n := by
        intro n
        simp only [appended, h']
        cases e with
        | ok l i => exact absurd rfl (he l i)
        | _ => rfl
      rw [h1]
      obtain ⟨a, b, c, d⟩ := ih st hp
      exact ⟨a, b, fun n => by rw [c n, h2 n], d⟩
    · have h1 : (recommend find cfg st q).1 = accepted cfg st q k old := by rw [h']
      rw [h1]
      have hp' := accepted_dir_present cfg st q k old hp
      have hl' := accepted_dir_length cfg st q k old hle
      obtain ⟨a, b, c, d⟩ := ih (accepted cfg st q k old) hp'
      refine ⟨a, by rw [b, hl'], ?_, ?_⟩
      · intro n
        rw [c n]
        have hk : k + 1 - 1 = k := by omega
        have happ : appended find st ((cfg, q) :: ops) n =
            (if cstr (field (record st.dir.bytes dirSz k) offFilename lenFilename) = n then formatComment cfg q else []) ++
              appended find (accepted cfg st q k old) ops n := by
          simp only [appended, h', hk]
        rw [happ]
        by_cases hn : cstr (field (record st.dir.bytes dirSz k) offFilename lenFilename) = n
        · subst hn
          rw [if_pos rfl]
          have : fileGet (accepted cfg st q k old).files (cstr (field (record st.dir.bytes dirSz k) offFilename lenFilename)) =
              some (old ++ formatComment cfg q) := fileGet_fileSet_same _ _ _ _ hf
          rw [this, hf]
          simp only [Option.map_some, List.append_assoc]
        · rw [if_neg hn, List.nil_append]
          have : fileGet (accepted cfg st q k old).files n = fileGet st.files n :=
            fileGet_fileSet_other _ _ _ _ (fun h => hn h.symm)
          rw [this]
      · intro j hj hr
        apply d j (by rw [hl']; exact hj)
        by_cases hjk : j = k
        · subst hjk
          have := accepted_dir_entry cfg st q j old hle 33 (by omega)
          rw [if_neg (by omega)] at this
          by_cases hm : q.mtime > 0
          · rw [if_pos ⟨rfl, hm⟩] at this
            rw [List.getD_eq_getElem?_getD, this]
            exact scoreAfter_inRange _ _ hr
          · rw [if_neg (by omega)] at this
            rw [getD_eq_of_getElem? this]; exact hr
        · have : (accepted cfg st q k old).dir.bytes[j * dirSz + 33]? = st.dir.bytes[j * dirSz + 33]? := by
            apply accepted_dir_other cfg st q k old hle
            rw [dirSz_eq]; omega
          rw [getD_eq_of_getElem? this]; exact hr

/-- non-vacuity: three pushes on an entry at 99 (the second while the board is no-comment): the file grew by
two lines, the score is 100. -/
example :
    let ops := [((⟨0, false, true⟩ : Cfg), exReq 77 1), (⟨BRD_NORECOMMEND, false, true⟩, exReq 77 1), (⟨0, true, false⟩, exReq 77 1)]
    (run findLinear (exSt 77 0 99) ops).dir.bytes.getD 33 0 = 100 ∧
    appended findLinear (exSt 77 0 99) ops ((exName 77).take 18) =
      formatComment ⟨0, false, true⟩ (exReq 77 1) ++ formatComment ⟨0, true, false⟩ (exReq 77 1) := by
  decide +kernel

/-! #### interleaved commenters

Recommend reads the entry once (phase A) and updates the index later (phase B) from that copy; between the two
it may sleep on the article's lock while other commenters complete.  `Ticket` is what a commenter carries
across; `stepEv` is one scheduling step (a phase A, a write, an index update) of any number of commenters. -/

/-- **stale_update_saturates**: the index update of phase B keeps every in-range score in range and moves it by
at most one, for EVERY ticket — whatever copy of the entry phase A saw, however stale its score.  This rests on
ModifyDirLite clamping the SUM of the score it re-reads and the delta (`score_step`); a score can only move
when the update succeeds and addresses that entry. -/
theorem stale_update_saturates (st : St) (t : Ticket) (j : Nat) (hj : (j + 1) * dirSz ≤ st.dir.bytes.length)
    (hr : InRange (st.dir.bytes.getD (j * dirSz + 33) 0)) :
    (phaseIndex st t).1.dir.bytes.length = st.dir.bytes.length ∧
    InRange ((phaseIndex st t).1.dir.bytes.getD (j * dirSz + 33) 0) ∧
    -1 ≤ scoreAt (phaseIndex st t).1.dir.bytes j - scoreAt st.dir.bytes j ∧
    scoreAt (phaseIndex st t).1.dir.bytes j - scoreAt st.dir.bytes j ≤ 1 ∧
    (scoreAt (phaseIndex st t).1.dir.bytes j ≠ scoreAt st.dir.bytes j →
      (phaseIndex st t).2.isOk = true ∧ t.idx = j + 1) := by
  obtain ⟨_, hl, _, hs⟩ := phaseIndex_cases st t
  refine ⟨hl, ?_⟩
  unfold scoreAt
  rcases hs j hj with h | ⟨hok, hidx, u, hu, h⟩
  · rw [h]; exact ⟨hr, by omega, by omega, fun hne => absurd rfl hne⟩
  · rw [h]
    have hstep := score_step _ u hr hu
    refine ⟨?_, hstep.2.1, hstep.2.2, fun _ => ⟨hok, hidx⟩⟩
    unfold InRange
    rw [hstep.1]; exact clamp_range _

/-- the rule of the seeded mutant (saturation tests on the OLD on-disk score instead of old + delta). -/
def recommendUpdateOldClamp (cur : Nat) (delta : Int) : Nat :=
  if delta = 0 then cur
  else
    let r := addInt8 delta (toInt8 cur)
    let r := if toInt8 cur > maxRec then maxRec else if toInt8 cur < -maxRec then -maxRec else r
    int8Byte r

/-- with that rule the theorem above is false, although nothing changes sequentially: for every stored byte
and every type the sequential comment path (delta decided from the SAME byte) stores the same value, but a
push decided from a stale 99 on an on-disk 100 stores 101 (and a boo from a stale -99 on -100 stores -101). -/
theorem old_value_clamp_fails :
    (∀ cur, cur < 256 → ∀ t, t < 4 →
      recommendUpdateOldClamp cur (scoreUpdate t (toInt8 cur)) = recommendUpdate cur (scoreUpdate t (toInt8 cur))) ∧
    InRange 100 ∧ toInt8 (recommendUpdateOldClamp 100 (scoreUpdate COMMENT_TYPE_RECOMMEND (toInt8 99))) = 101 ∧
    InRange 156 ∧ toInt8 (recommendUpdateOldClamp 156 (scoreUpdate COMMENT_TYPE_BOO (toInt8 157))) = -101 ∧
    toInt8 (recommendUpdate 100 (scoreUpdate COMMENT_TYPE_RECOMMEND (toInt8 99))) = 100 := by
  decide +kernel

/-- how many of the steps are successful index updates of entry `j` (successful comments on it). -/
def stepMoves (j : Nat) (s : Sys) : Ev → Nat
  | .index i =>
    match s.pending[i]? with
    | some t => if t.idx = j + 1 ∧ (phaseIndex s.st t).2.isOk = true then 1 else 0
    | none => 0
  | _ => 0

def moves (find : Bytes → Nat → Bytes → Option Nat) (j : Nat) : Sys → List Ev → Nat
  | _, [] => 0
  | s, ev :: rest => stepMoves j s ev + moves find j (stepEv find s ev) rest

theorem step_scores (find : Bytes → Nat → Bytes → Option Nat) (s : Sys) (ev : Ev) (j : Nat)
    (hj : (j + 1) * dirSz ≤ s.st.dir.bytes.length) (hr : InRange (s.st.dir.bytes.getD (j * dirSz + 33) 0)) :
    (stepEv find s ev).st.dir.bytes.length = s.st.dir.bytes.length ∧
    InRange ((stepEv find s ev).st.dir.bytes.getD (j * dirSz + 33) 0) ∧
    -(stepMoves j s ev : Int) ≤ scoreAt (stepEv find s ev).st.dir.bytes j - scoreAt s.st.dir.bytes j ∧
    scoreAt (stepEv find s ev).st.dir.bytes j - scoreAt s.st.dir.bytes j ≤ (stepMoves j s ev : Int) := by
  have same : ∀ s' : Sys, s'.st.dir = s.st.dir →
      s'.st.dir.bytes.length = s.st.dir.bytes.length ∧ InRange (s'.st.dir.bytes.getD (j * dirSz + 33) 0) ∧
      scoreAt s'.st.dir.bytes j - scoreAt s.st.dir.bytes j = 0 := by
    intro s' h; rw [h]; exact ⟨rfl, hr, by omega⟩
  cases ev with
  | begin cfg q =>
    have := same (stepEv find s (.begin cfg q)) (by simp only [stepEv]; split <;> rfl)
    simp only [stepMoves]; refine ⟨this.1, this.2.1, by omega, by omega⟩
  | write i =>
    have := same (stepEv find s (.write i)) (by
      simp only [stepEv]
      split
      · rfl
      · split
        · rename_i h; exact phaseWrite_dir h
        · rfl)
    simp only [stepMoves]; refine ⟨this.1, this.2.1, by omega, by omega⟩
  | giveUp i =>
    have := same (stepEv find s (.giveUp i)) rfl
    simp only [stepMoves]; refine ⟨this.1, this.2.1, by omega, by omega⟩
  | writeFault i room =>
    have := same (stepEv find s (.writeFault i room)) (by
      simp only [stepEv]
      split
      · rfl
      · simp only [phaseWriteFault]; split <;> rfl)
    simp only [stepMoves]; refine ⟨this.1, this.2.1, by omega, by omega⟩
  | ext n bs =>
    have := same (stepEv find s (.ext n bs)) (by
      simp only [stepEv, extAppend]
      split <;> rfl)
    simp only [stepMoves]; refine ⟨this.1, this.2.1, by omega, by omega⟩
  | index i =>
    simp only [stepEv, stepMoves]
    cases hp : s.pending[i]? with
    | none => simp only []; exact ⟨by first | rfl | trivial, hr, by omega, by omega⟩
    | some t =>
      simp only []
      obtain ⟨h1, h2, h3, h4, h5⟩ := stale_update_saturates s.st t j hj hr
      refine ⟨h1, h2, ?_, ?_⟩
      · split
        · omega
        · rename_i hc
          have : scoreAt (phaseIndex s.st t).1.dir.bytes j = scoreAt s.st.dir.bytes j := by
            apply Classical.byContradiction; intro hne
            have := h5 hne; exact hc ⟨this.2, this.1⟩
          omega
      · split
        · omega
        · rename_i hc
          have : scoreAt (phaseIndex s.st t).1.dir.bytes j = scoreAt s.st.dir.bytes j := by
            apply Classical.byContradiction; intro hne
            have := h5 hne; exact hc ⟨this.2, this.1⟩
          omega

/-- **interleaved_scores_bounded**: for EVERY interleaving of the phases of any number of commenters — any
event list, from any system state, with any tickets already pending (so with arbitrarily stale copies) — the
index keeps its length, every entry whose score is in [-100,100] keeps a score in [-100,100], and its score has
moved by at most the number of successful index updates (= successful comments) on that entry. -/
theorem interleaved_scores_bounded (find : Bytes → Nat → Bytes → Option Nat) (evs : List Ev) (s : Sys) (j : Nat)
    (hj : (j + 1) * dirSz ≤ s.st.dir.bytes.length) (hr : InRange (s.st.dir.bytes.getD (j * dirSz + 33) 0)) :
    (runEv find s evs).st.dir.bytes.length = s.st.dir.bytes.length ∧
    InRange ((runEv find s evs).st.dir.bytes.getD (j * dirSz + 33) 0) ∧
    -(moves find j s evs : Int) ≤ scoreAt (runEv find s evs).st.dir.bytes j - scoreAt s.st.dir.bytes j ∧
    scoreAt (runEv find s evs).st.dir.bytes j - scoreAt s.st.dir.bytes j ≤ (moves find j s evs : Int) := by
  induction evs generalizing s with
  | nil => exact ⟨rfl, hr, by simp [runEv, moves], by simp [runEv, moves]⟩
  | cons ev rest ih =>
    obtain ⟨a1, a2, a3, a4⟩ := step_scores find s ev j hj hr
    obtain ⟨b1, b2, b3, b4⟩ := ih (stepEv find s ev) (by rw [a1]; exact hj) a2
    have hrun : runEv find s (ev :: rest) = runEv find (stepEv find s ev) rest := rfl
    rw [hrun]
    refine ⟨by rw [b1, a1], b2, ?_, ?_⟩
    · simp only [moves, Int.natCast_add]; omega
    · simp only [moves, Int.natCast_add]; omega

/-! #### never rewrite, under interleaving -/

/-- one step of any commenter or of another lock holder leaves every article file a prefix of what it becomes. -/
theorem step_files_prefix (find : Bytes → Nat → Bytes → Option Nat) (s : Sys) (ev : Ev) (n old : Bytes)
    (h : fileGet s.st.files n = some old) :
    ∃ suf, fileGet (stepEv find s ev).st.files n = some (old ++ suf) := by
  have same : ∀ s' : Sys, s'.st.files = s.st.files → ∃ suf, fileGet s'.st.files n = some (old ++ suf) := by
    intro s' h'; exact ⟨[], by rw [h', h, List.append_nil]⟩
  have setCase : ∀ (m x : Bytes) (oldm : Bytes), fileGet s.st.files m = some oldm →
      ∃ suf, fileGet (fileSet s.st.files m (oldm ++ x)) n = some (old ++ suf) := by
    intro m x oldm hm
    by_cases hnm : n = m
    · subst hnm
      rw [h] at hm; injection hm with hm; subst hm
      exact ⟨x, fileGet_fileSet_same _ _ _ _ h⟩
    · exact ⟨[], by rw [fileGet_fileSet_other _ _ _ _ hnm, h, List.append_nil]⟩
  cases ev with
  | begin cfg q => exact same _ (by simp only [stepEv]; split <;> rfl)
  | giveUp i => exact same _ rfl
  | index i =>
    simp only [stepEv]
    split
    · exact same _ rfl
    · rename_i t _
      exact same ⟨(phaseIndex s.st t).1, _⟩ (phaseIndex_cases s.st t).1
  | write i =>
    simp only [stepEv]
    split
    · exact same _ rfl
    · rename_i t _
      unfold phaseWrite
      simp only []
      cases hm : fileGet s.st.files (cstr (field t.copy offFilename lenFilename)) with
      | none => exact same _ rfl
      | some oldm => exact setCase _ _ _ hm
  | writeFault i room =>
    simp only [stepEv]
    split
    · exact same _ rfl
    · rename_i t _
      simp only [phaseWriteFault]
      cases hm : fileGet s.st.files (cstr (field t.copy offFilename lenFilename)) with
      | none => exact same _ rfl
      | some oldm => exact setCase _ _ _ hm
  | ext m bs =>
    simp only [stepEv, extAppend]
    cases hm : fileGet s.st.files m with
    | none => exact same _ rfl
    | some oldm => exact setCase _ _ _ hm

/-- **interleaved_files_prefix**: for EVERY interleaving of commenters' phases and of other lock holders'
appends, every article file that existed is still there and starts with all the bytes it had: nothing that
was ever in an article is rewritten (every write is `content ++ line` evaluated at the time of the write). -/
theorem interleaved_files_prefix (find : Bytes → Nat → Bytes → Option Nat) (evs : List Ev) (s : Sys) (n old : Bytes)
    (h : fileGet s.st.files n = some old) :
    ∃ suf, fileGet (runEv find s evs).st.files n = some (old ++ suf) := by
  induction evs generalizing s old with
  | nil => exact ⟨[], by simp [runEv, h]⟩
  | cons ev rest ih =>
    obtain ⟨x, hx⟩ := step_files_prefix find s ev n old h
    obtain ⟨y, hy⟩ := ih (stepEv find s ev) (old ++ x) hx
    exact ⟨x ++ y, by rw [← List.append_assoc]; exact hy⟩

/-- **appends_preserve_bytes**: the append itself, at the level of its steps.  Any number of appenders of this
process (open; non-blocking lock that only succeeds on a free lock; write as holder, or without lock in the
NoSmartMerge branch; unlock) and another process taking the lock and appending, in ANY order: with the
O_APPEND rule every earlier content is a prefix of every later one. -/
theorem appends_preserve_bytes (evs : List AEv) (s : AState) :
    ∃ suf, (runA appendRule s evs).content = s.content ++ suf := by
  induction evs generalizing s with
  | nil => exact ⟨[], by simp [runA]⟩
  | cons ev rest ih =>
    have hstep : ∃ x, (stepA appendRule s ev).content = s.content ++ x := by
      cases ev with
      | «open» l => exact ⟨[], by simp [stepA]⟩
      | lock i => exact ⟨[], by simp only [stepA]; split <;> simp⟩
      | write i =>
        simp only [stepA]
        split
        · rename_i a _
          split
          · exact ⟨a.line, rfl⟩
          · exact ⟨[], by simp⟩
        · exact ⟨[], by simp⟩
      | writeNoLock i =>
        simp only [stepA]
        split
        · rename_i a _; exact ⟨a.line, rfl⟩
        · exact ⟨[], by simp⟩
      | unlock i => exact ⟨[], by simp only [stepA]; split <;> simp⟩
      | extLock => exact ⟨[], by simp only [stepA]; split <;> simp⟩
      | extAppend bs =>
        simp only [stepA]
        split
        · exact ⟨bs, rfl⟩
        · exact ⟨[], by simp⟩
      | extUnlock => exact ⟨[], by simp only [stepA]; split <;> simp⟩
    obtain ⟨x, hx⟩ := hstep
    obtain ⟨y, hy⟩ := ih (stepA appendRule s ev)
    refine ⟨x ++ y, ?_⟩
    show (runA appendRule (stepA appendRule s ev) rest).content = _
    rw [hy, hx, List.append_assoc]

/-- **stale_offset_overwrites** (the rule of seeded change C10-r3-2): when the position of the write is the end
of the file at OPEN time — a descriptor without O_APPEND that seeks to the end before it has the lock — an
appender that opens while another process holds the lock and appends writes over that process's line; with
the real rule both lines are there. -/
theorem stale_offset_overwrites :
    let s0 : AState := ⟨[104, 10], .free, []⟩
    let evs := [AEv.extLock, .open [99, 99, 10], .lock 0, .extAppend [120, 121, 10], .extUnlock, .lock 0, .write 0, .unlock 0]
    (runA appendRule s0 evs).content = [104, 10, 120, 121, 10, 99, 99, 10] ∧
    (runA staleOffsetRule s0 evs).content = [104, 10, 99, 99, 10] ∧
    ¬ ([104, 10, 120, 121, 10] <+: (runA staleOffsetRule s0 evs).content) := by
  decide

/-! #### a write that fails after the open (EFBIG / ENOSPC / EDQUOT), both append branches -/

theorem phaseA_line {find : Bytes → Nat → Bytes → Option Nat} {cfg : Cfg} {st : St} {q : Req} {t : Ticket}
    (h : phaseA find cfg st q = .ok t) : t.line = formatComment cfg q := by
  unfold phaseA at h
  simp only [] at h
  split at h
  · cases h
  · split at h
    · cases h
    · split at h
      · cases h
      · split at h
        · cases h
        · injection h with h; rw [← h]

/-- when the whole line fits there is no fault: the request is the ordinary one. -/
theorem no_fault_is_recommend (find : Bytes → Nat → Bytes → Option Nat) (cfg : Cfg) (st : St) (q : Req) (room : Nat)
    (h : (formatComment cfg q).length ≤ room) : recommendFault find cfg st q room = recommend find cfg st q := by
  rw [recommend_eq_phases]
  unfold recommendFault
  cases hA : phaseA find cfg st q with
  | error e => rfl
  | ok t =>
    simp only []
    rw [if_neg (by rw [phaseA_line hA]; omega)]

/-- **write_fault_keeps_bytes**: when the line does not fit (only `room` bytes do), the comment is not
accepted, the index is exactly as it was, every article file still starts with ALL the bytes it had — the
addressed one is its old content followed by the first `room` bytes of the line (what the kernel wrote before
the fault), every other file is untouched.  No byte written earlier is removed or changed. -/
theorem write_fault_keeps_bytes (find : Bytes → Nat → Bytes → Option Nat) (cfg : Cfg) (st : St) (q : Req) (room : Nat)
    (h : room < (formatComment cfg q).length) :
    (recommendFault find cfg st q room).1.dir = st.dir ∧
    (∀ line idx, (recommendFault find cfg st q room).2 ≠ .ok line idx) ∧
    (∀ n old, fileGet st.files n = some old →
      ∃ suf, fileGet (recommendFault find cfg st q room).1.files n = some (old ++ suf) ∧
        (suf = [] ∨ suf = (formatComment cfg q).take room)) := by
  unfold recommendFault
  cases hA : phaseA find cfg st q with
  | error e =>
    simp only []
    refine ⟨trivial, ?_, fun n old ho => ⟨[], by rw [ho, List.append_nil], Or.inl rfl⟩⟩
    intro l i he; subst he
    unfold phaseA at hA
    simp only [] at hA
    split at hA
    · cases hA
    · split at hA
      · rename_i e' hg
        injection hA with hA; subst hA
        unfold getRecord at hg
        split at hg
        · cases hg
        · split at hg
          · cases hg
          · simp only [] at hg
            split at hg
            · cases hg
            · split at hg <;> cases hg
      · split at hA
        · cases hA
        · split at hA <;> cases hA
  | ok t =>
    simp only []
    have hl := phaseA_line hA
    rw [if_pos (by rw [hl]; exact h)]
    cases hf : fileGet st.files (cstr (field t.copy offFilename lenFilename)) with
    | none =>
      simp only []
      exact ⟨trivial, fun l i he => (by cases he), fun n old ho => ⟨[], by rw [ho, List.append_nil], Or.inl rfl⟩⟩
    | some oldm =>
      simp only [phaseWriteFault, hf]
      refine ⟨trivial, fun l i he => (by cases he), ?_⟩
      intro n old ho
      by_cases hn : n = cstr (field t.copy offFilename lenFilename)
      · subst hn
        rw [hf] at ho; injection ho with ho; subst ho
        exact ⟨t.line.take room, fileGet_fileSet_same _ _ _ _ hf, Or.inr (by rw [hl])⟩
      · exact ⟨[], by rw [fileGet_fileSet_other _ _ _ _ hn, ho, List.append_nil], Or.inl rfl⟩

/-- **truncate_back_destroys** (the rule of seeded change C10-r4-2): "taking the torn comment back" by
truncating to size − len(comment) removes len(comment) − n bytes of the OLD article when only n bytes had
arrived; the real rule (leave what the kernel wrote) keeps every old byte. -/
theorem truncate_back_destroys :
    let old : Bytes := [98, 111, 100, 121, 10, 99, 111, 109, 109, 101, 110, 116, 10]
    let line : Bytes := [49, 50, 51, 52, 53, 54, 55, 10]
    truncateBackRule old line 3 = [98, 111, 100, 121, 10, 99, 111, 109] ∧
    ¬ (old <+: truncateBackRule old line 3) ∧
    old <+: old ++ line.take 3 := by
  decide

example : (recommendFault findLinear ⟨0, false, false⟩ (exSt 77 0 5) (exReq 77 1) 4).2 = .writeErr ∧
    fileGet (recommendFault findLinear ⟨0, false, false⟩ (exSt 77 0 5) (exReq 77 1) 4).1.files ((exName 77).take 18) =
      some ([104, 10] ++ (formatComment ⟨0, false, false⟩ (exReq 77 1)).take 4) := by
  decide +kernel

/-! #### one request, at most one line — whatever happened to the index in between -/

/-- **request_at_most_one_line**: phase B on ANY state — in particular on an index that another tool rewrote
after the commenter's lookup (entries moved, index shorter than the held position) — leaves every article as
it was or, for the one article named in the commenter's copy, extended by exactly its line.  A request is one
phase A (which writes nothing) and one phase B: it appends at most one line, whatever it then reports. -/
theorem request_at_most_one_line (st : St) (t : Ticket) (n old : Bytes) (h : fileGet st.files n = some old) :
    fileGet (phaseB st t).1.files n = some old ∨
    (n = cstr (field t.copy offFilename lenFilename) ∧ fileGet (phaseB st t).1.files n = some (old ++ t.line)) := by
  unfold phaseB phaseWrite
  simp only []
  cases hf : fileGet st.files (cstr (field t.copy offFilename lenFilename)) with
  | none => left; exact h
  | some oldm =>
    simp only []
    rw [(phaseIndex_cases _ t).1]
    by_cases hn : n = cstr (field t.copy offFilename lenFilename)
    · right
      subst hn
      rw [hf] at h; injection h with h; subst h
      exact ⟨rfl, fileGet_fileSet_same _ _ _ _ hf⟩
    · left
      show fileGet (fileSet st.files _ _) n = some old
      rw [fileGet_fileSet_other _ _ _ _ hn, h]

/-- what the code does when the held position is stale (ModifyDirLite answers ErrInvalidIdx): the error is
returned AFTER the append, the line stays in the article, the index is not touched. -/
theorem stale_position_line_stays (st : St) (t : Ticket) (old : Bytes)
    (hf : fileGet st.files (cstr (field t.copy offFilename lenFilename)) = some old)
    (he : (phaseB st t).2 = .idxErr) :
    (phaseB st t).1.dir = st.dir ∧
    fileGet (phaseB st t).1.files (cstr (field t.copy offFilename lenFilename)) = some (old ++ t.line) := by
  have hone := request_at_most_one_line st t _ old hf
  unfold phaseB phaseWrite at he hone ⊢
  simp only [hf] at he hone ⊢
  have hc := phaseIndex_cases { st with files := fileSet st.files (cstr (field t.copy offFilename lenFilename)) (old ++ t.line) } t
  refine ⟨hc.2.2.1 (Or.inl (by rw [he]; rfl)), ?_⟩
  rw [hc.1]
  exact fileGet_fileSet_same _ _ _ _ hf

/-- a second entry (another time stamp) in front of the example entry. -/
def exRecB : Bytes := (exRec 77 0 3).set 11 49
def exSt2 : St := ⟨⟨true, exRecB ++ exRec 77 0 5⟩, [((exName 77).take 18, [104, 10])]⟩

/-- **retry_after_stale_position_doubles** (the rule of seeded change C10-r5-1): the commenter looked its
entry up at position 2, the first entry expired, the index update is refused (stale position) with the line
already in the article; running the request AGAIN, as a caller that treats that error as "nothing happened
yet" does, is accepted and puts the same line into the article a second time. -/
theorem retry_after_stale_position_doubles :
    let cfg : Cfg := ⟨0, false, true⟩
    let q := exReq 77 1
    ∃ t, phaseA findLinear cfg exSt2 q = .ok t ∧ t.idx = 2 ∧
      let rewritten : St := { exSt2 with dir := ⟨true, exRec 77 0 5⟩ }
      (phaseB rewritten t).2 = .idxErr ∧
      fileGet (phaseB rewritten t).1.files ((exName 77).take 18) = some ([104, 10] ++ formatComment cfg q) ∧
      (recommend findLinear cfg (phaseB rewritten t).1 q).2 = .ok (formatComment cfg q) 1 ∧
      fileGet (recommend findLinear cfg (phaseB rewritten t).1 q).1.files ((exName 77).take 18) =
        some ([104, 10] ++ formatComment cfg q ++ formatComment cfg q) := by
  refine ⟨{ idx := 2, copy := exRec 77 0 5, line := formatComment ⟨0, false, true⟩ (exReq 77 1), ctype := 1, mtime := 77 }, ?_⟩
  decide +kernel

/-! #### "changes only that article's index entry", under interleaving -/

theorem step_entry_frame (find : Bytes → Nat → Bytes → Option Nat) (s : Sys) (ev : Ev) (q : Nat)
    (hq : ¬(28 ≤ q % 128 ∧ q % 128 < 32) ∧ q % 128 ≠ 33) :
    (stepEv find s ev).st.dir.bytes[q]? = s.st.dir.bytes[q]? := by
  cases ev with
  | begin cfg q' => simp only [stepEv]; split <;> rfl
  | giveUp i => rfl
  | write i =>
    simp only [stepEv]
    split
    · rfl
    · split
      · rename_i h; rw [phaseWrite_dir h]
      · rfl
  | writeFault i room =>
    simp only [stepEv]
    split
    · rfl
    · simp only [phaseWriteFault]; split <;> rfl
  | ext n bs => simp only [stepEv, extAppend]; split <;> rfl
  | index i =>
    simp only [stepEv]
    split
    · rfl
    · rename_i t _; exact phaseIndex_frame s.st t q hq

/-- **interleaved_entry_frame**: for EVERY interleaving of any number of commenters (on the same or on
different articles, with whatever copies) and other lock holders, every byte of the index outside the
`Modified` field and the `Recommend` byte of an entry is what it was: every entry keeps its name, owner,
date, title, money and mode - no entry ever receives another entry's image.  Together with
`interleaved_scores_bounded` (a score moves only by successful updates of its OWN entry): a comment changes
only its article's index entry. -/
theorem interleaved_entry_frame (find : Bytes → Nat → Bytes → Option Nat) (evs : List Ev) (s : Sys) (q : Nat)
    (hq : ¬(28 ≤ q % 128 ∧ q % 128 < 32) ∧ q % 128 ≠ 33) :
    (runEv find s evs).st.dir.bytes[q]? = s.st.dir.bytes[q]? := by
  induction evs generalizing s with
  | nil => rfl
  | cons ev rest ih =>
    show (runEv find (stepEv find s ev) rest).st.dir.bytes[q]? = _
    rw [ih (stepEv find s ev), step_entry_frame find s ev q hq]

/-! #### the API entry point -/

/-- **api_accepts_only_basic_types**: through api.CreateComment type 0 and every type above COMMENT_TYPE_BASIC
(the internal forward / reply / edit / deleted types and every larger value) are never accepted and change
nothing; an accepted request is a push, a boo or an arrow and carries that type's mark.  (Before c4bea08 type 0
passed the handler's test: `typeBytes 0 = []`, a line without mark.) -/
theorem api_accepts_only_basic_types (find : Bytes → Nat → Bytes → Option Nat) (cfg : Cfg) (st : St) (q : Req) :
    (q.ctype = 0 ∨ COMMENT_TYPE_BASIC < q.ctype →
      apiRecommend find cfg st q = (st, .params)) ∧
    (∀ line idx st', apiRecommend find cfg st q = (st', .ok line idx) →
      (q.ctype = COMMENT_TYPE_RECOMMEND ∨ q.ctype = COMMENT_TYPE_BOO ∨ q.ctype = COMMENT_TYPE_COMMENT) ∧
      typeBytes q.ctype ≠ []) ∧
    typeBytes 0 = [] ∧ COMMENT_TYPE_BASIC = 3 := by
  refine ⟨fun h => by unfold apiRecommend; rw [if_pos h], ?_, by decide, by decide⟩
  intro line idx st' h
  unfold apiRecommend at h
  by_cases hc : q.ctype = 0 ∨ q.ctype > COMMENT_TYPE_BASIC
  · rw [if_pos hc] at h; injection h with _ h2; cases h2
  · have hb : COMMENT_TYPE_BASIC = 3 := by decide
    have : q.ctype = 1 ∨ q.ctype = 2 ∨ q.ctype = 3 := by omega
    rcases this with h | h | h <;> rw [h] <;> decide

/-- the sequential comment is the special case "phase A, write, index" with nothing in between. -/
theorem sequential_is_interleaving (find : Bytes → Nat → Bytes → Option Nat) (cfg : Cfg) (st : St) (q : Req) :
    recommend find cfg st q =
      match phaseA find cfg st q with
      | .error e => (st, e)
      | .ok t => phaseB st t :=
  recommend_eq_phases find cfg st q

/-- non-vacuity: two pushes on an entry at 99 whose lookups both happen before either index update: both
succeed, the score is 100 (not 101). -/
example :
    let s0 : Sys := ⟨exSt 77 0 99, []⟩
    let evs := [Ev.begin ⟨0, false, true⟩ (exReq 77 1), .begin ⟨0, false, true⟩ (exReq 77 1), .write 0, .index 0, .write 0, .index 0]
    (runEv findLinear s0 evs).st.dir.bytes.getD 33 0 = 100 ∧ moves findLinear 0 s0 evs = 2 ∧
    (runEv findLinear s0 evs).pending = [] := by
  decide +kernel


/-! #### site configuration: the switches of the comment path read their own keys

`ptttype/config.go config()` is regenerated as data (`Gen/PttConfig.lean`). -/

theorem applyConfig_filter (viper : List (String × Bool)) (lines : List ConfigLine) (c : Cfg) :
    applyConfig lines viper c = applyConfig (lines.filter relevantLine) viper c := by
  unfold applyConfig
  induction lines generalizing c with
  | nil => rfl
  | cons l rest ih =>
    by_cases h : relevantLine l = true
    · simp [List.filter, h, ih]
    · have hc : applyLine viper c l = c := by simp [applyLine, h]
      simp [List.filter, h, hc, ih]

/-- source fact (regenerated): the only lines of `config()` that assign OLDRECOMMEND or EDITPOST_SMARTMERGE are
`X = setBoolConfig("X", X)`, once each. -/
theorem comment_switch_lines :
    Gen.PttConfig.configLines.filter relevantLine
      = [("EDITPOST_SMARTMERGE", "setBoolConfig", "EDITPOST_SMARTMERGE", "EDITPOST_SMARTMERGE"),
         ("OLDRECOMMEND", "setBoolConfig", "OLDRECOMMEND", "OLDRECOMMEND")] := by decide +kernel

/-- for every configuration of the deployment and every earlier state of the switches: after `InitConfig` the
comment layout follows the value set under OLDRECOMMEND and the append path the value under EDITPOST_SMARTMERGE
(unchanged when unset) — no other key has any effect on them. -/
theorem config_wiring (viper : List (String × Bool)) (c : Cfg) :
    applyConfig Gen.PttConfig.configLines viper c
      = { c with oldRecommend := (lookupKey viper "OLDRECOMMEND").getD c.oldRecommend,
                 smartMerge := (lookupKey viper "EDITPOST_SMARTMERGE").getD c.smartMerge } := by
  rw [applyConfig_filter, comment_switch_lines]
  simp only [applyConfig, List.foldl, applyLine, relevantLine]
  cases h1 : lookupKey viper "OLDRECOMMEND" <;> cases h2 : lookupKey viper "EDITPOST_SMARTMERGE" <;> simp

/-- the broken wiring, as a witness: were OLDRECOMMEND read from its neighbour's key, a deployment that only lets
guests comment would silently switch every comment to the old layout. -/
theorem miswired_switch_follows_other_key :
    (applyConfig [("OLDRECOMMEND", "setBoolConfig", "GUESTRECOMMEND", "OLDRECOMMEND")] [("GUESTRECOMMEND", true)]
      { attr := 0, oldRecommend := false, smartMerge := false }).oldRecommend = true := by decide

end PttVerif.C10.Props
