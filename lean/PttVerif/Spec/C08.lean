/-
C08 — the authorisation rule set for writes, written from the property statement, in its order, over the
facts of `Model/C08Guard.lean` (one `Row`).  Nothing in this file looks at how the Go code decides; the
permission bits are written by hand from pttbbs `perm.h` / `pttstruct.h` (octal / hex as there).

  "A write to a board is accepted only if the user may read the board and passes the posting rules:
   never on the read-only system boards, not while banned from the board, requires the post permission
   (except on guest-post boards and the default board), friends only on restricted-post boards,
   violate-law users only where the board admits them, any extra level bits the board demands, the
   board's login-days and bad-post limits unless sysop or moderator, a verified account, and no active
   cool-down.  Editing additionally requires being the article's author (or sysop)."

Reading notes.  A level mask is satisfied by holding *one* of its bits (pttbbs `HasUserPerm`).  The site
operator passes the posting rules (except read-only boards) and the limits; on a hidden board the posting
rules stop after the post permission (the friend list of a hidden board already decided who may read).
-/
import PttVerif.Model.C08Guard
namespace PttVerif.C08.Spec
open PttVerif PttVerif.C08

/-! ### bits (pttbbs perm.h, pttstruct.h) -/

def PERM_BASIC : UInt32 := 0o1
def PERM_POST : UInt32 := 0o10
def PERM_LOGINOK : UInt32 := 0o20
def PERM_BM : UInt32 := 0o2000
def PERM_SYSOP : UInt32 := 0o40000
def PERM_VIOLATELAW : UInt32 := 0o400000
def PERM_POLICE_MAN : UInt32 := 0o2000000000
def PERM_POLICE : UInt32 := 0o20000000000

def BRD_HIDE : UInt32 := 0x10
def BRD_POSTMASK : UInt32 := 0x20
def BRD_RESTRICTEDPOST : UInt32 := 0x40000
def BRD_GUESTPOST : UInt32 := 0x80000
def BRD_COOLDOWN : UInt32 := 0x100000
def BRD_OVER18 : UInt32 := 0x1000000

/-- holds at least one of the bits of `m`. -/
def hasBit (l m : UInt32) : Prop := l &&& m ≠ 0

instance (l m : UInt32) : Decidable (hasBit l m) := by unfold hasBit; exact inferInstance

/-! ### the user -/

def sysop (u : User) : Prop := hasBit u.level PERM_SYSOP
def verified (u : User) : Prop := hasBit u.level PERM_LOGINOK
def hasPost (u : User) : Prop := hasBit u.level PERM_POST
def violateLaw (u : User) : Prop := hasBit u.level PERM_VIOLATELAW
def police (u : User) : Prop := hasBit u.level PERM_POLICE ∨ hasBit u.level PERM_POLICE_MAN

/-- a moderator of the board: listed for it, with the basic and the verified bit. -/
def moderator (u : User) (b : Board) : Prop :=
  hasBit u.level PERM_BASIC ∧ verified u ∧ b.inBM = true

/-! ### the board -/

def hidden (b : Board) : Prop := hasBit b.attr BRD_HIDE
def postMask (b : Board) : Prop := hasBit b.attr BRD_POSTMASK
def restrictedPost (b : Board) : Prop := hasBit b.attr BRD_RESTRICTEDPOST
def guestPost (b : Board) : Prop := hasBit b.attr BRD_GUESTPOST
def cooldownBoard (b : Board) : Prop := hasBit b.attr BRD_COOLDOWN
def over18Board (b : Board) : Prop := hasBit b.attr BRD_OVER18

def lower (c : Nat) : Nat := if 65 ≤ c ∧ c ≤ 90 then c + 32 else c

/-- equal as C strings, ignoring ASCII case. -/
def sameNameNoCase (a b : List Nat) : Prop := (cstr a).map lower = (cstr b).map lower

instance (a b : List Nat) : Decidable (sameNameNoCase a b) := by unfold sameNameNoCase; exact inferInstance

/-- "Security" and "ALLPOST" -/
def securityName : List Nat := [83, 101, 99, 117, 114, 105, 116, 121]
def allpostName : List Nat := [65, 76, 76, 80, 79, 83, 84]
/-- "SYSOP" -/
def sysopName : List Nat := [83, 89, 83, 79, 80]

/-- the read-only system boards. -/
def readOnly (b : Board) : Prop := sameNameNoCase b.name securityName ∨ sameNameNoCase b.name allpostName

/-- the default board (exact name). -/
def defaultBoard (b : Board) : Prop := cstr b.name = sysopName

/-! ### "the user may read the board" -/

def mayRead (u : User) (b : Board) : Prop :=
  sysop u ∨ (hasBit b.level PERM_BM ∧ police u) ∨ moderator u b ∨
  (hidden b ∧ (b.friend = true ∨ ¬ postMask b)) ∨
  (¬ hidden b ∧ (over18Board b → u.over18 = true) ∧ (b.level = 0 ∨ postMask b ∨ hasBit u.level b.level))

/-! ### "passes the posting rules" -/

/-- banned from the board: a readable ban record whose expiry lies in the future. -/
def banned (b : Board) (now : Nat) : Prop := b.banBroken = false ∧ ∃ e, b.ban = some e ∧ (now : Int) < e

def boardAdmitsVL (b : Board) : Prop := hasBit b.level PERM_VIOLATELAW

/-- the level bits the board demands beyond the post permission. -/
def extraLevel (b : Board) : UInt32 := b.level &&& ~~~PERM_POST

def extraLevelOK (u : User) (b : Board) : Prop := extraLevel b = 0 ∨ hasBit u.level (extraLevel b)

def postRules (u : User) (b : Board) (now : Nat) : Prop :=
  sysop u ∨
  (¬ banned b now ∧
    (defaultBoard b ∨ guestPost b ∨
      (hasPost u ∧
        (hidden b ∨
          ((restrictedPost b → b.friend = true) ∧
           (violateLaw u → boardAdmitsVL b) ∧
           (¬ violateLaw u → extraLevelOK u b))))))

/-- login days (in tens) and bad posts within the board's limits, unless sysop or moderator. -/
def limitsOK (u : User) (b : Board) : Prop :=
  sysop u ∨ moderator u b ∨
  (b.limitLogins.toNat ≤ u.loginDays.toNat / 10 ∧ u.badPost.toNat + b.limitBadpost.toNat ≤ 255)

/-! ### cool-down -/

/-- the cool-down word: the time until which the user is cooling down, and the post counter. -/
def cdTime (w : UInt32) : Nat := (w &&& 0x7FFFFFF0).toNat
def postTimes (w : UInt32) : Nat := (w &&& 0xF).toNat

/-- pttbbs bbs.c: boards with more than n users allow fewer than k posts per window. -/
def floodLimits : List (Int × Nat) := [(4000, 1), (2000, 2), (1000, 3), (-1, 10)]

def coolingDown (u : User) (b : Board) (w : UInt32) (now : Nat) : Prop :=
  now ≤ cdTime w ∧ ¬ sysop u ∧
  (cooldownBoard b ∨ postTimes w = 15 ∨ ∃ p ∈ floodLimits, p.1 < b.nuser ∧ p.2 ≤ postTimes w)

/-! ### the rule set -/

def rules (u : User) (b : Board) (w : UInt32) (now : Nat) : Prop :=
  mayRead u b ∧ ¬ readOnly b ∧ postRules u b now ∧ limitsOK u b ∧ verified u ∧ ¬ coolingDown u b w now

/-- the article's author: owner field equals the user id and the article is not older than the account. -/
def isAuthor (u : User) (a : Article) : Prop :=
  cstr a.entOwner = cstr u.id ∧ 3 < (cstr a.entName).length ∧ u.firstLogin ≤ nameTime a.entName

/-- the rule set per operation; for a cross-post the board written to is the target. -/
def rulesFor (op : Op) (x : Row) : Prop :=
  match op with
  | .newpost => rules x.u x.src x.cd x.now
  | .recommend => rules x.u x.src x.cd x.now
  | .editpost => rules x.u x.src x.cd x.now ∧ (isAuthor x.u x.art ∨ sysop x.u)
  | .crosspost => rules x.u x.tgt x.cd x.now

end PttVerif.C08.Spec
