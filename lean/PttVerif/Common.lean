/-
Shared conventions of every model (DESIGN.md §5).  Core Lean only: this file is
imported by the compiled drivers.
-/
namespace PttVerif

/-- What a modelled Go function can do instead of returning. -/
inductive Fault where
  | panic    -- index out of range, slice bounds out of range, makeslice, nil dereference
  | diverge  -- a loop that does not terminate (fuel exhausted)
  deriving DecidableEq, Repr, Inhabited

abbrev M := Except Fault

instance : ToString Fault where
  toString
    | .panic => "PANIC"
    | .diverge => "TIMEOUT"

/-- Go `a[i]`. -/
def idx {α} (a : List α) (i : Nat) : M α :=
  match a[i]? with
  | some x => .ok x
  | none => .error .panic

/-- Go `a[lo:hi]` on a slice whose capacity equals its length. -/
def slice {α} (a : List α) (lo hi : Nat) : M (List α) :=
  if lo ≤ hi ∧ hi ≤ a.length then .ok ((a.take hi).drop lo) else .error .panic

/-- The C reading of a byte array: the bytes before the first NUL. -/
def cstr (xs : List Nat) : List Nat := xs.takeWhile (· ≠ 0)

/-- Go `copy(dst[:], src)` into a zeroed array of length `n`. -/
def copyInto (n : Nat) (src : List Nat) : List Nat :=
  let s := src.take n
  s ++ List.replicate (n - s.length) 0

@[simp] theorem copyInto_length (n : Nat) (src : List Nat) : (copyInto n src).length = n := by
  simp [copyInto]; omega

theorem copyInto_of_le (n : Nat) (l : List Nat) (h : l.length ≤ n) :
    copyInto n l = l ++ List.replicate (n - l.length) 0 := by
  simp [copyInto, List.take_of_length_le h]

/-! ### hex line protocol -/

def hexDigitVal (c : Char) : Option Nat :=
  if '0' ≤ c ∧ c ≤ '9' then some (c.toNat - '0'.toNat)
  else if 'a' ≤ c ∧ c ≤ 'f' then some (c.toNat - 'a'.toNat + 10)
  else if 'A' ≤ c ∧ c ≤ 'F' then some (c.toNat - 'A'.toNat + 10)
  else none

def parseHexChars : List Char → Option (List Nat)
  | [] => some []
  | [_] => none
  | a :: b :: rest => do
      let x ← hexDigitVal a
      let y ← hexDigitVal b
      let r ← parseHexChars rest
      pure ((x * 16 + y) :: r)

/-- `"-"` is the empty byte string (so that every field is a non-empty token). -/
def parseHex (s : String) : Option (List Nat) :=
  if s = "-" then some [] else parseHexChars s.toList

def hexChar (n : Nat) : Char :=
  if n < 10 then Char.ofNat (n + 48) else Char.ofNat (n - 10 + 97)

def toHex (bs : List Nat) : String :=
  if bs.isEmpty then "-" else
  String.ofList (bs.flatMap fun b => [hexChar (b / 16 % 16), hexChar (b % 16)])

def showM {α} (f : α → String) : M α → String
  | .ok a => f a
  | .error e => toString e

def words (line : String) : List String :=
  (line.splitOn " ").filter (· ≠ "")

end PttVerif
