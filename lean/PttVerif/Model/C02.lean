import PttVerif.Common
import PttVerif.Gen.CryptTables
/-
C02 — executable model of crypt/crypt.go, crypt/utils.go, crypt/bbscrypt.go and of
cmbbs.GenPasswd / cmbbs.CheckPasswd.  Core Lean only (linked into drv_c02).

Purity.  Every function here is a pure function of its arguments: two results never share state.  In the Go code that
is a property of its own (the 14-byte result of `Fcrypt` must be a fresh buffer, not a reused / pooled one that a later
call overwrites); it is tied by the correspondence ops `retain`, `checkfc` and `conc` of go/cmd/c02, which keep a
returned hash alive across further calls and compare with the two independent model results.

Conventions
* a Go `uint32` is a `Nat` below 2^32; every operation that can leave that range in Go (`<<`) is truncated
  explicitly with `w32`; `>>`, `&`, `|`, `^` on values in range stay in range.
* a Go `uint8` is a `Nat` below 256; `c << 1` on a `uint8` is `c * 2 % 256`.
* the tables are the regenerated `Gen.CryptTables` lists.  Lookups whose index the code masks to the array
  length (`SPtrans[b][x & 0x3f]`, `skb[b][6-bit gather]`, `cov_2char[c]` with `c` six accumulated bits,
  `shifts2[i]`, `s[S]` with `S < 32`, `bb[y]` with `y ≤ 8`) cannot panic in Go and are `getD`; lookups whose
  index comes from the caller (`salt[0]`, `salt[1]`, `con_salt[x]`, `passwd[0]` behind its length guard) are `idx`
  and panic exactly where Go does.  (`Props/C02.lean` proves the table shapes, so no `getD` default is ever taken.)
-/
namespace PttVerif.C02
open PttVerif PttVerif.Gen.CryptTables

/-- truncation to a Go `uint32`. -/
def w32 (x : Nat) : Nat := x % 4294967296

/-- `a << n` on `uint32`. -/
def shl (a n : Nat) : Nat := w32 (a <<< n)

/-- `a >> n` on `uint32`. -/
def shr (a n : Nat) : Nat := a >>> n

/-- `T[b][i]` for one of the two 8×64 tables. -/
def tbl (T : List (List Nat)) (b i : Nat) : Nat := (T.getD b []).getD i 0

/-! ### crypt/utils.go -/

/-- `c2l(c)`: little-endian load of four bytes. -/
def c2l (c : List Nat) : Nat :=
  c.getD 0 0 ||| (c.getD 1 0) <<< 8 ||| (c.getD 2 0) <<< 16 ||| (c.getD 3 0) <<< 24

/-- `l2c(l, c)`: little-endian store into four bytes. -/
def l2c (l : Nat) : List Nat :=
  [l &&& 0xff, (l >>> 8) &&& 0xff, (l >>> 16) &&& 0xff, (l >>> 24) &&& 0xff]

/-- `PermOp(a, b, n, m)`. -/
def PermOp (a b n m : Nat) : Nat × Nat :=
  let t := ((shr a n) ^^^ b) &&& m
  let b := b ^^^ t
  let a := a ^^^ shl t n
  (a, b)

/-- `HPermOp(a, n, m)`; `n` is a Go `int` (both call sites pass -2, so the shift count `16 - n` is 18). -/
def HPermOp (a : Nat) (n : Int) (m : Nat) : Nat :=
  let k := (16 - n).toNat
  let t := ((shl a k) ^^^ a) &&& m
  a ^^^ t ^^^ shr t k

/-! ### crypt/crypt.go: desSetKey -/

/-- one iteration `i` of the key-schedule loop: the rotated halves and the two words `k[2i]`, `k[2i+1]`. -/
def ksStep (c d i : Nat) : Nat × Nat × Nat × Nat :=
  let (c, d) :=
    if shifts2.getD i 0 ≠ 0 then
      ((shr c 2) ||| (shl c 26), (shr d 2) ||| (shl d 26))
    else
      ((shr c 1) ||| (shl c 27), (shr d 1) ||| (shl d 27))
  let c := c &&& 0x0fffffff
  let d := d &&& 0x0fffffff
  let s := tbl skb 0 (c &&& 0x3f) |||
    tbl skb 1 (((shr c 6) &&& 0x03) ||| ((shr c 7) &&& 0x3c)) |||
    tbl skb 2 (((shr c 13) &&& 0x0f) ||| ((shr c 14) &&& 0x30)) |||
    tbl skb 3 (((shr c 20) &&& 0x01) ||| ((shr c 21) &&& 0x06) ||| ((shr c 22) &&& 0x38))
  let t := tbl skb 4 (d &&& 0x3f) |||
    tbl skb 5 (((shr d 7) &&& 0x03) ||| ((shr d 8) &&& 0x3c)) |||
    tbl skb 6 ((shr d 15) &&& 0x3f) |||
    tbl skb 7 (((shr d 21) &&& 0x0f) ||| ((shr d 22) &&& 0x30))
  let k0 := ((shl t 16) ||| (s &&& 0x0000ffff)) &&& 0xffffffff
  let s := (shr s 16) ||| (t &&& 0xffff0000)
  let s := (shl s 4) ||| (shr s 28)
  let k1 := s &&& 0xffffffff
  (c, d, k0, k1)

/-- the loop `for i := 0; i < ITERATIONS; i++`, filling `k[2i], k[2i+1]` in order. -/
def ksLoop : List Nat → Nat → Nat → List Nat
  | [], _, _ => []
  | i :: is, c, d =>
    let (c, d, k0, k1) := ksStep c d i
    k0 :: k1 :: ksLoop is c d

/-- the part of `desSetKey` before the loop: PC-1 by bit-swaps on the two loaded words. -/
def pc1 (key : List Nat) : Nat × Nat :=
  let c := c2l (key.take 4)
  let d := c2l ((key.take 8).drop 4)
  let (d, c) := PermOp d c 4 0x0f0f0f0f
  let c := HPermOp c (-2) 0xcccc0000
  let d := HPermOp d (-2) 0xcccc0000
  let (d, c) := PermOp d c 1 0x55555555
  let (c, d) := PermOp c d 8 0x00ff00ff
  let (d, c) := PermOp d c 1 0x55555555
  let d := (shl (d &&& 0x000000ff) 16) ||| (d &&& 0x0000ff00) |||
    (shr (d &&& 0x00ff0000) 16) ||| (shr (c &&& 0xf0000000) 4)
  let c := c &&& 0x0fffffff
  (c, d)

/-- `desSetKey(key, schedule)`: the 32 schedule words. -/
def desSetKey (key : List Nat) : List Nat :=
  let (c, d) := pc1 key
  ksLoop (List.range ITERATIONS) c d

/-! ### dEncrypt / body -/

/-- `dEncrypt(L, R, S, E0, E1, s, t, u)`: the new `L`.  (The incoming `t`, `u` are overwritten on the first two
lines and the returned `t`, `u` are never read before the next call overwrites them: dead values.) -/
def dEncrypt (L R S E0 E1 : Nat) (s : List Nat) : Nat :=
  let t := R ^^^ (shr R 16)
  let u := t &&& E0
  let t := t &&& E1
  let u := (u ^^^ (shl u 16)) ^^^ R ^^^ s.getD S 0
  let t := (t ^^^ (shl t 16)) ^^^ R ^^^ s.getD (S + 1) 0
  let t := (shr t 4) ||| (shl t 28)
  L ^^^ (tbl SPtrans 1 (t &&& 0x3f) |||
    tbl SPtrans 3 ((shr t 8) &&& 0x3f) |||
    tbl SPtrans 5 ((shr t 16) &&& 0x3f) |||
    tbl SPtrans 7 ((shr t 24) &&& 0x3f) |||
    tbl SPtrans 0 (u &&& 0x3f) |||
    tbl SPtrans 2 ((shr u 8) &&& 0x3f) |||
    tbl SPtrans 4 ((shr u 16) &&& 0x3f) |||
    tbl SPtrans 6 ((shr u 24) &&& 0x3f))

/-- the two `dEncrypt` calls of one inner-loop iteration `i`. -/
def roundPair (s : List Nat) (E0 E1 : Nat) (lr : Nat × Nat) (i : Nat) : Nat × Nat :=
  let l := dEncrypt lr.1 lr.2 i E0 E1 s
  let r := dEncrypt lr.2 l (i + 2) E0 E1 s
  (l, r)

/-- the values of `i` in `for i := 0; i < ITERATIONS*2; i += 4`. -/
def innerIdx : List Nat := (List.range (ITERATIONS * 2 / 4)).map (· * 4)

/-- one pass of the outer loop: the inner loop, then swap `l`, `r`. -/
def desPass (s : List Nat) (E0 E1 : Nat) (lr : Nat × Nat) : Nat × Nat :=
  let lr := innerIdx.foldl (roundPair s E0 E1) lr
  (lr.2, lr.1)

/-- `n` passes. -/
def passes (s : List Nat) (E0 E1 : Nat) : Nat → Nat × Nat → Nat × Nat
  | 0, lr => lr
  | n + 1, lr => passes s E0 E1 n (desPass s E0 E1 lr)

/-- the tail of `body`: undo the rotation, final permutation by bit-swaps. -/
def finalPerm (lr : Nat × Nat) : Nat × Nat :=
  let l := lr.1
  let r := lr.2
  let t := r
  let r := (shr l 1) ||| (shl l 31)
  let l := (shr t 1) ||| (shl t 31)
  let l := l &&& 0xffffffff
  let r := r &&& 0xffffffff
  let (r, l) := PermOp r l 1 0x55555555
  let (l, r) := PermOp l r 8 0x00ff00ff
  let (r, l) := PermOp r l 2 0x33333333
  let (l, r) := PermOp l r 16 0x0000ffff
  let (r, l) := PermOp r l 4 0x0f0f0f0f
  (l, r)

/-- `body(ks, Eswap0, Eswap1)`: 25 passes from the zero block. -/
def body (ks : List Nat) (Eswap0 Eswap1 : Nat) : Nat × Nat :=
  finalPerm (passes ks Eswap0 Eswap1 25 (0, 0))

/-! ### cFcrypt -/

/-- `for idx, c := range buf { if c == 0 { break }; key[idx] = c << 1 }` — the bytes written. -/
def keyBytes : List Nat → List Nat
  | [] => []
  | c :: cs => if c = 0 then [] else (c * 2 % 256) :: keyBytes cs

/-- the `desCBlock` built from the (already truncated) password. -/
def mkKey (buf : List Nat) : List Nat := copyInto 8 (keyBytes buf)

/-- the six-step inner loop of the output encoding: state `(c, y, u)`. -/
def bit6 (bb : List Nat) : Nat → Nat × Nat × Nat → Nat × Nat × Nat
  | 0, st => st
  | j + 1, (c, y, u) =>
    let c := c <<< 1
    let c := if bb.getD y 0 &&& u ≠ 0 then c ||| 1 else c
    let u := u >>> 1
    let (y, u) := if u = 0 then (y + 1, 0x80) else (y, u)
    bit6 bb j (c, y, u)

/-- `for i := 2; i < 13; i++ { … buff[i] = cov_2char[c] }` — the characters written, `n` of them. -/
def outChars (bb : List Nat) : Nat → Nat × Nat → List Nat
  | 0, _ => []
  | n + 1, (y, u) =>
    let (c, y, u) := bit6 bb 6 (0, y, u)
    cov_2char.getD c 0 :: outChars bb n (y, u)

/-- the salt character the code uses (`'A'` for a NUL). -/
def saltChar (s : Nat) : Nat := if s ≠ 0 then s else 65

/-- `cFcrypt(buf, salt, &buff)`: the 14 bytes of `buff`, or the panic. -/
def cFcrypt (buf salt : List Nat) : M (List Nat) := do
  let buf := if buf.length > 8 then buf.take 8 else buf
  let s0 ← idx salt 0
  let x0 := saltChar s0
  let e0 ← idx con_salt x0
  let Eswap0 := e0
  let s1 ← idx salt 1
  let x1 := saltChar s1
  let e1 ← idx con_salt x1
  let Eswap1 := shl e1 4
  let key := mkKey buf
  let ks := desSetKey key
  let out := body ks Eswap0 Eswap1
  let bb := l2c out.1 ++ l2c out.2 ++ [0]
  pure ([x0, x1] ++ outChars bb 11 (0, 0x80) ++ [0])

/-- `crypt.Fcrypt(key, salt)` (its error is always nil). -/
def Fcrypt (key salt : List Nat) : M (List Nat) := cFcrypt key salt

/-! ### cmbbs/passwd.go -/

/-- `GenPasswd(passwd)` with the value `num` of `rand.Intn(65536)` as a parameter. -/
def GenPasswdWith (num : Nat) (passwd : List Nat) : M (List Nat) := do
  -- `if len(passwd) == 0 || passwd[0] == 0 { return &Passwd_t{}, nil }` (the length test is repo fix cf9020f;
  -- before it `passwd[0]` panicked on the empty slice)
  if passwd.length = 0 then pure (List.replicate ptttypePASSLEN 0) else
  let p0 ← idx passwd 0
  if p0 = 0 then pure (List.replicate ptttypePASSLEN 0) else
  let saltc := [num &&& 0x7f, (num >>> 8) &&& 0x7f]
  let result ← Fcrypt passwd saltc
  pure (copyInto ptttypePASSLEN result)

/-- `CheckPasswd(expected, input)`. -/
def CheckPasswd (expected input : List Nat) : M Bool := do
  let pw ← Fcrypt input expected
  pure (pw == expected)

end PttVerif.C02
