import PttVerif.Common
import PttVerif.Gen.C18Str
import PttVerif.Model.C18
/-
C18 (group 3) — models of
  types/utils.go   ReadLine (on a bufio.Reader over a byte string)
  cmsys/fnv_hash.go, cmsys/string.go   fnv1a32StrCase, StringHash, StringHashWithHashBits
  cmsys/string.go  StripNoneBig5 (in place), DBCSNextStatus, DBCSStatus, DBCSSafeTrim, Trim, StrcaseStartsWith (ff0e11f)
  types/big5.go    TrimDBCS (in place)
  cmbbs/string.go  SubjectEx
Same conventions as Model/C18.lean. Functions that write into their argument return the buffer afterwards too.
-/
namespace PttVerif.C18
open PttVerif

/-! ### types.ReadLine -/

/-- `reader.ReadBytes('\n')` on a reader whose unread content is the argument:
(bytes up to and including the first LF — or everything, with io.EOF —, what stays unread, hit EOF?). -/
def readBytesLF : List Nat → List Nat × List Nat × Bool
  | [] => ([], [], true)
  | c :: r =>
    if c = 10 then ([c], r, false)
    else
      let (l, rest, eof) := readBytesLF r
      (c :: l, rest, eof)

/-- `if line[len(line)-1] == '\n' { line = line[:len(line)-1] }`.
For `len(line) = 0` Go's index is −1 and panics; `line.length - 1` is then 0 and `idx [] 0` faults too. -/
def chopLF (line : List Nat) : M (List Nat) := do
  let last ← idx line (line.length - 1)
  if last = 10 then slice line 0 (line.length - 1) else pure line

/-- `if len(line) > 0 && line[len(line)-1] == '\r' { line = line[:len(line)-1] }` (the length guard is fix 420dce4). -/
def chopCR (line : List Nat) : M (List Nat) :=
  if line.length > 0 then do
    let last ← idx line (line.length - 1)
    if last = 13 then slice line 0 (line.length - 1) else pure line
  else pure line

/-- `ReadLine`: `none` is `(nil, io.EOF)`, `some line` is `(line, nil)`; second component: what stays unread.
(A byte reader has no error other than io.EOF, so the `err != nil && err != io.EOF` branch is dead.) -/
def readLine (unread : List Nat) : M (Option (List Nat) × List Nat) := do
  let (line, rest, _) := readBytesLF unread
  if line.length = 0 then pure (none, rest)
  else do
    let line ← chopLF line
    let line ← chopCR line
    pure (some line, rest)

/-- `for line, err := ReadLine(r); err == nil; line, err = ReadLine(r) { collect line }` (cmsys.FileFindRecord's loop). -/
def readAll : Nat → List Nat → M (List (List Nat))
  | 0, _ => .error .diverge
  | fuel + 1, unread => do
    let (l, rest) ← readLine unread
    match l with
    | none => pure []
    | some line => do
      let ls ← readAll fuel rest
      pure (line :: ls)

def readLines (input : List Nat) : M (List (List Nat)) := readAll (input.length + 1) input

/-! ### hashing -/

def FNV1_32_INIT : Nat := Gen.C18Str.fnv1_32_init
def FNV_32_PRIME : Nat := Gen.C18Str.fnv_32_prime
def HASH_BITS : Nat := Gen.C18Str.hashBits

/-- `fnv1a32StrCase`: `hval ^= upper(each); hval *= FNV_32_PRIME` in uint32, stopping at NUL. -/
def fnv1a32StrCase : List Nat → Nat → Nat
  | [], h => h
  | each :: rest, h =>
    if each = 0 then h
    else fnv1a32StrCase rest (((h ^^^ ccharToupper each) * FNV_32_PRIME) % 4294967296)

def stringHash (s : List Nat) : Nat := fnv1a32StrCase s FNV1_32_INIT

/-- `StringHash(b) % (1 << HASH_BITS)`. -/
def stringHashWithHashBits (s : List Nat) : Nat := stringHash s % (1 <<< HASH_BITS)

/-- specification: FNV-1a (32 bit) over a byte string, from an arbitrary offset basis. -/
def fnv1a (bs : List Nat) (h : Nat) : Nat :=
  bs.foldl (fun h b => ((h ^^^ b) * 16777619) % 4294967296) h

/-! ### StripNoneBig5 -/

/-- `a[i] = v`. -/
def setAt (a : List Nat) (i v : Nat) : M (List Nat) :=
  if i < a.length then .ok (a.set i v) else .error .panic

def isTrail (d : Nat) : Bool := (0x40 ≤ d && d ≤ 0x7e) || (0xa1 ≤ d && d ≤ 0xfe)

/-- the loop of `StripNoneBig5`, entered at the loop test; `buf` is `str_out` as it is now. -/
def nb5Loop : Nat → List Nat → Nat → Nat → M (List Nat × Nat)
  | 0, _, _, _ => .error .diverge
  | fuel + 1, buf, i, theLen =>
    if ¬ i < buf.length then pure (buf, theLen) else do
    let c ← idx buf i
    if c = 0 then pure (buf, theLen)
    else if 32 ≤ c ∧ c < 128 then do
      let buf ← setAt buf theLen c
      nb5Loop fuel buf (i + 1) (theLen + 1)
    else if c &&& 0x80 ≠ 0 then
      if i + 1 < buf.length then do
        let d ← idx buf (i + 1)
        if isTrail d then do
          let c' ← idx buf i
          let buf ← setAt buf theLen c'
          let d' ← idx buf (i + 1)             -- read again after the first store, as the Go code does
          let buf ← setAt buf (theLen + 1) d'
          nb5Loop fuel buf (i + 2) (theLen + 2)
        else nb5Loop fuel buf (i + 1) theLen
      else nb5Loop fuel buf (i + 1) theLen
    else nb5Loop fuel buf (i + 1) theLen

/-- `StripNoneBig5`: (sanitizedStr, str_out afterwards). -/
def stripNoneBig5 (s : List Nat) : M (List Nat × List Nat) := do
  let (buf, theLen) ← nb5Loop (s.length + 1) s 0 0
  let buf ← if theLen < buf.length then setAt buf theLen 0 else pure buf
  let out ← slice buf 0 theLen
  pure (out, buf)

/-- specification-side filter: what survives, as a function of the original bytes. -/
def nb5 : List Nat → List Nat
  | [] => []
  | [c] => if c = 0 then [] else if 32 ≤ c ∧ c < 128 then [c] else []
  | c :: d :: r =>
    if c = 0 then []
    else if 32 ≤ c ∧ c < 128 then c :: nb5 (d :: r)
    else if c &&& 0x80 ≠ 0 then (if isTrail d then c :: d :: nb5 r else nb5 (d :: r))
    else nb5 (d :: r)

/-- a well-formed sanitized string: printable ASCII, or a lead byte (≥ 0x80) with a valid Big5 trail byte. -/
inductive Big5Safe : List Nat → Prop where
  | nil : Big5Safe []
  | ascii (c : Nat) (r : List Nat) : 32 ≤ c → c < 128 → Big5Safe r → Big5Safe (c :: r)
  | dbcs (c d : Nat) (r : List Nat) : 128 ≤ c → c < 256 → isTrail d = true → Big5Safe r → Big5Safe (c :: d :: r)

/-! ### DBCS status -/

def DBCS_ASCII : Nat := Gen.C18Str.dbcsAscii
def DBCS_LEADING : Nat := Gen.C18Str.dbcsLeading
def DBCS_TRAILING : Nat := Gen.C18Str.dbcsTrailing

/-- `DBCSNextStatus`. -/
def dbcsNextStatus (c prev : Nat) : Nat :=
  if prev = DBCS_LEADING then DBCS_TRAILING
  else if c ≥ 0x80 then DBCS_LEADING
  else DBCS_ASCII

/-- the loop of `DBCSStatus` with `k = pos+1` iterations left: `c := str[0]; str = str[1:]; …; if len(str) == 0 { break }`. -/
def dbcsLoop : Nat → List Nat → Nat → M Nat
  | 0, _, st => pure st
  | k + 1, str, st => do
    let c ← idx str 0
    let str' ← slice str 1 str.length
    let st' := dbcsNextStatus c st
    if str'.length = 0 then pure st' else dbcsLoop k str' st'

/-- `DBCSStatus(str, pos)`; `pos` is a Go `int`. -/
def dbcsStatus (str : List Nat) (pos : Int) : M Nat :=
  match pos with
  | Int.negSucc _ => pure DBCS_ASCII
  | Int.ofNat p => dbcsLoop (p + 1) str DBCS_ASCII

/-- `DBCSSafeTrim`. -/
def dbcsSafeTrim (str : List Nat) : M (List Nat) :=
  if str.length < 1 then pure str
  else do
    let st ← dbcsStatus str (Int.ofNat (str.length - 1))
    if st = DBCS_LEADING then slice str 0 (str.length - 1) else pure str

/-- specification: the status of the last byte of a non-empty string. -/
def dbcsFold (s : List Nat) : Nat := s.foldl (fun st c => dbcsNextStatus c st) DBCS_ASCII

/-- lexical units of DBCS text: an ASCII byte, or a lead byte (≥ 0x80) with whatever byte follows it. -/
inductive DUnit where
  | a (c : Nat)
  | d (l t : Nat)
  deriving Repr, DecidableEq

def DUnit.bytes : DUnit → List Nat
  | .a c => [c]
  | .d l t => [l, t]

def DUnit.ok : DUnit → Prop
  | .a c => c < 0x80
  | .d l _ => 0x80 ≤ l

def unitsBytes (us : List DUnit) : List Nat := us.flatMap DUnit.bytes

/-! ### Trim, TrimDBCS -/

/-- `bytes.TrimRight(s, " ")`. -/
def trimRightSp (s : List Nat) : List Nat := (s.reverse.dropWhile (· = 32)).reverse

/-- `cmsys.Trim`. -/
def trim (s : List Nat) : M (List Nat) := do
  let b ← cstrToBytes s
  pure (trimRightSp b)

/-- the walk of `types.TrimDBCS` (after fix 279321c): `for _, each := range theBytes { if isLead { isLead = false }
else if each >= 0x80 { isLead = true } }`; the result is `isLead` when the loop ends. -/
def leadWalk : List Nat → Bool → Bool
  | [], isLead => isLead
  | each :: rest, isLead => leadWalk rest (if isLead then false else if each ≥ 0x80 then true else isLead)

/-- `types.TrimDBCS`: (result, theCstr afterwards — the result aliases it and the cut byte is zeroed in place).
`theBytes[len(theBytes)-1] = 0`: for `len = 0` Go's index is −1 and panics (mirrored; unreachable, see `trimDBCS_total`). -/
def trimDBCS (s : List Nat) : M (List Nat × List Nat) := do
  let b ← cstrToBytes s
  if leadWalk b false then do
    let s' ← if b.length = 0 then .error .panic else setAt s (b.length - 1) 0
    let b' ← slice b 0 (b.length - 1)
    pure (b', s')
  else pure (b, s)

/-- HISTORICAL: the body of `types.TrimDBCS` before fix 279321c (it cut any last byte ≥ 0x80 and indexed
`theBytes[-1]` on the empty string). Kept only for the before-fix witness theorem `trimDBCS_before_fix_witness`;
the driver does not run it. -/
def trimDBCSOld (s : List Nat) : M (List Nat × List Nat) := do
  let b ← cstrToBytes s
  let last ← idx b (b.length - 1)
  if last ≥ 0x80 then do
    let s' ← setAt s (b.length - 1) 0
    let b' ← slice b 0 (b.length - 1)
    pure (b', s')
  else pure (b, s)

/-! ### SubjectEx -/

def STR_REPLY : List Nat := Gen.C18Str.strReply
def STR_FORWARD : List Nat := Gen.C18Str.strForward
def STR_LEGACY_FORWARD : List Nat := Gen.C18Str.strLegacyForward
def SUBJECT_NORMAL : Nat := Gen.C18Str.subjectNormal
def SUBJECT_REPLY : Nat := Gen.C18Str.subjectReply
def SUBJECT_FORWARD : Nat := Gen.C18Str.subjectForward
def TTLEN : Nat := Gen.C18Str.ttlen

/-- the `for idx, each := range prefix` loop of `cmsys.StrcaseStartsWith` (after fix ff0e11f), entered with
`prefix[idx:]` and `idx`. -/
def startsWithLoop (str : List Nat) : List Nat → Nat → M Bool
  | [], _ => pure true
  | each :: rest, i => do
    let c ← idx str i
    if ccharTolower c ≠ ccharTolower each then pure false else startsWithLoop str rest (i + 1)

/-- `cmsys.StrcaseStartsWith`: strncasecmp over the bytes, ASCII folding only. -/
def strcaseStartsWith (str pre : List Nat) : M Bool :=
  if str.length < pre.length then pure false else startsWithLoop str pre 0

/-- the `if / else if / else if / else break` chain of `SubjectEx`: which prefix matched — its length and the
subject type it sets — or `none` for `break`. -/
def subjectStep (p : List Nat) : M (Option (Nat × Nat)) := do
  if ← strcaseStartsWith p STR_REPLY then pure (some (STR_REPLY.length, SUBJECT_REPLY))
  else if ← strcaseStartsWith p STR_FORWARD then pure (some (STR_FORWARD.length, SUBJECT_FORWARD))
  else if ← strcaseStartsWith p STR_LEGACY_FORWARD then pure (some (STR_LEGACY_FORWARD.length, SUBJECT_FORWARD))
  else pure none

/-- `if pTitle[0] == ' ' { pTitle = pTitle[1:] }` -/
def skipBlank (p : List Nat) : M (List Nat) := do
  let c ← idx p 0
  if c = 32 then slice p 1 p.length else pure p

/-- the loop of `SubjectEx`. -/
def subjectLoop : Nat → List Nat → Nat → M (Nat × List Nat)
  | 0, _, _ => .error .diverge
  | fuel + 1, p, ty =>
    if p.length = 0 then pure (ty, p) else do
    match ← subjectStep p with
    | none => pure (ty, p)
    | some (n, ty') => do
      let p ← slice p n p.length                       -- pTitle = pTitle[len(prefix):]
      if p.length = 0 then pure (ty', p) else do
      let p ← skipBlank p
      subjectLoop fuel p ty'

/-- `SubjectEx` on the bytes of a `Title_t` (`[TTLEN+1]byte`). -/
def subjectEx (title : List Nat) : M (Nat × List Nat) := do
  let p ← cstrToBytes title
  subjectLoop (p.length + 1) p SUBJECT_NORMAL

/-! ### the call site of TrimDBCS: the Title of a cross-posted article (ptt.CrossPost, ptt/bbs.go)

`title := bytes.Join([][]byte{STR_FORWARD, CstrToBytes(fileHeader.Title[:])}, " ")`, then
`copy(xFileHeader.Title[:], title)` (cuts at the 65-byte field) and THEN `types.TrimDBCS(xFileHeader.Title[:])`
on the field — the order is the regenerated fact `Gen.C18Str.crossPostTitleStmts`. -/

def crossPostTitle (title : List Nat) : M (List Nat) := do
  let t := STR_FORWARD ++ [32] ++ cstr title
  let field := copyInto (TTLEN + 1) t
  let (_, field') ← trimDBCS field
  pure field'

/-- the broken order (seed C18-r6-2), for the witness theorem: trim the untruncated temporary, then copy. -/
def crossPostTitleTrimFirst (title : List Nat) : M (List Nat) := do
  let t := STR_FORWARD ++ [32] ++ cstr title
  let (t', _) ← trimDBCS t
  pure (copyInto (TTLEN + 1) t')

end PttVerif.C18
