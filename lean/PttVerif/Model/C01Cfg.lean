import PttVerif.Model.C01
import PttVerif.Gen.LayoutDefault
import PttVerif.Gen.LayoutDocker
import PttVerif.Spec.C01Frozen
/-
C01 — the two build configurations as regenerated from /repo (default tags; `-tags docker`), and the site
constants the frozen shared-memory layouts are instantiated with.  Core Lean only (linked into the driver).
-/
namespace PttVerif.C01
open PttVerif

def cfgDefault : Config :=
  ⟨Gen.LayoutDefault.types, Gen.LayoutDefault.compiler, Gen.LayoutDefault.consts, Gen.LayoutDefault.offsetConsts,
   Gen.LayoutDefault.updates⟩

def cfgDocker : Config :=
  ⟨Gen.LayoutDocker.types, Gen.LayoutDocker.compiler, Gen.LayoutDocker.consts, Gen.LayoutDocker.offsetConsts,
   Gen.LayoutDocker.updates⟩

def cfgByName : String → Option Config
  | "default" => some cfgDefault
  | "docker" => some cfgDocker
  | _ => none

/-- the site constants of a configuration, for the frozen shared-memory formulas. -/
def kDefault : Frozen.K :=
  open Gen.LayoutDefault in
  ⟨k_MAX_USERS, k_MAX_ACTIVE, k_MAX_BOARD, k_HASH_BITS, k_MAX_FRIEND, k_MAX_REJECT, k_MAX_MSGS, k_MAX_ADBANNER,
   k_MAX_ADBANNER_SECTION, k_MAX_ADBANNER_HEIGHT, k_HOTBOARDCACHE, k_MAX_FROM⟩

def kDocker : Frozen.K :=
  open Gen.LayoutDocker in
  ⟨k_MAX_USERS, k_MAX_ACTIVE, k_MAX_BOARD, k_HASH_BITS, k_MAX_FRIEND, k_MAX_REJECT, k_MAX_MSGS, k_MAX_ADBANNER,
   k_MAX_ADBANNER_SECTION, k_MAX_ADBANNER_HEIGHT, k_HOTBOARDCACHE, k_MAX_FROM⟩

/-- a configuration together with its site constants. -/
structure Site where
  cfg : Config
  k : Frozen.K

def siteDefault : Site := ⟨cfgDefault, kDefault⟩
def siteDocker : Site := ⟨cfgDocker, kDocker⟩

/-- the frozen C struct of a Go record type under the site constants. -/
def frozenOf (k : Frozen.K) (name : String) : Option Frozen.CStruct := (Frozen.byGoName k).lookup name

/-- frozen (offset, size) of a field. -/
def frozenField (k : Frozen.K) (ty fld : String) : Option (Nat × Nat) := do
  let s ← frozenOf k ty
  (Frozen.fields s).lookup fld

end PttVerif.C01
