import PttVerif.Common
import PttVerif.Gen.Token
/-!
C16 — the server's decision logic about JSON web tokens (api/auth_utils.go, api/refresh.go,
api/api_login_required*.go, api/get_token_info.go, api/get_refresh_token_info.go, api/user_utils.go).

The library (github.com/golang-jwt/jwt/v4 v4.5.0, HMAC, base64url, JSON) is NOT modelled.  A presented
token string is abstracted as the record of what the decision logic reads from it (`Raw`):

* `empty`      — the string `""`;
* `malformed`  — `Parser.ParseUnverified` fails (not three segments, a segment that is not base64url, a
                 header or payload that is not JSON, `alg` missing / not a string / not registered);
* `tok t`      — everything else: the registered algorithm class, the claims the code reads, and
                 `t.hmacOK : Secret → Bool`, the UNINTERPRETED oracle "the signature bytes equal
                 HMAC_{hash of alg}(key, header.payload)".

What the library documents on top of that oracle is mirrored, not assumed away:

* `SigningMethodHMAC.Verify` is the only `Verify` that accepts a `[]byte` key; `none` needs the magic
  constant `UnsafeAllowNoneSignatureType`, RSA/ECDSA/PSS/EdDSA need their public-key types
  (`ErrInvalidKeyType`).  The server's key callback returns the `[]byte` secret whatever the algorithm
  is (`Gen.Token.keyfuncPlain`), so `verify k t = t.alg.isHMAC && t.hmacOK k`.
* `MapClaims.Valid()` (run by `Parse` because `SkipClaimsValidation` is off): for each of exp/iat/nbf
  an absent claim passes, a number equal to 0 passes, another number is truncated to the second and
  compared with `TimeFunc().Unix()` (`now < exp`, `now ≥ iat`, `now ≥ nbf`), a value of any other JSON type
  fails.

Two clocks read the same wall clock `t` (Unix seconds): the library uses `time.Now().Unix()` (int64), the
server `int(types.NowTS())` where `Time4` is an int32 — `srvNow t = toTime4 t`.

A JSON number `v` is represented by `Claim.num ⌊v⌋ (v ≠ ⌊v⌋)`, which is all the code looks at (`int(float64)`
truncates towards zero, the library floors to the second, and both test `v == 0`).  Numbers of magnitude
≥ 2^53 (where `int(float64)` and `time.Unix` stop being portable/exact) are outside the model.

Core Lean only.
-/
namespace PttVerif.C16

abbrev Bytes := List Nat
abbrev Secret := List Nat

/-- the registered signing methods, by the key type their `Verify` accepts -/
inductive Alg where
  | hs256 | hs384 | hs512     -- SigningMethodHMAC: key must be []byte
  | none                      -- signingMethodNone: key must be UnsafeAllowNoneSignatureType
  | asym                      -- RS*/PS*/ES*/EdDSA: key must be a public key
  deriving DecidableEq, Repr, Inhabited

def Alg.isHMAC : Alg → Bool
  | .hs256 | .hs384 | .hs512 => true
  | _ => false

/-- the value of one claim of the decoded payload (`MapClaims[idx]`) -/
inductive Claim where
  | absent
  | str (s : Bytes)
  | num (fl : Int) (frac : Bool)   -- a JSON number v: fl = ⌊v⌋, frac = (v ≠ ⌊v⌋)
  | other                     -- true/false/null/array/object
  deriving DecidableEq, Repr, Inhabited

structure Token where
  alg : Alg
  hmacOK : Secret → Bool
  cli : Claim
  sub : Claim
  exp : Claim
  typ : Claim
  ctx : Claim
  eml : Claim
  iat : Claim
  nbf : Claim

inductive Raw where
  | empty
  | malformed
  | tok (t : Token)

/-! ### configuration (the values of api/00-config.go as the functions use them) -/

structure Cfg where
  vAccess : Secret      -- parseJwtClaim:        ParseJwt(raw, …)
  vRefresh : Secret     -- parseRefreshJwtClaim
  vEmail : Secret       -- parseEmailJwtClaim
  sAccess : Secret      -- CreateToken:          SignedString(…)
  sRefresh : Secret     -- CreateRefreshToken
  sEmail : Secret       -- CreateEmailToken
  ttlAccess : Int       -- CreateToken:          NowTS() + Time4(…)
  ttlRefresh : Int      -- CreateRefreshToken
  ttlEmail : Int        -- CreateEmailToken:     int(NowTS()) + …
  pairDiff : Int        -- Refresh: expectedDiffExpireTS
  eps : Int             -- EPSILON_EXPIRE_TS
  guest : Bytes         -- GUEST
  refreshType : Bytes   -- REFRESH_JWT_CLAIM_TYPE
  deriving DecidableEq, Repr

/-- the configuration read from the source by the translator -/
def srcCfg : Cfg where
  vAccess := Gen.Token.verifyAccessKey
  vRefresh := Gen.Token.verifyRefreshKey
  vEmail := Gen.Token.verifyEmailKey
  sAccess := Gen.Token.createAccessKey
  sRefresh := Gen.Token.createRefreshKey
  sEmail := Gen.Token.createEmailKey
  ttlAccess := Gen.Token.createAccessTTL
  ttlRefresh := Gen.Token.createRefreshTTL
  ttlEmail := Gen.Token.createEmailTTL
  pairDiff := Gen.Token.pairDiff
  eps := Gen.Token.epsilonExpireTS
  guest := Gen.Token.guest
  refreshType := Gen.Token.refreshClaimType

/-! ### api/config.go: what `InitConfig()` makes of the variables

`config()` is a sequence of `X = setYConfig("KEY", DEFAULT)`; `configutil.SetYConfig` returns the value of the ini
file's `[go-pttbbs:api]` entry `key` (viper: case-insensitive) when it is set and `DEFAULT` otherwise.  `DEFAULT` is
an expression evaluated when the line runs — i.e. AFTER the lines before it: the model is an interpreter over the
lines the translator read (`Gen.Token.configLines`), variables are bytes (an int is its decimal digits;
`viper.GetInt` of something that is not a number is 0). -/

abbrev Env := List (String × Bytes)

def lookupVar (env : Env) (name : String) : Option Bytes := (env.find? (·.1 == name)).map (·.2)

def setVar : Env → String → Bytes → Env
  | [], n, v => [(n, v)]
  | (m, w) :: rest, n, v => if m == n then (m, v) :: rest else (m, w) :: setVar rest n v

/-- `none`: a default expression that is not one of the package variables (the interpreter does not know it) -/
def runConfig (ini : Env) : List (String × String × String × String × String) → Env → Option Env
  | [], env => some env
  | (var, _, _, keyLower, dflt) :: rest, env =>
    match lookupVar ini keyLower with
    | some v => runConfig ini rest (setVar env var v)
    | none =>
      match lookupVar env dflt with
      | some v => runConfig ini rest (setVar env var v)
      | none => none

/-- the variables after `InitConfig()` with the given `[go-pttbbs:api]` entries -/
def effEnv (ini : Env) : Option Env := runConfig ini Gen.Token.configLines Gen.Token.initialVars

def decDigits : List Nat → Nat → Option Nat
  | [], acc => some acc
  | d :: rest, acc => if 48 ≤ d ∧ d ≤ 57 then decDigits rest (acc * 10 + (d - 48)) else none

/-- `viper.GetInt` / the initial value of an int variable -/
def decToInt (bs : Bytes) : Int :=
  match bs with
  | 45 :: rest => if rest.isEmpty then 0 else match decDigits rest 0 with | some n => -(n : Int) | none => 0
  | [] => 0
  | _ => match decDigits bs 0 with | some n => (n : Int) | none => 0

/-- the configuration the functions see, by the variable NAMES the translator found in them -/
def cfgOfEnv (env : Env) : Option Cfg := do
  let vA ← lookupVar env Gen.Token.verifyAccessKeyName
  let vR ← lookupVar env Gen.Token.verifyRefreshKeyName
  let vE ← lookupVar env Gen.Token.verifyEmailKeyName
  let sA ← lookupVar env Gen.Token.createAccessKeyName
  let sR ← lookupVar env Gen.Token.createRefreshKeyName
  let sE ← lookupVar env Gen.Token.createEmailKeyName
  let tA ← lookupVar env Gen.Token.createAccessTTLName
  let tR ← lookupVar env Gen.Token.createRefreshTTLName
  let tE ← lookupVar env Gen.Token.createEmailTTLName
  let pm ← lookupVar env Gen.Token.pairDiffMinuendName
  let ps ← lookupVar env Gen.Token.pairDiffSubtrahendName
  let g ← lookupVar env "GUEST"
  let ty ← lookupVar env "REFRESH_JWT_CLAIM_TYPE"
  pure { vAccess := vA, vRefresh := vR, vEmail := vE, sAccess := sA, sRefresh := sR, sEmail := sE,
         ttlAccess := decToInt tA, ttlRefresh := decToInt tR, ttlEmail := decToInt tE,
         pairDiff := decToInt pm - decToInt ps, eps := Gen.Token.epsilonExpireTS, guest := g, refreshType := ty }

/-- the configuration after `InitConfig()` with the given ini entries -/
def effCfg (ini : Env) : Option Cfg := (effEnv ini).bind cfgOfEnv

/-- the three secret variables after `InitConfig()` -/
def effSecrets (ini : Env) : Option (Bytes × Bytes × Bytes) := do
  let env ← effEnv ini
  let a ← lookupVar env "JWT_SECRET"
  let r ← lookupVar env "REFRESH_JWT_SECRET"
  let e ← lookupVar env "EMAIL_JWT_SECRET"
  pure (a, r, e)

def pairwiseDistinct (s : Bytes × Bytes × Bytes) : Bool := s.1 != s.2.1 && s.1 != s.2.2 && s.2.1 != s.2.2

/-! ### the library, on top of the oracle -/

/-- `token.Method.Verify(signingString, signature, key)` with a `[]byte` key. -/
def verify (k : Secret) (t : Token) : Bool := t.alg.isHMAC && t.hmacOK k

/-- one of `MapClaims.VerifyExpiresAt/IssuedAt/NotBefore (now, false)`; `cmp now sec` is the comparison
with the claim truncated to the second. -/
def dateOK (cmp : Int → Int → Bool) (now : Int) : Claim → Bool
  | .absent => true
  | .num fl frac => (fl == 0 && !frac) || cmp now fl
  | _ => false

/-- `MapClaims.Valid()` at library time `now`. -/
def claimsValid (now : Int) (t : Token) : Bool :=
  dateOK (fun n e => decide (n < e)) now t.exp &&
  dateOK (fun n i => decide (i ≤ n)) now t.iat &&
  dateOK (fun n b => decide (b ≤ n)) now t.nbf

/-- `ParseJwt(raw, secret)`: `some` iff `err == nil`. -/
def parseJwt (k : Secret) (now : Int) : Raw → Option Token
  | .tok t => if claimsValid now t && verify k t then some t else none
  | _ => none

/-! ### api/auth_utils.go -/

/-- Go `types.Time4(x)`: wrap to int32 (Nat comparisons on purpose, see CONTRIBUTING: kernel trap). -/
def toTime4 (i : Int) : Int :=
  let m := (i % 4294967296).toNat
  if m < 2147483648 then Int.ofNat m else Int.negSucc (4294967295 - m)

/-- `int(types.NowTS())` at wall-clock second `t`. -/
def srvNow (t : Int) : Int := toTime4 t

/-- `ParseClaimString`: `none` is `ErrInvalidToken`. A missing claim is the empty string. -/
def claimString : Claim → Option Bytes
  | .absent => some []
  | .str s => some s
  | _ => none

/-- `ParseClaimInt`: a missing claim is 0; `int(float64)` truncates towards zero. -/
def claimInt : Claim → Option Int
  | .absent => some 0
  | .num fl frac => some (if frac && decide (fl < 0) then fl + 1 else fl)
  | _ => none

/-- what the three Verify functions return on success -/
structure Ident where
  user : Bytes
  exp : Int
  cli : Bytes
  deriving DecidableEq, Repr

inductive Err where
  | invalidToken | invalidUser | invalidRemoteAddr
  deriving DecidableEq, Repr

def parseJwtClaim (c : Cfg) (t : Int) (raw : Raw) : Option Ident := do
  let tok ← parseJwt c.vAccess t raw
  let cli ← claimString tok.cli
  let sub ← claimString tok.sub
  let exp ← claimInt tok.exp
  pure ⟨sub, exp, cli⟩

def verifyJwt (c : Cfg) (t : Int) (raw : Raw) (isCheckExpire : Bool) : Except Err Ident :=
  match raw with
  | .empty => .ok ⟨c.guest, 0, []⟩
  | raw =>
    match parseJwtClaim c t raw with
    | none => .error .invalidToken
    | some cl =>
      if isCheckExpire && decide (srvNow t > cl.exp) then .error .invalidToken
      else .ok cl

def parseRefreshJwtClaim (c : Cfg) (t : Int) (raw : Raw) : Option (Ident × Bytes) := do
  let tok ← parseJwt c.vRefresh t raw
  let cli ← claimString tok.cli
  let sub ← claimString tok.sub
  let exp ← claimInt tok.exp
  let typ ← claimString tok.typ
  pure (⟨sub, exp, cli⟩, typ)

def verifyRefreshJwt (c : Cfg) (t : Int) (raw : Raw) : Except Err Ident :=
  match raw with
  | .empty => .ok ⟨c.guest, 0, []⟩
  | raw =>
    match parseRefreshJwtClaim c t raw with
    | none => .error .invalidToken
    | some (cl, typ) =>
      if srvNow t > cl.exp then .error .invalidToken
      else if typ ≠ c.refreshType then .error .invalidToken
      else .ok cl

structure EmailClaim where
  id : Ident
  eml : Bytes
  ctx : Bytes
  deriving DecidableEq, Repr

def parseEmailJwtClaim (c : Cfg) (t : Int) (raw : Raw) : Option EmailClaim := do
  let tok ← parseJwt c.vEmail t raw
  let cli ← claimString tok.cli
  let sub ← claimString tok.sub
  let eml ← claimString tok.eml
  let exp ← claimInt tok.exp
  let ctx ← claimString tok.ctx
  pure ⟨⟨sub, exp, cli⟩, eml, ctx⟩

/-- `VerifyEmailJwt(raw, context)`: on success the identity and the e-mail address. -/
def verifyEmailJwt (c : Cfg) (t : Int) (raw : Raw) (context : Bytes) : Except Err (Ident × Bytes) :=
  match raw with
  | .empty => .error .invalidToken
  | raw =>
    match parseEmailJwtClaim c t raw with
    | none => .error .invalidToken
    | some cl =>
      if srvNow t > cl.id.exp then .error .invalidToken
      else if cl.ctx ≠ context then .error .invalidToken
      else .ok (cl.id, cl.eml)

/-! ### token creation

`σ` is the oracle of the signature the library computes (`Token.SignedString`); what is known about it
(it verifies under the signing key; it does not under another key) is stated where it is used. -/

def createToken (c : Cfg) (t : Int) (user cli : Bytes) (σ : Secret → Bool) : Token × Int :=
  let expireTime := toTime4 (srvNow t + toTime4 c.ttlAccess)    -- Time4 arithmetic
  ({ alg := .hs256, hmacOK := σ, cli := .str cli, sub := .str user, exp := .num expireTime false,
     typ := .absent, ctx := .absent, eml := .absent, iat := .absent, nbf := .absent }, expireTime)

def createRefreshToken (c : Cfg) (t : Int) (user cli : Bytes) (σ : Secret → Bool) : Token × Int :=
  let expireTime := toTime4 (srvNow t + toTime4 c.ttlRefresh)
  ({ alg := .hs256, hmacOK := σ, cli := .str cli, sub := .str user, exp := .num expireTime false,
     typ := .str c.refreshType, ctx := .absent, eml := .absent, iat := .absent, nbf := .absent }, expireTime)

def createEmailToken (c : Cfg) (t : Int) (user cli eml context : Bytes) (σ : Secret → Bool) : Token :=
  { alg := .hs256, hmacOK := σ, cli := .str cli, sub := .str user, exp := .num (srvNow t + c.ttlEmail) false,
    typ := .absent, ctx := .str context, eml := .str eml, iat := .absent, nbf := .absent }

/-! ### the Authorization header, the login-required wrapper, Refresh, the info handlers -/

/-- `GetJwt`: the header is trimmed and split at single spaces; the token is the second of exactly two
fields (the first field — the scheme — is not looked at).  `nfields` is the number of fields, `second`
the second one when there are two. -/
def getJwt (nfields : Nat) (second : Raw) : Raw := if nfields = 2 then second else .empty

/-- the user `loginRequiredProcess` / `loginRequiredPathProcess` hands to the handler:
any error of `VerifyJwt(jwt, true)` is replaced by the guest. -/
def authAs (c : Cfg) (t : Int) (nfields : Nat) (second : Raw) : Bytes :=
  match verifyJwt c t (getJwt nfields second) true with
  | .ok id => id.user
  | .error _ => c.guest

/-- `loginRequiredProcess` up to the call of the handler: `isValidHost` is constantly true,
`isValidRemoteAddr` refuses the empty X-Forwarded-For. -/
def loginRequired (c : Cfg) (t : Int) (addrPresent : Bool) (nfields : Nat) (second : Raw) : Except Err Bytes :=
  if !addrPresent then .error .invalidRemoteAddr else .ok (authAs c t nfields second)

structure RefreshOut where
  user : Bytes
  access : Token
  accessExpire : Int
  refresh : Token
  refreshExpire : Int

/-- `Refresh`: header token (not checked for expiry by the server), refresh token of the body. -/
def refresh (c : Cfg) (t : Int) (nfields : Nat) (second : Raw) (paramCli : Bytes) (paramRefresh : Raw)
    (σa σr : Secret → Bool) : Except Err RefreshOut :=
  match verifyJwt c t (getJwt nfields second) false with
  | .error _ => .error .invalidToken
  | .ok a =>
    match verifyRefreshJwt c t paramRefresh with
    | .error _ => .error .invalidToken
    | .ok r =>
      -- diffDiffExpireTS := (refreshExpireTS - jwtExpireTS) - expectedDiffExpireTS
      if (r.exp - a.exp) - c.pairDiff > c.eps || (r.exp - a.exp) - c.pairDiff < -c.eps then .error .invalidToken
      else if r.cli ≠ paramCli && r.cli ≠ a.cli then .error .invalidToken
      else if r.user ≠ a.user then .error .invalidToken
      else
        .ok ⟨r.user, (createToken c t r.user r.cli σa).1, (createToken c t r.user r.cli σa).2,
             (createRefreshToken c t r.user r.cli σr).1, (createRefreshToken c t r.user r.cli σr).2⟩

/-- `GetTokenInfo` behind `LoginRequiredJSON`: the token of the body must be a valid access token of the
authenticated user. -/
def getTokenInfo (c : Cfg) (t : Int) (uuser : Bytes) (body : Raw) : Except Err Ident :=
  match verifyJwt c t body true with
  | .error e => .error e
  | .ok id => if id.user ≠ uuser then .error .invalidUser else .ok id

/-- `GetRefreshTokenInfo`. -/
def getRefreshTokenInfo (c : Cfg) (t : Int) (uuser : Bytes) (body : Raw) : Except Err Ident :=
  match verifyRefreshJwt c t body with
  | .error e => .error e
  | .ok id => if id.user ≠ uuser then .error .invalidToken else .ok id

/-- `userInfoIsValidEmailUser` (used by ChangeEmail with `isAllowSysop = false` and by SetIDEmail /
GetEmailTokenInfo with `true`); `isSysop` is the answer of `bbs.IsSysop(uuserID, …)`, `strGuest` is
`ptttype.STR_GUEST`. -/
def emailUserOK (c : Cfg) (t : Int) (strGuest uuser query : Bytes) (raw : Raw) (context : Bytes)
    (isAllowSysop isSysop : Bool) : Option Bytes :=
  if query = strGuest then none
  else if !(isAllowSysop && isSysop) && uuser ≠ query then none
  else match verifyEmailJwt c t raw context with
    | .error _ => none
    | .ok (id, eml) => if query ≠ id.user then none else some eml

/-- `GetEmailTokenInfo` behind `LoginRequiredJSON` (a route that allows sysops): the context comes from the
request; the gate `userInfoIsValidEmailUser` is asked about the token's own subject. -/
def getEmailTokenInfo (c : Cfg) (t : Int) (strGuest uuser : Bytes) (body : Raw) (context : Bytes) (isSysop : Bool) :
    Except Err (Ident × Bytes) :=
  match verifyEmailJwt c t body context with
  | .error e => .error e
  | .ok (id, eml) =>
    match emailUserOK c t strGuest uuser id.user body context true isSysop with
    | none => .error .invalidToken
    | some _ => .ok (id, eml)

end PttVerif.C16
