import PttVerif.Common
/-
C02 — the specification side: textbook DES (FIPS PUB 46) and traditional crypt(3), written by hand from the
standard, independent of crypt/const.go.  Core Lean only (the driver runs `crypt3` next to the model).

Convention (FIPS): an n-bit block is a `Nat` below 2^n whose bit 1 is the MOST significant one; `fbit n x j` is
bit j (1-based).  A permutation / selection table lists, for each output bit (first entry = output bit 1), the
number of the input bit it copies — exactly as the tables are printed in the standard.
-/
namespace PttVerif.C02.Spec

/-- FIPS bit `j` (1-based, 1 = most significant) of the `n`-bit block `x`. -/
def fbit (n x j : Nat) : Bool := x.testBit (n - j)

/-- apply a FIPS selection table to an `n`-bit block. -/
def permF (tbl : List Nat) (n x : Nat) : Nat :=
  tbl.foldl (fun acc j => 2 * acc + (if fbit n x j then 1 else 0)) 0

def IP : List Nat := [
  58, 50, 42, 34, 26, 18, 10, 2, 60, 52, 44, 36, 28, 20, 12, 4,
  62, 54, 46, 38, 30, 22, 14, 6, 64, 56, 48, 40, 32, 24, 16, 8,
  57, 49, 41, 33, 25, 17, 9, 1, 59, 51, 43, 35, 27, 19, 11, 3,
  61, 53, 45, 37, 29, 21, 13, 5, 63, 55, 47, 39, 31, 23, 15, 7]

def FP : List Nat := [
  40, 8, 48, 16, 56, 24, 64, 32, 39, 7, 47, 15, 55, 23, 63, 31,
  38, 6, 46, 14, 54, 22, 62, 30, 37, 5, 45, 13, 53, 21, 61, 29,
  36, 4, 44, 12, 52, 20, 60, 28, 35, 3, 43, 11, 51, 19, 59, 27,
  34, 2, 42, 10, 50, 18, 58, 26, 33, 1, 41, 9, 49, 17, 57, 25]

def E : List Nat := [
  32, 1, 2, 3, 4, 5, 4, 5, 6, 7, 8, 9, 8, 9, 10, 11, 12, 13, 12, 13, 14, 15, 16, 17,
  16, 17, 18, 19, 20, 21, 20, 21, 22, 23, 24, 25, 24, 25, 26, 27, 28, 29, 28, 29, 30, 31, 32, 1]

def P : List Nat := [
  16, 7, 20, 21, 29, 12, 28, 17, 1, 15, 23, 26, 5, 18, 31, 10,
  2, 8, 24, 14, 32, 27, 3, 9, 19, 13, 30, 6, 22, 11, 4, 25]

def PC1 : List Nat := [
  57, 49, 41, 33, 25, 17, 9, 1, 58, 50, 42, 34, 26, 18, 10, 2, 59, 51, 43, 35, 27, 19, 11, 3, 60, 52, 44, 36,
  63, 55, 47, 39, 31, 23, 15, 7, 62, 54, 46, 38, 30, 22, 14, 6, 61, 53, 45, 37, 29, 21, 13, 5, 28, 20, 12, 4]

def PC2 : List Nat := [
  14, 17, 11, 24, 1, 5, 3, 28, 15, 6, 21, 10, 23, 19, 12, 4, 26, 8, 16, 7, 27, 20, 13, 2,
  41, 52, 31, 37, 47, 55, 30, 40, 51, 45, 33, 48, 44, 49, 39, 56, 34, 53, 46, 42, 50, 36, 29, 32]

/-- number of left shifts of C and D in round 1..16. -/
def shifts : List Nat := [1, 1, 2, 2, 2, 2, 2, 2, 1, 2, 2, 2, 2, 2, 2, 1]

/-- S1..S8, each as printed: 4 rows of 16. -/
def S : List (List Nat) := [
  [14, 4, 13, 1, 2, 15, 11, 8, 3, 10, 6, 12, 5, 9, 0, 7,
   0, 15, 7, 4, 14, 2, 13, 1, 10, 6, 12, 11, 9, 5, 3, 8,
   4, 1, 14, 8, 13, 6, 2, 11, 15, 12, 9, 7, 3, 10, 5, 0,
   15, 12, 8, 2, 4, 9, 1, 7, 5, 11, 3, 14, 10, 0, 6, 13],
  [15, 1, 8, 14, 6, 11, 3, 4, 9, 7, 2, 13, 12, 0, 5, 10,
   3, 13, 4, 7, 15, 2, 8, 14, 12, 0, 1, 10, 6, 9, 11, 5,
   0, 14, 7, 11, 10, 4, 13, 1, 5, 8, 12, 6, 9, 3, 2, 15,
   13, 8, 10, 1, 3, 15, 4, 2, 11, 6, 7, 12, 0, 5, 14, 9],
  [10, 0, 9, 14, 6, 3, 15, 5, 1, 13, 12, 7, 11, 4, 2, 8,
   13, 7, 0, 9, 3, 4, 6, 10, 2, 8, 5, 14, 12, 11, 15, 1,
   13, 6, 4, 9, 8, 15, 3, 0, 11, 1, 2, 12, 5, 10, 14, 7,
   1, 10, 13, 0, 6, 9, 8, 7, 4, 15, 14, 3, 11, 5, 2, 12],
  [7, 13, 14, 3, 0, 6, 9, 10, 1, 2, 8, 5, 11, 12, 4, 15,
   13, 8, 11, 5, 6, 15, 0, 3, 4, 7, 2, 12, 1, 10, 14, 9,
   10, 6, 9, 0, 12, 11, 7, 13, 15, 1, 3, 14, 5, 2, 8, 4,
   3, 15, 0, 6, 10, 1, 13, 8, 9, 4, 5, 11, 12, 7, 2, 14],
  [2, 12, 4, 1, 7, 10, 11, 6, 8, 5, 3, 15, 13, 0, 14, 9,
   14, 11, 2, 12, 4, 7, 13, 1, 5, 0, 15, 10, 3, 9, 8, 6,
   4, 2, 1, 11, 10, 13, 7, 8, 15, 9, 12, 5, 6, 3, 0, 14,
   11, 8, 12, 7, 1, 14, 2, 13, 6, 15, 0, 9, 10, 4, 5, 3],
  [12, 1, 10, 15, 9, 2, 6, 8, 0, 13, 3, 4, 14, 7, 5, 11,
   10, 15, 4, 2, 7, 12, 9, 5, 6, 1, 13, 14, 0, 11, 3, 8,
   9, 14, 15, 5, 2, 8, 12, 3, 7, 0, 4, 10, 1, 13, 11, 6,
   4, 3, 2, 12, 9, 5, 15, 10, 11, 14, 1, 7, 6, 0, 8, 13],
  [4, 11, 2, 14, 15, 0, 8, 13, 3, 12, 9, 7, 5, 10, 6, 1,
   13, 0, 11, 7, 4, 9, 1, 10, 14, 3, 5, 12, 2, 15, 8, 6,
   1, 4, 11, 13, 12, 3, 7, 14, 10, 15, 6, 8, 0, 5, 9, 2,
   6, 11, 13, 8, 1, 4, 10, 7, 9, 5, 0, 15, 14, 2, 3, 12],
  [13, 2, 8, 4, 6, 15, 11, 1, 10, 9, 3, 14, 5, 0, 12, 7,
   1, 15, 13, 8, 10, 3, 7, 4, 12, 5, 6, 11, 0, 14, 9, 2,
   7, 11, 4, 1, 9, 12, 14, 2, 0, 6, 10, 13, 15, 3, 5, 8,
   2, 1, 14, 7, 4, 10, 8, 13, 15, 12, 9, 0, 3, 5, 6, 11]]

/-- `S_{b+1}` on the six bits `B = b1…b6` (b1 most significant): row `b1 b6`, column `b2 b3 b4 b5`. -/
def sbox (b B : Nat) : Nat :=
  let row := 2 * (B / 32 % 2) + B % 2
  let col := B / 2 % 16
  (S.getD b []).getD (16 * row + col) 0

/-- all eight S-boxes on a 48-bit block: block `B_{b+1}` is bits 6b+1 … 6b+6, its 4-bit output is bits
4b+1 … 4b+4 of the 32-bit result. -/
def sboxes (x : Nat) : Nat :=
  (List.range 8).foldl (fun acc b => 16 * acc + sbox b (x / 2 ^ (6 * (7 - b)) % 64)) 0

/-- the cipher function `f(R, K) = P(S(E(R) ⊕ K))` with the expansion perturbed by the 12 salt bits as
crypt(3) defines it: for every set bit `i` (0 ≤ i < 12) of `salt`, bits `i+1` and `i+25` of `E(R)` are swapped.
`saltMask` holds salt bit `i` at FIPS position `i+25` of a 48-bit block. -/
def saltE (saltMask R : Nat) : Nat :=
  let e := permF E 32 R
  let d := (e ^^^ (e >>> 24)) &&& saltMask      -- bit i+25 of d: E-bits i+1 and i+25 differ and are to be swapped
  e ^^^ d ^^^ (d <<< 24)

def f (saltMask R K : Nat) : Nat := permF P 32 (sboxes (saltE saltMask R ^^^ K))

/-- the sixteen 48-bit round keys of the 64-bit key block. -/
def rotl28 (x n : Nat) : Nat := ((x <<< n) ||| (x >>> (28 - n))) % 268435456

def keyScheduleAux : List Nat → Nat → Nat → List Nat
  | [], _, _ => []
  | n :: ns, c, d =>
    let c := rotl28 c n
    let d := rotl28 d n
    permF PC2 56 (c * 268435456 + d) :: keyScheduleAux ns c d

def keySchedule (key : Nat) : List Nat :=
  let cd := permF PC1 64 key
  keyScheduleAux shifts (cd / 268435456) (cd % 268435456)

/-- the sixteen rounds on `(L, R)`. -/
def rounds (saltMask : Nat) : List Nat → Nat × Nat → Nat × Nat
  | [], lr => lr
  | k :: ks, (l, r) => rounds saltMask ks (r, l ^^^ f saltMask r k)

/-- one (salted) DES encryption of a 64-bit block. -/
def des (saltMask : Nat) (ks : List Nat) (block : Nat) : Nat :=
  let ip := permF IP 64 block
  let (l, r) := rounds saltMask ks (ip / 4294967296, ip % 4294967296)
  permF FP 64 (r * 4294967296 + l)

def iter {α} (g : α → α) : Nat → α → α
  | 0, x => x
  | n + 1, x => iter g n (g x)

/-! ### crypt(3) -/

/-- the 64 characters of the crypt alphabet, value 0 … 63. -/
def alphabet64 : List Nat := [
  46, 47, 48, 49, 50, 51, 52, 53, 54, 55, 56, 57,                                              -- ./0-9
  65, 66, 67, 68, 69, 70, 71, 72, 73, 74, 75, 76, 77, 78, 79, 80, 81, 82, 83, 84, 85, 86, 87, 88, 89, 90,    -- A-Z
  97, 98, 99, 100, 101, 102, 103, 104, 105, 106, 107, 108, 109, 110, 111, 112, 113, 114, 115, 116, 117, 118,
  119, 120, 121, 122]                                                                          -- a-z

/-- the 6-bit value of a salt character, for every 7-bit character the way traditional implementations
(`ascii_to_bin` / `con_salt`) extend it beyond the alphabet: '.'..'9' ↦ c-46, ':'..'Z' ↦ c-53, '['..'z' ↦ c-59,
anything else 0.  On the alphabet: '.'=0, '/'=1, '0'..'9'=2..11, 'A'..'Z'=12..37, 'a'..'z'=38..63. -/
def saltValue (c : Nat) : Nat :=
  if c < 46 then 0 else if c ≤ 57 then c - 46 else if c ≤ 90 then c - 53 else if c ≤ 122 then c - 59 else 0

/-- reverse the low `n` bits of `x`. -/
def revBits : Nat → Nat → Nat
  | 0, _ => 0
  | n + 1, x => (x % 2) * 2 ^ n + revBits n (x / 2)

/-- salt characters to the 48-bit mask used by `saltE`: bit `i` (least significant first) of the first
character's value is salt bit `i`, of the second character's value salt bit `i+6`; salt bit `i` sits at FIPS
position `i+25`, i.e. at weight 2^(23-i). -/
def saltMaskOf (v0 v1 : Nat) : Nat := revBits 6 v0 * 2 ^ 18 + revBits 6 v1 * 2 ^ 12

/-- the DES key of a password: the first eight bytes up to the first NUL, seven low bits each, shifted into
the seven high bits of the key byte (the low bit is the unused parity bit); byte 1 is the most significant. -/
def keyOfBytes (bs : List Nat) : Nat := bs.foldl (fun acc b => 256 * acc + b * 2 % 256) 0

def cstr8 (pw : List Nat) : List Nat :=
  let k := (pw.take 8).takeWhile (· ≠ 0)
  k ++ List.replicate (8 - k.length) 0

/-- the eleven output characters: the 64 result bits followed by two 0 bits, six at a time. -/
def encode64 (v : Nat) : List Nat :=
  (List.range 11).map fun i => alphabet64.getD ((v * 4) / 2 ^ (6 * (10 - i)) % 64) 0

/-- traditional crypt(3): salt characters `c0 c1`, 25 salted DES encryptions starting from the zero block;
the result is the two salt characters, eleven alphabet characters and the terminating NUL. -/
def crypt3 (pw : List Nat) (c0 c1 : Nat) : List Nat :=
  let ks := keySchedule (keyOfBytes (cstr8 pw))
  let m := saltMaskOf (saltValue c0) (saltValue c1)
  [c0, c1] ++ encode64 (iter (des m ks) 25 0) ++ [0]

/-! ### how the implementation (a port of Eric Young's libdes `fcrypt`) lays the textbook objects out in words

libdes keeps FIPS bit `j` of a 32-bit half at word bit `j-1` (least significant first), i.e. bit-reversed with
respect to the convention above, and keeps `L`, `R` rotated left by one bit during the rounds so that the six
bits of every E-block are adjacent.  These definitions say what each table entry *should* be. -/

/-- rotate a 32-bit word left by one. -/
def rotl1 (w : Nat) : Nat := (w <<< 1) % 4294967296 ||| w >>> 31

/-- what `SPtrans[b][x]` has to be: `x` holds the six input bits of `S_{b+1}` least significant first; the 4-bit
S-box output goes to bits 4b+1 … 4b+4, through P, into libdes bit order, rotated left by one. -/
def spEntry (b x : Nat) : Nat :=
  rotl1 (revBits 32 (permF P 32 (sbox b (revBits 6 x) * 2 ^ (4 * (7 - b)))))

/-- the bits of C (tables 0-3) resp. D (tables 4-7), numbered 1 … 28 as in FIPS 46, that the key schedule gathers
into the 6-bit index of `skb[b]` (index bit 0 first).  PC-2 never selects C9, C18, C22, C25, D7, D10, D15, D26;
those are the gaps. -/
def skbPos : List (List Nat) := [
  [1, 2, 3, 4, 5, 6], [7, 8, 10, 11, 12, 13], [14, 15, 16, 17, 19, 20], [21, 23, 24, 26, 27, 28],
  [1, 2, 3, 4, 5, 6], [8, 9, 11, 12, 13, 14], [16, 17, 18, 19, 20, 21], [22, 23, 24, 25, 27, 28]]

/-- the 56-bit block C‖D in which exactly the bits `skbPos[b]` of its half are set as the index `x` says. -/
def cdOf (b x : Nat) : Nat :=
  ((skbPos.getD b []).zipIdx).foldl
    (fun acc (pi : Nat × Nat) => acc + (if x.testBit pi.2 then 2 ^ (56 - (pi.1 + 28 * (b / 4))) else 0)) 0

/-- a 24-bit half of a round key (four 6-bit blocks) as a libdes word: block `c` goes to byte `[0,2,1,3][c]`,
first bit of the block least significant. -/
def ksLayout (k24 : Nat) : Nat :=
  revBits 6 (k24 / 2 ^ 18 % 64) + revBits 6 (k24 / 2 ^ 12 % 64) * 2 ^ 16 +
    revBits 6 (k24 / 2 ^ 6 % 64) * 2 ^ 8 + revBits 6 (k24 % 64) * 2 ^ 24

/-- what `skb[b][x]` has to be: PC-2 applied to `cdOf b x`, the half of the round key that C resp. D feeds. -/
def skbEntry (b x : Nat) : Nat :=
  let k := permF PC2 56 (cdOf b x)
  ksLayout (if b < 4 then k / 2 ^ 24 else k % 2 ^ 24)

end PttVerif.C02.Spec
