import PttVerif.Common
import PttVerif.Gen.Money
import PttVerif.Gen.Reg
/-
C20 — model of the user balance:
  cache/cache_money.go : SetUMoney, DeUMoney, MoneyOf
  cache/passwd.go      : passwdUpdateMoney (open .PASSWDS write-only, Seek, BinaryWrite little-endian int32)
  ptttype/types.go     : UID.ToUIDInStore  (`UIDInStore(u - 1)`, int32)

State: the SHM array `Shm.Shm.Money` (`[MAX_USERS]int32`) and the bytes of `.PASSWDS` (`none`: the file cannot
be opened).  `UID`, `UIDInStore` and the amounts are Go `int32`s: they are `Int`s here and every place where Go
wraps is an explicit `wrap32`.  The slot guards, the record stride and the offset that is written are the ones
the translator read from the source (`Gen/Money.lean`), not constants of this file.
-/
namespace PttVerif.C20
open PttVerif

def MAX : Nat := Gen.Money.maxUsers
/-- the constant that multiplies the slot index in the `Seek` argument of `passwdUpdateMoney`. -/
def SZ : Nat := Gen.Money.stride
/-- the offset of the field named in `unsafe.Offsetof(ptttype.USEREC_RAW.<Field>)` in `passwdUpdateMoney`. -/
def OFF : Nat := Gen.Money.writtenOffset

/-! ### int32 -/

/-- Go's conversion to `int32` / the result of an `int32` operation whose exact value is `i`.
(`Nat` comparisons and constructor-level `Int`s: see the kernel note in CONTRIBUTING.md.) -/
def wrap32 (i : Int) : Int :=
  let m := (i % 4294967296).toNat
  if m < 2147483648 then Int.ofNat m else Int.negSucc (4294967295 - m)

def Int32 (i : Int) : Prop := -2147483648 ≤ i ∧ i ≤ 2147483647

instance (i : Int) : Decidable (Int32 i) := by unfold Int32; exact inferInstance

/-- `binary.Write(w, binary.LittleEndian, &v)` for `v int32`. -/
def le32 (v : Int) : List Nat :=
  let u := (v % 4294967296).toNat
  [u % 256, u / 256 % 256, u / 65536 % 256, u / 16777216 % 256]

/-- the little-endian int32 held in exactly four bytes. -/
def dec32? : List Nat → Option Int
  | [a, b, c, d] => some (wrap32 (Int.ofNat (a + 256 * b + 65536 * c + 16777216 * d)))
  | _ => none

/-! ### state -/

structure State where
  shm : List Int
  file : Option (List Nat)
  deriving Repr, DecidableEq

inductive Err where
  | none        -- err == nil
  | invalidUID  -- cache.ErrInvalidUID
  | invalidUserID -- ptttype.ErrInvalidUserID
  | io          -- an error from os (open, seek)
  deriving DecidableEq, Repr, Inhabited

/-- one comparison of a slot guard (codes as in `Gen/Money.lean`). -/
def cmpOp (code : Nat) (a b : Int) : Bool :=
  match code with
  | 0 => a < b
  | 1 => a ≤ b
  | 2 => a > b
  | 3 => a ≥ b
  | 4 => a == b
  | 5 => a != b
  | _ => false

/-- `if uid OP k || uid OP k … { return …ErrInvalidUID }` -/
def rejects (g : List (Nat × Int)) (uid : Int) : Bool := g.any fun c => cmpOp c.1 uid c.2

/-- `uid.ToUIDInStore()`. -/
def toIdx (uid : Int) : Int := wrap32 (uid - 1)

/-- `Shm.Shm.Money[uidInCache]` (read). -/
def moneyOf (s : State) (uid : Int) : M Int :=
  let i := toIdx uid
  if i < 0 then .error .panic else idx s.shm i.toNat

/-- `pwrite`-like effect of `Seek(off, 0)` followed by one `Write(bs)`: a seek past the end leaves a hole of
zero bytes, a write that runs over the end lengthens the file. -/
def writeAt (f : List Nat) (off : Nat) (bs : List Nat) : List Nat :=
  if off ≤ f.length then f.take off ++ bs ++ f.drop (off + bs.length)
  else f ++ List.replicate (off - f.length) 0 ++ bs

/-- `int64(USEREC_RAW_SZ*uintptr(uidInCache)+offsetMoney)`: `uintptr(int32)` sign-extends, the product and the
sum wrap at 2^64, the conversion to int64 reinterprets.  `none` = negative (Seek fails with EINVAL). -/
def seekOffset (i : Int) : Option Nat :=
  let ui := (i % 18446744073709551616).toNat
  let o := (SZ * ui + OFF) % 18446744073709551616
  if o < 9223372036854775808 then some o else none

/-- `passwdUpdateMoney`. -/
def passwdUpdateMoney (s : State) (uid money : Int) : State × Err :=
  if rejects Gen.Money.passwdGuard uid then (s, .invalidUID)
  else match s.file with
    | none => (s, .io)                                  -- os.OpenFile(FN_PASSWD, O_WRONLY) fails
    | some f =>
        match seekOffset (toIdx uid) with
        | none => (s, .io)
        | some off => ({ s with file := some (writeAt f off (le32 money)) }, .none)

/-- `SetUMoney`.  The SHM store `Shm.Shm.Money[uidInCache] = money` panics outside the array. -/
def setUMoney (s : State) (uid money : Int) : State × M (Int × Err) :=
  if rejects Gen.Money.setGuard uid then (s, .ok (-1, .invalidUID))
  else
    let i := toIdx uid
    if i < 0 ∨ s.shm.length ≤ i.toNat then (s, .error .panic)
    else
      let s1 : State := { s with shm := s.shm.set i.toNat money }
      let r := passwdUpdateMoney s1 uid money
      if r.2 ≠ .none then (r.1, .ok (money, r.2))
      else (r.1, (moneyOf r.1 uid).map fun v => (v, Err.none))

/-- `DeUMoney`: `-money` and `currentMoney+money` are int32 operations. -/
def deUMoney (s : State) (uid money : Int) : State × M (Int × Err) :=
  if rejects Gen.Money.deGuard uid then (s, .ok (-1, .invalidUID))
  else match moneyOf s uid with
    | .error e => (s, .error e)
    | .ok cur =>
        if money < 0 ∧ cur < wrap32 (-money) then setUMoney s uid 0
        else setUMoney s uid (wrap32 (cur + money))

/-! ### the whole-record path: ptt/passwd.go passwdSyncQuery / passwdSyncUpdate over cmbbs.PasswdQuery / PasswdUpdate

A `UserecRaw` value held by a caller is modelled by its serialisation (`binary.Write`, little endian): a list of
`recSize` bytes.  `encoding/binary` reads a `bool` as `byte != 0` and writes it as 0/1, so a record that was read
from the file carries normalised bytes at the `bool` offsets. -/

def RSZ : Nat := Gen.Money.recSize
def MOFF : Nat := Gen.Money.moneyOffset
def LOFF : Nat := Gen.Money.userLevelOffset

/-- `UID.IsValid()`: `u >= 1 && u <= MAX_USERS`. -/
def uidIsValid (uid : Int) : Bool := decide (1 ≤ uid) && decide (uid ≤ (MAX : Int))

/-- bytes → struct → bytes. -/
def normRec (bs : List Nat) : List Nat :=
  Gen.Money.boolOffsets.foldl (fun acc o => match acc[o]? with
    | some b => acc.set o (if b = 0 then 0 else 1)
    | none => acc) bs

/-- `cmbbs.PasswdQuery`: the record of slot `uid` as a struct value, or the error. -/
def passwdQuery (s : State) (uid : Int) : Except Err (List Nat) :=
  if !uidIsValid uid then .error .invalidUserID
  else match s.file with
    | none => .error .io                                   -- os.Open fails
    | some f =>
        let i := toIdx uid
        if i < 0 then .error .io                             -- Seek to a negative offset
        else
          let off := RSZ * i.toNat
          if off + RSZ ≤ f.length then .ok (normRec ((f.drop off).take RSZ))
          else .error .io                                    -- io.EOF / io.ErrUnexpectedEOF from binary.Read

/-- `rec.Money = v` on the serialised record. -/
def recSetMoney (rec : List Nat) (v : Int) : List Nat := writeAt rec MOFF (le32 v)

/-- `rec.UserLevel = perm` (a uint32) on the serialised record. -/
def recSetLevel (rec : List Nat) (perm : Nat) : List Nat := writeAt rec LOFF (le32 (Int.ofNat perm))

/-- `passwdSyncQuery`: `PasswdQuery`, then `user.Money = cache.MoneyOf(uid)`. -/
def passwdSyncQuery (s : State) (uid : Int) : M (Except Err (List Nat)) :=
  match passwdQuery s uid with
  | .error e => .ok (.error e)
  | .ok rec => do
      let v ← moneyOf s uid
      pure (.ok (recSetMoney rec v))

/-- `cmbbs.PasswdUpdate`: the whole record at `USEREC_RAW_SZ * (uid-1)`. -/
def passwdUpdate (s : State) (uid : Int) (rec : List Nat) : State × Err :=
  if !uidIsValid uid then (s, .invalidUID)
  else match s.file with
    | none => (s, .io)
    | some f =>
        let i := toIdx uid
        if i < 0 then (s, .io)
        else ({ s with file := some (writeAt f (RSZ * i.toNat) rec) }, .none)

/-- `passwdSyncUpdate`: validity, `user.Money = cache.MoneyOf(uid)` on the caller's record, `PasswdUpdate` of
that record. -/
def passwdSyncUpdate (s : State) (uid : Int) (rec : List Nat) : State × M Err :=
  if !uidIsValid uid then (s, .ok .invalidUID)
  else match moneyOf s uid with
    | .error e => (s, .error e)
    | .ok v =>
        let r := passwdUpdate s uid (recSetMoney rec v)
        (r.1, .ok r.2)

/-- `ptt.SetUserPerm(_, uid, rec, perm)`: `rec.UserLevel = perm`, `passwdSyncUpdate`; answers `perm` or
`PERM_INVALID` (0) with the error. -/
def setUserPerm (s : State) (uid : Int) (rec : List Nat) (perm : Nat) : State × M (Int × Err) :=
  let r := passwdSyncUpdate s uid (recSetLevel rec perm)
  match r.2 with
  | .error e => (r.1, .error e)
  | .ok .none => (r.1, .ok (Int.ofNat perm, .none))
  | .ok e => (r.1, .ok (0, e))

/-- `cache.SetUserID(uid, userID)` (registration, rename / case correction, re-assignment of a slot) as far as the
balances go: it re-links the slot in the user hash and stores the id in `Shm.Userid`; `Shm.Money` and `.PASSWDS` are
not touched.  (The id itself lives in the driver's copy of `Shm.Userid`.) -/
def setUserID (s : State) (uid : Int) : State × Err :=
  if uid ≤ 0 ∨ uid > (MAX : Int) then (s, .invalidUID) else (s, .none)

/-- a field writer of cmbbs (`PasswdUpdatePasswd`, `PasswdUpdateEmail`, … behind `ptt.ChangePasswd`,
`ptt.ChangeEmail`): validity, open, Seek to `USEREC_RAW_SZ*(uid-1) + Offsetof(field)`, write the field's bytes.
Nothing is read from the record and nothing else is written. -/
def fieldWrite (s : State) (uid : Int) (off : Nat) (bs : List Nat) : State × Err :=
  if !uidIsValid uid then (s, .invalidUID)
  else match s.file with
    | none => (s, .io)
    | some f =>
        let i := toIdx uid
        if i < 0 then (s, .io)
        else ({ s with file := some (writeAt f (RSZ * i.toNat + off) bs) }, .none)

/-- `ptt.killUser(uid, _)` as far as `.PASSWDS` and SHM go (the account-expiry path: `tryCleanUser` →
`checkAndExpireAccount` → `killUser`): `passwdSyncUpdate(uid, &UserecRaw{})` — the record is cleared but its Money
is first taken from SHM, which is not touched.  Which accounts expire is a matter of the clock and of the account
model (C03); the harness observes it. -/
def killUser (s : State) (uid : Int) : State × M Err :=
  passwdSyncUpdate s uid (List.replicate RSZ 0)

/-! ### registration: the last steps of `ptt.SetupNewUser` (after the slot `uid` was chosen and `SetUserID` done)

The ORDER of the calls is the one the translator read from the source (`Gen/Reg.lean`); `user.Money` is a field
of the caller's record, so the assignment `user.Money = MoneyOf(uid)` inside `passwdSyncUpdate` is visible to a
`SetUMoney(uid, user.Money)` that comes after it. -/

/-- the calls of `SetupNewUser` that follow `cache.SetUserID`. -/
def regOrder : List String := (Gen.Reg.setupNewUserCalls.dropWhile (· != "setUserID")).drop 1

/-- run the calls in order; `m` is the current `user.Money`, `rec` the serialised `*user`. -/
def regTail : List String → State → Int → List Nat → Int → State × M Err
  | [], s, _, _, _ => (s, .ok .none)
  | c :: cs, s, uid, rec, m =>
      if c = "setMoney" then
        -- `_, _ = cache.SetUMoney(uid, user.Money)`: value and error dropped
        let r := setUMoney s uid m
        match r.2 with
        | .error e => (r.1, .error e)
        | .ok _ => regTail cs r.1 uid rec m
      else if c = "writeRecord" then
        -- `err = passwdSyncUpdate(uid, user); if err != nil { return err }`
        if !uidIsValid uid then (s, .ok .invalidUID)
        else match moneyOf s uid with
          | .error e => (s, .error e)
          | .ok v =>
              let r := passwdUpdate s uid (recSetMoney rec v)
              if r.2 ≠ .none then (r.1, .ok r.2) else regTail cs r.1 uid (recSetMoney rec v) v
      else regTail cs s uid rec m        -- calls that touch neither the balance nor .PASSWDS

/-! ### operations and histories -/

inductive Op where
  | set (uid money : Int)
  | de (uid money : Int)
  | get (uid : Int)
  /-- `ptt.SetUserPerm` with the caller's (possibly stale) record: a whole-record write. -/
  | sync (uid : Int) (rec : List Nat) (perm : Nat)
  /-- `passwdSyncQuery` (through `ptt.GetUser`): a read. -/
  | load (uid : Int)
  /-- the money / record part of an accepted `ptt.SetupNewUser` that was given slot `uid`: `rec` is the
  registration record, `money` its `Money`. -/
  | newuser (uid : Int) (rec : List Nat) (money : Int)
  deriving Repr, DecidableEq

/-- what an operation answers: `(value, error class)` or a Go panic. -/
abbrev Ans := M (Int × Err)

def step (s : State) : Op → State × Ans
  | .set u m => setUMoney s u m
  | .de u m => deUMoney s u m
  | .get u => (s, (moneyOf s u).map fun v => (v, Err.none))
  | .sync u rec perm => setUserPerm s u rec perm
  | .load u =>
      -- state unchanged; the answer is the `Money` of the record `passwdSyncQuery` returns (it was just assigned
      -- from `MoneyOf`), or `0` with the error class when there is no record.  The record itself: `passwdSyncQuery`.
      (s, match passwdQuery s u with
          | .error e => .ok (0, e)
          | .ok _ => (moneyOf s u).map fun v => (v, Err.none))
  | .newuser u rec m =>
      let r := regTail regOrder s u rec m
      (r.1, r.2.map fun e => ((0 : Int), e))        -- `SetupNewUser` answers an error only

def run (s : State) : List Op → State
  | [] => s
  | o :: os => run (step s o).1 os

/-! ### the abstract account table (plain integer arithmetic, no machine words, no files) -/

def Valid (u : Int) : Prop := 1 ≤ u ∧ u ≤ (MAX : Int)

instance (u : Int) : Decidable (Valid u) := by unfold Valid; exact inferInstance

abbrev Bal := Int → Int

def upd (b : Bal) (u v : Int) : Bal := fun w => if w = u then v else b w

/-- credit / debit on the abstract table: a debit larger than the balance leaves 0. -/
def deNew (cur m : Int) : Int := if m < 0 ∧ cur < -m then 0 else cur + m

def specStep (b : Bal) : Op → Bal
  | .set u m => if Valid u then upd b u m else b
  | .de u m => if Valid u then upd b u (deNew (b u) m) else b
  | .get _ => b
  | .sync _ _ _ => b
  | .load _ => b
  | .newuser u _ m => if Valid u then upd b u m else b    -- the new account starts with its own balance

def specRun (b : Bal) : List Op → Bal
  | [] => b
  | o :: os => specRun (specStep b o) os

/-- "the arithmetic of this operation stays inside int32" on the abstract table: amounts are int32 values,
the negation `-money` of a debit exists, and the sum that is stored exists. -/
def NoOverflow (b : Bal) : Op → Prop
  | .set _ m => Int32 m
  | .de u m => Int32 m ∧ (Valid u → m ≠ -2147483648 ∧ Int32 (deNew (b u) m))
  | .get _ => True
  | .sync _ rec perm => rec.length = Gen.Money.recSize ∧ perm < 4294967296   -- a UserecRaw value and a uint32
  | .load _ => True
  | .newuser _ rec m => Int32 m ∧ rec.length = Gen.Money.recSize

/-- operations that write a whole record. -/
def recWrite : Op → Bool
  | .sync _ _ _ => true
  | .newuser _ _ _ => true
  | _ => false

/-- the record handed to a whole-record write is a serialised `UserecRaw` (always `recSize` bytes in Go). -/
def RecOK : Op → Prop
  | .sync _ rec _ => rec.length = Gen.Money.recSize
  | .newuser _ rec _ => rec.length = Gen.Money.recSize
  | _ => True

def NoOverflowRun (b : Bal) : List Op → Prop
  | [] => True
  | o :: os => NoOverflow b o ∧ NoOverflowRun (specStep b o) os

/-! ### reading a state (spec side: the true layout of `UserecRaw`, not the offset the code happens to use) -/

/-- `Shm.Shm.Money[u-1]` for a 1-based slot. -/
def shmAt (s : State) (u : Int) : Option Int := s.shm[(u - 1).toNat]?

/-- the four bytes of the `Money` field of record `u` of `.PASSWDS`. -/
def moneyBytes (f : List Nat) (u : Int) : List Nat :=
  (f.drop (Gen.Money.recSize * (u - 1).toNat + Gen.Money.moneyOffset)).take 4

/-- the balance stored in record `u` of `.PASSWDS`. -/
def diskAt (s : State) (u : Int) : Option Int := s.file.bind fun f => dec32? (moneyBytes f u)

/-- record `u` of `.PASSWDS` (all `recSize` bytes). -/
def record (f : List Nat) (u : Int) : List Nat :=
  (f.drop (Gen.Money.recSize * (u - 1).toNat)).take Gen.Money.recSize

/-- the state the property talks about: the SHM array has its `MAX_USERS` entries and `.PASSWDS` holds exactly
`MAX_USERS` records. -/
def WF (s : State) : Prop :=
  s.shm.length = MAX ∧ ∃ f, s.file = some f ∧ f.length = Gen.Money.recSize * MAX

/-! ### the loader: cache.LoadUHash → fillUHash → userecRawAddToUHash (the part that fills Userid / Money)

This is where "SHM = .PASSWDS" comes from at start-up (`isOnfly = false`, fresh segment) and after an on-the-fly
reload (`isOnfly = true`: only slots whose owner changed are refilled).  Which SHM arrays the fill block assigns,
unconditionally and under `if ptttype.USE_COOLDOWN`, is read from the source (`Gen.Money.loaderCopies…`); the site
configuration value `USE_COOLDOWN` is the parameter `cd`.  The user hash itself (HashHead / NextInHash) is C04's. -/

def IDOFF : Nat := Gen.Money.userIDOffset
def IDSZ : Nat := Gen.Money.userIDSize
def PRE : Nat := Gen.Money.preAllocatedUsers

def isAlphaB (c : Nat) : Bool := (65 ≤ c && c ≤ 90) || (97 ≤ c && c ≤ 122)
def isAlnumB (c : Nat) : Bool := isAlphaB c || (48 ≤ c && c ≤ 57)

/-- `UserID_t.IsValid`: C length 2..IDLEN, a letter first, letters and digits only. -/
def idIsValid (id : List Nat) : Bool :=
  let c := cstr id
  2 ≤ c.length && c.length ≤ IDSZ - 1 && (match id with | a :: _ => isAlphaB a | [] => false) && c.all isAlnumB

/-- the `UserID` field of record `i` (0-based) of the file. -/
def fileId (f : List Nat) (i : Nat) : List Nat := (f.drop (RSZ * i + IDOFF)).take IDSZ

/-- the `Money` field of record `i` (0-based) of the file (`0` only if the record is not complete: never asked). -/
def fileMoney (f : List Nat) (i : Nat) : Int :=
  match dec32? ((f.drop (RSZ * i + MOFF)).take 4) with
  | some v => v
  | none => 0

/-- is the SHM array `field` assigned by the fill block under configuration `cd`? -/
def loaderAssigns (cd : Bool) (field : String) : Bool :=
  Gen.Money.loaderCopies.contains field || (cd && Gen.Money.loaderCopiesUnderCooldown.contains field)

structure LState where
  ids : List (List Nat)     -- Shm.Shm.Userid
  shm : List Int            -- Shm.Shm.Money
  cnt : Nat                 -- uHashLoaderInvalidUserID
  deriving Repr

/-- `userecRawAddToUHash(i, record i, isOnfly)` as far as Userid / Money go. -/
def loadRec (onfly cd : Bool) (f : List Nat) (st : LState) (i : Nat) : LState :=
  let uid := fileId f i
  let bad := !idIsValid uid
  let cnt := if bad then st.cnt + 1 else st.cnt
  if bad && decide (PRE < cnt) then { st with cnt := cnt }            -- "preserve few slot for new register"
  else if !onfly || (cstr uid != cstr (st.ids.getD i [])) then
    { ids := if loaderAssigns cd "Userid" then st.ids.set i uid else st.ids,
      shm := if loaderAssigns cd "Money" then st.shm.set i (fileMoney f i) else st.shm,
      cnt := cnt }
  else { st with cnt := cnt }

/-- `cache.LoadUHash` (after `Shm.Reset()` when `onfly = false`): every complete record in file order; a record
beyond the SHM arrays panics; a torn tail is an error after the complete records were loaded. -/
def loadUHash (onfly cd : Bool) (ids : List (List Nat)) (s : State) : (List (List Nat) × State) × M Err :=
  match s.file with
  | none => ((ids, s), .ok .io)
  | some f =>
      let n := f.length / RSZ
      let st := (List.range (min n MAX)).foldl (loadRec onfly cd f) { ids := ids, shm := s.shm, cnt := 0 }
      let res := (st.ids, { s with shm := st.shm })
      if MAX < n then (res, .error .panic)
      else if f.length % RSZ ≠ 0 then (res, .ok .io)
      else (res, .ok .none)

/-- `Shm.Shm.Number`, `Shm.Shm.Loaded`. -/
structure HashMeta where
  number : Nat
  loaded : Nat
  deriving Repr, DecidableEq

/-- `cache.LoadUHash` as called: a segment that was never loaded (`number == 0 && loaded == 0`) is filled from
scratch, any other one on the fly; `Number` / `Loaded` are updated only when the fill succeeded. -/
def loadUHashTop (cd : Bool) (m : HashMeta) (ids : List (List Nat)) (s : State) :
    (HashMeta × List (List Nat) × State) × M Err :=
  let fresh := m.number == 0 && m.loaded == 0
  let r := loadUHash (!fresh) cd ids s
  match r.2 with
  | .ok .none =>
      let n := match s.file with
        | some f => f.length / RSZ
        | none => 0
      (({ number := n, loaded := if fresh then 1 else m.loaded }, r.1.1, r.1.2), r.2)
  | _ => ((m, r.1.1, r.1.2), r.2)

/-- a fresh start: `Shm.Reset()` (all Userid empty, all Money 0), then `LoadUHash`. -/
def freshLoad (cd : Bool) (s : State) : (List (List Nat) × State) × M Err :=
  loadUHash false cd (List.replicate MAX (List.replicate IDSZ 0)) { s with shm := List.replicate MAX 0 }

end PttVerif.C20
