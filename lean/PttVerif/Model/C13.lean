import PttVerif.Common
import PttVerif.Gen.Aid
/-
C13 — model of the article-id codec:
  ptttype/types.go : Filename_t.Type/CreateTime/Postfix/ToAidu, Aidu.Type/Time/Postfix/ToFN,
                     Aidu.ToAidc, Aidc.ToAidu
  bbs/article_id.go: ToArticleID, ArticleID.ToRaw
and of the places that hand a name / id to a client (designation layer, further down):
  ptt/bbs.go       : GetWebURL, the url line of DoPostArticle, the cross-post reference
  bbs/article_summary.go: NewArticleSummaryFromRaw (id / deleted / file name of an entry)
Bytes are `Nat`s below 256; `Aidu` is a Go uint64, modelled as a `Nat` reduced mod 2^64 where Go wraps.
-/
namespace PttVerif.C13
open PttVerif

def alphabet : List Nat := Gen.Aid.encodeAidc
def decodeTable : List Nat := Gen.Aid.decodeAidcTable
def FNLEN : Nat := Gen.Aid.FNLEN

def two64 : Nat := 18446744073709551616

/-! ### strconv.Atoi / ParseUint / fmt %d %03X on the byte level -/

def isDigit (c : Nat) : Bool := 48 ≤ c && c ≤ 57

/-- value of a string of decimal digits (most significant first); `none` on a non-digit. -/
def decVal : List Nat → Nat → Option Nat
  | [], acc => some acc
  | c :: cs, acc => if isDigit c then decVal cs (acc * 10 + (c - 48)) else none

/-- `strconv.Atoi` on a byte string short enough not to overflow int64 (here: 10 bytes):
optional sign, then one or more digits. -/
def atoi (s : List Nat) : Option Int :=
  match s with
  | [] => none
  | 43 :: rest => if rest.isEmpty then none else (decVal rest 0).map Int.ofNat   -- '+'
  | 45 :: rest => if rest.isEmpty then none else (decVal rest 0).map (fun n => - Int.ofNat n) -- '-'
  | _ => (decVal s 0).map Int.ofNat

def hexVal (c : Nat) : Option Nat :=
  if 48 ≤ c ∧ c ≤ 57 then some (c - 48)
  else if 97 ≤ c ∧ c ≤ 102 then some (c - 97 + 10)
  else if 65 ≤ c ∧ c ≤ 70 then some (c - 65 + 10)
  else none

/-- `strconv.ParseUint(s, 16, 12)` on exactly three bytes. -/
def parseHex3 (s : List Nat) : Option Nat :=
  match s with
  | [a, b, c] => do
      let x ← hexVal a
      let y ← hexVal b
      let z ← hexVal c
      pure (x * 256 + y * 16 + z)
  | _ => none

/-- decimal digits of a natural number, no leading zeros (`%d` of a non-negative value). -/
def natToDec (n : Nat) : List Nat :=
  if h : n < 10 then [n + 48] else natToDec (n / 10) ++ [n % 10 + 48]
decreasing_by omega

def intToDec (i : Int) : List Nat :=
  if i < 0 then 45 :: natToDec i.natAbs else natToDec i.natAbs

def upHex (d : Nat) : Nat := if d < 10 then d + 48 else d - 10 + 65

/-- `%03X` of a value below 4096. -/
def hex3 (p : Nat) : List Nat := [upHex (p / 256 % 16), upHex (p / 16 % 16), upHex (p % 16)]

/-- Go `types.Time4(int)`: wrap to int32.
(Written with `Nat` comparisons and constructor-level `Int`s on purpose: an `Int` comparison against a
large literal makes the kernel unfold `Nat.sub` on that literal when it has to evaluate the test.) -/
def toInt32 (i : Int) : Int :=
  let m := (i % 4294967296).toNat
  if m < 2147483648 then Int.ofNat m else Int.negSucc (4294967295 - m)

/-- Go `uint64(int32)`: sign extension to 64 bits. -/
def int32ToU64 : Int → Nat
  | Int.ofNat n => n % 18446744073709551616
  | Int.negSucc n => 18446744073709551615 - n % 18446744073709551616

/-! ### Filename_t (a [FNLEN]byte) -/

def fnType (f : List Nat) : Nat := if f[0]? = some 77 then 0 else 1    -- 'M' ↦ RECORD_TYPE_M

def fnCreateTime (f : List Nat) : Option Int := (atoi ((f.take 12).drop 2)).map toInt32

/-- `Filename_t.ToAidu`. The receiver is a 28-byte array, so no index can fault. -/
def fnToAidu (f : List Nat) : Nat :=
  if f[1]? ≠ some 46 then 0
  else if f[12]? ≠ some 46 then 0
  else if f[14]? ≠ some 46 then 0
  else
    let ty := fnType f
    let t : Int := (fnCreateTime f).getD 0         -- `createTime, _ := f.CreateTime()`
    match parseHex3 ((f.take 18).drop 15) with
    | none => 0
    | some p => (((ty % 16) * 2 ^ 44) % two64 + (int32ToU64 t * 2 ^ 12) % two64 + p) % two64

def aiduType (a : Nat) : Nat := if (a / 2 ^ 44) % 16 = 0 then 0 else 1
def aiduTime (a : Nat) : Int := toInt32 (Int.ofNat ((a / 2 ^ 12) % 2 ^ 32))
def aiduPostfix (a : Nat) : Nat := a % 2 ^ 16 % 4096

/-- `Aidu.ToFN`: `fmt.Sprintf("%v.%d.A.%03X", type, time, postfix)` copied into a zeroed [FNLEN]byte. -/
def aiduToFN (a : Nat) : List Nat :=
  let ty := if aiduType a = 0 then 77 else 71
  copyInto FNLEN ([ty, 46] ++ intToDec (aiduTime a) ++ [46, 65, 46] ++ hex3 (aiduPostfix a))

/-! ### Aidu ↔ Aidc -/

/-- the loop of `Aidu.ToAidc`, filling positions 7 … 0. -/
def toAidcAux : Nat → Nat → List Nat → List Nat
  | 0, _, acc => acc
  | k + 1, a, acc => toAidcAux k (a / 64) (alphabet.getD (a % 64) 0 :: acc)

def aiduToAidc (a : Nat) : List Nat := toAidcAux 8 a []

/-- `Aidc.ToAidu` (after the bounds fix): stop at NUL or '@'; a byte outside the table gives 0.
`idx` keeps Go's panic where the table would be indexed out of range. -/
def aidcToAiduAux : List Nat → Nat → M Nat
  | [], acc => .ok acc
  | c :: cs, acc =>
      if c = 0 then .ok acc
      else if c = 64 then .ok acc
      else if c ≥ decodeTable.length then .ok 0
      else do
        let v ← idx decodeTable c
        aidcToAiduAux cs (((acc * 64) % two64) ||| v)

def aidcToAidu (cs : List Nat) : M Nat := aidcToAiduAux cs 0

/-! ### bbs.ArticleID -/

/-- `Filename_t.IsDeleted`: the name starts with the safe-delete mark ".d". -/
def isDeleted (f : List Nat) : Bool := f.take 2 == [46, 100]

/-- the name `bbs.ToArticleID` encodes: a delete-marked entry is read under its original
name `"M." ++ f[2:]` (`Filename_t.Basename`), copied into a fresh [FNLEN]byte. -/
def idName (f : List Nat) : List Nat :=
  if isDeleted f then copyInto FNLEN ([77, 46] ++ f.drop 2) else f

/-- `bbs.ToArticleID`: the C-string reading of the 8 AIDC bytes. -/
def toArticleID (f : List Nat) : List Nat := cstr (aiduToAidc (fnToAidu (idName f)))

/-- `ArticleID.ToRaw`: copy (at most 8 bytes) into an Aidc, decode, render. -/
def articleIDToRaw (a : List Nat) : M (List Nat) := do
  let aidu ← aidcToAidu (copyInto 8 a)
  pure (aiduToFN aidu)

/-! ### the designation layer: where a name / id is handed to a client

  ptt/bbs.go              : GetWebURL, the url line DoPostArticle appends, the `#<aidc>` reference
                            crossPostWriteFile prints
  bbs/article_summary.go  : NewArticleSummaryFromRaw (id, deleted flag, file name of a listing entry;
                            the same function builds the answer of CreateArticle / CrossPost)
and the way back a reader of such a text takes (strip prefix / board / `.html`, or `ArticleID.ToRaw`). -/

/-- ".html" -/
def htmlExt : List Nat := [46, 104, 116, 109, 108]

/-- `types.CstrToString(f.ToAidu().ToAidc()[:])` — the 8 characters GetWebURL (USE_AID_URL) and the
cross-post header print. Unlike `ToArticleID` there is no delete-mark handling here. -/
def aidcText (f : List Nat) : List Nat := cstr (aiduToAidc (fnToAidu f))

/-- `ptt.GetWebURL`: `URL_PREFIX + "/" + folder + "/" + fn + ext`. `board` is the Brdname array,
`f` the record's Filename array. -/
def webURL (useAid : Bool) (pfx board f : List Nat) : List Nat :=
  let folder := cstr board
  let fn := if useAid then aidcText f else cstr f
  let ext := if useAid then [] else htmlExt
  pfx ++ [47] ++ folder ++ [47] ++ fn ++ ext

/-- the line DoPostArticle appends to the article:
`fmt.Sprintf("%s %v\n", STR_URL_DISPLAYNAME_BIG5, url)`. -/
def urlLine (disp url : List Nat) : List Nat := disp ++ [32] ++ url ++ [10]

/-- `strings.CutPrefix`. -/
def stripPrefix : List Nat → List Nat → Option (List Nat)
  | [], s => some s
  | _ :: _, [] => none
  | a :: p, b :: s => if a = b then stripPrefix p s else none

/-- `strings.CutSuffix`. -/
def stripSuffix (x s : List Nat) : Option (List Nat) :=
  (stripPrefix x.reverse s.reverse).map List.reverse

/-- cut at the first '/'. -/
def splitSlash : List Nat → Option (List Nat × List Nat)
  | [] => none
  | c :: cs =>
      if c = 47 then some ([], cs)
      else match splitSlash cs with
        | none => none
        | some (a, b) => some (c :: a, b)

/-- what the reader of an article url does: drop `URL_PREFIX/`, cut the board off at the next '/',
and turn the last path segment into a file name — through `ArticleID.ToRaw` when the url carries the
8-character id, by dropping ".html" (and copying into a Filename_t) otherwise.
`none`: the text is not a url of that shape. -/
def resolveURL (useAid : Bool) (pfx url : List Nat) : M (Option (List Nat × List Nat)) :=
  match stripPrefix (pfx ++ [47]) url with
  | none => pure none
  | some rest =>
    match splitSlash rest with
    | none => pure none
    | some (folder, seg) =>
      if useAid then do
        let f ← articleIDToRaw seg
        pure (some (folder, f))
      else
        match stripSuffix htmlExt seg with
        | none => pure none
        | some n => pure (some (folder, copyInto FNLEN n))

/-- the same for the whole line found in an article file. -/
def resolveLine (useAid : Bool) (disp pfx line : List Nat) : M (Option (List Nat × List Nat)) :=
  match stripPrefix (disp ++ [32]) line with
  | none => pure none
  | some r =>
    match stripSuffix [10] r with
    | none => pure none
    | some url => resolveURL useAid pfx url

/-- what `bbs.NewArticleSummaryFromRaw` reports to identify an index record (listing entry, answer of
CreateArticle / CrossPost): the id, the deleted flag (`FileHeaderRaw.IsDeleted`: name starts with '.'
or owner starts with '-'), the file name as a string. -/
structure Entry where
  id : List Nat
  deleted : Bool
  filename : List Nat
  deriving DecidableEq, Repr

def listEntry (f : List Nat) (owner0 : Nat) : Entry :=
  { id := toArticleID f
    deleted := f[0]? == some 46 || owner0 == 45
    filename := cstr f }

/-! ### which index entry an id addresses

  ptttype/types.go : Filename_t.Eq
  cmsys/record.go  : the confirmation at the end of GetRecord (behind CreateComment, EditArticle, CrossPost,
                     DeleteArticles and the cursor: every entry point that is handed an id)
The search itself (FindRecordStartIdx: an exact hit, or the nearest entry when the name is not in the
index) is modelled under C06; here it is an arbitrary proposal of a position. -/

/-- `Filename_t.Eq`: `types.Cstrcmp(f[2:], f2[2:]) == 0` — the C strings from byte 2 on (creation time
and suffix) are equal; the type letter / delete mark in the first two bytes is not compared. -/
def filenameEq (f g : List Nat) : Bool := cstr (f.drop 2) == cstr (g.drop 2)

/-- the end of `cmsys.GetRecord`: the record at the proposed position is returned only if
`filename.Eq(&fhdr.Filename)`; `eq` is that comparison (the code's is `filenameEq`). -/
def confirmWith (eq : List Nat → List Nat → Bool) (idx : List (List Nat)) (want : List Nat) (pos : Nat) :
    Option Nat :=
  match idx[pos]? with
  | some h => if eq want h then some pos else none
  | none => none

/-- an entry point that is handed an id: decode it (`ArticleID.ToFilename`), let the search propose a
position, confirm. -/
def resolveId (idx : List (List Nat)) (id : List Nat) (propose : List (List Nat) → List Nat → Nat) :
    M (Option Nat) := do
  let f ← articleIDToRaw id
  pure (confirmWith filenameEq idx f (propose idx f))

/-- the last position whose entry `Eq`s the name: what GetRecord answers on an index in time order
(C06, `getRecord_eq_lookup`). -/
def lookupAux : List (List Nat) → List Nat → Nat → Option Nat → Option Nat
  | [], _, _, acc => acc
  | h :: rest, want, i, acc => lookupAux rest want (i + 1) (if filenameEq want h then some i else acc)

def lookupId (idx : List (List Nat)) (id : List Nat) : M (Option Nat) := do
  let f ← articleIDToRaw id
  pure (lookupAux idx f 0 none)

/-! ### the names the property is about -/

/-- fixed-width decimal rendering (most significant first). -/
def digitsFixed : Nat → Nat → List Nat
  | 0, _ => []
  | w + 1, n => digitsFixed w (n / 10) ++ [n % 10 + 48]

/-- `ty.tttttttttt.A.PPP` in a 28-byte array; `isM` selects 'M' or 'G'. -/
def render (isM : Bool) (t p : Nat) : List Nat :=
  copyInto FNLEN ([if isM then 77 else 71, 46] ++ digitsFixed 10 t ++ [46, 65, 46] ++ hex3 p)

/-- the name domain `N` of DESIGN.md §6 C13. -/
def InDomain (t p : Nat) : Prop := 10 ^ 9 ≤ t ∧ t < 2 ^ 31 ∧ p < 4096

end PttVerif.C13
