import PttVerif.Common
import PttVerif.Gen.Big5
import Std.Data.HashMap
/-
C17 — model of types/big5.go (Big5 <-> UTF-8 through the UAO 2.50 tables).

  Big5ToUtf8, Utf8ToBig5     : the two byte-wise scanners, as `for` loops with a loop body (`goFor`): the
                               model does NOT assume that the loops end — a body that does not advance
                               runs out of fuel and answers `Fault.diverge` (what the code before commit
                               50179c3 did on a lone continuation byte).  Slicing goes through
                               `Common.slice`/`idx`, so a missing length guard is a `Fault.panic`.
  initToBig5, initToUtf8     : TrimSpace + hex.Decode into a 2-byte buffer (+ the hand UTF-8 encoder)
  initB2U / initU2B          : Split "\n", drop the header, Split " ", `[2:]`, insert into the map

Tables are PARAMETERS: a `Table` is the lookup function of a Go `map[string][]byte`.
Bytes are `Nat`s below 256.  Core + `Std.HashMap` only (linked into the driver).
-/
namespace PttVerif.C17
open PttVerif

abbrev Bytes := List Nat

/-- a Go `map[string][]byte`, seen through `m[k]` with the comma-ok flag. -/
abbrev Table := Bytes → Option Bytes

/-! ### the `for p := input; len(p) > 0; { body }` loop -/

/-- what one execution of a loop body does. -/
inductive Step where
  | next (p out : Bytes)    -- fall through to the next iteration with these values of `p`, output
  | stop (out : Bytes)      -- `break`
  deriving Repr, DecidableEq

/-- `for ; len(p) > 0; { body }` with `fuel` iterations allowed. -/
def goFor (body : Bytes → Bytes → M Step) : Nat → Bytes → Bytes → M Bytes
  | 0, _, _ => .error .diverge
  | fuel + 1, p, out =>
    if p.length > 0 then
      match body p out with
      | .error e => .error e
      | .ok (.stop o) => .ok o
      | .ok (.next p' o) => goFor body fuel p' o
    else .ok out

/-- Go `a[lo:]`. -/
def sliceFrom {α} (a : List α) (lo : Nat) : M (List α) := slice a lo a.length

/-- the replacement code U+FFFD as the two bytes the code appends. -/
def repl : Bytes := [0xff, 0xfd]

/-! ### Big5ToUtf8 -/

def b2uBody (b2u : Table) (p out : Bytes) : M Step := do
  let c ← idx p 0
  if c < 0x80 then
    let p' ← sliceFrom p 1
    pure (.next p' (out ++ [c]))
  else if p.length < 2 then
    pure (.stop out)                           -- break
  else
    let k ← slice p 0 2
    let each := (b2u k).getD []                -- a missing key yields nil: nothing is appended
    let p' ← sliceFrom p 2
    pure (.next p' (out ++ each))

/-- `types.Big5ToUtf8`.  The fuel is one more than the input length; `Props.big5ToUtf8_total` shows it is never used up. -/
def big5ToUtf8 (b2u : Table) (s : Bytes) : M Bytes := goFor (b2uBody b2u) (s.length + 1) s []

/-! ### Utf8ToBig5 (with the final else-branch of commit 50179c3) -/

def u2bBody (u2b : Table) (p out : Bytes) : M Step := do
  let c ← idx p 0
  if c < 0x80 then
    let p' ← sliceFrom p 1
    pure (.next p' (out ++ [c]))
  else if p.length ≥ 2 ∧ c &&& 0xe0 = 0xc0 then
    let k ← slice p 0 2
    let each := (u2b k).getD repl
    let p' ← sliceFrom p 2
    pure (.next p' (out ++ each))
  else if p.length ≥ 3 ∧ c &&& 0xf0 = 0xe0 then
    let k ← slice p 0 3
    let each := (u2b k).getD repl
    let p' ← sliceFrom p 3
    pure (.next p' (out ++ each))
  else
    let p' ← sliceFrom p 1
    pure (.next p' (out ++ repl))

/-- `types.Utf8ToBig5`. -/
def utf8ToBig5 (u2b : Table) (s : Bytes) : M Bytes := goFor (u2bBody u2b) (s.length + 1) s []

/-! ### what the loops compute (closed forms; `Props` proves the loops equal them) -/

def b2uSpec (b2u : Table) : Bytes → Bytes
  | [] => []
  | a :: rest =>
    if a < 0x80 then a :: b2uSpec b2u rest
    else match rest with
      | [] => []
      | b :: rest' => (b2u [a, b]).getD [] ++ b2uSpec b2u rest'

def u2bSpec (u2b : Table) : Bytes → Bytes
  | [] => []
  | c :: rest =>
    if c < 0x80 then c :: u2bSpec u2b rest
    else if rest.length ≥ 1 ∧ c &&& 0xe0 = 0xc0 then
      (u2b (c :: rest.take 1)).getD repl ++ u2bSpec u2b (rest.drop 1)
    else if rest.length ≥ 2 ∧ c &&& 0xf0 = 0xe0 then
      (u2b (c :: rest.take 2)).getD repl ++ u2bSpec u2b (rest.drop 2)
    else repl ++ u2bSpec u2b rest
termination_by s => s.length
decreasing_by all_goals (simp; try omega)

/-! ### initToBig5 / initToUtf8 -/

/-- `strings.TrimSpace` on ASCII input: '\t' '\n' '\v' '\f' '\r' ' '.
(On non-ASCII input Go also trims U+0085, U+00A0, …: out of the modelled domain; the driver reports
whether the table files are pure ASCII.) -/
def isSpace (c : Nat) : Bool := c == 9 || c == 10 || c == 11 || c == 12 || c == 13 || c == 32

def trimSpace (s : Bytes) : Bytes := ((s.dropWhile isSpace).reverse.dropWhile isSpace).reverse

/-- `reverseHexTable`. -/
def hexVal (c : Nat) : Option Nat :=
  if 48 ≤ c ∧ c ≤ 57 then some (c - 48)
  else if 97 ≤ c ∧ c ≤ 102 then some (c - 97 + 10)
  else if 65 ≤ c ∧ c ≤ 70 then some (c - 65 + 10)
  else none

/-- `hex.Decode(dst, src)` writing at `dst[i]`, `dst[i+1]`, …: `none` is an error return; a third
valid pair indexes the 2-byte buffer out of range (panic) — the validity tests come first, as in Go. -/
def hexDecodeInto : Nat → Bytes → Bytes → M (Option Bytes)
  | _, dst, [] => .ok (some dst)
  | _, _, [_] => .ok none                     -- odd length: InvalidByteError or ErrLength
  | i, dst, p :: q :: rest =>
    match hexVal p, hexVal q with
    | some a, some b =>
      if i < dst.length then hexDecodeInto (i + 1) (dst.set i (a * 16 + b)) rest
      else .error .panic
    | _, _ => .ok none

/-- `theBytes = make([]byte, 2); hex.Decode(theBytes, code)`. -/
def hexDecode2 (s : Bytes) : M (Option Bytes) := hexDecodeInto 0 [0, 0] s

def initToBig5 (code : Bytes) : M (Option Bytes) := hexDecode2 (trimSpace code)

/-- the UCS-2 value `initToUtf8` computes before encoding. -/
def initUcs2 (code : Bytes) : M (Option Nat) := do
  let r ← hexDecode2 (trimSpace code)
  pure (r.map fun b => b.getD 0 0 * 256 + b.getD 1 0)

/-- the hand-written UCS-2 → UTF-8 encoder of `initToUtf8` (`byte(x)` is `x % 256`;
`ucs2 & ^0x7f == 0` is `ucs2 >> 7 == 0` on a non-negative int). -/
def encodeUcs2 (ucs2 : Nat) : Bytes :=
  if ucs2 >>> 7 = 0 then [0]                                   -- make([]byte, 1): a NUL, not the character
  else if ucs2 &&& 0xF800 = 0 then
    [(0xc0 ||| (ucs2 >>> 6)) % 256, (0x80 ||| (ucs2 &&& 0x3f)) % 256]
  else
    [(0xE0 ||| (ucs2 >>> 12)) % 256, (0x80 ||| ((ucs2 >>> 6) &&& 0x3F)) % 256, (0x80 ||| (ucs2 &&& 0x3F)) % 256]

def initToUtf8 (code : Bytes) : M (Option Bytes) := do
  let r ← initUcs2 code
  pure (r.map encodeUcs2)

/-! ### initB2U / initU2B -/

/-- `strings.Split(s, sep)` for a one-byte separator (tail recursive: the files have 10^6 bytes). -/
def splitAux (sep : Nat) : Bytes → Bytes → List Bytes → List Bytes
  | [], cur, acc => (cur.reverse :: acc).reverse
  | c :: cs, cur, acc =>
    if c = sep then splitAux sep cs [] (cur.reverse :: acc) else splitAux sep cs (c :: cur) acc

def split (sep : Nat) (s : Bytes) : List Bytes := splitAux sep s [] []

/-- a table row as the loop body computes it: the Big5 bytes and the UCS-2 value. -/
abbrev Row := Bytes × Nat

/-- one iteration of `for _, line := range lines`; `none` is `continue`. The order of the tests is Go's:
the second field is only sliced after the first one decoded. -/
def parseLine (line : Bytes) : M (Option Row) := do
  let fs := split 32 line
  if fs.length ≠ 2 then pure none
  else
    let f0 ← idx fs 0
    let f1 ← idx fs 1
    let x ← sliceFrom f0 2                     -- lineList[0][2:]
    match ← initToBig5 x with
    | none => pure none
    | some big5 =>
      let y ← sliceFrom f1 2                   -- lineList[1][2:]
      match ← initUcs2 y with
      | none => pure none
      | some cp => pure (some (big5, cp))

/-- the rows a table file contributes, in file order (`lines[1:]` cannot fault: Split returns ≥ 1 element). -/
def parseTable (content : Bytes) : M (List Row) := do
  let lines ← sliceFrom (split 10 content) 1
  let rs ← lines.mapM parseLine
  pure (rs.filterMap id)

abbrev GoMap := Std.HashMap Bytes Bytes

/-- `big5ToUTF8[string(big5)] = utf8` for every row in order (a later row overwrites). -/
def b2uMap (rows : List Row) : GoMap := rows.foldl (fun m r => m.insert r.1 (encodeUcs2 r.2)) ∅

/-- `utf8ToBig5[string(utf8)] = big5`. -/
def u2bMap (rows : List Row) : GoMap := rows.foldl (fun m r => m.insert (encodeUcs2 r.2) r.1) ∅

def tableOf (m : GoMap) : Table := fun k => m[k]?

/-! ### specification side: UTF-8 -/

def isSurrogate (cp : Nat) : Bool := 0xD800 ≤ cp && cp ≤ 0xDFFF

/-- the standard UTF-8 encoding of a code point (RFC 3629 §3), by arithmetic. -/
def utf8enc (cp : Nat) : Bytes :=
  if cp < 0x80 then [cp]
  else if cp < 0x800 then [192 + cp / 64, 128 + cp % 64]
  else if cp < 0x10000 then [224 + cp / 4096, 128 + cp / 64 % 64, 128 + cp % 64]
  else [240 + cp / 262144 % 8, 128 + cp / 4096 % 64, 128 + cp / 64 % 64, 128 + cp % 64]

def isCont (b : Nat) : Bool := 0x80 ≤ b && b ≤ 0xBF

/-- well-formed UTF-8 byte sequences, RFC 3629 §4 / Unicode table 3-7 (what Go's `utf8.Valid` accepts). -/
def validUtf8 : Bytes → Bool
  | [] => true
  | a :: rest =>
    if a < 0x80 then validUtf8 rest
    else if 0xC2 ≤ a ∧ a ≤ 0xDF then
      match rest with
      | b :: r => isCont b && validUtf8 r
      | _ => false
    else if 0xE0 ≤ a ∧ a ≤ 0xEF then
      match rest with
      | b :: c :: r =>
        isCont b && isCont c && (a != 0xE0 || 0xA0 ≤ b) && (a != 0xED || b ≤ 0x9F) && validUtf8 r
      | _ => false
    else if 0xF0 ≤ a ∧ a ≤ 0xF4 then
      match rest with
      | b :: c :: d :: r =>
        isCont b && isCont c && isCont d && (a != 0xF0 || 0x90 ≤ b) && (a != 0xF4 || b ≤ 0x8F) && validUtf8 r
      | _ => false
    else false

/-! ### well-formedness of parsed tables (decidable; the driver evaluates it on the two real files) -/

/-- b2u rows: a two-byte key whose lead byte is not ASCII, a BMP code point ≥ 0x80 that is not a surrogate. -/
def wfB2URow (r : Row) : Bool :=
  r.1.length == 2 && decide (0x80 ≤ r.1.headD 0) && decide (0x80 ≤ r.2) && decide (r.2 < 0x10000) && !isSurrogate r.2

def wfB2U (rows : List Row) : Bool := rows.all wfB2URow

/-- u2b rows: a two-byte value, a BMP code point ≥ 0x80 (surrogate rows are allowed: the real file has 2048). -/
def wfU2BRow (r : Row) : Bool := r.1.length == 2 && decide (0x80 ≤ r.2) && decide (r.2 < 0x10000)

def wfU2B (rows : List Row) : Bool := rows.all wfU2BRow

/-! ### initBig5 = initB2U; initU2B — a state machine over the two package-level maps

Each loader has its OWN "already loaded" guard on its OWN map, so loading is resumable: an initialisation that fails
on the second table leaves the first one loaded, and a later initialisation loads only what is missing.
`fs` is the file system as `os.Open` + `io.ReadAll` see it (`none`: an error is returned).  The flag in the result
is `err != nil`.  (A panic inside the row loop leaves the rows inserted so far in the Go map; the model does not
keep them — no generated history parses a panicking file twice.) -/

structure Loader where
  b2u : GoMap
  u2b : GoMap

abbrev FS := String → Option Bytes

def b2uMapFrom (m : GoMap) (rows : List Row) : GoMap := rows.foldl (fun m r => m.insert r.1 (encodeUcs2 r.2)) m
def u2bMapFrom (m : GoMap) (rows : List Row) : GoMap := rows.foldl (fun m r => m.insert (encodeUcs2 r.2) r.1) m

def initB2U (fs : FS) (path : String) (st : Loader) : M (Loader × Bool) :=
  if st.b2u.size > 0 then .ok (st, false)            -- already loaded
  else match fs path with
    | none => .ok (st, true)
    | some content => do
      let rows ← parseTable content
      pure ({ st with b2u := b2uMapFrom st.b2u rows }, false)

def initU2B (fs : FS) (path : String) (st : Loader) : M (Loader × Bool) :=
  if st.u2b.size > 0 then .ok (st, false)
  else match fs path with
    | none => .ok (st, true)
    | some content => do
      let rows ← parseTable content
      pure ({ st with u2b := u2bMapFrom st.u2b rows }, false)

/-- `types.initBig5` with `BIG5_TO_UTF8 = pb`, `UTF8_TO_BIG5 = pu`. -/
def initBig5 (fs : FS) (pb pu : String) (st : Loader) : M (Loader × Bool) := do
  let (st1, e1) ← initB2U fs pb st
  if e1 then pure (st1, true) else initU2B fs pu st1

/-- every row of a table file, the first line included (what an independent reader of the data sees). -/
def parseAllRows (content : Bytes) : M (List Row) := do
  let rs ← (split 10 content).mapM parseLine
  pure (rs.filterMap id)

/-- the first line of a file (`strings.Split` always yields a first piece). -/
def firstLine (content : Bytes) : Bytes := (split 10 content).headD []

/-! ### a row by CONTENT (what a reader of the data sees), against the loader's accept rule (exactly two ' '-fields) -/

def isBlank (c : Nat) : Bool := c == 32 || c == 9 || c == 13

/-- the non-empty pieces between blanks (tail recursive). -/
def fieldsAux : Bytes → Bytes → List Bytes → List Bytes
  | [], cur, acc => (if cur.isEmpty then acc else cur.reverse :: acc).reverse
  | c :: cs, cur, acc =>
    if isBlank c then fieldsAux cs [] (if cur.isEmpty then acc else cur.reverse :: acc)
    else fieldsAux cs (c :: cur) acc

def fields (s : Bytes) : List Bytes := fieldsAux s [] []

/-- `0xHHHH` → the value. -/
def hexField : Bytes → Option Nat
  | [48, 120, a, b, c, d] => do
    let w ← hexVal a; let x ← hexVal b; let y ← hexVal c; let z ← hexVal d
    pure (w * 4096 + x * 256 + y * 16 + z)
  | _ => none

/-- a line is a row by content when its first two fields are `0xHHHH 0xHHHH`, whatever follows (a comment, blanks). -/
def rowByContent (line : Bytes) : Option Row :=
  match fields line with
  | f0 :: f1 :: _ => do
    let k ← hexField f0
    let cp ← hexField f1
    pure ([k / 256, k % 256], cp)
  | _ => none

/-- rows by content that the loader's rule skips (`continue`) — they are silently missing from the map. -/
def droppedRows (content : Bytes) : Nat :=
  ((split 10 content).filter fun line =>
    (rowByContent line).isSome && (match parseLine line with | .ok none => true | _ => false)).length

/-! ### the start-up sequence initgin.InitAllConfig

The packages' `InitConfig()` calls in the order of the source (`Gen.Big5.initOrder`).  `types` loads the tables
(`initBig5`); `ptttype` (postInitConfig → setBBSName) converts the configured site name with `Utf8ToBig5` against
whatever the maps hold AT THAT MOMENT and keeps the result (`BBSNAME_BIG5`) for the lifetime of the process. -/

structure Boot where
  loader : Loader
  bbsnameBig5 : Option Bytes := none       -- `none`: ptttype.InitConfig has not run (the compiled-in default stays)

/-- one `X.InitConfig()`; the flag is `err != nil`. -/
def bootStep (fs : FS) (pb pu : String) (name : Bytes) (b : Boot) (pkg : String) : M (Boot × Bool) :=
  if pkg = "types" then do
    let (l, e) ← initBig5 fs pb pu b.loader
    pure ({ b with loader := l }, e)
  else if pkg = "ptttype" then do
    let r ← utf8ToBig5 (tableOf b.loader.u2b) name
    pure ({ b with bbsnameBig5 := some r }, false)
  else pure (b, false)

/-- the calls in order; the first error is returned at once. -/
def boot (fs : FS) (pb pu : String) (name : Bytes) : List String → Boot → M (Boot × Bool)
  | [], b => pure (b, false)
  | p :: ps, b => do
    let (b', e) ← bootStep fs pb pu name b p
    if e then pure (b', true) else boot fs pb pu name ps b'

/-! ### types.config(): which ini key feeds which table path

`config()` is a sequence of `X = setTConfig("KEY", DEFAULT)`; the list of these reads is regenerated from the
source (`Gen.Big5.configReads`).  `configutil.SetStringConfig` answers the ini value of the viper key when the
key is set, the default expression otherwise.  Only the string variables are tracked (`env`). -/

abbrev Env := List (String × String)

/-- one assignment of `config()`: the newest binding is in front. -/
def cfgStep (ini : Env) (env : Env) (r : Gen.Big5.CfgRead) : Env :=
  if r.setter = "setStringConfig" then
    (r.var, match ini.lookup r.viperKey with
            | some v => v
            | none => (env.lookup r.dflt).getD "") :: env
  else env

def runConfig (reads : List Gen.Big5.CfgRead) (ini env : Env) : Env := reads.foldl (cfgStep ini) env

def cfgVar (env : Env) (var : String) : String := (env.lookup var).getD ""

end PttVerif.C17
