import PttVerif.Common
import PttVerif.Gen.Post
import PttVerif.Gen.RecFile
import PttVerif.Model.C05
import PttVerif.Model.C13
/-
C09 — model of publishing an article:
  ptt/bbs.go   : NewPost / DoPostArticle (after the permission checks), doPostArticleFullTitle, tnSafeStrip,
                 isTnAllowed, isTnAnnounce, checkBoardAnonymous, doPostArticleWriteFile, GetWebURL,
                 the effect of doCrosspost on the ALLPOST index
  ptt/edit.go  : WriteFile (line loop, entropy), writeHeader, writeHeaderAuthorBoard (incl. the .post log record),
                 writeHeaderAuthor, addSimpleSignature
  ptt/kaede.go : StripANSIMoveCmd
  cmsys/string.go : Trim
  ptt/pwcu.go  : pwcuIncNumPost;  cache/cache_board.go : SetBTotal, TouchBPostNum
  cmsys/record.go AppendRecord is `C05.appendRecord`; the article-id codec is `C13`.

Bytes are `Nat`s below 256.  Environment choices are parameters (`Env`): the name the second `Stampfile`
chose, the date string of its time, the file's mtime, the `Ctime` text of the header, the time written to the
.post log, and the title/time of the ALLPOST copy.  Failing system calls are not modelled.
-/
namespace PttVerif.C09
open PttVerif

abbrev Bytes := List Nat

def TN : Bytes := Gen.Post.TN_ANNOUNCE_BIG5
def ESC : Nat := Gen.Post.ESC_CHR
def TITLE_SZ : Nat := Gen.Post.TTLEN + 1        -- Title_t = [TTLEN+1]byte
def ID_SZ : Nat := Gen.Post.IDLEN + 1           -- UserID_t / BoardID_t = [IDLEN+1]byte
def dirSz : Nat := Gen.RecFile.FILE_HEADER_RAW_SZ
def logSz : Nat := Gen.RecFile.POSTLOG_SZ

/-! ### site configuration

The switches below are package VARIABLES of `ptttype` (set from the ini file by `ptttype/config.go`), not
constants: every decision site reads them at run time.  The defaults are the initialisers in the source. -/
structure Cfg where
  haveAnonymous : Bool := Gen.Post.HAVE_ANONYMOUS
  allowFreeTn : Bool := Gen.Post.ALLOW_FREE_TN_ANNOUNCE
  usePostEntropy : Bool := Gen.Post.USE_POST_ENTROPY
  queryURL : Bool := Gen.Post.QUERY_ARTICLE_URL
  useAidURL : Bool := Gen.Post.USE_AID_URL
  deriving Repr, DecidableEq

/-- which configuration variables each modelled decision site consults (compared with what the translator
reads out of the source: `Gen.Post.siteConfig`). -/
def consults : List (String × List String) := [
  ("checkBoardAnonymous", ["HAVE_ANONYMOUS"]),
  ("writeHeaderAuthor", ["HAVE_ANONYMOUS"]),
  ("isTnAllowed", ["ALLOW_FREE_TN_ANNOUNCE"]),
  ("WriteFile", ["DEFAULT_FILE_CREATE_PERM", "USE_POST_ENTROPY"]),   -- the permission bits of the file are not modelled
  ("GetWebURL", ["URL_PREFIX"]),                                    -- USE_AID_URL is a package variable without an ini key
  ("addSimpleSignature", ["MYHOSTNAME"]),
  ("DoPostArticle", ["MAX_POST_MONEY", "QUERY_ARTICLE_URL", "USE_COOLDOWN", "USE_HIDDEN_BOARD_NOCREDIT"])]

/-! ### the site's time zone (types/config.go, types/config_util.go)

`types.TIME_LOCATION` is the configured zone NAME, `types.TIMEZONE` the loaded zone every `Time4` formatter
(`Cdatemd` of the index date, `Ctime` of the header) converts with.  Only names are modelled: `zone` is the name
`TIMEZONE` was loaded from; the formatting itself is an environment parameter (`Env.date`, `Env.ctime`). -/
structure TZ where
  location : String      -- TIME_LOCATION
  zone : String          -- the name TIMEZONE was loaded from
  deriving Repr, DecidableEq

/-- `setTimeLocation` for a loadable name: store the name, load the zone. -/
def setTimeLocation (_s : TZ) (z : String) : TZ := ⟨z, z⟩

/-- the seeded variant: "nothing to do when the name is unchanged". -/
def setTimeLocationLazy (s : TZ) (z : String) : TZ := if z = s.location then s else ⟨z, z⟩

/-- `types.InitConfig`: `config()` stores the configured name (if the ini file has one) into TIME_LOCATION,
then `postConfig()` calls `setTimeLocation(TIME_LOCATION)`. -/
def initConfigTZWith (set : TZ → String → TZ) (s : TZ) (configured : Option String) : TZ :=
  let s1 : TZ := { s with location := configured.getD s.location }
  set s1 s1.location

def initConfigTZ : TZ → Option String → TZ := initConfigTZWith setTimeLocation

/-! ### the title pipeline -/

/-- `doPostArticleFullTitle`: `"[" ++ class ++ "] " ++ title` when a class is given. -/
def fullTitle (cls title : Bytes) : Bytes :=
  if cls.length = 0 then title else [91] ++ cls ++ [93, 32] ++ title

/-- `bytes.HasPrefix`. -/
def hasPrefix : Bytes → Bytes → Bool
  | _, [] => true
  | [], _ :: _ => false
  | a :: as, b :: bs => a == b && hasPrefix as bs

/-- `isTnAnnounce` (after 2df0902): a plain prefix test. -/
def isTnAnnounce (title : Bytes) : M Bool := pure (hasPrefix title TN)

/-- `isTnAnnounce` before 2df0902: `bytes.Equal(title[:len(TN)], TN)`; the slice expression panics when
the title (capacity = length) is shorter than the tag. -/
def isTnAnnounceOld (title : Bytes) : M Bool := do
  let p ← slice title 0 TN.length
  pure (p == TN)

/-- a seeded variant of `isTnAnnounce`: the tag is looked for behind leading blanks (`bytes.TrimLeft(title, " ")`),
while `tnSafeStrip` still cuts `len(TN)` bytes from the START of the title. -/
def isTnAnnounceTrimLeft (title : Bytes) : M Bool := pure (hasPrefix (title.dropWhile (· = 32)) TN)

/-- `isTnAllowed`. `role` = `isModeBoard(..) || HasUserPerm(SYSOP|ACCOUNTS|BOARD|BBSADM|VIEWSYSOP|POLICE_MAN)
|| HasUserPerm(SYSSUPERSUBOP|SYSSUBOP)` (permission bits: property C08). -/
def isTnAllowedWith (c : Cfg) (ann : Bytes → M Bool) (role : Bool) (title : Bytes) : M Bool :=
  if c.allowFreeTn then pure true
  else if role then pure true
  else do
    let a ← ann title
    pure (!a)

/-- `tnSafeStrip`: `title[len(TN_ANNOUNCE_BIG5):]` unless the tag is allowed. -/
def tnSafeStripWith (c : Cfg) (ann : Bytes → M Bool) (role : Bool) (title : Bytes) : M Bytes := do
  let ok ← isTnAllowedWith c ann role title
  if ok then pure title else slice title TN.length title.length

def tnSafeStrip (c : Cfg) : Bool → Bytes → M Bytes := tnSafeStripWith c isTnAnnounce
def tnSafeStripOld (c : Cfg) : Bool → Bytes → M Bytes := tnSafeStripWith c isTnAnnounceOld

/-- the title the article is published under. -/
def postTitle (c : Cfg) (role : Bool) (cls title : Bytes) : M Bytes := tnSafeStrip c role (fullTitle cls title)

/-! ### cmsys.Trim -/

/-- `bytes.TrimRight(s, " ")`. -/
def trimRight : Bytes → Bytes
  | [] => []
  | c :: cs =>
    let r := trimRight cs
    if c = 32 ∧ r = [] then [] else c :: r

/-- `cmsys.Trim`: `types.CstrToBytes` (cut at the first NUL), then strip trailing spaces. -/
def trim (s : Bytes) : Bytes := trimRight (cstr s)

/-! ### ptt.StripANSIMoveCmd -/

def isCode (c : Nat) : Bool := Gen.Post.PATTERN_ANSI_CODE.contains c
def isMove (c : Nat) : Bool := Gen.Post.PATTERN_ANSI_MOVECMD.contains c

/-- `bytes.Index(l, []byte{ESC})`. -/
def indexEsc : Bytes → Option Nat
  | [] => none
  | c :: cs => if c = ESC then some 0 else (indexEsc cs).map (· + 1)

/-- the inner `for` of StripANSIMoveCmd: the run of parameter bytes and what follows it. -/
def skipCode : Bytes → Bytes × Bytes
  | [] => ([], [])
  | c :: cs =>
    if isCode c then
      let r := skipCode cs
      (c :: r.1, r.2)
    else ([], c :: cs)

/-- the outer loop of StripANSIMoveCmd on the not yet scanned part `l` (= `newLine`); the result is what
that part of the (shared) buffer holds when the function returns.  `fuel` bounds the iterations. -/
def defuseLoop : Nat → Bytes → M Bytes
  | 0, _ => .error .diverge
  | fuel + 1, l =>
    match indexEsc l with
    | none => pure l                                   -- idx < 0: break
    | some i =>
      let r := skipCode (l.drop (i + 1))               -- newLine = newLine[idx:][1:]; skip parameter bytes
      match r.2 with
      | [] => pure l                                   -- len(newLine) == 0: break
      | c :: cs => do
        let c' := if isMove c then 115 else c          -- newLine[0] = 's'
        let rest ← defuseLoop fuel (c' :: cs)
        pure (l.take (i + 1) ++ r.1 ++ rest)

/-- `StripANSIMoveCmd` (the loop condition `len(line) > 0` never changes). -/
def stripANSIMoveCmd (line : Bytes) : M Bytes :=
  if line.length > 0 then defuseLoop (line.length + 1) line else pure line

/-- the same scan as a two-state automaton (`inEsc` = an ESC and only parameter bytes have been seen);
`Proofs/C09` shows that the loop above computes exactly this. -/
def scan : Bool → Bytes → Bytes
  | _, [] => []
  | false, c :: cs => if c = ESC then c :: scan true cs else c :: scan false cs
  | true, c :: cs =>
    if isCode c then c :: scan true cs
    else if isMove c then 115 :: scan false cs
    else if c = ESC then c :: scan true cs
    else c :: scan false cs

/-! the lexer specification: a cursor-movement sequence is `ESC`, any run of parameter bytes, a final byte
from the movement list. -/

/-- `l` continues an open escape sequence up to a movement final. -/
def startsMove : Bytes → Bool
  | [] => false
  | c :: cs => isMove c || (isCode c && startsMove cs)

/-- some position of `l` starts a cursor-movement sequence. -/
def hasMove : Bytes → Bool
  | [] => false
  | c :: cs => (c == ESC && startsMove cs) || hasMove cs

/-! ### ptt.WriteFile -/

def isAlnum (c : Nat) : Bool := (48 ≤ c && c ≤ 57) || (65 ≤ c && c ≤ 90) || (97 ≤ c && c ≤ 122)

/-- `getStringEntropy`. -/
def lineEntropy (l : Bytes) : Nat := (l.filter fun c => !(decide (c < 128)) || isAlnum c).length

def ENTROPY_MAX : Nat := Gen.Post.ENTROPY_MAX

/-- one line of the loop: Trim, StripANSIMoveCmd. -/
def processLine (l : Bytes) : M Bytes := stripANSIMoveCmd (trim l)

def addEntropy (e : Nat) (line : Bytes) : Nat :=
  let e1 := if e < ENTROPY_MAX then e + lineEntropy line else e
  if e1 > ENTROPY_MAX then ENTROPY_MAX else e1

/-- the line loop of `WriteFile`: the bytes written and the entropy. The last line is skipped when it is empty
(tested before trimming). -/
def writeLines : List Bytes → Nat → M (Bytes × Nat)
  | [], e => pure ([], e)
  | l :: rest, e =>
    if rest.isEmpty ∧ l.length = 0 then pure ([], e)
    else do
      let p ← processLine l
      let r ← writeLines rest (addEntropy e p)
      pure (p ++ [10] ++ r.1, r.2)

def initEntropy (c : Cfg) : Nat := if c.usePostEntropy then 0 else ENTROPY_MAX

/-- `writeHeaderAuthor`. -/
def headerAuthor (c : Cfg) (anon : Bool) (userID nick : Bytes) : Bytes × Bytes :=
  if !c.haveAnonymous || !anon then (cstr userID, cstr nick)
  else (cstr Gen.Post.ANONYMOUS_ID, Gen.Post.ANONYMOUS_NICKNAME)

/-- `writeHeader` for a board post: author line, title line, time line, empty line. -/
def header (c : Cfg) (anon : Bool) (userID nick board title ctime : Bytes) : Bytes :=
  let a := headerAuthor c anon userID nick
  Gen.Post.STR_AUTHOR1_BIG5 ++ [32] ++ a.1 ++ [32, 40] ++ a.2 ++ [41, 32] ++ Gen.Post.STR_POST1_BIG5 ++ [32] ++ board ++ [10]
    ++ Gen.Post.STR_TITLE_BIG5 ++ [32] ++ title ++ [10] ++ Gen.Post.STR_TIME_BIG5 ++ [32] ++ ctime ++ [10, 10]

/-- `checkBoardAnonymous`. -/
def useAnony (c : Cfg) (anon : Bool) : Bool := c.haveAnonymous && anon

/-- `addSimpleSignature`. -/
def signature (anony : Bool) (ip frm : Bytes) : Bytes :=
  let host := if anony then Gen.Post.ANONYMOUS_HOST else cstr ip ++ frm
  [10, 45, 45, 10] ++ Gen.Post.STR_BBS_BIG5 ++ [32] ++ Gen.Post.BBSNAME_BIG5 ++ [40] ++ Gen.Post.MYHOSTNAME ++ [41, 44, 32]
    ++ Gen.Post.STR_FROM_BIG5 ++ [32] ++ host ++ [10]

/-- the line `DoPostArticle` appends when QUERY_ARTICLE_URL is set (`GetWebURL`). -/
def urlLine (c : Cfg) (board name : Bytes) : Bytes :=
  if !c.queryURL then []
  else
    let fn := if c.useAidURL then cstr (C13.aiduToAidc (C13.fnToAidu (copyInto C13.FNLEN name)))
              else cstr name ++ [46, 104, 116, 109, 108]
    Gen.Post.STR_URL_DISPLAYNAME_BIG5 ++ [32] ++ Gen.Post.URL_PREFIX ++ [47] ++ board ++ [47] ++ fn ++ [10]

/-! ### the index record and the .post log record -/

def le32 := C05.le32

/-- the 128-byte `FileHeaderRaw` image written by `encoding/binary` (field offsets: `Gen/RecFile`). -/
def recordImage (name : Bytes) (mtime : Nat) (owner date title : Bytes) (multi filemode : Nat) : Bytes :=
  copyInto Gen.RecFile.lenFilename name ++ le32 mtime
    ++ List.replicate (Gen.RecFile.offOwner - (Gen.RecFile.offModified + Gen.RecFile.lenModified)) 0
    ++ copyInto Gen.RecFile.lenOwner owner ++ copyInto Gen.RecFile.lenDate date ++ copyInto Gen.RecFile.lenTitle title
    ++ List.replicate (Gen.RecFile.offMulti - (Gen.RecFile.offTitle + Gen.RecFile.lenTitle)) 0
    ++ le32 multi ++ [filemode]
    ++ List.replicate (dirSz - (Gen.RecFile.offFilemode + Gen.RecFile.lenFilemode)) 0

/-- the 100-byte `PostLog` image: Author, Board, Title, pad, TheDate, Number = 1. -/
def postLogImage (author board title : Bytes) (date : Nat) : Bytes :=
  copyInto ID_SZ author ++ copyInto ID_SZ board ++ copyInto TITLE_SZ title ++ [0] ++ le32 date ++ le32 1

/-! ### requests, environment, state -/

/-- an accepted post request with the facts about its user and board that the publishing path reads. -/
structure Req where
  board : Bytes          -- C string of `board.Brdname`, the board the bid half of the client's board id names
  dirBoard : Bytes       -- the name half of the client's board id: `path.SetBPath(boardID)` / `setBDir(boardID)`
  userID : Bytes         -- the `UserID_t` array
  nick : Bytes           -- the `Nickname_t` array
  uid : Nat
  callerNp : Nat := 0    -- `user.NumPosts` of the caller's in-memory record (possibly behind the stored one)
  role : Bool            -- may keep an announcement tag (see `isTnAllowedWith`)
  anon : Bool            -- BRD_ANONYMOUS
  isOpen : Bool          -- `board.IsOpenBRD()`: the article is copied to ALLPOST
  credit : Bool          -- none of the "money = 0" conditions holds
  ip : Bytes
  frm : Bytes
  cls : Bytes
  title : Bytes
  lines : List Bytes
  cfg : Cfg := {}        -- the site configuration in force
  deriving Repr

/-- what the environment chose for one post. -/
structure Env where
  name : Bytes           -- `M.<t>.A.<XXX>` chosen by the second stamp
  date : Bytes           -- `Cdatemd` of its time
  mtime : Nat            -- `DashT` of the written file
  ctime : Bytes          -- `Ctime` text of the header
  logDate : Nat          -- time written to the .post log
  xtitle : Bytes         -- title of the ALLPOST copy (cmbbs.SubjectEx / dbcsSafeTrimTitle: property C18)
  xmtime : Nat           -- its Modified time
  deriving Repr

structure BoardSt where
  name : Bytes
  dir : C05.FS                       -- .DIR
  files : List (Bytes × Bytes)       -- article files, newest first
  total : Nat                        -- Shm.Total[bid]
  deriving Repr

structure St where
  boards : List BoardSt
  users : List (Bytes × Nat)         -- UserID array ↦ NumPosts
  postLog : C05.FS                   -- BBSHOME/.post
  deriving Repr

def ALLPOST : Bytes := [65, 76, 76, 80, 79, 83, 84]

def findBoard (bs : List BoardSt) (n : Bytes) : Option BoardSt := bs.find? (·.name == n)

def updBoard (bs : List BoardSt) (n : Bytes) (f : BoardSt → BoardSt) : List BoardSt :=
  bs.map fun b => if b.name == n then f b else b

def lookupFile (fs : List (Bytes × Bytes)) (n : Bytes) : Option Bytes := (fs.find? (·.1 == n)).map (·.2)

/-- what one accepted post produced. -/
structure Posted where
  idx : Nat              -- the SortIdx AppendRecord returned
  title : Bytes          -- the published (full, tag-stripped) title
  record : Bytes         -- the index record
  content : Bytes        -- the article file
  money : Nat
  logRec : Bytes         -- the .post record
  xrecord : Bytes        -- the ALLPOST record (if any)
  deriving Repr

/-- the article file: header, processed lines, signature, URL line; and the entropy. -/
def articleFile (q : Req) (e : Env) (title : Bytes) : M (Bytes × Nat) := do
  let r ← writeLines q.lines (initEntropy q.cfg)
  pure (header q.cfg q.anon q.userID q.nick q.board title e.ctime ++ r.1 ++ signature (useAnony q.cfg q.anon) q.ip q.frm
          ++ urlLine q.cfg q.board e.name, r.2)

/-- the money field (`MAX_POST_MONEY` cap, then the zeroing conditions). -/
def postMoney (q : Req) (entropy : Nat) : Nat :=
  let m := if Gen.Post.MAX_POST_MONEY > 0 ∧ entropy ≥ Gen.Post.MAX_POST_MONEY then Gen.Post.MAX_POST_MONEY else entropy
  if !q.credit || useAnony q.cfg q.anon then 0 else m

/-- `FileHeaderRaw.SetMoney` / `SetAnonUID` (after e2eca4c): `PutUint32` into the `Multi` field. -/
def storedMulti (v : Nat) : Nat := v

/-- before e2eca4c: `bytes.NewBuffer(f.Multi[:4])` followed by a write APPENDS to a reallocated copy, so the
`Multi` field of the header kept its zero bytes. -/
def storedMultiOld (_v : Nat) : Nat := 0

def postRecord (q : Req) (e : Env) (title : Bytes) (money : Nat) : Bytes :=
  if useAnony q.cfg q.anon then
    recordImage e.name 0 Gen.Post.ANONYMOUS_ID e.date title (storedMulti q.uid) Gen.Post.FILE_ANONYMOUS
  else
    recordImage e.name e.mtime q.userID e.date title (storedMulti money) 0

/-- the record `doCrosspost` appends to ALLPOST: the header with the new title, FILE_LOCAL, Modified = now. -/
def crossRecord (q : Req) (e : Env) (money : Nat) : Bytes :=
  if useAnony q.cfg q.anon then
    recordImage e.name e.xmtime Gen.Post.ANONYMOUS_ID e.date e.xtitle (storedMulti q.uid) 1
  else
    recordImage e.name e.xmtime q.userID e.date e.xtitle (storedMulti money) 1

/-- `pwcuIncNumPost` on (stored counter, counter in the caller's record): the stored record is re-read
(`pwcuStart`), ITS counter is incremented and written back (`pwcuEnd`); the caller's record receives the new
stored value.  The caller's old value plays no part. -/
def incNumPost (stored _caller : Nat) : Nat × Nat := (stored + 1, stored + 1)

/-- the variant that increments the caller's copy and writes that back (a seeded defect; kept as a witness). -/
def incNumPostFromCaller (_stored caller : Nat) : Nat × Nat := (caller + 1, caller + 1)

def bumpUser (us : List (Bytes × Nat)) (id : Bytes) (caller : Nat) : List (Bytes × Nat) :=
  us.map fun u => if u.1 == id then (u.1, (incNumPost u.2 caller).1) else u

def numPostsOf (us : List (Bytes × Nat)) (u : Bytes) : Option Nat := (us.find? (·.1 == u)).map (·.2)

/-- `user.NumPosts` of the caller's record after an accepted post. -/
def callerAfter (s : List (Bytes × Nat)) (id : Bytes) (anony : Bool) (caller : Nat) : Nat :=
  if anony then caller
  else match numPostsOf s id with
    | some n => (incNumPost n caller).2
    | none => caller                      -- pwcuStart fails; the error is ignored

/-- add an article file (the rename) and its index record (AppendRecord) to a board directory. -/
def BoardSt.publish (b : BoardSt) (name content record : Bytes) : BoardSt × C05.Out :=
  let r := C05.appendRecord b.dir dirSz record
  ({ b with dir := r.1, files := (name, content) :: b.files }, r.2)

/-- `cache.SetBTotal`: re-read the record count from the board's own index. -/
def BoardSt.setTotal (b : BoardSt) : BoardSt := { b with total := b.dir.bytes.length / dirSz }

/-- the ALLPOST side of `doCrosspost` (after 4ca0e38): copy the file, append the record, `SetBTotal` — the cached
total is recounted from the board's own index, as for the posted board. -/
def BoardSt.crossPublish (b : BoardSt) (name content record : Bytes) : BoardSt :=
  let r := C05.appendRecord b.dir dirSz record
  { b with dir := r.1, files := (name, content) :: b.files, total := r.1.bytes.length / dirSz }

/-- before 4ca0e38: `TouchBPostNum(bid, 1)` — one more than whatever was cached, also when that was the cold 0
of a total that had not been counted yet. -/
def BoardSt.crossPublishOld (b : BoardSt) (name content record : Bytes) : BoardSt :=
  let r := C05.appendRecord b.dir dirSz record
  { b with dir := r.1, files := (name, content) :: b.files, total := b.total + 1 }

inductive Outcome where
  | badBoardID             -- bbs.BBoardID.ToRaw: the name is not the name of the board the number designates
  | noBoard                -- no such board directory (Stampfile fails)
  | posted (p : Posted)
  deriving Repr

/-- `DoPostArticle` from `Stampfile` on, for a request that passed the permission checks. -/
def post (s : St) (q : Req) (e : Env) : M (St × Outcome) :=
  match findBoard s.boards q.dirBoard with
  | none => pure (s, .noBoard)
  | some b => do
    let title ← postTitle q.cfg q.role q.cls q.title
    let fe ← articleFile q e title
    let money := postMoney q fe.2
    let record := postRecord q e title money
    -- writeHeaderAuthorBoard appended the .post record while the file was written
    let a := headerAuthor q.cfg q.anon q.userID q.nick
    let logRec := postLogImage a.1 q.board title e.logDate
    let log' := (C05.appendRecord s.postLog logSz logRec).1
    let pb := b.publish e.name fe.1 record
    let idx := match pb.2 with | .idx _ i => i | _ => 0
    let boards0 := updBoard s.boards q.dirBoard fun _ => pb.1
    let boards1 := updBoard boards0 q.board BoardSt.setTotal          -- cache.SetBTotal(bid)
    let xrecord := crossRecord q e money
    let boards2 := if q.isOpen then updBoard boards1 ALLPOST fun x => x.crossPublish e.name fe.1 xrecord else boards1
    let users' := if useAnony q.cfg q.anon then s.users else bumpUser s.users q.userID q.callerNp
    pure ({ boards := boards2, users := users', postLog := log' },
          .posted { idx := idx, title := title, record := record, content := fe.1, money := money,
                    logRec := logRec, xrecord := xrecord })

/-- a post whose article file cannot be written completely (`addSignature` reports the write error; the errors
of the line writes are ignored): `writeHeaderAuthorBoard` has already appended the .post record, and
`DoPostArticle` returns the error before `AppendRecord` — index, totals and counters stay as they were. -/
def postWriteFails (s : St) (q : Req) (e : Env) : M St := do
  let title ← postTitle q.cfg q.role q.cls q.title
  let a := headerAuthor q.cfg q.anon q.userID q.nick
  pure { s with postLog := (C05.appendRecord s.postLog logSz (postLogImage a.1 q.board title e.logDate)).1 }

/-- `bbs.CreateArticle`: `BBoardID.ToRaw` (after 469db79) refuses a board id whose name half is not the name of
the board its number half designates; everything else is `ptt.NewPost`. -/
def createArticle (s : St) (q : Req) (e : Env) : M (St × Outcome) :=
  if q.dirBoard = q.board then post s q e else pure (s, .badBoardID)

/-- a history of accepted posts (a fault stops the history, as a crash would). -/
def runPosts : St → List (Req × Env) → M St
  | s, [] => pure s
  | s, (q, e) :: rest => do
    let r ← post s q e
    runPosts r.1 rest

/-! ### sessions: the same user loaded as several independent in-memory records -/

/-- a loaded user record (`ptt.InitCurrentUser`): whose it is and the NumPosts it holds. -/
structure Session where
  name : Bytes
  userID : Bytes
  numPosts : Nat
  deriving Repr

structure SSt where
  st : St
  sessions : List Session
  deriving Repr

inductive SOp where
  | load (sess user : Bytes)                 -- keep a fresh copy of the stored record under a session name
  | postAs (sess : Bytes) (q : Req) (e : Env) -- `ptt.NewPost` with the kept record (its `callerNp` replaces `q`'s)
  | create (q : Req) (e : Env)               -- `bbs.CreateArticle`: reloads the record first
  deriving Repr

def findSession (ss : List Session) (n : Bytes) : Option Session := ss.find? (·.name == n)

def setSession (ss : List Session) (x : Session) : List Session :=
  x :: ss.filter (fun y => !(y.name == x.name))

def stepS (s : SSt) : SOp → M (SSt × Option Outcome)
  | .load sess user =>
    match numPostsOf s.st.users user with
    | some n => pure ({ s with sessions := setSession s.sessions ⟨sess, user, n⟩ }, none)
    | none => pure (s, none)
  | .postAs sess q e =>
    let q' := match findSession s.sessions sess with
      | some x => { q with callerNp := x.numPosts }
      | none => q
    do
      let r ← post s.st q' e
      let ss := match r.2, findSession s.sessions sess with
        | .posted _, some x =>
          setSession s.sessions { x with numPosts := callerAfter s.st.users q'.userID (useAnony q'.cfg q'.anon) q'.callerNp }
        | _, _ => s.sessions
      pure ({ st := r.1, sessions := ss }, some r.2)
  | .create q e => do
    -- InitCurrentUser: the caller's record is the stored one
    let q' := { q with callerNp := (numPostsOf s.st.users q.userID).getD 0 }
    let r ← createArticle s.st q' e
    pure ({ s with st := r.1 }, some r.2)

def runS : SSt → List SOp → M SSt
  | s, [] => pure s
  | s, op :: rest => do
    let r ← stepS s op
    runS r.1 rest

/-- the id `bbs.NewArticleSummaryFromRaw` returns for the new entry. -/
def articleID (e : Env) : Bytes := C13.toArticleID (copyInto C13.FNLEN e.name)

/-- the file name `bbs.GetArticle` reads for an id. -/
def fetchName (aid : Bytes) : M Bytes := do
  let f ← C13.articleIDToRaw aid
  pure (cstr f)

end PttVerif.C09
