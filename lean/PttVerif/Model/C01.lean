import PttVerif.Common
/-
C01 — record layouts and partial record updates.

  * `Ty`: the layout tree of a Go type (what the translator emits into Gen/LayoutDefault.lean and
    Gen/LayoutDocker.lean from ptttype/*_raw.go, ptt/postlog.go, ptt/fav/types.go, cache/shm_raw.go).
  * packed layout  = what `encoding/binary` (types.BinaryRead/BinaryWrite, little endian) reads and writes:
    the fields back to back;
  * aligned layout = what the compiler does (`unsafe.Sizeof`, `unsafe.Offsetof`, pointer overlay on the
    shared-memory segment): every field at the next multiple of its alignment, the struct size rounded up to
    the largest field alignment.
  * `writeAt`/`readAt`: lseek+write / lseek+read on a file (`List Nat`, bytes), and the models of
    cmbbs.PasswdQueryPasswd / PasswdQueryUserLevel / PasswdUpdatePasswd / PasswdUpdateEmail /
    cache.passwdUpdateMoney (cmbbs/passwd.go, cache/passwd.go) and cmbbs.PasswdUpdateUserLevel2, which seek to
    `RECORD_SZ * (uid-1) + unsafe.Offsetof(field)`: stride constant and field are the ones the translator
    read out of each function body (`Config.updates`), the offset is the aligned offset of that field in the
    generated tree.
Core Lean only (linked into the driver).
-/
namespace PttVerif.C01
open PttVerif

inductive Ty where
  | prim (size align : Nat)
  | arr (n : Nat) (elem : Ty)
  | struct (fields : List (String × Ty))

abbrev Fields := List (String × Ty)

/-- the least multiple of `a` that is `≥ x` (`a = 0` is read as "no alignment"). -/
def alignUp (x a : Nat) : Nat := x + (a - x % a) % a

mutual
/-- size of the little-endian image written by `encoding/binary`. -/
def sizeP : Ty → Nat
  | .prim s _ => s
  | .arr n e => n * sizeP e
  | .struct fs => sizePs fs
def sizePs : List (String × Ty) → Nat
  | [] => 0
  | (_, t) :: r => sizeP t + sizePs r
end

mutual
def alignOf : Ty → Nat
  | .prim _ a => a
  | .arr _ e => alignOf e
  | .struct fs => alignOfs fs
def alignOfs : List (String × Ty) → Nat
  | [] => 1
  | (_, t) :: r => max (alignOf t) (alignOfs r)
end

mutual
/-- `unsafe.Sizeof`. -/
def sizeA : Ty → Nat
  | .prim s _ => s
  | .arr n e => n * sizeA e
  | .struct fs => alignUp (endA fs 0) (alignOfs fs)
/-- where the aligned layout of the fields ends when it starts at `off`. -/
def endA : List (String × Ty) → Nat → Nat
  | [], off => off
  | (_, t) :: r, off => endA r (alignUp off (alignOf t) + sizeA t)
end

/-- (name, offset, size) of each field in the packed image, the first field at `off`. -/
def fieldsP : Fields → Nat → List (String × Nat × Nat)
  | [], _ => []
  | (n, t) :: r, off => (n, off, sizeP t) :: fieldsP r (off + sizeP t)

/-- (name, offset, size) of each field in memory (`unsafe.Offsetof`), the struct starting at `off`. -/
def fieldsA : Fields → Nat → List (String × Nat × Nat)
  | [], _ => []
  | (n, t) :: r, off => (n, alignUp off (alignOf t), sizeA t) :: fieldsA r (alignUp off (alignOf t) + sizeA t)

def Ty.fields : Ty → Fields
  | .struct fs => fs
  | _ => []

def Ty.packed (t : Ty) : List (String × Nat × Nat) := fieldsP t.fields 0
def Ty.aligned (t : Ty) : List (String × Nat × Nat) := fieldsA t.fields 0

mutual
/-- the check the explicit `Pad*`/`Gap*` fields exist for, at every nesting level: in the packed image every
field starts at a multiple of its alignment, and the packed size of a struct is a multiple of its alignment. -/
def wellPadded : Ty → Bool
  | .prim _ _ => true
  | .arr _ e => wellPadded e
  | .struct fs => wellPaddedFrom fs 0 && sizePs fs % alignOfs fs == 0
def wellPaddedFrom : List (String × Ty) → Nat → Bool
  | [], _ => true
  | (_, t) :: r, off => off % alignOf t == 0 && wellPadded t && wellPaddedFrom r (off + sizeP t)
end

/-! ### files -/

/-- `lseek(fd, pos, SEEK_SET); write(fd, b)` on a file without O_APPEND/O_TRUNC: a hole is zero-filled. -/
def writeAt (f : List Nat) (pos : Nat) (b : List Nat) : List Nat :=
  f.take pos ++ List.replicate (pos - f.length) 0 ++ b ++ f.drop (pos + b.length)

/-- `lseek(fd, pos, SEEK_SET); io.ReadFull(fd, n bytes)`: `none` on (unexpected) EOF. -/
def readAt (f : List Nat) (pos n : Nat) : Option (List Nat) :=
  if pos + n ≤ f.length then some ((f.drop pos).take n) else none

/-- record `v` (0-based) of a record file of stride `sz`. -/
def slot (f : List Nat) (sz v : Nat) : List Nat := (f.drop (v * sz)).take sz

/-- the bytes of a field inside one record. -/
def fieldBytes (rec : List Nat) (off n : Nat) : List Nat := (rec.drop off).take n

/-! ### one build configuration, as regenerated from the source -/

structure Config where
  types : List (String × Ty)
  compiler : List (String × Nat × Nat × List Nat)
  consts : List (String × Nat)
  offsetConsts : List (String × String × String × Nat)
  updates : List (String × List String × List (String × String × Nat))

def Config.ty (c : Config) (n : String) : Option Ty := c.types.lookup n
def Config.const (c : Config) (n : String) : Option Nat := c.consts.lookup n

def findField (l : List (String × Nat × Nat)) (name : String) : Option (Nat × Nat) := l.lookup name

/-- `unsafe.Offsetof(T.field)` and the field's size. -/
def Config.offsetof (c : Config) (ty field : String) : Option (Nat × Nat) := do
  let t ← c.ty ty
  findField t.aligned field

/-- what the translator read out of one function body, resolved against the generated layout:
the stride (first `*_SZ` constant the body mentions, if any) and the (offset, size) of each `Offsetof` argument. -/
structure Seek where
  stride : Option Nat
  offs : List (Nat × Nat)
  deriving DecidableEq

def resolveOffs (c : Config) : List (String × String × Nat) → Option (List (Nat × Nat))
  | [] => some []
  | (ty, fld, _) :: r => do
      let o ← c.offsetof ty fld
      let rest ← resolveOffs c r
      pure (o :: rest)

def Config.seek (c : Config) (fn : String) : Option Seek := do
  let (strides, offs) ← c.updates.lookup fn
  let os ← resolveOffs c offs
  match strides with
  | [] => pure { stride := none, offs := os }
  | s :: _ => do
      let v ← c.const s
      pure { stride := some v, offs := os }

/-- `uid.IsValid()` (ptttype/types.go): `1 ≤ uid ≤ MAX_USERS`; the valid uid as a natural number.
(Pattern match and `Nat` comparisons rather than `Int` comparisons against the configured bound.) -/
def validUid (c : Config) (uid : Int) : Option Nat :=
  match uid, c.const "MAX_USERS" with
  | .ofNat n, some m => if 1 ≤ n ∧ n ≤ m then some n else none
  | _, _ => none

/-- position the `.PASSWDS` accessors seek to:
`int64(USEREC_RAW_SZ)*int64(uid.ToUIDInStore()) + int64(unsafe.Offsetof(USEREC_RAW.<field>))`. -/
def seekPos (stride u off : Nat) : Nat := stride * (u - 1) + off

/-- cmbbs.PasswdUpdatePasswd / PasswdUpdateEmail / cache.passwdUpdateMoney on the bytes of `.PASSWDS`:
invalid uid → error before the file is touched; otherwise seek and write the argument's image.
`none` is an error return (the file is unchanged). -/
def passwdWrite (c : Config) (fn : String) (f : List Nat) (uid : Int) (b : List Nat) : Option (List Nat) :=
  match validUid c uid with
  | none => none
  | some u =>
    match c.seek fn with
    | some { stride := some sz, offs := [(off, n)] } =>
      -- the parameter has the field's own Go type (*Passwd_t, *Email_t, int32): its image has the field's size
      if b.length = n then some (writeAt f (seekPos sz u off) b) else none
    | _ => none

/-- cmbbs.PasswdUpdate: the whole record (`types.BinaryWrite` of a `*UserecRaw`) at `USEREC_RAW_SZ * (uid-1)`. -/
def passwdUpdate (c : Config) (f : List Nat) (uid : Int) (r : List Nat) : Option (List Nat) :=
  match validUid c uid with
  | none => none
  | some u =>
    match c.seek "cmbbs.PasswdUpdate", c.ty "UserecRaw" with
    | some { stride := some sz, offs := [] }, some t =>
      if r.length = sizeP t then some (writeAt f (seekPos sz u 0) r) else none
    | _, _ => none

/-- cmbbs.PasswdQueryPasswd / PasswdQueryUserLevel: seek and read the field; EOF is an error. -/
def passwdRead (c : Config) (fn : String) (f : List Nat) (uid : Int) : Option (List Nat) :=
  match validUid c uid with
  | none => none
  | some u =>
    match c.seek fn with
    | some { stride := some sz, offs := [(off, n)] } => readAt f (seekPos sz u off) n
    | _ => none

/-- cmbbs.PasswdQuery: the whole record. -/
def passwdQuery (c : Config) (f : List Nat) (uid : Int) : Option (List Nat) :=
  match validUid c uid with
  | none => none
  | some u =>
    match c.seek "cmbbs.PasswdQuery", (c.ty "UserecRaw") with
    | some { stride := some sz, offs := [] }, some t => readAt f (seekPos sz u 0) (sizeP t)
    | _, _ => none

/-! little-endian 32-bit values -/

def le32 (v : Nat) : List Nat := [v % 256, v / 256 % 256, v / 65536 % 256, v / 16777216 % 256]

def unLe32 : List Nat → Nat
  | [a, b, c, d] => a + 256 * b + 65536 * c + 16777216 * d
  | _ => 0

/-- passwdCheckPasswd2: create the 128-byte record (version, zeros), or zero-extend a short file; a longer
file is an error. `none` for the file = it does not exist. -/
def checkPasswd2 (c : Config) (version : Nat) (f : Option (List Nat)) : Option (List Nat) := do
  let t ← c.ty "Userec2Raw"
  let sz ← c.const "USEREC2_RAW_SZ"
  match f with
  | none => pure (le32 version ++ List.replicate (sizeP t - 4) 0)
  | some bytes =>
    if bytes.length ≤ sz then pure (bytes ++ List.replicate (sz - bytes.length) 0) else none

/-- cmbbs.PasswdUpdateUserLevel2: read the level at Offsetof(UserLevel2) (a failed read leaves 0), set or clear
the bits, write it back at the second Offsetof, write the time stamp at the third. -/
def updateUserLevel2 (c : Config) (version : Nat) (f : Option (List Nat)) (perm : Nat) (isSet : Bool) (ts : Nat) :
    Option (List Nat) := do
  let f1 ← checkPasswd2 c version f
  match c.seek "cmbbs.PasswdUpdateUserLevel2" with
  | some { stride := _, offs := [(o1, n1), (o2, _), (o3, _)] } =>
    let old := match readAt f1 o1 n1 with
      | some bs => unLe32 bs
      | none => 0
    let new := if isSet then old ||| perm else old &&& (4294967295 - perm)
    pure (writeAt (writeAt f1 o2 (le32 new)) o3 (le32 ts))
  | _ => none

/-- cmbbs.PasswdGetUserLevel2 on an existing file. -/
def getUserLevel2 (c : Config) (f : List Nat) : Option (List Nat) :=
  match c.seek "cmbbs.PasswdGetUserLevel2" with
  | some { stride := _, offs := [(o, n)] } => readAt f o n
  | _ => none

/-! ### whole-record images (types.BinaryRead / BinaryWrite / BinWrite, pointer overlay) -/

/-- what the Go reader returns for a field when it decodes `img` with `encoding/binary` (packed walk). -/
def readFieldPacked (t : Ty) (i : Nat) (img : List Nat) : Option (List Nat) :=
  match t.packed[i]? with
  | some (_, off, n) => if sizeP t ≤ img.length then some (fieldBytes img off n) else none
  | none => none

/-- what the Go code sees in a field of a struct overlaid on `img` by pointer cast. -/
def readFieldAligned (t : Ty) (i : Nat) (img : List Nat) : Option (List Nat) :=
  match t.aligned[i]? with
  | some (_, off, n) => if sizeA t ≤ img.length then some (fieldBytes img off n) else none
  | none => none

/-- `types.BinWrite(file, &v, total)` of a zero struct with field `i` set to `val`:
the packed image followed by zeros up to `total` (`none`: ErrBytesTooLarge). -/
def writeFieldPacked (t : Ty) (i : Nat) (val : List Nat) (total : Nat) : Option (List Nat) :=
  match t.packed[i]? with
  | some (_, off, n) =>
    if val.length ≠ n then none
    else if sizeP t > total then none
    else some (writeAt (List.replicate (sizeP t) 0) off val ++ List.replicate (total - sizeP t) 0)
  | none => none


/-! ### histories: failed writes, then further writes

`types.BinaryWrite` (types/file.go) is `binary.Write(writer, order, data)`: it keeps nothing between calls, so
the bytes a call hands to its writer are the image of ITS argument only — whatever happened before (a write
that failed with ENOSPC/EFBIG/EBADF, an encoding error, a success).  A failed write leaves the file as it was.
The history model therefore has no state besides the files. -/

inductive HStep where
  /-- a record or field write whose `write(2)` (or whose encoding) fails: nothing is written, nothing is kept -/
  | fail
  /-- cmbbs.PasswdUpdatePasswd / PasswdUpdateEmail / cache.passwdUpdateMoney -/
  | upd (fn : String) (uid : Int) (val : List Nat)
  /-- cmbbs.PasswdUpdate -/
  | whole (uid : Int) (r : List Nat)
  /-- cmsys.AppendRecord(".post", &postLog, POSTLOG_SZ): seek to `(size / POSTLOG_SZ) * POSTLOG_SZ`, write the image -/
  | app (r : List Nat)

structure HFiles where
  passwd : List Nat
  post : List Nat

def appendPost (c : Config) (post r : List Nat) : Option (List Nat) := do
  let t ← c.ty "PostLog"
  let sz ← c.const "POSTLOG_SZ"
  if r.length = sizeP t ∧ 0 < sz then some (writeAt post (post.length / sz * sz) r) else none

/-- one step: (succeeded?, files afterwards). -/
def hstep (c : Config) (s : HFiles) : HStep → Bool × HFiles
  | .fail => (false, s)
  | .upd fn uid v =>
    match passwdWrite c fn s.passwd uid v with
    | some f' => (true, { s with passwd := f' })
    | none => (false, s)
  | .whole uid r =>
    match passwdUpdate c s.passwd uid r with
    | some f' => (true, { s with passwd := f' })
    | none => (false, s)
  | .app r =>
    match appendPost c s.post r with
    | some p' => (true, { s with post := p' })
    | none => (false, s)

def runHist (c : Config) : HFiles → List HStep → List Bool × HFiles
  | s, [] => ([], s)
  | s, st :: r =>
    let (ok, s1) := hstep c s st
    let (oks, s2) := runHist c s1 r
    (ok :: oks, s2)

/-! ### fixed-size entries (types.BinWrite) and the `.fav` image -/

def le16 (v : Nat) : List Nat := [v % 256, v / 256 % 256]

/-- `types.BinWrite(file, &record, total)`: the field images back to back, then zeros up to `total`.
A function of the record and the size only. -/
def recordImage (t : Ty) (vals : List (List Nat)) (total : Nat) : Option (List Nat) :=
  if vals.map List.length = t.packed.map (fun x => x.2.2) ∧ sizeP t ≤ total
  then some (vals.flatten ++ List.replicate (total - sizeP t) 0) else none

def favEntries (t : Ty) (total lv attr : Nat) : Nat → Nat → Option (List Nat)
  | 0, _ => some []
  | n + 1, bid => do
      let e ← recordImage t [le32 bid, le32 lv, [attr]] total
      let rest ← favEntries t total lv attr n (bid + 1)
      -- FAVT_BOARD = 1, FAVH_FAV = 1 (ptt/fav/favt.go, types.go): type byte, attribute byte, then the entry
      pure ([1, 1] ++ e ++ rest)

/-- the `.fav` written by FavRaw.Save for `n` board entries bid 1..n with the given last-visit and attribute:
int16 version, int16 nBoards, int8 nLines, int8 nFolders, then per entry type, attr and the padded entry. -/
def favFile (c : Config) (ver n lv attr : Nat) : Option (List Nat) := do
  let t ← c.ty "FavBoard"
  let total ← c.const "SIZE_OF_FAV_BOARD"
  let es ← favEntries t total lv attr n 1
  pure (le16 ver ++ le16 n ++ [0, 0] ++ es)

/-! ### concurrent writers

Each `types.BinWrite` call encodes into storage of its own (`enc i`) and then writes it (`wr i`); calls of
different goroutines interleave arbitrarily.  `img i` is the image of writer `i`'s record. -/

inductive WStep where
  | enc (i : Nat)
  | wr (i : Nat)

structure WState where
  scratch : Nat → List Nat
  files : Nat → List Nat

def wstep (img : Nat → List Nat) (s : WState) : WStep → WState
  | .enc i => { s with scratch := fun j => if j = i then img i else s.scratch j }
  | .wr i => { s with files := fun j => if j = i then s.files j ++ s.scratch i else s.files j }

def wrun (img : Nat → List Nat) (s : WState) (sched : List WStep) : WState := sched.foldl (wstep img) s

def winit : WState := ⟨fun _ => [], fun _ => []⟩

/-- the broken rule (one scratch area shared by all writers), kept for the witness theorem. -/
structure SState where
  scratch : List Nat
  files : Nat → List Nat

def sstep (img : Nat → List Nat) (s : SState) : WStep → SState
  | .enc i => { s with scratch := img i }
  | .wr i => { s with files := fun j => if j = i then s.files j ++ s.scratch else s.files j }

def srun (img : Nat → List Nat) (s : SState) (sched : List WStep) : SState := sched.foldl (sstep img) s


/-! ### `.BRD`: the header of a new board (ptt.addBoardRecord, ptt/admin.go)

`cache.GetBid("")` finds a vacated slot (empty brdname) if there is one: the 256-byte image goes to record
`bid-1` through `cmsys.SubstituteRecord(FN_BOARD, board, BOARD_HEADER_RAW_SZ, bid.ToBidInStore())`; otherwise it is
appended behind the last complete record (`cmsys.AppendRecord`) and the new bid is `n+1`.  Which vacated slot
is chosen and the content of the new header are observations (`bid`, `r`). -/

def vacated (f : List Nat) (sz k : Nat) : Bool := (slot f sz k).head? == some 0

def brdNew (c : Config) (before : List Nat) (bid : Nat) (r : List Nat) : Option (List Nat) := do
  let sz ← c.const "BOARD_HEADER_RAW_SZ"
  let t ← c.ty "BoardHeaderRaw"
  if r.length ≠ sizeP t ∨ bid = 0 ∨ sz = 0 then none
  else
    let n := before.length / sz
    if bid ≤ n then
      if vacated before sz (bid - 1) then some (writeAt before (seekPos sz bid 0) r) else none
    else if bid = n + 1 ∧ (List.range n).all (fun k => !vacated before sz k) then
      some (writeAt before (n * sz) r)
    else none


/-! ### the `multi` union of the article header (`fileheader_t.multi`, 4 bytes in this port)

pttbbs keeps either `int money` or `int anon_uid` (the poster's usernum, 1-based, as it is) in the first four bytes,
little-endian two's complement.  `SetMoney` / `SetAnonUID` write them, `Money` / `AnonUID` read them back. -/

def toU32 (v : Int) : Nat := (v % 4294967296).toNat

def toI32 (n : Nat) : Int := if n < 2147483648 then Int.ofNat n else Int.negSucc (4294967295 - n)

/-- `SetMoney(v)` / `SetAnonUID(v)` on a union holding `pre`. -/
def setMulti (pre : List Nat) (v : Int) : List Nat := le32 (toU32 v) ++ pre.drop 4

/-- `Money()` / `AnonUID()`. -/
def getMulti (m : List Nat) : Int := toI32 (unLe32 (m.take 4))

end PttVerif.C01
