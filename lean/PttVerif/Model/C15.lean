import PttVerif.Common
import PttVerif.Gen.Reg
/-
C15 — concurrent registrations (ptt/register.go SetupNewUser; cmbbs.PasswdLock/Unlock = SysV semaphore;
cache.DoSearchUserRaw / SetUserID = the shared user-id index; passwdSyncUpdate = the .PASSWDS record).

Atomic steps of one registration of (case-folded) id `a` by thread `t`:

  check1    DoSearchUserRaw(id) without the lock          found ⇒ return ErrUserIDAlreadyExists
  semWait   PasswdLock()                                  enabled only while nobody holds the semaphore
  check2    DoSearchUserRaw(id) under the lock            (only if the source repeats the lookup there)
  pick      DoSearchUserRaw(EMPTY_USER_ID) under the lock no empty slot ⇒ SetUserID(0) fails ⇒ error
  setUserID the index (shared memory) gets id at the slot
  write     passwdSyncUpdate: the .PASSWDS record of the slot gets id
  semPost   deferred PasswdUnlock(); the call returns

`pick` is a parameter: any function that returns an empty slot below the capacity when there is one.
Ids are natural numbers standing for case-folded user ids (the index compares with strcasecmp — C04).
-/
namespace PttVerif.C15

inductive Res where
  | ok (slot : Nat)
  | exists_
  | noSlot
  deriving DecidableEq, Repr, Inhabited

inductive PC where
  | start
  | checked                 -- passed the unlocked existence check
  | locked                  -- holds the semaphore, before the second check
  | rechecked               -- holds the semaphore, id (still) absent
  | assigned (slot : Nat)   -- index updated, record not yet written
  | written (slot : Nat)    -- record written
  | unlocking (r : Res)     -- about to post the semaphore and return r
  | done (r : Res)
  deriving DecidableEq, Repr, Inhabited

structure Sys where
  pc : Nat → PC
  sem : Option Nat                 -- thread holding the passwd semaphore
  table : Nat → Option Nat         -- slot ↦ id in the shared index (none = empty slot)
  disk : Nat → Option Nat          -- slot ↦ id in .PASSWDS
  who : Nat → Option Nat           -- ghost: the registration that assigned the slot

/-- whether the source repeats the "id exists" lookup after taking the lock: the call list
regenerated from ptt.SetupNewUser has a `searchUser` after `lock`. -/
def checkUnderLockOf (calls : List String) : Bool :=
  ((calls.dropWhile (· ≠ "lock")).drop 1).contains "searchUser"

/-- the existence lookup before the lock, the slot search and the two writes must be there too. -/
def wellFormedCalls (calls : List String) : Bool :=
  let afterLock := (calls.dropWhile (· ≠ "lock")).drop 1
  (calls.takeWhile (· ≠ "lock")).contains "searchUser" &&
  afterLock.contains "searchEmpty" && afterLock.contains "setUserID" && afterLock.contains "writeRecord" &&
  calls.contains "unlock"

def sourceChecksUnderLock : Bool := checkUnderLockOf Gen.Reg.setupNewUserCalls

structure Params where
  cap : Nat                                   -- MAX_USERS
  idOf : Nat → Nat                            -- thread ↦ the (folded) id it registers
  pick : (Nat → Option Nat) → Option Nat      -- empty-slot search
  checkUnderLock : Bool

def hasId (tbl : Nat → Option Nat) (cap a : Nat) : Bool :=
  (List.range cap).any (fun k => tbl k == some a)

def setPc (s : Sys) (t : Nat) (p : PC) : Nat → PC := fun u => if u = t then p else s.pc u
def setSlot (f : Nat → Option Nat) (k : Nat) (v : Option Nat) : Nat → Option Nat :=
  fun j => if j = k then v else f j

def step (P : Params) (s : Sys) (t : Nat) : Option Sys :=
  match s.pc t with
  | .start =>
      if hasId s.table P.cap (P.idOf t) then some { s with pc := setPc s t (.done .exists_) }
      else some { s with pc := setPc s t .checked }
  | .checked =>
      match s.sem with
      | none => some { s with pc := setPc s t .locked, sem := some t }
      | some _ => none
  | .locked =>
      if P.checkUnderLock && hasId s.table P.cap (P.idOf t) then
        some { s with pc := setPc s t (.unlocking .exists_) }
      else some { s with pc := setPc s t .rechecked }
  | .rechecked =>
      match P.pick s.table with
      | none => some { s with pc := setPc s t (.unlocking .noSlot) }
      | some k => some { s with pc := setPc s t (.assigned k),
                                table := setSlot s.table k (some (P.idOf t)),
                                who := setSlot s.who k (some t) }
  | .assigned k => some { s with pc := setPc s t (.written k), disk := setSlot s.disk k (some (P.idOf t)) }
  | .written k => some { s with pc := setPc s t (.unlocking (.ok k)) }
  | .unlocking r => some { s with pc := setPc s t (.done r), sem := none }
  | .done _ => none

/-- the lowest empty slot below the capacity (what the driver uses; the theorems hold for any pick). -/
def pickLowest (cap : Nat) (tbl : Nat → Option Nat) : Option Nat :=
  (List.range cap).find? (fun k => (tbl k).isNone)

def init (tbl : Nat → Option Nat) : Sys :=
  { pc := fun _ => .start, sem := none, table := tbl, disk := tbl, who := fun _ => none }

inductive Reachable (P : Params) (tbl : Nat → Option Nat) : Sys → Prop where
  | init : Reachable P tbl (init tbl)
  | step {s s' : Sys} (t : Nat) : Reachable P tbl s → step P s t = some s' → Reachable P tbl s'

/-! ### schedule-level semantics driven by the harness (hook points reg.afterCheck / afterLock / beforeUnlock)

  seg 0: call → reg.afterCheck         check1 (found ⇒ the call returns)
  seg 1: afterCheck → reg.afterLock    semWait (may block)
  seg 2: afterLock → reg.beforeUnlock  check2, pick, setUserID, write  (or an early error)
  seg 3: beforeUnlock → return         semPost
A release into seg 1 while another thread is already waiting is not driven (no-op), so there is at
most one waiter and the wake-up order is determined. -/

structure Sched where
  sys : Sys
  blocked : Nat → Bool

def runWhile (P : Params) (t : Nat) : Nat → Sys → Sys
  | 0, s => s
  | fuel + 1, s =>
      match s.pc t with
      | .unlocking _ | .done _ => s
      | _ => match step P s t with
             | some s' => runWhile P t fuel s'
             | none => s

def wake (P : Params) (n : Nat) (sc : Sched) : Sched :=
  match sc.sys.sem with
  | some _ => sc
  | none =>
    match (List.range n).find? (fun u => sc.blocked u) with
    | none => sc
    | some u =>
      match step P sc.sys u with
      | some s' => { sys := s', blocked := fun v => if v = u then false else sc.blocked v }
      | none => sc

def release (P : Params) (n : Nat) (sc : Sched) (t : Nat) : Sched :=
  if sc.blocked t then sc
  else match sc.sys.pc t with
    | .start => match step P sc.sys t with
        | some s' => { sc with sys := s' }
        | none => sc
    | .checked =>
        if (List.range n).any (fun u => sc.blocked u) then sc
        else match step P sc.sys t with
          | some s' => { sc with sys := s' }
          | none => { sc with blocked := fun v => if v = t then true else sc.blocked v }
    | .locked => { sc with sys := runWhile P t 6 sc.sys }
    | .unlocking _ => match step P sc.sys t with
        | some s' => wake P n { sc with sys := s' }
        | none => sc
    | _ => sc

def showRes : Res → String
  | .ok _ => "ok"
  | .exists_ => "exists"
  | .noSlot => "noslot"

def showPC (blocked : Bool) : PC → String
  | .start => "start"
  | .checked => if blocked then "blocked" else "checked"
  | .locked => "locked"
  | .unlocking _ => "unlocking"
  | .done r => showRes r
  | _ => "?"

/-- op semantics: `taken[k]` is the id code in slot k at the start (0 = empty slot), `ids[t]` the id
code thread t registers. Answer: every thread's state, then the sorted ids newly present in the
index, then the sorted ids newly present in .PASSWDS. -/
def runSchedule (cap : Nat) (taken : List Nat) (ids : List Nat) (checkUnderLock : Bool) (sched : List Nat) : String :=
  let tbl : Nat → Option Nat := fun k => match taken[k]? with
    | some 0 => none
    | some a => some a
    | none => none
  let P : Params := { cap := cap, idOf := fun t => ids.getD t 0, pick := pickLowest cap, checkUnderLock := checkUnderLock }
  let n := ids.length
  let sc := sched.foldl (release P n) { sys := init tbl, blocked := fun _ => false }
  let pcs := (List.range n).map (fun t => showPC (sc.blocked t) (sc.sys.pc t))
  let fresh (f : Nat → Option Nat) := (List.range cap).filterMap (fun k => if (tbl k).isSome then none else f k)
  let sortN (l : List Nat) := (l.toArray.qsort (· < ·)).toList
  " ".intercalate pcs ++ " | " ++ ",".intercalate ((sortN (fresh sc.sys.table)).map toString) ++ " | " ++
    ",".intercalate ((sortN (fresh sc.sys.disk)).map toString)

/-! ### server processes

A registration thread lives in a (process, goroutine) pair: `proc t` is the server process of thread `t`.
Nothing in `Sys` belongs to a process: `sem` is the SysV semaphore (a kernel object, one per key), `table`
is the user-id index in the shared-memory segment every server attaches, `disk` is the file .PASSWDS. So
the step of a thread is the same whatever process it lives in — `stepP` takes the assignment and does
not look at it (`Props.stepP_ignores_proc`), and the reachable states are those of `Reachable`
(`Props.reachableP_iff`).

A server process that starts up runs cmbbs.PasswdInit (main_init): the semaphore exists already (the first
server created it and set it to 1), so PasswdInit only looks up its identifier — semget without IPC_CREAT —
and leaves its value, hence the holder and the waiters, alone: `procInit` is the identity on `Sys`. -/

def stepP (_proc : Nat → Nat) (P : Params) (s : Sys) (t : Nat) : Option Sys := step P s t

def procInit (s : Sys) (_q : Nat) : Sys := s

inductive ReachableP (proc : Nat → Nat) (P : Params) (tbl : Nat → Option Nat) : Sys → Prop where
  | init : ReachableP proc P tbl (init tbl)
  | step {s s' : Sys} (t : Nat) : ReachableP proc P tbl s → stepP proc P s t = some s' → ReachableP proc P tbl s'
  | procInit {s : Sys} (q : Nat) : ReachableP proc P tbl s → ReachableP proc P tbl (procInit s q)

/-! ### schedule-level semantics with several waiters (ops `regp`)

Schedule elements:  e < 50        release thread e to its next hook point
                    50 ≤ e < 100  the kernel hands the posted semaphore to waiter e - 50 (observed by the harness)
                    100 ≤ e       a fresh server process starts and runs PasswdInit
A release into seg 1 while the semaphore is taken blocks the thread, whether or not others wait already
(they may sit in the same process or in another one). When the holder posts and exactly one thread waits,
that one proceeds; with two or more the kernel picks, the post leaves them all blocked and the `wake`
element that follows names the one that got the semaphore — the others stay blocked. -/

inductive Ev where
  | rel (t : Nat)
  | wake (t : Nat)
  | start (q : Nat)
  deriving DecidableEq, Repr

def decodeEv (e : Nat) : Ev :=
  if e < 50 then .rel e else if e < 100 then .wake (e - 50) else .start (e - 100)

def nBlocked (n : Nat) (sc : Sched) : Nat := ((List.range n).filter (fun u => sc.blocked u)).length

def releaseP (P : Params) (n : Nat) (sc : Sched) (t : Nat) : Sched :=
  if sc.blocked t then sc
  else match sc.sys.pc t with
    | .start => match step P sc.sys t with
        | some s' => { sc with sys := s' }
        | none => sc
    | .checked => match step P sc.sys t with
        | some s' => { sc with sys := s' }
        | none => { sc with blocked := fun v => if v = t then true else sc.blocked v }
    | .locked => { sc with sys := runWhile P t 6 sc.sys }
    | .unlocking _ => match step P sc.sys t with
        | some s' => if nBlocked n sc ≤ 1 then wake P n { sc with sys := s' } else { sc with sys := s' }
        | none => sc
    | _ => sc

/-- the waiter `u` obtains the semaphore (its semop returns): enabled only while nobody holds it. -/
def wakeTid (P : Params) (sc : Sched) (u : Nat) : Sched :=
  if sc.blocked u then
    match step P sc.sys u with
    | some s' => { sys := s', blocked := fun v => if v = u then false else sc.blocked v }
    | none => sc
  else sc

def startProc (sc : Sched) (q : Nat) : Sched := { sc with sys := procInit sc.sys q }

def applyEv (P : Params) (n : Nat) (sc : Sched) (e : Nat) : Sched :=
  match decodeEv e with
  | .rel t => releaseP P n sc t
  | .wake u => wakeTid P sc u
  | .start q => startProc sc q

def runScheduleP (cap : Nat) (taken : List Nat) (ids : List Nat) (checkUnderLock : Bool) (sched : List Nat) : String :=
  let tbl : Nat → Option Nat := fun k => match taken[k]? with
    | some 0 => none
    | some a => some a
    | none => none
  let P : Params := { cap := cap, idOf := fun t => ids.getD t 0, pick := pickLowest cap, checkUnderLock := checkUnderLock }
  let n := ids.length
  let sc := sched.foldl (applyEv P n) { sys := init tbl, blocked := fun _ => false }
  let pcs := (List.range n).map (fun t => showPC (sc.blocked t) (sc.sys.pc t))
  let fresh (f : Nat → Option Nat) := (List.range cap).filterMap (fun k => if (tbl k).isSome then none else f k)
  let sortN (l : List Nat) := (l.toArray.qsort (· < ·)).toList
  " ".intercalate pcs ++ " | " ++ ",".intercalate ((sortN (fresh sc.sys.table)).map toString) ++ " | " ++
    ",".intercalate ((sortN (fresh sc.sys.disk)).map toString)

/-! ### the clean-up before the lock (ptt.tryCleanUser → checkAndExpireAccount → killUser)

When the slot search before the lock finds no empty slot and `.fresh` is older than an hour, SetupNewUser
walks .PASSWDS and tears down accounts expired for long enough — BEFORE PasswdLock, i.e. concurrently with
whatever registration holds the lock. For one expirable slot `v` the tear-down is two atomic steps with the
home-directory work between them:

  cleanBegin   what killUser does to the shared state before the home directory: in the source nothing
               (`unindex = false`); a killUser that first takes the id out of the index — SetUserID(v, "") —
               is `unindex = true`: the slot joins the free chain while its record is still to be zeroed
  cleanEnd     passwdSyncUpdate(v, empty record): .PASSWDS[v] is zeroed

Whether the source writes the index there is a regenerated fact (`Gen.Reg.cleanUserCalls`). -/

def cleanWritesIndexOf (calls : List String) : Bool := calls.contains "setUserID"
def sourceCleanWritesIndex : Bool := cleanWritesIndexOf Gen.Reg.cleanUserCalls
/-- the extraction saw the tear-down: tryCleanUser reaches killUser and the zero-record write, and takes no lock. -/
def wellFormedClean (calls : List String) : Bool :=
  calls.contains "killUser" && calls.contains "writeRecord" && !calls.contains "lock"
/-- SetupNewUser runs the clean-up before it takes the lock. -/
def cleanBeforeLockOf (calls : List String) : Bool := (calls.takeWhile (· ≠ "lock")).contains "tryClean"

def hasEmpty (tbl : Nat → Option Nat) (cap : Nat) : Bool := (List.range cap).any (fun k => (tbl k).isNone)

def cleanBegin (unindex : Bool) (s : Sys) (v : Nat) : Sys :=
  if unindex then { s with table := setSlot s.table v none } else s

def cleanEnd (s : Sys) (v : Nat) : Sys := { s with disk := setSlot s.disk v none }

structure XSys where
  sys : Sys
  kill : Nat → Bool        -- the thread is inside killUser of slot v, the record not yet zeroed

/-- one atomic step of the system with clean-up: a registration step of `t`, or `t` entering / leaving
the tear-down of slot `v` (entered from `checked`, when the index has no empty slot and the record is there). -/
inductive XAct where
  | reg | enter | leave
  deriving DecidableEq, Repr

def xstep (P : Params) (unindex : Bool) (v : Nat) (x : XSys) (a : XAct) (t : Nat) : Option XSys :=
  match a with
  | .reg => if x.kill t then none else (step P x.sys t).map (fun s' => { x with sys := s' })
  | .enter =>
      if x.kill t then none
      else match x.sys.pc t with
        | .checked =>
            if !hasEmpty x.sys.table P.cap && (x.sys.disk v).isSome then
              some { sys := cleanBegin unindex x.sys v, kill := fun u => if u = t then true else x.kill u }
            else none
        | _ => none
  | .leave =>
      if x.kill t then some { sys := cleanEnd x.sys v, kill := fun u => if u = t then false else x.kill u }
      else none

inductive ReachableX (P : Params) (unindex : Bool) (v : Nat) (tbl : Nat → Option Nat) : XSys → Prop where
  | init : ReachableX P unindex v tbl { sys := init tbl, kill := fun _ => false }
  | step {x x' : XSys} (a : XAct) (t : Nat) : ReachableX P unindex v tbl x → xstep P unindex v x a t = some x' →
      ReachableX P unindex v tbl x'

/-! schedule-level semantics of the `regx` ops: as `regp`, plus the expirable slot `v` and the state of
`.fresh`. A release from `checked` first does what SetupNewUser does before the lock: no empty slot and a
stale `.fresh` ⇒ touch `.fresh`, and if the record of `v` is there enter its tear-down and stop in it (the
harness holds the thread there: the account's aloha list is a FIFO). The next release leaves the tear-down
(zero record) and goes on to the semaphore. -/

structure XSched where
  sc : Sched
  kill : Nat → Bool
  fresh : Bool

def releaseX (P : Params) (unindex : Bool) (v : Nat) (n : Nat) (xs : XSched) (t : Nat) : XSched :=
  if xs.kill t then
    -- leave the tear-down, then on to semWait
    let x' := cleanEnd xs.sc.sys v
    let xs1 : XSched := { xs with sc := { xs.sc with sys := x' }, kill := fun u => if u = t then false else xs.kill u }
    { xs1 with sc := releaseP P n xs1.sc t }
  else if xs.sc.blocked t then xs
  else match xs.sc.sys.pc t with
    | .checked =>
        if !hasEmpty xs.sc.sys.table P.cap && !xs.fresh then
          if (xs.sc.sys.disk v).isSome then
            { xs with sc := { xs.sc with sys := cleanBegin unindex xs.sc.sys v }, fresh := true,
                      kill := fun u => if u = t then true else xs.kill u }
          else { xs with fresh := true, sc := releaseP P n xs.sc t }
        else { xs with sc := releaseP P n xs.sc t }
    | _ => { xs with sc := releaseP P n xs.sc t }

def applyEvX (P : Params) (unindex : Bool) (v : Nat) (n : Nat) (xs : XSched) (e : Nat) : XSched :=
  match decodeEv e with
  | .rel t => releaseX P unindex v n xs t
  | .wake u => { xs with sc := wakeTid P xs.sc u }
  | .start q => { xs with sc := startProc xs.sc q }

def showOpt : Option Nat → String
  | none => "0"
  | some a => toString a

/-- answer as for `regp`, with `killing` for a thread inside the tear-down, then the expirable slot's
entry in the index and in .PASSWDS. -/
def runScheduleX (cap : Nat) (taken : List Nat) (ids : List Nat) (checkUnderLock unindex : Bool) (v : Nat)
    (sched : List Nat) : String :=
  let tbl : Nat → Option Nat := fun k => match taken[k]? with
    | some 0 => none
    | some a => some a
    | none => none
  let P : Params := { cap := cap, idOf := fun t => ids.getD t 0, pick := pickLowest cap, checkUnderLock := checkUnderLock }
  let n := ids.length
  let xs := sched.foldl (applyEvX P unindex v n) { sc := { sys := init tbl, blocked := fun _ => false }, kill := fun _ => false, fresh := false }
  let sc := xs.sc
  let pcs := (List.range n).map (fun t => if xs.kill t then "killing" else showPC (sc.blocked t) (sc.sys.pc t))
  let fresh (f : Nat → Option Nat) := (List.range cap).filterMap (fun k => if (tbl k).isSome then none else f k)
  let sortN (l : List Nat) := (l.toArray.qsort (· < ·)).toList
  " ".intercalate pcs ++ " | " ++ ",".intercalate ((sortN (fresh sc.sys.table)).map toString) ++ " | " ++
    ",".intercalate ((sortN (fresh sc.sys.disk)).map toString) ++ " | " ++
    showOpt (sc.sys.table v) ++ ":" ++ showOpt (sc.sys.disk v)

/-! ### the request entry (ptt.NewRegister)

ptt.NewRegister builds a record from the request — a pure step on a value of the request's own — and hands
it to SetupNewUser. In the model the id a registration checks, writes and reports on is the per-thread
constant `P.idOf t`: that is right exactly when the record is not shared between requests, a regenerated
fact (`Gen.Reg.requestRecord = "fresh"`: composite literal, `new`, or the address of a local). The ops
`nregp` / `nregx` are `regp` / `regx` driven through ptt.NewRegister; the model is the same. -/

def requestRecordLocalOf (verdict : String) : Bool := verdict == "fresh"
def sourceRequestRecordLocal : Bool := requestRecordLocalOf Gen.Reg.requestRecord

end PttVerif.C15
