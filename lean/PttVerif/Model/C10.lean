import PttVerif.Common
import PttVerif.Model.C05
import PttVerif.Gen.Comment
/-
C10 — model of the comment path:
  ptt/recommend.go        : Recommend (the part after the permission guards, which belong to C08)
  ptt/comments.go         : FormatCommentString (both layouts: OLDRECOMMEND on/off; IP log; aligned id),
                            doAddRecommend, doAddRecommendNoSmartMerge / doAddRecommendSmartMerge
  ptttype/comment_type.go : CommentType.Bytes()   (table regenerated in Gen/Comment.lean)
  types/ansi              : ANSIColor, ANSIReset
  cmsys/record.go         : GetRecord — only its own re-read + name check; the search that proposes an index
                            (FindRecordStartIdx, property C06) is a PARAMETER `find` of the model, and every
                            theorem holds for every `find`
  strconv.Atoi            : on the ten bytes f[2:12] of the requested name (ok / error only)
ptt.ModifyDirLite and its int8 arithmetic are the ones of Model/C05.lean.

Bytes are `Nat`s below 256.  A board is its `.DIR` (`C05.FS`) plus the article files of its directory
(`files`, name ↦ content; O_APPEND write = `old ++ line`).  The wall clock (`time`: the eleven bytes of
`NowTS().CdateMdHM()`) and the article file's mtime after the write (`mtime`) are parameters of a request.
Not modelled: the permission guards before the lookup (boardPermStat, CheckPostPerm2, restriction reason,
cooldown — property C08; the harness uses accounts for which they pass), failures of open/flock/write for
environmental reasons, concurrent commenters.
-/
namespace PttVerif.C10
open PttVerif PttVerif.C05
open Gen.Comment Gen.RecFile

abbrev Bytes := List Nat

/-! ### types/ansi -/

/-- `ansi.ANSIColor(c)` = ESC `[` c `m`. -/
def ansiColor (c : Bytes) : Bytes := [ESC, 91] ++ c ++ [109]
/-- `ansi.ANSIReset()` = ESC `[m`. -/
def ansiReset : Bytes := [ESC, 91, 109]

/-- `CommentType.Bytes()`: colour + glyph for the listed types, nil otherwise. -/
def typeBytes (t : Nat) : Bytes :=
  match typeMarks.find? (fun e => e.1 == t) with
  | some e => ansiColor e.2.1 ++ e.2.2
  | none => []

/-! ### FormatCommentString -/

structure Cfg where
  attr : Nat            -- board.BrdAttr
  oldRecommend : Bool   -- ptttype.OLDRECOMMEND
  smartMerge : Bool     -- ptttype.EDITPOST_SMARTMERGE: both branches append the same bytes (the smart one under flock, retried)
  deriving Repr, DecidableEq

/-! ### site configuration: ptttype/config.go config()

`config()` is a list of `X = setTConfig("KEY", X)` lines (regenerated as `Gen.PttConfig.configLines`); `viper` is what
the deployment's ini file sets (key ↦ value).  Only the two switches the comment path reads are tracked. -/

abbrev ConfigLine := String × String × String × String

def lookupKey (viper : List (String × Bool)) (k : String) : Option Bool :=
  match viper with
  | [] => none
  | (k', b) :: rest => if k' = k then some b else lookupKey rest k

def setKey (viper : List (String × Bool)) (k : String) (b : Bool) : List (String × Bool) :=
  match viper with
  | [] => [(k, b)]
  | (k', b') :: rest => if k' = k then (k', b) :: rest else (k', b') :: setKey rest k b

/-- a line that assigns one of the switches of the comment path. -/
def relevantLine (l : ConfigLine) : Bool :=
  l.2.1 = "setBoolConfig" && (l.1 = "OLDRECOMMEND" || l.1 = "EDITPOST_SMARTMERGE")

/-- `X = setBoolConfig("KEY", X)`: the value under KEY when the deployment sets it, else unchanged. -/
def applyLine (viper : List (String × Bool)) (c : Cfg) (l : ConfigLine) : Cfg :=
  if relevantLine l then
    match lookupKey viper l.2.2.1 with
    | some b => if l.1 = "OLDRECOMMEND" then { c with oldRecommend := b } else { c with smartMerge := b }
    | none => c
  else c

/-- `ptttype.InitConfig` as far as the comment path is concerned. -/
def applyConfig (lines : List ConfigLine) (viper : List (String × Bool)) (c : Cfg) : Cfg :=
  lines.foldl (applyLine viper) c

/-- `BrdAttr.HasPerm` / `x & c != 0`. -/
def hasBit (a c : Nat) : Bool := a &&& c != 0

structure Req where
  user : Bytes          -- user.UserID, a UserID_t (IDLEN+1 bytes)
  name : Bytes          -- the requested *Filename_t (FNLEN bytes)
  ctype : Nat           -- CommentType (uint8)
  text : Bytes          -- content
  ip : Bytes            -- *IPv4_t (IPV4LEN+1 bytes)
  time : Bytes          -- types.NowTS().CdateMdHM()
  mtime : Int           -- types.DashT(article file) after the write
  deriving Repr, DecidableEq

/-- the literal strings of FormatCommentString -/
def c33 : Bytes := [51, 51]             -- "33"
def c131 : Bytes := [49, 59, 51, 49]    -- "1;31"
def arrowGlyph : Bytes := [161, 247]    -- "\xa1\xf7"
def pushGlyph : Bytes := [177, 192]     -- "\xb1\xc0"

def isLogIP (cfg : Cfg) : Bool := hasBit cfg.attr BRD_IPLOGRECMD
def isAligned (cfg : Cfg) : Bool := hasBit cfg.attr BRD_ALIGNEDCMT

/-- `maxlen` before the id and the text are subtracted: 78 - 3 - 6 - 1 - 6, minus 15 with the IP log. -/
def baseLen (cfg : Cfg) : Int := if isLogIP cfg then 78 - 3 - 6 - 1 - 6 - 15 else 78 - 3 - 6 - 1 - 6

/-- the id as printed: the whole array in the aligned layout (NULs and all), else the C string. -/
def userBytes (cfg : Cfg) (q : Req) : Bytes := if isAligned cfg then q.user else cstr q.user

/-- `[ip] ' ' time`. -/
def tail (cfg : Cfg) (q : Req) : Bytes := (if isLogIP cfg then cstr q.ip else []) ++ [32] ++ q.time

/-- number of blanks: `maxlen` with the `< 0 ⇒ 0` clamp (`Int.toNat`). -/
def padLen (cfg : Cfg) (q : Req) : Nat :=
  if cfg.oldRecommend then
    (baseLen cfg - 2 - ((userBytes cfg q).length : Int) - (q.text.length : Int)).toNat
  else
    (baseLen cfg - ((userBytes cfg q).length : Int) - (q.text.length : Int)).toNat

def formatComment (cfg : Cfg) (q : Req) : Bytes :=
  let ub := userBytes cfg q
  let ws := List.replicate (padLen cfg q) 32
  if cfg.oldRecommend then
    let pre := ansiColor c131 ++ arrowGlyph ++ [32] ++ ansiColor c33
    let inf := ansiReset ++ ansiColor c33 ++ [58]
    let post := ansiReset ++ pushGlyph
    pre ++ ub ++ inf ++ q.text ++ ws ++ post ++ tail cfg q ++ [10]
  else
    let pre := ansiColor c33
    let inf := ansiReset ++ ansiColor c33 ++ [58] ++ [32]
    let post := ansiReset
    typeBytes q.ctype ++ [32] ++ pre ++ ub ++ inf ++ q.text ++ ws ++ post ++ tail cfg q ++ [10]

/-! ### the board state -/

structure St where
  dir : FS
  files : List (Bytes × Bytes)
  deriving Repr, DecidableEq

def fileGet (fs : List (Bytes × Bytes)) (n : Bytes) : Option Bytes :=
  match fs with
  | [] => none
  | e :: rest => if e.1 = n then some e.2 else fileGet rest n

def fileSet (fs : List (Bytes × Bytes)) (n c : Bytes) : List (Bytes × Bytes) :=
  fs.map (fun e => if e.1 = n then (e.1, c) else e)

inductive Res where
  | ok (line : Bytes) (idx : Nat)   -- comment, 1-based index of the entry
  | refused                         -- ptt.ErrNotPermitted of the refusal test
  | params                          -- ErrInvalidParams: the board has no entries
  | badText                         -- ErrInvalidParams: the text contains a line break (since b012a03)
  | badName                         -- strconv error from Filename_t.CreateTime
  | notFound                        -- cmsys.ErrRecordNotFound
  | noFile                          -- open(article) fails
  | lockErr                         -- the article lock was not obtained in any of the 5 attempts of doAddRecommend
  | writeErr                        -- write(2) on the article failed (EFBIG / ENOSPC / EDQUOT) after the open succeeded
  | idxErr                          -- ptttype.ErrInvalidIdx from ModifyDirLite
  | osErr                           -- short read / seek error
  deriving Repr, DecidableEq

/-! ### cmsys.GetRecord -/

def isDigit (c : Nat) : Bool := 48 ≤ c && c ≤ 57

/-- `strconv.Atoi` succeeds (strings shorter than 19 bytes: optional sign, then at least one digit, digits only). -/
def atoiOk : Bytes → Bool
  | [] => false
  | c :: rest =>
    if c = 45 ∨ c = 43 then !rest.isEmpty && rest.all isDigit
    else (c :: rest).all isDigit

/-- `Filename_t.Eq`: `Cstrcmp(f[2:], f2[2:]) == 0`. -/
def nameEq (req recName : Bytes) : Bool := cstrcmpEq (req.drop 2) (recName.drop 2)

/-- GetRecord after the search proposed the 0-based entry `k`: re-read it, compare the name. -/
def getRecord (find : Bytes → Nat → Bytes → Option Nat) (dir : FS) (total : Nat) (name : Bytes) :
    Except Res (Nat × Bytes) :=
  if !atoiOk ((name.drop 2).take 10) then .error .badName
  else match find dir.bytes total name with
    | none => .error .notFound
    | some k =>
      let r := record dir.bytes dirSz k
      if r.length < dirSz then .error .osErr
      else if !nameEq name (field r offFilename lenFilename) then .error .notFound
      else .ok (k + 1, r)

/-! ### doAddRecommend -/

/-- the `update` of doAddRecommend, from the score in the entry that GetRecord read. -/
def scoreUpdate (ctype : Nat) (cur : Int) : Int :=
  if ctype = COMMENT_TYPE_RECOMMEND ∧ cur < maxRec then 1
  else if ctype = COMMENT_TYPE_BOO ∧ cur > -maxRec then -1
  else 0

def modArgs (nameArr : Bytes) (mtime update : Int) : ModArgs :=
  { name := nameArr, mtime := mtime, title := none, owner := none, date := none,
    recommend := update, multi := none, enable := 0, disable := 0 }

def doAddRecommend (st : St) (idx : Nat) (r line : Bytes) (ctype : Nat) (mtime : Int) : St × Res :=
  let nameArr := field r offFilename lenFilename
  let fname := cstr nameArr                         -- fhdr.Filename.String()
  match fileGet st.files fname with
  | none => (st, .noFile)                           -- OpenFile(O_APPEND|O_WRONLY) without O_CREATE
  | some old =>
    let st1 : St := { st with files := fileSet st.files fname (old ++ line) }
    let update := scoreUpdate ctype (toInt8 (r.getD offRecommend 0))
    if mtime > 0 then
      match modifyDirLite st.dir (idx : Int) (modArgs nameArr mtime update) with
      | (dir', .unit .ok) => ({ st1 with dir := dir' }, .ok line idx)
      | (_, .unit .invalidIdx) => (st1, .idxErr)    -- the line is already in the file
      | (_, _) => (st1, .osErr)
    else (st1, .ok line idx)

/-! ### Recommend -/

/-- the refusal test of Recommend: board flag, first byte `L` of the entry's name (fhdr.Filename[0], since
0448f6d; the requested letter plays no role), marked ∧ solved of the entry. -/
def refusedBy (cfg : Cfg) (_q : Req) (r : Bytes) : Bool :=
  let fm := r.getD offFilemode 0
  hasBit cfg.attr BRD_NORECOMMEND || r.getD offFilename 0 == 76 || (hasBit fm Gen.Comment.FILE_MARKED && hasBit fm Gen.Comment.FILE_SOLVED)

/-- `bytes.ContainsAny(content, "\n\r")`. -/
def hasLineBreak (text : Bytes) : Bool := text.any (fun b => b == 10 || b == 13)

def recommend (find : Bytes → Nat → Bytes → Option Nat) (cfg : Cfg) (st : St) (q : Req) : St × Res :=
  let total := st.dir.bytes.length / dirSz          -- Shm total, set from the .DIR size by SetBTotal
  if total = 0 then (st, .params)
  else match getRecord find st.dir total q.name with
    | .error e => (st, e)
    | .ok (idx, r) =>
      if refusedBy cfg q r then (st, .refused)
      else if hasLineBreak q.text then (st, .badText)
      else doAddRecommend st idx r (formatComment cfg q) q.ctype q.mtime

/-! ### the two phases of a comment, for interleaved commenters

Recommend is not atomic.  Phase A (Recommend up to FormatCommentString) reads the index entry ONCE
(`GetRecord`) and keeps that copy; phase B (doAddRecommend) appends the line under the article's lock —
a commenter that finds the article locked sleeps DO_ADD_RECOMMEND_LOCK_WAIT and retries — then decides its
delta from the copy of phase A, which by then may be stale, and hands it to ModifyDirLite, which re-reads the
entry from the file.  Other commenters' phases may run between any two of these steps.  ModifyDirLite
itself (read, modify, write of one entry through one descriptor) is taken as one step. -/

/-- what a commenter carries from phase A into phase B. -/
structure Ticket where
  idx : Nat        -- 1-based index GetRecord returned
  copy : Bytes     -- the COPY of the entry (fhdr): its name and its score are used later
  line : Bytes     -- the formatted comment
  ctype : Nat
  mtime : Int      -- DashT(article) after this commenter's own write
  deriving Repr, DecidableEq

/-- phase A: lookup, refusal tests, formatting.  Reads the state, changes nothing. -/
def phaseA (find : Bytes → Nat → Bytes → Option Nat) (cfg : Cfg) (st : St) (q : Req) : Except Res Ticket :=
  let total := st.dir.bytes.length / dirSz
  if total = 0 then .error .params
  else match getRecord find st.dir total q.name with
    | .error e => .error e
    | .ok (idx, r) =>
      if refusedBy cfg q r then .error .refused
      else if hasLineBreak q.text then .error .badText
      else .ok { idx := idx, copy := r, line := formatComment cfg q, ctype := q.ctype, mtime := q.mtime }

/-- phase B, first half: the O_APPEND write to the article named in the copy. -/
def phaseWrite (st : St) (t : Ticket) : Except Res St :=
  let fname := cstr (field t.copy offFilename lenFilename)
  match fileGet st.files fname with
  | none => .error .noFile
  | some old => .ok { st with files := fileSet st.files fname (old ++ t.line) }

/-- phase B, second half: the delta is decided from the COPY's score; ModifyDirLite adds it to the score it
re-reads from the file and clamps the sum. -/
def phaseIndex (st : St) (t : Ticket) : St × Res :=
  let nameArr := field t.copy offFilename lenFilename
  let update := scoreUpdate t.ctype (toInt8 (t.copy.getD offRecommend 0))
  if t.mtime > 0 then
    match modifyDirLite st.dir (t.idx : Int) (modArgs nameArr t.mtime update) with
    | (dir', .unit .ok) => ({ st with dir := dir' }, .ok t.line t.idx)
    | (_, .unit .invalidIdx) => (st, .idxErr)
    | (_, _) => (st, .osErr)
  else (st, .ok t.line t.idx)

/-- the whole of phase B. -/
def phaseB (st : St) (t : Ticket) : St × Res :=
  match phaseWrite st t with
  | .error e => (st, e)
  | .ok st1 => phaseIndex st1 t

/-! ### a write that fails after the open

Both append functions (`doAddRecommendNoSmartMerge`, the branch of EDITPOST_SMARTMERGE = false, and
`doAddRecommendSmartMerge`) do `file.Write(comment)` on an O_APPEND descriptor and return its error.  When only
`room` more bytes fit (file-size limit: EFBIG; full disk: ENOSPC; quota: EDQUOT) the kernel writes the first
`room` bytes of the line and the call fails: the torn beginning of the line stays behind the old content, no
byte of the old content is touched, doAddRecommend returns before it looks at the index.  (The smart-merge
branch repeats the attempt four more times, one second apart; nothing fits any more, so nothing more is
written.) -/

def phaseWriteFault (st : St) (t : Ticket) (room : Nat) : St :=
  let fname := cstr (field t.copy offFilename lenFilename)
  match fileGet st.files fname with
  | none => st
  | some old => { st with files := fileSet st.files fname (old ++ t.line.take room) }

/-- Recommend when at most `room` more bytes fit into the article. -/
def recommendFault (find : Bytes → Nat → Bytes → Option Nat) (cfg : Cfg) (st : St) (q : Req) (room : Nat) : St × Res :=
  match phaseA find cfg st q with
  | .error e => (st, e)
  | .ok t =>
    if room < t.line.length then
      match fileGet st.files (cstr (field t.copy offFilename lenFilename)) with
      | none => (st, .noFile)
      | some _ => (phaseWriteFault st t room, .writeErr)
    else phaseB st t

/-- the rule of seeded change C10-r4-2: after a failed write of which `n` bytes arrived, "take the torn comment
back" by truncating to (size - len(comment)) - the whole length, not `n` (a negative size is refused by
ftruncate and nothing happens). -/
def truncateBackRule (old line : Bytes) (n : Nat) : Bytes :=
  let cur := old ++ line.take n
  if cur.length < line.length then cur else cur.take (cur.length - line.length)

/-- another process that holds the article's lock appends bytes (O_APPEND) to an existing article. -/
def extAppend (st : St) (n bs : Bytes) : St :=
  match fileGet st.files n with
  | none => st
  | some old => { st with files := fileSet st.files n (old ++ bs) }

/-- one scheduling step of a system of commenters: a new commenter runs phase A (its ticket joins the
pending ones), or a pending commenter performs its write, or its index update (and leaves). -/
inductive Ev where
  | begin (cfg : Cfg) (q : Req)
  | write (i : Nat)
  | index (i : Nat)
  | giveUp (i : Nat)                    -- the lock was never obtained: the call returns the lock error
  | writeFault (i room : Nat)           -- the write fails after `room` bytes: the call returns the write error
  | ext (name : Bytes) (bs : Bytes)     -- another holder of the article lock (another process) appends
  deriving Repr

structure Sys where
  st : St
  pending : List Ticket
  deriving Repr

def stepEv (find : Bytes → Nat → Bytes → Option Nat) (s : Sys) : Ev → Sys
  | .begin cfg q =>
    match phaseA find cfg s.st q with
    | .ok t => { s with pending := s.pending ++ [t] }
    | .error _ => s
  | .write i =>
    match s.pending[i]? with
    | none => s
    | some t =>
      match phaseWrite s.st t with
      | .ok st1 => { s with st := st1 }
      | .error _ => { s with pending := s.pending.eraseIdx i }   -- the call returns the error
  | .index i =>
    match s.pending[i]? with
    | none => s
    | some t => { st := (phaseIndex s.st t).1, pending := s.pending.eraseIdx i }
  | .giveUp i => { s with pending := s.pending.eraseIdx i }
  | .writeFault i room =>
    match s.pending[i]? with
    | none => s
    | some t => { st := phaseWriteFault s.st t room, pending := s.pending.eraseIdx i }
  | .ext n bs => { s with st := extAppend s.st n bs }

def runEv (find : Bytes → Nat → Bytes → Option Nat) (s : Sys) (evs : List Ev) : Sys := evs.foldl (stepEv find) s

/-! ### the append itself: open, lock, write, unlock

doAddRecommendSmartMerge: `OpenFile(O_APPEND|O_WRONLY)`, non-blocking `GoFlockExNb` (refused ⇒ the call fails,
doAddRecommend sleeps DO_ADD_RECOMMEND_LOCK_WAIT and retries with a fresh open, at most 5 times), `Write`,
`GoFunlock`.  With O_APPEND the position of a write is the end of the file AT THE TIME OF THE WRITE.  The
write rule is a parameter so that the rule "position = end of file at the time of the open" (a descriptor
without O_APPEND that seeks to the end before it has the lock) can be stated beside it. -/

inductive Holder where
  | free
  | app (i : Nat)      -- appender i of this process
  | ext                -- another process (mbbsd, another server)
  deriving Repr, DecidableEq

structure App where
  line : Bytes
  off : Nat            -- the end of the file when the appender opened it (O_APPEND never uses it)
  deriving Repr, DecidableEq

structure AState where
  content : Bytes
  holder : Holder
  apps : List App
  deriving Repr, DecidableEq

inductive AEv where
  | open (line : Bytes)
  | lock (i : Nat)         -- non-blocking: succeeds only when the lock is free
  | write (i : Nat)        -- only the holder writes (smart-merge branch)
  | writeNoLock (i : Nat)  -- doAddRecommendNoSmartMerge: no lock at all
  | unlock (i : Nat)
  | extLock
  | extAppend (bs : Bytes)
  | extUnlock
  deriving Repr

/-- O_APPEND: the end of the file at the time of the write. -/
def appendRule (content : Bytes) (a : App) : Bytes := content ++ a.line
/-- a descriptor positioned at the end of the file at open time. -/
def staleOffsetRule (content : Bytes) (a : App) : Bytes := writeAt content a.off a.line

def stepA (rule : Bytes → App → Bytes) (s : AState) : AEv → AState
  | .open line => { s with apps := s.apps ++ [{ line := line, off := s.content.length }] }
  | .lock i => if s.holder = .free ∧ i < s.apps.length then { s with holder := .app i } else s
  | .write i =>
    match s.apps[i]? with
    | some a => if s.holder = .app i then { s with content := rule s.content a } else s
    | none => s
  | .writeNoLock i =>
    match s.apps[i]? with
    | some a => { s with content := rule s.content a }
    | none => s
  | .unlock i => if s.holder = .app i then { s with holder := .free } else s
  | .extLock => if s.holder = .free then { s with holder := .ext } else s
  | .extAppend bs => if s.holder = .ext then { s with content := s.content ++ bs } else s
  | .extUnlock => if s.holder = .ext then { s with holder := .free } else s

def runA (rule : Bytes → App → Bytes) (s : AState) (evs : List AEv) : AState := evs.foldl (stepA rule) s

/-- api.CreateComment (the handler of POST /board/:bid/article/:aid/comment): the type of the JSON body is
refused when it is COMMENT_TYPE_UNKNOWN (0; since c4bea08) or above COMMENT_TYPE_BASIC, then bbs.CreateComment /
ptt.Recommend. -/
def apiRecommend (find : Bytes → Nat → Bytes → Option Nat) (cfg : Cfg) (st : St) (q : Req) : St × Res :=
  if q.ctype = 0 ∨ q.ctype > COMMENT_TYPE_BASIC then (st, .params) else recommend find cfg st q

/-- a history of requests on one board (the configuration may change between requests). -/
def run (find : Bytes → Nat → Bytes → Option Nat) (st : St) : List (Cfg × Req) → St
  | [] => st
  | (cfg, q) :: rest => run find (recommend find cfg st q).1 rest

/-- a proposal function that mirrors what the search returns on an index without duplicate names:
the first complete entry whose name matches.  Used by the driver and in non-vacuity examples. -/
def findFrom (name : Bytes) : Bytes → Nat → Nat → Option Nat
  | _, 0, _ => none
  | rest, fuel + 1, k =>
    if nameEq name (rest.take lenFilename) then some k else findFrom name (rest.drop dirSz) fuel (k + 1)

def findLinear (dir : Bytes) (total : Nat) (name : Bytes) : Option Nat := findFrom name dir total 0

end PttVerif.C10
