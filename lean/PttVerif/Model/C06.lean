import PttVerif.Common
import PttVerif.Model.C13
/-
C06 — model of the article lookup / cursor positioning / paging over a `.DIR` index:
  cmsys/record.go        : GetRecords, GetRecord, FindRecordStartIdx, findValidRecordIdxInStore,
                           findRecordStartIdxBinSearch (+ ...ValidIdxInStore), the four post-search loops
  ptt/article_list.go    : LoadGeneralArticles, FindArticleStartIdx (the part after the permission check)
  cache/cache_board.go   : GetBTotalWithRetry / SetBTotal (the cached article count)
  bbs/load_general_articles.go, bbs/article_summary.go : cursor (de)serialisation and the page call

An index is a `List Entry`; an entry is what the search family looks at in a 128-byte FileHeaderRaw:
`time?` = `Filename_t.CreateTime()` (`none` iff `Atoi(name[2:12])` fails) and `key` = the C string of
`name[2:]` (what `Filename_t.Eq` compares).  Positions in the file (`SortIdxInStore`, Go `int`) are `Int`s:
the code does reach -1.  A read is `rd`: negative offset → Seek error, past the end → EOF.
-/
namespace PttVerif.C06
open PttVerif

structure Entry where
  time? : Option Int
  key : List Nat
  deriving DecidableEq, Repr

instance : Inhabited Entry := ⟨⟨none, []⟩⟩

abbrev Index := List Entry

/-- the errors the modelled functions return (Go `error` values) plus the two faults. -/
inductive Err where
  | notFound      -- cmsys.ErrRecordNotFound
  | eof           -- io.EOF / io.ErrUnexpectedEOF out of types.BinaryRead
  | seek          -- os.File.Seek to a negative offset
  | atoi          -- strconv.Atoi error (Filename_t.CreateTime, DeserializeArticleIdxStr)
  | invalidIdx    -- ptttype.ErrInvalidIdx
  | invalidParams -- bbs.ErrInvalidParams
  | noRecord      -- ptt.ErrNoRecord
  | invalidFilename -- ptttype.ErrInvalidFilename
  | fault (f : Fault)
  deriving DecidableEq, Repr, Inhabited

abbrev R := Except Err

instance : ToString Err where
  toString
    | .notFound => "err:notfound"
    | .eof => "err:eof"
    | .seek => "err:seek"
    | .atoi => "err:atoi"
    | .invalidIdx => "err:invalididx"
    | .invalidParams => "err:invalidparams"
    | .noRecord => "err:norecord"
    | .invalidFilename => "err:invalidfilename"
    | .fault f => toString f

/-- `file.Seek(128*i)` followed by `types.BinaryRead(file, header)`. -/
def rd (idx : Index) (i : Int) : R Entry :=
  if i < 0 then .error .seek
  else match idx[i.toNat]? with
    | some e => .ok e
    | none => .error .eof

/-! ### `for` loops over file positions

Every loop of the search family has the shape
`for ; i <= hi; i++ { read header i (errors return); body }` (or the mirror image downwards); the body
either `continue`s, `break`s or `return`s.  `fuel` is the number of iterations the loop can make
(`span`); running out of it is `Fault.diverge` and is proved unreachable. -/

inductive Step (α : Type) where
  | cont
  | brk
  | ret (r : R α)

inductive Out (α : Type) where
  | exit (i : Int)   -- the loop ended (condition false, or `break`) with this value of the loop variable
  | val (a : α)      -- the body returned `a, nil`

def stepOut {α} (i : Int) : Step α → Option (R (Out α))
  | .cont => none
  | .brk => some (.ok (.exit i))
  | .ret (.ok a) => some (.ok (.val a))
  | .ret (.error e) => some (.error e)

def forUp {α} (idx : Index) (hi : Int) (body : Int → Entry → Step α) : Nat → Int → R (Out α)
  | fuel, i =>
    if i ≤ hi then
      match fuel with
      | 0 => .error (.fault .diverge)
      | f + 1 =>
        match rd idx i with
        | .error e => .error e
        | .ok h =>
          match stepOut i (body i h) with
          | none => forUp idx hi body f (i + 1)
          | some r => r
    else .ok (.exit i)

def forDown {α} (idx : Index) (lo : Int) (body : Int → Entry → Step α) : Nat → Int → R (Out α)
  | fuel, i =>
    if lo ≤ i then
      match fuel with
      | 0 => .error (.fault .diverge)
      | f + 1 =>
        match rd idx i with
        | .error e => .error e
        | .ok h =>
          match stepOut i (body i h) with
          | none => forDown idx lo body f (i - 1)
          | some r => r
    else .ok (.exit i)

/-- number of positions in `[lo, hi]`. -/
def span (lo hi : Int) : Nat := (hi + 1 - lo).toNat

/-! ### findValidRecordIdxInStore -/

def validBody (i : Int) (h : Entry) : Step (Int × Entry) :=
  if h.time?.isSome then .ret (.ok (i, h)) else .cont

/-- returns the position and the header left in `header` (its `CreateTime()` is the returned time). -/
def findValid (idx : Index) (i : Int) (isDesc : Bool) (start end_ : Int) : R (Int × Entry) :=
  let r := if isDesc then forDown idx start validBody (span start i) i
           else forUp idx end_ validBody (span i end_) i
  match r with
  | .error e => .error e
  | .ok (.val v) => .ok v
  | .ok (.exit _) => .error .notFound

/-! ### findRecordStartIdxBinSearch -/

/-- `types.Time4` subtraction (int32, wraps). -/
def subT4 (a b : Int) : Int := C13.toInt32 (a - b)

/-- findRecordStartIdxBinSearchValidIdxInStore: new position, header, new start, new end. -/
def validIdxInStore (idx : Index) (i start end_ : Int) : R (Int × Entry × Int × Int) :=
  if i = start then
    match findValid idx i false start end_ with
    | .error e => .error e
    | .ok (n, h) => .ok (n, h, n, end_)
  else if i = end_ then
    match findValid idx i true start end_ with
    | .error e => .error e
    | .ok (n, h) => .ok (n, h, start, n)
  else
    match findValid idx i false start end_ with
    | .error e => .error e
    | .ok (n, h) =>
      if n = end_ then
        match findValid idx i true start end_ with
        | .error e => .error e
        | .ok (n', h') => .ok (n', h', start, end_)
      else .ok (n, h, start, end_)

/-- what one iteration of the bisection loop does. -/
inductive BinNext where
  | done (i : Int) (h : Entry)   -- `break`: the function returns `idxInStore, &header.Filename`
  | next (start end_ : Int)      -- next iteration with these bounds

/-- the part of the loop body after a header with a valid time is in hand. -/
def binDecide (ct : Int) (i : Int) (h : Entry) (ft : Int) (start end_ : Int) : BinNext :=
  let j := subT4 ct ft
  if j = 0 then .done i h
  else if end_ = start then .done i h
  else if i = start then .next end_ end_
  else if j > 0 then .next i end_
  else .next start i

def binStep (idx : Index) (ct : Int) (start end_ : Int) : R BinNext :=
  let i := Int.tdiv (start + end_) 2
  match rd idx i with
  | .error e => .error e
  | .ok h =>
    match h.time? with
    | some ft => .ok (binDecide ct i h ft start end_)
    | none =>
      if start = end_ then .ok (.done i h)
      else
        match validIdxInStore idx i start end_ with
        | .error e => .error e
        | .ok (i', h', start', end') =>
          -- findValid only returns headers with a time; `getD 0` is Go's zero value otherwise
          .ok (binDecide ct i' h' (h'.time?.getD 0) start' end')

def binSearch (idx : Index) (ct : Int) : Nat → Int → Int → R (Int × Entry)
  | 0, _, _ => .error (.fault .diverge)
  | f + 1, start, end_ =>
    match binStep idx ct start end_ with
    | .error e => .error e
    | .ok (.done i h) => .ok (i, h)
    | .ok (.next s e) => binSearch idx ct f s e

/-- enough iterations for every reachable state (theorem `binsearch_terminates`). -/
def binFuel (start end_ : Int) : Nat := (end_ - start).toNat + 2

/-! ### post-search -/

def keyMatch (fn : Option (List Nat)) (h : Entry) : Bool :=
  match fn with
  | none => true                 -- `filename == nil ||`
  | some k => k == h.key         -- `filename.Eq(&header.Filename)`

def descLinearBody (ct : Int) (fn : Option (List Nat)) (i : Int) (h : Entry) : Step Int :=
  match h.time? with
  | none => .cont
  | some ft =>
    if ct = ft ∧ keyMatch fn h then .ret (.ok i)
    else if ft < ct then (if fn.isSome then .ret (.error .notFound) else .brk)
    else .cont

def descLinear (idx : Index) (i ss ct : Int) (fn : Option (List Nat)) : R Int :=
  match forDown idx ss (descLinearBody ct fn) (span ss i) i with
  | .error e => .error e
  | .ok (.val v) => .ok v
  | .ok (.exit i') => if i' < ss then .error .notFound else .ok i'

def descPhase1Body (ct : Int) (_ : Int) (h : Entry) : Step Empty :=
  match h.time? with
  | none => .cont
  | some ft => if ft > ct then .brk else .cont

def postSearchDesc (idx : Index) (i ss ee ct : Int) (fn : Option (List Nat)) : R Int :=
  match forUp idx ee (descPhase1Body ct) (span i ee) i with
  | .error e => .error e
  | .ok (.val v) => nomatch v
  | .ok (.exit i1) =>
    let i2 := if i1 > ee then ee else i1
    match descLinear idx i2 ss ct fn with
    | .ok n => .ok n
    | .error _ => descLinear idx i2 ss ct none

def ascLinearBody (ct : Int) (fn : Option (List Nat)) (i : Int) (h : Entry) : Step Int :=
  match h.time? with
  | none => .cont
  | some ft =>
    if ct = ft ∧ keyMatch fn h then .ret (.ok i)
    else if ft > ct then (if fn.isSome then .ret (.error .notFound) else .brk)
    else .cont

def ascLinear (idx : Index) (i ee ct : Int) (fn : Option (List Nat)) : R Int :=
  match forUp idx ee (ascLinearBody ct fn) (span i ee) i with
  | .error e => .error e
  | .ok (.val v) => .ok v
  | .ok (.exit i') => if i' > ee then .error .notFound else .ok i'

def ascPhase1Body (ct : Int) (_ : Int) (h : Entry) : Step Empty :=
  match h.time? with
  | none => .cont
  | some ft => if ft < ct then .brk else .cont

def postSearchAsc (idx : Index) (i ss ee ct : Int) (fn : Option (List Nat)) : R Int :=
  match forDown idx ss (ascPhase1Body ct) (span ss i) i with
  | .error e => .error e
  | .ok (.val v) => nomatch v
  | .ok (.exit i1) =>
    let i2 := if i1 < ss then ss else i1
    match ascLinear idx i2 ee ct fn with
    | .ok n => .ok n
    | .error _ => ascLinear idx i2 ee ct none

/-! ### FindRecordStartIdx, GetRecord, GetRecords -/

/-- result: the 1-based `SortIdx`. `fn = none` is a nil `filename`. -/
def findRecordStartIdx (idx : Index) (total : Int) (ct : Int) (fn : Option (List Nat)) (isDesc : Bool) : R Int :=
  let ss0 : Int := 0
  let ee0 : Int := total - 1
  match findValid idx ss0 false ss0 ee0 with
  | .error e => .error e
  | .ok (ss, _) =>
    -- `endEnd, _, err = findValid...`: the error is overwritten by the next call, endEnd is -1 then
    let ee := match findValid idx ee0 true ss ee0 with
      | .ok (n, _) => n
      | .error _ => -1
    match binSearch idx ct (binFuel ss ee) ss ee with
    | .error e => .error e
    | .ok (i, h) =>
      match h.time? with
      | none => .error .atoi
      | some ft =>
        if ct = ft ∧ fn.isSome ∧ keyMatch fn h then .ok (i + 1)
        else if isDesc then
          match postSearchDesc idx i ss ee ct fn with
          | .error e => .error e
          | .ok n => .ok (n + 1)
        else
          match postSearchAsc idx i ss ee ct fn with
          | .error e => .error e
          | .ok n => .ok (n + 1)

/-- `name` is the entry reading of the file name looked up. -/
def getRecord (idx : Index) (name : Entry) (total : Int) : R (Int × Entry) :=
  match name.time? with
  | none => .error .atoi
  | some ct =>
    match findRecordStartIdx idx total ct (some name.key) true with
    | .error e => .error e
    | .ok i =>
      match rd idx (i - 1) with
      | .error e => .error e
      | .ok h => if name.key = h.key then .ok (i, h) else .error .notFound

/-- the loop of GetRecords; a failed read ends the listing without an error. -/
def getRecordsLoop (idx : Index) (isDesc : Bool) : Nat → Int → List (Int × Entry)
  | 0, _ => []
  | n + 1, i =>
    if i = 0 ∨ i > idx.length then []
    else match rd idx (i - 1) with
      | .error _ => []
      | .ok h => (i, h) :: getRecordsLoop idx isDesc n (if isDesc then i - 1 else i + 1)

def getRecords (idx : Index) (startIdx : Int) (n : Int) (isDesc : Bool) : R (List (Int × Entry)) :=
  if startIdx < 1 then .error .invalidIdx
  else if n < 0 then .error (.fault .panic)       -- make([]T, 0, n)
  else .ok (getRecordsLoop idx isDesc n.toNat startIdx)

/-! ### ptt.LoadGeneralArticles / FindArticleStartIdx (after the permission check), on the index

`total` is what `cache.GetBTotalWithRetry` returned. -/

structure Page (ε : Type) where
  items : List (Int × ε)
  isNewest : Bool
  next : Option (Int × ε)
  start : Int

def pttLoadWith {ε} (records : Int → Int → Bool → R (List (Int × ε))) (total : Int) (startIdx : Int) (n : Nat)
    (isDesc : Bool) : R (Page ε) :=
  if total = 0 then .ok ⟨[], true, none, 0⟩
  else
    let startIdx := if startIdx = 0 ∧ isDesc then total else startIdx
    match records startIdx (n + 1) isDesc with
    | .error e => .error e
    | .ok l =>
      let isNewest := if isDesc then decide (startIdx = total) else decide (l.length ≠ n + 1)
      if l.length = n + 1 then .ok ⟨l.take n, isNewest, l[n]?, startIdx⟩
      else .ok ⟨l, isNewest, none, startIdx⟩

def pttLoad (idx : Index) := pttLoadWith (getRecords idx)

def pttFindStart (idx : Index) (total : Int) (ct : Int) (fn : Option (List Nat)) (isDesc : Bool) : R Int :=
  if total = 0 then .error .noRecord else findRecordStartIdx idx total ct fn isDesc

/-! ### the page walk on the abstract index

The cursor of the next page is the `(time, key)` of the look-ahead element; an element without a time has
no cursor (at the `bbs` level its cursor text does not deserialise: `Err.atoi`). -/

/-- pages of 1-based positions. `fuel` bounds the number of pages. -/
def walkFrom (idx : Index) (total : Int) (n : Nat) (isDesc : Bool) : Nat → Int → R (List (List Int))
  | 0, _ => .error (.fault .diverge)
  | f + 1, start =>
    match pttLoad idx total start n isDesc with
    | .error e => .error e
    | .ok p =>
      let page := p.items.map (·.1)
      match p.next with
      | none => .ok [page]
      | some (_, e) =>
        match e.time? with
        | none => .error .atoi
        | some t =>
          match pttFindStart idx total t (some e.key) isDesc with
          | .error err => .error err
          | .ok s => (walkFrom idx total n isDesc f s).map (page :: ·)

def walk (idx : Index) (n : Nat) (isDesc : Bool) : R (List (List Int)) :=
  walkFrom idx idx.length n isDesc (idx.length + 1) (if isDesc then 0 else 1)

/-! ### the `bbs` level, on real 28-byte names -/

abbrev Name := List Nat

/-- what the search family sees of a name. -/
def absEntry (nm : Name) : Entry := { time? := C13.fnCreateTime nm, key := cstr (nm.drop 2) }

def liftFault {α} : M α → R α
  | .ok a => .ok a
  | .error f => .error (.fault f)

/-- the digits part of `strconv.Atoi` (64-bit `int`): at least one digit, digits only, range check. -/
def atoi64Digits (neg : Bool) (ds : List Nat) : Option Int :=
  if ds.isEmpty then none
  else match C13.decVal ds 0 with
    | none => none
    | some v =>
      if neg then (if v ≤ 9223372036854775808 then some (- Int.ofNat v) else none)
      else (if v ≤ 9223372036854775807 then some (Int.ofNat v) else none)

/-- `strconv.Atoi` on a string of any length: optional sign, then `atoi64Digits`. -/
def atoi64 (s : List Nat) : Option Int :=
  match s with
  | 43 :: r => atoi64Digits false r
  | 45 :: r => atoi64Digits true r
  | _ => atoi64Digits false s

/-- `strings.Split(s, "@")`. -/
def splitAt64 : List Nat → List (List Nat)
  | [] => [[]]
  | c :: cs =>
    match splitAt64 cs with
    | [] => [[]]   -- unreachable
    | p :: ps => if c = 64 then [] :: p :: ps else (c :: p) :: ps

/-- `NewArticleSummaryFromRaw(...).Idx` = `SerializeArticleIdxStr`. -/
def serializeIdx (nm : Name) : List Nat :=
  C13.intToDec ((C13.fnCreateTime nm).getD 0) ++ [64] ++ C13.toArticleID nm

/-- `DeserializeArticleIdxStr`: create time and the file name `articleID.ToRaw()`. -/
def deserializeIdx (s : List Nat) : R (Int × Name) :=
  match splitAt64 s with
  | [a, b] =>
    match atoi64 a with
    | none => .error .atoi
    | some ci =>
      let ct := C13.toInt32 ci
      match liftFault (C13.articleIDToRaw b) with
      | .error e => .error e
      | .ok fnm =>
        match C13.fnCreateTime fnm with
        | none => .error .atoi
        | some ct' => if ct ≠ ct' then .error .invalidParams else .ok (ct, fnm)
  | _ => .error .invalidParams

/-- `cache.GetBTotalWithRetry`: the cached count, refreshed from the file when it is 0.
`SetBTotal` stores the count and then fails if the last name is neither ".d" nor parsable.
Returns the total (or error) and the new cached value. -/
def getBTotalWithRetry (names : List Name) (cached : Int) : R Int × Int :=
  if cached ≠ 0 then (.ok cached, cached)
  else
    let n : Int := names.length
    match names.getLast? with
    | none => (.ok 0, 0)
    | some last =>
      if cstr last = [46, 100] then (.ok n, n)
      else match C13.fnCreateTime last with
        | none => (.error .atoi, n)
        | some _ => (.ok n, n)

/-! ### the posting path keeps the cached total exact

`ptt.DoPostArticle` (NewPost) appends the new record to `.DIR` (`cmsys.AppendRecord`) and then calls
`cache.SetBTotal(bid)`, which re-stats `.DIR` and stores its record count — whatever the cached value was
before (cold 0, exact, or lagging behind because a record reached the file without the cache being told). -/

/-- `cache.SetBTotal` on the count: the record count is stored first; then the last name must be ".d" or
parsable (last-post time), else the Atoi error is returned (the count stays stored). -/
def setBTotal (names : List Name) : R Unit × Int :=
  let n : Int := names.length
  match names.getLast? with
  | none => (.ok (), 0)
  | some last =>
    if cstr last = [46, 100] then (.ok (), n)
    else match C13.fnCreateTime last with
      | none => (.error .atoi, n)
      | some _ => (.ok (), n)

/-- a record reaches `.DIR` without the cache being told (a poster that dies after `AppendRecord`, a lost
`Total += 1`): the file grows, the cached total stays. -/
def appendOnly (names : List Name) (cached : Int) (nm : Name) : List Name × Int := (names ++ [nm], cached)

/-- the index/cache effect of `DoPostArticle` creating the record `nm`: result, new file, new cached total. -/
def postArticle (names : List Name) (_cached : Int) (nm : Name) : R Unit × List Name × Int :=
  let names' := names ++ [nm]
  let (r, c) := setBTotal names'
  (r, names', c)

/-- the copy of a post into a log board (`doCrosspost` → ALLPOST / NEWIDPOST / ALLHIDPOST / UnAnonymous,
`crossPostWriteFile` → ALLPOST; after repair 4ca0e38): the copy is appended to that board's `.DIR` and the
board's total is re-counted with `cache.SetBTotal`.  Only the counts are modelled (the copy's name is a fresh
stamp, always parsable): record count and cached total of the log board before ↦ after. -/
def logCopy (logLen : Nat) (_logCached : Int) : Nat × Int := (logLen + 1, ((logLen + 1 : Nat) : Int))

/-- `cache.ReloadBCache` on the totals: every cached total is zeroed (re-counted lazily at the next question). -/
def reloadTotal (_cached : Int) : Int := 0

/-- `ptt.FindArticleStartIdx` for the newest record of the file, by its own name, with the cached total:
result and the cached total afterwards. -/
def findNewest (names : List Name) (cached : Int) (isDesc : Bool) : R Int × Int :=
  match names.getLast? with
  | none => (.error .noRecord, cached)
  | some last =>
    match C13.fnCreateTime last with
    | none => (.error .atoi, cached)        -- the caller cannot form the (time, name) cursor
    | some t =>
      match getBTotalWithRetry names cached with
      | (.error e, c) => (.error e, c)
      | (.ok total, c) => (pttFindStart (names.map absEntry) total t (some (absEntry last).key) isDesc, c)

/-- `ptt.getFileHeader` — the by-name lookup in front of EditPost and CrossPost: the total comes from
`cache.GetBTotalWithRetry` (a cold total, 0 after `ReloadBCache`, is re-counted first), then `cmsys.GetRecord`.
Result (found or the error) and the cached total afterwards. -/
def lookupByName (names : List Name) (cached : Int) (nm : Name) : R Unit × Int :=
  match getBTotalWithRetry names cached with
  | (.error e, c) => (.error e, c)
  | (.ok total, c) =>
    if total = 0 then (.error .invalidFilename, c)
    else match getRecord (names.map absEntry) (absEntry nm) total with
      | .error e => (.error e, c)
      | .ok _ => (.ok (), c)

structure BbsPage where
  start : Int
  isNewest : Bool
  items : List Int          -- positions
  nextIdx : List Nat        -- "" when there is no next page
  deriving Repr

/-- one `bbs.LoadGeneralArticles` call for a user who may read the board. Second component: the cached total
afterwards. -/
def bbsLoad (names : List Name) (cached : Int) (cursor : List Nat) (n : Int) (isDesc : Bool) : R BbsPage × Int :=
  if n < 1 then (.error .invalidParams, cached)
  else
    let idx := names.map absEntry
    -- 1. loadGeneralArticlesToStartIdx
    let (startR, cached) : R Int × Int :=
      if cursor.isEmpty then (.ok (if isDesc then 0 else 1), cached)
      else match deserializeIdx cursor with
        | .error e => (.error e, cached)
        | .ok (ct, fnm) =>
          match getBTotalWithRetry names cached with
          | (.error e, c) => (.error e, c)
          | (.ok total, c) => (pttFindStart idx total ct (some (absEntry fnm).key) isDesc, c)
    match startR with
    | .error e => (.error e, cached)
    | .ok start =>
      -- 2. ptt.LoadGeneralArticles (start ≥ 0 always holds here)
      match getBTotalWithRetry names cached with
      | (.error e, c) => (.error e, c)
      | (.ok total, c) =>
        match pttLoad idx total start n.toNat isDesc with
        | .error e => (.error e, c)
        | .ok p =>
          let nextIdx := match p.next with
            | none => []
            | some (pos, _) => serializeIdx (names.getD (pos - 1).toNat [])
          (.ok ⟨p.start, p.isNewest, p.items.map (·.1), nextIdx⟩, c)

/-- the client loop: follow `nextIdx` until it is empty, an error, or `cap` pages. -/
def bbsWalk (names : List Name) (n : Int) (isDesc : Bool) : Nat → Int → List Nat → List BbsPage × String
  | 0, _, _ => ([], "cap")
  | f + 1, cached, cursor =>
    match bbsLoad names cached cursor n isDesc with
    | (.error e, _) => ([], toString e)
    | (.ok p, c) =>
      if p.nextIdx.isEmpty then ([p], "end")
      else
        let (ps, fin) := bbsWalk names n isDesc f c p.nextIdx
        (p :: ps, fin)

end PttVerif.C06
