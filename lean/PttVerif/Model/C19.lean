import PttVerif.Common
import PttVerif.Gen.Fav
/-
C19 — model of the favourites file (`home/<c>/<id>/.fav`):
  ptt/fav/fav.go   : AddBoard/AddLine/AddFolder (+ limits), cleanup/isNeedRebuildFav/rebuildFav/increase,
                     WriteFavrec, ReadFavrec, Load, Save, checkIsToSave
  ptt/fav/*.go     : type codes, FAVH_FAV, C struct sizes
  types/utils.go   : BinRead/BinWrite (payload padded to the C struct size; the read side *seeks* over the pad)
  ptt/fav.go       : WriteFavorites (temp file + rename)

Representation.  Every field is the raw unsigned image of the Go field: bytes are `Nat`s below 256, an
`int16` counter is a `Nat` below 65536 (negative iff ≥ 32768), an `int8` one a `Nat` below 256 (negative iff
≥ 128).  A `FavRaw` is its three *stored* counters and its entry slice; the counters are stored, not derived,
because `WriteFavrec` writes the stored values and `ReadFavrec` keeps the header values it read.
`LineID`/`FolderID` are not stored: on every tree built from `NewFavRaw(nil)` they equal `NLines`/`NFolders`
(both are incremented together), and `ReadFavrec`/`rebuildFav` recompute them from 0.
`Root.FavNum` of a tree built from the empty tree is the number of successful adds = `totalCount`.
-/
namespace PttVerif.C19
open PttVerif

/-! ### constants regenerated from the source -/

def VERSION : Nat := Gen.Fav.FAV_VERSION
def T_BOARD : Nat := Gen.Fav.FAVT_BOARD
def T_FOLDER : Nat := Gen.Fav.FAVT_FOLDER
def T_LINE : Nat := Gen.Fav.FAVT_LINE
def FAVH_FAV : Nat := Gen.Fav.FAVH_FAV
/-- bytes `BinWrite` appends (and `BinRead` seeks over) after the 9 payload bytes of a board entry. -/
def boardPad : Nat := Gen.Fav.SIZE_OF_FAV_BOARD - Gen.Fav.favBoardFields.sum
def linePad : Nat := Gen.Fav.SIZE_OF_FAV_LINE - Gen.Fav.favLineFields.sum
/-- `len(ptttype.BoardTitle_t{})`. -/
def TITLE_LEN : Nat := Gen.Fav.favFolderFields.getD 1 0
def MAX_FAV : Nat := Gen.Fav.MAX_FAV
def MAX_LINE : Nat := Gen.Fav.MAX_LINE
def MAX_FOLDER : Nat := Gen.Fav.MAX_FOLDER
def MAX_BOARD : Nat := Gen.Fav.MAX_BOARD

/-! ### the tree -/

inductive Item where
  /-- `FavType{FAVT_BOARD, attr, &FavBoard{Bid, LastVisit, Attr}}` -/
  | board (attr bid lv battr : Nat)
  /-- `FavType{FAVT_LINE, attr, &FavLine{Lid}}` -/
  | line (attr lid : Nat)
  /-- `FavType{FAVT_FOLDER, attr, &FavFolder{Fid, Title, ThisFolder}}`; `nB nL nF sub` are
  `ThisFolder.NBoards/NLines/NFolders/Favh`. -/
  | folder (attr fid : Nat) (title : List Nat) (nB nL nF : Nat) (sub : List Item)
  deriving Repr, Inhabited

structure Fav where
  nB : Nat
  nL : Nat
  nF : Nat
  items : List Item
  deriving Repr, Inhabited

def emptyFav : Fav := ⟨0, 0, 0, []⟩

def Item.attr : Item → Nat
  | .board a .. => a
  | .line a _ => a
  | .folder a .. => a

def Item.isBoard : Item → Bool
  | .board .. => true
  | _ => false
def Item.isLine : Item → Bool
  | .line .. => true
  | _ => false
def Item.isFolder : Item → Bool
  | .folder .. => true
  | _ => false

def cntB (items : List Item) : Nat := items.countP Item.isBoard
def cntL (items : List Item) : Nat := items.countP Item.isLine
def cntF (items : List Item) : Nat := items.countP Item.isFolder

/-! ### two's complement arithmetic on the raw images -/

/-- `int16(x)` for an `int8` image `x`. -/
def sext8 (x : Nat) : Nat := if x < 128 then x else x + 65280
/-- `getDataNumber`: `NBoards + int16(NLines) + int16(NFolders)` in `int16`. -/
def total16 (nB nL nF : Nat) : Nat := (nB + sext8 nL + sext8 nF) % 65536
def neg16 (x : Nat) : Bool := decide (32768 ≤ x)
def neg8 (x : Nat) : Bool := decide (128 ≤ x)
/-- iterations of `for i := int16(0); i < total; i++`. -/
def loopCount (t : Nat) : Nat := if t < 32768 then t else 0

def le16 (n : Nat) : List Nat := [n % 256, n / 256 % 256]
def le32 (n : Nat) : List Nat := [n % 256, n / 256 % 256, n / 65536 % 256, n / 16777216 % 256]
def dec16 (b0 b1 : Nat) : Nat := b0 + 256 * b1
def dec32 (b0 b1 b2 b3 : Nat) : Nat := b0 + 256 * b1 + 65536 * b2 + 16777216 * b3

/-- `ft.isValid()`: `Attr & FAVH_FAV != 0`. -/
def isValidAttr (a : Nat) : Bool := (a &&& FAVH_FAV) != 0

/-! ### WriteFavrec -/

def hdr (nB nL nF : Nat) : List Nat := le16 nB ++ [nL, nF]

/-- type byte, attr byte, payload (`BinaryWrite` of the fields, `BinWrite` pads board and line payloads to the
C struct size). -/
def encEntry : Item → List Nat
  | .board a bid lv ba => [T_BOARD, a] ++ (le32 bid ++ le32 lv ++ [ba]) ++ List.replicate boardPad 0
  | .line a lid => [T_LINE, a] ++ [lid] ++ List.replicate linePad 0
  | .folder a fid t _ _ _ _ => [T_FOLDER, a] ++ [fid] ++ t

def encEntries (items : List Item) : List Nat := items.flatMap encEntry

/-- the second loop of `WriteFavrec` over `Favh[0..n)`: every folder's own `WriteFavrec`, in order.
A folder writes its stored counters, the first `total` entries of its slice (`Favh[i]` faults past the end),
then its sub-folders. -/
def writeSubs : Nat → List Item → M (List Nat)
  | 0, _ => .ok []
  | _ + 1, [] => .error .panic
  | n + 1, .folder _ _ _ nB nL nF sub :: rest => do
      let k := loopCount (total16 nB nL nF)
      if k > sub.length then .error .panic
      let s ← writeSubs k sub
      let r ← writeSubs n rest
      pure (hdr nB nL nF ++ encEntries (sub.take k) ++ s ++ r)
  | n + 1, _ :: rest => writeSubs n rest

def writeFavrec (f : Fav) : M (List Nat) := do
  let k := loopCount (total16 f.nB f.nL f.nF)
  if k > f.items.length then .error .panic
  let s ← writeSubs k f.items
  pure (hdr f.nB f.nL f.nF ++ encEntries (f.items.take k) ++ s)

/-! ### cleanup / isNeedRebuildFav / rebuildFav -/

def needRebuild : List Item → Bool
  | [] => false
  | .folder a _ _ _ _ _ sub :: rest =>
      if !isValidAttr a then true else if needRebuild sub then true else needRebuild rest
  | it :: rest => if !isValidAttr it.attr then true else needRebuild rest

/-- the counters `rebuildFav` zeroes and `increase` advances. -/
structure Cnt where
  nB : Nat := 0
  nL : Nat := 0
  nF : Nat := 0
  lineID : Nat := 0
  folderID : Nat := 0
  deriving Repr

/-- the loop of `rebuildFav`: invalid entries are skipped, a valid folder is rebuilt first, `increase`
renumbers lines and folders; the kept entries are compacted to the front in order. A rebuilt folder's slice is
cut to `Favh[:getDataNumber()]`, which faults when that number is negative (or beyond the kept entries). -/
def rebuildItems : List Item → Cnt → M (List Item × Cnt)
  | [], c => .ok ([], c)
  | .board a bid lv ba :: rest, c =>
      if isValidAttr a then do
        let (r, c') ← rebuildItems rest { c with nB := (c.nB + 1) % 65536 }
        pure (.board a bid lv ba :: r, c')
      else rebuildItems rest c
  | .line a _ :: rest, c =>
      if isValidAttr a then do
        let l := (c.lineID + 1) % 256
        let (r, c') ← rebuildItems rest { c with nL := (c.nL + 1) % 256, lineID := l }
        pure (.line a l :: r, c')
      else rebuildItems rest c
  | .folder a _ t _ _ _ sub :: rest, c =>
      if isValidAttr a then do
        let (s, cs) ← rebuildItems sub {}
        let n := total16 cs.nB cs.nL cs.nF
        if neg16 n || n > s.length then .error .panic
        let fd := (c.folderID + 1) % 256
        let (r, c') ← rebuildItems rest { c with nF := (c.nF + 1) % 256, folderID := fd }
        pure (.folder a fd t cs.nB cs.nL cs.nF (s.take n) :: r, c')
      else rebuildItems rest c

def rebuildFav (f : Fav) : M Fav := do
  let (s, c) ← rebuildItems f.items {}
  let n := total16 c.nB c.nL c.nF
  if neg16 n || n > s.length then .error .panic
  pure ⟨c.nB, c.nL, c.nF, s.take n⟩

def cleanup (f : Fav) : M Fav :=
  if needRebuild f.items then rebuildFav f else .ok f

/-- the content `Save` writes to the temporary file: version word, then `WriteFavrec` of the cleaned tree. -/
def saveBytes (f : Fav) : M (List Nat) := do
  let g ← cleanup f
  let b ← writeFavrec g
  pure (le16 VERSION ++ b)

/-! ### ReadFavrec / Load -/

/-- one entry of the first loop of `ReadFavrec`: type byte (must be a known type), attr byte, payload.
Any short read is an error (`none`). `BinRead` seeks over the pad: seeking past the end of the file is not an
error, so the pad bytes of a final board entry may be missing. -/
def readEntry (bs : List Nat) : Option (Item × List Nat) :=
  match bs with
  | [] => none
  | ty :: r1 =>
    if !(ty == T_BOARD || ty == T_FOLDER || ty == T_LINE) then none else
    match r1 with
    | [] => none
    | attr :: r2 =>
      if ty == T_FOLDER then
        match r2 with
        | [] => none
        | fid :: r3 =>
          if r3.length < TITLE_LEN then none
          else some (.folder attr fid (r3.take TITLE_LEN) 0 0 0 [], r3.drop TITLE_LEN)
      else if ty == T_BOARD then
        match r2 with
        | b0 :: b1 :: b2 :: b3 :: l0 :: l1 :: l2 :: l3 :: ba :: r3 =>
            some (.board attr (dec32 b0 b1 b2 b3) (dec32 l0 l1 l2 l3) ba, r3.drop boardPad)
        | _ => none
      else
        match r2 with
        | [] => none
        | lid :: r3 => some (.line attr lid, r3.drop linePad)

def readEntries : Nat → List Nat → Option (List Item × List Nat)
  | 0, bs => some ([], bs)
  | n + 1, bs =>
    match readEntry bs with
    | none => none
    | some (it, bs') =>
      match readEntries n bs' with
      | none => none
      | some (its, bs'') => some (it :: its, bs'')

/-- the second loop of `ReadFavrec`: every folder entry reads its own record (`rd`) from what follows,
lines and folders are renumbered from 1 (`int8` increments). -/
def attach (rd : List Nat → M (Option (Fav × List Nat))) :
    List Item → List Nat → Nat → Nat → M (Option (List Item × List Nat))
  | [], bs, _, _ => .ok (some ([], bs))
  | .folder a _ t _ _ _ _ :: es, bs, lid, fid => do
      match ← rd bs with
      | none => pure none
      | some (sub, bs') =>
        let fid' := (fid + 1) % 256
        match ← attach rd es bs' lid fid' with
        | none => pure none
        | some (its, bs'') => pure (some (.folder a fid' t sub.nB sub.nL sub.nF sub.items :: its, bs''))
  | .line a _ :: es, bs, lid, fid => do
      let lid' := (lid + 1) % 256
      match ← attach rd es bs lid' fid with
      | none => pure none
      | some (its, bs'') => pure (some (.line a lid' :: its, bs''))
  | .board a bid lv ba :: es, bs, lid, fid => do
      match ← attach rd es bs lid fid with
      | none => pure none
      | some (its, bs'') => pure (some (.board a bid lv ba :: its, bs''))

/-- `ReadFavrec` on the unread part of the file. `ok none` is a clean error return, `ok (some (f, rest))` a
tree and what is left unread. The recursion of the Go function is on the call depth: `fuel`. -/
def readFavrec : Nat → List Nat → M (Option (Fav × List Nat))
  | 0, _ => .error .diverge
  | fuel + 1, bs =>
    match bs with
    | b0 :: b1 :: nL :: nF :: rest =>
      let nB := dec16 b0 b1
      let total := total16 nB nL nF
      -- the guard of fix 1e8ac82
      if neg16 nB || neg8 nL || neg8 nF || neg16 total then .ok none
      -- make([]*FavType, nFavh)
      else if neg16 total then .error .panic
      else
        match readEntries total rest with
        | none => .ok none
        | some (ents, rest') => do
          match ← attach (readFavrec fuel) ents rest' 0 0 with
          | none => pure none
          | some (items, rest'') => pure (some (⟨nB, nL, nF, items⟩, rest''))
    | _ => .ok none

/-- `fav.Load` on the content of a regular `.fav` file: the version word is read but not compared. Every
nested record consumes at least its 4 header bytes, so the file length bounds the call depth. -/
def load (bs : List Nat) : M (Option Fav) :=
  match bs with
  | _ :: _ :: rest => do
      match ← readFavrec (rest.length + 1) rest with
      | none => pure none
      | some (f, _) => pure (some f)
  | _ => .ok none

/-! ### the fields `ReadFavrec` derives (for the canonical dump) -/

/-- Σ over the folders of a level of their `FavNum`; a level's `FavNum` is `nFavh + Σ` in `int16`. -/
def subFavSum : List Item → Nat
  | [] => 0
  | .folder _ _ _ _ _ _ sub :: rest => (sub.length + subFavSum sub) % 65536 + subFavSum rest
  | _ :: rest => subFavSum rest

def favNum (items : List Item) : Nat := (items.length + subFavSum items) % 65536

/-- number of entries in the whole tree. -/
def totalCount : List Item → Nat
  | [] => 0
  | .folder _ _ _ _ _ _ sub :: rest => 1 + totalCount sub + totalCount rest
  | _ :: rest => 1 + totalCount rest

/-! ### AddBoard / AddLine / AddFolder on a tree grown from `NewFavRaw(nil)` -/

inductive AddKind where
  | board (bid : Nat)
  | line
  | folder
  deriving Repr

inductive AddRes where
  | added (f : Fav)
  /-- `AddBoard` found the board on this level and returned it -/
  | existing
  /-- an error return; the tree is unchanged -/
  | refused
  deriving Repr

def hasBoard (bid : Nat) : List Item → Bool
  | [] => false
  | .board _ b _ _ :: rest => if b = bid then true else hasBoard bid rest
  | _ :: rest => hasBoard bid rest

/-- the add on the addressed `FavRaw`; `full` is `isMaxSize()` (`Root.FavNum >= MAX_FAV`). -/
def addHere (full : Bool) (k : AddKind) (f : Fav) : AddRes :=
  match k with
  | .board bid =>
      if !(decide (1 ≤ bid) && decide (bid ≤ MAX_BOARD)) then .refused
      else if hasBoard bid f.items then .existing
      else if full then .refused
      else .added ⟨(f.nB + 1) % 65536, f.nL, f.nF, f.items ++ [.board FAVH_FAV bid 0 0]⟩
  | .line =>
      if full then .refused
      else if !neg8 f.nL && decide (MAX_LINE ≤ f.nL) then .refused
      else .added ⟨f.nB, (f.nL + 1) % 256, f.nF, f.items ++ [.line FAVH_FAV ((f.nL + 1) % 256)]⟩
  | .folder =>
      if full then .refused
      else if !neg8 f.nF && decide (MAX_FOLDER ≤ f.nF) then .refused
      else .added ⟨f.nB, f.nL, (f.nF + 1) % 256,
                   f.items ++ [.folder FAVH_FAV ((f.nF + 1) % 256) (List.replicate TITLE_LEN 0) 0 0 0 []]⟩

/-- the add on the folder reached from the root through the entry indices `path`. -/
def addAt (full : Bool) (k : AddKind) : List Nat → Fav → AddRes
  | [], f => addHere full k f
  | i :: p, f =>
    match f.items[i]? with
    | some (.folder a fid t nB nL nF sub) =>
      match addAt full k p ⟨nB, nL, nF, sub⟩ with
      | .added g => .added { f with items := f.items.set i (.folder a fid t g.nB g.nL g.nF g.items) }
      | .existing => .existing
      | .refused => .refused
    | _ => .refused

def apiAdd (k : AddKind) (path : List Nat) (root : Fav) : AddRes :=
  addAt (decide (MAX_FAV ≤ totalCount root.items)) k path root

/-! ### what the harness does besides the API: it overwrites exported fields of the entry just added -/

def pokeItem : Item → Item → Item
  | .board a _ lv ba, .board _ b _ _ => .board a b lv ba
  | .line a lid, .line _ _ => .line a lid
  | .folder a fid t _ _ _ _, .folder _ _ _ nB nL nF sub => .folder a fid t nB nL nF sub
  | _, x => x

def pokeLast (spec : Item) : List Item → List Item
  | [] => []
  | [x] => [pokeItem spec x]
  | x :: xs => x :: pokeLast spec xs

def pokeAt (spec : Item) : List Nat → Fav → Fav
  | [], f => { f with items := pokeLast spec f.items }
  | i :: p, f =>
    match f.items[i]? with
    | some (.folder a fid t nB nL nF sub) =>
      let g := pokeAt spec p ⟨nB, nL, nF, sub⟩
      { f with items := f.items.set i (.folder a fid t g.nB g.nL g.nF g.items) }
    | _ => f

def levelLength : List Nat → Fav → Nat
  | [], f => f.items.length
  | i :: p, f =>
    match f.items[i]? with
    | some (.folder _ _ _ nB nL nF sub) => levelLength p ⟨nB, nL, nF, sub⟩
    | _ => 0

def Item.kind : Item → AddKind
  | .board _ bid _ _ => .board bid
  | .line .. => .line
  | .folder .. => .folder

inductive BuildRes where
  | built (f : Fav)
  | dup
  | reject
  deriving Repr

/-- the harness builds the tree of an op line depth first: add, overwrite the fields, descend. -/
def buildItems (path : List Nat) : List Item → Fav → BuildRes
  | [], r => .built r
  | .folder a fid t nB nL nF sub :: rest, r =>
      match apiAdd .folder path r with
      | .added r1 =>
          let r2 := pokeAt (.folder a fid t nB nL nF []) path r1
          match buildItems (path ++ [levelLength path r2 - 1]) sub r2 with
          | .built r3 => buildItems path rest r3
          | e => e
      | .existing => .dup
      | .refused => .reject
  | it :: rest, r =>
      match apiAdd it.kind path r with
      | .added r1 => buildItems path rest (pokeAt it path r1)
      | .existing => .dup
      | .refused => .reject

/-! ### checkIsToSave -/

inductive SaveDecision where
  | write      -- no file, or the file is older than the tree in memory
  | keepSelf   -- same mtime: nothing is written, the caller gets its own tree back
  | reload     -- the file is newer: nothing is written, the caller gets the file's tree
  deriving Repr, DecidableEq

def checkIsToSave (fileMTime : Option Nat) (memMTime : Nat) : SaveDecision :=
  match fileMTime with
  | none => .write
  | some m => if m < memMTime then .write else if m = memMTime then .keepSelf else .reload

/-! ### the saves as system-call sequences over a directory -/

abbrev FS := String → Option (List Nat)

inductive Step where
  /-- `open(name, O_CREAT|O_TRUNC)` -/
  | create (name : String)
  /-- `write` on the descriptor opened on `name` (sequential, so it appends) -/
  | write (name : String) (data : List Nat)
  | rename (src dst : String)
  deriving Repr

def FS.set (fs : FS) (n : String) (v : Option (List Nat)) : FS := fun m => if m = n then v else fs m

def applyStep (fs : FS) : Step → FS
  | .create n => fs.set n (some [])
  | .write n d => match fs n with
      | some old => fs.set n (some (old ++ d))
      | none => fs
  | .rename a b => match fs a with
      | some c => (fs.set b (some c)).set a none
      | none => fs

def run (fs : FS) (steps : List Step) : FS := steps.foldl applyStep fs

def FAVFILE : String := ".fav"

/-- `FavRaw.Save` after `checkIsToSave` said `write`, and `ptt.WriteFavorites`: create the temporary name,
write the content in some number of `write` calls, rename over `.fav`. -/
def atomicSteps (tmp : String) (chunks : List (List Nat)) : List Step :=
  .create tmp :: (chunks.map (Step.write tmp) ++ [.rename tmp FAVFILE])

/-- `os.WriteFile(".fav", …)`: what `ptt.WriteFavorites` did before fix 6502117. -/
def directSteps (chunks : List (List Nat)) : List Step :=
  .create FAVFILE :: chunks.map (Step.write FAVFILE)

def stepShape : Step → String
  | .create n => "create:" ++ (if n = FAVFILE then "fav" else "tmp")
  | .write n _ => "write:" ++ (if n = FAVFILE then "fav" else "tmp")
  | .rename a b => "rename:" ++ (if a = FAVFILE then "fav" else "tmp") ++ ">" ++ (if b = FAVFILE then "fav" else "tmp")

/-! ### concurrent savers: names, inodes and descriptors

The sequential model above writes "to a name". Overlapping saves need the real thing: `open` resolves the
name to an inode once, `write` goes to that inode at the descriptor's offset whatever the inode is called by
then, `rename` moves the inode to the new name. Any number of savers (indexed by `Nat`) run
`open(tmp i, O_CREAT|O_TRUNC); write chunk…; rename(tmp i, ".fav")`; a schedule is the list of saver indices
in the order their system calls happen. -/

structure World where
  names : String → Option Nat
  data : Nat → List Nat
  /-- the next unused inode number -/
  next : Nat

def World.read (w : World) (n : String) : Option (List Nat) := (w.names n).map w.data

def setName (f : String → Option Nat) (n : String) (v : Option Nat) : String → Option Nat :=
  fun m => if m = n then v else f m
def setData (f : Nat → List Nat) (i : Nat) (v : List Nat) : Nat → List Nat :=
  fun j => if j = i then v else f j

/-- `write` of `c` at offset `off` into a file holding `d` (a hole is zero-filled). -/
def writeAt (d : List Nat) (off : Nat) (c : List Nat) : List Nat :=
  (d ++ List.replicate (off - d.length) 0).take off ++ c ++ d.drop (off + c.length)

inductive SState where
  | idle
  /-- descriptor on inode `ino` at offset `off`; `rest` are the chunks still to write -/
  | writing (ino off : Nat) (rest : List (List Nat))
  | done
  deriving Repr, DecidableEq

structure Conc where
  w : World
  st : Nat → SState

def setSt (f : Nat → SState) (i : Nat) (v : SState) : Nat → SState := fun j => if j = i then v else f j

/-- the next system call of saver `i` (temporary name `tmp i`, content `chunks i`). -/
def concStep (tmp : Nat → String) (chunks : Nat → List (List Nat)) (c : Conc) (i : Nat) : Conc :=
  match c.st i with
  | .idle =>
      -- open(tmp i, O_CREAT|O_TRUNC)
      match c.w.names (tmp i) with
      | some ino => ⟨{ c.w with data := setData c.w.data ino [] }, setSt c.st i (.writing ino 0 (chunks i))⟩
      | none =>
          ⟨{ names := setName c.w.names (tmp i) (some c.w.next), data := setData c.w.data c.w.next [],
             next := c.w.next + 1 }, setSt c.st i (.writing c.w.next 0 (chunks i))⟩
  | .writing ino off (ch :: rest) =>
      ⟨{ c.w with data := setData c.w.data ino (writeAt (c.w.data ino) off ch) },
       setSt c.st i (.writing ino (off + ch.length) rest)⟩
  | .writing _ _ [] =>
      -- rename(tmp i, ".fav"); ENOENT leaves everything as it is (the caller returns an error)
      match c.w.names (tmp i) with
      | some ino => ⟨{ c.w with names := setName (setName c.w.names FAVFILE (some ino)) (tmp i) none },
                     setSt c.st i .done⟩
      | none => ⟨c.w, setSt c.st i .done⟩
  | .done => c

def concRun (tmp : Nat → String) (chunks : Nat → List (List Nat)) (c : Conc) (sched : List Nat) : Conc :=
  sched.foldl (concStep tmp chunks) c

def concInit (w : World) : Conc := ⟨w, fun _ => .idle⟩

/-! ### the byte-level API: ptt.WriteFavorites stores the client's `.fav`, ptt.GetFavorites hands it back -/

/-- the limit of the reader in `GetFavorites` (regenerated: `io.ReadAll(file)` is `none`). -/
def GET_LIMIT : Option Nat := Gen.Fav.getFavoritesReadLimit

/-- `io.ReadAll(file)` / `io.ReadAll(io.LimitReader(file, n))`: a limited reader stops silently. -/
def readAllLimited (limit : Option Nat) (c : List Nat) : List Nat :=
  match limit with
  | none => c
  | some n => c.take n

/-- `GetFavorites(userID, retrieveTS)` on a home directory whose `.fav` is `file` (content, mtime) or absent
(and no `.fav4`): `(nil, 0)` without a file, `(nil, mtime)` when the caller's copy is not older, else the
content. -/
def getFavorites (file : Option (List Nat × Nat)) (retrieveTS : Nat) : Option (List Nat) × Nat :=
  match file with
  | none => (none, 0)
  | some (c, m) =>
    if m = 0 then (none, 0)
    else if m ≤ retrieveTS then (none, m)
    else (some (readAllLimited GET_LIMIT c), m)

/-- the largest `.fav` the API limits allow: version word, root header, `MAX_FAV` folder entries with their
sub-headers (a folder costs 52 + 4 bytes, more than a board's 14 or a line's 3). -/
def MAX_FILE : Nat := 2 + 4 + MAX_FAV * (52 + 4)

/-! ### a write error in the middle of a save (ENOSPC, EDQUOT, EFBIG, EIO)

`Save` and `WriteFavorites` check the error of every write (`BinaryWrite`, `BinWrite`, `os.WriteFile`): the
first failing write ends the save with an error return, before the rename. The failing call may have
written the first `p` bytes of its chunk (short write). -/

/-- the system calls of a save whose `i`-th write call fails after `p` bytes: no rename follows. -/
def faultedSteps (tmp : String) (chunks : List (List Nat)) (i p : Nat) : List Step :=
  .create tmp :: ((chunks.take i).map (Step.write tmp) ++ [.write tmp ((chunks.getD i []).take p)])

/-- a saver that does NOT notice the error (what a `BinaryWrite` swallowing it amounts to): the later
writes fail as well, the rename happens. -/
def swallowingSteps (tmp : String) (chunks : List (List Nat)) (i p : Nat) : List Step :=
  faultedSteps tmp chunks i p ++ [.rename tmp FAVFILE]

inductive SaveReturn where
  | ok
  | err
  deriving Repr, DecidableEq

/-- a save under an optional write fault: the steps it performs and what it returns. -/
def saveUnderFault (tmp : String) (chunks : List (List Nat)) (fault : Option (Nat × Nat)) :
    List Step × SaveReturn :=
  match fault with
  | none => (atomicSteps tmp chunks, .ok)
  | some (i, p) => (faultedSteps tmp chunks i p, .err)

/-- the fault RLIMIT_FSIZE = `limit` produces on a save writing `total` bytes: none when everything fits. -/
def efbigOutcome (limit total : Nat) : SaveReturn := if total ≤ limit then .ok else .err

/-! ### the legacy `.fav4` migration (fav4.go): Load with only a `.fav4` present

`fav4ReadFavrec` reads a record like `ReadFavrec` but WITHOUT the count guard (a negative sum reaches
`make`) and without a version word; a board entry has the same 14 bytes, a line the same 3. A folder entry
cannot be read at all: `BinRead` hands `encoding/binary` a `FavFolder`, whose pointer field it refuses — the
migration of a `.fav4` holding a folder ends with ErrInvalidFav4Record. (Entry types other than 1/2/3 are
kept by the Go code as payload-less entries; they are not representable here.) `TryFav4Load` then runs
`Save` on the tree (cleanup drops the entries without the FAV bit), producing `.fav`. -/

def fav4Read (bs : List Nat) : M (Option Fav) :=
  match bs with
  | b0 :: b1 :: nL :: nF :: rest =>
    let nB := dec16 b0 b1
    let total := total16 nB nL nF
    if neg16 total then .error .panic
    else
      match readEntries total rest with
      | none => .ok none
      | some (ents, _) =>
        if ents.any Item.isFolder then .ok none
        else do
          match ← attach (fun _ => .ok none) ents [] 0 0 with
          | none => pure none
          | some (items, _) => pure (some ⟨nB, nL, nF, items⟩)
  | _ => .ok none

/-- `Load` when only `.fav4` exists: the new `.fav` image (none: the migration failed, nothing is written). -/
def fav4Migrate (bs : List Nat) : M (Option (List Nat)) := do
  match ← fav4Read bs with
  | none => pure none
  | some f =>
    let b ← saveBytes f
    pure (some b)

end PttVerif.C19
