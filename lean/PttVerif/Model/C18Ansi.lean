import PttVerif.Common
import PttVerif.Gen.C18Str
/-
C18 (group 2) — model of cmsys.StripAnsi (cmsys/string.go) with isEscapeParam / isEscapeCommand and the
regenerated ESCAPE_FLAG table (cmsys/const.go).

The Go function walks `src` with the index `idxSrc` and fills `dst = make([]byte, len(src))` at `idxDst`.
The model keeps exactly these: `i` = idxSrc, `out` = dst[:idxDst] (so idxDst = out.length, len(dst) = src.length).
Every `src[...]`, `ESCAPE_FLAG[...]` and slice expression is an `idx`/`slice`, faulting where Go panics.
Loops run on fuel (`Fault.diverge` when exhausted); that the fuel given is enough is part of `strip_total`.
-/
namespace PttVerif.C18
open PttVerif

def escapeFlag : List Nat := Gen.C18Str.escapeFlag
def ESC : Nat := Gen.C18Str.escChr
def STRIP_ANSI_ALL : Nat := Gen.C18Str.stripAnsiAll
def STRIP_ANSI_ONLY_COLOR : Nat := Gen.C18Str.stripAnsiOnlyColor
def STRIP_ANSI_NO_RELOAD : Nat := Gen.C18Str.stripAnsiNoReload

/-- `isEscapeParam(x)`: `ESCAPE_FLAG[x]&1 != 0`. -/
def isEscapeParam (x : Nat) : M Bool := do
  let f ← idx escapeFlag x
  pure (f &&& 1 != 0)

/-- `isEscapeCommand(x)`: `ESCAPE_FLAG[x]&2 != 0`. -/
def isEscapeCommand (x : Nat) : M Bool := do
  let f ← idx escapeFlag x
  pure (f &&& 2 != 0)

/-- `for idxP = idxP + 1; idxP < len(src) && isEscapeParam(src[idxP]); idxP = idxP + 1 {}` — the argument is
the value of `idxP` at the loop test; the result is its value when the loop is left. -/
def scanParams (src : List Nat) : Nat → Nat → M Nat
  | 0, _ => .error .diverge
  | fuel + 1, p =>
    if p < src.length then do
      let c ← idx src p
      if ← isEscapeParam c then scanParams src fuel (p + 1) else pure p
    else pure p

/-- the test `(flag == STRIP_ANSI_NO_RELOAD && isEscapeCommand(p)) || (flag == STRIP_ANSI_ONLY_COLOR && p == 'm')`
(`isEscapeCommand` is evaluated only under the first flag, as `&&` does). -/
def keepSeq (flag p : Nat) : M Bool := do
  let c1 ← if flag = STRIP_ANSI_NO_RELOAD then isEscapeCommand p else pure false
  pure (c1 || (decide (flag = STRIP_ANSI_ONLY_COLOR) && decide (p = 109)))

/-- `theLen := idxP - idxSrc + 1; copy(dst[idxDst:(idxDst+theLen)], src[idxSrc:(idxSrc+theLen)]); idxDst += theLen`
with `dst = make([]byte, len(src))`, `out = dst[:idxDst]`: both slice expressions can fault. -/
def copySeq (src : List Nat) (i idxP : Nat) (out : List Nat) : M (List Nat) :=
  let theLen := idxP - i + 1
  if out.length + theLen ≤ src.length then do
    let seg ← slice src i (i + theLen)
    pure (out ++ seg)
  else .error .panic

/-- the main loop of `StripAnsi`, entered at the loop test with `idxSrc = i`. -/
def stripLoop (src : List Nat) (flag : Nat) : Nat → Nat → List Nat → M (List Nat)
  | 0, _, _ => .error .diverge
  | fuel + 1, i, out =>
    if ¬ i < src.length then pure out else do
    let each ← idx src i
    if each = 0 then pure out
    else if each ≠ ESC then
      -- if idxDst < len(dst) { dst[idxDst] = each; idxDst++ }; continue
      let out' := if out.length < src.length then out ++ [each] else out
      stripLoop src flag fuel (i + 1) out'
    else if i + 1 = src.length then pure out            -- idxSrc == len(src)-1: ESC is the last byte
    else do
      let p ← idx src (i + 1)
      if p ≠ 91 then do
        -- idxSrc++; if src[idxSrc] == 0 { break }; continue
        let c ← idx src (i + 1)
        if c = 0 then pure out else stripLoop src flag fuel (i + 2) out
      else do
        let idxP ← scanParams src (src.length + 1) (i + 2)
        if idxP = src.length then pure out               -- sequence cut off by the end of the slice (fix 7e6a1aa)
        else do
        let p ← idx src idxP
        let keep ← keepSeq flag p
        let out' ← if keep then copySeq src i idxP out else pure out
        -- idxSrc = idxP; if idxSrc == len(src) || src[idxSrc] == 0 { break }
        if idxP = src.length then pure out' else do
        let c ← idx src idxP
        if c = 0 then pure out' else stripLoop src flag fuel (idxP + 1) out'

/-- `StripAnsi(src, flag)`. -/
def stripAnsi (src : List Nat) (flag : Nat) : M (List Nat) :=
  stripLoop src flag (src.length + 1) 0 []

/-! ### specification: a small lexer grammar for ANSI text and the filter each mode stands for -/

def flagOf (x : Nat) : Nat := escapeFlag.getD x 0
def isParamB (x : Nat) : Bool := flagOf x &&& 1 != 0
def isCmdB (x : Nat) : Bool := flagOf x &&& 2 != 0

/-- lexical units of a NUL-free byte string. -/
inductive Tok where
  | plain (b : Nat)                    -- a byte other than ESC
  | escOther (b : Nat)                 -- ESC followed by a byte other than '['
  | csi (ps : List Nat) (f : Nat)      -- ESC '[' parameter bytes, final byte
  | csiTrunc (ps : List Nat)           -- ESC '[' parameter bytes, end of input
  | escEnd                             -- ESC, end of input
  deriving Repr, DecidableEq

def Tok.bytes : Tok → List Nat
  | .plain b => [b]
  | .escOther b => [ESC, b]
  | .csi ps f => ESC :: 91 :: (ps ++ [f])
  | .csiTrunc ps => ESC :: 91 :: ps
  | .escEnd => [ESC]

/-- each unit is what its name says. -/
def Tok.ok : Tok → Prop
  | .plain b => b ≠ ESC
  | .escOther b => b ≠ 91
  | .csi ps f => (∀ p ∈ ps, isParamB p = true) ∧ isParamB f = false
  | .csiTrunc ps => ∀ p ∈ ps, isParamB p = true
  | .escEnd => True

/-- a unit that does not run into the end of the input. -/
def Tok.complete : Tok → Prop
  | .csiTrunc _ => False
  | .escEnd => False
  | _ => True

/-- a token sequence is a lexing: every unit is well-formed and only the last one may be cut off. -/
def WF : List Tok → Prop
  | [] => True
  | t :: rest => t.ok ∧ (rest ≠ [] → t.complete) ∧ WF rest

def bytesOf (toks : List Tok) : List Nat := toks.flatMap Tok.bytes

/-- what a mode lets through: plain bytes always; a complete CSI sequence when its final byte is allowed. -/
def keepTok (flag : Nat) : Tok → List Nat
  | .plain b => [b]
  | .csi ps f =>
    if (flag = STRIP_ANSI_NO_RELOAD ∧ isCmdB f = true) ∨ (flag = STRIP_ANSI_ONLY_COLOR ∧ f = 109) then
      (Tok.csi ps f).bytes
    else []
  | _ => []

/-! ### the call site of strip-all: ptt.myWrite → myWriteMsg (ptt/talk.go)

`msg := cmsys.StripAnsi(prompt, cmsys.STRIP_ANSI_ALL)` — unconditionally (regenerated call-site fact
`Gen.C18Str.myWriteStripsUnconditionally`) — then `copy(msgQueue.LastCallIn[:], msg)` into the zeroed 76-byte field. -/

def LAST_CALL_IN : Nat := Gen.C18Str.lastCallInLen

/-- what the receiver's message queue holds for a message text. -/
def lastCallIn (prompt : List Nat) : M (List Nat) := do
  let msg ← stripAnsi prompt STRIP_ANSI_ALL
  pure (copyInto LAST_CALL_IN msg)

/-- the broken rule (seed C18-r6-1), for the witness theorem: strip only when the text contains `ESC [`. -/
def containsCsi : List Nat → Bool
  | a :: b :: r => (a == ESC && b == 91) || containsCsi (b :: r)
  | _ => false

def lastCallInFastPath (prompt : List Nat) : M (List Nat) := do
  let msg ← if containsCsi prompt then stripAnsi prompt STRIP_ANSI_ALL else pure prompt
  pure (copyInto LAST_CALL_IN msg)

end PttVerif.C18
