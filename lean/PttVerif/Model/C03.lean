import PttVerif.Common
import PttVerif.Gen.Acct
/-
C03 — sequential model of the account operations, as the `bbs` package exposes them:

  bbs/register.go login.go check_passwd.go change_passwd.go change_email.go check_exists_user.go uuser_id.go
      : the wrappers (`copy` of the submitted strings into fixed arrays, `UUserID.ToRaw`, `ToUUserID`)
  ptt/register.go  : Register, NewRegister, SetupNewUser, isBadUserID, isReservedUserID
  ptt/mbbsd.go     : Login, LoginQuery (guest needs no password), userLogin, setupUtmp
  ptt/cache.go     : getNewUtmpEnt (the session table), GetUser
  ptt/user.go      : ChangePasswd, CheckPasswd, ChangeEmail, GetUID
  ptt/passwd.go    : InitCurrentUser, passwdSyncUpdate / passwdSyncQuery
  ptt/pwcu.go      : pwcuLoginSave (rewrites the record of the user who logs in)
  cmbbs/passwd.go  : GenPasswd (an empty password or a leading NUL gives the all-zero hash),
                     CheckPasswd, PasswdLoadUser, PasswdQuery(Passwd), PasswdUpdate(Passwd|Email)
  cache/cache_user.go : SearchUserRaw / DoSearchUserRaw (the id index), SetUserID
  ptttype/types.go : UserID_t.IsValid, UID.IsValid;  types/cstr.go : Cstrcmp, Cstrcasecmp, Cstrlen; types/ctype.go

State.  `.PASSWDS` is a list of records reduced to the fields these operations read or write — `UserID` (13 bytes),
`PasswdHash`, `Email` (50 bytes) — plus ONE opaque value `rest` standing for all other bytes of the 512-byte
record (timestamps, host, counters, profile …; what is written there comes from the clock and is an argument of
the operation).  The SHM id index is the abstract case-insensitive map "uid of the first slot whose id compares
equal (strcasecmp)" — property C04 shows the real hash chains implement exactly that; the empty-id chain is in
ascending slot order (the loader appends in slot order and registration removes its head).  `sess` is the
occupancy of the SHM session table `UInfo` (uids holding an entry; `getNewUtmpEnt` re-uses a user's entry, else
takes a free one, else fails) — nothing in the repository ever vacates an entry.

Password hashing is NOT modelled again: `Crypto` is an interface (`gen` = GenPasswd with the drawn salt number,
`check` = CheckPasswd, `zero` = the all-zero hash) whose laws are the facts property C02 proves about the DES
model; `Proofs/C03Crypt.lean` instantiates it with that model.  The driver runs the ideal instance
(`hash = effective key`).

Not modelled (assumed not to interfere, see checks/c03.py): file-system errors, account expiry (`tryCleanUser`
never sweeps while `.fresh` is younger than an hour), the home directories, the fav file, aloha messages.
-/
namespace PttVerif.C03
open PttVerif

abbrev Bytes := List Nat

def IDLEN : Nat := Gen.Acct.idLen
def IDSZ : Nat := Gen.Acct.userIDSize
def EMAILSZ : Nat := Gen.Acct.emailSize
def MAX : Nat := Gen.Acct.maxUsers
def USHM : Nat := Gen.Acct.ushmSize
def STR_GUEST : Bytes := Gen.Acct.strGuest
def STR_REGNEW : Bytes := Gen.Acct.strRegnew

/-! ### types/ctype.go, types/cstr.go -/

def inRanges (rs : List (Nat × Nat)) (c : Nat) : Bool := rs.any fun r => r.1 ≤ c && c ≤ r.2

def isAlpha (c : Nat) : Bool := inRanges Gen.Acct.alphaRanges c
def isNumber (c : Nat) : Bool := inRanges Gen.Acct.numberRanges c
def isAlnum (c : Nat) : Bool := isAlpha c || isNumber c

/-- `types.CcharTolower`. -/
def tolower (c : Nat) : Nat := if 65 ≤ c ∧ c ≤ 90 then c + 32 else c

/-- `types.Cstrcmp`, branch by branch (second argument = the rest of cstr2 from the current index). -/
def cstrcmp : Bytes → Bytes → Int
  | [], [] => 0
  | [], y :: _ => -(y : Int)
  | x :: _, [] => if x = 0 then 0 else (x : Int)
  | x :: xs, y :: ys =>
    if x = 0 then (if y = 0 then 0 else -(y : Int))
    else if x ≠ y then (x : Int) - (y : Int)
    else cstrcmp xs ys

/-- `types.Cstrcasecmp`. -/
def cstrcasecmp (a b : Bytes) : Int := cstrcmp (a.map tolower) (b.map tolower)

/-- one comparison of the length guard (codes as in `Gen/Acct.lean`). -/
def cmpOp (code a b : Nat) : Bool :=
  match code with
  | 0 => a < b
  | 1 => a ≤ b
  | 2 => a > b
  | 3 => a ≥ b
  | 4 => a == b
  | 5 => a != b
  | _ => false

/-- `for idx, c := range u { if idx == theLen { break }; if !types.Isalnum(c) { return false } }; return true`. -/
def validLoop : Bytes → Nat → Nat → Bool
  | [], _, _ => true
  | c :: cs, idx, theLen => if idx = theLen then true else if !isAlnum c then false else validLoop cs (idx + 1) theLen

/-- `UserID_t.IsValid` on the 13-byte array. -/
def isValidId (u : Bytes) : Bool :=
  let theLen := (cstr u).length                                       -- types.Cstrlen(u[:])
  if Gen.Acct.lenGuard.any (fun g => cmpOp g.1 theLen g.2) then false  -- theLen < 2 || theLen > IDLEN
  else if !isAlpha (u.headD 0) then false                              -- !types.Isalpha(u[0])
  else validLoop u 0 theLen

/-! ### ptt/register.go: the gates of NewRegister -/

def isBadUserID (u : Bytes) : Bool :=
  if !isValidId u then true
  else if cstrcasecmp u STR_REGNEW = 0 then true
  else if STR_GUEST ≠ [] ∧ cstrcasecmp u STR_GUEST = 0 then true
  else false

/-- `ptttype.ReservedUserIDs` is read from etc/reserved.id at start: a parameter. -/
def isReservedUserID (reserved : List Bytes) (u : Bytes) : Bool :=
  reserved.any fun each => cstrcasecmp u each = 0

/-! ### password hashing: the interface -/

structure Crypto where
  H : Type
  zero : H                   -- Passwd_t{}: what GenPasswd returns for a password whose first byte is NUL
  gen : Nat → Bytes → H      -- GenPasswd(passwd) when rand.Intn(65536) draws the number (len(passwd) > 0, passwd[0] ≠ 0)
  check : H → Bytes → Bool   -- cmbbs.CheckPasswd(stored, input)

/-- the bytes of a password that reach DES: the first eight, up to the first NUL, low seven bits each, zero padded
(the same function as `PttVerif.C02.effKey8`; `Proofs/C03Crypt.lean: effKey8_eq`). -/
def effKey8 (p : Bytes) : Bytes := copyInto 8 (((p.take 8).takeWhile (· ≠ 0)).map (· &&& 0x7f))

/-- the ideal hash: the effective key itself (`none` = a hash that nothing verifies against). -/
def ideal : Crypto where
  H := Option Bytes
  zero := none
  gen := fun _ p => some (effKey8 p)
  check := fun h q => h == some (effKey8 q)

/-- `cmbbs.GenPasswd`: `if len(passwd) == 0 || passwd[0] == 0 { return &ptttype.Passwd_t{}, nil }`. -/
def genPasswd (C : Crypto) (salt : Nat) (passwd : Bytes) : C.H :=
  if passwd.length = 0 ∨ passwd.headD 0 = 0 then C.zero else C.gen salt passwd

/-! ### state -/

structure Rec (C : Crypto) where
  id : Bytes        -- UserID  [IDLEN+1]byte
  hash : C.H        -- PasswdHash
  email : Bytes     -- Email   [EMAILSZ]byte
  rest : Nat        -- every other byte of the record, opaque

structure State (C : Crypto) where
  recs : List (Rec C)      -- .PASSWDS, slot = uid-1
  sess : List Nat          -- uids that hold an entry of the SHM session table

/-- the error values the operations return. -/
inductive Err where
  | none             -- nil
  | invalidUserID    -- ptttype.ErrInvalidUserID
  | userExists       -- ptttype.ErrUserIDAlreadyExists
  | invalidUID       -- cache.ErrInvalidUID
  | newUtmp          -- ptt.ErrNewUtmp
  | invalidParams    -- bbs.ErrInvalidParams
  | invalidUUserID   -- bbs.ErrInvalidUUserID
  | io               -- an error from os (a record beyond the end of the file); never under the invariant
  deriving DecidableEq, Repr, Inhabited

/-- what an operation answers: the error value and the returned strings (uuserID; for `getUser` id and email). -/
structure Ans where
  err : Err
  out : List Bytes
  deriving DecidableEq, Repr

section
variable {C : Crypto}

/-- `UID.IsValid`. -/
def uidValid (uid : Nat) : Bool := 1 ≤ uid && uid ≤ MAX

/-- the walk of `DoSearchUserRaw` through the index, abstractly: the uid of the first slot whose id compares
equal with strcasecmp; 0 = none. -/
def searchFrom : List (Rec C) → Bytes → Nat → Nat
  | [], _, _ => 0
  | r :: rs, q, i => if cstrcasecmp q r.id = 0 then i + 1 else searchFrom rs q (i + 1)

def doSearchUserRaw (s : State C) (q : Bytes) : Nat := searchFrom s.recs q 0

/-- `SearchUserRaw`: `if userID[0] == 0 { return 0, nil }`. -/
def searchUserRaw (s : State C) (q : Bytes) : Nat :=
  if q.headD 0 = 0 then 0 else doSearchUserRaw s q

/-- `PasswdQuery(uid)` after its `uid.IsValid()` test: the record, `none` = beyond the end of the file. -/
def recOf (s : State C) (uid : Nat) : Option (Rec C) := s.recs[uid - 1]?

def setRec (s : State C) (uid : Nat) (r : Rec C) : State C := { s with recs := s.recs.set (uid - 1) r }

/-- `getNewUtmpEnt`: the user's own entry, else a free one, else `ErrNewUtmp`. -/
def utmpEnter (sess : List Nat) (uid : Nat) : Option (List Nat) :=
  if uid ∈ sess then some sess
  else if sess.length < USHM then some (sess ++ [uid])
  else none

/-- `ToUUserID`. -/
def toUUserID (id : Bytes) : Bytes := if isValidId id then cstr id else []

/-- `SetupNewUser` (one caller at a time): lookup, empty-slot lookup (`tryCleanUser` does not sweep), lock, both
lookups again, `SetUserID`, `passwdSyncUpdate`. -/
def setupNewUser (s : State C) (newUser : Rec C) : State C × Err :=
  if doSearchUserRaw s newUser.id ≠ 0 then (s, .userExists) else
  let _ := doSearchUserRaw s (List.replicate IDSZ 0)
  -- PasswdLock(); check again under the lock
  if doSearchUserRaw s newUser.id ≠ 0 then (s, .userExists) else
  let uid := doSearchUserRaw s (List.replicate IDSZ 0)
  -- cache.SetUserID(uid, …): `uid <= 0 || uid > MAX_USERS` → ErrInvalidUID
  if !uidValid uid then (s, .invalidUID) else
  -- passwdSyncUpdate(uid, user)
  (setRec s uid newUser, .none)

/-- `userLogin`: `setupUtmp` then `pwcuLoginSave` (read the record, update LastHost/LastLogin/NumLoginDays/LastSeen,
write it back). -/
def userLogin (s : State C) (uid : Nat) (rest : Nat) : State C × Err :=
  match utmpEnter s.sess uid with
  | none => (s, .newUtmp)
  | some sess' =>
      match recOf s uid with
      | none => ({ s with sess := sess' }, .io)
      | some u => (setRec { s with sess := sess' } uid { u with rest := rest }, .none)

/-- `bbs.Register` → `ptt.Register` → `NewRegister`. -/
def register (reserved : List Bytes) (s : State C) (username passwd email : Bytes) (salt rest : Nat) :
    State C × Ans :=
  -- bbs.Register: `if strings.IndexByte(username, 0) >= 0 { return "", ptttype.ErrInvalidUserID }`
  if username.contains 0 then (s, ⟨.invalidUserID, [[]]⟩) else
  let userID := copyInto IDSZ username
  let emailRaw := copyInto EMAILSZ email
  if isBadUserID userID then (s, ⟨.invalidUserID, [[]]⟩) else
  if isReservedUserID reserved userID then (s, ⟨.invalidUserID, [[]]⟩) else
  let newUser : Rec C := { id := userID, hash := genPasswd C salt passwd, email := emailRaw, rest := rest }
  let (s1, e1) := setupNewUser s newUser
  if e1 ≠ .none then (s1, ⟨e1, [[]]⟩) else
  -- InitCurrentUser(userID): PasswdLoadUser
  let uid := searchUserRaw s1 userID
  if !uidValid uid then (s1, ⟨.invalidUserID, [[]]⟩) else
  match recOf s1 uid with
  | none => (s1, ⟨.io, [[]]⟩)
  | some user =>
      -- mkUserDir, reginitFav, then userLogin
      let (s2, e2) := userLogin s1 uid rest
      if e2 ≠ .none then (s2, ⟨e2, [[]]⟩) else
      (s2, ⟨.none, [toUUserID user.id]⟩)

/-- `bbs.Login` → `ptt.Login` → `LoginQuery` + `userLogin`. -/
def login (s : State C) (username passwd : Bytes) (rest : Nat) : State C × Ans :=
  let userID := copyInto IDSZ username
  if !isValidId userID then (s, ⟨.invalidUserID, [[]]⟩) else
  -- InitCurrentUser → PasswdLoadUser
  if userID.headD 0 = 0 then (s, ⟨.invalidUserID, [[]]⟩) else
  let uid := searchUserRaw s userID
  if !uidValid uid then (s, ⟨.invalidUserID, [[]]⟩) else
  match recOf s uid with
  | none => (s, ⟨.io, [[]]⟩)
  | some user =>
      -- no need to check password for guest (case-sensitive comparison with the STORED id)
      if cstrcmp user.id STR_GUEST ≠ 0 ∧ !C.check user.hash passwd then (s, ⟨.invalidUserID, [[]]⟩) else
      let (s2, e2) := userLogin s uid rest
      if e2 ≠ .none then (s2, ⟨e2, [[]]⟩) else
      (s2, ⟨.none, [toUUserID user.id]⟩)

/-- `bbs.CheckPasswd` → `ptt.CheckPasswd`. -/
def checkPasswd (s : State C) (uuserID passwd : Bytes) : State C × Ans :=
  let userID := copyInto IDSZ uuserID
  if !isValidId userID then (s, ⟨.invalidParams, []⟩) else
  if userID.headD 0 = 0 then (s, ⟨.invalidUserID, []⟩) else
  let uid := searchUserRaw s userID
  -- PasswdQueryPasswd
  if !uidValid uid then (s, ⟨.invalidUserID, []⟩) else
  match recOf s uid with
  | none => (s, ⟨.io, []⟩)
  | some user =>
      if !C.check user.hash passwd then (s, ⟨.invalidUserID, []⟩) else (s, ⟨.none, []⟩)

/-- `bbs.ChangePasswd` → `ptt.ChangePasswd`. -/
def changePasswd (s : State C) (uuserID origPasswd passwd : Bytes) (salt : Nat) : State C × Ans :=
  let userID := copyInto IDSZ uuserID
  if !isValidId userID then (s, ⟨.invalidUUserID, []⟩) else
  if userID.headD 0 = 0 then (s, ⟨.invalidUserID, []⟩) else
  let uid := searchUserRaw s userID
  if !uidValid uid then (s, ⟨.invalidUserID, []⟩) else
  match recOf s uid with
  | none => (s, ⟨.io, []⟩)
  | some user =>
      if !C.check user.hash origPasswd then (s, ⟨.invalidUserID, []⟩) else
      -- PasswdUpdatePasswd(uid, hash): the PasswdHash bytes of the record only
      (setRec s uid { user with hash := genPasswd C salt passwd }, ⟨.none, []⟩)

/-- `bbs.ChangeEmail` → `ptt.ChangeEmail` (no password is asked for). -/
def changeEmail (s : State C) (uuserID email : Bytes) : State C × Ans :=
  let userID := copyInto IDSZ uuserID
  let emailRaw := copyInto EMAILSZ email
  if !isValidId userID then (s, ⟨.invalidUUserID, []⟩) else
  if userID.headD 0 = 0 then (s, ⟨.invalidUserID, []⟩) else
  let uid := searchUserRaw s userID
  -- PasswdUpdateEmail
  if !uidValid uid then (s, ⟨.invalidUID, []⟩) else
  match recOf s uid with
  | none => (s, ⟨.io, []⟩)
  | some user => (setRec s uid { user with email := emailRaw }, ⟨.none, []⟩)

/-- `bbs.CheckExistsUser`: answers the SUBMITTED string when the id is found, "" when not. -/
def checkExists (s : State C) (username : Bytes) : State C × Ans :=
  let userID := copyInto IDSZ username
  if !isValidId userID then (s, ⟨.invalidParams, [[]]⟩) else
  let uid := searchUserRaw s userID
  if !uidValid uid then (s, ⟨.none, [[]]⟩) else (s, ⟨.none, [username]⟩)

/-- `ptt.GetUser` on the 13-byte array made from the submitted string (no validity test in the source). -/
def getUser (s : State C) (username : Bytes) : State C × Ans :=
  let userID := copyInto IDSZ username
  let uid := searchUserRaw s userID
  if !uidValid uid then (s, ⟨.invalidUserID, []⟩) else
  match recOf s uid with
  | none => (s, ⟨.io, []⟩)
  | some user => (s, ⟨.none, [user.id, user.email]⟩)

end

/-! ### operations and histories -/

/-- a request; `salt` = the number `rand.Intn(65536)` draws inside GenPasswd, `rest` = the clock-dependent
bytes written outside UserID / PasswdHash / Email. -/
inductive Op where
  | register (id pw email : Bytes) (salt rest : Nat)
  | login (id pw : Bytes) (rest : Nat)
  | checkPasswd (id pw : Bytes)
  | changePasswd (id old new : Bytes) (salt : Nat)
  | changeEmail (id email : Bytes)
  | exists_ (id : Bytes)
  | getUser (id : Bytes)
  deriving Repr, DecidableEq

def step {C : Crypto} (reserved : List Bytes) (s : State C) : Op → State C × Ans
  | .register id pw email salt rest => register reserved s id pw email salt rest
  | .login id pw rest => login s id pw rest
  | .checkPasswd id pw => checkPasswd s id pw
  | .changePasswd id old new salt => changePasswd s id old new salt
  | .changeEmail id email => changeEmail s id email
  | .exists_ id => checkExists s id
  | .getUser id => getUser s id

def run {C : Crypto} (reserved : List Bytes) (s : State C) : List Op → State C
  | [] => s
  | o :: os => run reserved (step reserved s o).1 os

def outputs {C : Crypto} (reserved : List Bytes) (s : State C) : List Op → List Ans
  | [] => []
  | o :: os => (step reserved s o).2 :: outputs reserved (step reserved s o).1 os

/-! ### the abstract account table (the specification) -/

/-- the key of an account: the C-string reading of an id, folded to lower case. -/
def foldId (id : Bytes) : Bytes := (cstr id).map tolower

def isLetter (c : Nat) : Prop := (65 ≤ c ∧ c ≤ 90) ∨ (97 ≤ c ∧ c ≤ 122)
def isDigit (c : Nat) : Prop := 48 ≤ c ∧ c ≤ 57

instance (c : Nat) : Decidable (isLetter c) := by unfold isLetter; exact inferInstance
instance (c : Nat) : Decidable (isDigit c) := by unfold isDigit; exact inferInstance

/-- well-formed id: 2–12 alphanumerics, the first a letter. -/
def WellFormed (s : Bytes) : Prop :=
  2 ≤ s.length ∧ s.length ≤ 12 ∧ (∃ c, s.head? = some c ∧ isLetter c) ∧ ∀ c ∈ s, isLetter c ∨ isDigit c

instance (s : Bytes) : Decidable (WellFormed s) := by
  unfold WellFormed
  have : Decidable (∃ c, s.head? = some c ∧ isLetter c) :=
    match h : s.head? with
    | none => isFalse (by simp)
    | some c => if hc : isLetter c then isTrue ⟨c, rfl, hc⟩ else isFalse (by simp [hc])
  exact inferInstance

/-- "new" and "guest" in any letter case, and the configured reserved list. -/
def Reserved (reserved : List Bytes) (s : Bytes) : Prop :=
  s.map tolower = STR_REGNEW.map tolower ∨ s.map tolower = STR_GUEST.map tolower ∨
    ∃ r ∈ reserved, s.map tolower = foldId r

instance (reserved : List Bytes) (s : Bytes) : Decidable (Reserved reserved s) := by
  unfold Reserved; exact inferInstance

structure Account where
  id : Bytes             -- the id as registered
  pw : Option Bytes      -- the effective key of the current password; `none`: no password is accepted
  email : Bytes
  deriving DecidableEq, Repr

structure Table where
  acc : Bytes → Option Account     -- folded id ↦ account
  free : Nat                       -- free slots
  sess : List Bytes                -- keys of the accounts that hold a session entry

def updAcc (f : Bytes → Option Account) (k : Bytes) (a : Account) : Bytes → Option Account :=
  fun k' => if k' = k then some a else f k'

/-- result classes of the specification. -/
inductive Res where
  | ok
  | invalidId       -- not 2–12 alphanumerics with a leading letter
  | reserved        -- "new", "guest" (any case), configured reserved ids
  | exists_         -- the id is taken (in any letter case)
  | noSlot          -- the table is full
  | badPassword
  | noSuchUser
  deriving DecidableEq, Repr, Inhabited

/-- the password an account gets: the empty password and a leading NUL lock the account (all-zero hash: pttbbs's
"unable to login"). -/
def pwOf (pw : Bytes) : Option Bytes := if pw.length = 0 ∨ pw.headD 0 = 0 then none else some (effKey8 pw)

/-- "the current password": equal effective key (that IS crypt(3)); guest needs none. -/
def pwOk (a : Account) (pw : Bytes) : Prop := a.pw = some (effKey8 pw)

instance (a : Account) (pw : Bytes) : Decidable (pwOk a pw) := by unfold pwOk; exact inferInstance

/-- bookkeeping: the account opens a session (it keeps the one it has). -/
def sessAdd (sess : List Bytes) (k : Bytes) : List Bytes := if k ∈ sess then sess else sess ++ [k]

/-- what the specification answers: the class and the returned strings. -/
structure SpecAns where
  res : Res
  out : List Bytes
  deriving DecidableEq, Repr

def specStep (reserved : List Bytes) (t : Table) : Op → Table × SpecAns
  | .register id pw email _ _ =>
      -- the id AS SUBMITTED must be well-formed (an embedded NUL, a 13th byte … make it invalid)
      if ¬ WellFormed id then (t, ⟨.invalidId, [[]]⟩) else
      if Reserved reserved id then (t, ⟨.reserved, [[]]⟩) else
      match t.acc (id.map tolower) with
      | some _ => (t, ⟨.exists_, [[]]⟩)
      | none =>
          if t.free = 0 then (t, ⟨.noSlot, [[]]⟩) else
          ({ acc := updAcc t.acc (id.map tolower) ⟨id, pwOf pw, copyInto EMAILSZ email⟩, free := t.free - 1,
             sess := sessAdd t.sess (id.map tolower) }, ⟨.ok, [id]⟩)
  | .login id pw _ =>
      if ¬ WellFormed (cstr id) then (t, ⟨.invalidId, [[]]⟩) else
      match t.acc (foldId id) with
      | none => (t, ⟨.noSuchUser, [[]]⟩)
      | some a =>
          if a.id ≠ STR_GUEST ∧ ¬ pwOk a pw then (t, ⟨.badPassword, [[]]⟩) else
          ({ t with sess := sessAdd t.sess (foldId id) }, ⟨.ok, [a.id]⟩)
  | .checkPasswd id pw =>
      if ¬ WellFormed (cstr id) then (t, ⟨.invalidId, []⟩) else
      match t.acc (foldId id) with
      | none => (t, ⟨.noSuchUser, []⟩)
      | some a => if pwOk a pw then (t, ⟨.ok, []⟩) else (t, ⟨.badPassword, []⟩)
  | .changePasswd id old new _ =>
      if ¬ WellFormed (cstr id) then (t, ⟨.invalidId, []⟩) else
      match t.acc (foldId id) with
      | none => (t, ⟨.noSuchUser, []⟩)
      | some a =>
          if ¬ pwOk a old then (t, ⟨.badPassword, []⟩) else
          ({ t with acc := updAcc t.acc (foldId id) { a with pw := pwOf new } }, ⟨.ok, []⟩)
  | .changeEmail id email =>
      if ¬ WellFormed (cstr id) then (t, ⟨.invalidId, []⟩) else
      match t.acc (foldId id) with
      | none => (t, ⟨.noSuchUser, []⟩)
      | some a => ({ t with acc := updAcc t.acc (foldId id) { a with email := copyInto EMAILSZ email } }, ⟨.ok, []⟩)
  | .exists_ id =>
      if ¬ WellFormed (cstr id) then (t, ⟨.invalidId, [[]]⟩) else
      match t.acc (foldId id) with
      | none => (t, ⟨.noSuchUser, [[]]⟩)
      | some _ => (t, ⟨.ok, [id]⟩)
  | .getUser id =>
      match t.acc (foldId id) with
      | none => (t, ⟨.noSuchUser, []⟩)
      | some a => (t, ⟨.ok, [a.id, a.email]⟩)

/-- the session hypothesis of the refinement theorems: fewer than USHM_SIZE sessions have been opened since the
segment was loaded (or the account that logs in already holds one).  Nothing in the repository vacates a session
entry; with all USHM_SIZE entries taken a login fails with ErrNewUtmp and a registration returns ErrNewUtmp AFTER
having created the account (known finding; `Props/C03.lean: register_session_full`). -/
def Room (t : Table) : Op → Prop
  | .register .. => t.sess.length < USHM
  | .login id _ _ => foldId id ∈ t.sess ∨ t.sess.length < USHM
  | _ => True

def RoomRun (reserved : List Bytes) (t : Table) : List Op → Prop
  | [] => True
  | o :: os => Room t o ∧ RoomRun reserved (specStep reserved t o).1 os

def specRun (reserved : List Bytes) (t : Table) : List Op → Table
  | [] => t
  | o :: os => specRun reserved (specStep reserved t o).1 os

def specOutputs (reserved : List Bytes) (t : Table) : List Op → List SpecAns
  | [] => []
  | o :: os => (specStep reserved t o).2 :: specOutputs reserved (specStep reserved t o).1 os

/-- the error VALUE the implementation returns for a result class (several classes share one value). -/
def errOf : Op → Res → Err
  | _, .ok => .none
  | .register .., .invalidId => .invalidUserID
  | .register .., .reserved => .invalidUserID
  | .register .., .exists_ => .userExists
  | .register .., .noSlot => .invalidUID
  | .login .., .invalidId => .invalidUserID
  | .checkPasswd .., .invalidId => .invalidParams
  | .changePasswd .., .invalidId => .invalidUUserID
  | .changeEmail .., .invalidId => .invalidUUserID
  | .changeEmail .., .noSuchUser => .invalidUID
  | .exists_ .., .invalidId => .invalidParams
  | .exists_ .., .noSuchUser => .none
  | _, _ => .invalidUserID

end PttVerif.C03
