/-
C08 — the vocabulary in which the translator (go/cmd/extract/gen_writeguards.go) writes down what it
reads in the bodies of ptt.DoPostArticle / Recommend / EditPost / CrossPost.  Core Lean only.

An operation body is a list of `Event`s in source order: a refusal (`guard`: a `return …, err` under the
conjunction of the enclosing `if` conditions) or a call of a side-effecting function (`effect`).
-/
import PttVerif.Common
namespace PttVerif.C08
open PttVerif

/-! ### the facts a write decision depends on (one row of the decision table) -/

/-- the calling user: fields of `ptttype.UserecRaw` (Go widths). -/
structure User where
  /-- `UserID`, the bytes of the C string -/
  id : List Nat
  /-- `UserLevel` (`PERM`, uint32) -/
  level : UInt32
  /-- `NumLoginDays` (uint32) -/
  loginDays : UInt32
  /-- `BadPost` (uint8) -/
  badPost : UInt8
  over18 : Bool
  /-- `FirstLogin` (`Time4`, int32) -/
  firstLogin : Int
  deriving DecidableEq, Repr, Inhabited

/-- a board as the user meets it: fields of `ptttype.BoardHeaderRaw` plus the three facts that relate
this user to this board and live outside the header. -/
structure Board where
  /-- `Brdname`, the bytes of the C string -/
  name : List Nat
  /-- `BrdAttr` (uint32) -/
  attr : UInt32
  /-- `Level` (`PERM`, uint32) -/
  level : UInt32
  /-- `PostLimitLogins`, `PostLimitBadpost` (uint8) -/
  limitLogins : UInt8
  limitBadpost : UInt8
  /-- `NUser` (int32) -/
  nuser : Int
  /-- `cache.IsHiddenBoardFriend(bid, uid)` -/
  friend : Bool
  /-- the uid is one of the four entries of `SHM.BMCache[bid]` -/
  inBM : Bool
  /-- the expiry time written in the user's ban file for this board, if the file exists and can be read
      (`home/<u>/<user>/banned/b_<board>`; an unreadable number reads as 0) -/
  ban : Option Int
  /-- a ban record exists but cannot be read (empty: created, text not flushed yet; a directory; an I/O error) -/
  banBroken : Bool
  deriving DecidableEq, Repr, Inhabited

/-- the article addressed by Recommend / EditPost / CrossPost. -/
structure Article where
  /-- the board index is empty (`GetBTotalWithRetry == 0`) -/
  total0 : Bool
  /-- the index lookup (`getFileHeader` / `cmsys.GetRecord`) finds an entry -/
  found : Bool
  /-- the file name handed to the operation -/
  argName : List Nat
  /-- file name, owner, mode of the entry found -/
  entName : List Nat
  entOwner : List Nat
  entMode : UInt8
  /-- `Modified` of the entry found (`Time4`): the article file's mtime at the last comment / edit, 0 if never touched -/
  entModified : Int
  /-- the article file exists (`os.Stat`) -/
  fileExists : Bool
  deriving DecidableEq, Repr, Inhabited

structure Row where
  u : User
  /-- the board of `boardID`/`bid` -/
  src : Board
  /-- the board of `xBoardID`/`xBid` (CrossPost only) -/
  tgt : Board
  art : Article
  /-- the user's cool-down word `SHM.CooldownTime[uid-1]` (bit pattern of the int32) -/
  cd : UInt32
  /-- `types.NowTS()`; non-negative (until 2038) -/
  now : Nat
  deriving DecidableEq, Repr, Inhabited

/-- Go `Time4(i)` / `int32(i)`. -/
def wrap32 (i : Int) : Int :=
  let m := (i % 4294967296).toNat
  if m < 2147483648 then Int.ofNat m else Int.negSucc (4294967295 - m)

def isDigit (c : Nat) : Bool := 48 ≤ c && c ≤ 57

def digitsVal (ds : List Nat) : Nat := ds.foldl (fun a c => a * 10 + (c - 48)) 0

/-- `strconv.Atoi` on at most ten bytes, errors read as 0 (as `isFileOwner` discards the error):
optional sign, then digits only. -/
def atoi0 (bs : List Nat) : Int :=
  let (neg, ds) := match bs with
    | 45 :: r => (true, r)
    | 43 :: r => (false, r)
    | _ => (false, bs)
  if ds.isEmpty || !ds.all isDigit then 0
  else if neg then -(digitsVal ds : Int) else (digitsVal ds : Int)

/-- `Filename_t.CreateTime()` with the error dropped: `Time4(Atoi(name[2:12]))` on the 33-byte array
(bytes past the C string are NUL). -/
def nameTime (name : List Nat) : Int :=
  let arr := cstr name ++ List.replicate 12 0
  wrap32 (atoi0 ((arr.take 12).drop 2))

/-! ### the guard language -/

/-- which board a test is applied to: the board the article lives on / is posted to (`boardID`, `bid`),
or the cross-post destination (`xBoardID`, `xBid`). -/
inductive Brd where
  | src | tgt
  deriving DecidableEq, Repr, Inhabited

/-- what kind of call an `err != nil` test looks at: the index lookup of the addressed article
(`getFileHeader`, `cmsys.GetRecord`), the `os.Stat` of its file, or any other call (board cache, path
construction, the I/O of the effects themselves). -/
inductive CallKind where
  | index | stat | other
  deriving DecidableEq, Repr, Inhabited

/-- the four write operations (NewPost = DoPostArticle). -/
inductive Op where
  | newpost | recommend | editpost | crosspost
  deriving DecidableEq, Repr, Inhabited

inductive Atom where
  /-- `user.UserLevel.HasUserPerm(m)`: the user has at least one of the bits of `m` -/
  | userPerm (m : Nat)
  /-- `B.BrdAttr.HasPerm(m)` / `B.BrdAttr & m != 0` -/
  | brdAttr (b : Brd) (m : Nat)
  /-- `isReadonlyBoard(<id of B>)` -/
  | readonlyName (b : Brd)
  /-- `boardPermStat(user, uid, B, bid) == NBRD_INVALID` -/
  | readInvalid (b : Brd)
  /-- `CheckPostPerm2(uid, user, bid, B) != nil` (= `postpermMsg … != nil`) -/
  | postPermErr (b : Brd)
  /-- `hasPostPerm(user, uid, B, bid)` -/
  | hasPostPerm (b : Brd)
  /-- `CheckPostRestriction(user, uid, B, bid)` -/
  | restrictionOk (b : Brd)
  /-- `getBoardRestrictionReason(user, uid, B, bid)` returned a reason other than RESTRICT_REASON_NONE -/
  | reasonNotNone (b : Brd)
  /-- `checkCooldown(user, uid, B, bid)` returned true -/
  | cooldown (b : Brd)
  /-- the `err` of an earlier call that is not itself a permission decision (GetBCache, getFileHeader,
      GetRecord, os.Stat, setBDir, Stampfile, …) is non-nil -/
  | callFailed (kind : CallKind) (callee : String)
  /-- `GetBTotalWithRetry(bid) == 0` -/
  | totalZero
  /-- the looked-up index entry has one of the mode bits `m` -/
  | fileMode (m : Nat)
  /-- first byte of the looked-up entry's file name / owner, of the file name argument -/
  | fhdrNameFirst (c : Nat)
  | fhdrOwnerFirst (c : Nat)
  | argNameFirst (c : Nat)
  /-- `isFileOwner(fhdr, user)` -/
  | fileOwner
  /-- a configuration switch of package ptttype with its default value -/
  | cfg (name : String) (value : Bool)
  /-- anything the translator does not know -/
  | opaque (text : String)
  deriving DecidableEq, Repr, Inhabited

inductive Cond where
  | tt
  | atom (a : Atom)
  | not (c : Cond)
  | and (a b : Cond)
  | or (a b : Cond)
  deriving DecidableEq, Repr, Inhabited

inductive Event where
  | guard (refuse : Cond) (err : String)
  | effect (name : String) (persistent : Bool) (when : Cond)
  deriving DecidableEq, Repr, Inhabited

end PttVerif.C08
