import PttVerif.Common
import PttVerif.Gen.Perm
import PttVerif.Gen.ReadEntryPoints
/-
C07 — board read access.

Three layers, kept apart:

* `Spec`   the declarative rule `mayRead`, written from the property statement in terms of NAMED BIT POSITIONS
           (pttbbs perm.h / board attribute list), not in terms of the masks of the Go source;
* the hand model of `boardPermStat` / `boardPermStatNormally` / `IsBMCache` / `groupOp` / `newBoardStat` /
  `parseBoardSummary` exactly as the Go code (mask tests on the two 32-bit words, the masks REGENERATED from
  package ptttype into `Gen/Perm.lean`);
* the entry points are not modelled by hand: `runReader` / `runStat` INTERPRET the statement lists that the
  translator reads from the source of package ptt (`Gen/ReadEntryPoints.lean`), so a deleted, reordered or altered
  permission test changes the model together with the code.

Core Lean only (linked into the driver).
-/
namespace PttVerif.C07
open PttVerif.Gen.Perm

abbrev W := BitVec 32

/-- a regenerated constant as a 32-bit word -/
def w (n : Nat) : W := BitVec.ofNat 32 n

/-- what the decision reads of the user: `user.UserLevel`, `user.Over18`, the uid argument -/
structure UserView where
  level : W
  over18 : Bool
  uid : Int
  deriving DecidableEq, Repr, Inhabited

/-- what the decision reads of the board header in the shared cache: `BrdAttr`, `Level` -/
structure BoardView where
  attr : W
  level : W
  deriving DecidableEq, Repr, Inhabited

/-- facts relating this user to this board -/
structure Relation where
  bmUid : Bool     -- uid is one of the four entries of Shm.BMCache[bid-1]
  friend : Bool    -- cache.IsHiddenBoardFriend(bid-1, uid-1): valid ids and uid listed in the board's friend file
  namedBM : Bool   -- is_uBM(user.UserID, board.BM): the user id is a whole token of the moderator string
  deriving DecidableEq, Repr, Inhabited

/-! ## Spec: the rule of the property statement -/
namespace Spec

def bit (x : W) (i : Nat) : Bool := x.getLsbD i

-- user permission bits (perm.h, octal): BASIC 01, LOGINOK 020, BM 02000, BOARD 020000, SYSOP 040000,
-- POLICE_MAN 02000000000, POLICE 020000000000
def sysop (u : UserView) : Bool := bit u.level 14
def police (u : UserView) : Bool := bit u.level 31 || bit u.level 28
def registered (u : UserView) : Bool := bit u.level 0 && bit u.level 4
def boardAdmin (u : UserView) : Bool := bit u.level 13
-- board attribute bits: GROUPBOARD 0x8, HIDE 0x10, POSTMASK 0x20, SYMBOLIC 0x8000, OVER18 0x01000000
def hidden (b : BoardView) : Bool := bit b.attr 4
def restricted (b : BoardView) : Bool := bit b.attr 5
def adultOnly (b : BoardView) : Bool := bit b.attr 24
def groupOrSymbolic (b : BoardView) : Bool := bit b.attr 3 || bit b.attr 15
/-- the board's required level reserves it for moderators (bit PERM_BM) -/
def moderatorsBoard (b : BoardView) : Bool := bit b.level 10

/-- the user holds at least one of the permission bits the board requires -/
def sharesBit (x y : W) : Bool := (List.range 32).any fun i => bit x i && bit y i

/-- 0 and -1 are the moderator cache's "nobody" markers, not accounts -/
def realUid (uid : Int) : Bool := uid != 0 && uid != -1

/-- moderator of that board: a registered account whose uid is in the board's moderator cache -/
def moderator (u : UserView) (r : Relation) : Bool := registered u && realUid u.uid && r.bmUid

/-- Whether a user may see a board's content. -/
def mayRead (u : UserView) (b : BoardView) (r : Relation) : Bool :=
  sysop u || (moderatorsBoard b && police u) || moderator u r ||
  (if hidden b then r.friend || !restricted b
   else (!adultOnly b || u.over18) && (b.level == 0 || restricted b || sharesBit u.level b.level))

/-- "the caller administers boards or is a named moderator of it" -/
def administers (u : UserView) (r : Relation) : Bool := boardAdmin u || r.namedBM

/-- the '/'-separated names of a moderator string (Go strings.Split: "" ↦ [""], "a/" ↦ ["a", ""]) -/
def splitSlash : List Nat → List (List Nat)
  | [] => [[]]
  | c :: cs =>
    if c = 47 then [] :: splitSlash cs
    else match splitSlash cs with
      | [] => [[c]]
      | n :: ns => (c :: n) :: ns

/-- "is a named moderator of it": the user id (C string, non-empty) equals one of the '/'-separated names of the
board's moderator string; byte-exact comparison, as the code (no case folding). -/
def namedIn (userID bm : List Nat) : Bool :=
  let u := cstr userID
  !u.isEmpty && (splitSlash (cstr bm)).contains u

end Spec

/-! ## The Go decision, mask by mask -/

/-- `PERM.HasUserPerm` -/
def hasUserPerm (p perm : W) : Bool := (p &&& perm) != 0
/-- `PERM.HasBasicUserPerm` -/
def hasBasicUserPerm (p perm : W) : Bool := hasUserPerm p (w PERM_BASIC) && hasUserPerm p perm

/-- ptt/cache.go IsBMCache (its pwcuBitEnableLevel call discards the new level: no effect) -/
def isBMCache (u : UserView) (r : Relation) : Bool :=
  if !hasUserPerm u.level (w PERM_BASIC) || u.uid == 0 || u.uid == -1 then false
  else if !hasBasicUserPerm u.level (w PERM_LOGINOK) then false
  else r.bmUid

/-- ptt/board.go boardPermStatNormally; the result is a `BoardStatAttr` value -/
def boardPermStatNormally (u : UserView) (b : BoardView) (r : Relation) : Nat :=
  if ((b.level &&& w PERM_BM) != 0) && (hasUserPerm u.level (w PERM_POLICE) || hasUserPerm u.level (w PERM_POLICE_MAN)) then NBRD_FAV
  else if isBMCache u r then NBRD_FAV
  else if (b.attr &&& w BRD_HIDE) != 0 then
    (if !r.friend then
      (if (b.attr &&& w BRD_POSTMASK) != 0 then NBRD_INVALID else NBRD_BOARD)
     else NBRD_FAV)
  else if ((b.attr &&& w BRD_OVER18) != 0) && !u.over18 then NBRD_INVALID
  else if (b.level != 0) && ((b.attr &&& w BRD_POSTMASK) == 0) && !hasUserPerm u.level b.level then NBRD_INVALID
  else NBRD_FAV

/-- ptt/board.go boardPermStat -/
def boardPermStat (u : UserView) (b : BoardView) (r : Relation) : Nat :=
  if hasUserPerm u.level (w PERM_SYSOP) then NBRD_FAV else boardPermStatNormally u b r

/-! ### ptt/stuff.go is_uBM, byte level -/

/-- types.Isalnum -/
def isalnum (c : Nat) : Bool := (65 ≤ c && c ≤ 90) || (97 ≤ c && c ≤ 122) || (48 ≤ c && c ≤ 57)

/-- bytes.Index(s, sub): index of the first occurrence, 0 for an empty `sub` -/
def bytesIndex (sub : List Nat) : List Nat → Option Nat
  | [] => if sub.isEmpty then some 0 else none
  | c :: cs => if sub.isPrefixOf (c :: cs) then some 0 else (bytesIndex sub cs).map (· + 1)

/-- types.Cstrstr: bytes.Index, refused when the index is not below Cstrlen(s) -/
def cstrstr (s sub : List Nat) : Option Nat :=
  match bytesIndex sub s with
  | some i => if i ≥ (cstr s).length then none else some i
  | none => none

/-- the body of ptt.is_uBM on the two C strings: ONLY the first occurrence of the id in the moderator string is looked
at; it counts when the bytes before and after it (if any) are not alphanumeric. -/
def isUBMBytes (u b : List Nat) : Bool :=
  match cstrstr b u with
  | none => false
  | some i =>
    let head := if i > 0 then !isalnum (b.getD (i - 1) 0) else true
    let tail := if i + u.length < b.length then !isalnum (b.getD (i + u.length) 0) else true
    head && tail

/-- ptt.is_uBM(userID, bm) on the raw byte arrays (types.CstrToBytes cuts both at the first NUL) -/
def isUBM (userID bm : List Nat) : Bool := isUBMBytes (cstr userID) (cstr bm)

/-- ptt/board.go groupOp, statement by statement (the PERM_NOCITIZEN statement assigns the initial value again;
the level write-back at the end discards its result). -/
def groupOp (u : UserView) (r : Relation) : Bool :=
  let v0 := false
  let v1 := if hasUserPerm u.level (w PERM_NOCITIZEN) then false else v0
  let v2 := if hasUserPerm u.level (w PERM_BOARD) then true else v1
  let v3 := if r.namedBM then true else v2
  v3

structure BoardStat where
  attr : Nat          -- BoardStatAttr
  isGroupOp : Bool
  deriving DecidableEq, Repr, Inhabited

/-- ptt/board_list.go newBoardStat: the stat, and the board header as it is in the shared cache AFTERWARDS
(a hidden board without post-mask gets BRD_POSTMASK when the state is NBRD_BOARD). -/
def newBoardStat (state : Nat) (b : BoardView) (isGroupOp : Bool) : BoardStat × BoardView :=
  let b' : BoardView :=
    if ((b.attr &&& w BRD_HIDE) != 0) && ((b.attr &&& w BRD_POSTMASK) == 0) && state == NBRD_BOARD
    then { b with attr := b.attr ||| w BRD_POSTMASK } else b
  ({ attr := state, isGroupOp := isGroupOp }, b')

/-- what a summary shows -/
inductive Shape where
  | placeholder      -- NBRD_LINE / NBRD_FOLDER entry: bid and attr only
  | masked           -- NewBoardSummaryRawWithReason: name, attributes, reason; Title nil unless USE_REAL_DESC…
  | full             -- NewBoardSummaryRaw: title, moderators, counters
  deriving DecidableEq, Repr, Inhabited

/-- ptt/board_list.go parseBoardSummary -/
def parseBoardSummary (st : BoardStat) (isParseFolder : Bool) : Shape :=
  if (st.attr &&& NBRD_LINE) != 0 then .placeholder
  else if !isParseFolder && (st.attr &&& NBRD_FOLDER) != 0 then .placeholder
  else if !st.isGroupOp && st.attr == NBRD_INVALID then .masked
  else .full

/-- is `summary.Title` non-nil -/
def Shape.hasTitle : Shape → Bool
  | .placeholder => false
  | .masked => USE_REAL_DESC_FOR_HIDDEN_BOARD_IN_MYFAV
  | .full => true

/-! ## Interpreting the regenerated statement lists -/

abbrev Step := String × String × String × String × List String

abbrev Step.kind (s : Step) : String := s.1
abbrev Step.a (s : Step) : String := s.2.1
abbrev Step.b (s : Step) : String := s.2.2.1
abbrev Step.c (s : Step) : String := s.2.2.2.1
abbrev Step.ds (s : Step) : List String := s.2.2.2.2

def lookup {α} (k : String) : List (String × α) → Option α
  | [] => none
  | (k', v) :: rest => if k' = k then some v else lookup k rest

/-- the first statement that touches board content (totals, paths, record files, article files) or returns a value -/
def contentCallees : List String :=
  ["cache.GetBTotalWithRetry", "cache.GetBottomTotal", "setBDir", "setBBottom", "path.SetBFile", "path.SetBNFile",
   "cmsys.GetRecords", "cmsys.FindRecordStartIdx", "readContent", "findArticleStartIdx"]

/-- calls that neither read board content nor decide anything -/
def harmlessCallees : List String := ["cache.StatInc", "templateID.ToSortIdxInStore"]

/-- the `return` of a refused request -/
def isDenyRet (rets : String) : Bool := rets = "ErrNotPermitted" || rets = "false,nil"

/-- an argument check that can only refuse -/
def isRefusal (rets : String) : Bool := rets = "ErrInvalidParams"

inductive ReadOut where
  | allow                 -- reached the content read / the positive return
  | deny                  -- ErrNotPermitted / (false, nil)
  | invalidBid            -- the error of cache.GetBCache
  | other (rets : String) -- some other return before the content
  | panic                 -- nil board header dereferenced
  | unmodelled (what : String)
  deriving DecidableEq, Repr, Inhabited

structure ReadEnv where
  u : UserView
  b : BoardView
  r : Relation
  bidValid : Bool      -- Bid.IsValid of the bid argument
  precheck : Bool      -- an argument check placed before the permission test fires (e.g. invalid file name)

structure RState where
  board : Option Bool := none   -- none: no header fetched; some ok: cache.GetBCache returned (header, nil) / (nil, err)
  errPending : Bool := false
  stat : Option Nat := none

def runReader (env : ReadEnv) : List Step → RState → ReadOut
  | [], _ => .other "<end>"
  | s :: rest, st =>
    if s.kind = "getbcache" then
      (if s.a = "param:bid" then runReader env rest { st with board := some env.bidValid, errPending := !env.bidValid }
       else .unmodelled ("GetBCache(" ++ s.a ++ ")"))
    else if s.kind = "iferr" then
      (if st.errPending then .invalidBid else runReader env rest st)
    else if s.kind = "permstat" then
      (if s.b = "args-ok" then
        match st.board with
        | some true => runReader env rest { st with stat := some (boardPermStat env.u env.b env.r) }
        | some false => .panic
        | none => .unmodelled "boardPermStat without header"
       else .unmodelled s.b)
    else if s.kind = "permtest" then
      (match st.stat, lookup s.b nbrdAll with
       | some v, some k =>
          if s.a = "==" then
            (if v = k then (if isDenyRet s.c then .deny else .other s.c) else runReader env rest st)
          else if s.a = "!=" then
            (if v ≠ k then (if isDenyRet s.c then .deny else .other s.c) else runReader env rest st)
          else .unmodelled s.a
       | _, _ => .unmodelled ("permtest " ++ s.b))
    else if s.kind = "if" then
      (if isRefusal s.c then (if env.precheck then .other s.c else runReader env rest st)
       else .unmodelled ("if " ++ s.a))
    else if s.kind = "call" then
      (if contentCallees.contains s.a then .allow
       else if harmlessCallees.contains s.a then runReader env rest st
       else .unmodelled ("call " ++ s.a))
    else if s.kind = "return" then .allow
    else .unmodelled s.kind

def isContentStep (s : Step) : Bool :=
  (s.kind = "call" && contentCallees.contains s.a) || s.kind = "return"

def isHarmlessStep (s : Step) : Bool :=
  (s.kind = "if" && isRefusal s.c) || (s.kind = "call" && harmlessCallees.contains s.a)

/-- the permission guard: after argument checks that can only refuse, the function fetches the header of ITS bid
argument, returns the fetch error, computes boardPermStat on (user, uid, that header, that bid), returns the refusal
when the result equals NBRD_INVALID, and only then touches content. -/
def guardShape (steps : List Step) : Bool :=
  match steps.dropWhile isHarmlessStep with
  | g1 :: g2 :: g3 :: g4 :: rest =>
      g1.kind = "getbcache" && g1.a = "param:bid" &&
      g2.kind = "iferr" &&
      g3.kind = "permstat" && g3.b = "args-ok" &&
      g4.kind = "permtest" && g4.a = "==" && g4.b = "NBRD_INVALID" && isDenyRet g4.c &&
      (match rest.dropWhile isHarmlessStep with
       | c :: _ => isContentStep c
       | [] => false)
  | _ => false

def requiredReaders : List String :=
  ["IsBoardValidUser", "LoadGeneralArticles", "LoadBottomArticles", "FindArticleStartIdx", "ReadPost", "ReadPostTemplate"]

/-- one read entry point of package ptt, by name -/
def runEntry (name : String) (env : ReadEnv) : ReadOut :=
  match lookup name Gen.ReadEntryPoints.readers with
  | some steps => runReader env steps {}
  | none => .unmodelled name

/-! ### listing side -/

structure ListEnv where
  u : UserView
  b : BoardView
  r : Relation
  nameEmpty : Bool := false    -- board.Brdname[0] == 0 (unused slot)
  bidNegative : Bool := false  -- the sorted table / hot list holds a negative entry
  notPrefix : Bool := false    -- auto-complete: the name does not start with the keyword
  kwMiss : Bool := false       -- keywordsNotInBoard
  bidInvalid : Bool := false   -- !bid.IsValid() of a single-board query

inductive StatOut where
  | skipped (rets : String)                     -- the stat function returned nil: the board is not in the listing
  | included (st : BoardStat) (b' : BoardView)  -- newBoardStat reached; b' = header in the cache afterwards
  | unmodelled (what : String)
  deriving DecidableEq, Repr, Inhabited

structure SState where
  g : Option Bool := none
  stat : Option Nat := none

def evalDisjunct (env : ListEnv) (st : SState) (d : String) : Option Bool :=
  let gs := (env.b.attr &&& (w BRD_GROUPBOARD ||| w BRD_SYMBOLIC)) != 0
  if d = "nameEmpty" then some env.nameEmpty
  else if d = "bidNegative" then some env.bidNegative
  else if d = "notPrefix" then some env.notPrefix
  else if d = "keywords" then some env.kwMiss
  else if d = "bidInvalid" then some env.bidInvalid
  else if d = "statNil" then some false          -- newBoardStat never returns nil
  else if d = "groupOrSymbolic" then some gs
  else if d = "notGroupOrSymbolic" then some (!gs)
  else if d = "notPermOrGroupOp" then
    match st.stat, st.g with
    | some v, some g => some (!((v != NBRD_INVALID) || g))
    | _, _ => none
  else none

def evalFilter (env : ListEnv) (st : SState) : List String → Option Bool
  | [] => some false
  | d :: ds =>
    match evalDisjunct env st d, evalFilter env st ds with
    | some x, some y => some (x || y)
    | _, _ => none

def harmlessStatCallees : List String := ["bidInCache.ToBid", "bid.ToBidInStore"]

def runStat (env : ListEnv) : List Step → SState → StatOut
  | [], _ => .unmodelled "<end>"
  | s :: rest, st =>
    if s.kind = "assign" || s.kind = "block" || s.kind = "getbcache" || s.kind = "iferr" then runStat env rest st
    else if s.kind = "call" then
      (if harmlessStatCallees.contains s.a then runStat env rest st else .unmodelled ("call " ++ s.a))
    else if s.kind = "groupop" then
      (if s.b = "args-ok" then runStat env rest { st with g := some (groupOp env.u env.r) } else .unmodelled s.b)
    else if s.kind = "permstat" then
      (if s.b = "args-ok" then runStat env rest { st with stat := some (boardPermStat env.u env.b env.r) } else .unmodelled s.b)
    else if s.kind = "filter" then
      (match evalFilter env st s.ds with
       | some true => .skipped s.c
       | some false => runStat env rest st
       | none => .unmodelled "filter")
    else if s.kind = "newstat" then
      (if s.b = "args-ok" then
        match st.stat, st.g with
        | some v, some g => let (bs, b') := newBoardStat v env.b g; .included bs b'
        | _, _ => .unmodelled "newBoardStat before stat/groupOp"
       else .unmodelled s.b)
    else .unmodelled s.kind

/-- listing function ↦ the per-board stat function the source calls (first helper of the regenerated list) -/
def statFnOf (listing : String) : Option String :=
  match lookup listing Gen.ReadEntryPoints.listings with
  | some (f :: _) => some f
  | _ => none

inductive ListOut where
  | absent
  | present (shape : Shape)
  | invalidBid
  | unmodelled (what : String)
  deriving DecidableEq, Repr, Inhabited

/-- listings that hand `isParseFolder = true` to showBoardList / parseBoardSummary -/
def parseFolderListings : List String := ["LoadBoardsByBids", "LoadFullClassBoards", "LoadClassBoards"]

/-- one board seen through a listing function that goes through a stat function: (what the listing shows, header afterwards) -/
def listBoard (listing : String) (env : ListEnv) : ListOut × BoardView :=
  match statFnOf listing with
  | none => (.unmodelled listing, env.b)
  | some f =>
    match lookup f Gen.ReadEntryPoints.statFns with
    | none => (.unmodelled f, env.b)
    | some steps =>
      match runStat env steps {} with
      | .skipped _ => (.absent, env.b)
      | .included bs b' => (.present (parseBoardSummary bs (parseFolderListings.contains listing)), b')
      | .unmodelled x => (.unmodelled x, env.b)

def skippedOut (rets : String) : ListOut :=
  if rets = "ptttype.ErrInvalidBid" then .invalidBid else .absent

/-- ptt.LoadBoardSummary, interpreted from its regenerated statements: no permission filter; parseBoardSummary
decides what is shown.  `isParseFolder` = board.BrdAttr.HasPerm(BRD_GROUPBOARD), read after newBoardStat. -/
def loadBoardSummary (env : ListEnv) : ListOut × BoardView :=
  match lookup "LoadBoardSummary" Gen.ReadEntryPoints.summaryFns with
  | none => (.unmodelled "LoadBoardSummary", env.b)
  | some steps =>
    if !steps.any (fun (s : Step) => s.kind = "call" && s.a = "parseBoardSummary") then (.unmodelled "LoadBoardSummary: no parseBoardSummary", env.b) else
    match runStat env steps {} with
    | .skipped rets => (skippedOut rets, env.b)
    | .included bs b' => (.present (parseBoardSummary bs ((b'.attr &&& w BRD_GROUPBOARD) != 0)), b')
    | .unmodelled x => (.unmodelled x, env.b)

/-- ptt.LoadBoardDetail, interpreted from its regenerated statements: the whole header once newBoardStat is reached. -/
def loadBoardDetail (env : ListEnv) : ListOut × BoardView :=
  match lookup "LoadBoardDetail" Gen.ReadEntryPoints.summaryFns with
  | none => (.unmodelled "LoadBoardDetail", env.b)
  | some steps =>
    match runStat env steps {} with
    | .skipped rets => (skippedOut rets, env.b)
    | .included _ b' => (.present .full, b')
    | .unmodelled x => (.unmodelled x, env.b)

def stepListings : List String :=
  ["LoadGeneralBoards", "LoadAutoCompleteBoards", "LoadBoardsByBids", "LoadHotBoards", "LoadFullClassBoards", "LoadClassBoards"]

/-- any listing / summary / detail function on one board with a valid bid -/
def listAny (fn : String) (env : ListEnv) : ListOut × BoardView :=
  if fn = "LoadBoardSummary" then loadBoardSummary env
  else if fn = "LoadBoardDetail" then loadBoardDetail env
  else if stepListings.contains fn then listBoard fn env
  else (.unmodelled fn, env.b)

def isToRawPrelude (s : String × String) : Bool := s.1 = "call" || s.1 = "iferr"

/-- the conditions under which bbs.BBoardID.ToRaw compares the client's board name with the name of board <bid>
(regenerated): `none` = no such comparison before the positive return. -/
def nameCheckGuard : Option String :=
  match Gen.ReadEntryPoints.bboardIDToRaw.dropWhile isToRawPrelude with
  | (k, g) :: _ => if k = "namecheck" then some g else none
  | [] => none

/-- the comparison is made whenever the board table is attached — in particular it does not depend on the table's
busy flag -/
def nameCheckUnconditional : Bool := nameCheckGuard = some "cache.Shm != nil" || nameCheckGuard = some ""

/-- the bbs wrappers turn the client's "<bid>_<name>" into (bid, name) with BBoardID.ToRaw.  `nameMatches`: the
supplied name is the name of board <bid>; `busy`: Shm.BBusyState ≠ 0 during the call (must not matter). -/
def bbsRead (_busy nameMatches : Bool) (entry : String) (env : ReadEnv) : ReadOut :=
  match nameCheckGuard with
  | none => runEntry entry env
  | some _ =>
    if nameCheckUnconditional then (if !nameMatches then .invalidBid else runEntry entry env)
    else .unmodelled "BBoardID.ToRaw: name comparison under an unknown condition"

/-! ## accounts: who the caller is (ptt.InitCurrentUser) and who moderates a board (cache.ParseBMList) -/

/-- types.CcharTolower -/
def foldCase (c : Nat) : Nat := if 65 ≤ c ∧ c ≤ 90 then c + 32 else c
/-- types.Cstrcasecmp(a, b) == 0 -/
def caseEq (a b : List Nat) : Bool := (cstr a).map foldCase == (cstr b).map foldCase
/-- types.Cstrcmp(a, b) == 0 -/
def cstrEq (a b : List Nat) : Bool := cstr a == cstr b

/-- the user-id index in shared memory: uid ↦ id.  (That the index answers like this table is property C04.) -/
abbrev UserTable := List (Int × List Nat)

def uidValid (u : Int) : Bool := 1 ≤ u && u ≤ (MAX_USERS : Int)

/-- cache.SearchUserRaw: 0 = nobody; the comparison ignores letter case -/
def searchUser (tbl : UserTable) (name : List Nat) : Int :=
  if name.headD 0 = 0 then 0 else
  match tbl.find? (fun e => caseEq name e.2) with
  | some e => e.1
  | none => 0

def idOf (tbl : UserTable) (uid : Int) : Option (List Nat) :=
  match tbl.find? (fun e => e.1 == uid) with
  | some e => some e.2
  | none => none

def isalpha (c : Nat) : Bool := (65 ≤ c && c ≤ 90) || (97 ≤ c && c ≤ 122)

/-- bbs.UUserID.ToRaw: the text is copied into a 13-byte array; UserID_t.IsValid -/
def toRawUserID (spelling : List Nat) : List Nat := spelling.take 13
def userIDValid (raw : List Nat) : Bool :=
  let n := (cstr raw).length
  2 ≤ n && n ≤ 12 && isalpha (raw.headD 0) && (cstr raw).all isalnum

inductive Loaded where
  | ok (uid : Int) (id : List Nat) (u : UserView)
  | noUser                       -- empty id / nobody of that name
  | unmodelled (what : String)
  deriving DecidableEq, Repr, Inhabited

/-- the special-casing of the built-in accounts, interpreted from the regenerated list: `subject` says whose id is
compared (the LOADED record's, or the one the caller SUPPLIED) -/
def applySpecials (supplied recId : List Nat) : List (String × List Nat × String) → W → Except String W
  | [], lv => .ok lv
  | (subject, bytes, action) :: rest, lv =>
    let who : Option (List Nat) :=
      if subject = "loaded" then some recId else if subject = "supplied" then some supplied else none
    match who with
    | none => .error ("InitCurrentUser compares " ++ subject)
    | some x =>
      if cstrEq x bytes then
        (if action = "pwcuInitGuestPerm" then applySpecials supplied recId rest 0#32
         else if action = "pwcuInitAdminPerm" then applySpecials supplied recId rest (w Gen.ReadEntryPoints.adminPerm)
         else .error ("InitCurrentUser applies " ++ action))
      else applySpecials supplied recId rest lv

/-- ptt.InitCurrentUser(supplied): cmbbs.PasswdLoadUser (case-insensitive lookup, then the record of that uid), then
the special-casing `specials`.  `stored` = UserLevel and Over18 of the record that gets loaded. -/
def initCurrentUserWith (specials : List (String × List Nat × String)) (tbl : UserTable) (storedLevel : W) (storedOver18 : Bool)
    (supplied : List Nat) : Loaded :=
  if supplied.headD 0 = 0 then .noUser else
  let uid := searchUser tbl supplied
  if !uidValid uid then .noUser else
  match idOf tbl uid with
  | none => .noUser
  | some recId =>
    match applySpecials supplied recId specials storedLevel with
    | .ok lv => .ok uid recId { level := lv, over18 := storedOver18, uid := uid }
    | .error e => .unmodelled e

/-- … with the special-casing the source has (regenerated) -/
def initCurrentUser (tbl : UserTable) (storedLevel : W) (storedOver18 : Bool) (supplied : List Nat) : Loaded :=
  initCurrentUserWith Gen.ReadEntryPoints.initCurrentUserSpecial tbl storedLevel storedOver18 supplied

/-- the loop of cache.ParseBMList over the '/'-separated names: each copied into a 13-byte id, looked up; only valid
uids count, only the first MAX_BMs of them -/
def parseLoop (tbl : UserTable) : List (List Nat) → List Int → List Int
  | [], acc => acc
  | n :: ns, acc =>
    if acc.length ≥ MAX_BMs then acc else
    let uid := searchUser tbl (n.take 13)
    if uidValid uid then parseLoop tbl ns (acc ++ [uid]) else parseLoop tbl ns acc

/-- cache.ParseBMList: a FRESH array of MAX_BMs slots, -1 = none -/
def parseBMList (tbl : UserTable) (bm : List Nat) : List Int :=
  let found := parseLoop tbl (Spec.splitSlash (cstr bm)) []
  found ++ List.replicate (MAX_BMs - found.length) (-1)

/-- the moderator cache of the boards: bid ↦ slots.  cache.buildBMCache(bid) replaces the entry of THAT board by the
parse of ITS moderator string. -/
abbrev BMCacheSt := List (Int × List Int)

def buildBMCache (tbl : UserTable) (st : BMCacheSt) (bid : Int) (bm : List Nat) : BMCacheSt :=
  (bid, parseBMList tbl bm) :: st.filter (fun e => e.1 != bid)

def bmCacheOf (st : BMCacheSt) (bid : Int) : List Int :=
  match st.find? (fun e => e.1 == bid) with
  | some e => e.2
  | none => List.replicate MAX_BMs (-1)

/-! ## listing results are values: ptt.showBoardList allocates the list it returns

A caller (the bbs conversion loop, a concurrently served request) still holds the returned list while the next listing
runs.  `Heap` = the lists handed out so far; `fresh` = the list is made by the call (what the source does, regenerated as
`Gen.showBoardListFresh`); with `fresh = false` every call hands out the one pooled list again. -/

structure Heap (α : Type) where
  cells : List (List α)

/-- one listing call writing `res`: the new heap and the handle the caller holds -/
def handOut {α} (fresh : Bool) (h : Heap α) (res : List α) : Heap α × Nat :=
  if fresh then ({ cells := h.cells ++ [res] }, h.cells.length)
  else ({ cells := res :: h.cells.drop 1 }, 0)

def deref {α} (h : Heap α) (k : Nat) : List α := h.cells.getD k []

/-- a history of listing calls: the final heap and the handles, in call order -/
def runListings {α} (fresh : Bool) : Heap α → List (List α) → Heap α × List Nat
  | h, [] => (h, [])
  | h, r :: rs =>
    let (h1, k) := handOut fresh h r
    let (h2, ks) := runListings fresh h1 rs
    (h2, k :: ks)

/-! ## the friend list expires; the multi-board validity query answers per request entry -/

/-- cache.IsHiddenBoardFriend on (is the uid on the list cached in shared memory, is it in the board's file, is the
cached list older than HBFLexpire): the expiry is looked at FIRST — an expired list is replaced by the file — and only
then is the list scanned.  Result: (answer, on the cached list afterwards). -/
def hbflFriend (cached inFile expired : Bool) : Bool × Bool :=
  let list := if expired then inFile else cached      -- HbflReload
  (list, list)

/-- one entry of a bbs.IsBoardsValidUser request -/
inductive MultiAns where
  | valid | invalid | none
  deriving DecidableEq, Repr, Inhabited

/-- bbs.IsBoardsValidUser: every request entry is answered on its own — ToRaw refuses ⇒ no answer; otherwise the
answer of ptt.IsBoardValidUser for THAT board, stored under THAT entry. -/
def boardsValid {ε} (answer : ε → MultiAns) (request : List ε) : List MultiAns := request.map answer

end PttVerif.C07
