import PttVerif.Model.C02
/-
C02 — the callers of CheckPasswd: ptt.LoginQuery / ptt.Login / ptt.CheckPasswd / ptt.ChangePasswd and an outside
write of the stored hash (cmbbs.PasswdUpdatePasswd), over histories.  Core Lean only (linked into drv_c02).

What is modelled: the only state a login decision may depend on is the password hash stored NOW in the user's
.PASSWDS record.  `Store` is that state (user id ↦ 14 hash bytes); nothing else is remembered between calls.
`LoginQuery` loads the record (`InitCurrentUser`) and returns what `cmbbs.CheckPasswd(user.PasswdHash[:], passwd)`
returns; `ptt.Login` = `LoginQuery` + session bookkeeping (not modelled, property C03); `ptt.CheckPasswd` reads the
hash with `PasswdQueryPasswd` and checks the same way; `ChangePasswd` checks the old password against the stored
hash, then stores `GenPasswd(new)`.  The user ids the harness uses are existing, valid, pairwise distinct ignoring
case, and not "guest" (whose login skips the password), so the id lookup is an exact lookup; an id without a record is
refused.
-/
namespace PttVerif.C02.Login
open PttVerif PttVerif.C02

abbrev Store := List (List Nat × List Nat)

def lookup (st : Store) (u : List Nat) : Option (List Nat) :=
  match st with
  | [] => none
  | (v, h) :: rest => if v = u then some h else lookup rest u

def set (st : Store) (u h : List Nat) : Store :=
  match st with
  | [] => [(u, h)]
  | (v, g) :: rest => if v = u then (v, h) :: rest else (v, g) :: set rest u h

/-- `ptt.LoginQuery` / `ptt.Login` / `ptt.CheckPasswd`: accepted? -/
def loginQuery (st : Store) (u pw : List Nat) : M Bool :=
  match lookup st u with
  | none => pure false
  | some h => CheckPasswd h pw

/-- `ptt.ChangePasswd(u, old, new)` with the random draw `num` of GenPasswd: the new store and whether it succeeded. -/
def changePasswd (st : Store) (u old new : List Nat) (num : Nat) : M (Store × Bool) :=
  match lookup st u with
  | none => pure (st, false)
  | some h => do
    let ok ← CheckPasswd h old
    if !ok then pure (st, false) else
    let g ← GenPasswdWith num new
    pure (set st u g, true)

/-- the operations of a history. -/
inductive Op where
  | sethash (u h : List Nat)            -- cmbbs.PasswdUpdatePasswd (an outside write of the stored hash)
  | login (u pw : List Nat)             -- ptt.LoginQuery / ptt.Login / ptt.CheckPasswd
  | chpw (u old new : List Nat) (num : Nat)
  | stored (u : List Nat)               -- cmbbs.PasswdQueryPasswd

inductive Out where
  | ok | refused | hash (h : List Nat) | fault
  deriving DecidableEq, Repr

def ofBool (r : M Bool) : Out :=
  match r with
  | .ok true => .ok
  | .ok false => .refused
  | .error _ => .fault

/-- one step: a sethash to a user without a record is refused (no uid). -/
def step (st : Store) : Op → Store × Out
  | .sethash u h => match lookup st u with
      | none => (st, .refused)
      | some _ => (set st u h, .ok)
  | .login u pw => (st, ofBool (loginQuery st u pw))
  | .chpw u old new num => match changePasswd st u old new num with
      | .ok (st', b) => (st', if b then .ok else .refused)
      | .error _ => (st, .fault)
  | .stored u => match lookup st u with
      | none => (st, .refused)
      | some h => (st, .hash h)

def run (st : Store) : List Op → Store × List Out
  | [] => (st, [])
  | op :: ops =>
    let (st', o) := step st op
    let (st'', os) := run st' ops
    (st'', o :: os)

/-! ### a login in flight: the two halves of `ptt.Login`

`ptt.Login` = `LoginQuery` (loads the record, decides on the password) followed by `userLogin` → `pwcuLoginSave` →
`pwcuEnd`, a write-back of the WHOLE record (hash included).  Between the halves other requests may complete
(schedule point `login.afterQuery`).  `reread` says which record the second half writes back — regenerated from the
source as `Gen.LoginSave.loginSaveRereads`: a fresh read made by `pwcuStart` inside `pwcuLoginSave` (the hash written
back is the one stored now: the store is unchanged), or the record the first half loaded. -/

/-- first half: the decision and the hash of the record the login carries from here on. -/
def loginBegin (st : Store) (u pw : List Nat) : Out × Option (List Nat) :=
  (ofBool (loginQuery st u pw), lookup st u)

/-- second half (runs only after an accepted first half): the write-back. -/
def loginEnd (reread : Bool) (st : Store) (u : List Nat) (carried : Option (List Nat)) : Store :=
  if reread then st else
  match carried with
  | some h => (match lookup st u with | some _ => set st u h | none => st)
  | none => st

/-- a full login of `u` with the operations `mid` completing between its halves; when the first half refuses, the
login ends there and `mid` simply runs afterwards. -/
def loginInFlight (reread : Bool) (st : Store) (u pw : List Nat) (mid : List Op) : Store × Out × List Out :=
  let (o, c) := loginBegin st u pw
  let (st', os) := run st mid
  match o with
  | .ok => (loginEnd reread st' u c, o, os)
  | _ => (st', o, os)

/-! ### the broken rule, for the witness theorem: remembering the last accepted password per user -/

/-- a `LoginQuery` that first consults a per-user memory of the last accepted password and only then the stored
hash (the memory is never invalidated by a change of the hash). -/
def loginRemembering (mem : Store) (st : Store) (u pw : List Nat) : Store × Out :=
  if lookup mem u = some pw then (mem, .ok) else
  match ofBool (loginQuery st u pw) with
  | .ok => (set (if (lookup mem u).isNone then (u, pw) :: mem else mem) u pw, .ok)
  | o => (mem, o)

end PttVerif.C02.Login
