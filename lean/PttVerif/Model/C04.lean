import PttVerif.Common
import PttVerif.Gen.UHash
/-
C04 — model of the user-ID hash index in shared memory.

  cache/cache_user.go   : AddToUHash, RemoveFromUHash, SetUserID, SearchUserRaw, DoSearchUserRaw, GetUserID
  cache/uhash_loader.go : LoadUHash, fillUHash, InitFillUHash, userecRawAddToUHash, checkHash
  cache/shm.go          : SHM.Reset, the Version/Size handshake of NewSHM
  cmsys/fnv_hash.go, cmsys/string.go, types/cstr.go, ptttype/types.go :
                          fnv1a32StrCase / StringHashWithHashBits, Cstrcmp, Cstrcasecmp, UserID_t.IsValid

The index code is modelled PARAMETRICALLY in the id operations (`Env`): the hash, the two comparisons, the
emptiness and validity tests are fields, so that the theorems hold for every hash (any number of collisions,
one bucket, …).  `realEnv` instantiates them with byte-level models of the functions the Go code calls.

State = the three Go arrays `Userid [MAX_USERS]UserID_t`, `HashHead [1<<HASH_BITS]int32`,
`NextInHash [MAX_USERS]int32` plus `Number`, `Loaded`.  Every Go array access is a checked access
(`idx`/`idxI`/`setM`), a negative or too large index is `Fault.panic` exactly where Go panics.  Loops that
carry a `times < MAX_USERS` guard in the source use that guard as fuel and return what the source returns when
it runs out; the two loops WITHOUT a guard (userecRawAddToUHash, checkHash) get a fuel that is exact
(a terminating walk visits distinct nodes) and `Fault.diverge` when it runs out.
-/
namespace PttVerif.C04
open PttVerif

/-- Go `a[i]` with a signed index. -/
def idxI {α} (a : List α) (i : Int) : M α :=
  match i with
  | .ofNat n => idx a n
  | .negSucc _ => .error .panic

/-- Go `a[i] = v` on a fixed-size array. -/
def setM {α} (a : List α) (i : Nat) (v : α) : M (List α) :=
  if i < a.length then .ok (a.set i v) else .error .panic

def setI {α} (a : List α) (i : Int) (v : α) : M (List α) :=
  match i with
  | .ofNat n => setM a n v
  | .negSucc _ => .error .panic

/-- The operations on ids that the index code uses, and the build constants. -/
structure Env (Id : Type) where
  MAX : Nat                 -- ptttype.MAX_USERS
  B : Nat                   -- 1 << ptttype.HASH_BITS
  PRE : Nat                 -- cache.PRE_ALLOCATED_USERS
  hash : Id → Nat           -- cmsys.StringHashWithHashBits(id[:])
  ceq : Id → Id → Bool      -- types.Cstrcasecmp(a[:], b[:]) == 0
  seq : Id → Id → Bool      -- types.Cstrcmp(a[:], b[:]) == 0
  isEmpty : Id → Bool       -- a[0] == 0
  valid : Id → Bool         -- a.IsValid()
  zero : Id                 -- UserID_t{}

structure St (Id : Type) where
  userid : List Id
  head : List Int
  next : List Int
  number : Int
  loaded : Int

/-- the error values the functions return -/
inductive Ret where
  | ok | errAdd | errRemove | errInvalidUID | errFile | errExists | errWrite
  deriving DecidableEq, Repr, Inhabited

/-- The Go code keeps a `p` (an index) and a flag telling whether `p` indexes `HashHead` or `NextInHash`. -/
inductive Cell where
  | head (h : Nat)
  | next (k : Nat)
  deriving DecidableEq, Repr

section
variable {Id : Type} (e : Env Id)

def writeCell (s : St Id) (c : Cell) (v : Int) : M (St Id) :=
  match c with
  | .head h => do let a ← setM s.head h v; pure { s with head := a }
  | .next k => do let a ← setM s.next k v; pure { s with next := a }

/-! ### AddToUHash -/

/-- `for ; times < MAX_USERS && val != -1; times++ { isNext = true; p = val; val = NextInHash[p] }`
followed by `if times >= MAX_USERS { return ErrAddToUHash }` (`none`).  fuel = MAX_USERS - times. -/
def addLoop (next : List Int) : Nat → Cell → Int → M (Option Cell)
  | 0, _, _ => pure none
  | f + 1, c, val =>
    if val = -1 then pure (some c) else do
      let v' ← idxI next val
      addLoop next f (.next val.toNat) v'

def addToUHash (s : St Id) (k : Int) (id : Id) : M (St Id × Ret) := do
  let h := e.hash id
  let u ← setI s.userid k id
  let s := { s with userid := u }
  let v ← idx s.head h
  match ← addLoop s.next e.MAX (.head h) v with
  | none => pure (s, .errAdd)
  | some c => do
    let s ← writeCell s c k
    let nx ← setI s.next k (-1)
    pure ({ s with next := nx }, .ok)

/-! ### RemoveFromUHash -/

/-- `for ; times < MAX_USERS && val != -1 && val != uidInCache; times++ {…}` then the `times >= MAX_USERS` test. -/
def removeLoop (next : List Int) (k : Int) : Nat → Cell → Int → M (Option (Cell × Int))
  | 0, _, _ => pure none
  | f + 1, c, val =>
    if val = -1 ∨ val = k then pure (some (c, val)) else do
      let v' ← idxI next val
      removeLoop next k f (.next val.toNat) v'

def removeFromUHash (s : St Id) (k : Int) : M (St Id × Ret) := do
  let id ← idxI s.userid k
  let h := e.hash id
  let v ← idx s.head h
  match ← removeLoop s.next k e.MAX (.head h) v with
  | none => pure (s, .errRemove)
  | some (c, val) =>
    if val = k then do
      let nn ← idxI s.next k
      let s ← writeCell s c nn
      pure (s, .ok)
    else pure (s, .ok)

/-! ### SetUserID: range test, then remove AND add (the add runs even when the remove reported an error) -/

def setUserID (s : St Id) (uid : Int) (id : Id) : M (St Id × Ret) :=
  if uid ≤ 0 ∨ uid > e.MAX then pure (s, .errInvalidUID) else do
    let k := uid - 1
    let (s1, r1) ← removeFromUHash e s k
    let (s2, r2) ← addToUHash e s1 k id
    pure (s2, if r1 ≠ .ok then r1 else r2)

/-! ### DoSearchUserRaw / SearchUserRaw / GetUserID -/

/-- `for times := 0; times < MAX_USERS && p != -1 && p < MAX_USERS; times++ {…}; return 0`.
Returns the uid (slot+1, 0 = none) and the stored id that matched. -/
def searchLoop (s : St Id) (q : Id) : Nat → Int → M (Int × Option Id)
  | 0, _ => pure (0, none)
  | f + 1, p =>
    if p = -1 ∨ p ≥ (e.MAX : Int) then pure (0, none) else do
      let id ← idxI s.userid p
      if e.ceq q id then pure (p + 1, some id) else do
        let p' ← idxI s.next p
        searchLoop s q f p'

def doSearchUserRaw (s : St Id) (q : Id) : M (Int × Option Id) := do
  let p ← idx s.head (e.hash q)
  let (uid, rid) ← searchLoop e s q e.MAX p
  -- `if userID[0] != 0 && rightID != nil { copy(rightID[:], shmUserID[:]) }`
  pure (uid, if e.isEmpty q then none else rid)

def searchUserRaw (s : St Id) (q : Id) : M (Int × Option Id) :=
  if e.isEmpty q then pure (0, none) else doSearchUserRaw e s q

def getUserID (s : St Id) (uid : Int) : M (Option Id) :=
  let k := uid - 1
  if k < 0 ∨ k ≥ (e.MAX : Int) then pure none else do
    let id ← idxI s.userid k
    pure (some id)

/-! ### ptt.SetupNewUser — the only caller of SetUserID, i.e. the code that hands out slots

Index level: the two checks of the id (before and under the passwd lock), the search of a free slot
(`DoSearchUserRaw("")`), `SetUserID(uid, id)` and then the write of the record to .PASSWDS (`canWrite`: the file can be
opened for writing).  tryCleanUser (the sweep of expired accounts when no slot is free) is switched off in the harness
(a fresh `.fresh` file), SetUMoney does not touch the index.  Returns the state, the error and the uid that was assigned
(0: none). -/

def setupNewUser (s : St Id) (id : Id) (canWrite : Bool) : M (St Id × Ret × Int) := do
  let (u1, _) ← doSearchUserRaw e s id
  if u1 ≠ 0 then pure (s, .errExists, 0) else do
    let _ ← doSearchUserRaw e s e.zero          -- lazy search of a free slot, before the lock
    let (u2, _) ← doSearchUserRaw e s id          -- again under the lock
    if u2 ≠ 0 then pure (s, .errExists, 0) else do
      let (uid, _) ← doSearchUserRaw e s e.zero
      let (s', r) ← setUserID e s uid id
      if r ≠ .ok then pure (s', r, 0)
      else if canWrite then pure (s', .ok, uid)
      else pure (s', .errWrite, uid)    -- the unchanged code returns the error and leaves the slot assigned

/-- ptt.tryCleanUser → killUser, as far as this property is concerned: the sweep that SetupNewUser runs when no slot is
free (and `.fresh` is older than an hour) zeroes the .PASSWDS records of the expired accounts (`expirable`: the slots
whose record is old enough; uid 1 is never looked at, a record without id never expires) — and does NOT touch the
index in shared memory: the registration that triggered it is still refused. -/
def sweepFile (expirable : List Nat) (recs : List Id) : List Id :=
  let rec go (rs : List Id) (k : Nat) : List Id :=
    match rs with
    | [] => []
    | r :: rest => (if 1 ≤ k ∧ expirable.contains k ∧ !e.isEmpty r then e.zero else r) :: go rest (k + 1)
  go recs 0

/-- SetupNewUser with the sweep due: the index part is `setupNewUser`; the sweep runs exactly when the id is new and
no free slot was found, and then only rewrites the file. -/
def setupNewUserSweep (s : St Id) (recs : List Id) (expirable : List Nat) (id : Id) : M (St Id × Ret × Int × List Id) := do
  let (s', r, uid) ← setupNewUser e s id true
  pure (s', r, uid, if r = .errInvalidUID then sweepFile e expirable recs else recs)

/-! ### the loader -/

/-- userecRawAddToUHash's walk: `for val >= 0 && val < MAX_USERS { if isOnfly && val == uid { return }; p = val;
val = NextInHash[p]; isFirst = false }`.  `none` = the early return.  The source has no guard: a walk that does
not leave `[0,MAX)` within MAX steps has repeated a node and never ends (`diverge`). -/
def loaderLoop (next : List Int) (onfly : Bool) (k : Nat) : Nat → Cell → Int → M (Option Cell)
  | fuel, c, val =>
    if 0 ≤ val ∧ val < (e.MAX : Int) then
      if onfly ∧ val = (k : Int) then pure none
      else match fuel with
        | 0 => .error .diverge
        | f + 1 => do
          let v' ← idxI next val
          loaderLoop next onfly k f (.next val.toNat) v'
    else pure (some c)

/-- userecRawAddToUHash; `cnt` is the package variable uHashLoaderInvalidUserID. -/
def loaderAdd (onfly : Bool) (s : St Id) (k : Nat) (id : Id) (cnt : Nat) : M (St Id × Nat) :=
  let cnt' := if e.valid id then cnt else cnt + 1
  if !e.valid id ∧ cnt' > e.PRE then pure (s, cnt') else do
    let h := e.hash id
    let cur ← idx s.userid k
    let s ← (if !onfly || !e.seq id cur then do
                let u ← setM s.userid k id
                pure { s with userid := u }
             else pure s : M (St Id))
    let v ← idx s.head h
    match ← loaderLoop e s.next onfly k e.MAX (.head h) v with
    | none => pure (s, cnt')
    | some c => do
      let s ← writeCell s c k
      let nx ← setM s.next k (-1)
      pure ({ s with next := nx }, cnt')

/-- checkHash's loop (`for val != -1 {…}`; no guard in the source, exact fuel as above). -/
def checkLoop (h : Nat) : Nat → St Id → Cell → Int → M (St Id)
  | fuel, s, c, val =>
    if val = -1 then pure s
    else if val < -1 ∨ val ≥ (e.MAX : Int) then writeCell s c (-1)
    else match fuel with
      | 0 => .error .diverge
      | f + 1 => do
        let id ← idxI s.userid val
        let nxt ← idxI s.next val
        if e.hash id ≠ h then do
          let s ← writeCell s c nxt
          checkLoop h f s c nxt
        else
          checkLoop h f s (.next val.toNat) nxt

def checkHash (s : St Id) (h : Nat) : M (St Id) := do
  let v ← idx s.head h
  checkLoop e h e.MAX s (.head h) v

/-- InitFillUHash(true), literally: `for idx := 0; idx < 1<<HASH_BITS; idx++ { checkHash(idx) }`. -/
def checkAll (s : St Id) : List Nat → M (St Id)
  | [] => pure s
  | h :: hs => do
    let s ← checkHash e s h
    checkAll s hs

/-- The same loop in one pass over the head array as it was on entry: checkHash(h) reads `HashHead[h]`, and the
calls for smaller buckets write only their own head cell and `NextInHash`, so the entry value IS the current
value.  (`Props/C04.lean: initFill_onfly_eq_literal` proves this equals `checkAll s (List.range B)`; the one-pass
form exists because indexing a 65536-element list 65536 times is too slow for the driver.) -/
def checkAllFrom : List Int → Nat → St Id → M (St Id)
  | [], _, s => pure s
  | v :: rest, h, s => do
    let s' ← checkLoop e h e.MAX s (.head h) v
    checkAllFrom rest (h + 1) s'

def initFill (onfly : Bool) (s : St Id) : M (St Id) :=
  if onfly then checkAllFrom e s.head 0 s
  else pure { s with head := List.replicate e.B (-1) }

def fillLoop (onfly : Bool) : List Id → Nat → Nat → St Id → M (St Id)
  | [], _, _, s => pure s
  | r :: rs, i, cnt, s => do
    let (s', cnt') ← loaderAdd e onfly s i r cnt
    fillLoop onfly rs (i + 1) cnt' s'

/-- what is on disk: `none` = .PASSWDS cannot be opened; otherwise the UserID field of every complete record
and whether an incomplete record follows. -/
abbrev PwFile (Id : Type) := Option (List Id × Bool)

def fillUHash (onfly : Bool) (s : St Id) (file : PwFile Id) : M (St Id × Ret) := do
  let s ← initFill e onfly s
  match file with
  | none => pure (s, .errFile)
  | some (recs, torn) => do
    let s ← fillLoop e onfly recs 0 0 s
    if torn then pure (s, .errFile) else pure ({ s with number := recs.length }, .ok)

def loadUHash (s : St Id) (file : PwFile Id) : M (St Id × Ret) :=
  if s.number = 0 ∧ s.loaded = 0 then do
    let (s, r) ← fillUHash e false s file
    if r ≠ .ok then pure (s, r) else pure ({ s with loaded := 1 }, .ok)
  else fillUHash e true s file

/-- SHM.Reset: the segment after the two header words is zeroed. -/
def resetSt : St Id :=
  { userid := List.replicate e.MAX e.zero, head := List.replicate e.B 0, next := List.replicate e.MAX 0,
    number := 0, loaded := 0 }

/-- the cold load the service performs at start: Reset (a fresh segment is zero) + LoadUHash. -/
def coldLoad (file : PwFile Id) : M (St Id × Ret) := loadUHash e (resetSt e) file

end

/-! ## attaching to the segment (cache.NewSHM) -/

/-- a SysV segment: the two header words and the index -/
structure Seg (Id : Type) where
  version : Int
  size : Int
  st : St Id

inductive AttachRet where
  | ok | errOpen | errVersion | errSize
  deriving DecidableEq, Repr, Inhabited

section
variable {Id : Type} (e : Env Id)

/-- cache.NewSHM(key, _, isCreate) against the segment registered under the key (`none`: there is none).
shm.CreateShm asks for IPC_CREAT|IPC_EXCL first and reports `isNew` only when THAT call made the segment; on EEXIST it
attaches to the existing one.  shm.OpenShm fails when there is none.  The header (Version, Size, Number = 0, Loaded = 0)
is written only `if isNew` — a creator that meets a live segment leaves it exactly as it is.  Then the Version/Size
handshake.  Result: the segment afterwards, isNew, the error. -/
def newSHM (wantV wantS : Int) (seg : Option (Seg Id)) (isCreate : Bool) : Option (Seg Id) × Bool × AttachRet :=
  match seg, isCreate with
  | none, false => (none, false, .errOpen)
  | none, true =>
    -- a fresh segment is zero-filled; the header is written; the handshake then passes
    (some { version := wantV, size := wantS, st := resetSt e }, true, .ok)
  | some sg, _ =>
    if sg.version ≠ wantV then (some sg, false, .errVersion)
    else if sg.size ≠ wantS then (some sg, false, .errSize)
    else (some sg, false, .ok)

/-- a process starts the way main_init does: NewSHM(key, _, isCreate) and — `load` — LoadUHash with its .PASSWDS.
Result: the segment afterwards, the attach result, isNew, what LoadUHash returned. -/
def restart (wantV wantS : Int) (seg : Option (Seg Id)) (file : PwFile Id) (isCreate load : Bool) :
    M (Option (Seg Id) × AttachRet × Bool × Option Ret) :=
  match newSHM e wantV wantS seg isCreate with
  | (some sg, isNew, .ok) =>
    if load then do
      let (s', r) ← loadUHash e sg.st file
      pure (some { sg with st := s' }, .ok, isNew, some r)
    else pure (some sg, .ok, isNew, none)
  | (sg, isNew, err) => pure (sg, err, isNew, none)

end

/-! ## The id operations of the real build -/

def toupper (c : Nat) : Nat := if 97 ≤ c ∧ c ≤ 122 then c - 32 else c   -- types.CcharToupper
def tolower (c : Nat) : Nat := if 65 ≤ c ∧ c ≤ 90 then c + 32 else c    -- types.CcharTolower

def fnvPrime : Nat := Gen.UHash.fnvPrime
def fnvInit : Nat := Gen.UHash.fnvInit

/-- cmsys.fnv1a32StrCase on uint32 (`Nat` reduced mod 2^32 where Go wraps). -/
def fnv1a32StrCase : List Nat → Nat → Nat
  | [], h => h
  | c :: cs, h => if c = 0 then h else fnv1a32StrCase cs (((h ^^^ toupper c) * fnvPrime) % 4294967296)

def stringHash (a : List Nat) : Nat := fnv1a32StrCase a fnvInit
def hashMod : Nat := 2 ^ Gen.UHash.hashBits
def stringHashWithHashBits (a : List Nat) : Nat := stringHash a % hashMod

/-- types.Cstrcmp, branch by branch (second argument = the rest of cstr2 from the current index). -/
def cstrcmp : List Nat → List Nat → Int
  | [], [] => 0
  | [], y :: _ => -(y : Int)
  | x :: _, [] => if x = 0 then 0 else (x : Int)
  | x :: xs, y :: ys =>
    if x = 0 then (if y = 0 then 0 else -(y : Int))
    else if x ≠ y then (x : Int) - (y : Int)
    else cstrcmp xs ys

def cstrcasecmp (a b : List Nat) : Int := cstrcmp (a.map tolower) (b.map tolower)

def isAlpha (c : Nat) : Bool := (65 ≤ c && c ≤ 90) || (97 ≤ c && c ≤ 122)
def isAlnum (c : Nat) : Bool := isAlpha c || (48 ≤ c && c ≤ 57)

/-- UserID_t.IsValid -/
def idValid (a : List Nat) : Bool :=
  let n := (cstr a).length
  if n < 2 ∨ n > Gen.UHash.idLen then false
  else if !isAlpha (a.headD 0) then false
  else (cstr a).all isAlnum

def idSize : Nat := Gen.UHash.userIDSize

def realEnv : Env (List Nat) where
  MAX := Gen.UHash.maxUsers
  B := hashMod
  PRE := Gen.UHash.preAllocated
  hash := stringHashWithHashBits
  ceq a b := cstrcasecmp a b == 0
  seq a b := cstrcmp a b == 0
  isEmpty a := a.headD 0 == 0
  valid := idValid
  zero := List.replicate idSize 0

/-- the harness's case variants of an id: the bytes before the first NUL upper-cased / lower-cased, the rest untouched -/
def flipUpper : List Nat → List Nat
  | [] => []
  | c :: cs => if c = 0 then c :: cs else toupper c :: flipUpper cs

def flipLower : List Nat → List Nat
  | [] => []
  | c :: cs => if c = 0 then c :: cs else tolower c :: flipLower cs

/-- op `lookupall`: SearchUserRaw of every non-empty slot's id as stored, upper-cased and lower-cased, in slot order. -/
def lookupAll (s : St (List Nat)) : M (List (Nat × List Int)) :=
  let rec go (ids : List (List Nat)) (k : Nat) : M (List (Nat × List Int)) :=
    match ids with
    | [] => pure []
    | a :: rest =>
      if realEnv.isEmpty a then go rest (k + 1) else do
        let r1 ← searchUserRaw realEnv s a
        let r2 ← searchUserRaw realEnv s (flipUpper a)
        let r3 ← searchUserRaw realEnv s (flipLower a)
        let tl ← go rest (k + 1)
        pure ((k, [r1.1, r2.1, r3.1]) :: tl)
  go s.userid 0

/-- bbs.UUserID.ToRaw: the id of a request copied into a zeroed UserID_t (`copy(raw[:], []byte(u))`: at most 13 bytes),
rejected unless IsValid — an id longer than IDLEN fills all 13 bytes, has no terminator and is rejected, never cut. -/
def uuserToRaw (name : List Nat) : Option (List Nat) :=
  let raw := copyInto idSize name
  if idValid raw then some raw else none

/-- bbs.CheckExistsUser(name): "invalid" | "none" | "found" (ptt.GetUID = cache.SearchUserRaw of the converted id) -/
def checkExistsUser (s : St (List Nat)) (name : List Nat) : M String :=
  match uuserToRaw name with
  | none => pure "invalid"
  | some raw => do
    let (uid, _) ← searchUserRaw realEnv s raw
    pure (if 1 ≤ uid ∧ uid ≤ (realEnv.MAX : Int) then "found" else "none")

/-- NewSHM's handshake: version first, then size. -/
def handshake (ver size wantVer wantSize : Int) : String :=
  if ver ≠ wantVer then "errversion" else if size ≠ wantSize then "errsize" else "ok"

/-! ## canonical dump (the same text the harness prints after walking the attached segment) -/

def showInt (i : Int) : String := toString i

/-- nodes of the walk from `v`, at most `fuel` of them; ends with a marker when the walk does not end in -1. -/
def dumpWalk (next : List Int) (max : Nat) : Nat → Int → List String
  | 0, v => if v = -1 then [] else ["!cyc"]
  | f + 1, v =>
    if v = -1 then []
    else if v < 0 ∨ v ≥ (max : Int) then ["!" ++ showInt v]
    else showInt v :: dumpWalk next max f ((next[v.toNat]?).getD (-1))

def dumpChains (s : St (List Nat)) (max : Nat) : String :=
  let rec go (hs : List Int) (h : Nat) (n : Nat) (sum : Nat) (acc : List String) : Nat × Nat × List String :=
    match hs with
    | [] => (n, sum, acc.reverse)
    | v :: rest =>
      let sum' := (sum * 31 + (v + 2).toNat) % 1000000007
      if v = -1 then go rest (h + 1) n sum' acc
      else
        let acc' := if n < 64 then
            (toString h ++ ":" ++ ",".intercalate (dumpWalk s.next max (max + 1) v)) :: acc else acc
        go rest (h + 1) (n + 1) sum' acc'
  let (n, sum, cs) := go s.head 0 0 0 []
  "nb=" ++ toString n ++ (if n > 64 then " sum=" ++ toString sum else "") ++ " ch=" ++
    (if cs.isEmpty then "-" else " ".intercalate cs)

def dumpIds (s : St (List Nat)) : String :=
  let rec go (ids : List (List Nat)) (k : Nat) (acc : List String) : List String :=
    match ids with
    | [] => acc.reverse
    | a :: rest => if a.all (· == 0) then go rest (k + 1) acc else go rest (k + 1) ((toString k ++ "=" ++ toHex a) :: acc)
  let l := go s.userid 0 []
  if l.isEmpty then "-" else " ".intercalate l

def dumpSt (s : St (List Nat)) (max : Nat) : String :=
  dumpChains s max ++ " nx=" ++ ",".intercalate (s.next.map showInt) ++ " id=" ++ dumpIds s ++
    " n=" ++ showInt s.number ++ " l=" ++ showInt s.loaded

def showAttach : AttachRet → String
  | .ok => "ok" | .errOpen => "erropen" | .errVersion => "errversion" | .errSize => "errsize"

def showRet : Ret → String
  | .ok => "ok" | .errAdd => "erradd" | .errRemove => "errremove" | .errInvalidUID => "errinvaliduid" | .errFile => "errfile"
  | .errExists => "errexists" | .errWrite => "errwrite"

end PttVerif.C04
