import PttVerif.Common
import PttVerif.Gen.C18Str
/-
C18 — model of ptt.StripANSIMoveCmd (ptt/kaede.go): every `ESC`, any run of bytes of PATTERN_ANSI_CODE
(`0-9 ; , [`), final byte of PATTERN_ANSI_MOVECMD (`ABCDfjHJRu`) gets its final byte replaced by `s`, in place.
After a sequence has been handled the search for the next ESC resumes AT the byte just examined (it may itself
be an ESC: `ESC ESC [ 2 J`, `ESC [ 1 ; ESC [ H`).  (The same function is modelled in C09 for the posting
path; this copy is self-contained so that C18's check does not depend on C05/C09/C13.)
-/
namespace PttVerif.C18
open PttVerif

def MV_ESC : Nat := Gen.C18Str.escChr
def mvIsCode (c : Nat) : Bool := Gen.C18Str.patternAnsiCode.contains c
def mvIsMove (c : Nat) : Bool := Gen.C18Str.patternAnsiMoveCmd.contains c

/-- `bytes.Index(l, []byte{ESC})`. -/
def mvIndexEsc : List Nat → Option Nat
  | [] => none
  | c :: cs => if c = MV_ESC then some 0 else (mvIndexEsc cs).map (· + 1)

/-- the inner `for`: the run of parameter bytes and what follows it. -/
def mvSkipCode : List Nat → List Nat × List Nat
  | [] => ([], [])
  | c :: cs =>
    if mvIsCode c then
      let r := mvSkipCode cs
      (c :: r.1, r.2)
    else ([], c :: cs)

/-- the outer loop on the not yet scanned part `l` (= `newLine`); the result is what that part of the (shared)
buffer holds when the function returns. -/
def mvLoop : Nat → List Nat → M (List Nat)
  | 0, _ => .error .diverge
  | fuel + 1, l =>
    match mvIndexEsc l with
    | none => pure l                                   -- idx < 0: break
    | some i =>
      let r := mvSkipCode (l.drop (i + 1))             -- newLine = newLine[idx:][1:]; skip parameter bytes
      match r.2 with
      | [] => pure l                                   -- len(newLine) == 0: break
      | c :: cs => do
        let c' := if mvIsMove c then 115 else c        -- newLine[0] = 's'
        let rest ← mvLoop fuel (c' :: cs)              -- the next search starts AT this byte
        pure (l.take (i + 1) ++ r.1 ++ rest)

/-- `StripANSIMoveCmd` (the loop condition `len(line) > 0` never changes). -/
def stripANSIMoveCmd (line : List Nat) : M (List Nat) :=
  if line.length > 0 then mvLoop (line.length + 1) line else pure line

/-! ### specification -/

/-- the scan as a two-state automaton (`inEsc` = an ESC and only parameter bytes have been seen). -/
def mvScan : Bool → List Nat → List Nat
  | _, [] => []
  | false, c :: cs => if c = MV_ESC then c :: mvScan true cs else c :: mvScan false cs
  | true, c :: cs =>
    if mvIsCode c then c :: mvScan true cs
    else if mvIsMove c then 115 :: mvScan false cs
    else if c = MV_ESC then c :: mvScan true cs
    else c :: mvScan false cs

/-- `l` continues an open escape sequence up to a movement final. -/
def mvStartsMove : List Nat → Bool
  | [] => false
  | c :: cs => mvIsMove c || (mvIsCode c && mvStartsMove cs)

/-- some position of `l` starts a cursor-movement sequence `ESC code* move`. -/
def mvHasMove : List Nat → Bool
  | [] => false
  | c :: cs => (c == MV_ESC && mvStartsMove cs) || mvHasMove cs

/-- the broken rule (seed C18-r5-1), for the witness theorem: after a sequence is handled the scan resumes BEHIND
the byte just examined, so an ESC in that position is swallowed. -/
def mvScanSkip : Bool → List Nat → List Nat
  | _, [] => []
  | false, c :: cs => if c = MV_ESC then c :: mvScanSkip true cs else c :: mvScanSkip false cs
  | true, c :: cs =>
    if mvIsCode c then c :: mvScanSkip true cs
    else if mvIsMove c then 115 :: mvScanSkip false cs
    else c :: mvScanSkip false cs

end PttVerif.C18
