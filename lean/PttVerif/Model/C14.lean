import PttVerif.Common
import PttVerif.Gen.Lock
/-
C14 — concurrent appends to one record file (cmsys/record.go AppendRecord, cmsys/lock.go GoFlock/GoFunlock,
lockFD/unlockFD).  A labelled transition system over atomic steps; every step is one syscall or one
mutex-protected section of the source:

  lockFD      (lock.Lock(); test-and-insert lockFDMap[filename]; lock.Unlock())      — fails fast with ErrPttLock
  flock       (syscall.Flock(fd, LOCK_EX): enabled only while no other open file description holds it)
  seekEnd     (file.Seek(0, SeekEnd): reads the length, idx := length / size)
  write       (file.Seek(idx*size); BinaryWrite: the record lands at idx)
  funlock     (syscall.Flock(fd, LOCK_UN))
  unlockFD    (delete(lockFDMap, filename)); the call returns idx+1
  failStep    (the kernel lock call returns an error instead: EWOULDBLOCK of GoFlockExNb while another open
               file description holds the flock, EINTR, ENOLCK) — possible whenever a thread is at flock
  lockFailed  (what the lock function does with the table key before it returns that error: `cl` = it
               removes the key again, read from the source — Gen/Lock.lean)

Threads are natural numbers (so: any number of them), `proc t` is the server process a thread belongs to;
the lock table is per process, the flock holder is global (kernel).  The file is a list of records, each
tagged with the thread that wrote it (`none` for records present before).  Lengths are counted in records:
the property is stated for files whose length is a multiple of the record size.
-/
namespace PttVerif.C14

inductive PC where
  | start
  | wantFlock
  | haveLock
  | seeked (idx : Nat)
  | written (idx : Nat)
  | unlocked (idx : Nat)
  | doneOk (idx : Nat)      -- returned index idx+1
  | doneErr                 -- returned ErrPttLock (or the kernel's error)
  | lockFailed              -- the kernel lock call has returned an error, the lock function has not yet returned
  | bodyFailed              -- Seek or BinaryWrite returned an error under the lock; the deferred GoFunlock is pending
  | unlockedErr             -- …its flock(LOCK_UN) is done, unlockFD pending
  | doneFail                -- returned the error of Seek / BinaryWrite
  deriving DecidableEq, Repr, Inhabited

structure Sys where
  pc : Nat → PC
  table : Nat → Bool              -- process ↦ lockFDMap has the file name
  holder : Option Nat             -- thread whose open file description holds the flock
  recs : List (Option Nat)

/-- Go's write at record index `i`: overwrite, append, or (never reached) extend with a hole. -/
def writeRec (recs : List (Option Nat)) (i : Nat) (t : Nat) : List (Option Nat) :=
  if i < recs.length then recs.set i (some t)
  else recs ++ List.replicate (i - recs.length) none ++ [some t]

def setPc (s : Sys) (t : Nat) (p : PC) : Nat → PC := fun u => if u = t then p else s.pc u
def setTable (s : Sys) (q : Nat) (b : Bool) : Nat → Bool := fun r => if r = q then b else s.table r

/-- one atomic step of thread `t`; `none` when `t` has no enabled step (finished, or blocked in flock). -/
def step (proc : Nat → Nat) (cl : Bool) (s : Sys) (t : Nat) : Option Sys :=
  match s.pc t with
  | .start =>
      if s.table (proc t) then some { s with pc := setPc s t .doneErr }
      else some { s with pc := setPc s t .wantFlock, table := setTable s (proc t) true }
  | .wantFlock =>
      match s.holder with
      | none => some { s with pc := setPc s t .haveLock, holder := some t }
      | some _ => none
  | .haveLock => some { s with pc := setPc s t (.seeked s.recs.length) }
  | .seeked i => some { s with pc := setPc s t (.written i), recs := writeRec s.recs i t }
  | .written i => some { s with pc := setPc s t (.unlocked i), holder := none }
  | .unlocked i => some { s with pc := setPc s t (.doneOk i), table := setTable s (proc t) false }
  | .lockFailed =>
      if cl then some { s with pc := setPc s t .doneErr, table := setTable s (proc t) false }
      else some { s with pc := setPc s t .doneErr }
  | .bodyFailed => some { s with pc := setPc s t .unlockedErr, holder := none }
  | .unlockedErr => some { s with pc := setPc s t .doneFail, table := setTable s (proc t) false }
  | .doneOk _ => none
  | .doneErr => none
  | .doneFail => none

/-- a system call of thread `t` fails (for whatever reason) instead of succeeding or blocking: the kernel
lock call at flock, or — under the lock — the seek or the write (EFBIG, ENOSPC, EIO; a failed write adds no
whole record: lengths are counted in whole records and the next appender starts at the last whole one). -/
def failStep (s : Sys) (t : Nat) : Option Sys :=
  match s.pc t with
  | .wantFlock => some { s with pc := setPc s t .lockFailed }
  | .haveLock | .seeked _ => some { s with pc := setPc s t .bodyFailed }
  | _ => none

/-- every lock function takes the key out of the table again when the kernel lock is not obtained. -/
def cleanupOf (fns : List (String × String)) : Bool :=
  !fns.isEmpty && fns.all (fun f => f.2 == "cleanup")

def sourceCleansUp : Bool := cleanupOf Gen.Lock.lockFns

/-- every function that takes a lock registers the unlock with `defer` before it can return. -/
def usersDeferOf (users : List (String × String)) : Bool :=
  !users.isEmpty && users.all (fun f => f.2 == "deferred")

/-- initial system: every thread about to call AppendRecord, nothing locked, `n0` old records. -/
def init (n0 : Nat) : Sys :=
  { pc := fun _ => .start, table := fun _ => false, holder := none, recs := List.replicate n0 none }

/-- reachable by some interleaving of atomic steps. -/
inductive Reachable (proc : Nat → Nat) (cl : Bool) (n0 : Nat) : Sys → Prop where
  | init : Reachable proc cl n0 (init n0)
  | step {s s' : Sys} (t : Nat) : Reachable proc cl n0 s → step proc cl s t = some s' → Reachable proc cl n0 s'
  | fail {s s' : Sys} (t : Nat) : Reachable proc cl n0 s → failStep s t = some s' → Reachable proc cl n0 s'

/-! ### the schedule-level semantics the harness drives (hook points of the `verif` build)

A "release" lets a thread run from its current hook point to the next one:
  seg 0: call → append.afterOpen      (no shared effect)
  seg 1: afterOpen → afterLock        lockFD [fail ⇒ return]; flock (may block)
  seg 2: afterLock → afterSeek        seekEnd
  seg 3: afterSeek → afterWrite       write
  seg 4: afterWrite → return          funlock; unlockFD
A thread blocked in flock acquires it as soon as the holder releases (at most one waiter in the driven cases).
Processes numbered 50 and up run under a file-size limit equal to the initial file size: their writes fail. -/

structure Sched where
  sys : Sys
  atOpen : Nat → Bool          -- has been started (is at or past afterOpen)
  blocked : Nat → Bool         -- released into seg 1, waiting inside flock

def wake (proc : Nat → Nat) (cl : Bool) (nThreads : Nat) (sc : Sched) : Sched :=
  match sc.sys.holder with
  | some _ => sc
  | none =>
    match (List.range nThreads).find? (fun u => sc.blocked u) with
    | none => sc
    | some u =>
      match step proc cl sc.sys u with
      | some s' => { sc with sys := s', blocked := fun v => if v = u then false else sc.blocked v }
      | none => sc

/-- a contended `GoFlockExNb` call by a fresh thread `t` (ids from 100 up): lockFD, then — the flock being
held by somebody — the kernel answers EWOULDBLOCK and the function returns. A try while nobody holds the
flock is not driven (no-op). -/
def tryLock (proc : Nat → Nat) (cl : Bool) (sc : Sched) (t : Nat) : Sched :=
  match sc.sys.pc t with
  | .start =>
      match sc.sys.holder with
      | none => sc
      | some _ =>
        match step proc cl sc.sys t with         -- lockFD
        | none => sc
        | some s1 =>
          match failStep s1 t with               -- flock(LOCK_NB) = EWOULDBLOCK
          | none => { sc with sys := s1 }        -- lockFD already failed
          | some s2 =>
            match step proc cl s2 t with         -- what the lock function does before returning the error
            | some s3 => { sc with sys := s3 }
            | none => { sc with sys := s2 }
  | _ => sc

def release (proc : Nat → Nat) (cl : Bool) (nThreads : Nat) (sc : Sched) (t : Nat) : Sched :=
  if 100 ≤ t then tryLock proc cl sc t
  else if !sc.atOpen t then { sc with atOpen := fun u => if u = t then true else sc.atOpen u }
  else if sc.blocked t then sc
  else match sc.sys.pc t with
    | .start =>
        match step proc cl sc.sys t with          -- lockFD
        | none => sc
        | some s1 =>
          match s1.pc t with
          | .doneErr => { sc with sys := s1 }
          | _ =>
            match step proc cl s1 t with          -- flock
            | some s2 => { sc with sys := s2 }
            | none => { sc with sys := s1, blocked := fun u => if u = t then true else sc.blocked u }
    | .haveLock =>
        match step proc cl sc.sys t with
        | some s1 => { sc with sys := s1 }
        | none => sc
    | .seeked _ =>
        if 50 ≤ proc t then
          -- a process whose writes fail (file-size limit reached): BinaryWrite returns the error, the
          -- deferred GoFunlock runs, the call returns — no hook point in between
          match failStep sc.sys t with
          | none => sc
          | some s1 =>
            match step proc cl s1 t with         -- funlock
            | none => { sc with sys := s1 }
            | some s2 =>
              match step proc cl s2 t with       -- unlockFD, return
              | some s3 => wake proc cl nThreads { sc with sys := s3 }
              | none => { sc with sys := s2 }
        else
          match step proc cl sc.sys t with
          | some s1 => { sc with sys := s1 }
          | none => sc
    | .written _ =>
        match step proc cl sc.sys t with          -- funlock
        | none => sc
        | some s1 =>
          match step proc cl s1 t with            -- unlockFD, return
          | some s2 => wake proc cl nThreads { sc with sys := s2 }
          | none => sc
    | _ => sc

def showPC : PC → String
  | .start => "start"
  | .wantFlock => "blocked"
  | .haveLock => "locked"
  | .seeked _ => "seeked"
  | .written _ => "written"
  | .unlocked _ => "unlocked"
  | .doneOk i => s!"ok:{i + 1}"
  | .doneErr => "err"
  | .lockFailed => "lockfailed"
  | .bodyFailed => "bodyfailed"
  | .unlockedErr => "unlockederr"
  | .doneFail => "err:write"

def showRec : Option Nat → String
  | none => "_"
  | some t => toString t

/-- run a schedule from `n0` old records; answer: every thread's state, then the file's writer list. -/
def procOf (procs : List Nat) (t : Nat) : Nat := if 100 ≤ t then (t - 100) % 10 else procs.getD t 0

def runSchedule (cl : Bool) (procs : List Nat) (n0 : Nat) (sched : List Nat) : String :=
  let proc := procOf procs
  let n := procs.length
  let sc0 : Sched := { sys := init n0, atOpen := fun _ => false, blocked := fun _ => false }
  let sc := sched.foldl (release proc cl n) sc0
  let pcs := (List.range n).map (fun t => showPC (sc.sys.pc t))
  let tries := (sched.filter (100 ≤ ·)).map (fun t => showPC (sc.sys.pc t))
  " ".intercalate pcs ++ " | " ++ ",".intercalate (sc.sys.recs.map showRec) ++
    (if tries.isEmpty then "" else " | " ++ " ".intercalate tries)

end PttVerif.C14
