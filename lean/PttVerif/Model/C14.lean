import PttVerif.Common
import PttVerif.Gen.Lock
/-
C14 — concurrent appends to one record file (cmsys/record.go AppendRecord, cmsys/lock.go GoFlock/GoFunlock,
lockFD/unlockFD).  A labelled transition system over atomic steps; every step is one syscall or one
mutex-protected section of the source:

  lockFD      (lock.Lock(); test-and-insert lockFDMap[filename]; lock.Unlock())      — fails fast with ErrPttLock
  flock       (syscall.Flock(fd, LOCK_EX): enabled only while no other open file description holds it)
  seekEnd     (file.Seek(0, SeekEnd): reads the length, idx := length / size)
  write       (file.Seek(idx*size); BinaryWrite: the record lands at idx)
  funlock     (syscall.Flock(fd, LOCK_UN))
  unlockFD    (delete(lockFDMap, filename)); the call returns idx+1
  failStep    (the kernel lock call returns an error instead: EWOULDBLOCK of GoFlockExNb while another open
               file description holds the flock, EINTR, ENOLCK) — possible whenever a thread is at flock
  lockFailed  (what the lock function does with the table key before it returns that error: `cl` = it
               removes the key again, read from the source — Gen/Lock.lean)

Threads are natural numbers (so: any number of them), `proc t` is the server process a thread belongs to;
the lock table is per process, the flock holder is global (kernel).  The file is a list of records, each
tagged with the thread that wrote it (`none` for records present before).  Lengths are counted in records:
the property is stated for files whose length is a multiple of the record size.
-/
namespace PttVerif.C14

inductive PC where
  | start
  | wantFlock
  | haveLock
  | seeked (idx : Nat)
  | written (idx : Nat)
  | unlocked (idx : Nat)
  | doneOk (idx : Nat)      -- returned index idx+1
  | doneErr                 -- returned ErrPttLock (or the kernel's error)
  | lockFailed              -- the kernel lock call has returned an error, the lock function has not yet returned
  | bodyFailed              -- Seek or BinaryWrite returned an error under the lock; the deferred GoFunlock is pending
  | unlockedErr             -- …its flock(LOCK_UN) is done, unlockFD pending
  | doneFail                -- returned the error of Seek / BinaryWrite
  deriving DecidableEq, Repr, Inhabited

structure Sys where
  pc : Nat → PC
  table : Nat → Bool              -- process ↦ lockFDMap has the file name
  holder : Option Nat             -- thread whose open file description holds the flock
  recs : List (Option Nat)

/-- Go's write at record index `i`: overwrite, append, or (never reached) extend with a hole. -/
def writeRec (recs : List (Option Nat)) (i : Nat) (t : Nat) : List (Option Nat) :=
  if i < recs.length then recs.set i (some t)
  else recs ++ List.replicate (i - recs.length) none ++ [some t]

def setPc (s : Sys) (t : Nat) (p : PC) : Nat → PC := fun u => if u = t then p else s.pc u
def setTable (s : Sys) (q : Nat) (b : Bool) : Nat → Bool := fun r => if r = q then b else s.table r

/-- one atomic step of thread `t`; `none` when `t` has no enabled step (finished, or blocked in flock). -/
def step (proc : Nat → Nat) (cl : Bool) (s : Sys) (t : Nat) : Option Sys :=
  match s.pc t with
  | .start =>
      if s.table (proc t) then some { s with pc := setPc s t .doneErr }
      else some { s with pc := setPc s t .wantFlock, table := setTable s (proc t) true }
  | .wantFlock =>
      match s.holder with
      | none => some { s with pc := setPc s t .haveLock, holder := some t }
      | some _ => none
  | .haveLock => some { s with pc := setPc s t (.seeked s.recs.length) }
  | .seeked i => some { s with pc := setPc s t (.written i), recs := writeRec s.recs i t }
  | .written i => some { s with pc := setPc s t (.unlocked i), holder := none }
  | .unlocked i => some { s with pc := setPc s t (.doneOk i), table := setTable s (proc t) false }
  | .lockFailed =>
      if cl then some { s with pc := setPc s t .doneErr, table := setTable s (proc t) false }
      else some { s with pc := setPc s t .doneErr }
  | .bodyFailed => some { s with pc := setPc s t .unlockedErr, holder := none }
  | .unlockedErr => some { s with pc := setPc s t .doneFail, table := setTable s (proc t) false }
  | .doneOk _ => none
  | .doneErr => none
  | .doneFail => none

/-- a system call of thread `t` fails (for whatever reason) instead of succeeding or blocking: the kernel
lock call at flock, or — under the lock — the seek or the write (EFBIG, ENOSPC, EIO; a failed write adds no
whole record: lengths are counted in whole records and the next appender starts at the last whole one). -/
def failStep (s : Sys) (t : Nat) : Option Sys :=
  match s.pc t with
  | .wantFlock => some { s with pc := setPc s t .lockFailed }
  | .haveLock | .seeked _ => some { s with pc := setPc s t .bodyFailed }
  | _ => none

/-- every lock function takes the key out of the table again when the kernel lock is not obtained. -/
def cleanupOf (fns : List (String × String)) : Bool :=
  !fns.isEmpty && fns.all (fun f => f.2 == "cleanup")

def sourceCleansUp : Bool := cleanupOf Gen.Lock.lockFns

/-- every function that takes a lock registers the unlock with `defer` before it can return. -/
def usersDeferOf (users : List (String × String)) : Bool :=
  !users.isEmpty && users.all (fun f => f.2 == "deferred")

/-- initial system: every thread about to call AppendRecord, nothing locked, `n0` old records. -/
def init (n0 : Nat) : Sys :=
  { pc := fun _ => .start, table := fun _ => false, holder := none, recs := List.replicate n0 none }

/-- reachable by some interleaving of atomic steps. -/
inductive Reachable (proc : Nat → Nat) (cl : Bool) (n0 : Nat) : Sys → Prop where
  | init : Reachable proc cl n0 (init n0)
  | step {s s' : Sys} (t : Nat) : Reachable proc cl n0 s → step proc cl s t = some s' → Reachable proc cl n0 s'
  | fail {s s' : Sys} (t : Nat) : Reachable proc cl n0 s → failStep s t = some s' → Reachable proc cl n0 s'

/-! ### the schedule-level semantics the harness drives (hook points of the `verif` build)

A "release" lets a thread run from its current hook point to the next one:
  seg 0: call → append.afterOpen      (no shared effect)
  seg 1: afterOpen → afterLock        lockFD [fail ⇒ return]; flock (may block)
  seg 2: afterLock → afterSeek        seekEnd
  seg 3: afterSeek → afterWrite       write
  seg 4: afterWrite → return          funlock; unlockFD
A thread blocked in flock acquires it as soon as the holder releases (at most one waiter in the driven cases).
Processes numbered 50 and up run under a file-size limit equal to the initial file size: their writes fail. -/

structure Sched where
  sys : Sys
  atOpen : Nat → Bool          -- has been started (is at or past afterOpen)
  blocked : Nat → Bool         -- released into seg 1, waiting inside flock

def wake (proc : Nat → Nat) (cl : Bool) (nThreads : Nat) (sc : Sched) : Sched :=
  match sc.sys.holder with
  | some _ => sc
  | none =>
    match (List.range nThreads).find? (fun u => sc.blocked u) with
    | none => sc
    | some u =>
      match step proc cl sc.sys u with
      | some s' => { sc with sys := s', blocked := fun v => if v = u then false else sc.blocked v }
      | none => sc

/-- a contended `GoFlockExNb` call by a fresh thread `t` (ids from 100 up): lockFD, then — the flock being
held by somebody — the kernel answers EWOULDBLOCK and the function returns. A try while nobody holds the
flock is not driven (no-op). -/
def tryLock (proc : Nat → Nat) (cl : Bool) (sc : Sched) (t : Nat) : Sched :=
  match sc.sys.pc t with
  | .start =>
      match sc.sys.holder with
      | none => sc
      | some _ =>
        match step proc cl sc.sys t with         -- lockFD
        | none => sc
        | some s1 =>
          match failStep s1 t with               -- flock(LOCK_NB) = EWOULDBLOCK
          | none => { sc with sys := s1 }        -- lockFD already failed
          | some s2 =>
            match step proc cl s2 t with         -- what the lock function does before returning the error
            | some s3 => { sc with sys := s3 }
            | none => { sc with sys := s2 }
  | _ => sc

def release (proc : Nat → Nat) (cl : Bool) (nThreads : Nat) (sc : Sched) (t : Nat) : Sched :=
  if 100 ≤ t then tryLock proc cl sc t
  else if !sc.atOpen t then { sc with atOpen := fun u => if u = t then true else sc.atOpen u }
  else if sc.blocked t then sc
  else match sc.sys.pc t with
    | .start =>
        match step proc cl sc.sys t with          -- lockFD
        | none => sc
        | some s1 =>
          match s1.pc t with
          | .doneErr => { sc with sys := s1 }
          | _ =>
            match step proc cl s1 t with          -- flock
            | some s2 => { sc with sys := s2 }
            | none => { sc with sys := s1, blocked := fun u => if u = t then true else sc.blocked u }
    | .haveLock =>
        match step proc cl sc.sys t with
        | some s1 => { sc with sys := s1 }
        | none => sc
    | .seeked _ =>
        if 50 ≤ proc t then
          -- a process whose writes fail (file-size limit reached): BinaryWrite returns the error, the
          -- deferred GoFunlock runs, the call returns — no hook point in between
          match failStep sc.sys t with
          | none => sc
          | some s1 =>
            match step proc cl s1 t with         -- funlock
            | none => { sc with sys := s1 }
            | some s2 =>
              match step proc cl s2 t with       -- unlockFD, return
              | some s3 => wake proc cl nThreads { sc with sys := s3 }
              | none => { sc with sys := s2 }
        else
          match step proc cl sc.sys t with
          | some s1 => { sc with sys := s1 }
          | none => sc
    | .written _ =>
        match step proc cl sc.sys t with          -- funlock
        | none => sc
        | some s1 =>
          match step proc cl s1 t with            -- unlockFD, return
          | some s2 => wake proc cl nThreads { sc with sys := s2 }
          | none => sc
    | _ => sc

def showPC : PC → String
  | .start => "start"
  | .wantFlock => "blocked"
  | .haveLock => "locked"
  | .seeked _ => "seeked"
  | .written _ => "written"
  | .unlocked _ => "unlocked"
  | .doneOk i => s!"ok:{i + 1}"
  | .doneErr => "err"
  | .lockFailed => "lockfailed"
  | .bodyFailed => "bodyfailed"
  | .unlockedErr => "unlockederr"
  | .doneFail => "err:write"

def showRec : Option Nat → String
  | none => "_"
  | some t => toString t

/-- run a schedule from `n0` old records; answer: every thread's state, then the file's writer list. -/
def procOf (procs : List Nat) (t : Nat) : Nat := if 100 ≤ t then (t - 100) % 10 else procs.getD t 0

def runSchedule (cl : Bool) (procs : List Nat) (n0 : Nat) (sched : List Nat) : String :=
  let proc := procOf procs
  let n := procs.length
  let sc0 : Sched := { sys := init n0, atOpen := fun _ => false, blocked := fun _ => false }
  let sc := sched.foldl (release proc cl n) sc0
  let pcs := (List.range n).map (fun t => showPC (sc.sys.pc t))
  let tries := (sched.filter (100 ≤ ·)).map (fun t => showPC (sc.sys.pc t))
  " ".intercalate pcs ++ " | " ++ ",".intercalate (sc.sys.recs.map showRec) ++
    (if tries.isEmpty then "" else " | " ++ " ".intercalate tries)

/-! ### other users of the same locks (round 4)

The flock belongs to an *open file description*; the unlock call is given a descriptor NUMBER.  As long
as every lock user issues its unlock while its own file is still open, the number names its own
description and the two are the same thing — that is what the model above assumes.  Two facts are read
from the source on every run (Gen/Lock.lean) to justify it, and each has its abstract counterpart here:

* `lockClose` — every function that takes one of the locks gives the unlock the locked file's descriptor
  and closes the file only after the deferred unlock has run.  Otherwise (`Disc.closeFirst`) the unlock
  runs on a number that the kernel may meanwhile have handed to another thread's file: `unlockNum`
  releases the flock of whichever description the number names *now* (a "foreign unlock").
* `appendCallers` — no caller of AppendRecord falls back, on an error, to writing the record by another
  route.  Otherwise (`Disc.bypass`) a call that got `ErrPttLock` stores its record at slot
  `recs.length`, read WITHOUT the flock (`bread`), with a write the flock holders do not see (`bstore`). -/

/-- every lock user unlocks its own file's descriptor while that file is still open. -/
def unlockBeforeCloseOf (users : List (String × String)) : Bool :=
  !users.isEmpty && users.all (fun f => f.2 == "unlock-before-close")

/-- no caller of AppendRecord writes the record by another route when the call fails. -/
def noBypassOf (callers : List (String × String)) : Bool :=
  !callers.isEmpty && callers.all (fun f => f.2 == "propagates" || f.2 == "ignores" || f.2 == "retries")

/-- some caller of AppendRecord has a fallback writer (what the schedule-level model follows). -/
def sourceBypass : Bool := Gen.Lock.appendCallers.any (fun f => f.2.startsWith "fallback:")

/-- the discipline of the other lock users / callers. -/
structure Disc where
  closeFirst : Bool      -- a lock user closes its file before its deferred unlock runs
  bypass : Bool          -- a caller of AppendRecord falls back to a write outside the whole-file lock

def disciplined : Disc := { closeFirst := false, bypass := false }

/-- state of the fallback write of a call whose AppendRecord returned an error. -/
inductive BPC where
  | idle
  | counted (k : Nat)      -- GetNumRecords answered k (no lock held)
  | stored (k : Nat)       -- SubstituteRecord at slot k returned nil: the call reports success
  deriving DecidableEq, Repr, Inhabited

/-- whose open file description a descriptor number names. -/
inductive Owner where
  | app (t : Nat)          -- appender thread t's record file
  | usr (u : Nat)          -- lock user u's own file (an article: another file, another flock, another table key)
  deriving DecidableEq, Repr

/-- a lock user (ptt.doAddRecommendSmartMerge): open, lock its own file, write, then
unlock(number) and close — in the order the source has them. -/
inductive UPC where
  | idle
  | opened (n : Nat)       -- file open under number n (locked, written)
  | unlocked (n : Nat)     -- disciplined order: unlock done, close pending
  | closed (n : Nat)       -- close-first order: file closed, the deferred unlock of number n pending
  | done
  deriving DecidableEq, Repr, Inhabited

structure XSys where
  sys : Sys
  byp : Nat → BPC                       -- appender thread ↦ its fallback write
  names : Nat → Nat → Option Owner      -- process, descriptor number ↦ the open description it names
  appFd : Nat → Option Nat              -- appender thread ↦ the number of its record file while open
  upc : Nat → UPC                       -- the other lock users

def setName (x : XSys) (p n : Nat) (o : Option Owner) : Nat → Nat → Option Owner :=
  fun q m => if q = p ∧ m = n then o else x.names q m

def isDone : PC → Bool
  | .doneOk _ | .doneErr | .doneFail => true
  | _ => false

/-- an appender's step where flock(LOCK_UN) is exact: it releases the flock only if the thread's own
description still holds it (in the disciplined system it always does: `funlockStep_eq`). -/
def funlockStep (proc : Nat → Nat) (cl : Bool) (s : Sys) (t : Nat) : Option Sys :=
  match s.pc t with
  | .written i => if s.holder = some t then step proc cl s t else some { s with pc := setPc s t (.unlocked i) }
  | .bodyFailed => if s.holder = some t then step proc cl s t else some { s with pc := setPc s t .unlockedErr }
  | _ => step proc cl s t

/-- flock(n, LOCK_UN) in process p: acts on the description that number n names now (EBADF: nothing). -/
def unlockNum (x : XSys) (p n : Nat) : XSys :=
  match x.names p n with
  | some (.app v) => if x.sys.holder = some v then { x with sys := { x.sys with holder := none } } else x
  | _ => x

inductive XAct where
  | st (t : Nat)            -- atomic step of appender t
  | fl (t : Nat)            -- failing system call of appender t
  | aopen (t n : Nat)       -- AppendRecord's OpenFile: the kernel hands out a free number n
  | aclose (t : Nat)        -- its deferred file.Close(), after the call's last step
  | bread (t : Nat)         -- fallback of a failed call: GetNumRecords, no lock
  | bstore (t : Nat)        -- … SubstituteRecord at that slot
  | uopen (u n : Nat)       -- a lock user opens its own file: free number n
  | uunlock (u : Nat)       -- its deferred GoFunlock(number)
  | uclose (u : Nat)        -- its file.Close()

def xstep (proc procU : Nat → Nat) (cl : Bool) (d : Disc) (x : XSys) : XAct → Option XSys
  | .st t =>
      if (x.appFd t).isSome then (funlockStep proc cl x.sys t).map (fun s' => { x with sys := s' }) else none
  | .fl t =>
      if (x.appFd t).isSome then (failStep x.sys t).map (fun s' => { x with sys := s' }) else none
  | .aopen t n =>
      if x.sys.pc t = .start ∧ x.appFd t = none ∧ x.names (proc t) n = none then
        some { x with names := setName x (proc t) n (some (.app t)),
                      appFd := fun u => if u = t then some n else x.appFd u }
      else none
  | .aclose t =>
      match x.appFd t with
      | some n =>
          if isDone (x.sys.pc t) then
            some { x with names := setName x (proc t) n none, appFd := fun u => if u = t then none else x.appFd u }
          else none
      | none => none
  | .bread t =>
      if d.bypass = true ∧ x.sys.pc t = .doneErr ∧ x.byp t = .idle then
        some { x with byp := fun u => if u = t then .counted x.sys.recs.length else x.byp u }
      else none
  | .bstore t =>
      match x.byp t with
      | .counted k =>
          some { x with sys := { x.sys with recs := writeRec x.sys.recs k t },
                        byp := fun u => if u = t then .stored k else x.byp u }
      | _ => none
  | .uopen u n =>
      if x.upc u = .idle ∧ x.names (procU u) n = none then
        some { x with names := setName x (procU u) n (some (.usr u)),
                      upc := fun v => if v = u then .opened n else x.upc v }
      else none
  | .uunlock u =>
      match x.upc u with
      | .opened n =>
          if d.closeFirst then none
          else some { unlockNum x (procU u) n with upc := fun v => if v = u then .unlocked n else x.upc v }
      | .closed n => some { unlockNum x (procU u) n with upc := fun v => if v = u then .done else x.upc v }
      | _ => none
  | .uclose u =>
      match x.upc u with
      | .opened n =>
          if d.closeFirst then
            some { x with names := setName x (procU u) n none, upc := fun v => if v = u then .closed n else x.upc v }
          else none
      | .unlocked n =>
          some { x with names := setName x (procU u) n none, upc := fun v => if v = u then .done else x.upc v }
      | _ => none

def xinit (n0 : Nat) : XSys :=
  { sys := init n0, byp := fun _ => .idle, names := fun _ _ => none, appFd := fun _ => none, upc := fun _ => .idle }

/-- reachable in the system with descriptor numbers, other lock users and (if `d.bypass`) fallback writers. -/
inductive XReachable (proc procU : Nat → Nat) (cl : Bool) (d : Disc) (n0 : Nat) : XSys → Prop where
  | init : XReachable proc procU cl d n0 (xinit n0)
  | step {x x' : XSys} (a : XAct) : XReachable proc procU cl d n0 x → xstep proc procU cl d x a = some x' →
      XReachable proc procU cl d n0 x'

def xexec (proc procU : Nat → Nat) (cl : Bool) (d : Disc) : List XAct → XSys → Option XSys
  | [], x => some x
  | a :: as, x => (xstep proc procU cl d x a).bind (xexec proc procU cl d as)

/-! #### header writers (ptt.WriteFile → writeHeaderAuthorBoard → AppendRecord on .post), one process

`hdr n0 hold nw`: thread 0 is a header writer stopped after `hold` releases (1: before lockFD,
2: holds the flock, 3: has read the length, 4: has written); then threads 1..nw each run a whole
header-writer call (nobody stops them); thread 0 is released to its return; finally thread nw+1 runs
a whole call.  A whole call = open, the appender's atomic steps until it returns, close, and — when
the source has a fallback writer — the fallback of a call that got an error. -/

def xsteps (proc procU : Nat → Nat) (cl : Bool) (d : Disc) (a : XAct) : Nat → XSys → XSys
  | 0, x => x
  | k + 1, x =>
      match xstep proc procU cl d x a with
      | some x' => xsteps proc procU cl d a k x'
      | none => x

def xtry (proc procU : Nat → Nat) (cl : Bool) (d : Disc) (x : XSys) (a : XAct) : XSys :=
  (xstep proc procU cl d x a).getD x

def wholeCall (proc procU : Nat → Nat) (cl : Bool) (d : Disc) (x : XSys) (t : Nat) : XSys :=
  let x1 := xtry proc procU cl d x (.aopen t t)
  let x2 := xsteps proc procU cl d (.st t) 6 x1
  let x3 := xtry proc procU cl d x2 (.aclose t)
  let x4 := xtry proc procU cl d x3 (.bread t)
  xtry proc procU cl d x4 (.bstore t)

def showCall (x : XSys) (t : Nat) : String :=
  match x.sys.pc t, x.byp t with
  | .doneOk _, _ => "ok"
  | _, .stored _ => "ok"
  | .doneErr, _ => "err"
  | .doneFail, _ => "err"
  | p, _ => showPC p

def runHdr (cl bypass : Bool) (n0 hold nw : Nat) : String :=
  let proc : Nat → Nat := fun _ => 0
  let d : Disc := { closeFirst := false, bypass := bypass }
  let rel := fun (st : XSys × Sched) (_ : Nat) =>
    let sc := release proc cl (nw + 2) { st.2 with sys := st.1.sys } 0
    ({ st.1 with sys := sc.sys }, sc)
  let x0 := xtry proc proc cl d (xinit n0) (.aopen 0 0)
  let st0 : XSys × Sched := (x0, { sys := x0.sys, atOpen := fun _ => false, blocked := fun _ => false })
  let st1 := (List.range hold).foldl rel st0
  let xw := (List.range nw).foldl (fun x k => wholeCall proc proc cl d x (k + 1)) st1.1
  let st2 := (List.range (6 - hold)).foldl rel (xw, st1.2)
  let x3 := xtry proc proc cl d st2.1 (.aclose 0)
  let x4 := xtry proc proc cl d (xtry proc proc cl d x3 (.bread 0)) (.bstore 0)
  let x5 := wholeCall proc proc cl d x4 (nw + 1)
  " ".intercalate ((List.range (nw + 2)).map (showCall x5)) ++ " | " ++ ",".intercalate (x5.sys.recs.map showRec)

/-! ### the index a request reports (round 5)

A caller of AppendRecord that hands an index on to its own caller (ptt.DoPostArticle → NewPost →
summary.Aid) reports either the index the append returned, or — `Report.lengthAfter` — the last
slot of the file as it is at some later moment, read after the lock was released (the board total
that SetBTotal takes from a stat of .DIR).  `appendIndex` (Gen/Lock.lean) says which. -/

/-- every caller that reports an index reports the one AppendRecord returned. -/
def reportsAppendedOf (callers : List (String × String)) : Bool :=
  !callers.isEmpty && callers.all (fun f => f.2 == "returned" || f.2 == "dropped" || f.2 == "local-use")

inductive Report where
  | appended       -- the index AppendRecord returned
  | lengthAfter    -- the number of records in the file when the request looks again, lock released
  deriving DecidableEq, Repr

/-- the slot (0-based) a request whose append has returned reports, when it reports in state `s`. -/
def reportSlot (r : Report) (s : Sys) (t : Nat) : Option Nat :=
  match s.pc t with
  | .doneOk i =>
      match r with
      | .appended => some i
      | .lengthAfter => some (s.recs.length - 1)
  | _ => none

/-! ### other writers of the record file beside the append (round 7)

The model's file is changed by the `write` step of appenders only; that is sound only if no caller of
AppendRecord also creates, truncates or rewrites the same file outside the lock protocol (an
`os.Create` after an unlocked existence check, a truncate to a size read before the lock).
`appendSideWriters` (Gen/Lock.lean) lists, per caller, the other calls given the same path. -/
def noSideWriterOf (callers : List (String × String)) : Bool :=
  !callers.isEmpty && callers.all (fun f => f.2 == "no-other-writer" || f.2 == "exclusive-slot-writer")

end PttVerif.C14
