import PttVerif.Common
/-
C18 (group 1) — model of types/cstr.go (+ the two `bytes` functions it calls):
  Cstrlen, CstrToBytes, Cstrcmp, CstrTolower/CcharTolower, CstrToupper/CcharToupper,
  Cstrcasecmp, Cstrstr, Cstrcasestr, CstrCaseHasPrefix, CstrTokenR.
Bytes are `Nat`s (the driver only ever feeds values below 256); a Go `[]byte`/`Cstr` is a `List Nat`
(no spare capacity is ever used by these functions).  Go `int` results are `Int`.
Every Go index expression is an `idx` (faults where Go panics) — that none of them can fault is a theorem,
not a convention of the model.
-/
namespace PttVerif.C18
open PttVerif

/-! ### package `bytes` (modelled, tied by the correspondence) -/

/-- `bytes.IndexByte(s, c)`: position of the first `c`; `none` is Go's `-1`. -/
def indexByte : List Nat → Nat → Option Nat
  | [], _ => none
  | x :: xs, c => if x = c then some 0 else (indexByte xs c).map (· + 1)

/-- `bytes.HasPrefix(s, p)`. -/
def hasPrefix : List Nat → List Nat → Bool
  | _, [] => true
  | [], _ :: _ => false
  | x :: xs, p :: ps => x == p && hasPrefix xs ps

/-- `bytes.Index(s, sep)`: position of the first occurrence of `sep` (0 for the empty `sep`). -/
def index : List Nat → List Nat → Option Nat
  | [], n => if n.isEmpty then some 0 else none
  | x :: xs, n => if hasPrefix (x :: xs) n then some 0 else (index xs n).map (· + 1)

/-- Go's `-1`-for-absent convention. -/
def optToInt : Option Nat → Int
  | some i => Int.ofNat i
  | none => -1

/-! ### types/cstr.go -/

/-- `Cstrlen`. -/
def cstrlen (s : List Nat) : Nat :=
  match indexByte s 0 with
  | none => s.length
  | some i => i

/-- `CstrToBytes` (Go returns `nil` for length 0; `nil` and the empty slice are both rendered `-`). -/
def cstrToBytes (s : List Nat) : M (List Nat) :=
  let theLen := cstrlen s
  if theLen = 0 then .ok [] else slice s 0 theLen

/-- outcome of the `for idx, each := range cstr1` loop of `Cstrcmp`: an early `return v`, or falling out of the
loop with the current values of `len1`, `len2`. -/
inductive CmpLoop where
  | ret (v : Int)
  | fall (len1 len2 : Nat)
  deriving Repr, DecidableEq

/-- the loop of `Cstrcmp`; `n1 = len(cstr1)`, `c2 = cstr2`, the list argument is `cstr1[idx:]`. -/
def cmpLoop (c2 : List Nat) (n1 : Nat) : List Nat → Nat → M CmpLoop
  | [], _ => .ok (.fall n1 c2.length)
  | each :: rest, i =>
    if each = 0 then
      -- len1 = idx; if idx < len2 && cstr2[idx] == 0 { len2 = idx }; break
      if i < c2.length then do
        let b ← idx c2 i
        if b = 0 then pure (.fall i i) else pure (.fall i c2.length)
      else pure (.fall i c2.length)
    else if i ≥ c2.length then pure (.ret (Int.ofNat each))
    else do
      let each2 ← idx c2 i
      if each ≠ each2 then pure (.ret (Int.ofNat each - Int.ofNat each2))
      else cmpLoop c2 n1 rest (i + 1)

/-- `Cstrcmp`. -/
def cstrcmp (c1 c2 : List Nat) : M Int := do
  match ← cmpLoop c2 c1.length c1 0 with
  | .ret v => pure v
  | .fall len1 len2 =>
    if len1 < len2 then do
      let b ← idx c2 len1
      pure (- Int.ofNat b)
    else pure 0

/-- `CcharTolower`: `ch + 'a' - 'A'` for `'A'..'Z'` (no uint8 wrap possible: `ch ≤ 90`). -/
def ccharTolower (ch : Nat) : Nat := if 65 ≤ ch ∧ ch ≤ 90 then ch + 97 - 65 else ch

/-- `CcharToupper`: `ch - 32` for `'a'..'z'`. -/
def ccharToupper (ch : Nat) : Nat := if 97 ≤ ch ∧ ch ≤ 122 then ch - 32 else ch

/-- `CstrTolower`: folds the whole slice, also behind a NUL. -/
def cstrTolower (s : List Nat) : List Nat := s.map ccharTolower
def cstrToupper (s : List Nat) : List Nat := s.map ccharToupper

/-- `Cstrcasecmp`. -/
def cstrcasecmp (c1 c2 : List Nat) : M Int := cstrcmp (cstrTolower c1) (cstrTolower c2)

/-- `Cstrstr`: the needle is searched in the *whole* slice (it is not cut at its own NUL), then the hit is
discarded when it starts at or behind the haystack's NUL. -/
def cstrstr (h n : List Nat) : Int :=
  let theIdx := optToInt (index h n)
  let theLen := cstrlen h
  if theIdx < 0 ∨ theIdx ≥ Int.ofNat theLen then -1 else theIdx

/-- `Cstrcasestr`. -/
def cstrcasestr (h n : List Nat) : Int := cstrstr (cstrTolower h) (cstrTolower n)

/-- `CstrCaseHasPrefix` (no NUL handling at all in the Go code). -/
def cstrCaseHasPrefix (s p : List Nat) : Bool := hasPrefix (cstrTolower s) (cstrTolower p)

/-- the `for _, each := range sep` loop of `CstrTokenR`. -/
def tokenMin (s : List Nat) : List Nat → Nat → Nat
  | [], m => m
  | each :: rest, m =>
    match indexByte s each with
    | none => tokenMin s rest m
    | some i => tokenMin s rest (if i < m then i else m)

/-- `if minIdx == 0 { first = nil } else { first = cstr[:minIdx] }` -/
def tokenFirst (s : List Nat) (minIdx : Nat) : M (List Nat) :=
  if minIdx = 0 then pure [] else slice s 0 minIdx

/-- `if minIdx >= len(cstr)-1 { theRest = nil } else { theRest = cstr[minIdx+1:] }` — an `int` comparison:
`len-1` is `-1` for the empty slice. -/
def tokenRest (s : List Nat) (minIdx : Nat) : M (List Nat) :=
  if Int.ofNat minIdx ≥ Int.ofNat s.length - 1 then pure [] else slice s (minIdx + 1) s.length

/-- `CstrTokenR`: `(first, theRest)` (its first four lines are the body of `Cstrlen`). -/
def cstrTokenR (s sep : List Nat) : M (List Nat × List Nat) := do
  let minIdx := tokenMin s sep (cstrlen s)
  let first ← tokenFirst s minIdx
  let rest ← tokenRest s minIdx
  pure (first, rest)

/-! ### the C side: what the property compares with (specifications) -/

/-- C `strcmp` on two NUL-free strings, as glibc computes it: the difference of the first pair of unsigned
bytes that differ, the terminator counting as 0. -/
def strcmp : List Nat → List Nat → Int
  | [], [] => 0
  | [], b :: _ => - Int.ofNat b
  | a :: _, [] => Int.ofNat a
  | a :: as, b :: bs => if a = b then strcmp as bs else Int.ofNat a - Int.ofNat b

/-- lexicographic comparison of unsigned bytes, the order `strcmp`'s sign stands for. -/
def lexCmp : List Nat → List Nat → Ordering
  | [], [] => .eq
  | [], _ :: _ => .lt
  | _ :: _, [] => .gt
  | a :: as, b :: bs => if a < b then .lt else if b < a then .gt else lexCmp as bs

def ordToInt : Ordering → Int
  | .lt => -1
  | .eq => 0
  | .gt => 1

/-- C `strcasecmp` in the "C" locale: `strcmp` after ASCII lower-casing. -/
def strcasecmp (a b : List Nat) : Int := strcmp (a.map ccharTolower) (b.map ccharTolower)

/-- `i` is the position of the first occurrence of `n` in `h` (what C `strstr(h, n) - h` is). -/
def IsFirstOcc (h n : List Nat) (i : Nat) : Prop :=
  n <+: h.drop i ∧ i ≤ h.length ∧ ∀ j, j < i → ¬ n <+: h.drop j

/-- `n` does not occur in `h`. -/
def NoOcc (h n : List Nat) : Prop := ∀ j, j ≤ h.length → ¬ n <+: h.drop j

end PttVerif.C18
