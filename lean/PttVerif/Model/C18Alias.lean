import PttVerif.Model.C18
import PttVerif.Model.C18Ansi
import PttVerif.Model.C18Misc
/-
C18 (result ownership) — a heap model of the byte-string helpers that RETURN a slice.

A Go slice is (backing array, offset, length). The helpers fall into three classes, mirrored here:
  fresh    the result is a new allocation: StripAnsi (`dst = make([]byte, len(src))`, result `dst[:idxDst]`),
           CstrTolower / CstrToupper (`make`), ReadLine (bufio.ReadBytes returns a copy);
  view     the result is a sub-slice of the argument: CstrToBytes, CstrTokenR, DBCSSafeTrim, Trim, SubjectEx
           (a suffix of the title array);
  in place the argument's array is written and a prefix of it returned: StripNoneBig5, TrimDBCS.
A history is a list of calls; each call's argument is a literal (put into a buffer of its own) or an EARLIER
RESULT that is still held by the caller.  What the property needs — every result stays what it was, whatever is
called afterwards — is `hist_stable` (Props).  The driver runs this heap model on `hist` / `conc` op lines and
prints every held result as read from the FINAL heap, so a helper that hands out shared memory (a pooled scratch
buffer, a package-level array) disagrees with it on the first history that re-reads an earlier result.
-/
namespace PttVerif.C18
open PttVerif

/-- a Go slice value: backing array (index into the heap), offset, length. -/
structure Sl where
  buf : Nat
  off : Nat
  len : Nat
  deriving Repr, DecidableEq

/-- the heap: the backing arrays allocated so far. -/
abbrev Heap := List (List Nat)

def Heap.rd (h : Heap) (s : Sl) : List Nat := ((h.getD s.buf []).drop s.off).take s.len

/-- what a caller holds after one call: the returned slice(s), and for SubjectEx the subject type. -/
structure Res where
  tag : Option Nat
  sls : List Sl
  deriving Repr

inductive Arg where
  | lit (b : List Nat)      -- a literal, copied into a buffer of its own
  | ref (i : Nat)           -- the (first) slice returned by step `i`, still held by the caller
  deriving Repr

inductive Step where
  | strip (flag : Nat) (a : Arg)
  | toBytes (a : Arg)
  | lower (a : Arg)
  | upper (a : Arg)
  | tokenR (a : Arg) (sep : List Nat)
  | dbcsTrim (a : Arg)
  | trim (a : Arg)
  | lines (a : Arg)
  | nb5 (b : List Nat)          -- in place: literal arguments only
  | trimDBCS (b : List Nat)     -- in place: literal arguments only
  | subject (b : List Nat)      -- the title array
  deriving Repr

/-- `make` + fill. -/
def alloc (h : Heap) (b : List Nat) : Heap × Sl := (h ++ [b], ⟨h.length, 0, b.length⟩)

/-- the argument as a slice (allocating the literal). `none`: a reference to a step that does not exist or
holds no slice — a malformed history. -/
def resolve (h : Heap) (held : List Res) : Arg → Option (Heap × Sl)
  | .lit b => some (alloc h b)
  | .ref i => match held[i]? with
    | some r => match r.sls with
      | s :: _ => some (h, s)
      | [] => none
    | none => none

/-- lines of `ReadLine`: each one a fresh allocation. -/
def allocAll (h : Heap) : List (List Nat) → Heap × List Sl
  | [] => (h, [])
  | l :: ls =>
    let (h1, s) := alloc h l
    let (h2, ss) := allocAll h1 ls
    (h2, s :: ss)

/-- one call. `none` = malformed history; `.error` = the modelled function faults. -/
def stepRun (h : Heap) (held : List Res) : Step → Option (M (Heap × Res))
  | .strip flag a => (resolve h held a).map fun (h, s) => do
      let src := h.rd s
      let out ← stripAnsi src flag
      -- dst = make([]byte, len(src)); the result is dst[:idxDst]
      let (h', d) := alloc h (out ++ List.replicate (src.length - out.length) 0)
      pure (h', ⟨none, [⟨d.buf, 0, out.length⟩]⟩)
  | .toBytes a => (resolve h held a).map fun (h, s) => do
      let r ← cstrToBytes (h.rd s)
      pure (h, ⟨none, [⟨s.buf, s.off, r.length⟩]⟩)
  | .lower a => (resolve h held a).map fun (h, s) =>
      let (h', d) := alloc h (cstrTolower (h.rd s))
      pure (h', ⟨none, [d]⟩)
  | .upper a => (resolve h held a).map fun (h, s) =>
      let (h', d) := alloc h (cstrToupper (h.rd s))
      pure (h', ⟨none, [d]⟩)
  | .tokenR a sep => (resolve h held a).map fun (h, s) => do
      let src := h.rd s
      let (first, rest) ← cstrTokenR src sep
      -- first = cstr[:minIdx], theRest = cstr[minIdx+1:]
      pure (h, ⟨none, [⟨s.buf, s.off, first.length⟩, ⟨s.buf, s.off + (src.length - rest.length), rest.length⟩]⟩)
  | .dbcsTrim a => (resolve h held a).map fun (h, s) => do
      let r ← dbcsSafeTrim (h.rd s)
      pure (h, ⟨none, [⟨s.buf, s.off, r.length⟩]⟩)
  | .trim a => (resolve h held a).map fun (h, s) => do
      let r ← trim (h.rd s)
      pure (h, ⟨none, [⟨s.buf, s.off, r.length⟩]⟩)
  | .lines a => (resolve h held a).map fun (h, s) => do
      let ls ← readLines (h.rd s)
      let (h', ss) := allocAll h ls
      pure (h', ⟨none, ss⟩)
  | .nb5 b => some do
      let (out, buf') ← stripNoneBig5 b
      let (h', d) := alloc h buf'                 -- the caller's array, as the call leaves it
      pure (h', ⟨none, [⟨d.buf, 0, out.length⟩]⟩)
  | .trimDBCS b => some do
      let (out, buf') ← trimDBCS b
      let (h', d) := alloc h buf'
      pure (h', ⟨none, [⟨d.buf, 0, out.length⟩]⟩)
  | .subject b => some do
      let (ty, r) ← subjectEx b
      let (h', d) := alloc h b
      -- a suffix of the title's C string
      pure (h', ⟨some ty, [⟨d.buf, (cstr b).length - r.length, r.length⟩]⟩)

/-- a history. -/
def histRun (h : Heap) (held : List Res) : List Step → Option (M (Heap × List Res))
  | [] => some (pure (h, held))
  | st :: rest =>
    match stepRun h held st with
    | none => none
    | some (.error e) => some (.error e)
    | some (.ok (h', r)) => histRun h' (held ++ [r]) rest

/-- what the caller sees when it looks at everything it holds AFTER the whole history. -/
def readAllHeld (h : Heap) (held : List Res) : List (Option Nat × List (List Nat)) :=
  held.map fun r => (r.tag, r.sls.map h.rd)

def histObserve (steps : List Step) : Option (M (List (Option Nat × List (List Nat)))) :=
  (histRun [] [] steps).map fun m => do
    let (h, held) ← m
    pure (readAllHeld h held)

/-! ### the broken rule, for the witness theorem: a StripAnsi whose output lives in one shared scratch buffer
(buffer 0 of the heap) that every call reuses — what a `sync.Pool` scratch buffer handed back too early, or a
package-level array, amounts to. -/
def stripPooled (h : Heap) (src : List Nat) (flag : Nat) : M (Heap × Sl) := do
  let out ← stripAnsi src flag
  let scratch := out ++ List.replicate (src.length - out.length) 0
  pure (match h with
    | [] => ([scratch], ⟨0, 0, out.length⟩)
    | _ :: rest => (scratch :: rest, ⟨0, 0, out.length⟩))

end PttVerif.C18
