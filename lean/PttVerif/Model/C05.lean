import PttVerif.Common
import PttVerif.Gen.RecFile
import PttVerif.Model.C06
/-
C05 — model of the fixed-size record-file operations:
  cmsys/record.go : GetNumRecords, GetRecords, SubstituteRecord, AppendRecord, DeleteRecord
  ptt/article.go  : ModifyDirLite (including its int8 recommend arithmetic, reused by C10)
  types/cstr.go   : Cstrcmp (only its `== 0` reading is used)

A file is a `List Nat` of bytes (values below 256) plus a `present` flag (the three writers open
with O_CREATE; ModifyDirLite and the readers do not).  Everything is written through one primitive,
`writeAt`, which has the POSIX `lseek`+`write` semantics: a write beyond EOF zero-fills the gap, a
write of zero bytes changes nothing.  A record image is an opaque byte list: what `encoding/binary`
produces for the struct (its layout is property C01); only `ModifyDirLite` looks inside, through the
field offsets regenerated in `Gen/RecFile.lean`.

Not modelled (environment): failures of open/flock/fcntl/write themselves.  The only error paths
mirrored are the ones a caller can provoke through arguments: negative offsets (lseek → EINVAL),
a zero stride (integer division by zero → panic), a negative `n` (makeslice panic), stale index/name.
-/
namespace PttVerif.C05
open PttVerif

abbrev File := List Nat

/-- `lseek(off)` + `write(bs)` on a regular file. -/
def writeAt (f : File) (off : Nat) (bs : List Nat) : File :=
  if bs.isEmpty then f
  else f.take off ++ List.replicate (off - f.length) 0 ++ bs ++ f.drop (off + bs.length)

/-- bytes `[i*sz, (i+1)*sz)` of the file (0-based record index), as far as they exist. -/
def record (f : File) (sz i : Nat) : List Nat := (f.drop (i * sz)).take sz

/-- the complete records of a file (a torn tail is not a record). -/
def recs (f : File) (sz : Nat) : List (List Nat) := (List.range (f.length / sz)).map (record f sz)

/-- the file system's view of one path. `bytes = []` when absent. -/
structure FS where
  present : Bool
  bytes : File
  deriving Repr, DecidableEq

def FS.absent : FS := ⟨false, []⟩

/-- error classes of the Go return values. -/
inductive Err where
  | ok
  | err          -- an `os`/`syscall` error (EINVAL from lseek, ENOENT from open, short read)
  | invalidIdx   -- ptttype.ErrInvalidIdx
  deriving DecidableEq, Repr

inductive Out where
  | unit (e : Err)                               -- SubstituteRecord / DeleteRecord / ModifyDirLite
  | idx (e : Err) (i : Nat)                      -- AppendRecord: (SortIdx, err)
  | count (n : Nat)                              -- GetNumRecords
  | recs (e : Err) (rs : List (Nat × List Nat))  -- GetRecords: (Aid, FileHeaderRaw image) per summary
  | panic
  deriving DecidableEq, Repr

/-! ### cmsys.GetNumRecords -/

/-- `os.Stat` fails on an absent file → 0; otherwise `int(size / int64(theSize))` (panics on stride 0). -/
def getNumRecords (s : FS) (sz : Nat) : Out :=
  if !s.present then .count 0
  else if sz = 0 then .panic
  else .count (s.bytes.length / sz)

/-! ### cmsys.AppendRecord -/

/-- the file part of AppendRecord on an opened (hence existing) file. -/
def appendBytes (f : File) (sz : Nat) (img : List Nat) : File × Nat :=
  let n := f.length / sz                 -- idxInStore := fsize / theSize
  (writeAt f (n * sz) img, n + 1)        -- Seek(idxInStore*theSize); Write; idxInStore.ToSortIdx()

def appendRecord (s : FS) (sz : Nat) (img : List Nat) : FS × Out :=
  -- OpenFile(O_WRONLY|O_CREATE) creates the file; flock; Seek(0, SeekEnd)
  if sz = 0 then (⟨true, s.bytes⟩, .panic)      -- fsize / int64(0)
  else
    let r := appendBytes s.bytes sz img
    (⟨true, r.1⟩, .idx .ok r.2)

/-! ### cmsys.SubstituteRecord / DeleteRecord -/

/-- write `bs` at `int64(i) * int64(sz)`; a negative offset makes `Seek` fail after the file was created. -/
def writeRecordAt (s : FS) (sz : Nat) (i : Int) (bs : List Nat) : FS × Out :=
  let off : Int := i * (sz : Int)
  if off < 0 then (⟨true, s.bytes⟩, .unit .err)
  else (⟨true, writeAt s.bytes off.toNat bs⟩, .unit .ok)

def substituteRecord (s : FS) (sz : Nat) (i : Int) (img : List Nat) : FS × Out :=
  writeRecordAt s sz i img

def safeDelMark : List Nat := Gen.RecFile.fnSafeDel

def deleteRecord (s : FS) (sz : Nat) (i : Int) : FS × Out :=
  writeRecordAt s sz i safeDelMark

/-! ### cmsys.GetRecords (stride FILE_HEADER_RAW_SZ) -/

def dirSz : Nat := Gen.RecFile.FILE_HEADER_RAW_SZ

/-- the loop of GetRecords; `fuel` is the remaining `n - i`, `idx` the 1-based cursor. -/
def getLoop (f : File) (maxIdx : Nat) (desc : Bool) : Nat → Nat → List (Nat × List Nat)
  | 0, _ => []
  | fuel + 1, idx =>
    if idx = 0 ∨ idx > maxIdx then []
    else
      let r := record f dirSz (idx - 1)          -- Seek(SZ * idxInFile); BinaryRead
      if r.length < dirSz then []                -- read error: `return summaries, nil`
      else (idx, r) :: getLoop f maxIdx desc fuel (if desc then idx - 1 else idx + 1)

def getRecords (s : FS) (start n : Int) (desc : Bool) : Out :=
  if start < 1 then .recs .invalidIdx []         -- !startIdx.IsValid()
  else if !s.present then .recs .ok []           -- os.IsNotExist → nil, nil
  else if n < 0 then .panic                      -- make([]*T, 0, n)
  else .recs .ok (getLoop s.bytes (s.bytes.length / dirSz) desc n.toNat start.toNat)

/-! ### types.Cstrcmp(a, b) == 0 -/

/-- mirrors the loop of `types.Cstrcmp` and reports whether it returns 0. -/
def cstrcmpEq : List Nat → List Nat → Bool
  | [], [] => true                     -- len1 = len2
  | [], y :: _ => y == 0               -- len1 < len2: return -int(cstr2[len1])
  | x :: _, [] => x == 0               -- x = 0: both ended; else idx >= len2: return int(each)
  | x :: xs, y :: ys =>
    if x == 0 then y == 0              -- end of cstr1: equal iff cstr2 ends here too
    else if x != y then false
    else cstrcmpEq xs ys

/-! ### ptt.ModifyDirLite -/

structure ModArgs where
  name : List Nat                 -- *Filename_t (never nil)
  mtime : Int                     -- types.Time4 (int32)
  title : Option (List Nat)       -- *Title_t or nil
  owner : Option (List Nat)       -- *Owner_t or nil
  date : Option (List Nat)        -- *Date_t or nil
  recommend : Int                 -- int8
  multi : Option (List Nat)       -- []byte or nil, any length
  enable : Nat                    -- FileMode (uint8)
  disable : Nat
  deriving Repr, DecidableEq

def field (r : List Nat) (off len : Nat) : List Nat := (r.drop off).take len

/-- assignment to a fixed-size array field; Go's array types fix `bs.length = len`
(`copyInto` is the identity there, see `copyInto_of_length`). -/
def setField (r : List Nat) (off len : Nat) (bs : List Nat) : List Nat :=
  r.take off ++ copyInto len bs ++ r.drop (off + len)

/-- `copy(dst[:], src)`: the first `min len |src|` bytes. -/
def copyField (r : List Nat) (off len : Nat) (src : List Nat) : List Nat :=
  let k := min len src.length
  r.take off ++ src.take k ++ r.drop (off + k)

/-- `p != nil && p[0] != 0` on a non-empty array. -/
def nonEmptyC : List Nat → Bool
  | c :: _ => c != 0
  | [] => false

def le32 (n : Nat) : List Nat := [n % 256, n / 256 % 256, n / 65536 % 256, n / 16777216 % 256]

/-- the int8 a byte denotes. -/
def toInt8 (b : Nat) : Int := if b < 128 then (b : Int) else (b : Int) - 256
/-- the byte an integer denotes after wrapping to 8 bits. -/
def int8Byte (i : Int) : Nat := (i % 256).toNat
/-- Go int8 addition. -/
def addInt8 (a b : Int) : Int := toInt8 (int8Byte (a + b))

def maxRec : Int := (Gen.RecFile.MAX_RECOMMENDS : Int)

/-- `recommend += fhdr.Recommend` (wraps in int8), then the clamp to ±MAX_RECOMMENDS. -/
def recommendUpdate (cur : Nat) (delta : Int) : Nat :=
  if delta = 0 then cur
  else
    let r := addInt8 delta (toInt8 cur)
    let r := if r > maxRec then maxRec else if r < -maxRec then -maxRec else r
    int8Byte r

open Gen.RecFile in
/-- the field updates of ModifyDirLite on the 128-byte image that was read. -/
def modifyRecord (r : List Nat) (a : ModArgs) : List Nat :=
  let r := if a.mtime > 0 then setField r offModified lenModified (le32 a.mtime.toNat) else r
  let fm := r.getD offFilemode 0
  let fm := if a.enable % 256 ≠ 0 then fm ||| (a.enable % 256) else fm
  let fm := if a.disable % 256 ≠ 0 then fm &&& (255 - a.disable % 256) else fm
  let r := setField r offFilemode lenFilemode [fm]
  let r := match a.title with
    | some t => if nonEmptyC t then setField r offTitle lenTitle t else r
    | none => r
  let r := match a.owner with
    | some t => if nonEmptyC t then setField r offOwner lenOwner t else r
    | none => r
  let r := match a.date with
    | some t => if nonEmptyC t then setField r offDate lenDate t else r
    | none => r
  let r := match a.multi with
    | some m => copyField r offMulti lenMulti m
    | none => r
  setField r offRecommend lenRecommend [recommendUpdate (r.getD offRecommend 0) a.recommend]

def modifyDirLite (s : FS) (idx : Int) (a : ModArgs) : FS × Out :=
  let fsize : Int := if s.present then (s.bytes.length : Int) else -1      -- types.DashS
  if fsize < (dirSz : Int) * idx then (s, .unit .invalidIdx)
  else if !s.present then (s, .unit .err)                                  -- OpenFile(O_RDWR)
  else if (idx - 1) * (dirSz : Int) < 0 then (s, .unit .err)               -- Seek(negative)
  else
    let off := ((idx - 1) * (dirSz : Int)).toNat
    let r := (s.bytes.drop off).take dirSz
    if r.length < dirSz then (s, .unit .err)                               -- BinaryRead: short read
    else if !cstrcmpEq (field r Gen.RecFile.offFilename Gen.RecFile.lenFilename) a.name then
      (s, .unit .invalidIdx)
    else (⟨true, writeAt s.bytes off (modifyRecord r a)⟩, .unit .ok)

/-! ### ptt.addBoardRecord — the only caller of SubstituteRecord (.BRD) -/

def brdSz : Nat := Gen.RecFile.BOARD_HEADER_RAW_SZ
def maxBoard : Nat := Gen.RecFile.MAX_BOARD

/-- `cache.GetBid("")` on a board cache that agrees with `.BRD`: the record of a deleted board (empty
brdname).  With several vacated slots the cache's bisection picks one of them; the model takes the first
(the harness keeps at most one vacated slot, see the assumptions). -/
def vacatedSlot (f : File) : Option Nat :=
  (List.range (f.length / brdSz)).find? (fun k => (record f brdSz k).head? == some 0)

/-- the index addBoardRecord hands to SubstituteRecord for board id `bid = k+1`: regenerated from the
source (`int32(bid.ToBidInStore())` is the 0-based record index `k`; anything else is read as the bare id). -/
def addBoardIndex (k : Nat) : Int :=
  if Gen.RecFile.addBoardIndexIsStoreIndex then (k : Int) else (k : Int) + 1

/-- addBoardRecord: reuse the vacated slot through SubstituteRecord, else append (unless the table is full).
Returns the new board id. -/
def addBoardRecord (s : FS) (img : List Nat) : FS × Out :=
  match vacatedSlot s.bytes with
  | some k =>
    if k + 1 ≤ maxBoard then                                   -- bid.IsValid()
      let r := substituteRecord s brdSz (addBoardIndex k) img
      (r.1, match r.2 with | .unit .ok => .idx .ok (k + 1) | _ => .idx .err 0)
    else if s.bytes.length / brdSz ≥ maxBoard then (s, .idx .err 0)
    else appendRecord s brdSz img
  | none =>
    if s.bytes.length / brdSz ≥ maxBoard then (s, .idx .err 0)   -- ErrTooManyBoards
    else appendRecord s brdSz img                                -- AddbrdTouchCache: bid = BNumber + 1

/-! ### the .DIR.bottom count: cache.reloadCacheLoadBottom, cache.SetBottomTotal, ptt.LoadBottomArticles -/

/-- the board-cache view of one board's pinned articles. -/
structure Bottom where
  file : FS          -- boards/X/<board>/.DIR.bottom
  nBottom : Nat      -- Shm.NBottom[bid]
  cold : Bool        -- Shm.Total[bid] == 0: no read of the board since the last ReloadBCache
  deriving Repr, DecidableEq

/-- `cmsys.GetNumRecords(bottom, FILE_HEADER_RAW_SZ)`. -/
def bottomCount (f : FS) : Nat := if f.present then f.bytes.length / dirSz else 0

/-- `n > limit` or `n >= limit`, as written in the source (regenerated). -/
def overLimit (strict : Bool) (limit n : Nat) : Bool := if strict then n > limit else n ≥ limit

/-- ReloadBCache → reloadCacheLoadBottom: the cached count is clamped, the file is not touched;
every per-board total is zeroed (the board is cold). -/
def reloadBottom (f : FS) : Bottom :=
  let n := bottomCount f
  ⟨f, if overLimit Gen.RecFile.reloadBottomStrict Gen.RecFile.reloadBottomLimit n then Gen.RecFile.reloadBottomLimit else n, true⟩

/-- cache.SetBottomTotal with its guard as parameters: `n := uint8(GetNumRecords)`; over the limit the file
is unlinked and the cached count set to 0. -/
def setBottomTotalG (strict : Bool) (limit : Nat) (f : FS) : FS × Nat :=
  let n := bottomCount f % 256
  if overLimit strict limit n then (FS.absent, 0) else (f, n)

/-- cache.SetBottomTotal as the source has it (guard regenerated). -/
def setBottomTotal (f : FS) : FS × Nat :=
  setBottomTotalG Gen.RecFile.setBottomStrict Gen.RecFile.setBottomLimit f

/-- cache.GetBTotalWithRetry (reached from LoadGeneralArticles, recommend, edit, find-index) on a board
whose .DIR is not empty: the first call after a reload runs SetBottomTotal, later ones do nothing. -/
def coldRead (b : Bottom) : Bottom :=
  if b.cold then
    let r := setBottomTotal b.file
    ⟨r.1, r.2, false⟩
  else b

/-- ptt.LoadBottomArticles: `GetRecords(bottom, 1, NBottom, asc)` unless the cached count is 0. -/
def loadBottom (b : Bottom) : Out :=
  if b.nBottom = 0 then .recs .ok [] else getRecords b.file 1 (b.nBottom : Int) false

/-! ### the request layer: an article NAME (or id) is looked up and the hit is confirmed before the record
is modified (ptt.Recommend, EditPost, CrossPost through cmsys.GetRecord) or delete-marked (bbs.DeleteArticles).

The search itself (cmsys.FindRecordStartIdx: bisection by create-time, then a linear pass that falls back
to the NEAREST entry when the name is absent) is property C06; its model is reused here as it is and the
theorems of C05 do not depend on what it returns: the confirmation of the hit is what protects the neighbour. -/

def recName (r : List Nat) : List Nat := field r Gen.RecFile.offFilename Gen.RecFile.lenFilename

/-- `Filename_t.Eq`: `Cstrcmp(f[2:], f2[2:]) == 0` (the type prefix is not compared). -/
def fnEq (a b : List Nat) : Bool := cstrcmpEq (a.drop 2) (b.drop 2)

/-- what the search family reads of each record. -/
def entriesOf (f : File) : C06.Index := (recs f dirSz).map (fun r => C06.absEntry (recName r))

inductive Look where
  | hit (i : Nat) (r : List Nat)     -- 1-based index and the record image read
  | miss                             -- any error return
  | fault                            -- the search panicked / did not terminate
  deriving Repr, DecidableEq

/-- cmsys.GetRecord as ptt.Recommend / ptt.getFileHeader call it (`total` = the cached article count, which
agrees with the file after a reload); `confirm` = the hit is compared with the requested name. -/
def getRecordG (confirm : Bool) (s : FS) (name : List Nat) : Look :=
  let cnt := if s.present then s.bytes.length / dirSz else 0          -- cache.GetBTotalWithRetry
  if cnt = 0 then .miss                                               -- ErrInvalidParams / ErrInvalidFilename
  else match C13.fnCreateTime name with
    | none => .miss                                                   -- filename.CreateTime()
    | some ct =>
      match C06.findRecordStartIdx (entriesOf s.bytes) (cnt : Int) ct (some (cstr (name.drop 2))) true with
      | .error (.fault _) => .fault
      | .error _ => .miss
      | .ok i =>
        if 1 ≤ i ∧ i ≤ (cnt : Int) then                              -- Seek + BinaryRead of record i
          let r := record s.bytes dirSz (i.toNat - 1)
          if confirm then (if fnEq name (recName r) then .hit i.toNat r else .miss)   -- ErrRecordNotFound
          else .hit i.toNat r
        else .miss

def getRecordReq (s : FS) (name : List Nat) : Look := getRecordG Gen.RecFile.getRecordConfirmsName s name

/-- ptt.Recommend from the lookup on (permission checks passed; `mtime` = the article file's mtime after the
comment line was appended, an input from the clock): the record found is rewritten by ModifyDirLite. -/
def recommendReq (s : FS) (name : List Nat) (ctype : Nat) (mtime : Int) : FS × Out :=
  match getRecordReq s name with
  | .fault => (s, .panic)
  | .miss => (s, .unit .err)
  | .hit i r =>
    let fm := r.getD Gen.RecFile.offFilemode 0
    if (recName r).head? = some 76 ∨ (fm &&& Gen.RecFile.FILE_MARKED ≠ 0 ∧ fm &&& Gen.RecFile.FILE_SOLVED ≠ 0) then
      (s, .unit .err)                                                 -- 'L' / marked+solved: ErrNotPermitted
    else if C13.isDeleted (recName r) then
      (s, .unit .err)   -- doAddRecommend opens the article file under the record's (marked) name: not on disk
    else
      let cur := toInt8 (r.getD Gen.RecFile.offRecommend 0)
      let upd : Int := if ctype = 1 ∧ cur < maxRec then 1 else if ctype = 2 ∧ cur > -maxRec then -1 else 0
      if mtime > 0 then modifyDirLite s (i : Int) ⟨recName r, mtime, none, none, none, upd, none, 0, 0⟩
      else (s, .unit .ok)

/-- how bbs.DeleteArticles confirms the record it is about to delete-mark (regenerated). -/
inductive DelConfirm where
  | articleID      -- `articleID == articleSummary.ArticleID`
  | createTime     -- create-time of the record = create-time of the request
  deriving DecidableEq, Repr

def delConfirm : DelConfirm :=
  if Gen.RecFile.deleteConfirmsCreateTimeOnly then .createTime else .articleID

/-- bbs.DeleteArticles for one article id: ToFilename, FindArticleStartIdx (ascending), the one-record
window at the index found, the confirmation, ptt.DeleteArticles → DeleteRecord(index-1).
Answer: `.idx .ok n` with n = number of ids reported as deleted. -/
def deleteReqG (c : DelConfirm) (s : FS) (aid : List Nat) : FS × Out :=
  match C13.articleIDToRaw aid with
  | .error _ => (s, .panic)
  | .ok fname =>
    match C13.fnCreateTime fname with
    | none => (s, .idx .err 0)
    | some ct =>
      let cnt := if s.present then s.bytes.length / dirSz else 0
      if cnt = 0 then (s, .idx .err 0)                                -- ErrNoRecord
      else match C06.findRecordStartIdx (entriesOf s.bytes) (cnt : Int) ct (some (cstr (fname.drop 2))) false with
        | .error (.fault _) => (s, .panic)
        | .error _ => (s, .idx .err 0)
        | .ok start =>
          let st : Int := if start = 0 then (cnt : Int) else start    -- LoadGeneralArticles: 0 means newest
          if 1 ≤ st ∧ st ≤ (cnt : Int) then
            let r := record s.bytes dirSz (st.toNat - 1)
            let same := match c with
              | .articleID => decide (aid = C13.toArticleID (recName r))
              | .createTime => decide (C13.fnCreateTime (recName r) = some ct)
            if same then
              let d := deleteRecord s dirSz (start - 1)               -- the index FindArticleStartIdx returned
              (d.1, match d.2 with | .unit .ok => .idx .ok 1 | _ => .idx .err 0)
            else (s, .idx .ok 0)
          else (s, .idx .ok 0)

def deleteReq (s : FS) (aid : List Nat) : FS × Out := deleteReqG delConfirm s aid

/-! ### cmbbs: the accessors of the fixed-size .PASSWDS records (substitute-at-index for the user file)

PasswdUpdate / PasswdUpdatePasswd / PasswdUpdateEmail write a whole record or one field of the record of
user `uid` (1-based) in place; PasswdQuery / PasswdQueryPasswd / PasswdQueryUserLevel read them.  Each
starts with `if !uid.IsValid()` (regenerated: the guard and the bounds of `UID.IsValid`); the file is opened
without O_CREATE and its length is NOT checked, so the uid guard is all that keeps a write inside the file. -/

def pwSz : Nat := Gen.RecFile.USEREC_RAW_SZ
def maxUsers : Nat := Gen.RecFile.MAX_USERS

/-- `uid.IsValid()`: `u >= uidLo && u <= uidHi`. -/
def uidValid (uid : Int) : Bool := decide ((Gen.RecFile.uidLo : Int) ≤ uid ∧ uid ≤ (Gen.RecFile.uidHi : Int))

/-- the writers, with the acceptance test as a parameter: `bs` goes to `USEREC_RAW_SZ*(uid-1) + off`. -/
def passwdUpdateG (accept : Int → Bool) (s : FS) (uid : Int) (off : Nat) (bs : List Nat) : FS × Out :=
  if !accept uid then (s, .unit .invalidIdx)             -- cache.ErrInvalidUID
  else if !s.present then (s, .unit .err)                 -- OpenFile(O_WRONLY): no such file
  else
    let o : Int := (pwSz : Int) * (uid - 1) + (off : Int)
    if o < 0 then (s, .unit .err)                         -- Seek
    else (⟨true, writeAt s.bytes o.toNat bs⟩, .unit .ok)

def passwdUpdate (s : FS) (uid : Int) (off : Nat) (bs : List Nat) : FS × Out :=
  passwdUpdateG uidValid s uid off bs

/-- the readers: `len` bytes at the same offset; a short read is an error. -/
def passwdQuery (s : FS) (uid : Int) (off len : Nat) : Out :=
  if !uidValid uid then .recs .invalidIdx []              -- ptttype.ErrInvalidUserID
  else if !s.present then .recs .err []
  else
    let o : Int := (pwSz : Int) * (uid - 1) + (off : Int)
    if o < 0 then .recs .err []
    else
      let r := (s.bytes.drop o.toNat).take len
      if r.length < len then .recs .err [] else .recs .ok [(uid.toNat, r)]

/-- cache.SetUMoney / DeUMoney → passwdUpdateMoney: the 4-byte Money field of user `uid`, in place
(same guard `1 <= uid <= MAX_USERS`). -/
def moneyUpdate (s : FS) (uid : Int) (money : Int) : FS × Out :=
  passwdUpdate s uid Gen.RecFile.pwOffMoney (le32 (money % 4294967296).toNat)

/-- a batch of money updates in some order (the order the concurrent callers happened to be served in). -/
def moneyBatch (s : FS) (us : List (Int × Int)) : FS := us.foldl (fun s u => (moneyUpdate s u.1 u.2).1) s

/-- ptt.pwcuStart … pwcuEnd, the read-modify-write of a whole record on behalf of a session that holds the
pair (uid, user-id): the record is read, the pair is refused unless `same` holds between the user-id held
and the record's user-id, the modification `f` is applied and the record is written back with its Money
field taken from the shared-memory cache (`shmMoney`, an input). -/
def pwcuModifyG (same : List Nat → List Nat → Bool) (s : FS) (uid : Int) (held : List Nat) (shmMoney : Int)
    (f : List Nat → List Nat) : FS × Out :=
  match passwdQuery s uid 0 Gen.RecFile.packedUserecRaw with
  | .recs .ok [(_, r)] =>
    if same held (field r Gen.RecFile.pwOffUserID Gen.RecFile.pwLenUserID) then
      passwdUpdate s uid 0 (setField (f r) Gen.RecFile.pwOffMoney Gen.RecFile.pwLenMoney (le32 (shmMoney % 4294967296).toNat))
    else (s, .unit .invalidIdx)                           -- ErrInvalidUserID
  | .recs .invalidIdx _ => (s, .unit .invalidIdx)
  | _ => (s, .unit .err)

/-- the comparison as the source has it (regenerated): `types.Cstrcmp(...) != 0` refuses. -/
def pwcuSame (a b : List Nat) : Bool :=
  if Gen.RecFile.pwcuStartComparesExact then cstrcmpEq a b
  else cstrcmpEq (a.map fun c => if 65 ≤ c ∧ c ≤ 90 then c + 32 else c) (b.map fun c => if 65 ≤ c ∧ c ≤ 90 then c + 32 else c)

/-- pwcuBitEnableLevel as it is today (`_ = pwcuEnableBit(…)`: the level is not changed; the write-back
only syncs Money). -/
def pwcuModify (s : FS) (uid : Int) (held : List Nat) (shmMoney : Int) : FS × Out :=
  pwcuModifyG pwcuSame s uid held shmMoney id

/-- history "a holder loads the record of `uid` (ptt.InitCurrentUserByUID); the Money field is modified in
place and acknowledged (cache.SetUMoney uid money); the holder stores its EARLIER copy with a new user level
(ptt.SetUserPerm → passwdSyncUpdate → cmbbs.PasswdUpdate)".  The store funnel re-syncs Money from the
shared-memory cache (regenerated flag) — that is what lets the acknowledged field modify survive. -/
def storeEarlierCopy (s : FS) (uid : Int) (money : Int) (perm : Nat) : FS :=
  match passwdQuery s uid 0 Gen.RecFile.packedUserecRaw with
  | .recs .ok [(_, r)] =>
    let s1 := (moneyUpdate s uid money).1
    let r1 := setField r Gen.RecFile.pwOffUserLevel Gen.RecFile.pwLenUserLevel (le32 perm)
    let r2 := if Gen.RecFile.storeFunnelResyncsMoney then
        setField r1 Gen.RecFile.pwOffMoney Gen.RecFile.pwLenMoney (le32 (money % 4294967296).toNat)
      else r1
    (passwdUpdate s1 uid 0 r2).1
  | _ => (moneyUpdate s uid money).1        -- the load failed: nothing is stored

/-! ### operations and histories -/

inductive Op where
  | append (sz : Nat) (img : List Nat)
  | subst (sz : Nat) (i : Int) (img : List Nat)
  | delete (sz : Nat) (i : Int)
  | modify (idx : Int) (a : ModArgs)
  | num (sz : Nat)
  | get (start n : Int) (desc : Bool)
  deriving Repr

def step (s : FS) : Op → FS × Out
  | .append sz img => appendRecord s sz img
  | .subst sz i img => substituteRecord s sz i img
  | .delete sz i => deleteRecord s sz i
  | .modify idx a => modifyDirLite s idx a
  | .num sz => (s, getNumRecords s sz)
  | .get st n d => (s, getRecords s st n d)

def run (s : FS) (ops : List Op) : FS := ops.foldl (fun s op => (step s op).1) s

end PttVerif.C05
