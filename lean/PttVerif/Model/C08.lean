/-
C08 — executable model of the write-authorisation code (core Lean only):

  ptt/board.go    : boardPermStat, boardPermStatNormally, isReadonlyBoard          (own copy of the read decision)
  ptt/cache.go    : IsBMCache, postpermMsg, bannedMsg, hasPostPerm
  ptt/acl.go      : isBannedByBoard / isBannedBy                                  (the ban file is its expiry time)
  ptt/cal.go      : getRestrictionReason        ptt/bbs.go : getBoardRestrictionReason, CheckPostRestriction
  ptt/bbs.go      : checkCooldown over cache.CooldownTimeOf / PosttimesOf          (cache/cache_user.go)
  ptt/article.go  : CheckPostPerm2 (= postpermMsg), isFileOwner
  ptt/bbs.go, ptt/recommend.go : NewPost/DoPostArticle, Recommend, EditPost, CrossPost — NOT written by hand:
      the body of each is the event list the translator read from the source (`Gen/WriteGuards.lean`),
      interpreted by `runEvents`.

Bits, reserved names, the flood-limit table, the masks of the cool-down word and the configuration switches
are the regenerated ones.  `uid` is a valid slot throughout (the harness never passes 0 or -1).
-/
import PttVerif.Common
import PttVerif.Model.C08Guard
import PttVerif.Gen.WriteGuards
namespace PttVerif.C08
open PttVerif

/-! ### regenerated constants at their Go widths -/

def PERM_BASIC : UInt32 := Gen.WriteGuards.PERM_BASIC.toUInt32
def PERM_POST : UInt32 := Gen.WriteGuards.PERM_POST.toUInt32
def PERM_LOGINOK : UInt32 := Gen.WriteGuards.PERM_LOGINOK.toUInt32
def PERM_BM : UInt32 := Gen.WriteGuards.PERM_BM.toUInt32
def PERM_SYSOP : UInt32 := Gen.WriteGuards.PERM_SYSOP.toUInt32
def PERM_VIOLATELAW : UInt32 := Gen.WriteGuards.PERM_VIOLATELAW.toUInt32
def PERM_POLICE_MAN : UInt32 := Gen.WriteGuards.PERM_POLICE_MAN.toUInt32
def PERM_POLICE : UInt32 := Gen.WriteGuards.PERM_POLICE.toUInt32
def BRD_HIDE : UInt32 := Gen.WriteGuards.BRD_HIDE.toUInt32
def BRD_POSTMASK : UInt32 := Gen.WriteGuards.BRD_POSTMASK.toUInt32
def BRD_RESTRICTEDPOST : UInt32 := Gen.WriteGuards.BRD_RESTRICTEDPOST.toUInt32
def BRD_GUESTPOST : UInt32 := Gen.WriteGuards.BRD_GUESTPOST.toUInt32
def BRD_COOLDOWN : UInt32 := Gen.WriteGuards.BRD_COOLDOWN.toUInt32
def BRD_OVER18 : UInt32 := Gen.WriteGuards.BRD_OVER18.toUInt32
def BRD_VOTEBOARD : UInt32 := Gen.WriteGuards.BRD_VOTEBOARD.toUInt32
def BRD_NORECOMMEND : UInt32 := Gen.WriteGuards.BRD_NORECOMMEND.toUInt32
def BRD_CPLOG : UInt32 := Gen.WriteGuards.BRD_CPLOG.toUInt32
def FILE_MARKED : UInt32 := Gen.WriteGuards.FILE_MARKED.toUInt32
def FILE_SOLVED : UInt32 := Gen.WriteGuards.FILE_SOLVED.toUInt32
def FILE_VOTE : UInt32 := Gen.WriteGuards.FILE_VOTE.toUInt32

/-- `PERM.HasUserPerm`, `BrdAttr.HasPerm`, `FileMode.HasMode`: `p & m != 0`. -/
def has (l m : UInt32) : Bool := l &&& m != 0

/-! ### names -/

/-- `types.CcharTolower` -/
def lowerByte (c : Nat) : Nat := if 65 ≤ c ∧ c ≤ 90 then c + 32 else c

/-- `types.Cstrcmp(a, b) == 0` -/
def cstrEq (a b : List Nat) : Bool := cstr a == cstr b

/-- `types.Cstrcasecmp(a, b) == 0` -/
def cstrCaseEq (a b : List Nat) : Bool := (cstr a).map lowerByte == (cstr b).map lowerByte

/-- ptt.isReadonlyBoard -/
def isReadonlyBoard (name : List Nat) : Bool :=
  cstrCaseEq name Gen.WriteGuards.bnSecurity || cstrCaseEq name Gen.WriteGuards.bnAllpost

/-! ### reading (ptt/board.go) -/

/-- ptt.IsBMCache for a valid uid. (When it answers true and the user has PERM_BM it also rewrites the user's
`.PASSWDS` record with unchanged contents: `pwcuBitEnableLevel` discards the result of `pwcuEnableBit`.) -/
def isBMCache (u : User) (b : Board) : Bool :=
  if !has u.level PERM_BASIC then false
  else if !(has u.level PERM_BASIC && has u.level PERM_LOGINOK) then false
  else b.inBM

/-- NBRD_INVALID = 0, NBRD_FAV = 1, NBRD_BOARD = 2 -/
def boardPermStatNormally (u : User) (b : Board) : Nat :=
  if has b.level PERM_BM && (has u.level PERM_POLICE || has u.level PERM_POLICE_MAN) then 1
  else if isBMCache u b then 1
  else if b.attr &&& BRD_HIDE != 0 then
    (if !b.friend then (if b.attr &&& BRD_POSTMASK != 0 then 0 else 2) else 1)
  else if b.attr &&& BRD_OVER18 != 0 && !u.over18 then 0
  else if b.level != 0 && (b.attr &&& BRD_POSTMASK) == 0 && !has u.level b.level then 0
  else 1

def boardPermStat (u : User) (b : Board) : Nat :=
  if has u.level PERM_SYSOP then 1 else boardPermStatNormally u b

/-! ### the friend list of a board (cache/cache_board.go: HbflReload, IsHiddenBoardFriend)

The shared-memory row `SHM.Hbfl[bid]` is a list of `MAX_FRIEND+1` numbers: the load time, then the friends' uids up
to the first 0.  The list file `boards/<b>/<board>/visable` is the uid each of its lines resolves to, in order
(0: a line that is skipped — `guest`, an unknown id, an empty first field); `none`: the file cannot be opened. -/

def MAX_FRIEND : Nat := Gen.WriteGuards.MAX_FRIEND
def HBFLexpire : Nat := Gen.WriteGuards.HBFLexpire

/-- the uids HbflReload stores: the first MAX_FRIEND lines that resolve to a user. -/
def hbflFill (entries : List Nat) : List Nat := (entries.filter (· ≠ 0)).take MAX_FRIEND

/-- cache.HbflReload.  Two facts the translator read in the source: `replaces` — the new list is built in a zeroed
local array and copied over the whole row (otherwise the row is filled in place and keeps its tail);
`missingKeeps` — the function returns right after a failed open of the list file, leaving friends and load time as
they were (the code before fix 1b78546; now a missing file is an empty list). -/
def hbflReload (replaces missingKeeps : Bool) (row : List Nat) (file : Option (List Nat)) (now : Nat) : List Nat :=
  match file, missingKeeps with
  | none, true => row
  | _, _ =>
      let fs := hbflFill (file.getD [])
      if replaces then now :: (fs ++ List.replicate (MAX_FRIEND - fs.length) 0)
      else now :: (fs ++ row.drop (1 + fs.length))

/-- the scan of IsHiddenBoardFriend: up to the first 0. -/
def hbflScan (uid : Nat) : List Nat → Bool
  | [] => false
  | f :: r => if f = 0 then false else if f = uid then true else hbflScan uid r

/-- cache.IsHiddenBoardFriend for valid bid / uid: reload when the load time is older than HBFLexpire, then scan
entries 1..MAX_FRIEND.  Returns the answer and the row afterwards. -/
def isHiddenBoardFriend (replaces missingKeeps : Bool) (row : List Nat) (file : Option (List Nat)) (uid now : Nat) :
    Bool × List Nat :=
  let row' := if ((row.headD 0 : Nat) : Int) < (now : Int) - (HBFLexpire : Int) then hbflReload replaces missingKeeps row file now else row
  (hbflScan uid ((row'.drop 1).take MAX_FRIEND), row')

/-- the row of a board nobody has looked at since `now` (the harness fixture): loaded now, no friends. -/
def hbflFresh (now : Nat) : List Nat := now :: List.replicate MAX_FRIEND 0

/-! ### posting (ptt/cache.go, ptt/acl.go) -/

/-- the ban record `home/<u>/<id>/banned/b_<board>` as isBannedBy meets it. -/
inductive BanRec where
  /-- no file -/
  | absent
  /-- exists, cannot be read: bakumanGetInfo fails (first line EOF, a directory, I/O error) -/
  | unreadable
  /-- readable, with this expiry (an unparsable number reads as 0) -/
  | expiry (e : Int)
  deriving DecidableEq, Repr, Inhabited

def Board.banRec (b : Board) : BanRec :=
  if b.banBroken then .unreadable else match b.ban with
    | none => .absent
    | some e => .expiry e

/-- ptt.isBannedBy: the expiry it returns and what is left of the record.  `cleanupOnReadError`: what the
translator read in the source — the record is removed `if err != nil || now > expireTS` instead of
`if err == nil && now > expireTS` (false on the unchanged tree). -/
def isBannedByRec (cleanupOnReadError : Bool) (r : BanRec) (now : Nat) : Int × BanRec :=
  match r with
  | .absent => (0, .absent)
  | .unreadable => if cleanupOnReadError then (0, .absent) else (0, .unreadable)
  | .expiry e => if (now : Int) > e then (0, .absent) else (e, .expiry e)

/-- ptt.isBannedBy, the value: the expiry read from the ban file; an expired file is removed and reads as 0; no
file or an unreadable one reads as 0. -/
def isBannedBy (b : Board) (now : Nat) : Int := (isBannedByRec false b.banRec now).1

/-- ptt.bannedMsg under USE_NEW_BAN_SYSTEM: `expireTS > nowTS`. -/
def bannedMsg (b : Board) (now : Nat) : Bool := isBannedBy b now > (now : Int)

inductive PostErr where
  | readOnly | banned | permitNoPost | restricted | violateLaw | notPermitted
  deriving DecidableEq, Repr, Inhabited

def PostErr.name : PostErr → String
  | .readOnly => "ErrReadOnly"
  | .banned => "ErrBanned"
  | .permitNoPost => "ErrPermitNoPost"
  | .restricted => "ErrRestricted"
  | .violateLaw => "ErrViolateLaw"
  | .notPermitted => "ErrNotPermitted"

/-- ptt.postpermMsg (`none` = nil). -/
def postpermMsg (u : User) (b : Board) (now : Nat) : Option PostErr :=
  if isReadonlyBoard b.name then some .readOnly
  else if has u.level PERM_SYSOP then none
  else if bannedMsg b now then some .banned
  else if cstrEq b.name Gen.WriteGuards.defaultBoard then none
  else if has b.attr BRD_GUESTPOST then none
  else if !has u.level PERM_POST then some .permitNoPost
  else if has b.attr BRD_HIDE then none
  else if has b.attr BRD_RESTRICTEDPOST && !b.friend then some .restricted
  else if has u.level PERM_VIOLATELAW then
    (if has b.level PERM_VIOLATELAW then none else some .violateLaw)
  else
    let requiredLevel := b.level &&& ~~~PERM_POST
    if requiredLevel == 0 then none
    else if !has u.level requiredLevel then some .notPermitted
    else none

/-- ptt.hasPostPerm -/
def hasPostPerm (u : User) (b : Board) (now : Nat) : Bool := (postpermMsg u b now).isNone

/-! ### limits (ptt/cal.go, ptt/bbs.go) -/

/-- ptt.getRestrictionReason: RESTRICT_REASON_NONE = 0, NUMLOGIN_DAYS = 3, BADPOST = 4; Go widths. -/
def getRestrictionReason (numLoginDays : UInt32) (badPost postLimitLogins postLimitBadpost : UInt8) : Nat :=
  if numLoginDays / 10 < postLimitLogins.toUInt32 then 3
  else if badPost > 255 - postLimitBadpost then 4
  else 0

/-- ptt.getBoardRestrictionReason -/
def getBoardRestrictionReason (u : User) (b : Board) : Nat :=
  if has u.level PERM_SYSOP then 0
  else if isBMCache u b then 0
  else getRestrictionReason u.loginDays u.badPost b.limitLogins b.limitBadpost

/-- ptt.CheckPostRestriction -/
def checkPostRestriction (u : User) (b : Board) : Bool := getBoardRestrictionReason u b == 0

/-! ### cool-down (cache/cache_user.go, ptt/bbs.go) -/

/-- cache.CooldownTimeOf: `word & 0x7FFFFFF0` -/
def cooldownTimeOf (w : UInt32) : UInt32 := w &&& Gen.WriteGuards.cooldownTimeMask.toUInt32
/-- cache.PosttimesOf: `word & 0xF` -/
def posttimesOf (w : UInt32) : UInt32 := w &&& Gen.WriteGuards.posttimesMask.toUInt32

/-- the loop over `limit`: `int(board.NUser) > limit[i] && int(posttimes) >= limit[i+1]` for i = 0, 2, 4, … -/
def limitHit (nuser : Int) (pt : Int) : List Int → Bool
  | a :: c :: rest => (nuser > a && pt ≥ c) || limitHit nuser pt rest
  | _ => false

/-- ptt.checkCooldown: the answer and the cool-down word afterwards (an expired word loses its counter). -/
def checkCooldownW (u : User) (b : Board) (w : UInt32) (now : Nat) : Bool × UInt32 :=
  let cooldownTime := cooldownTimeOf w
  if cooldownTime.toNat < now then (false, cooldownTime &&& Gen.WriteGuards.checkCooldownMask.toUInt32)
  else if has u.level PERM_SYSOP then (false, w)
  else if b.attr &&& BRD_COOLDOWN != 0 then (true, w)
  else
    let posttimes := posttimesOf w
    if posttimes == 0xf then (true, w)
    else if Gen.WriteGuards.REJECT_FLOOD_POST && limitHit b.nuser (posttimes.toNat : Int) Gen.WriteGuards.cooldownLimit then (true, w)
    else (false, w)

def checkCooldown (u : User) (b : Board) (w : UInt32) (now : Nat) : Bool := (checkCooldownW u b w now).1

/-- cache.AddCooldownTime(uid, minutes) -/
def addCooldownTime (w : UInt32) (now : Nat) (minutes : Nat) : UInt32 :=
  let cd := cooldownTimeOf w
  let base := if now < cd.toNat then cd.toNat else now
  (base + minutes * 60).toUInt32 &&& Gen.WriteGuards.cooldownTimeMask.toUInt32

/-- cache.AddPosttimes(uid, 1) -/
def addPosttimes (w : UInt32) : UInt32 :=
  if (posttimesOf w).toNat + 1 < 15 then w + 1 else w ||| 0xf

/-- the tail of an accepted DoPostArticle / CrossPost under USE_COOLDOWN. -/
def afterPost (b : Board) (w : UInt32) (now : Nat) : UInt32 :=
  let w1 := if b.nuser > 30 && (cooldownTimeOf w).toNat < now then addCooldownTime w now 5 else w
  addPosttimes w1

/-! ### ownership (ptt/article.go) -/

/-- ptt.isFileOwner: owner field, length of the name, creation time IN THE NAME against the account's FirstLogin.
It does not look at `Modified` (which every comment and edit moves). -/
def isFileOwner (a : Article) (u : User) : Bool :=
  if !cstrEq a.entOwner u.id then false
  else if (cstr a.entName).length ≤ 3 then false
  else nameTime a.entName ≥ u.firstLogin

/-- what an accepted comment (doAddRecommend) or edit (EditPost) does to the index entry as far as later decisions can
see it: `ModifyDirLite(…, mtime, …)` stores the article file's mtime in `Modified` when it is positive; name, owner
and mode stay. -/
def touch (a : Article) (mtime : Int) : Article :=
  { a with entModified := if mtime > 0 then mtime else a.entModified }

/-- the rule a regression would follow if the author test took the entry's time stamp from `Modified` (falling back
to the name when it is 0) — used only to state the witness of the broken rule. -/
def isFileOwnerByModified (a : Article) (u : User) : Bool :=
  if !cstrEq a.entOwner u.id then false
  else if (cstr a.entName).length ≤ 3 then false
  else (if a.entModified = 0 then nameTime a.entName else a.entModified) ≥ u.firstLogin

/-! ### the four entry points: interpretation of the regenerated event lists -/

def Row.board (x : Row) : Brd → Board
  | .src => x.src
  | .tgt => x.tgt

def firstIs (name : List Nat) (c : Nat) : Bool := (cstr name ++ [0]).head? == some c

def evalAtom (x : Row) : Atom → Bool
  | .userPerm m => has x.u.level m.toUInt32
  | .brdAttr b m => has (x.board b).attr m.toUInt32
  | .readonlyName b => isReadonlyBoard (x.board b).name
  | .readInvalid b => boardPermStat x.u (x.board b) == 0
  | .postPermErr b => (postpermMsg x.u (x.board b) x.now).isSome
  | .hasPostPerm b => hasPostPerm x.u (x.board b) x.now
  | .restrictionOk b => checkPostRestriction x.u (x.board b)
  | .reasonNotNone b => getBoardRestrictionReason x.u (x.board b) != 0
  | .cooldown b => checkCooldown x.u (x.board b) x.cd x.now
  | .callFailed .index _ => !x.art.found
  | .callFailed .stat _ => !x.art.fileExists
  | .callFailed .other _ => false
  | .totalZero => x.art.total0
  | .fileMode m => has x.art.entMode.toUInt32 m.toUInt32
  | .fhdrNameFirst c => firstIs x.art.entName c
  | .fhdrOwnerFirst c => firstIs x.art.entOwner c
  | .argNameFirst c => firstIs x.art.argName c
  | .fileOwner => isFileOwner x.art x.u
  | .cfg _ v => v
  | .opaque _ => false

def evalCond (x : Row) : Cond → Bool
  | .tt => true
  | .atom a => evalAtom x a
  | .not c => !evalCond x c
  | .and a b => evalCond x a && evalCond x b
  | .or a b => evalCond x a || evalCond x b

/-- the board whose posting decision a condition consults first (for a passed-on error). -/
def Cond.postPermBoard : Cond → Option Brd
  | .atom (.postPermErr b) => some b
  | .atom _ => none
  | .tt => none
  | .not c => c.postPermBoard
  | .and a b => (a.postPermBoard).orElse fun _ => b.postPermBoard
  | .or a b => (a.postPermBoard).orElse fun _ => b.postPermBoard

/-- the error identifiers the harness tells apart; everything else prints as `lookup`. -/
def permErrors : List String :=
  ["ErrNotPermitted", "ErrReadOnly", "ErrBanned", "ErrPermitNoPost", "ErrRestricted", "ErrViolateLaw",
   "ErrCooldown", "ErrNotLoginOk", "ErrVoteBoard", "ErrDeleted", "ErrInvalidParams"]

/-- the error a firing guard returns: the identifier in the source, or the error of the call passed on. -/
def guardErr (x : Row) (c : Cond) (e : String) : String :=
  let n :=
    if e.startsWith "=" then
      match c.postPermBoard with
      | some b => (match postpermMsg x.u (x.board b) x.now with
                   | some pe => pe.name
                   | none => "lookup")
      | none => "lookup"
    else e
  if permErrors.contains n then n else "lookup"

structure Outcome where
  /-- `none`: the operation ran to its end -/
  err : Option String
  /-- a persistent effect was executed -/
  touched : Bool
  deriving DecidableEq, Repr, Inhabited

/-- walk the body: the first guard whose condition holds returns; persistent effects on the way are noted. -/
def runEvents (x : Row) : List Event → Bool → Outcome
  | [], t => ⟨none, t⟩
  | .guard c e :: rest, t => if evalCond x c then ⟨some (guardErr x c e), t⟩ else runEvents x rest t
  | .effect _ p c :: rest, t => runEvents x rest (t || (p && evalCond x c))

def Op.events : Op → List Event
  | .newpost => Gen.WriteGuards.newpost
  | .recommend => Gen.WriteGuards.recommend
  | .editpost => Gen.WriteGuards.editpost
  | .crosspost => Gen.WriteGuards.crosspost

def run (op : Op) (x : Row) : Outcome := runEvents x op.events false

def accepted (op : Op) (x : Row) : Prop := (run op x).err = none

instance (op : Op) (x : Row) : Decidable (accepted op x) := by unfold accepted; exact inferInstance

/-- the board whose cool-down decision the operation consults (the word it may reset). -/
def Op.cdBoard : Op → Brd
  | .crosspost => .tgt
  | _ => .src

/-! ### source shape facts used by the theorems -/

/-- a condition that is false on every row of the model: a failing I/O call other than the index / file
lookups, an expression the translator does not know, and conjunctions with such a part. -/
def Cond.quiet : Cond → Bool
  | .atom (.callFailed .other _) => true
  | .atom (.opaque _) => true
  | .atom _ => false
  | .tt => false
  | .not _ => false
  | .and a b => a.quiet || b.quiet
  | .or a b => a.quiet && b.quiet

def Event.isQuiet : Event → Bool
  | .guard c _ => c.quiet
  | .effect _ _ _ => true

/-- no refusal that the model can take after the first persistent effect. -/
def guardsFirst : List Event → Bool
  | [] => true
  | .effect _ true _ :: rest => rest.all Event.isQuiet
  | _ :: rest => guardsFirst rest

/-! ### the witnesses of the three recorded gaps (replayed on the implementation on every run) -/

def idVerif : List Nat := [118, 101, 114, 105, 102, 117]          -- "verifu"
def nameSrc : List Nat := [118, 115, 114, 99]                      -- "vsrc"
def nameTgt : List Nat := [118, 116, 103, 116]                     -- "vtgt"
def artName : List Nat := [77, 46, 49, 53, 48, 48, 48, 48, 48, 48, 48, 48, 46, 65, 46, 49, 50, 51]  -- "M.1500000000.A.123"

def plainBoard (name : List Nat) : Board :=
  { name := name, attr := 0, level := 0, limitLogins := 0, limitBadpost := 0, nuser := 0,
    friend := false, inBM := false, ban := none, banBroken := false }

def ownArticle : Article :=
  { total0 := false, found := true, argName := artName, entName := artName, entOwner := idVerif, entMode := 0, entModified := 0,
    fileExists := true }

def fixedNow : Nat := 1600000000

/-- basic + post, NOT verified; expired cool-down word -/
def witnessUnverified : Row :=
  { u := { id := idVerif, level := 0o11, loginDays := 100, badPost := 0, over18 := true, firstLogin := 1000000000 },
    src := plainBoard nameSrc, tgt := plainBoard nameTgt, art := ownArticle, cd := 0, now := fixedNow }

/-- basic + post + verified; cool-down running for another 600 s with the post counter at 15 -/
def witnessCoolingDown : Row :=
  { witnessUnverified with
    u := { witnessUnverified.u with level := 0o31 },
    cd := ((fixedNow + 600).toUInt32 &&& 0x7FFFFFF0) ||| 0xf }

end PttVerif.C08
