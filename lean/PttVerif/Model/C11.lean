import PttVerif.Model.C18
/-
C11 — model of the board lookup and board listings.
  cache/cache_board.go   GetBid, getBidByNameCore, getBidByClassCore, FindBoardIdxByName, FindBoardIdxByClass,
                         cmpBoardByClass, FindBoardAutoCompleteStartIdx, findBoardClosetKeyword
  cache/shm_board_by.go  the two `Less` functions (only as the *sortedness predicates* of Proofs/C11.lean: `sort.Sort`
                         itself is trusted, the model takes the real BSorted arrays as input)
  ptt/board_list.go      LoadGeneralBoards, LoadAutoCompleteBoards, loadGeneralBoardStat, loadAutoCompleteBoardStat
  bbs/load_general_boards.go, bbs/load_auto_complete_boards.go, bbs/board_summary.go (the cursor strings)
  ptttype/types.go       BoardTitle_t.BoardClass, Bid.IsValid
  types/cstr.go          Cstrcmp / Cstrcasecmp / CstrCaseHasPrefix — imported from Model/C18.lean

A board is (Brdname [13]byte, Title [48]byte, "is a group/symbolic board").  The sorted view
`BCache[BSorted[k][i]]`, i < BNumber, is a `List Entry` (bid-in-store, board).  Positions, `start`, `end` are `Nat`
(they are never negative in the code; `MAX_BOARD` is far below 2^31 so int32 never wraps); results that can be
`-1` are `Int`.  The comparators are `M Int` because `Cstrcmp` indexes its arguments (that it never faults is
C18's theorem, used in Proofs/C11.lean).
-/
namespace PttVerif.C11
open PttVerif PttVerif.C18

structure Board where
  name : List Nat    -- Brdname (BoardID_t, IDLEN+1 bytes)
  title : List Nat   -- Title (BoardTitle_t, BTLEN+1 bytes)
  grp : Bool         -- BrdAttr & (BRD_GROUPBOARD|BRD_SYMBOLIC) != 0
  deriving Repr, DecidableEq, Inhabited

structure Entry where
  bid : Nat          -- BSorted[k][i]: BidInStore, 0-based
  b : Board
  deriving Repr, DecidableEq, Inhabited

/-- `BoardTitle_t.BoardClass()`: `t[:5]`, or `t[:4]` when `t[4] == ' '` (a fixed 49-byte array: the slices cannot
fault). -/
def boardClass (t : List Nat) : List Nat := if t.getD 4 0 = 32 then t.take 4 else t.take 5

/-- `Title[:4]`: what `shmBoardByClass.Less` compares. -/
def class4 (t : List Nat) : List Nat := t.take 4

/-- `types.Cstrcasecmp(boardID[:], boardIDInCache[:])`. -/
def cmpName (q : List Nat) (e : Entry) : M Int := cstrcasecmp q e.b.name

/-- `cmpBoardByClass(cls, boardID, clsInCache, boardIDInCache)` with `clsInCache = Title.BoardClass()`. -/
def cmpClass (cls q : List Nat) (e : Entry) : M Int := do
  let j ← cstrcmp cls (boardClass e.b.title)
  if j ≠ 0 then pure j else cstrcasecmp q e.b.name

/-- the three outcomes of getBidByNameCore / getBidByClassCore. -/
inductive Found where
  | empty                       -- `(-1, 0, nil)`: no boards
  | hit (i : Nat) (bid : Nat)   -- `(i, bid+1, nil)`
  | miss (i : Nat)              -- `(i, 0, ErrNotFound)`: the landing position
  deriving Repr, DecidableEq

/-- the `for ; ; idx_i32 = (start + end) / 2` loop; one unit of fuel per iteration. -/
def bisectLoop (cmp : Entry → M Int) (es : List Entry) : Nat → Nat → Nat → Nat → M Found
  | 0, _, _, _ => .error .diverge
  | fuel + 1, s, e, i => do
    let ent ← idx es i
    let j ← cmp ent
    if j = 0 then pure (.hit i ent.bid)
    else if e = s then pure (.miss i)
    else if i = s then
      if j < 0 then pure (.miss i)          -- fix 8b5eb5b: the key sorts before the first entry: stay there
      else bisectLoop cmp es fuel e e ((e + e) / 2)   -- idx = end; start = end; then the post statement
    else if j > 0 then bisectLoop cmp es fuel i e ((i + e) / 2)
    else bisectLoop cmp es fuel s i ((s + i) / 2)

def bisectFuel (n : Nat) : Nat := n + 1

/-- getBidByNameCore / getBidByClassCore (same loop, different comparator). -/
def bisect (cmp : Entry → M Int) (es : List Entry) : M Found :=
  if es.length = 0 then pure .empty
  else bisectLoop cmp es (bisectFuel es.length) 0 (es.length - 1) ((0 + (es.length - 1)) / 2)

/-- `GetBid`. -/
def getBid (es : List Entry) (q : List Nat) : M Nat := do
  match ← bisect (cmpName q) es with
  | .hit _ b => pure (b + 1)
  | _ => pure 0

/-- `bidInCache.ToBid().IsValid()`. -/
def validBid (maxBoard : Nat) (e : Entry) : Bool := decide (e.bid + 1 ≤ maxBoard)

/-- the ascending fix-up loop over `BSorted[p..n)`; the result is `idxInStore` (`-1`: none). -/
def ascScan (maxBoard : Nat) (cmp : Entry → M Int) : List Entry → Nat → M Int
  | [], _ => pure (-1)                       -- idxInStore == nBoard
  | e :: rest, i =>
    if ¬ validBid maxBoard e then pure (-1)
    else do
      let j ← cmp e
      if j ≤ 0 then pure (Int.ofNat i) else ascScan maxBoard cmp rest (i + 1)

/-- the descending fix-up loop over `BSorted[p], BSorted[p-1], …, BSorted[0]` (the list is that sequence). -/
def descScan (maxBoard : Nat) (cmp : Entry → M Int) : List Entry → Nat → M Int
  | [], _ => pure (-1)                       -- idxInStore fell to -1
  | e :: rest, i =>
    if ¬ validBid maxBoard e then pure (-1)
    else do
      let j ← cmp e
      if j ≥ 0 then pure (Int.ofNat i) else descScan maxBoard cmp rest (i - 1)

/-- `BSorted[p], BSorted[p-1], …, BSorted[0]`. -/
def downFrom (es : List Entry) (p : Nat) : List Entry := (es.take (p + 1)).reverse

/-- FindBoardIdxByName / FindBoardIdxByClass: a 1-based `SortIdx`, or `-1`. -/
def findIdx (maxBoard : Nat) (cmp : Entry → M Int) (es : List Entry) (isAsc : Bool) : M Int := do
  match ← bisect cmp es with
  | .empty => pure (-1)
  | .hit i b => if b + 1 ≤ maxBoard then pure (Int.ofNat i + 1) else pure (-1)
  | .miss p =>
    let r ← if isAsc then ascScan maxBoard cmp (es.drop p) p else descScan maxBoard cmp (downFrom es p) p
    if r = -1 then pure (-1) else pure (r + 1)

/-- `findBoardClosetKeyword`: the keyword copied into a zeroed `BoardID_t`; descending: the successor of its
lower-cased last byte, `CcharTolower(b) + 1` in uint8 (fix b555081). -/
def closestKeyword (nameLen : Nat) (kw : List Nat) (isAsc : Bool) : M (List Nat) :=
  let b := copyInto nameLen kw
  if isAsc then pure b
  else if kw.length = 0 then .error .panic          -- boardID[-1] (not reachable since b555081)
  else do
    let x ← idx b (kw.length - 1)
    pure (b.set (kw.length - 1) ((ccharTolower x + 1) % 256))

/-- the ascending probe loop (`MAX_ITER_FIND_AUTO_COMPLETE` = the fuel). -/
def probeAsc (maxBoard : Nat) (kw : List Nat) : Nat → List Entry → Nat → M Int
  | 0, _, _ => pure (-1)                    -- i == MAX_ITER_FIND_AUTO_COMPLETE
  | _ + 1, [], _ => pure (-1)               -- idxInStore == nBoard
  | f + 1, e :: rest, i =>
    if ¬ validBid maxBoard e then pure (-1)
    else do
      let p ← slice e.b.name 0 kw.length    -- boardIDInCache[:len(keyword)]
      let j ← cstrcasecmp kw p
      if j = 0 then pure (Int.ofNat i)
      else if j < 0 then pure (-1)
      else probeAsc maxBoard kw f rest (i + 1)

def probeDesc (maxBoard : Nat) (kw : List Nat) : Nat → List Entry → Nat → M Int
  | 0, _, _ => pure (-1)
  | _ + 1, [], _ => pure (-1)               -- idxInStore fell to -1
  | f + 1, e :: rest, i =>
    if ¬ validBid maxBoard e then pure (-1)
    else do
      let p ← slice e.b.name 0 kw.length
      let j ← cstrcasecmp kw p
      if j = 0 then pure (Int.ofNat i)
      else if j > 0 then pure (-1)
      else probeDesc maxBoard kw f rest (i - 1)

def maxIterAutoComplete : Nat := 3

/-- `FindBoardAutoCompleteStartIdx`.  `BoardID_t` is `[IDLEN+1]byte`, so `len(keyword) > IDLEN` is
`kw.length + 1 > nameLen`. -/
def autoStart (maxBoard nameLen : Nat) (es : List Entry) (kw : List Nat) (isAsc : Bool) : M Int := do
  if kw.length + 1 > nameLen then pure (-1)          -- no board name is that long
  else if kw.length = 0 then                         -- every board carries the empty prefix
    if es.length = 0 then pure (-1) else if isAsc then pure 1 else pure (Int.ofNat es.length)
  else do
    let q ← closestKeyword nameLen kw isAsc
    let r ← findIdx maxBoard (cmpName q) es (!isAsc)
    let sidx : Int := if r = -1 then (if isAsc then 1 else Int.ofNat es.length) else r
    let s : Int := sidx - 1
    let x ←
      if isAsc then probeAsc maxBoard kw maxIterAutoComplete (es.drop s.toNat) s.toNat
      else if s < 0 then pure (-1)
      else probeDesc maxBoard kw maxIterAutoComplete (downFrom es s.toNat) s.toNat
    if x = -1 then pure (-1) else pure (x + 1)

/-! ### loading the table: cache.ReloadBCache and the busy flag -/

/-- the part of the shared segment the loader touches: `BBusyState`, the loaded records, whether `BSorted` was
rebuilt from them. -/
structure LoadState where
  busy : Bool
  boards : List Board
  sorted : Bool
  deriving Repr, DecidableEq

/-- cache.ReloadBCache with nobody else attached (a restarted daemon): the wait loop (10 × 1 s while the flag is
set) changes nothing; then — whether or not the flag is still set: it can only be the leftover of a loader that died
holding it — `reloadBCacheCore` takes the flag, loads `.BRD` and releases it, and `SortBCache` (which skips when the
flag is set) finds it clear and rebuilds both orders.  A `.BRD` with more than MAX_BOARD records is cut to the first MAX_BOARD. -/
def reloadBCache (maxBoard : Nat) (s : LoadState) (file : List Board) : LoadState :=
  -- flag := 1; copy at most sizeof(BCache) bytes, BNumber := min(len, sizeof(BCache)) / record size; deferred flag := 0
  let core : LoadState := { busy := false, boards := file.take maxBoard, sorted := false }
  if core.busy then core else { core with sorted := true }                     -- SortBCache

/-! ### listings -/

/-- what loadGeneralBoardStat keeps for a caller who may see every board (SYSOP) and no title/keyword filter:
not vacated, not a group/symbolic board. -/
def listable (e : Entry) : Bool := e.b.name.getD 0 0 != 0 && !e.b.grp

/-- loadAutoCompleteBoardStat's `isEnd`. -/
def notPrefixed (kw : List Nat) (e : Entry) : Bool := !cstrCaseHasPrefix e.b.name kw

/-- the collecting loop of LoadGeneralBoards / LoadAutoCompleteBoards over the sequence of sorted positions it
visits: stop at the end of the sequence or when `cap = nBoards+1` stats are collected, `break` on `stop`, skip the
boards that give no stat. -/
def gather (stop ok : Entry → Bool) : List Entry → Nat → List Entry
  | [], _ => []
  | _ :: _, 0 => []
  | e :: rest, cap + 1 =>
    if stop e then [] else if ok e then e :: gather stop ok rest cap else gather stop ok rest (cap + 1)

structure Page where
  items : List Entry
  next : Option Entry
  deriving Repr

/-- the common frame of ptt.LoadGeneralBoards / LoadAutoCompleteBoards / LoadGeneralBoardDetails from a 1-based
`startIdx`: `collect` is the function's own loop over the sequence of sorted positions it visits. -/
def pttLoadG (collect : List Entry → Nat → List Entry) (es : List Entry) (startIdx : Int) (nBoards : Int)
    (isAsc : Bool) : M Page := do
  let startIdx := if startIdx = 0 ∧ ¬ isAsc then Int.ofNat es.length else startIdx
  let s : Int := startIdx - 1
  let cap : Int := nBoards + 1
  if cap < 0 then .error .panic              -- make([]*BoardStat, 0, nBoardsWithNext): cap out of range
  else do
    let seq ←
      if isAsc then
        (if s < 0 then (if cap = 0 then pure [] else .error .panic)   -- BSorted[k][-1] (not reachable from bbs)
         else pure (es.drop s.toNat))
      else (if s < 0 then pure [] else pure (downFrom es s.toNat))
    let got := collect seq cap.toNat
    if Int.ofNat got.length = cap then
      if nBoards < 0 then .error .panic      -- summaries[-1]
      else pure ⟨got.take nBoards.toNat, got[nBoards.toNat]?⟩
    else pure ⟨got, none⟩

/-- ptt.LoadGeneralBoards / ptt.LoadAutoCompleteBoards. -/
def pttLoad (es : List Entry) (stop : Entry → Bool) (startIdx : Int) (nBoards : Int) (isAsc : Bool) : M Page :=
  pttLoadG (gather stop listable) es startIdx nBoards isAsc

/-- what ptt.LoadGeneralBoardDetails keeps (since fix 6f287ee): a valid bid and a non-vacated slot — no group or
permission filter. -/
def detailOK (maxBoard : Nat) (e : Entry) : Bool := validBid maxBoard e && e.b.name.getD 0 0 != 0

/-- ptt.LoadGeneralBoardDetails (since 6f287ee the loops run while `len(details) < nBoards + 1`: skipped entries no
longer count against the page — the same collecting loop as the other listings, without a `break`). -/
def pttLoadDetails (maxBoard : Nat) (es : List Entry) (startIdx : Int) (nBoards : Int) (isAsc : Bool) : M Page :=
  pttLoadG (gather (fun _ => false) (detailOK maxBoard)) es startIdx nBoards isAsc

inductive Err where
  | fault (f : Fault)
  | invalidParams
  | invalidBid
  deriving Repr, DecidableEq

abbrev R := Except Err

def liftM {α} : M α → R α
  | .ok a => .ok a
  | .error f => .error (.fault f)

inductive SortBy where
  | name | cls
  deriving Repr, DecidableEq

/-- a listing cursor as the bbs layer hands it out: `IdxByName` = the board name, `IdxByClass` =
base64(class) "@" name.  `none` is the empty string. -/
structure Cursor where
  cls : List Nat
  name : List Nat
  deriving Repr, DecidableEq

structure Tbl where
  maxBoard : Nat
  nameLen : Nat
  byName : List Entry
  byClass : List Entry

def Tbl.view (t : Tbl) : SortBy → List Entry
  | .name => t.byName
  | .cls => t.byClass

/-- loadGeneralBoardsToStartIdx. -/
def startOfCursor (t : Tbl) (by_ : SortBy) (c : Option Cursor) (isAsc : Bool) : R Int :=
  match c with
  | none => pure (if isAsc then 1 else 0)
  | some c =>
    match by_ with
    | .name => liftM (findIdx t.maxBoard (cmpName (copyInto t.nameLen c.name)) t.byName isAsc)
    | .cls =>
      -- DeserializeBoardIdxByClassStr: strings.Split(idxStr, "@") must give exactly two parts
      if c.name.contains 64 then .error .invalidParams
      else liftM (findIdx t.maxBoard (cmpClass c.cls (copyInto t.nameLen c.name)) t.byClass isAsc)

/-- the cursor of the look-ahead board: `NewBoardSummaryFromRaw` (`Brdname`, `CstrToBytes(Title[:4])`). -/
def cursorOf (e : Entry) : Cursor := ⟨cstr (class4 e.b.title), cstr e.b.name⟩

/-- the `nextIdxStr` of a page: empty (= no next page) when there is no look-ahead board. -/
def nextCursor (by_ : SortBy) (p : Page) : Option Cursor :=
  match p.next with
  | none => none
  | some e =>
    match by_ with
    | .name => if cstr e.b.name = [] then none else some (cursorOf e)
    | .cls => some (cursorOf e)

/-- bbs.LoadGeneralBoards (title and keyword filters empty, caller SYSOP). -/
def loadGeneral (t : Tbl) (by_ : SortBy) (c : Option Cursor) (nBoards : Int) (isAsc : Bool) : R Page := do
  let startIdx ← startOfCursor t by_ c isAsc
  if startIdx < 0 then pure ⟨[], none⟩
  else liftM (pttLoad (t.view by_) (fun _ => false) startIdx nBoards isAsc)

/-- bbs.LoadAutoCompleteBoards. -/
def loadAuto (t : Tbl) (c : Option Cursor) (nBoards : Int) (kw : List Nat) (isAsc : Bool) : R Page := do
  let startIdx ←
    match c with
    | some _ => startOfCursor t .name c isAsc
    | none => liftM (autoStart t.maxBoard t.nameLen t.byName kw isAsc)
  if startIdx < 0 then pure ⟨[], none⟩
  else liftM (pttLoad t.byName (notPrefixed kw) startIdx nBoards isAsc)

/-- a client paging through a listing: load, follow `nextIdxStr` until it is empty.  One unit of fuel per page. -/
def walkFrom (load : Option Cursor → R Page) (by_ : SortBy) : Nat → Option Cursor → R (List (List Entry))
  | 0, _ => .error (.fault .diverge)
  | f + 1, c => do
    let p ← load c
    match nextCursor by_ p with
    | none => pure [p.items]
    | some c' => do
      let rest ← walkFrom load by_ f (some c')
      pure (p.items :: rest)

def walkFuel (n : Nat) : Nat := n + 2

def walkGeneral (t : Tbl) (by_ : SortBy) (nBoards : Int) (isAsc : Bool) : R (List (List Entry)) :=
  walkFrom (fun c => loadGeneral t by_ c nBoards isAsc) by_ (walkFuel (t.view by_).length) none

/-- bbs.LoadGeneralBoardDetails: the same cursor handling (`NewBoardDetailFromRaw` serialises `IdxByName` /
`IdxByClass` exactly like `NewBoardSummaryFromRaw`), every slot of the view listed. -/
def loadDetails (t : Tbl) (by_ : SortBy) (c : Option Cursor) (nBoards : Int) (isAsc : Bool) : R Page := do
  let startIdx ← startOfCursor t by_ c isAsc
  if startIdx < 0 then pure ⟨[], none⟩
  else liftM (pttLoadDetails t.maxBoard (t.view by_) startIdx nBoards isAsc)

def walkDetails (t : Tbl) (by_ : SortBy) (nBoards : Int) (isAsc : Bool) : R (List (List Entry)) :=
  walkFrom (fun c => loadDetails t by_ c nBoards isAsc) by_ (walkFuel (t.view by_).length) none

/-! ### the class listings: slot order, paged by bid -/

/-- what loadClassBoardStat keeps for SYSOP: a non-vacated slot that is a group/symbolic board ("a class"). -/
def isClass (e : Entry) : Bool := e.b.name.getD 0 0 != 0 && e.b.grp

/-- bbs.LoadFullClassBoards / ptt.LoadFullClassBoards: `slots` is the board table in SLOT order (`slots[i].bid = i`);
the loop runs `for bid := startBid; ; bid++` until `bid - 1 >= BNumber` or `nBoards + 1` classes are collected — the
frame of the other listings, ascending over the slots. -/
def loadFullClass (maxBoard : Nat) (slots : List Entry) (startBid : Int) (nBoards : Int) : R Page :=
  if ¬ (1 ≤ startBid ∧ startBid ≤ Int.ofNat maxBoard) then .error .invalidBid     -- !startBid.IsValid()
  else liftM (pttLoadG (gather (fun _ => false) isClass) slots startBid nBoards true)

/-- the client loop over `next_bid` (0 = no next page). -/
def walkBid (load : Int → R Page) : Nat → Int → R (List (List Entry))
  | 0, _ => .error (.fault .diverge)
  | f + 1, b => do
    let p ← load b
    match p.next with
    | none => pure [p.items]
    | some e => do
      let rest ← walkBid load f (Int.ofNat e.bid + 1)
      pure (p.items :: rest)

def walkFullClass (maxBoard : Nat) (slots : List Entry) (nBoards : Int) : R (List (List Entry)) :=
  walkBid (fun b => loadFullClass maxBoard slots b nBoards) (walkFuel slots.length) 1

/-- what bbs.LoadClassBoards reads and writes in shared memory besides the table: per slot `(Gid, ChildCount)` and
whether `FirstChild[byName]` / `FirstChild[byClass]` is set (cache.SortBCache zeroes both on every (re)load). -/
structure ClsState where
  links : List (Nat × Nat)
  first : List (Bool × Bool)
  deriving Repr

def ClsState.fresh (links : List (Nat × Nat)) : ClsState := ⟨links, links.map fun _ => (false, false)⟩

/-- the chain cache.ResolveBoardGroup links for a class: the non-vacated boards whose `Gid` is the class, in the order
of `BSorted[by']` (sub-classes and ordinary boards alike).  Not mirrored: a board that is its own `Gid`. -/
def childrenOf (t : Tbl) (links : List (Nat × Nat)) (classBid : Int) (by' : SortBy) : List Entry :=
  (t.view by').filter fun e =>
    decide (Int.ofNat (links.getD e.bid (0, 0)).1 = classBid) && e.b.name.getD 0 0 != 0

def ClsState.firstSet (st : ClsState) (i : Nat) : SortBy → Bool
  | .name => (st.first.getD i (false, false)).1
  | .cls => (st.first.getD i (false, false)).2

def ClsState.childCount (st : ClsState) (i : Nat) : Nat := (st.links.getD i (0, 0)).2

def ClsState.setChildCount (st : ClsState) (i : Nat) (c : Nat) : ClsState :=
  ⟨st.links.set i ((st.links.getD i (0, 0)).1, c), st.first⟩

def ClsState.markFirst (st : ClsState) (i : Nat) : SortBy → ClsState
  | .name => ⟨st.links, st.first.set i (true, (st.first.getD i (false, false)).2)⟩
  | .cls => ⟨st.links, st.first.set i ((st.first.getD i (false, false)).1, true)⟩

/-- bbs.LoadClassBoards / ptt.LoadClassBoards (root class 1 is always listed by class).
  * `FirstChild[by'] == 0 || ChildCount == 0` ⇒ cache.ResolveBoardGroup: links the chain, sets `FirstChild[by']` when
    there is a child and — since fix ebc3be0 — stores the number of children it linked in `ChildCount`;
  * the walk over the chain keeps the children that are classes themselves, at most `ChildCount + 5` of them;
  * "Ptt: dirty fix": more listed than `ChildCount` ⇒ `ChildCount := 0`.
On a table that does not change between the calls the chain in place is the chain a resolve would link.  Not
mirrored (unobservable, see `loadClassBoards_history`): LoadFullClassBoards resolves every class it scans too. -/
def loadClassBoards (t : Tbl) (st : ClsState) (classBid : Int) (by_ : SortBy) : R (List Entry × ClsState) :=
  if ¬ (1 ≤ classBid ∧ classBid ≤ Int.ofNat t.maxBoard) then .error .invalidBid
  else
    let by' := if classBid = 1 then SortBy.cls else by_
    let i := (classBid - 1).toNat
    let ch := childrenOf t st.links classBid by'
    let st1 :=
      if !st.firstSet i by' || st.childCount i == 0 then
        let s := st.setChildCount i ch.length
        if ch.isEmpty then s else s.markFirst i by'
      else st
    let listed := gather (fun _ => false) isClass ch (st1.childCount i + 5)
    let st2 := if st1.childCount i < listed.length then st1.setChildCount i 0 else st1
    pure (listed, st2)

def walkAuto (t : Tbl) (nBoards : Int) (kw : List Nat) (isAsc : Bool) : R (List (List Entry)) :=
  walkFrom (fun c => loadAuto t c nBoards kw isAsc) .name (walkFuel t.byName.length) none

end PttVerif.C11
