import PttVerif.Common
import PttVerif.Gen.NewBoard
import PttVerif.Model.C07
/-
C12 — model of board creation:
  ptt/board.go        : NewBoard, groupOp                      ptt/stuff.go : is_uBM (model shared with C07)
  ptt/admin.go        : mNewbrd, addBoardRecord
  ptt/board_list.go   : LoadBoardSummary (only its write: newBoardStat ORs BRD_POSTMASK into the shared copy)
  ptt/cache.go        : IsBMCache
  cache/cache_board.go: GetBid / getBidByNameCore, ResetBoard, buildBMCache, ParseBMList, SanitizeBMs,
                        AddbrdTouchCache, SortBCache
  cache/shm.go        : QsortCmpBoardName / QsortCmpBoardClass (sort.Sort: see `Sorter`)
  cache/cache_user.go : SearchUserRaw (read as a scan of the user table; the hash index is property C04)
  ptttype/types.go    : BoardID_t.IsValid, Bid.IsValid, NewBM
  types/cstr.go       : Cstrcmp, Cstrcasecmp, CstrToBytes;  cmsys/record.go : SubstituteRecord, AppendRecord
  cmbbs/path, types.Mkdir, os.Remove : a set of existing `boards/<c>` and `boards/<c>/<name>` directories

A board header (`Rec`) is the tuple of the fields the creation path sets, `FirstChild` (cleared in the shared
copy by SortBCache) and `other`: the 256-byte image with those fields blanked, i.e. every remaining byte.  Two
`Rec`s are equal iff the 256-byte images are.

State: `.BRD` (complete records + torn tail), `Shm.BCache`, `Shm.BNumber`, `Shm.BSorted[name|class]`,
`Shm.BMCache`, the user table, and the `boards/` tree.

`sort.Sort` is not modelled (pdqsort is not stable: which of several vacated slots comes first in the name
index is its business): the model is parametric in a `Sorter`; the theorems hold for every sorter whose output
is a sorted permutation (`SortSpec`), the driver instantiates it with a port of Go's pdqsort and checks
`SortSpec` on every output at run time.

Two facts of the source are data (Gen/NewBoard.lean) and select the behaviour here: the index expression read
inside `IsValid`'s loop, the 4th argument of `SubstituteRecord` in `addBoardRecord`, and whether `mNewbrd`
removes the directory when `addBoardRecord` fails.
-/
namespace PttVerif.C12
open PttVerif

abbrev Bytes := List Nat

def MAXB : Nat := Gen.NewBoard.maxBoard
def MAXU : Nat := Gen.NewBoard.maxUsers
def MAXBM : Nat := Gen.NewBoard.maxBMs

def zeros (n : Nat) : Bytes := List.replicate n 0

/-! ### ctype / cstr -/

def isAlpha (c : Nat) : Bool := (65 ≤ c && c ≤ 90) || (97 ≤ c && c ≤ 122)
def isDigit (c : Nat) : Bool := 48 ≤ c && c ≤ 57
def isAlnum (c : Nat) : Bool := isAlpha c || isDigit c

/-- `types.CcharTolower`. -/
def lower (c : Nat) : Nat := if 65 ≤ c ∧ c ≤ 90 then c + 32 else c

/-- `types.Cstrcmp`, as a recursion over the two byte slices (the Go loop walks `cstr1` and indexes `cstr2`). -/
def cstrcmp : Bytes → Bytes → Int
  | [], [] => 0
  | [], y :: _ => -(y : Int)
  | x :: _, [] => if x = 0 then 0 else (x : Int)
  | x :: xs, y :: ys =>
      if x = 0 then (if y = 0 then 0 else -(y : Int))
      else if x ≠ y then (x : Int) - (y : Int)
      else cstrcmp xs ys

/-- `types.Cstrcasecmp`. -/
def ccmp (a b : Bytes) : Int := cstrcmp (a.map lower) (b.map lower)

/-- the key a name is compared by: its C string, lower-cased. -/
def nameKey (n : Bytes) : Bytes := (cstr n).map lower

/-! ### BoardID_t.IsValid -/

def okChar (c : Nat) : Bool := isAlnum c || Gen.NewBoard.isValidExtraChars.contains c

/-- the loop `for idx := start; idx < lenB; idx++`: `n` iterations left, at index `i`; `ch0` is the byte read
before the loop.  Which byte an iteration tests is the index expression found in the source. -/
def validLoop (b : Bytes) (ch0 : Nat) : Nat → Nat → M Bool
  | 0, _ => pure true
  | n + 1, i => do
      let ch ← (if Gen.NewBoard.isValidIndex = "b[idx]" then idx b i
                else if Gen.NewBoard.isValidIndex = "b[0]" then pure ch0
                else .error .diverge)
      if !okChar ch then pure false else validLoop b ch0 n (i + 1)

/-- `(*BoardID_t).IsValid`. -/
def isValidName (b : Bytes) : M Bool := do
  let lenB := (cstr b).length
  if lenB < Gen.NewBoard.isValidLenLo ∨ lenB > Gen.NewBoard.isValidLenHi then pure false
  else
    let ch0 ← idx b 0
    if !isAlpha ch0 then pure false
    else validLoop b ch0 (lenB - Gen.NewBoard.isValidLoopStart) Gen.NewBoard.isValidLoopStart

/-- the declarative reading: 2..12 characters, first a letter, the rest letters, digits, `_`, `-`, `.`. -/
def validNameSpec (b : Bytes) : Bool :=
  match cstr b with
  | [] => false
  | c :: rest =>
      decide (2 ≤ rest.length + 1) && decide (rest.length + 1 ≤ 12) && isAlpha c &&
        rest.all fun x => isAlnum x || x = 95 || x = 45 || x = 46

/-- `(*UserID_t).IsValid` (only used to say which slots of the user table are in the hash index). -/
def validUserId (u : Bytes) : Bool :=
  match cstr u with
  | [] => false
  | c :: rest => decide (2 ≤ rest.length + 1) && decide (rest.length + 1 ≤ 12) && isAlpha c && rest.all isAlnum

/-! ### records and state -/

structure Rec where
  name : Bytes    -- Brdname [13]
  title : Bytes   -- Title [49]
  bm : Bytes      -- BM [39]
  attr : Nat      -- BrdAttr uint32
  chess : Nat     -- ChessCountry byte
  level : Nat     -- Level uint32
  gid : Nat       -- Gid (int32 image)
  fc : Bytes      -- FirstChild [2]int32 image, 8 bytes
  other : Bytes   -- the 256-byte image with the fields above blanked
  deriving DecidableEq, Repr, Inhabited

def Rec.zero : Rec := ⟨zeros 13, zeros 49, zeros 39, 0, 0, 0, 0, zeros 8, zeros 256⟩

def noBM : List Int := [-1, -1, -1, -1]

structure State where
  brd : List Rec          -- the complete records of .BRD
  tail : Bytes            -- a torn tail of .BRD (fewer than 256 bytes)
  cache : List Rec        -- Shm.BCache, MAX_BOARD entries
  bnumber : Nat           -- Shm.BNumber
  sortedN : List Nat      -- Shm.BSorted[BSORT_BY_NAME], MAX_BOARD entries (BidInStore)
  sortedC : List Nat      -- Shm.BSorted[BSORT_BY_CLASS]
  bmcache : List (List Int) -- Shm.BMCache, MAX_BOARD × MAX_BMs
  users : List Bytes      -- Shm.Userid by slot (uid = position + 1)
  letters : List Nat      -- the directories boards/<c> that exist
  dirs : List Bytes       -- the directories boards/<c>/<name> that exist (by C-string name; c = name[0])
  deriving Repr

/-- the answer of `ptt.NewBoard`. -/
inductive Res where
  | ok (bid : Nat)
  | invalidBid      -- ptttype.ErrInvalidBid
  | notPermitted    -- ptt.ErrNotPermitted
  | invalidName     -- ptttype.ErrInvalidBoardID
  | nameExists      -- ptttype.ErrBoardIDAlreadyExists
  | mkdirExist      -- os.Mkdir: EEXIST
  | mkdirNoent      -- os.Mkdir: ENOENT (boards/<c> is missing)
  | tooMany         -- ptt.ErrTooManyBoards
  | io              -- any other error (short read of .BRD in ResetBoard)
  deriving DecidableEq, Repr, Inhabited

structure Req where
  user : Bytes        -- user.UserID [13]
  ulevel : Nat        -- user.UserLevel
  uid : Int           -- uid
  cls : Int           -- clsBid
  name : Bytes        -- brdname [13]
  bclass : Bytes      -- brdClass []byte
  btitle : Bytes      -- brdTitle []byte
  bms : Option Bytes  -- BMs *BM_t ([39]) or nil
  attr : Nat
  level : Nat
  chess : Nat
  isGroup : Bool
  autoCpLog : Bool    -- the site configuration ptttype.DEFAULT_AUTOCPLOG (a package variable) while it is served
  deriving Repr, DecidableEq

/-! ### sort.Sort -/

/-- `srt key n`: what `sort.Sort` leaves in `BSorted[..][:n]` after it was filled with `0..n-1`, when
`Less(i, j)` is `key (BSorted[i]) < key (BSorted[j])` (lexicographic on bytes). -/
abbrev Sorter := (Nat → Bytes) → Nat → List Nat

/-- the contract of `sort.Sort` for a strict weak order: a permutation, no later element less than an earlier. -/
def SortSpec (srt : Sorter) : Prop :=
  ∀ (key : Nat → Bytes) (n : Nat),
    (srt key n).Perm (List.range n) ∧ (srt key n).Pairwise (fun a b => ¬ key b < key a)

def nameKeyAt (cache : List Rec) (k : Nat) : Bytes := nameKey (cache.getD k Rec.zero).name

/-- `shmBoardByClass.Less`: `Cstrcmp(Title[:4], Title[:4])`, then `Cstrcasecmp` of the names — as one
lexicographic key: class C string, a 0 separator, the name key. -/
def classKeyAt (cache : List Rec) (k : Nat) : Bytes :=
  let r := cache.getD k Rec.zero
  cstr (r.title.take 4) ++ [0] ++ nameKey r.name

/-! ### bits -/

def hasBit (a m : Nat) : Bool := a &&& m != 0
/-- Go `a &^= m` / `a &= ^m` on a uint32. -/
def clearBits (a m : Nat) : Nat := a &&& (4294967295 ^^^ m)

def BRD_GROUP : Nat := Gen.NewBoard.brdGroupBoard
def BRD_HIDE : Nat := Gen.NewBoard.brdHide
def BRD_POSTMASK : Nat := Gen.NewBoard.brdPostMask
def BRD_CPLOG : Nat := Gen.NewBoard.brdCpLog
def PERM_BASIC : Nat := Gen.NewBoard.permBasic
def PERM_LOGINOK : Nat := Gen.NewBoard.permLoginOK
def PERM_BM : Nat := Gen.NewBoard.permBM
def PERM_BOARD : Nat := Gen.NewBoard.permBoard
def PERM_SYSOP : Nat := Gen.NewBoard.permSysop
def PERM_POLICE : Nat := Gen.NewBoard.permPolice
def PERM_POLICE_MAN : Nat := Gen.NewBoard.permPoliceMan

/-! ### GetBid: bisection over the name index -/

/-- `Shm.BSorted[BY_NAME][p]` and the name of that board in `Shm.BCache`. -/
def look (s : State) (p : Nat) : M (Nat × Bytes) := do
  let b ← idx s.sortedN p
  let r ← idx s.cache b
  pure (b, r.name)

/-- the loop of `getBidByNameCore` (fuel, start, end, idx): the found `Bid`, or 0 for ErrNotFound. -/
def bisect (s : State) (key : Bytes) : Nat → Nat → Nat → Nat → M Nat
  | 0, _, _, _ => .error .diverge
  | fuel + 1, st, en, i => do
      let (b, nm) ← look s i
      let j := ccmp key nm
      if j = 0 then pure (b + 1)
      else if en = st then pure 0
      else if i = st then
        if j < 0 then pure 0
        else bisect s key fuel en en ((en + en) / 2)
      else if j > 0 then bisect s key fuel i en ((i + en) / 2)
      else bisect s key fuel st i ((st + i) / 2)

/-- `cache.GetBid`. -/
def getBid (s : State) (key : Bytes) : M Nat :=
  if s.bnumber = 0 then pure 0
  else bisect s key (s.bnumber + 2) 0 (s.bnumber - 1) ((s.bnumber - 1) / 2)

/-! ### moderators -/

/-- `bytes.Split(s, "/")`. -/
def splitSlash : Bytes → List Bytes
  | [] => [[]]
  | c :: cs =>
      match splitSlash cs with
      | [] => [[]]
      | seg :: rest => if c = 47 then [] :: seg :: rest else (c :: seg) :: rest

/-- `cache.SearchUserRaw(id, nil)` read as a scan: the uid of the first slot of the hash index (slots holding a
valid id) whose id equals `id` up to case, 0 if none. -/
def searchUser (users : List Bytes) (id : Bytes) : Nat :=
  if id.headD 0 = 0 then 0
  else match users.findIdx? (fun u => validUserId u && ccmp id u == 0) with
    | some p => p + 1
    | none => 0

/-- the loop of `ptttype.NewBM` (`i`: position of the id in the list; `acc`: the bytes written so far): an id
that does not fit together with its separator and the terminating NUL ends the loop. -/
def newBMLoop : List Bytes → Nat → Bytes → Bytes
  | [], _, acc => copyInto 39 acc
  | id :: rest, i, acc =>
      let u := cstr id
      let need := u.length + (if i > 0 then 1 else 0)
      if need ≥ 39 - acc.length then copyInto 39 acc
      else newBMLoop rest (i + 1) ((if i > 0 then acc ++ [47] else acc) ++ u)

def newBM (ids : List Bytes) : Bytes := newBMLoop ids 0 []

/-- the ids named in a BM string, each copied into a `UserID_t`. -/
def bmIds (bm : Bytes) : List Bytes := (splitSlash (cstr bm)).map (copyInto 13)

/-- `cache.SanitizeBMs`. -/
def sanitizeBMs (users : List Bytes) (bms : Option Bytes) : Bytes :=
  match bms with
  | none => zeros 39
  | some b => newBM ((bmIds b).filter fun id => searchUser users id != 0)

/-- the loop of `cache.ParseBMList`: only the first MAX_BMs resolvable ids are stored. -/
def parseLoop (users : List Bytes) : List Bytes → List Int → List Int
  | [], acc => acc ++ List.replicate (MAXBM - acc.length) (-1)
  | id :: rest, acc =>
      if acc.length ≥ MAXBM then acc
      else
        let uid := searchUser users id
        if 1 ≤ uid ∧ uid ≤ MAXU then parseLoop users rest (acc ++ [(uid : Int)])
        else parseLoop users rest acc

def parseBMList (users : List Bytes) (bm : Bytes) : List Int := parseLoop users (bmIds bm) []

/-! ### the shared copy -/

def validBid (b : Int) : Bool := 1 ≤ b && b ≤ (MAXB : Int)

/-- `cache.ResetBoard(bid)` + `buildBMCache`: the record is read from `.BRD`; a short read (or an invalid
`bid`) is an error (`false`) and leaves the shared copy alone. -/
def resetBoard (s : State) (bid : Nat) : State × Bool :=
  if !(1 ≤ bid ∧ bid ≤ MAXB) then (s, false)
  else
    match s.brd[bid - 1]? with
    | none => (s, false)
    | some r =>
        ({ s with cache := s.cache.set (bid - 1) r,
                  bmcache := s.bmcache.set (bid - 1) (parseBMList s.users r.bm) }, true)

def clearFC (n : Nat) (cache : List Rec) : List Rec :=
  cache.mapIdx fun i r => if i < n then { r with fc := zeros 8 } else r

/-- `cache.SortBCache`. -/
def sortBCache (srt : Sorter) (s : State) : State :=
  let n := s.bnumber
  { s with
    sortedN := srt (nameKeyAt s.cache) n ++ s.sortedN.drop n
    sortedC := srt (classKeyAt s.cache) n ++ s.sortedC.drop n
    cache := clearFC n s.cache }

/-! ### .BRD -/

/-- lseek(i*256) + write(256 bytes): inside the file the record is replaced; at the end (over a torn tail) it
is appended; beyond the end the gap is zero-filled (not reachable while BNumber ≤ number of records). -/
def writeRec (s : State) (i : Nat) (r : Rec) : State :=
  if i < s.brd.length then { s with brd := s.brd.set i r }
  else { s with brd := s.brd ++ List.replicate (i - s.brd.length) Rec.zero ++ [r], tail := [] }

/-- the index `addBoardRecord` hands to `SubstituteRecord` for the vacated slot `bid` (from the call site). -/
def substIndex (bid : Nat) : M Nat :=
  if Gen.NewBoard.substituteIndex = "zeroBased" then pure (bid - 1)
  else if Gen.NewBoard.substituteIndex = "oneBased" then pure bid
  else .error .diverge

/-- `ptt.addBoardRecord`. -/
def addBoardRecord (srt : Sorter) (s : State) (r : Rec) : State × M Res :=
  match getBid s (zeros 13) with
  | .error e => (s, .error e)
  | .ok bid =>
      if 1 ≤ bid ∧ bid ≤ MAXB then
        match substIndex bid with
        | .error e => (s, .error e)
        | .ok i =>
            let s1 := writeRec s i r
            let s2 := (resetBoard s1 bid).1             -- `_ = cache.ResetBoard(bid)`
            (sortBCache srt s2, .ok (.ok bid))
      else if s.bnumber ≥ MAXB then (s, .ok .tooMany)
      else
        let s1 := { s with brd := s.brd ++ [r], tail := [] }   -- AppendRecord: at floor(size/256)
        let s2 := { s1 with bnumber := s1.bnumber + 1 }        -- AddbrdTouchCache
        let (s3, ok) := resetBoard s2 s2.bnumber
        if !ok then (s3, .ok .io)
        else (sortBCache srt s3, .ok (.ok s2.bnumber))

/-! ### the request -/

/-- `ptt.is_uBM`: the model of property C07 (`Model/C07.lean`: `bytes.Index` / `Cstrstr`, only the FIRST occurrence
of the id in the moderator string counts, the bytes around it must not be alphanumeric) is reused, so that its
theorems (`is_uBM_sound`, …) speak about the permission test of `NewBoard`. -/
def isUBM (user bm : Bytes) : Bool := C07.isUBM user bm

/-- the title `mNewbrd` builds: class in [0,4), ' ' at 4, the symbol at [5,7), the title from 7 on. -/
def buildTitle (q : Req) : Bytes :=
  let cls := copyInto 4 q.bclass
  let sym := if q.isGroup then Gen.NewBoard.symbolGroup else Gen.NewBoard.symbolBoard
  cls ++ [32] ++ copyInto 2 sym ++ copyInto 42 q.btitle

/-- the attribute word after the BRD_CPLOG / BRD_GROUPBOARD rules of `mNewbrd`. -/
def attr1 (q : Req) : Nat :=
  let a0 := if q.autoCpLog then q.attr ||| BRD_CPLOG else q.attr
  if q.isGroup then clearBits (a0 ||| BRD_GROUP) BRD_CPLOG else clearBits a0 BRD_GROUP

/-- `!user.UserLevel.HasUserPerm(PERM_BOARD) || brdAttr&BRD_HIDE != 0`: post-mask and level are dropped. -/
def restricted (q : Req) : Bool := !hasBit q.ulevel PERM_BOARD || hasBit (attr1 q) BRD_HIDE

def buildAttr (q : Req) : Nat := if restricted q then clearBits (attr1 q) BRD_POSTMASK else attr1 q

def buildLevel (q : Req) : Nat := if restricted q then 0 else q.level

/-- the header `mNewbrd` hands to `addBoardRecord`, given the sanitised moderator string. -/
def buildRec (q : Req) (bm : Bytes) : Rec :=
  { name := q.name, title := buildTitle q, bm := bm, attr := buildAttr q, chess := q.chess,
    level := buildLevel q, gid := q.cls.toNat, fc := zeros 8, other := zeros 256 }

/-- `ptt.IsBMCache(user, uid, bid)`. -/
def isBMCache (s : State) (q : Req) (bid : Nat) : Bool :=
  if !hasBit q.ulevel PERM_BASIC || q.uid = 0 || q.uid = -1 then false
  else if !(hasBit q.ulevel PERM_BASIC && hasBit q.ulevel PERM_LOGINOK) then false
  else ((s.bmcache.getD (bid - 1) noBM).take 4).contains q.uid

/-- `boardPermStat(...) == NBRD_BOARD` for the board in `BCache[bid-1]`: not a sysop, not police on a BM-level
board, not a moderator, a hidden board whose friend list does not name the caller (no friend list is loaded
for a slot in this model: `Shm.Hbfl[bid-1]` is empty and there is no `visible` file), post-mask clear. -/
def statIsBoard (s : State) (q : Req) (r : Rec) (bid : Nat) : Bool :=
  !hasBit q.ulevel PERM_SYSOP &&
  !(hasBit r.level PERM_BM && (hasBit q.ulevel PERM_POLICE || hasBit q.ulevel PERM_POLICE_MAN)) &&
  !isBMCache s q bid && hasBit r.attr BRD_HIDE && !hasBit r.attr BRD_POSTMASK

/-- the write of `LoadBoardSummary` → `newBoardStat`: BRD_POSTMASK is ORed into the SHARED copy only. -/
def summaryEffect (s : State) (q : Req) (bid : Nat) : State :=
  let r := s.cache.getD (bid - 1) Rec.zero
  if hasBit r.attr BRD_HIDE && !hasBit r.attr BRD_POSTMASK && statIsBoard s q r bid then
    { s with cache := s.cache.set (bid - 1) { r with attr := r.attr ||| BRD_POSTMASK } }
  else s

/-- does `boards/<c>` exist for the first byte of the name? -/
def hasLetter (letters : List Nat) (name : Bytes) : Bool := letters.contains (name.headD 0)

/-- does `boards/<c>/<name>` exist? -/
def hasDir (dirs : List Bytes) (name : Bytes) : Bool := dirs.contains (cstr name)

/-- `groupOp`'s verdict read on a list of headers (the shared copy in `NewBoard`, the table in the
specification): PERM_BOARD, or named in the moderator string of the parent `clsBid`. -/
def groupOpOf (hdrs : List Rec) (q : Req) : Bool :=
  hasBit q.ulevel PERM_BOARD || isUBM q.user (hdrs.getD (q.cls.toNat - 1) Rec.zero).bm

/-- `!(clsBoard.Brdname[0] == 0 || !clsBoard.BrdAttr.HasPerm(BRD_GROUPBOARD))` read on a list of headers: the
parent `clsBid` is an existing (not vacated) group board.  A parent beyond the headers is all-zero: vacated. -/
def parentIsClass (hdrs : List Rec) (cls : Int) : Bool :=
  let r := hdrs.getD (cls.toNat - 1) Rec.zero
  r.name.headD 0 != 0 && hasBit r.attr BRD_GROUP

/-- does `NewBoard` test the parent before `groupOp`?  (a fact of the source) -/
def parentChecked : Bool := Gen.NewBoard.parentCheck = "vacatedOrNonGroup"

/-- does `mNewbrd` remove the directory again when `addBoardRecord` fails?  (a fact of the source) -/
def rmdirOnFail : Bool := Gen.NewBoard.mNewbrdCalls.contains "os.Remove"

/-- `ptt.mNewbrd` (isRecover = false) followed by `LoadBoardSummary`. -/
def mNewbrd (srt : Sorter) (s : State) (q : Req) : State × M Res :=
  match isValidName q.name with
  | .error e => (s, .error e)
  | .ok false => (s, .ok .invalidName)
  | .ok true =>
  match getBid s q.name with
  | .error e => (s, .error e)
  | .ok b =>
  if b > 0 then (s, .ok .nameExists)
  else
    let dn := cstr q.name
    if !hasLetter s.letters q.name then (s, .ok .mkdirNoent)
    else if hasDir s.dirs q.name then (s, .ok .mkdirExist)
    else
      let s1 := { s with dirs := s.dirs ++ [dn] }
      let (s2, r) := addBoardRecord srt s1 (buildRec q (sanitizeBMs s.users q.bms))
      match r with
      | .error e => (s2, .error e)
      | .ok (.ok bid) => (summaryEffect s2 q bid, .ok (.ok bid))
      | .ok err => ((if rmdirOnFail then { s2 with dirs := s2.dirs.erase dn } else s2), .ok err)

/-- `ptt.NewBoard`. -/
def newBoard (srt : Sorter) (s : State) (q : Req) : State × M Res :=
  if !validBid q.cls then (s, .ok .invalidBid)
  else if parentChecked && !parentIsClass s.cache q.cls then (s, .ok .invalidBid)
  else
    let isGroupOp := groupOpOf s.cache q            -- clsBoard = GetBCache(clsBid)
    if !hasBit q.ulevel PERM_BOARD && !isGroupOp then (s, .ok .notPermitted)
    else mNewbrd srt s q

/-! ### a request served while another process holds `Shm.BBusyState` for the whole call

`getBidByNameCore` only waits a second and bisects anyway; `ResetBoard` waits and returns ErrBusy (ignored on the
vacated-slot path, an error on the append path — after the record was appended and BNumber incremented);
`SortBCache` waits and returns without sorting.  Mirrored for the correspondence only: such states are not
well-formed and no theorem is claimed about them. -/

def addBoardRecordBusy (s : State) (r : Rec) : State × M Res :=
  match getBid s (zeros 13) with
  | .error e => (s, .error e)
  | .ok bid =>
      if 1 ≤ bid ∧ bid ≤ MAXB then
        match substIndex bid with
        | .error e => (s, .error e)
        | .ok i => (writeRec s i r, .ok (.ok bid))
      else if s.bnumber ≥ MAXB then (s, .ok .tooMany)
      else ({ s with brd := s.brd ++ [r], tail := [], bnumber := s.bnumber + 1 }, .ok .io)

def newBoardBusy (s : State) (q : Req) : State × M Res :=
  if !validBid q.cls then (s, .ok .invalidBid)
  else if parentChecked && !parentIsClass s.cache q.cls then (s, .ok .invalidBid)
  else if !hasBit q.ulevel PERM_BOARD && !groupOpOf s.cache q then (s, .ok .notPermitted)
  else
  match isValidName q.name with
  | .error e => (s, .error e)
  | .ok false => (s, .ok .invalidName)
  | .ok true =>
  match getBid s q.name with
  | .error e => (s, .error e)
  | .ok b =>
  if b > 0 then (s, .ok .nameExists)
  else if !hasLetter s.letters q.name then (s, .ok .mkdirNoent)
  else if hasDir s.dirs q.name then (s, .ok .mkdirExist)
  else
    let dn := cstr q.name
    let s1 := { s with dirs := s.dirs ++ [dn] }
    let (s2, r) := addBoardRecordBusy s1 (buildRec q (sanitizeBMs s.users q.bms))
    match r with
    | .error e => (s2, .error e)
    | .ok (.ok bid) => (summaryEffect s2 q bid, .ok (.ok bid))
    | .ok err => ((if rmdirOnFail then { s2 with dirs := s2.dirs.erase dn } else s2), .ok err)

def run (srt : Sorter) (s : State) : List Req → State
  | [] => s
  | q :: qs => run srt (newBoard srt s q).1 qs

/-! ### bbs.CreateBoard: the wrapper around ptt.NewBoard

`UUserID.ToRaw` (copy into a UserID_t, `IsValid`), `ptt.InitCurrentUser` (`cmbbs.PasswdLoadUser`: SearchUserRaw +
the record of that uid in .PASSWDS; the two special ids get constant levels), `copy` of the name into a
BoardID_t, `ptttype.NewBM` of the moderator ids. -/

structure BbsArgs where
  userID : Bytes      -- userID UUserID (a string)
  cls : Int
  name : Bytes        -- brdname string, any length
  bclass : Bytes
  btitle : Bytes
  bms : List Bytes    -- BMs []UUserID
  attr : Nat
  level : Nat
  chess : Nat
  isGroup : Bool
  autoCpLog : Bool
  deriving Repr

inductive BbsRes where
  | invalidParams           -- bbs.ErrInvalidParams (the caller's id is not a valid user id)
  | invalidUser             -- ptttype.ErrInvalidUserID (no such user)
  | inner (r : Res)         -- what ptt.NewBoard answered
  deriving DecidableEq, Repr

/-- the request `bbs.CreateBoard` hands to `ptt.NewBoard`; `levels` is the UserLevel column of .PASSWDS. -/
def bbsDerive (users : List Bytes) (levels : List Nat) (a : BbsArgs) : Except BbsRes Req :=
  let id := copyInto 13 a.userID
  if !validUserId id then .error .invalidParams
  else
    let uid := searchUser users id
    if !(1 ≤ uid ∧ uid ≤ MAXU) then .error .invalidUser
    else
      let recId := users.getD (uid - 1) (zeros 13)
      let lvl0 := levels.getD (uid - 1) 0
      let lvl1 := if cstrcmp recId Gen.NewBoard.strGuest = 0 then Gen.NewBoard.guestLevel else lvl0
      let lvl := if cstrcmp recId Gen.NewBoard.strSysop = 0 then Gen.NewBoard.adminLevel else lvl1
      .ok { user := recId, ulevel := lvl, uid := (uid : Int), cls := a.cls, name := copyInto 13 a.name,
            bclass := a.bclass, btitle := a.btitle, bms := some (newBM (a.bms.map (copyInto 13))),
            attr := a.attr, level := a.level, chess := a.chess, isGroup := a.isGroup,
            autoCpLog := a.autoCpLog }

/-- `bbs.CreateBoard`. -/
def bbsCreate (srt : Sorter) (s : State) (levels : List Nat) (a : BbsArgs) : State × M BbsRes :=
  match bbsDerive s.users levels a with
  | .error e => (s, .ok e)
  | .ok q => ((newBoard srt s q).1, (newBoard srt s q).2.map .inner)

/-! ### `cache.ReloadBCache` on a `.BRD` of `n` complete records (what every history starts from) -/

def reload (srt : Sorter) (s : State) : State :=
  let n := min s.brd.length MAXB
  let c := s.brd.take MAXB ++ s.cache.drop n
  sortBCache srt { s with cache := c, bnumber := n }

/-! ### the abstract board table (the specification side)

The table is the list of headers of `.BRD`; a slot is vacated when its name is the empty C string. -/

def occupied (r : Rec) : Bool := nameKey r.name != []

/-- some occupied slot carries this name up to letter case. -/
def nameTaken (t : List Rec) (n : Bytes) : Bool := t.any fun r => occupied r && nameKey r.name == nameKey n

def hasVacant (t : List Rec) : Bool := t.any fun r => !occupied r

/-- PERM_BOARD, or group operator: named in the moderator string of the parent (a parent beyond the table has
no moderators). -/
def permitted (t : List Rec) (q : Req) : Bool := groupOpOf t q

/-- the header the creation rules prescribe for a request. -/
def normalise (users : List Bytes) (q : Req) : Rec := buildRec q (sanitizeBMs users q.bms)

/-- the refusal a request meets, in the order of the checks (the parent must be in range and an existing group
board); `none`: it is accepted. -/
def specDecide (letters : List Nat) (dirs : List Bytes) (t : List Rec) (q : Req) : Option Res :=
  if !validBid q.cls then some .invalidBid
  else if !parentIsClass t q.cls then some .invalidBid
  else if !permitted t q then some .notPermitted
  else if !validNameSpec q.name then some .invalidName
  else if nameTaken t q.name then some .nameExists
  else if !hasLetter letters q.name then some .mkdirNoent
  else if hasDir dirs q.name then some .mkdirExist
  else if !hasVacant t && t.length ≥ MAXB then some .tooMany
  else none

/-- one request on the abstract table `t` and the set `d` of board directories: a refusal changes nothing; an
accepted request puts the normalised header into SOME vacated slot if there is one (which one is the business of
`sort.Sort`), else appends it, and creates the directory. -/
def SpecStep (users : List Bytes) (letters : List Nat) (t : List Rec) (d : List Bytes) (q : Req) (res : Res)
    (t' : List Rec) (d' : List Bytes) : Prop :=
  match specDecide letters d t q with
  | some r => res = r ∧ t' = t ∧ d' = d
  | none => ∃ k, res = .ok (k + 1) ∧ d' = d ++ [cstr q.name] ∧
      ((k < t.length ∧ (∃ r, t[k]? = some r ∧ occupied r = false) ∧ t' = t.set k (normalise users q)) ∨
       (hasVacant t = false ∧ k = t.length ∧ t' = t ++ [normalise users q]))

/-- a history on the abstract table: the answers, the final table and the final set of directories. -/
inductive SpecRun (users : List Bytes) (letters : List Nat) :
    List Rec → List Bytes → List Req → List Res → List Rec → List Bytes → Prop
  | nil (t : List Rec) (d : List Bytes) : SpecRun users letters t d [] [] t d
  | cons {t d q res t1 d1 qs rs t2 d2} : SpecStep users letters t d q res t1 d1 →
      SpecRun users letters t1 d1 qs rs t2 d2 → SpecRun users letters t d (q :: qs) (res :: rs) t2 d2

/-- the answers of the model along a history. -/
def results (srt : Sorter) (s : State) : List Req → List (M Res)
  | [] => []
  | q :: qs => (newBoard srt s q).2 :: results srt (newBoard srt s q).1 qs

/-- would `IsBMCache` call the caller a moderator of a board whose moderator string is `bm`? -/
def callerIsMod (users : List Bytes) (q : Req) (bm : Bytes) : Bool :=
  if !hasBit q.ulevel PERM_BASIC || q.uid = 0 || q.uid = -1 then false
  else if !(hasBit q.ulevel PERM_BASIC && hasBit q.ulevel PERM_LOGINOK) then false
  else ((parseBMList users bm).take 4).contains q.uid

/-- the recorded exception to "shared copy = record": a hidden board created by a caller who is neither sysop
nor one of its (cached) moderators gets BRD_POSTMASK in the shared copy only. -/
def postMaskWritten (users : List Bytes) (q : Req) : Bool :=
  hasBit (buildAttr q) BRD_HIDE && !hasBit q.ulevel PERM_SYSOP && !callerIsMod users q (sanitizeBMs users q.bms)

/-! ### well-formed states -/

/-- the shared copy of a header: `FirstChild` is cleared by SortBCache. -/
def shmOf (r : Rec) : Rec := { r with fc := zeros 8 }

/-- the shared copy of a hidden board may carry BRD_POSTMASK in addition (newBoardStat writes it there). -/
def CacheOK (c r : Rec) : Prop :=
  c = shmOf r ∨ (hasBit r.attr BRD_HIDE = true ∧ c = { shmOf r with attr := r.attr ||| BRD_POSTMASK })

structure Inv (s : State) : Prop where
  tail : s.tail = []
  len : s.brd.length = s.bnumber
  cap : s.bnumber ≤ MAXB
  clen : s.cache.length = MAXB
  blen : s.bmcache.length = MAXB
  copy : ∀ (k : Nat) (r : Rec), s.brd[k]? = some r → ∃ c, s.cache[k]? = some c ∧ CacheOK c r
  beyond : ∀ (k : Nat), s.bnumber ≤ k → k < MAXB → s.cache[k]? = some Rec.zero
  sortN : (s.sortedN.take s.bnumber).Perm (List.range s.bnumber) ∧
          (s.sortedN.take s.bnumber).Pairwise fun a b => ¬ nameKeyAt s.cache b < nameKeyAt s.cache a
  sortC : (s.sortedC.take s.bnumber).Perm (List.range s.bnumber) ∧
          (s.sortedC.take s.bnumber).Pairwise fun a b => ¬ classKeyAt s.cache b < classKeyAt s.cache a
  distinct : ∀ (i j : Nat) (ri rj : Rec), s.brd[i]? = some ri → s.brd[j]? = some rj → occupied ri = true →
          nameKey ri.name = nameKey rj.name → i = j

end PttVerif.C12
