#!/bin/bash
# tools/seedcheck.sh <PROP> <k> [extra-props...]: confirm an independently written breaking change and run our checks on it.
#   input : /tmp/seedout-<PROP>/<k>/{patch.diff,meta.json,demo*}
#   output: /verif/seeded/<PROP>-<k>/{patch.diff,meta.json,demo file,result.json}
set -u
P=$1; K=$2; shift 2
SRC=${SEEDSRC:-/tmp/seedout-$P}/$K
WT=/tmp/sv-$P-${SEEDTAG:-}$K
LG=/tmp/svlog-$P-${SEEDTAG:-}$K
OUT=/verif/seeded/$P-${SEEDTAG:-}$K
export GOFLAGS=-mod=mod GOPROXY=off GOSUMDB=off GOTOOLCHAIN=local
git -C /repo worktree remove --force $WT 2>/dev/null
git -C /repo worktree add -q $WT HEAD || exit 2
mkdir -p $OUT
cp $SRC/patch.diff $OUT/patch.diff
cp $SRC/meta.json $OUT/meta.orig.json
demo_path=$(python3 -c "import json;print(json.load(open('$SRC/meta.json'))['demo_path'].split()[0])")
demo_cmd=$(python3 -c "
import json,re
c=json.load(open('$SRC/meta.json'))['demo_cmd']
c=re.split(r'\s{2,}[#(]', c)[0]      # cut trailing free-text remarks
print(c.strip())")
demo_src=$(ls $SRC | grep -v -e patch.diff -e meta.json | head -1)
cp -r $SRC/$demo_src $OUT/
run_demo() { ( cd $WT && mkdir -p "$(dirname "$demo_path")" && cp -r $SRC/$demo_src "$demo_path" && timeout 900 unshare --ipc bash -c "$demo_cmd" >$LG-demo.log 2>&1; rc=$?; rm -rf "$demo_path"; echo $rc ); }
# 1. demo on the unchanged tree must pass
d0=$(run_demo)
# 2. apply the change
( cd $WT && git apply $SRC/patch.diff ) || { echo "patch does not apply"; applied=0; }
applied=${applied:-1}
b=1; t=1; d1=-1
if [ $applied = 1 ]; then
  ( cd $WT && go build ./... >$LG-build.log 2>&1 ); b=$?
  ( cd $WT && unshare --ipc go test -p 1 -vet=off -count=1 ./... >$LG-test.log 2>&1 ); t=$?
  d1=$(run_demo)
fi
# 3. our checks
declare -A res
for C in $P "$@"; do
  ( cd /verif && VERIF_REPO=$WT timeout 1500 ./check $C >$LG-check-$C.log 2>&1 ); rc=$?
  viol=$(grep -c '^VIOLATION' $LG-check-$C.log)
  first=$(grep '^VIOLATION' $LG-check-$C.log | head -1)
  res[$C]="$rc|$viol|$first"
  rp=$(echo "$first" | sed -n 's/.*replay=\([^ ]*\).*/\1/p')
  [ -n "$rp" ] && cp "$rp" $OUT/replay-$C.json 2>/dev/null
  tail -3 $LG-check-$C.log > $OUT/check-$C.tail.txt
done
python3 - "$P" "$K" "$d0" "$applied" "$b" "$t" "$d1" "$OUT" "$(for C in "${!res[@]}"; do echo "$C=${res[$C]}"; done)" <<'PY'
import sys, json
P,K,d0,applied,b,t,d1,out,resl = sys.argv[1:10]
meta = json.load(open(out + "/meta.orig.json"))
checks = {}
for line in resl.split("\n"):
    if "=" in line:
        c, v = line.split("=", 1); rc, viol, first = v.split("|", 2)
        checks[c] = {"exit": int(rc), "violation_lines": int(viol), "first": first}
import os
import subprocess
r = {"property": P, "seed": os.path.basename(out), "repo_head": subprocess.check_output(["git", "-C", "/repo", "rev-parse", "--short", "HEAD"]).decode().strip(), "breaks": meta.get("summary"), "needs": meta.get("needs"),
     "confirmed": {"patch_applies": applied == "1", "builds": b == "0", "existing_tests_pass": t == "0",
                   "demo_passes_unchanged": d0 == "0", "demo_fails_with_change": d1 not in ("0", "-1")},
     "ran": ["git apply patch.diff in a scratch worktree of /repo HEAD", "go build ./...", "unshare --ipc go test -p 1 -vet=off -count=1 ./...",
             "demo: " + meta.get("demo_cmd", ""), "VERIF_REPO=<worktree> ./check <property>"],
     "demo_path": meta.get("demo_path"), "demo_cmd": meta.get("demo_cmd"), "our_checks": checks}
json.dump(r, open(out + "/meta.json", "w"), indent=1)
print(json.dumps(r["confirmed"]), {c: (v["exit"], v["first"][-60:]) for c, v in checks.items()})
PY
git -C /repo worktree remove --force $WT
( cd /verif/go && flock /verif/.build.lock /verif/bin/extract -repo /repo -out /verif/lean/PttVerif/Gen >/dev/null 2>&1 )   # Gen/ back to /repo's facts (evidence/ is not touched by runs against a scratch copy)
rm -f $LG-*.log
