#!/usr/bin/env python3
"""tools/mkseedprompts.py <round> [props...]: prompts for a further round of independently written
breaking changes. A prompt holds the property text (from properties.jsonl), the rules for the change and
the one-paragraph summaries the earlier seed writers gave of their own changes (so that a new writer
looks elsewhere). Nothing about the checks, models or harnesses of /verif goes into a prompt."""
import json, sys, os, glob, re
rnd = int(sys.argv[1]); only = sys.argv[2:]
props = [json.loads(l) for l in open('/verif/properties.jsonl') if l.strip()]
tmpl = open('/verif/work/seedprompts/C14-r2.txt').read()
head, _, _ = tmpl.partition('Two changes were already written')
p14 = [p for p in props if p['id'] == 'C14'][0]
def field(p, *names):
    for n in names:
        if n in p: return p[n]
    return ''
for p in props:
    pid = p['id']
    if only and pid not in only: continue
    h = head.replace('/tmp/seed2-C14', f'/tmp/seed{rnd}-{pid}').replace('/tmp/seedout2-C14', f'/tmp/seedout{rnd}-{pid}')
    # swap the property block
    a = h.index('  id: C14'); b = h.index('Your task:')
    anchors = p.get('anchors', {})
    if isinstance(anchors, dict): anchors = ', '.join(anchors.get('files', []))
    blk = f"  id: {pid}\n  title: {p.get('title','')}\n  statement: {field(p,'statement','description')}\n  quantifier: {p['quantifier']['text'] if isinstance(p['quantifier'],dict) else p['quantifier']}\n  code it is anchored in: {anchors}\n\n"
    h = h[:a] + blk + h[b:]
    h = h.replace('"property": "C14"', f'"property": "{pid}"')
    prev = []
    for m in sorted(glob.glob(f'/verif/seeded/{pid}-*/meta.json')):
        j = json.load(open(m)); s = j.get('breaks') or j.get('summary') or ''
        prev.append('- ' + s[:520])
    h += f"{len(prev)} changes were already written for this property by others; do NOT repeat their mechanisms or touch the same functions — find DIFFERENT ways to break the property (other files of the anchored code and the code that calls into it, other clauses of the statement, other kinds of trigger: interleavings, crash points, multi-step histories, configuration (build tags, config-file values), boundary values, error paths):\n" + '\n'.join(prev) + '\n'
    open(f'/verif/work/seedprompts/{pid}-r{rnd}.txt', 'w').write(h)
    print(pid, len(h))
