#!/usr/bin/env python3
# list the seeded changes no check caught (or whose confirmation is incomplete)
import json, glob, os
rows = []
for m in sorted(glob.glob('/verif/seeded/*/meta.json')):
    j = json.load(open(m)); name = os.path.basename(os.path.dirname(m))
    oc = j.get('our_checks', {})
    caught = [c for c, v in oc.items() if v.get('exit') == 1 and v.get('violation_lines', 0) > 0]
    conf = j.get('confirmed', {})
    okc = all(conf.get(k) for k in ('patch_applies', 'builds', 'existing_tests_pass', 'demo_passes_unchanged', 'demo_fails_with_change'))
    if not caught or not okc:
        rows.append((name, 'caught by ' + ','.join(caught) if caught else 'MISSED (ran ' + ','.join(oc) + ')', '' if okc else 'unconfirmed: ' + str({k: v for k, v in conf.items() if not v})))
for r in rows: print(*r)
print(len(glob.glob('/verif/seeded/*/meta.json')), 'seeds,', len(rows), 'listed')
