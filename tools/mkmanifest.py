#!/usr/bin/env python3
"""Regenerates MANIFEST.json from tools/claims.json (one entry per claimed property)."""
import json, os
ROOT = os.path.dirname(os.path.dirname(os.path.abspath(__file__)))
props = [json.loads(l) for l in open(os.path.join(ROOT, "properties.jsonl"))]
claims = json.load(open(os.path.join(ROOT, "tools", "claims.json")))
checks = []
for p in props:
    c = claims.get(p["id"])
    if not c:
        continue
    c = dict(c)
    # keep the claim current: theorem count from the last evidence file, modelled functions from the check's config
    try:
        ev = json.load(open(os.path.join(ROOT, "evidence", p["id"] + ".json")))
        n = ev["coverage"].get("obligations") or ev["coverage"].get("obligations_count")
        import re, importlib.util
        c["text"] = re.sub(r"\((\d+) theorems\)", "(%s theorems)" % n, c["text"])
        spec = importlib.util.spec_from_file_location("cfg", os.path.join(ROOT, "checks", p["id"].lower() + ".py"))
        mod = importlib.util.module_from_spec(spec); spec.loader.exec_module(mod)
        modelled = mod.CONFIG.get("modelled", [])
        c["text"] = c["text"].rstrip() + " [as of the last run on /repo: %s theorems in Props/%s.lean, all audited; modelled code: %s]" % (n, p["id"], "; ".join(str(m) for m in modelled)[:1500])
    except Exception as e:
        pass
    checks.append({
        "property_id": p["id"],
        "quick_cmd": "./check %s --tier quick" % p["id"],
        "thorough_cmd": "./check %s --tier thorough" % p["id"],
        "evidence_file": "/verif/evidence/%s.json" % p["id"],
        "replay_cmd_template": "./check %s --replay {path}" % p["id"],
        "engine": "lean4-proof+correspondence",
        "level_claimed": {"category": "proof", "text": c["text"], "design_ref": "DESIGN.md §6 %s and §12 (as built)" % p["id"]},
        "level_note": c["note"],
        "technique": c["technique"],
    })
man = {
    "version": 1,
    "setup_cmd": "./setup",
    "hooks": {"guard": "verif",
              "enable": "go build -tags verif (the harness module go/ replaces the repository module by /repo)",
              "baseline_off_cmd": "cd /repo && go test -mod=mod -json -vet=off -count=1 -timeout 25m ./...",
              "source_commits": ["11bcaee", "8b1c713"], "add_only": True},
    "engines": [{"name": "lean4-proof+correspondence", "path": "/verif/check",
                 "serves_properties": [c["property_id"] for c in checks],
                 "kind_free_text": "Lean 4 model + theorems (lean/), translator go/cmd/extract regenerating lean/PttVerif/Gen/*.lean from /repo on every run, per-property Go harness (go/cmd/cXX) driving the real code in-process and a compiled Lean driver running the model on the same op lines; ./check diffs them, evaluates the property oracle, audits axioms"}],
    "checks": checks,
    "notes": "DESIGN.md explains the approach; known_findings.json lists repaired (fixed) and recorded (known) defects; seeded/ holds independently written breaking changes and which checks catch them.",
    "not_applicable": [{"property_id": p["id"], "reason": claims.get("_pending", {}).get(p["id"], "check not built yet in this revision (the design for it is DESIGN.md §6)")}
                       for p in props if p["id"] not in claims],
}
json.dump(man, open(os.path.join(ROOT, "MANIFEST.json"), "w"), indent=1)
print("claimed:", [c["property_id"] for c in checks])
