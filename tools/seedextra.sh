#!/bin/bash
# tools/seedextra.sh <seed-dir-name> <Cxx> [Cyy...]: run further checks on an already confirmed seeded change
# and merge their results into seeded/<name>/meta.json
set -u
N=$1; shift
OUT=/verif/seeded/$N
WT=/tmp/svx-$N
export GOFLAGS=-mod=mod GOPROXY=off GOSUMDB=off GOTOOLCHAIN=local
git -C /repo worktree remove --force $WT 2>/dev/null
git -C /repo worktree add -q $WT HEAD || exit 2
( cd $WT && git apply $OUT/patch.diff ) || { echo "patch does not apply"; git -C /repo worktree remove --force $WT; exit 2; }
for C in "$@"; do
  ( cd /verif && VERIF_REPO=$WT timeout 2400 ./check $C >/tmp/svx-$N-$C.log 2>&1 ); rc=$?
  viol=$(grep -c '^VIOLATION' /tmp/svx-$N-$C.log)
  first=$(grep '^VIOLATION' /tmp/svx-$N-$C.log | head -1)
  rp=$(echo "$first" | sed -n 's/.*replay=\([^ ]*\).*/\1/p')
  [ -n "$rp" ] && cp "$rp" $OUT/replay-$C.json 2>/dev/null
  tail -3 /tmp/svx-$N-$C.log > $OUT/check-$C.tail.txt
  python3 - "$OUT" "$C" "$rc" "$viol" "$first" <<'PY'
import sys, json
out, c, rc, viol, first = sys.argv[1:6]
m = json.load(open(out + "/meta.json"))
m.setdefault("our_checks", {})[c] = {"exit": int(rc), "violation_lines": int(viol), "first": first}
json.dump(m, open(out + "/meta.json", "w"), indent=1)
print(out.split("/")[-1], c, rc, first[-70:])
PY
  rm -f /tmp/svx-$N-$C.log
done
git -C /repo worktree remove --force $WT
( cd /verif/go && flock /verif/.build.lock /verif/bin/extract -repo /repo -out /verif/lean/PttVerif/Gen >/dev/null 2>&1 )
