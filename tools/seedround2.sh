#!/bin/bash
# process every delivered round-2 seed that has not been confirmed yet; at most 3 properties at a time
cd /verif
one() {
  P=$1
  for K in 1 2; do
    if [ -f /tmp/seedout2-$P/$K/patch.diff ] && [ -f /tmp/seedout2-$P/$K/meta.json ] && [ ! -f /verif/seeded/$P-r2-$K/meta.json ]; then
      extra=""
      [ "$P" = C03 ] && extra="C15"
      SEEDSRC=/tmp/seedout2-$P SEEDTAG=r2- tools/seedcheck.sh $P $K $extra 2>&1 | tail -1
    fi
  done
}
export -f one
ls -d /tmp/seedout2-C* | sed 's#.*seedout2-##' | xargs -P 3 -I{} bash -c 'one {}'
