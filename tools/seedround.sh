#!/bin/bash
# tools/seedround.sh <round>: confirm every delivered seed of that round that has no meta.json yet
# (3 at a time; runs against scratch copies keep their own work directories and binaries).
R=$1
cd /verif
one() {
  R=$1; P=$2
  declare -A EXTRA=( [C01]="C20" [C03]="C15 C20" [C05]="C14" [C09]="C14 C05" [C10]="C05" [C14]="C05" [C20]="C01" [C06]="C11" [C12]="C11" )
  for K in 1 2; do
    if [ -f /tmp/seedout$R-$P/$K/patch.diff ] && [ -f /tmp/seedout$R-$P/$K/meta.json ] && [ ! -f /verif/seeded/$P-r$R-$K/meta.json ]; then
      SEEDSRC=/tmp/seedout$R-$P SEEDTAG=r$R- tools/seedcheck.sh $P $K ${EXTRA[$P]:-} 2>&1 | tail -1
    fi
  done
}
export -f one
ls -d /tmp/seedout$R-C* | sed "s#.*seedout$R-##" | xargs -P 3 -I{} bash -c "one $R {}"
