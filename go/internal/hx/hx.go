// Package hx is the shared part of the correspondence harnesses: one PRNG, the
// line protocol writer, panic/timeout capture, statistics for the evidence file.
package hx

import (
	"bufio"
	"encoding/hex"
	"encoding/json"
	"flag"
	"fmt"
	"os"
	"path/filepath"
	"sort"
	"strings"
	"time"
)

// ---- PRNG: every random choice of a run derives from this one state ----------

type Rand struct{ s uint64 }

// NewRand hashes the seed first: the generator steps its state by a constant, so
// un-hashed neighbouring seeds would give the same stream shifted by one.
func NewRand(seed uint64) *Rand {
	z := seed + 0x9E3779B97F4A7C15
	z = (z ^ (z >> 30)) * 0xBF58476D1CE4E5B9
	z = (z ^ (z >> 27)) * 0x94D049BB133111EB
	z ^= z >> 31
	return &Rand{s: z ^ 0x1234567}
}

func (r *Rand) U64() uint64 {
	r.s += 0x9E3779B97F4A7C15
	z := r.s
	z = (z ^ (z >> 30)) * 0xBF58476D1CE4E5B9
	z = (z ^ (z >> 27)) * 0x94D049BB133111EB
	return z ^ (z >> 31)
}

func (r *Rand) Intn(n int) int {
	if n <= 0 {
		return 0
	}
	return int(r.U64() % uint64(n))
}

func (r *Rand) Bool() bool { return r.U64()&1 == 1 }

// Pick returns one of the given byte values.
func (r *Rand) Pick(bs []byte) byte { return bs[r.Intn(len(bs))] }

func (r *Rand) Bytes(n int, alphabet []byte) []byte {
	out := make([]byte, n)
	for i := range out {
		if alphabet == nil {
			out[i] = byte(r.U64())
		} else {
			out[i] = r.Pick(alphabet)
		}
	}
	return out
}

// ---- run context ---------------------------------------------------------------

type Run struct {
	Prop   string
	Tier   string
	Seed   uint64
	Dir    string
	Replay string
	R      *Rand

	ops, impl, oracle *bufio.Writer
	files             []*os.File

	n         int
	hist      map[string]int
	distinct  map[string]struct{}
	samples   []string
	fails     int
	Rule      string
	Exhaust   bool
	Extra     map[string]interface{}
	start     time.Time
	maxSample int
}

// Start parses the common flags and opens the output files in -out.
func Start(prop string) *Run {
	tier := flag.String("tier", "quick", "quick|thorough")
	seed := flag.Uint64("seed", 1, "PRNG seed")
	out := flag.String("out", "", "output directory")
	replay := flag.String("replay", "", "replay file (ops to run instead of generating)")
	flag.Parse()
	if *out == "" {
		fmt.Fprintln(os.Stderr, "need -out")
		os.Exit(2)
	}
	_ = os.MkdirAll(*out, 0o755)
	r := &Run{Prop: prop, Tier: *tier, Seed: *seed, Dir: *out, Replay: *replay, R: NewRand(*seed),
		hist: map[string]int{}, distinct: map[string]struct{}{}, Extra: map[string]interface{}{},
		start: time.Now(), maxSample: 12}
	open := func(name string) *bufio.Writer {
		f, err := os.Create(filepath.Join(*out, name))
		if err != nil {
			fmt.Fprintln(os.Stderr, err)
			os.Exit(2)
		}
		r.files = append(r.files, f)
		return bufio.NewWriterSize(f, 1<<20)
	}
	r.ops = open("ops.txt")
	r.impl = open("impl.txt")
	r.oracle = open("oracle.txt")
	return r
}

func (r *Run) Thorough() bool { return r.Tier == "thorough" }

// Op records one operation: the line sent to the model, the implementation's
// canonical answer, and a label for the branch/outcome histogram. An op is
// counted as distinct-nontrivial when its (label-class, op line) has not been
// seen before and nontrivial is true.
func (r *Run) Op(opLine, implOut, label string, nontrivial bool) int {
	if strings.ContainsAny(opLine, "\n\r") || strings.ContainsAny(implOut, "\n\r") {
		panic("hx: newline in protocol line")
	}
	r.ops.WriteString(opLine)
	r.ops.WriteByte('\n')
	r.impl.WriteString(implOut)
	r.impl.WriteByte('\n')
	r.hist[label]++
	if nontrivial {
		r.distinct[opLine] = struct{}{}
	}
	if len(r.samples) < r.maxSample && (r.n < 3 || r.R.Intn(1+r.n/4) == 0) {
		r.samples = append(r.samples, opLine+" => "+implOut)
	}
	r.n++
	return r.n - 1
}

// Fail records a property-oracle failure (P̂) observed on the implementation.
// key identifies the failing case for the known-findings file.
func (r *Run) Fail(opIndex int, key, what string) {
	fmt.Fprintf(r.oracle, "FAIL %d %s %s\n", opIndex, key, strings.ReplaceAll(what, "\n", " "))
	r.fails++
}

// Note records an observation that is reported but not judged.
func (r *Run) Note(what string) {
	fmt.Fprintf(r.oracle, "NOTE %s\n", strings.ReplaceAll(what, "\n", " "))
}

func (r *Run) Finish() {
	for _, w := range []*bufio.Writer{r.ops, r.impl, r.oracle} {
		w.Flush()
	}
	for _, f := range r.files {
		f.Close()
	}
	keys := make([]string, 0, len(r.hist))
	for k := range r.hist {
		keys = append(keys, k)
	}
	sort.Strings(keys)
	h := map[string]int{}
	for _, k := range keys {
		h[k] = r.hist[k]
	}
	st := map[string]interface{}{
		"evaluations":         r.n,
		"distinct_nontrivial": len(r.distinct),
		"rule":                r.Rule,
		"samples":             r.samples,
		"histogram":           h,
		"exhaustive":          r.Exhaust,
		"oracle_failures":     r.fails,
		"harness_wall_s":      time.Since(r.start).Seconds(),
	}
	for k, v := range r.Extra {
		st[k] = v
	}
	b, _ := json.MarshalIndent(st, "", " ")
	_ = os.WriteFile(filepath.Join(r.Dir, "stats.json"), b, 0o644)
}

// ---- calling the real code ------------------------------------------------------

// Call runs f, mapping a panic to "PANIC" and a run longer than the watchdog to
// "TIMEOUT" (the goroutine is abandoned).
func Call(f func() string) (out string) {
	return CallT(2*time.Second, f)
}

func CallT(d time.Duration, f func() string) (out string) {
	ch := make(chan string, 1)
	go func() {
		defer func() {
			if e := recover(); e != nil {
				LastPanic = fmt.Sprint(e)
				ch <- "PANIC"
			}
		}()
		ch <- f()
	}()
	select {
	case s := <-ch:
		return s
	case <-time.After(d):
		return "TIMEOUT"
	}
}

// CallSync is Call without the goroutine (no watchdog); for hot loops.
func CallSync(f func() string) (out string) {
	defer func() {
		if e := recover(); e != nil {
			LastPanic = fmt.Sprint(e)
			out = "PANIC"
		}
	}()
	return f()
}

var LastPanic string

func Hex(b []byte) string {
	if len(b) == 0 {
		return "-"
	}
	return hex.EncodeToString(b)
}

func UnHex(s string) []byte {
	if s == "-" {
		return nil
	}
	b, err := hex.DecodeString(s)
	if err != nil {
		panic(err)
	}
	return b
}

// ReplayOps returns the op lines of a replay file (JSON with an "ops" array, or plain lines).
func ReplayOps(path string) []string {
	b, err := os.ReadFile(path)
	if err != nil {
		fmt.Fprintln(os.Stderr, err)
		os.Exit(2)
	}
	var j struct {
		Ops []string `json:"ops"`
	}
	if json.Unmarshal(b, &j) == nil && len(j.Ops) > 0 {
		return j.Ops
	}
	var out []string
	for _, l := range strings.Split(string(b), "\n") {
		l = strings.TrimSpace(l)
		if l != "" && !strings.HasPrefix(l, "#") {
			out = append(out, l)
		}
	}
	return out
}
