// Package bbsenv gives a harness its own BBSHOME and its own SysV shared-memory
// and semaphore keys, so that checks can run in parallel with each other and
// with the repository's test-suite.
package bbsenv

import (
	"fmt"
	"io"
	"os"
	"os/exec"
	"path/filepath"

	"github.com/Ptt-official-app/go-pttbbs/cache"
	"github.com/Ptt-official-app/go-pttbbs/cmbbs"
	"github.com/Ptt-official-app/go-pttbbs/ptttype"
	"github.com/Ptt-official-app/go-pttbbs/types"
	"github.com/sirupsen/logrus"
)

type Env struct {
	Home   string
	ShmKey int
	SemKey int
	Repo   string
}

func repoRoot() string {
	if r := os.Getenv("VERIF_REPO"); r != "" {
		return r
	}
	return "/repo"
}

// Quiet turns the repository's logging down to errors that matter.
func Quiet() {
	logrus.SetOutput(io.Discard)
	logrus.SetLevel(logrus.PanicLevel)
}

func copyFile(src, dst string) error {
	b, err := os.ReadFile(src)
	if err != nil {
		return err
	}
	return os.WriteFile(dst, b, 0o644)
}

func copyDir(src, dst string) error {
	return filepath.Walk(src, func(p string, info os.FileInfo, err error) error {
		if err != nil {
			return err
		}
		rel, _ := filepath.Rel(src, p)
		target := filepath.Join(dst, rel)
		if info.IsDir() {
			return os.MkdirAll(target, 0o755)
		}
		return copyFile(p, target)
	})
}

// Options: Fixture is the repository test-case directory to copy the initial
// .PASSWDS/.BRD/boards/home from ("ptt" by default; "" or "none" for an empty home).
type Options struct {
	Fixture string
	NoSHM   bool
}

// New creates the private environment and attaches a fresh shared-memory segment.
func New(opt Options) (*Env, error) {
	Quiet()
	repo := repoRoot()
	home, err := os.MkdirTemp("", "verif-bbs-")
	if err != nil {
		return nil, err
	}
	pid := os.Getpid()
	e := &Env{Home: home, Repo: repo, ShmKey: 0x5000000 + pid%0xffffff, SemKey: 0x6000000 + pid%0xffffff}

	if w := os.Getenv("VERIF_WORK"); w != "" {
		// lets ./check remove the SysV objects and the home if this process dies
		if f, err := os.OpenFile(filepath.Join(w, "cleanup.txt"), os.O_APPEND|os.O_CREATE|os.O_WRONLY, 0o644); err == nil {
			fmt.Fprintf(f, "shm 0x%x\nsem 0x%x\ndir %s\n", e.ShmKey, e.SemKey, home)
			f.Close()
		}
	}

	fx := opt.Fixture
	if fx == "" {
		fx = "ptt"
	}
	if fx != "none" {
		tc := filepath.Join(repo, fx, "testcase")
		_ = copyFile(filepath.Join(tc, ".PASSWDS1"), filepath.Join(home, ".PASSWDS"))
		_ = copyFile(filepath.Join(tc, ".BRD1"), filepath.Join(home, ".BRD"))
		if _, err := os.Stat(filepath.Join(tc, "boards1")); err == nil {
			_ = copyDir(filepath.Join(tc, "boards1"), filepath.Join(home, "boards"))
		}
		if _, err := os.Stat(filepath.Join(tc, "home1")); err == nil {
			_ = copyDir(filepath.Join(tc, "home1"), filepath.Join(home, "home"))
		}
	}
	for _, d := range []string{"boards", "home", "etc", "man", "tmp"} {
		_ = os.MkdirAll(filepath.Join(home, d), 0o755)
	}

	types.BIG5_TO_UTF8 = filepath.Join(repo, "types", "uao250-b2u.big5.txt")
	types.UTF8_TO_BIG5 = filepath.Join(repo, "types", "uao250-u2b.big5.txt")
	if err := types.InitConfig(); err != nil {
		return nil, fmt.Errorf("types.InitConfig: %w", err)
	}
	ptttype.SetBBSHOME(home)
	ptttype.SHM_KEY = types.Key_t(e.ShmKey)
	ptttype.PASSWDSEM_KEY = e.SemKey
	// cache.Shm.Reset() and cache.CloseSHM() are no-ops unless the package is in test mode
	cache.IsTest = true
	cmbbs.IsTest = true
	if opt.NoSHM {
		return e, nil
	}
	if err := cache.NewSHM(types.Key_t(e.ShmKey), ptttype.USE_HUGETLB, true); err != nil {
		return nil, fmt.Errorf("NewSHM: %w", err)
	}
	cache.Shm.Reset()
	if err := cache.LoadUHash(); err != nil {
		return nil, fmt.Errorf("LoadUHash: %w", err)
	}
	cache.ReloadBCache()
	if err := cmbbs.PasswdInit(); err != nil {
		return nil, fmt.Errorf("PasswdInit: %w", err)
	}
	return e, nil
}

// AttachOptions: see Attach.
type AttachOptions struct {
	SkipConfig bool
}

// Attach makes this process a further server process of an environment that another
// process created with New: the same BBSHOME, the same shared-memory segment (opened, not
// created, and neither reset nor reloaded) and the same semaphore key. It does not run
// cmbbs.PasswdInit — the caller does, as main_init does for a starting server. The package
// test switches stay off, so this process cannot reset, detach-and-remove or destroy the
// shared objects; the creator removes them in Close. The keys and the home are registered in
// $VERIF_WORK/cleanup.txt once more, so ./check removes them even if only this process is left.
// AttachOptions.SkipConfig leaves types.InitConfig out (the Big5 tables take ~60 ms to load): for
// short-lived processes that never convert text.
func Attach(home string, shmKey, semKey int, opt AttachOptions) (*Env, error) {
	Quiet()
	repo := repoRoot()
	e := &Env{Home: home, Repo: repo, ShmKey: shmKey, SemKey: semKey}
	if w := os.Getenv("VERIF_WORK"); w != "" {
		if f, err := os.OpenFile(filepath.Join(w, "cleanup.txt"), os.O_APPEND|os.O_CREATE|os.O_WRONLY, 0o644); err == nil {
			fmt.Fprintf(f, "shm 0x%x\nsem 0x%x\ndir %s\n", e.ShmKey, e.SemKey, home)
			f.Close()
		}
	}
	types.BIG5_TO_UTF8 = filepath.Join(repo, "types", "uao250-b2u.big5.txt")
	types.UTF8_TO_BIG5 = filepath.Join(repo, "types", "uao250-u2b.big5.txt")
	if !opt.SkipConfig {
		if err := types.InitConfig(); err != nil {
			return nil, fmt.Errorf("types.InitConfig: %w", err)
		}
	}
	ptttype.SetBBSHOME(home)
	ptttype.SHM_KEY = types.Key_t(e.ShmKey)
	ptttype.PASSWDSEM_KEY = e.SemKey
	if err := cache.NewSHM(types.Key_t(e.ShmKey), ptttype.USE_HUGETLB, false); err != nil {
		return nil, fmt.Errorf("NewSHM (attach): %w", err)
	}
	return e, nil
}

// ResetSHM zeroes the segment and reloads the user index and board cache from
// the files currently in BBSHOME.
func (e *Env) ResetSHM() error {
	cache.Shm.Reset()
	if err := cache.LoadUHash(); err != nil {
		return err
	}
	cache.ReloadBCache()
	return nil
}

func (e *Env) Close() {
	cmbbs.IsTest = true
	cache.IsTest = true
	_ = cmbbs.PasswdDestroy()
	_ = cache.CloseSHM()
	// belt and braces: never leave SysV objects behind
	_ = exec.Command("ipcrm", "-M", fmt.Sprintf("0x%x", e.ShmKey)).Run()
	_ = exec.Command("ipcrm", "-S", fmt.Sprintf("0x%x", e.SemKey)).Run()
	_ = os.RemoveAll(e.Home)
}

// Path joins a name onto BBSHOME.
func (e *Env) Path(elem ...string) string {
	return filepath.Join(append([]string{e.Home}, elem...)...)
}
