package main

import (
	"bytes"
	"encoding/binary"
	"fmt"
	"os"
	"strings"

	"github.com/Ptt-official-app/go-pttbbs/cache"
	"github.com/Ptt-official-app/go-pttbbs/ptttype"

	"verifharness/internal/hx"
)

// ---- building blocks ---------------------------------------------------------------------------

func mkBoard(name, class string, c4 byte, grp bool) board {
	n := make([]byte, nameLen)
	copy(n, name)
	t := make([]byte, title8)
	copy(t, class)
	if len(class) > 4 {
		panic("class")
	}
	t[4] = c4
	copy(t[5:], "\xa1\xb7x")
	return board{n, t, grp, 0, 0}
}

// names without two that are equal up to case; "" is a vacated slot (may repeat).
var alphabet = []string{"a", "ab", "aC", "b", "a_", "a-", "a0", "abcdefghijkl", "Abcdefghijk"}

// extra names that collide with the alphabet up to case.
var dupAlphabet = []string{"A", "aB", "AB", "B", "ac"}

// classes: full 4-byte, differing in case, SHORT AND BLANK-PADDED ("bb  ", "b   ", all blanks — what mNewbrd writes for a
// class shorter than two full-width characters), short and NUL-padded, empty.
var classes = []string{"aaaa", "aaab", "Aaaa", "bb  ", "b   ", "    ", "bb", ""}

var queries = []string{"", "0", "A", "a", "AB", "ab", "ac", "aC", "b", "B", "a_", "a-", "a0", "a!", "aa", "abcdefghijkl", "ABCDEFGHIJKL",
	"abcdefghijk", "abcdefghijklm", "abcdefghijkk", "zz", "\xff"}

func hexs(s string) string { return hx.Hex([]byte(s)) }

func swapCase(s string) string {
	b := []byte(s)
	for i, c := range b {
		switch {
		case c >= 'a' && c <= 'z':
			b[i] = c - 32
		case c >= 'A' && c <= 'Z':
			b[i] = c + 32
		}
	}
	return string(b)
}

func uniq(l []string) []string {
	seen := map[string]bool{}
	var out []string
	for _, s := range l {
		if !seen[s] {
			seen[s] = true
			out = append(out, s)
		}
	}
	return out
}

func uniqInts(l []int) []int {
	seen := map[int]bool{}
	var out []int
	for _, v := range l {
		if !seen[v] {
			seen[v] = true
			out = append(out, v)
		}
	}
	return out
}

func (b board) nameStr() string  { return string(cstr(b.name)) }
func (b board) classStr() string { return string(cstr(b.title[:4])) }

// okDescKw: since fix b555081 every keyword has a defined descending answer.
func okDescKw(k string) bool { return true }

// bytes a client may end a keyword with: around the upper/lower-case ranges, the valid punctuation, the extremes.
var tailBytes = []byte("@`[{Zz/:^_-.09Aa\xff\x01\x7f\x80")

// battery runs the full set of queries on the loaded table. level 2 = everything, 1 = a sample (big tables).
func battery(bs []board, level int) {
	r := run.R
	var names, cls []string
	for _, b := range bs {
		names = append(names, b.nameStr())
		cls = append(cls, b.classStr())
	}
	qs := queries
	if level < 2 {
		// a sample: some present names in random case, some absent, the extremes
		qs = []string{"", "0", "zz", "\xff"}
		for i := 0; i < 12 && len(names) > 0; i++ {
			n := names[r.Intn(len(names))]
			if r.Bool() {
				n = swapCase(n)
			}
			qs = append(qs, n)
			if len(n) > 1 {
				qs = append(qs, n[:len(n)-1]+string([]byte{n[len(n)-1] + 1}), n[:len(n)-1])
			}
		}
		for i := 0; i < 6; i++ {
			qs = append(qs, string(r.Bytes(1+r.Intn(12), []byte("abAB_-09.z"))))
		}
	} else {
		qs = append(append([]string{}, qs...), names...)
	}
	qs = uniq(qs)
	for _, q := range qs {
		do("bid " + hexs(q))
		do("find name asc " + hexs(q))
		do("find name desc " + hexs(q))
	}
	// by class: every class of the table and of the class alphabet, with a sample of names
	cq := uniq(append(append([]string{}, cls...), "aaaa", "aaa", "aaab", "b", "bb", "bb ", "bb  ", "b   ", "", "zzzz", "Aaaa"))
	nq := qs
	if len(nq) > 9 {
		nq = append([]string{}, names...)
		nq = append(nq, "", "0", "zz", "A", "ab")
		nq = uniq(nq)
		if level < 2 && len(nq) > 14 {
			nq = nq[:14]
		}
	}
	for _, c := range cq {
		for _, q := range nq {
			do("find class asc " + hexs(c) + " " + hexs(q))
			do("find class desc " + hexs(c) + " " + hexs(q))
		}
	}
	// auto-completion: every non-empty prefix of every name (both cases) + absent keywords
	var kws []string
	src := names
	if level < 2 && len(src) > 10 {
		src = nil
		for i := 0; i < 10; i++ {
			src = append(src, names[r.Intn(len(names))])
		}
	}
	for _, n := range src {
		for l := 1; l <= len(n); l++ {
			kws = append(kws, n[:l], swapCase(n[:l]))
		}
	}
	for i, n := range src {
		if level < 2 && i >= 4 {
			break
		}
		for _, c := range tailBytes {
			if len(n) > 0 {
				kws = append(kws, n[:len(n)-1]+string([]byte{c}))
			}
			if len(n) < 12 {
				kws = append(kws, n+string([]byte{c}))
			}
		}
	}
	kws = uniq(append(kws, "0", "zz", "a!", "abcdefghijklm", "abcdefghijklmn", "c", "Z", "@", "\xff"))
	for _, k := range kws {
		do("ac asc " + hexs(k))
		if okDescKw(k) {
			do("ac desc " + hexs(k))
		}
	}
	// page walks
	vis := 0
	for _, b := range bs {
		if b.name[0] != 0 && !b.grp {
			vis++
		}
	}
	var sizes []int
	if level >= 2 || vis <= 6 {
		for n := 1; n <= vis+1; n++ {
			sizes = append(sizes, n)
		}
	} else {
		sizes = []int{1, 2, 3 + r.Intn(9), vis - 1, vis, vis + 1}
	}
	for _, n := range sizes {
		for _, d := range []string{"asc", "desc"} {
			do(fmt.Sprintf("walk name %s %d", d, n))
			do(fmt.Sprintf("walk class %s %d", d, n))
			if level >= 2 || n <= 3 || n >= vis {
				do(fmt.Sprintf("dwalk name %s %d", d, n))
				do(fmt.Sprintf("dwalk class %s %d", d, n))
			}
		}
	}
	wk := []string{"a", "A", "ab", "b", "abc", "0"}
	if level < 2 {
		wk = []string{"a", "b"}
		if len(kws) > 5 {
			wk = append(wk, kws[r.Intn(len(kws)-5)])
		}
	}
	for _, k := range uniq(wk) {
		for _, n := range sizes {
			if level < 2 && n > 3 && n < vis-1 {
				continue
			}
			do(fmt.Sprintf("awalk asc %d %s", n, hexs(k)))
			if okDescKw(k) {
				do(fmt.Sprintf("awalk desc %d %s", n, hexs(k)))
			}
		}
	}
	// the class listings: slot order, paged by next_bid; children of every class
	for _, n := range sizes {
		do(fmt.Sprintf("fwalk %d", n))
	}
	nb := len(bs)
	starts := uniqInts([]int{-1, 0, 1, 2, nb - 1, nb, nb + 1, maxBoard, maxBoard + 1, 1 + r.Intn(nb+1)})
	for _, b := range starts {
		do(fmt.Sprintf("fpage %d %d", b, 1+r.Intn(3)))
	}
	cs := []int{0, 1, 2, 3, nb, maxBoard + 1}
	if level >= 2 {
		for c := 4; c < nb; c++ {
			cs = append(cs, c)
		}
	} else {
		for i := 0; i < 6; i++ {
			cs = append(cs, 1+r.Intn(nb+1))
		}
	}
	for _, c := range uniqInts(cs) {
		do(fmt.Sprintf("children %d name", c))
		do(fmt.Sprintf("children %d class", c))
		do(fmt.Sprintf("children %d name", c)) // the same request again must answer the same
	}
	do("awalk asc 2 -") // the empty keyword lists everything
	do("awalk desc 2 -")
	do("ac asc -")
	do("ac desc -")
	// single pages from arbitrary cursors (present, absent, below first, above last)
	pq := qs
	if len(pq) > 8 {
		pq = uniq(append(append([]string{}, names...), "", "0", "zz", "A"))
		if len(pq) > 10 {
			pq = pq[:10]
		}
	}
	for _, q := range pq {
		for _, d := range []string{"asc", "desc"} {
			n := 1 + r.Intn(3)
			do(fmt.Sprintf("page name %s %d -:%s", d, n, hexs(q)))
			c := "aaaa"
			if len(cls) > 0 {
				c = cls[r.Intn(len(cls))]
			}
			do(fmt.Sprintf("page class %s %d %s:%s", d, n, hexs(c), hexs(q)))
			do(fmt.Sprintf("apage %s %d %s -:%s", d, n, hexs("a"), hexs(q)))
			do(fmt.Sprintf("dpage class %s %d %s:%s", d, n, hexs(c), hexs(q)))
		}
	}
	do("page name asc 2 -")
	do("page name desc 2 -")
	do("page class asc 2 -")
	do("page class desc 2 -")
	do("dpage name asc 2 -")
	do("dpage class desc 2 -")
	do("apage asc 2 " + hexs("a") + " -")
	do("apage desc 2 " + hexs("a") + " -")
}

// decorate gives every name a class, a 5th title byte and a group flag.
func decorate(names []string, class5 bool) []board {
	r := run.R
	var bs []board
	cl := classes[r.Intn(len(classes))]
	for _, n := range names {
		c4 := byte(' ')
		if class5 && r.Intn(2) == 0 {
			c4 = r.Pick([]byte("XaA\xa1"))
		}
		if r.Intn(2) == 0 { // sticky: several boards per class, so that page boundaries fall inside a class
			cl = classes[r.Intn(len(classes))]
		}
		bs = append(bs, mkBoard(n, cl, c4, r.Intn(4) == 0))
	}
	// random slot order
	for i := len(bs) - 1; i > 0; i-- {
		j := r.Intn(i + 1)
		bs[i], bs[j] = bs[j], bs[i]
	}
	// every board belongs to a class: the root (1), one of the first slots, or none; never to itself
	for i := range bs {
		g := 0
		switch r.Intn(4) {
		case 0:
			g = 1
		case 1, 2:
			g = 1 + r.Intn(min(len(bs), 3))
		}
		if g == i+1 {
			g = 0
		}
		bs[i].gid = g
		if r.Intn(8) == 0 {
			bs[i].cc = r.Intn(4)
		}
	}
	return bs
}

// subsets of the alphabet of size k, each padded with up to `vac` vacated slots.
func smallTables(maxSize int, f func(names []string)) {
	n := len(alphabet)
	var rec func(start int, pick []string)
	rec = func(start int, pick []string) {
		for v := 0; len(pick)+v <= maxSize; v++ {
			names := append([]string{}, pick...)
			for i := 0; i < v; i++ {
				names = append(names, "")
			}
			f(names)
		}
		if len(pick) == maxSize {
			return
		}
		for i := start; i < n; i++ {
			rec(i+1, append(pick, alphabet[i]))
		}
	}
	rec(0, nil)
}

func randomName(r *hx.Rand, existing []string) string {
	al := []byte("abcABC_-09.xyz")
	if len(existing) > 0 && r.Intn(3) == 0 {
		// shared prefix: extend or cut an existing name
		e := existing[r.Intn(len(existing))]
		if e != "" {
			if r.Bool() && len(e) < 12 {
				return e + string(r.Bytes(1+r.Intn(12-len(e)), al))
			}
			return e[:1+r.Intn(len(e))]
		}
	}
	return string(r.Bytes(1+r.Intn(12), al))
}

func randomTable(n int) []string {
	r := run.R
	var names []string
	seen := map[string]bool{}
	for len(names) < n {
		if r.Intn(9) == 0 {
			names = append(names, "")
			continue
		}
		nm := randomName(r, names)
		l := strings.ToLower(nm)
		if seen[l] {
			continue
		}
		seen[l] = true
		names = append(names, nm)
	}
	return names
}

// fixtureBoards reads the repository's 12-board test fixture that bbsenv copied to .BRD.
func fixtureBoards() []board {
	b, err := os.ReadFile(env.Path(".BRD"))
	if err != nil {
		return nil
	}
	sz := int(ptttype.BOARD_HEADER_RAW_SZ)
	var out []board
	for i := 0; i+sz <= len(b); i += sz {
		h := &ptttype.BoardHeaderRaw{}
		if err := binary.Read(bytes.NewReader(b[i:i+sz]), binary.LittleEndian, h); err != nil {
			break
		}
		out = append(out, board{append([]byte{}, h.Brdname[:]...), append([]byte{}, h.Title[:title8]...),
			h.BrdAttr&(ptttype.BRD_GROUPBOARD|ptttype.BRD_SYMBOLIC) != 0, int(h.Gid), int(h.ChildCount)})
	}
	return out
}

// ---- the streams ------------------------------------------------------------------------------------

func generate() {
	r := run.R
	thorough := run.Thorough()

	// 00. a restarted daemon finds BBusyState left set by a loader that died: the table must still be loaded
	busyCases(thorough)

	// 000. a .BRD with more records than the table holds
	oversized(thorough)

	// 0a. class boards in every slot, the last one included; sub-classes under a class (smallest tables first, so that
	// the first failure of a run is a short history)
	classTables()

	// 0. the repository's fixture (F6 was found on it: FindBoardIdxByName("0", asc))
	if fx := fixtureBoards(); len(fx) > 0 {
		resetTable(fx)
		do("find name asc " + hexs("0"))
		do("find name desc " + hexs("0"))
		battery(fx, 2)
	}

	// 1. the cases outside the theorems' hypotheses, each judged under its own key
	excluded()

	// 1b. classes shorter than 4 bytes, blank-padded, holding several boards: every page boundary inside the class
	paddedClasses()

	// 2. exhaustive small shapes, smallest first
	maxSize := 4
	if thorough {
		maxSize = 6
	}
	for size := 0; size <= maxSize; size++ {
		smallTables(size, func(names []string) {
			if len(names) != size {
				return
			}
			resetTable(decorate(names, false))
			battery(cur2boards(), 2)
		})
	}
	run.Exhaust = false

	// 3. random tables up to MAX_BOARD
	nRand := 25
	if thorough {
		nRand = 1500
	}
	for i := 0; i < nRand; i++ {
		n := 5 + r.Intn(maxBoard-4)
		switch {
		case i == 0:
			n = maxBoard
		case i == 1:
			n = maxBoard - 1
		case i%3 == 0:
			n = 5 + r.Intn(16)
		}
		resetTable(decorate(randomTable(n), false))
		battery(cur2boards(), 1)
	}

	// 4. malformed stream
	malformed()
}

// cur2boards: the loaded table as `board`s (slot order).
func cur2boards() []board {
	var bs []board
	for i := 0; i < cur.n; i++ {
		bs = append(bs, board{cur.name[i], cur.title[i][:title8], cur.grp[i], cur.gid[i], cur.cc[i]})
	}
	return bs
}

func plain(names ...string) []board {
	var bs []board
	for _, n := range names {
		bs = append(bs, mkBoard(n, "aaaa", ' ', false))
	}
	return bs
}

// excluded: what the proofs force out of the theorems, run on the real code as candidate counterexamples.
func excluded() {
	// (a) descending auto-completion, keyword ending in 'Z': the successor keyword "a[" folds below "az"
	resetTable(plain("a_", "az"))
	do("ac desc " + hexs("aZ"))
	do("ac desc " + hexs("az"))
	do("awalk desc 1 " + hexs("aZ"))
	resetTable(plain("Z1", "Z2", "_x"))
	do("ac desc " + hexs("Z"))
	// (b) keyword ending in '@': three names between "x@..." and the successor "xA"
	resetTable(plain("x@a", "x_1", "x_2", "x_3"))
	do("ac desc " + hexs("x@"))
	// (c) keyword ending in 0xff: the successor byte wraps to NUL
	resetTable(plain("a", "a\xffx"))
	do("ac desc " + hexs("a\xff"))
	// (d) a keyword longer than a board name: boardIDInCache[:len(keyword)]
	resetTable(plain("a", "b"))
	do("ac asc " + hexs("abcdefghijklmn"))
	do("ac desc " + hexs("abcdefghijklmn"))
	do("awalk asc 2 " + hexs("abcdefghijklmn"))
	resetTable(nil)
	do("ac asc " + hexs("abcdefghijklmn"))
	// (e) the empty keyword: descending, findBoardClosetKeyword indexes boardID[-1]; the bbs layer starts at position 1
	resetTable(plain("a", "b", "c"))
	do("ac desc -")
	do("ac asc -")
	do("awalk desc 1 -")
	do("awalk desc 5 -")
	do("awalk asc 1 -")
	// (f) names equal up to case (C12 refuses to create them; a .BRD written by other tools may hold them)
	resetTable(plain("a", "A"))
	battery(cur2boards(), 2)
	resetTable(plain("A", "a", "x"))
	battery(cur2boards(), 2)
	n := 0
	for _, d := range dupAlphabet {
		for _, x := range alphabet[:4] {
			for _, y := range []string{"", "zz"} {
				if n%3 == 0 {
					resetTable(decorate([]string{d, x, y, strings.ToLower(d)}, false))
					battery(cur2boards(), 2)
				}
				n++
			}
		}
	}
	// (g) a fifth title byte that is not a blank: BoardClass() is then 5 bytes, the sort key is Title[:4]
	resetTable([]board{mkBoard("a", "abcd", 'Z', false), mkBoard("b", "abcd", ' ', false)})
	battery(cur2boards(), 2)
	do("find class asc " + hexs("abcd") + " " + hexs("b"))
	resetTable(decorate([]string{"a", "ab", "b", "a0", ""}, true))
	battery(cur2boards(), 2)
	resetTable(decorate(randomTable(30), true))
	battery(cur2boards(), 1)
}

// paddedClasses: the by-class cursor of a board must resolve to that board also when its class column is padded
// ("bb  "): every page size, both directions, summaries and details, and the explicit cursor of every board.
func paddedClasses() {
	for _, shape := range [][][2]string{
		{{"a", "bb  "}, {"b", "bb  "}},
		{{"a", "bb  "}, {"b", "bb  "}, {"c", "bb  "}},
		{{"x", "aaaa"}, {"a", "bb  "}, {"b", "bb  "}, {"c", "bb  "}, {"y", "cccc"}},
		{{"x", "b   "}, {"a", "bb  "}, {"b", "bb  "}, {"c", "b   "}, {"y", "    "}, {"z", "    "}},
		{{"x", "bb"}, {"a", "bb  "}, {"b", "bb "}, {"c", "bb  "}, {"y", "bb"}},
	} {
		var bs []board
		for _, s := range shape {
			bs = append(bs, mkBoard(s[0], s[1], ' ', false))
		}
		resetTable(bs)
		for n := 1; n <= len(bs)+1; n++ {
			for _, d := range []string{"asc", "desc"} {
				do(fmt.Sprintf("walk class %s %d", d, n))
				do(fmt.Sprintf("dwalk class %s %d", d, n))
				do(fmt.Sprintf("walk name %s %d", d, n))
				do(fmt.Sprintf("dwalk name %s %d", d, n))
			}
		}
		for _, s := range shape {
			for _, d := range []string{"asc", "desc"} {
				// the cursor as the bbs layer serialises it (class column as stored) and with the padding stripped
				do(fmt.Sprintf("page class %s 1 %s:%s", d, hexs(s[1]), hexs(s[0])))
				do(fmt.Sprintf("dpage class %s 1 %s:%s", d, hexs(s[1]), hexs(s[0])))
				do(fmt.Sprintf("find class %s %s %s", d, hexs(s[1]), hexs(s[0])))
				do(fmt.Sprintf("find class %s %s %s", d, hexs(strings.TrimRight(s[1], " ")), hexs(s[0])))
			}
		}
	}
}

// classTables: which slots hold a class (group board) — every subset for up to 5 slots, so that the class sits in the
// first, a middle and the LAST slot of the table, next to vacated slots and vacated classes — listed through
// LoadFullClassBoards with every page size and every start bid; and classes with 0..8 sub-classes for LoadClassBoards.
func classTables() {
	names := []string{"ca", "cb", "cc", "cd", "ce"}
	for n := 0; n <= 5; n++ {
		for mask := 0; mask < 1<<uint(n); mask++ {
			for _, vac := range []int{-1, 0, n - 1} {
				if vac >= n || (vac == 0 && n == 1 && mask == 0) {
					continue
				}
				var bs []board
				for i := 0; i < n; i++ {
					nm := names[i]
					if i == vac {
						nm = "" // a vacated slot, possibly still flagged as a class
					}
					b := mkBoard(nm, "aaaa", ' ', mask&(1<<uint(i)) != 0)
					if i > 0 {
						b.gid = 1
					}
					bs = append(bs, b)
				}
				resetTable(bs)
				for p := 1; p <= n+1; p++ {
					do(fmt.Sprintf("fwalk %d", p))
				}
				for b := 0; b <= n+1; b++ {
					do(fmt.Sprintf("fpage %d 1", b))
					do(fmt.Sprintf("fpage %d 2", b))
				}
				do("children 1 name")
				do("children 1 class")
				if n >= 2 {
					do("children 2 name")
				}
			}
		}
	}
	// a class with k sub-classes (and some ordinary children), stored ChildCount 0 or k
	for k := 0; k <= 8; k++ {
		for _, cc := range []int{0, k} {
			bs := []board{mkBoard("root", "aaaa", ' ', true), mkBoard("cls", "aaaa", ' ', true)}
			bs[1].gid = 1
			bs[1].cc = cc
			for i := 0; i < k; i++ {
				b := mkBoard(fmt.Sprintf("sub%d", (i*5)%9), "aaab", ' ', true)
				b.gid = 2
				bs = append(bs, b)
				o := mkBoard(fmt.Sprintf("ord%d", i), "aaab", ' ', false)
				o.gid = 2
				bs = append(bs, o)
			}
			resetTable(bs)
			do("children 2 name")
			do("children 2 class")
			do("children 1 name")
			do("children 2 name") // again: the child links of the first call are in place
			do("fwalk 3")
		}
	}
	// a full table whose last slot is a class
	var bs []board
	for i := 0; i < maxBoard; i++ {
		bs = append(bs, mkBoard(fmt.Sprintf("b%03d", i), "aaaa", ' ', i%7 == 0 || i == maxBoard-1))
	}
	resetTable(bs)
	do("fwalk 1")
	do("fwalk 4")
	do(fmt.Sprintf("fpage %d 1", maxBoard))
}

// busyCases: `busy 1` stands for the dead loader; the following reset (ReloadBCache waits 10 x 1 s, then loads) must
// give the table of .BRD, sorted orders and a released flag; lookups and listings are then judged as usual.
func busyCases(thorough bool) {
	// quick tier: the case is run from corpus/C11/busy-flag-r6-1.ops (each case waits 10 s)
	var cases [][2][]board
	if thorough {
		cases = append(cases, [2][]board{plain("old1", "old2", "old3"), plain("b", "a", "c", "")})
		cases = append(cases, [2][]board{nil, plain("x", "y")}, [2][]board{plain("p", "q"), nil},
			[2][]board{decorate(randomTable(40), false), decorate(randomTable(25), false)})
	}
	for _, c := range cases {
		resetTable(c[0])
		cache.Shm.Shm.BBusyState = 1 // the dead loader; recorded in the reset line as the token `busy`
		resetTable(c[1])
		do("bid " + hexs("a"))
		do("bid " + hexs("old1"))
		do("find name asc " + hexs("0"))
		do("walk name asc 1")
		do("walk class desc 2")
		do("fwalk 1")
		// whatever happened: the operator's remedy, so that the rest of the run is not slowed down by a flag left set
		do("busy 0")
	}
}

// oversized: .BRD files of more than MAX_BOARD records: NumBoards = MAX_BOARD, both orders are permutations of the
// first MAX_BOARD records, lookups resolve inside them and answer "none" for the records beyond, no panic.
func oversized(thorough bool) {
	extras := []int{3}
	if thorough {
		extras = []int{1, 3, maxBoard, 2*maxBoard + 7}
	}
	for _, x := range extras {
		var bs []board
		for i := 0; i < maxBoard+x; i++ {
			bs = append(bs, mkBoard(fmt.Sprintf("b%03d", (i*37)%(maxBoard+x)), "aaaa", ' ', i%9 == 0 || i == maxBoard-1))
		}
		resetTable(bs)
		for _, i := range []int{0, 1, maxBoard - 1, maxBoard, maxBoard + x - 1} {
			q := string(cstr(bs[i].name))
			do("bid " + hexs(q))
			do("find name asc " + hexs(q))
			do("find class desc " + hexs("aaaa") + " " + hexs(q))
		}
		do("walk name asc 7")
		do("walk class desc 13")
		do("dwalk name desc 11")
		do("awalk asc 5 " + hexs("b0"))
		do("fwalk 4")
		do(fmt.Sprintf("fpage %d 2", maxBoard))
		do("children 1 name")
	}
}

func malformed() {
	resetTable(plain("a", "ab", "b"))
	for _, l := range []string{
		"", "bid", "bid zz", "bid 6", "bid 61 62", "find", "find name up 61", "find name asc", "find name asc 6g", "find class asc 61",
		"find class asc 61 zz", "find class sideways 61 61", "find title asc 61", "ac asc", "ac up 61", "ac asc 6", "page name asc 2", "page name asc x -",
		"page name asc 2 61", "page name asc 2 61:62:63", "page title asc 2 -", "page name asc 2 zz:61", "apage asc 2 61", "apage asc 2 6 -",
		"busy", "busy 2", "busy x", "reset 100 13 - - - over=", "reset 100 13 - - - over=x", "reset 100 13 - - - busy over=1", "fwalk", "fwalk x", "fpage 1", "fpage x 1", "children 1", "children x name", "children 1 title", "fwalk 0", "fwalk -1", "fpage 1 0", "fpage 1 -1", "fpage 1 -2",
		"reset 100 13 61000000000000000000000000:6161616120a1b778:0:x:0 0 0", "reset 100 13 61000000000000000000000000:6161616120a1b778:0:1 0 0",
		"walk name asc", "walk name asc 1.5", "walk nam asc 1", "awalk asc 1", "awalk asc 1 6", "reset", "reset 100 13 zz - -",
		"reset 100 13 61:62 - -", "reset x 13 - - -", "frobnicate 1 2",
		// page sizes <= 0: nBoards+1 <= 0 (makeslice / summaries[-1]); 0 never advances
		"page name asc 0 -", "page name asc -1 -", "page name asc -2 -", "page name desc -1 -", "page class asc -1 -", "apage asc -1 61 -",
		"apage desc -2 61 -", "walk name asc 0", "walk name asc -1", "walk class desc -2", "awalk asc 0 61", "awalk desc -1 61",
		// NUL bytes in keywords and queries
		"ac asc 610062", "ac desc 610062", "ac asc 00", "ac desc 00", "awalk asc 1 610062", "apage asc 1 6100 -", "bid 610062", "find name asc 0061",
		"find class asc 61006161 61", "page class asc 1 6161:6140", "page name asc 1 -:6140", "page class asc 1 -:-", "page name asc 1 -:-",
	} {
		do(l)
	}
}
