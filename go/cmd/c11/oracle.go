package main

// The property oracle P̂ of C11: linear scans over the real BCache / BSorted, written without reference to the model.
//
// Specification (DESIGN.md, C11):
//  (i)   BSorted[byName] and BSorted[byClass] are permutations of [0, BNumber) in non-decreasing order of
//        name (ASCII case folded) resp. (Title[:4], name);
//  (ii)  GetBid q = a board whose name equals q up to case, or 0 if there is none;
//  (iii) FindBoardIdxByName/ByClass q dir = the position of an entry equal to q if there is one, else the least
//        position whose entry is > q (asc) / the greatest whose entry is < q (desc), else -1;
//  (iv)  FindBoardAutoCompleteStartIdx p dir = the first (last) position whose name has prefix p up to case, else -1;
//  (v)   paging a listing through its next-cursor gives every visible board exactly once, in sorted order
//        (reverse for desc), in pages of exactly n except the last.

import (
	"bytes"
	"fmt"
	"sort"
	"strconv"
	"strings"

	"github.com/Ptt-official-app/go-pttbbs/cache"
	"github.com/Ptt-official-app/go-pttbbs/ptttype"

	"verifharness/internal/hx"
)

type table struct {
	bnumber  int // Shm.BNumber as found
	n        int
	name     [][]byte // Brdname, all bytes
	title    [][]byte // Title, all bytes
	grp      []bool
	gid      []int
	cc       []int
	sorted   [2][]int
	low      [][]byte // the C string of the name, ASCII lower-cased
	cls4     [][]byte // the C string of Title[:4]
	okSorted [2]bool
	dup      bool // two non-vacated boards whose names are equal up to case
	class5   bool // a board whose BoardClass() (Title[:5] unless Title[4]==' ') is not the C string of Title[:4]
	invalid  bool // a non-vacated name with a byte outside [A-Za-z0-9_.-] (C12 never creates one)
	vacated  int
}

// The property's domain is the board tables the system can produce (C12): names of letters/digits/_-. that are
// pairwise distinct up to case, title byte 4 a blank.  Tables outside it are still generated and compared with the
// model, but a deviation from the scan on them is recorded (NOTE), not judged.
func (t *table) ood(k int) bool {
	return t.dup || t.invalid || (k == 1 && t.class5)
}

// detailsMode: the op being run and judged is on bbs.LoadGeneralBoardDetails, which lists every NON-VACATED slot of
// the view (no group / permission filter).  Before fix 6f287ee it listed vacated slots too, which have no usable
// cursor (by name the empty string = "no next page", by class one shared key): failures on tables with vacated
// slots carry the suffix +vacated (keys walk:details-name+vacated, walk:details-class+vacated).
var detailsMode bool

var oodCount = map[string]int{}
var oodFirst = map[string]string{}

// report: a deviation from the specification; judged inside the domain, recorded outside.
func report(i int, key string, ood bool, f string, a ...interface{}) {
	if !ood {
		run.Fail(i, key, fmt.Sprintf(f, a...))
		return
	}
	if oodCount[key] == 0 {
		oodFirst[key] = fmt.Sprintf(f, a...)
	}
	oodCount[key]++
}

// op records one op; besides hx's count of distinct op lines it counts distinct (table, op line) pairs.
var (
	seenInTable = map[string]struct{}{}
	tableOps    int
)

func op(line, out, label string, nontrivial bool) int {
	if strings.HasPrefix(line, "reset ") {
		seenInTable = map[string]struct{}{}
	} else if nontrivial {
		if _, ok := seenInTable[line]; !ok {
			seenInTable[line] = struct{}{}
			tableOps++
		}
	}
	return run.Op(line, out, label, nontrivial)
}

func flushNotes() {
	run.Extra["distinct_table_op_pairs"] = tableOps
	keys := make([]string, 0, len(oodCount))
	for k := range oodCount {
		keys = append(keys, k)
	}
	sort.Strings(keys)
	for _, k := range keys {
		run.Note(fmt.Sprintf("outside the property's domain (recorded, not judged): %s x%d, first: %s", k, oodCount[k], trunc(oodFirst[k], 300)))
	}
	run.Extra["out_of_domain_deviations"] = oodCount
}

func validNameByte(c byte) bool {
	return c >= 'a' && c <= 'z' || c >= 'A' && c <= 'Z' || c >= '0' && c <= '9' || c == '_' || c == '-' || c == '.'
}

func cstr(b []byte) []byte {
	if i := bytes.IndexByte(b, 0); i >= 0 {
		return b[:i]
	}
	return b
}

func lower(b []byte) []byte {
	out := make([]byte, len(b))
	for i, c := range b {
		if c >= 'A' && c <= 'Z' {
			c += 'a' - 'A'
		}
		out[i] = c
	}
	return out
}

// readTable reads the loaded table back from shared memory.
func readTable() *table {
	shm := cache.Shm.Shm
	t := &table{n: int(shm.BNumber), bnumber: int(shm.BNumber)}
	if t.n > maxBoard || t.n < 0 {
		t.n = maxBoard // BNumber beyond the arrays: judged at the reset line (load:oversized), the rest reads the table
	}
	for i := 0; i < t.n; i++ {
		b := &shm.BCache[i]
		t.name = append(t.name, append([]byte{}, b.Brdname[:]...))
		t.title = append(t.title, append([]byte{}, b.Title[:]...))
		t.grp = append(t.grp, b.BrdAttr&(ptttype.BRD_GROUPBOARD|ptttype.BRD_SYMBOLIC) != 0)
		t.gid = append(t.gid, int(b.Gid))
		t.cc = append(t.cc, int(b.ChildCount))
		t.low = append(t.low, lower(cstr(b.Brdname[:])))
		t.cls4 = append(t.cls4, append([]byte{}, cstr(b.Title[:4])...))
		if len(t.low[i]) == 0 {
			t.vacated++
		}
		for _, c := range cstr(b.Brdname[:]) {
			if !validNameByte(c) {
				t.invalid = true
			}
		}
		if len(cstr(b.Brdname[:])) == nameLen {
			t.invalid = true // no terminating NUL
		}
		c5 := b.Title[:5]
		if b.Title[4] == ' ' {
			c5 = b.Title[:4]
		}
		if !bytes.Equal(cstr(c5), t.cls4[i]) {
			t.class5 = true
		}
	}
	for k := 0; k < 2; k++ {
		for i := 0; i < t.n; i++ {
			t.sorted[k] = append(t.sorted[k], int(shm.BSorted[k][i]))
		}
	}
	for i := 0; i < t.n; i++ {
		for j := i + 1; j < t.n; j++ {
			if len(t.low[i]) > 0 && bytes.Equal(t.low[i], t.low[j]) {
				t.dup = true
			}
		}
	}
	for k := 0; k < 2; k++ {
		t.okSorted[k] = t.isSortedPerm(k)
	}
	return t
}

// keyCmp compares board x with board y in the order of BSorted[k].
func (t *table) keyCmp(k int, x, y int) int {
	if k == 1 {
		if c := bytes.Compare(t.cls4[x], t.cls4[y]); c != 0 {
			return c
		}
	}
	return bytes.Compare(t.low[x], t.low[y])
}

// qCmp compares the query (cls, q) with board y.
func (t *table) qCmp(k int, cls, qlow []byte, y int) int {
	if k == 1 {
		if c := bytes.Compare(cstr(cls), t.cls4[y]); c != 0 {
			return c
		}
	}
	return bytes.Compare(qlow, t.low[y])
}

func (t *table) isSortedPerm(k int) bool {
	seen := make([]bool, t.n)
	for _, b := range t.sorted[k] {
		if b < 0 || b >= t.n || seen[b] {
			return false
		}
		seen[b] = true
	}
	for i := 0; i+1 < t.n; i++ {
		if t.keyCmp(k, t.sorted[k][i], t.sorted[k][i+1]) > 0 {
			return false
		}
	}
	return true
}

func (t *table) listable(b int) bool { return len(t.low[b]) > 0 && (detailsMode || !t.grp[b]) }

func (t *table) suffix() string {
	if t.dup {
		return "+dupname"
	}
	return ""
}

func nbucket(n int) string {
	switch {
	case n <= 6:
		return strconv.Itoa(n)
	case n <= 20:
		return "7-20"
	case n < maxBoard:
		return "21-99"
	}
	return "max"
}

func fail(i int, key, f string, a ...interface{}) {
	run.Fail(i, key, fmt.Sprintf(f, a...))
}

func dirName(isAsc bool) string {
	if isAsc {
		return "asc"
	}
	return "desc"
}

// ---- reset ------------------------------------------------------------------------------------

func resetTable(bs []board) {
	busyBefore := cache.Shm.Shm.BBusyState != 0
	line := setTable(bs)
	if busyBefore {
		line += " busy"
	} else if len(bs) > t0n() {
		line += fmt.Sprintf(" over=%d", len(bs)-t0n())
	}
	t := cur
	b2i := func(b bool) int {
		if b {
			return 1
		}
		return 0
	}
	busyAfter := cache.Shm.Shm.BBusyState != 0
	out := fmt.Sprintf("n=%d sorted=%d,%d busy=%d resorted=%d", t.n, b2i(t.okSorted[0]), b2i(t.okSorted[1]), b2i(busyAfter),
		b2i(t.okSorted[0] && t.okSorted[1]))
	label := "reset:n=" + nbucket(t.n)
	if busyBefore {
		label += ":stale-busy-flag"
	}
	if t.vacated > 0 {
		label += ":vacated"
	}
	if t.dup {
		label += ":dupname"
	}
	if t.class5 {
		label += ":class5"
	}
	if len(bs) > maxBoard {
		label += ":oversized-file"
	}
	if t.invalid {
		label += ":invalid-names"
	}
	i := op(line, out, label, false)
	// the loaded table is the file that was written, whatever the busy flag said before (a stale flag can only be the
	// leftover of a dead loader), and the flag is released afterwards
	if reloadPanic != "" {
		fail(i, "crash:reload", "ReloadBCache PANIC (%s) on a .BRD of %d records (MAX_BOARD %d)", hx.LastPanic, len(bs), maxBoard)
	}
	if t.bnumber != t.n || t.n != min(len(bs), maxBoard) {
		fail(i, "load:oversized", "a .BRD of %d records gives NumBoards = %d; the table holds %d", len(bs), t.bnumber, maxBoard)
	}
	if len(bs) > maxBoard {
		bs = bs[:maxBoard]
	}
	if d := t.diffWritten(bs); d != "" {
		fail(i, "load:table", "after ReloadBCache (busy flag before: %v) the cache does not hold .BRD: %s", busyBefore, d)
	}
	if busyAfter {
		fail(i, "load:busy-flag", "BBusyState is still set after ReloadBCache (before: %v): every lookup sleeps, SortBCache never sorts", busyBefore)
	}
	if !t.okSorted[0] {
		fail(i, "sorted:byname", "BSorted[byName] = %v is not a sorted permutation of the %d boards", t.sorted[0], t.n)
	}
	if !t.okSorted[1] {
		fail(i, "sorted:byclass", "BSorted[byClass] = %v is not a sorted permutation of the %d boards", t.sorted[1], t.n)
	}
}

func t0n() int { return cur.n }

// diffWritten compares the loaded table with the boards written to .BRD.
func (t *table) diffWritten(bs []board) string {
	if t.n != len(bs) {
		return fmt.Sprintf("%d boards loaded, %d written", t.n, len(bs))
	}
	for i, b := range bs {
		nm := make([]byte, nameLen)
		copy(nm, b.name)
		if !bytes.Equal(nm, t.name[i]) || !bytes.Equal(b.title, t.title[i][:title8]) || b.grp != t.grp[i] || b.gid != t.gid[i] {
			return fmt.Sprintf("slot %d holds %q, written %q", i+1, cstr(t.name[i]), cstr(nm))
		}
	}
	return ""
}

// ---- (ii) GetBid --------------------------------------------------------------------------------

func qlow(q []byte) []byte {
	b := make([]byte, nameLen)
	copy(b, q)
	return lower(cstr(b))
}

func judgeBid(line, out string, q []byte) {
	t := cur
	ql := qlow(q)
	var hits []int
	for b := 0; b < t.n; b++ {
		if bytes.Equal(ql, t.low[b]) {
			hits = append(hits, b+1)
		}
	}
	label := "bid:miss"
	if len(hits) == 1 {
		label = "bid:hit"
	} else if len(hits) > 1 {
		label = "bid:hit-several"
	}
	if len(ql) == 0 {
		label += ":empty-name"
	}
	i := op(line, out, label, !t.ood(0))
	if out == "PANIC" || out == "TIMEOUT" {
		fail(i, "crash:bid", "GetBid(%q) %s (%s)", q, out, hx.LastPanic)
		return
	}
	got, err := strconv.Atoi(out)
	ok := err == nil
	if ok {
		if len(hits) == 0 {
			ok = got == 0
		} else {
			ok = false
			for _, h := range hits {
				ok = ok || h == got
			}
		}
	}
	if !ok {
		fail(i, "scan:bid", "GetBid(%q) = %s; boards with that name up to case: %v (0 = none) | table %s", q, out, hits, t.show())
	}
}

// ---- (iii) positional search ---------------------------------------------------------------------

// nearest returns the acceptable 1-based answers of a positional search and a description of the case.
func (t *table) nearest(k int, isAsc bool, cls, ql []byte) (want []int, kind string) {
	ord := t.sorted[k]
	if t.n == 0 {
		return []int{-1}, "empty"
	}
	for p, b := range ord {
		if t.qCmp(k, cls, ql, b) == 0 {
			want = append(want, p+1)
		}
	}
	if len(want) > 0 {
		return want, "exact"
	}
	below := t.qCmp(k, cls, ql, ord[0]) < 0
	above := t.qCmp(k, cls, ql, ord[t.n-1]) > 0
	kind = "between"
	if below {
		kind = "below-first"
	} else if above {
		kind = "above-last"
	}
	if isAsc {
		for p, b := range ord {
			if t.qCmp(k, cls, ql, b) < 0 {
				return []int{p + 1}, kind
			}
		}
		return []int{-1}, kind
	}
	for p := t.n - 1; p >= 0; p-- {
		if t.qCmp(k, cls, ql, ord[p]) > 0 {
			return []int{p + 1}, kind
		}
	}
	return []int{-1}, kind
}

func contains(l []int, v int) bool {
	for _, x := range l {
		if x == v {
			return true
		}
	}
	return false
}

func judgeFind(line, out string, by ptttype.BSortBy, isAsc bool, cls, q []byte) {
	t := cur
	k := int(by)
	what := "name"
	if k == 1 {
		what = "class"
	}
	ql := qlow(q)
	want, kind := t.nearest(k, isAsc, cls, ql)
	label := "find:" + what + ":" + dirName(isAsc) + ":" + kind
	if t.ood(k) {
		label += ":out-of-domain"
	}
	i := op(line, out, label, !t.ood(k))
	if out == "PANIC" || out == "TIMEOUT" {
		fail(i, "crash:find-"+what, "%s %s (%s)", line, out, hx.LastPanic)
		return
	}
	if !t.okSorted[k] {
		return // judged at the reset line
	}
	got, err := strconv.Atoi(out)
	if err == nil && contains(want, got) {
		return
	}
	key := "scan:" + what + "-" + dirName(isAsc)
	if isAsc && kind == "below-first" {
		key = "scan:asc-before-first"
	}
	if k == 1 && t.class5 {
		key += "+class5"
	}
	if kind == "exact" && len(want) > 1 {
		key += t.suffix()
	}
	report(i, key, t.ood(k), "FindBoardIdxBy%s(cls=%q, %q, %s) = %s, the scan of BSorted gives %v (%s) | table %s", what, cls, q, dirName(isAsc), out, want, kind, t.showSorted(k))
}

// ---- (iv) auto-completion start -------------------------------------------------------------------

// acClass names the keyword classes that had their own defects before fix b555081 (their keys are kept so that a
// regression is reported under the recorded key); "nul" has no defined answer.
func acClass(isAsc bool, kw []byte) string {
	switch {
	case len(kw) == 0:
		return "emptykw"
	case bytes.IndexByte(kw, 0) >= 0:
		return "nul"
	case len(kw) > nameLen-1:
		return "longkw"
	}
	if !isAsc && kw[len(kw)-1] == 'Z' {
		return "lastZ"
	}
	return ""
}

// prefixed: positions (0-based, in by-name order) whose name has the prefix up to case.
func (t *table) prefixed(kw []byte) []int {
	kl := lower(kw)
	var out []int
	for p, b := range t.sorted[0] {
		if bytes.HasPrefix(t.low[b], kl) {
			out = append(out, p)
		}
	}
	return out
}

func judgeAuto(line, out string, isAsc bool, kw []byte) {
	t := cur
	cls := acClass(isAsc, kw)
	label := "ac:" + dirName(isAsc)
	if cls != "" {
		label += ":" + cls
	}
	if cls == "nul" {
		// a keyword with a NUL byte has no defined first match: compared with the model only
		op(line, out, label+":unjudged", false)
		return
	}
	pp := t.prefixed(kw)
	want := -1
	if len(pp) > 0 {
		if isAsc {
			want = pp[0] + 1
		} else {
			want = pp[len(pp)-1] + 1
		}
		label += ":found"
	} else {
		label += ":none"
	}
	ood := t.ood(0)
	if ood {
		label += ":out-of-domain"
	}
	i := op(line, out, label, !ood)
	if out == "PANIC" || out == "TIMEOUT" {
		key := "crash:ac"
		if cls == "longkw" || cls == "emptykw" {
			key += "-" + cls
		}
		fail(i, key, "FindBoardAutoCompleteStartIdx(%q, %s) %s (%s) | table %s", kw, dirName(isAsc), out, hx.LastPanic, t.showSorted(0))
		return
	}
	if !t.okSorted[0] {
		return
	}
	if out == strconv.Itoa(want) {
		return
	}
	key := "scan:ac-" + dirName(isAsc)
	if cls != "" {
		key += "-" + cls
	}
	report(i, key+t.suffix(), ood, "FindBoardAutoCompleteStartIdx(%q, %s) = %s, the scan gives %d (positions with the prefix: %v) | table %s",
		kw, dirName(isAsc), out, want, pp, t.showSorted(0))
}

// ---- (v) listings ----------------------------------------------------------------------------------

// visible: the bids a complete walk must return, in order.
func (t *table) visible(auto bool, k int, isAsc bool, kw []byte) []int {
	var out []int
	kl := lower(kw)
	for _, b := range t.sorted[k] {
		if !t.listable(b) || (auto && !bytes.HasPrefix(t.low[b], kl)) {
			continue
		}
		out = append(out, b+1)
	}
	if !isAsc {
		for i, j := 0, len(out)-1; i < j; i, j = i+1, j-1 {
			out[i], out[j] = out[j], out[i]
		}
	}
	return out
}

func listingName(auto bool, k int) string {
	if auto {
		return "auto"
	}
	if detailsMode {
		if k == 1 {
			return "details-class"
		}
		return "details-name"
	}
	if k == 1 {
		return "class"
	}
	return "name"
}

func (t *table) walkKey(auto bool, k int, isAsc bool, kw []byte) string {
	key := "walk:" + listingName(auto, k)
	if auto {
		if c := acClass(isAsc, kw); c != "" && !(c == "emptykw" && isAsc) {
			key += "-" + dirName(isAsc) + "-" + c
		}
	}
	if k == 1 && t.class5 {
		key += "+class5"
	}
	if detailsMode && t.vacated > 0 {
		key += "+vacated"
	}
	return key + t.suffix()
}

func judgeWalk(line, out string, auto bool, by ptttype.BSortBy, isAsc bool, n int, kw []byte, pages [][]int) {
	t := cur
	k := int(by)
	label := "walk:" + listingName(auto, k) + ":" + dirName(isAsc)
	if n < 1 {
		op(line, out, label+":n<1:unjudged", true)
		return
	}
	if auto && bytes.IndexByte(kw, 0) >= 0 {
		op(line, out, label+":nul:unjudged", true)
		return
	}
	vis := t.visible(auto, k, isAsc, kw)
	var wantPages []string
	for s := 0; s < len(vis); s += n {
		e := s + n
		if e > len(vis) {
			e = len(vis)
		}
		wantPages = append(wantPages, showBids(vis[s:e]))
	}
	if len(wantPages) == 0 {
		wantPages = []string{"-"}
	}
	want := "ok " + strings.Join(wantPages, "/")
	switch {
	case len(vis) == 0:
		label += ":nothing"
	case len(wantPages) == 1:
		label += ":one-page"
	case len(vis)%n == 0:
		label += ":full-last-page"
	default:
		label += ":pages"
	}
	if auto {
		if c := acClass(isAsc, kw); c != "" {
			label += ":" + c
		}
	}
	ood := t.ood(k)
	if ood {
		label += ":out-of-domain"
	}
	i := op(line, out, label, !ood)
	if !t.okSorted[k] || out == want {
		return
	}
	key := t.walkKey(auto, k, isAsc, kw)
	if out == "PANIC" {
		fail(i, "crash:"+key, "paging %s %s with page size %d%s PANIC (%s) | table %s", listingName(auto, k), dirName(isAsc), n, kwStr(auto, kw), hx.LastPanic, t.showSorted(k))
		return
	}
	report(i, key, ood, "paging %s %s with page size %d%s gives %s, the scan gives %s | table %s",
		listingName(auto, k), dirName(isAsc), n, kwStr(auto, kw), trunc(out, 200), trunc(want, 200), t.showSorted(k))
}

func kwStr(auto bool, kw []byte) string {
	if !auto {
		return ""
	}
	return fmt.Sprintf(" keyword %q", kw)
}

func trunc(s string, n int) string {
	if len(s) > n {
		return s[:n] + "..."
	}
	return s
}

// judgePage: one page from an arbitrary cursor.  The expected start is the positional search's specification; the
// page is the next n visible boards from there, the next-cursor names the one after them.
func judgePage(line, out string, auto bool, by ptttype.BSortBy, isAsc bool, n int, kw []byte, c cursor, r pageRes) {
	t := cur
	k := int(by)
	label := "page:" + listingName(auto, k) + ":" + dirName(isAsc)
	if n < 1 {
		op(line, out, label+":n<1:unjudged", true)
		return
	}
	if auto && (bytes.IndexByte(kw, 0) >= 0) {
		op(line, out, label+":nul:unjudged", true)
		return
	}
	ord := t.sorted[k]
	// start position (0-based) in sorted order, -1 = nothing to list
	start := 0
	if !isAsc {
		start = t.n - 1
	}
	cname := c.name
	if c.none || (k == 0 && len(cname) == 0) {
		label += ":from-start"
		if auto && len(kw) > 0 {
			pp := t.prefixed(kw)
			start = -1
			if len(pp) > 0 {
				if isAsc {
					start = pp[0]
				} else {
					start = pp[len(pp)-1]
				}
			}
		}
	} else {
		if k == 1 && bytes.IndexByte(cname, '@') >= 0 {
			// the by-class cursor string cannot carry a name with '@': the real code must refuse it
			i := op(line, out, label+":cursor-with-@", true)
			if out != "invalid-params" {
				fail(i, "walk:class-cursor", "a by-class cursor whose name contains '@' was not refused: %s", out)
			}
			return
		}
		want, kind := t.nearest(k, isAsc, c.cls, qlow(cname))
		label += ":cursor-" + kind
		if len(want) != 1 {
			op(line, out, label+":ambiguous:unjudged", true)
			return
		}
		start = want[0] - 1
		if want[0] == -1 {
			start = -1
		}
		if auto && start >= 0 && !bytes.HasPrefix(t.low[ord[start]], lower(kw)) {
			op(line, out, label+":foreign-cursor:unjudged", true)
			return
		}
	}
	var vis []int // bids from start in direction
	kl := lower(kw)
	if start >= 0 {
		for p := start; p >= 0 && p < t.n; {
			b := ord[p]
			if auto && !bytes.HasPrefix(t.low[b], kl) {
				break
			}
			if t.listable(b) {
				vis = append(vis, b)
			}
			if isAsc {
				p++
			} else {
				p--
			}
		}
	}
	items := vis
	next := "-"
	if len(vis) > n {
		items = vis[:n]
		nb := vis[n]
		nm := hx.Hex(cstr(t.name[nb]))
		if k == 0 {
			next = "*:" + nm
		} else {
			next = hx.Hex(t.cls4[nb]) + ":" + nm
		}
		label += ":more"
	} else {
		label += ":last"
	}
	bids := make([]int, len(items))
	for i, b := range items {
		bids[i] = b + 1
	}
	want := "ok " + showBids(bids) + " next=" + next
	ood := t.ood(k)
	if ood {
		label += ":out-of-domain"
	}
	i := op(line, out, label, !ood)
	if !t.okSorted[k] || out == want {
		return
	}
	key := t.walkKey(auto, k, isAsc, kw)
	if out == "PANIC" {
		fail(i, "crash:"+key, "%s PANIC (%s) | table %s", line, hx.LastPanic, t.showSorted(k))
		return
	}
	report(i, key, ood, "%s gives %s, the scan gives %s | table %s", line, trunc(out, 200), trunc(want, 200), t.showSorted(k))
}

// ---- the class listings: slot order, paged by bid ---------------------------------------------------

// classes: the bids (1-based, slot order) of the non-vacated group/symbolic boards from slot `from` (0-based) on.
func (t *table) classes(from int) []int {
	var out []int
	for b := from; b >= 0 && b < t.n; b++ {
		if len(t.low[b]) > 0 && t.grp[b] {
			out = append(out, b+1)
		}
	}
	return out
}

func (t *table) lastIsClass() bool { return t.n > 0 && len(t.low[t.n-1]) > 0 && t.grp[t.n-1] }

func (t *table) showSlots() string {
	var s []string
	for b := 0; b < t.n && b < 14; b++ {
		c := ""
		if t.grp[b] {
			c = "*"
		}
		s = append(s, fmt.Sprintf("%d:%q%s", b+1, cstr(t.name[b]), c))
	}
	if t.n > 14 {
		s = append(s, "...")
	}
	return "[" + strings.Join(s, " ") + "] (* = class)"
}

func judgeFullWalk(line, out string, n int) {
	t := cur
	label := "fwalk"
	if n < 1 {
		op(line, out, label+":n<1:unjudged", false)
		return
	}
	vis := t.classes(0)
	var pages []string
	for s := 0; s < len(vis); s += n {
		e := s + n
		if e > len(vis) {
			e = len(vis)
		}
		pages = append(pages, showBids(vis[s:e]))
	}
	if len(pages) == 0 {
		pages = []string{"-"}
	}
	want := "ok " + strings.Join(pages, "/")
	switch {
	case len(vis) == 0:
		label += ":nothing"
	case len(pages) == 1:
		label += ":one-page"
	default:
		label += ":pages"
	}
	if t.lastIsClass() {
		label += ":class-in-last-slot"
	}
	i := op(line, out, label, true)
	if out == want {
		return
	}
	if out == "PANIC" {
		fail(i, "crash:walk:fullclass", "paging the class listing with page size %d PANIC (%s) | slots %s", n, hx.LastPanic, t.showSlots())
		return
	}
	fail(i, "walk:fullclass", "paging the class listing with page size %d gives %s, the scan of the board table gives %s | slots %s",
		n, trunc(out, 200), trunc(want, 200), t.showSlots())
}

func judgeFullPage(line, out string, b, n int) {
	t := cur
	label := "fpage"
	if n < 1 {
		op(line, out, label+":n<1:unjudged", false)
		return
	}
	want := "invalid-bid"
	if b >= 1 && b <= maxBoard {
		vis := t.classes(b - 1)
		next := 0
		items := vis
		if len(vis) > n {
			items = vis[:n]
			next = vis[n]
		}
		want = "ok " + showBids(items) + " next=" + strconv.Itoa(next)
		switch {
		case b > t.n:
			label += ":start-beyond"
		case next != 0:
			label += ":more"
		default:
			label += ":last"
		}
	} else {
		label += ":invalid-bid"
	}
	i := op(line, out, label, true)
	if out == want {
		return
	}
	if out == "PANIC" {
		fail(i, "crash:walk:fullclass", "%s PANIC (%s) | slots %s", line, hx.LastPanic, t.showSlots())
		return
	}
	fail(i, "walk:fullclass", "%s gives %s, the scan of the board table gives %s | slots %s", line, trunc(out, 200), trunc(want, 200), t.showSlots())
}

// judgeChildren: bbs.LoadClassBoards = the non-vacated sub-classes whose Gid is the class, in sorted order (by class
// for the root class 1) — all of them, whatever ChildCount was stored (key list:children+cap when there are more than
// the ChildCount in shared memory before the call + 5: the defect repaired by ebc3be0), the same on every request.
func judgeChildren(line, out string, c int, by ptttype.BSortBy, ccNow int) {
	t := cur
	k := int(by)
	if c == 1 {
		k = 1
	}
	label := "children"
	want := "invalid-bid"
	nSub := 0
	capped := false
	if c >= 1 && c <= maxBoard {
		var sub []int
		for _, b := range t.sorted[k] {
			if t.gid[b] == c && len(t.low[b]) > 0 && t.grp[b] {
				sub = append(sub, b+1)
			}
		}
		nSub = len(sub)
		want = "ok " + showBids(sub)
		switch {
		case nSub == 0:
			label += ":none"
		case nSub > 5:
			label += ":more-than-5"
		default:
			label += ":some"
		}
		if c <= t.n && nSub > ccNow+5 {
			capped = true
			label += ":over-cap"
		}
	} else {
		label += ":invalid-bid"
	}
	selfGid := false
	for b := 0; b < t.n; b++ {
		if t.gid[b] == b+1 {
			selfGid = true
		}
	}
	if selfGid {
		op(line, out, label+":self-gid:unjudged", false)
		return
	}
	i := op(line, out, label, true)
	if !t.okSorted[k] || out == want {
		return
	}
	if out == "PANIC" {
		fail(i, "crash:children", "%s PANIC (%s) | slots %s", line, hx.LastPanic, t.showSlots())
		return
	}
	key := "list:children"
	if capped {
		key += "+cap"
	}
	report(i, key, false, "LoadClassBoards(%d, %s) gives %s, the scan gives %s (%d sub-classes, ChildCount in the record %d, in shared memory before the call %d) | slots %s",
		c, listingName(false, int(by)), trunc(out, 200), trunc(want, 200), nSub, ccOf(t, c), ccNow, t.showSlots())
}

func ccOf(t *table, c int) int {
	if c >= 1 && c <= t.n {
		return t.cc[c-1]
	}
	return 0
}

// ---- rendering for failure messages ---------------------------------------------------------------

func (t *table) show() string {
	var s []string
	for b := 0; b < t.n && b < 12; b++ {
		s = append(s, fmt.Sprintf("%d:%q", b+1, cstr(t.name[b])))
	}
	if t.n > 12 {
		s = append(s, "...")
	}
	return "[" + strings.Join(s, " ") + "]"
}

func (t *table) showSorted(k int) string {
	var s []string
	for p, b := range t.sorted[k] {
		if p >= 12 {
			s = append(s, "...")
			break
		}
		if k == 1 {
			s = append(s, fmt.Sprintf("%d:%q/%q", p+1, t.title[b][:5], cstr(t.name[b])))
		} else {
			s = append(s, fmt.Sprintf("%d:%q", p+1, cstr(t.name[b])))
		}
	}
	return "[" + strings.Join(s, " ") + "]"
}
