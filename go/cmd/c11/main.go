// c11: correspondence harness and property oracle for the board lookup and the board listings (property C11).
//
// A board table is written as a real .BRD file (256-byte BoardHeaderRaw records through encoding/binary) into a
// private BBSHOME, loaded with the REAL cache.ReloadBCache (which sorts BSorted[byName]/[byClass] with sort.Sort), and
// then queried through the REAL cache.GetBid / FindBoardIdxByName / FindBoardIdxByClass /
// FindBoardAutoCompleteStartIdx and bbs.LoadGeneralBoards / bbs.LoadAutoCompleteBoards (caller SYSOP, so the
// permission filter of C07 lets every board through).  One op line in, one canonical answer out; the Lean driver
// (Drv/C11.lean) answers the same lines from the model.
//
// The property oracle P̂ (oracle.go) never looks at the model: it scans the real BCache/BSorted linearly.
package main

import (
	"bytes"
	"encoding/base64"
	"encoding/binary"
	"fmt"
	"os"
	"regexp"
	"strconv"
	"strings"

	"github.com/Ptt-official-app/go-pttbbs/bbs"
	"github.com/Ptt-official-app/go-pttbbs/cache"
	"github.com/Ptt-official-app/go-pttbbs/ptttype"

	"verifharness/internal/bbsenv"
	"verifharness/internal/hx"
)

var (
	run *hx.Run
	env *bbsenv.Env
	cur *table // the oracle's view of the loaded table (read back from shared memory after the reload)
)

const (
	nameLen  = len(ptttype.BoardID_t{})
	titleLen = len(ptttype.BoardTitle_t{})
	maxBoard = int(ptttype.MAX_BOARD)
	title8   = 8
)

type board struct {
	name  []byte // ≤ nameLen bytes, zero padded
	title []byte // first 8 bytes of Title
	grp   bool
	gid   int // Gid: the class the board belongs to
	cc    int // ChildCount as stored in the record
}

// ---- token syntax (the Lean driver implements the same rules) ---------------------------

var (
	reNat = regexp.MustCompile(`^[0-9]{1,9}$`)
	reInt = regexp.MustCompile(`^-?[0-9]{1,9}$`)
	reOver = regexp.MustCompile(`^over=[0-9]{1,4}$`)
	reHex = regexp.MustCompile(`^([0-9a-fA-F][0-9a-fA-F])+$`)
)

func parseNat(s string) (int, bool) {
	if !reNat.MatchString(s) {
		return 0, false
	}
	v, _ := strconv.Atoi(s)
	return v, true
}

func parseInt(s string) (int, bool) {
	if !reInt.MatchString(s) {
		return 0, false
	}
	v, _ := strconv.Atoi(s)
	return v, true
}

func parseHex(s string) ([]byte, bool) {
	if s == "-" {
		return []byte{}, true
	}
	if !reHex.MatchString(s) {
		return nil, false
	}
	return hx.UnHex(s), true
}

func parseDir(s string) (isAsc bool, ok bool) {
	switch s {
	case "asc":
		return true, true
	case "desc":
		return false, true
	}
	return false, false
}

func parseBy(s string) (ptttype.BSortBy, bool) {
	switch s {
	case "name":
		return ptttype.BSORT_BY_NAME, true
	case "class":
		return ptttype.BSORT_BY_CLASS, true
	}
	return 0, false
}

func parseBoards(s string) ([]board, bool) {
	if s == "-" {
		return nil, true
	}
	var out []board
	for _, f := range strings.Split(s, ",") {
		p := strings.Split(f, ":")
		if (len(p) != 3 && len(p) != 5) || (p[2] != "0" && p[2] != "1") {
			return nil, false
		}
		n, ok1 := parseHex(p[0])
		t, ok2 := parseHex(p[1])
		if !ok1 || !ok2 {
			return nil, false
		}
		gid, cc := 0, 0
		if len(p) == 5 {
			var ok3, ok4 bool
			gid, ok3 = parseNat(p[3])
			cc, ok4 = parseNat(p[4])
			if !ok3 || !ok4 {
				return nil, false
			}
		}
		out = append(out, board{n, t, p[2] == "1", gid, cc})
	}
	return out, true
}

func parseNatList(s string) bool {
	if s == "-" {
		return true
	}
	for _, f := range strings.Split(s, ",") {
		if _, ok := parseNat(f); !ok {
			return false
		}
	}
	return true
}

type cursor struct {
	none      bool
	cls, name []byte
}

func parseCursor(s string) (cursor, bool) {
	if s == "-" {
		return cursor{none: true}, true
	}
	p := strings.Split(s, ":")
	if len(p) != 2 {
		return cursor{}, false
	}
	c, ok1 := parseHex(p[0])
	n, ok2 := parseHex(p[1])
	if !ok1 || !ok2 {
		return cursor{}, false
	}
	return cursor{cls: c, name: n}, true
}

// the cursor string the client sends back: IdxByName is the board name, IdxByClass is base64(class)@name.
func (c cursor) str(by ptttype.BSortBy) string {
	if c.none {
		return ""
	}
	if by == ptttype.BSORT_BY_NAME {
		return bbs.SerializeBoardIdxByNameStr(string(c.name))
	}
	return bbs.SerializeBoardIdxByClassStr(c.cls, string(c.name))
}

// showNext prints a nextIdxStr in the canonical form `clshex:namehex` (the class part is read back from the
// string the real code produced: everything before the FIRST '@' is the base64 of the class).
func showNext(by ptttype.BSortBy, s string) string {
	if s == "" {
		return "-"
	}
	if by == ptttype.BSORT_BY_NAME {
		// the model prints the class of the look-ahead board too; the by-name cursor does not carry it
		return "*:" + hx.Hex([]byte(s))
	}
	i := strings.IndexByte(s, '@')
	if i < 0 {
		return "?" + hx.Hex([]byte(s))
	}
	cls, err := base64.RawURLEncoding.DecodeString(s[:i])
	if err != nil {
		return "?" + hx.Hex([]byte(s))
	}
	return hx.Hex(cls) + ":" + hx.Hex([]byte(s[i+1:]))
}

// ---- writing and loading a table -----------------------------------------------------------

func boardID(q []byte) *ptttype.BoardID_t {
	b := &ptttype.BoardID_t{}
	copy(b[:], q)
	return b
}

var reloadPanic string // "PANIC" when the last ReloadBCache panicked

// setTable writes .BRD, reloads the board cache and returns the reset line carrying the real BSorted arrays.
func setTable(bs []board) string {
	var buf bytes.Buffer
	for _, b := range bs {
		h := &ptttype.BoardHeaderRaw{}
		copy(h.Brdname[:], b.name)
		copy(h.Title[:], b.title)
		if b.grp {
			h.BrdAttr = ptttype.BRD_GROUPBOARD
		}
		h.Gid = ptttype.Bid(b.gid)
		h.ChildCount = int32(b.cc)
		if err := binary.Write(&buf, binary.LittleEndian, h); err != nil {
			panic(err)
		}
	}
	if err := os.WriteFile(env.Path(".BRD"), buf.Bytes(), 0o644); err != nil {
		panic(err)
	}
	// poison both orders: only a SortBCache over the newly loaded records makes them sorted permutations again
	for k := 0; k < 2; k++ {
		for i := 0; i < maxBoard; i++ {
			cache.Shm.Shm.BSorted[k][i] = 0
		}
	}
	reloadPanic = hx.CallSync(func() string { cache.ReloadBCache(); return "" })
	cur = readTable()
	var sb strings.Builder
	fmt.Fprintf(&sb, "reset %d %d ", maxBoard, nameLen)
	if cur.n == 0 {
		sb.WriteString("-")
	}
	for i := 0; i < cur.n; i++ {
		if i > 0 {
			sb.WriteByte(',')
		}
		g := 0
		if cur.grp[i] {
			g = 1
		}
		fmt.Fprintf(&sb, "%s:%s:%d:%d:%d", hx.Hex(cur.name[i]), hx.Hex(cur.title[i][:title8]), g, cur.gid[i], cur.cc[i])
	}
	for k := 0; k < 2; k++ {
		sb.WriteByte(' ')
		if cur.n == 0 {
			sb.WriteString("-")
		}
		for i := 0; i < cur.n; i++ {
			if i > 0 {
				sb.WriteByte(',')
			}
			sb.WriteString(strconv.Itoa(cur.sorted[k][i]))
		}
	}
	return sb.String()
}

// ---- one op on the real code ----------------------------------------------------------------

const sysop = bbs.UUserID("SYSOP")

func errStr(err error) string {
	switch err {
	case bbs.ErrInvalidParams:
		return "invalid-params"
	case ptttype.ErrInvalidBid:
		return "invalid-bid"
	}
	return "err:" + strings.ReplaceAll(err.Error(), " ", "_")
}

type pageRes struct {
	bids []int
	next string
	out  string // error / PANIC; "" when ok
}

func loadPage(auto bool, by ptttype.BSortBy, isAsc bool, n int, kw []byte, cstr string) (r pageRes) {
	out := hx.CallSync(func() string {
		var sums []*bbs.BoardSummary
		var next string
		var err error
		if detailsMode {
			var dets []*bbs.BoardDetail
			dets, next, err = bbs.LoadGeneralBoardDetails(sysop, cstr, n, isAsc, by)
			if err != nil {
				return errStr(err)
			}
			for _, d := range dets {
				r.bids = append(r.bids, int(d.Bid))
			}
			r.next = next
			return ""
		}
		if auto {
			sums, next, err = bbs.LoadAutoCompleteBoards(sysop, cstr, n, string(kw), isAsc)
		} else {
			sums, next, err = bbs.LoadGeneralBoards(sysop, cstr, n, nil, nil, isAsc, by)
		}
		if err != nil {
			return errStr(err)
		}
		for _, s := range sums {
			r.bids = append(r.bids, int(s.Bid))
		}
		r.next = next
		return ""
	})
	r.out = out
	return r
}

func showBids(b []int) string {
	if len(b) == 0 {
		return "-"
	}
	s := make([]string, len(b))
	for i, v := range b {
		s[i] = strconv.Itoa(v)
	}
	return strings.Join(s, ",")
}

// walk is the client loop: follow nextIdxStr until it is empty; at most n+2 pages (then TIMEOUT, like the model's fuel).
func walk(auto bool, by ptttype.BSortBy, isAsc bool, n int, kw []byte) (pages [][]int, out string) {
	cstr := ""
	limit := cur.n + 2
	for k := 0; k < limit; k++ {
		r := loadPage(auto, by, isAsc, n, kw, cstr)
		if r.out != "" {
			return pages, r.out
		}
		pages = append(pages, r.bids)
		if r.next == "" {
			s := make([]string, len(pages))
			for i, p := range pages {
				s[i] = showBids(p)
			}
			return pages, "ok " + strings.Join(s, "/")
		}
		cstr = r.next
	}
	return pages, "TIMEOUT"
}

// loadFull: one page of bbs.LoadFullClassBoards.
func loadFull(startBid, n int) (bids []int, next int, out string) {
	out = hx.CallSync(func() string {
		sums, nextBid, err := bbs.LoadFullClassBoards(sysop, ptttype.Bid(startBid), n)
		if err != nil {
			return errStr(err)
		}
		for _, s := range sums {
			bids = append(bids, int(s.Bid))
		}
		next = int(nextBid)
		return ""
	})
	return bids, next, out
}

// walkFull: the client loop over next_bid (0 = end); at most n+2 pages like the model's fuel.
func walkFull(n int) string {
	start := 1
	var pages []string
	for k := 0; k < cur.n+2; k++ {
		bids, next, out := loadFull(start, n)
		if out != "" {
			return out
		}
		pages = append(pages, showBids(bids))
		if next == 0 {
			return "ok " + strings.Join(pages, "/")
		}
		start = next
	}
	return "TIMEOUT"
}

// do runs one op line on the real code, records it for the model and judges it.
func do(line string) {
	ws := strings.Fields(line)
	bad := func() { run.Op(line, "bad-op", "bad-op", false) }
	if len(ws) == 0 {
		bad()
		return
	}
	switch {
	case ws[0] == "reset" && (len(ws) == 6 || (len(ws) == 7 && (ws[6] == "busy" || reOver.MatchString(ws[6])))):
		_, ok1 := parseNat(ws[1])
		_, ok2 := parseNat(ws[2])
		bs, ok3 := parseBoards(ws[3])
		if !ok1 || !ok2 || !ok3 || !parseNatList(ws[4]) || !parseNatList(ws[5]) {
			bad()
			return
		}
		for _, b := range bs {
			if len(b.name) != nameLen || len(b.title) != title8 {
				bad()
				return
			}
		}
		if len(bs) > maxBoard {
			bad() // a line never shows more than the table holds; an oversized file is `over=<k>`
			return
		}
		if len(ws) == 7 && ws[6] != "busy" {
			// an oversized .BRD: k more records behind the ones of the line
			k, _ := strconv.Atoi(ws[6][5:])
			for i := 0; i < k; i++ {
				bs = append(bs, mkBoard(fmt.Sprintf("over%d", i), "zzzz", ' ', false))
			}
		}
		if len(ws) == 7 && ws[6] == "busy" {
			// the table is (re)loaded by a daemon that finds BBusyState left set by a loader that died holding it
			cache.Shm.Shm.BBusyState = 1
		}
		resetTable(bs)
	case ws[0] == "busy" && len(ws) == 2 && (ws[1] == "0" || ws[1] == "1"):
		// 1: a loader died between `BBusyState = 1` and its deferred reset; the flag lives in SysV memory and survives it
		cache.Shm.Shm.BBusyState = int32(ws[1][0] - '0')
		op(line, "ok", "busy:"+ws[1], false)
	case ws[0] == "bid" && len(ws) == 2:
		q, ok := parseHex(ws[1])
		if !ok {
			bad()
			return
		}
		out := hx.CallSync(func() string {
			bid, err := cache.GetBid(boardID(q))
			if err != nil {
				return errStr(err)
			}
			return strconv.Itoa(int(bid))
		})
		judgeBid(line, out, q)
	case ws[0] == "find" && len(ws) == 4 && ws[1] == "name":
		isAsc, ok1 := parseDir(ws[2])
		q, ok2 := parseHex(ws[3])
		if !ok1 || !ok2 {
			bad()
			return
		}
		out := hx.CallSync(func() string {
			idx, err := cache.FindBoardIdxByName(boardID(q), isAsc)
			if err != nil {
				return errStr(err)
			}
			return strconv.Itoa(int(idx))
		})
		judgeFind(line, out, ptttype.BSORT_BY_NAME, isAsc, nil, q)
	case ws[0] == "find" && len(ws) == 5 && ws[1] == "class":
		isAsc, ok1 := parseDir(ws[2])
		cls, ok2 := parseHex(ws[3])
		q, ok3 := parseHex(ws[4])
		if !ok1 || !ok2 || !ok3 {
			bad()
			return
		}
		out := hx.CallSync(func() string {
			idx, err := cache.FindBoardIdxByClass(cls, boardID(q), isAsc)
			if err != nil {
				return errStr(err)
			}
			return strconv.Itoa(int(idx))
		})
		judgeFind(line, out, ptttype.BSORT_BY_CLASS, isAsc, cls, q)
	case ws[0] == "ac" && len(ws) == 3:
		isAsc, ok1 := parseDir(ws[1])
		kw, ok2 := parseHex(ws[2])
		if !ok1 || !ok2 {
			bad()
			return
		}
		out := hx.CallSync(func() string {
			idx, err := cache.FindBoardAutoCompleteStartIdx(kw, isAsc)
			if err != nil {
				return errStr(err)
			}
			return strconv.Itoa(int(idx))
		})
		judgeAuto(line, out, isAsc, kw)
	case ws[0] == "fpage" && len(ws) == 3:
		b, ok1 := parseInt(ws[1])
		n, ok2 := parseInt(ws[2])
		if !ok1 || !ok2 {
			bad()
			return
		}
		bids, next, out := loadFull(b, n)
		if out == "" {
			out = "ok " + showBids(bids) + " next=" + strconv.Itoa(next)
		}
		judgeFullPage(line, out, b, n)
	case ws[0] == "fwalk" && len(ws) == 2:
		n, ok := parseInt(ws[1])
		if !ok {
			bad()
			return
		}
		judgeFullWalk(line, walkFull(n), n)
	case ws[0] == "children" && len(ws) == 3:
		c, ok1 := parseInt(ws[1])
		by, ok2 := parseBy(ws[2])
		if !ok1 || !ok2 {
			bad()
			return
		}
		if c > cur.n && c <= maxBoard {
			// a slot beyond BNumber holds whatever an earlier, larger table left there: not called
			op(line, "beyond-table", "children:beyond-table", false)
			return
		}
		ccNow := 0 // the ChildCount in shared memory now: LoadClassBoards itself zeroes it ("dirty fix")
		if c >= 1 && c <= cur.n {
			ccNow = int(cache.Shm.Shm.BCache[c-1].ChildCount)
		}
		out := hx.CallSync(func() string {
			sums, err := bbs.LoadClassBoards(sysop, ptttype.Bid(c), by)
			if err != nil {
				return errStr(err)
			}
			var bids []int
			for _, s := range sums {
				bids = append(bids, int(s.Bid))
			}
			return "ok " + showBids(bids)
		})
		judgeChildren(line, out, c, by, ccNow)
	case (ws[0] == "dpage" && len(ws) == 5) || (ws[0] == "dwalk" && len(ws) == 4):
		detailsMode = true
		defer func() { detailsMode = false }()
		by, ok1 := parseBy(ws[1])
		isAsc, ok2 := parseDir(ws[2])
		n, ok3 := parseInt(ws[3])
		if !ok1 || !ok2 || !ok3 {
			bad()
			return
		}
		if ws[0] == "dwalk" {
			pages, out := walk(false, by, isAsc, n, nil)
			judgeWalk(line, out, false, by, isAsc, n, nil, pages)
			return
		}
		c, ok4 := parseCursor(ws[4])
		if !ok4 {
			bad()
			return
		}
		r := loadPage(false, by, isAsc, n, nil, c.str(by))
		out := r.out
		if out == "" {
			out = "ok " + showBids(r.bids) + " next=" + showNext(by, r.next)
		}
		judgePage(line, out, false, by, isAsc, n, nil, c, r)
	case ws[0] == "page" && len(ws) == 5:
		by, ok1 := parseBy(ws[1])
		isAsc, ok2 := parseDir(ws[2])
		n, ok3 := parseInt(ws[3])
		c, ok4 := parseCursor(ws[4])
		if !ok1 || !ok2 || !ok3 || !ok4 {
			bad()
			return
		}
		r := loadPage(false, by, isAsc, n, nil, c.str(by))
		out := r.out
		if out == "" {
			out = "ok " + showBids(r.bids) + " next=" + showNext(by, r.next)
		}
		judgePage(line, out, false, by, isAsc, n, nil, c, r)
	case ws[0] == "apage" && len(ws) == 5:
		isAsc, ok1 := parseDir(ws[1])
		n, ok2 := parseInt(ws[2])
		kw, ok3 := parseHex(ws[3])
		c, ok4 := parseCursor(ws[4])
		if !ok1 || !ok2 || !ok3 || !ok4 {
			bad()
			return
		}
		r := loadPage(true, ptttype.BSORT_BY_NAME, isAsc, n, kw, c.str(ptttype.BSORT_BY_NAME))
		out := r.out
		if out == "" {
			out = "ok " + showBids(r.bids) + " next=" + showNext(ptttype.BSORT_BY_NAME, r.next)
		}
		judgePage(line, out, true, ptttype.BSORT_BY_NAME, isAsc, n, kw, c, r)
	case ws[0] == "walk" && len(ws) == 4:
		by, ok1 := parseBy(ws[1])
		isAsc, ok2 := parseDir(ws[2])
		n, ok3 := parseInt(ws[3])
		if !ok1 || !ok2 || !ok3 {
			bad()
			return
		}
		pages, out := walk(false, by, isAsc, n, nil)
		judgeWalk(line, out, false, by, isAsc, n, nil, pages)
	case ws[0] == "awalk" && len(ws) == 4:
		isAsc, ok1 := parseDir(ws[1])
		n, ok2 := parseInt(ws[2])
		kw, ok3 := parseHex(ws[3])
		if !ok1 || !ok2 || !ok3 {
			bad()
			return
		}
		pages, out := walk(true, ptttype.BSORT_BY_NAME, isAsc, n, kw)
		judgeWalk(line, out, true, ptttype.BSORT_BY_NAME, isAsc, n, kw, pages)
	default:
		bad()
	}
}

func main() {
	run = hx.Start("C11")
	defer run.Finish()
	var err error
	env, err = bbsenv.New(bbsenv.Options{})
	if err != nil {
		fmt.Fprintln(os.Stderr, "bbsenv:", err)
		os.Exit(2)
	}
	defer env.Close()

	run.Rule = "board tables written as real .BRD files + cache.ReloadBCache, each started by a `reset` line carrying the table and the real " +
		"BSorted arrays; exhaustive small shapes: every set of <= 4 boards (<= 6 thorough) over an alphabet built for trouble " +
		"(a, A?, ab, aB?, b, a_, a-, a0, vacated, 12-byte names, shared prefixes; names equal up to case only in the dedicated dup-name stream), " +
		"in random slot order with random classes/group flags; every query from the alphabet plus below-first/above-last/case variants through " +
		"GetBid and FindBoardIdxByName/ByClass in both directions; every prefix of every name through FindBoardAutoCompleteStartIdx in both " +
		"directions; page walks of the three listings with page sizes 1..n+1 in both directions; random tables up to MAX_BOARD; " +
		"a stream of the cases the theorems exclude (keyword ending in Z/@/0xff descending, keyword longer than a board name, empty keyword, " +
		"names equal up to case, 5-byte classes), judged under dedicated keys; a malformed stream (unparsable lines, page sizes <= 0, NUL bytes in keywords). " +
		"distinct_nontrivial = distinct op LINES that call one of the real lookup/listing functions on an in-domain table (conservative: the same query on two tables counts once; " +
		"the number of distinct (table, op line) pairs is reported as distinct_table_op_pairs); out-of-domain tables, unjudged and malformed lines are not counted"

	if nameLen != ptttype.IDLEN+1 {
		fmt.Fprintln(os.Stderr, "BoardID_t is no longer [IDLEN+1]byte: the model's `kw.length + 1 > nameLen` needs revisiting")
		os.Exit(2)
	}
	defer flushNotes()
	if run.Replay != "" {
		for _, l := range hx.ReplayOps(run.Replay) {
			do(l)
		}
		return
	}
	generate()
}
