// c04: correspondence harness and property oracle for the user-ID index in shared memory (property C04).
//
// It drives the REAL cache.AddToUHash / RemoveFromUHash / SetUserID / SearchUserRaw / DoSearchUserRaw /
// GetUserID / LoadUHash on a private SysV segment and a private BBSHOME.  After every operation it walks
// HashHead / NextInHash in the attached memory and prints every non-empty chain, the whole NextInHash array,
// the non-zero Userid entries, Number and Loaded; the Lean driver prints the same line from the model.
//
// The property oracle (judge*) does not use the model: a linear scan of Userid[] with its own case-insensitive
// comparison, its own FNV-1a reference hash, a chain walk with a visited set.
package main

import (
	"bufio"
	"encoding/binary"
	"fmt"
	"os"
	osexec "os/exec"
	"regexp"
	"strconv"
	"strings"
	"time"

	"github.com/Ptt-official-app/go-pttbbs/bbs"
	"github.com/Ptt-official-app/go-pttbbs/cache"
	"github.com/Ptt-official-app/go-pttbbs/ptt"
	"github.com/Ptt-official-app/go-pttbbs/ptttype"
	"github.com/Ptt-official-app/go-pttbbs/types"
	"verifharness/internal/bbsenv"
	"verifharness/internal/hx"
)

const (
	MAX = int(ptttype.MAX_USERS)
	NB  = 1 << ptttype.HASH_BITS
	IDL = int(ptttype.IDLEN) + 1
)

type ID = ptttype.UserID_t

var (
	run *hx.Run
	env *bbsenv.Env

	// what the harness has put on disk
	fileNone bool
	fileTorn bool
	fileIDs  []ID

	// oracle bookkeeping for the current history
	tainted  bool         // an op outside the property's quantifier happened (or a failure was already reported)
	dead     bool         // a PANIC/TIMEOUT happened: the segment may be half-written, the history ends
	detached map[int]bool // slots unlinked by a bare RemoveFromUHash and not yet re-added
	expirable map[int]bool // records of .PASSWDS the harness aged (op expire): the registration-time sweep kills them
	fresh    bool         // reset, and no load yet: HashHead is all zero, every op is outside the quantifier
)

// ---- independent reference functions (P-hat) ---------------------------------------------------

func up(b byte) byte {
	if b >= 'a' && b <= 'z' {
		return b - 32
	}
	return b
}

// refHash: FNV-1a/32 over the upper-cased bytes before the first NUL, pttbbs offset basis, reduced to 16 bits.
func refHash(id *ID) int {
	h := uint32(33554467)
	for _, b := range id {
		if b == 0 {
			break
		}
		h ^= uint32(up(b))
		h *= 0x01000193
	}
	return int(h & (NB - 1))
}

func cstrOf(id *ID) []byte {
	for i, b := range id {
		if b == 0 {
			return id[:i]
		}
	}
	return id[:]
}

func sameCase(a, b *ID) bool {
	x, y := cstrOf(a), cstrOf(b)
	if len(x) != len(y) {
		return false
	}
	for i := range x {
		if up(x[i]) != up(y[i]) {
			return false
		}
	}
	return true
}

func sameStr(a, b *ID) bool { return string(cstrOf(a)) == string(cstrOf(b)) }

func isEmptyID(id *ID) bool { return id[0] == 0 }

func isZeroID(id *ID) bool { return *id == ID{} }

// holders: linear scan of Userid[] for the slots that hold q in any letter case.
func holders(q *ID) (all []int) {
	for k := 0; k < MAX; k++ {
		if sameCase(&cache.Shm.Shm.Userid[k], q) {
			all = append(all, k)
		}
	}
	return
}

// ---- dump (identical text in Lean: Model/C04.lean dumpSt) ---------------------------------------

func dumpWalk(v int32) string {
	var parts []string
	nx := &cache.Shm.Shm.NextInHash
	for fuel := MAX + 1; ; fuel-- {
		if fuel == 0 {
			if v != -1 {
				parts = append(parts, "!cyc")
			}
			break
		}
		if v == -1 {
			break
		}
		if v < 0 || int(v) >= MAX {
			parts = append(parts, "!"+strconv.Itoa(int(v)))
			break
		}
		parts = append(parts, strconv.Itoa(int(v)))
		v = int32(nx[v])
	}
	return strings.Join(parts, ",")
}

func dump() string {
	var sb strings.Builder
	s := cache.Shm.Shm
	n, sum := 0, uint64(0)
	var cs []string
	for h := 0; h < NB; h++ {
		v := int32(s.HashHead[h])
		t := int64(v) + 2
		if t < 0 {
			t = 0
		}
		sum = (sum*31 + uint64(t)) % 1000000007
		if v == -1 {
			continue
		}
		if n < 64 {
			cs = append(cs, strconv.Itoa(h)+":"+dumpWalk(v))
		}
		n++
	}
	fmt.Fprintf(&sb, "nb=%d", n)
	if n > 64 {
		fmt.Fprintf(&sb, " sum=%d", sum)
	}
	sb.WriteString(" ch=")
	if len(cs) == 0 {
		sb.WriteString("-")
	} else {
		sb.WriteString(strings.Join(cs, " "))
	}
	sb.WriteString(" nx=")
	for k := 0; k < MAX; k++ {
		if k > 0 {
			sb.WriteByte(',')
		}
		sb.WriteString(strconv.Itoa(int(s.NextInHash[k])))
	}
	sb.WriteString(" id=")
	first := true
	for k := 0; k < MAX; k++ {
		if isZeroID(&s.Userid[k]) {
			continue
		}
		if !first {
			sb.WriteByte(' ')
		}
		first = false
		sb.WriteString(strconv.Itoa(k) + "=" + hx.Hex(s.Userid[k][:]))
	}
	if first {
		sb.WriteString("-")
	}
	fmt.Fprintf(&sb, " n=%d l=%d", s.Number, s.Loaded)
	return sb.String()
}

// ---- chain facts read from the segment -----------------------------------------------------------

// chainOf walks bucket h with a step bound; ok=false when the walk is not a clean chain.
func chainOf(h int) (nodes []int, ok bool) {
	v := int32(cache.Shm.Shm.HashHead[h])
	for steps := 0; v != -1; steps++ {
		if v < 0 || int(v) >= MAX || steps > MAX {
			return nodes, false
		}
		nodes = append(nodes, int(v))
		v = int32(cache.Shm.Shm.NextInHash[v])
	}
	return nodes, true
}

func onAnyChain(k int) bool {
	for h := 0; h < NB; h++ {
		if cache.Shm.Shm.HashHead[h] == -1 {
			continue
		}
		ns, _ := chainOf(h)
		for _, n := range ns {
			if n == k {
				return true
			}
		}
	}
	return false
}

// ---- P-hat ------------------------------------------------------------------------------------------

func fail(i int, key, what string) {
	run.Fail(i, key, what)
	tainted = true // one report per history
}

// structureDefect: every chain is finite, cycle-free, in range, every node hashes to its bucket, no slot on two
// chains, every slot with a non-empty id (not detached by a bare remove) is on the chain its hash selects.
func structureDefect() (key, what string) {
	s := cache.Shm.Shm
	where := make([]int, MAX) // bucket+1 of the chain a slot was seen on
	for h := 0; h < NB; h++ {
		v := int32(s.HashHead[h])
		for v != -1 {
			if v < 0 || int(v) >= MAX {
				return "chain:bad-pointer", fmt.Sprintf("bucket %d reaches pointer %d outside [0,%d)", h, v, MAX)
			}
			if where[v] == h+1 {
				return "chain:cycle", fmt.Sprintf("bucket %d: slot %d is reached twice (the walk never ends)", h, v)
			}
			if where[v] != 0 {
				return "chain:wrong-bucket", fmt.Sprintf("slot %d is on the chains of bucket %d and bucket %d", v, where[v]-1, h)
			}
			where[v] = h + 1
			if rh := refHash(&s.Userid[v]); rh != h {
				return "chain:wrong-bucket", fmt.Sprintf("slot %d (id %q, hash %d) is on the chain of bucket %d", v, cstrOf(&s.Userid[v]), rh, h)
			}
			v = int32(s.NextInHash[v])
		}
	}
	for k := 0; k < MAX; k++ {
		if !isEmptyID(&s.Userid[k]) && !detached[k] && where[k] == 0 {
			return "chain:missing-slot", fmt.Sprintf("slot %d holds id %q but is on no chain (bucket %d)", k, cstrOf(&s.Userid[k]), refHash(&s.Userid[k]))
		}
	}
	return "", ""
}

func judgeStructure(i int) bool {
	if key, what := structureDefect(); key != "" {
		fail(i, key, what)
		return false
	}
	return true
}

// judgeLookup: uid returned for q against the linear scan.
func judgeLookup(i int, fn string, q *ID, uid int, rid string) bool {
	hs := holders(q)
	if isEmptyID(q) {
		if fn == "search" {
			if uid != 0 {
				fail(i, "lookup:wrong-slot", fmt.Sprintf("SearchUserRaw(\"\") = %d", uid))
				return false
			}
			return true
		}
		// DoSearchUserRaw(""): a free slot (empty id) or none
		if uid != 0 && (uid < 1 || uid > MAX || !isEmptyID(&cache.Shm.Shm.Userid[uid-1])) {
			fail(i, "lookup:wrong-slot", fmt.Sprintf("DoSearchUserRaw(\"\") = %d which is not a free slot", uid))
			return false
		}
		return true
	}
	linked := 0
	for _, k := range hs {
		if !detached[k] {
			linked++
		}
	}
	if uid == 0 {
		if linked > 0 {
			fail(i, "lookup:wrong-slot", fmt.Sprintf("%s(%q) = none, but slot(s) %v hold it", fn, cstrOf(q), hs))
			return false
		}
		return true
	}
	for _, k := range hs {
		if k == uid-1 {
			if detached[k] {
				// RemoveFromUHash took the slot out of the index (its bytes stay in Userid): the id is absent from the
				// index unless another linked slot holds it, and a lookup must never resolve to the removed slot.
				fail(i, "lookup:removed-slot", fmt.Sprintf("%s(%q) = %d, but slot %d was removed from the index and not added again", fn, cstrOf(q), uid, k))
				return false
			}
			if rid != "" && rid != hx.Hex(cache.Shm.Shm.Userid[k][:]) {
				fail(i, "lookup:wrong-rightid", fmt.Sprintf("%s(%q) = %d with stored id %s, slot holds %s", fn, cstrOf(q), uid, rid, hx.Hex(cache.Shm.Shm.Userid[k][:])))
				return false
			}
			return true
		}
	}
	fail(i, "lookup:wrong-slot", fmt.Sprintf("%s(%q) = %d, linear scan finds it in %v", fn, cstrOf(q), uid, hs))
	return false
}

func flipCase(id ID, upper bool) ID {
	for i, b := range id {
		if b == 0 {
			break
		}
		if upper {
			id[i] = up(b)
		} else if b >= 'A' && b <= 'Z' {
			id[i] = b + 32
		}
	}
	return id
}

// judgeLookupAll: the answer of the recorded op `lookupall` (every non-empty slot's id as stored, upper-cased, lower-cased).
// The oracle itself never calls the functions under test outside recorded ops: a lookup may carry per-process state
// (a memo, a cache), and a hidden call would change what the next recorded lookup sees.
func judgeLookupAll(i int, res string) bool {
	want := []int{}
	for k := 0; k < MAX; k++ {
		if !isEmptyID(&cache.Shm.Shm.Userid[k]) {
			want = append(want, k)
		}
	}
	parts := strings.Fields(res)
	if res == "-" {
		parts = nil
	}
	if len(parts) != len(want) {
		fail(i, "lookup:all", fmt.Sprintf("lookupall answered for %d slots, %d slots hold an id", len(parts), len(want)))
		return false
	}
	for j, k := range want {
		kv := strings.SplitN(parts[j], ":", 2)
		us := []string{}
		if len(kv) == 2 {
			us = strings.Split(kv[1], ",")
		}
		if len(kv) != 2 || kv[0] != strconv.Itoa(k) || len(us) != 3 {
			fail(i, "lookup:all", fmt.Sprintf("lookupall entry %q for slot %d", parts[j], k))
			return false
		}
		id := cache.Shm.Shm.Userid[k]
		for x, q := range []ID{id, flipCase(id, true), flipCase(id, false)} {
			q := q
			uid, err := strconv.Atoi(us[x])
			if err != nil {
				fail(i, "crash:search", fmt.Sprintf("SearchUserRaw(%q): %s", cstrOf(&q), us[x]))
				return false
			}
			if !judgeLookup(i, "search", &q, uid, "") {
				return false
			}
		}
	}
	return true
}

// execCore runs one index operation on the real code (in this process, or in the peer process) and returns its
// canonical result.  Arguments were validated by the caller.
func execCore(ws []string) string {
	switch ws[0] {
	case "add":
		k, _ := parseInt(ws[1])
		id, _ := parseID(ws[2])
		return retName(cache.AddToUHash(ptttype.UIDInStore(k), &id))
	case "remove":
		k, _ := parseInt(ws[1])
		return retName(cache.RemoveFromUHash(ptttype.UIDInStore(k)))
	case "set":
		u, _ := parseInt(ws[1])
		id, _ := parseID(ws[2])
		return retName(cache.SetUserID(ptttype.UID(u), &id))
	case "search", "dosearch":
		q, _ := parseID(ws[1])
		rid := ID{}
		// rightID starts as a sentinel so that "copied or not" is visible
		for i := range rid {
			rid[i] = 0xEE
		}
		var uid ptttype.UID
		if ws[0] == "search" {
			uid, _ = cache.SearchUserRaw(&q, &rid)
		} else {
			uid, _ = cache.DoSearchUserRaw(&q, &rid)
		}
		ridSet := "~"
		if rid[0] != 0xEE || rid[1] != 0xEE {
			ridSet = hx.Hex(rid[:])
		}
		return strconv.Itoa(int(uid)) + " " + ridSet
	case "getuserid":
		u, _ := parseInt(ws[1])
		p, err := cache.GetUserID(ptttype.UID(u))
		if err != nil {
			return retName(err)
		}
		return hx.Hex(p[:])
	case "lookupall":
		var parts []string
		for k := 0; k < MAX; k++ {
			id := cache.Shm.Shm.Userid[k]
			if isEmptyID(&id) {
				continue
			}
			us := make([]string, 0, 3)
			for _, q := range []ID{id, flipCase(id, true), flipCase(id, false)} {
				q := q
				uid, _ := cache.SearchUserRaw(&q, nil)
				us = append(us, strconv.Itoa(int(uid)))
			}
			parts = append(parts, strconv.Itoa(k)+":"+strings.Join(us, ","))
		}
		if len(parts) == 0 {
			return "-"
		}
		return strings.Join(parts, " ")
	}
	return "bad-op"
}

// ---- the peer: a second, long-lived process attached to the same segment ------------------------------

var (
	peerCmd *osexec.Cmd
	peerIn  *bufio.Writer
	peerOut *bufio.Reader
)

func peerStart() bool {
	if peerCmd != nil {
		return true
	}
	self, err := os.Executable()
	if err != nil {
		return false
	}
	cmd := osexec.Command(self, "-mode", "peer", "-key", strconv.Itoa(env.ShmKey))
	in, err1 := cmd.StdinPipe()
	out, err2 := cmd.StdoutPipe()
	if err1 != nil || err2 != nil || cmd.Start() != nil {
		return false
	}
	peerCmd, peerIn, peerOut = cmd, bufio.NewWriter(in), bufio.NewReader(out)
	if l, _ := peerOut.ReadString('\n'); strings.TrimSpace(l) != "ok" {
		peerStop()
		return false
	}
	return true
}

func peerStop() {
	if peerCmd != nil {
		_ = peerCmd.Process.Kill()
		_, _ = peerCmd.Process.Wait()
		peerCmd = nil
	}
}

// peerCall has the peer process run one operation on the shared segment.
func peerCall(line string) string {
	if !peerStart() {
		return "TIMEOUT"
	}
	ch := make(chan string, 1)
	go func() {
		peerIn.WriteString(line + "\n")
		peerIn.Flush()
		l, err := peerOut.ReadString('\n')
		if err != nil {
			ch <- "TIMEOUT"
			return
		}
		ch <- strings.TrimRight(l, "\n")
	}()
	select {
	case r := <-ch:
		return r
	case <-time.After(10 * time.Second):
		peerStop()
		return "TIMEOUT"
	}
}

func peerMain(key int) {
	bbsenv.Quiet()
	w := bufio.NewWriter(os.Stdout)
	defer w.Flush()
	if err := cache.NewSHM(types.Key_t(key), false, false); err != nil {
		fmt.Fprintln(w, "erropen")
		return
	}
	fmt.Fprintln(w, "ok")
	w.Flush()
	sc := bufio.NewScanner(os.Stdin)
	sc.Buffer(make([]byte, 1<<16), 1<<20)
	for sc.Scan() {
		ws := strings.Fields(sc.Text())
		fmt.Fprintln(w, hx.CallSync(func() string { return execCore(ws) }))
		w.Flush()
	}
}

// ---- token syntax (the Lean driver implements the same rules) -----------------------------------

var reInt = regexp.MustCompile(`^-?[0-9]{1,9}$`)

func parseInt(s string) (int, bool) {
	if !reInt.MatchString(s) {
		return 0, false
	}
	v, _ := strconv.Atoi(s)
	return v, true
}

var reName = regexp.MustCompile(`^(-|([0-9a-fA-F]{2}){1,24})$`)

var reHexID = regexp.MustCompile(`^[0-9a-fA-F]{26}$`)

func parseID(s string) (ID, bool) {
	var id ID
	if !reHexID.MatchString(s) {
		return id, false
	}
	copy(id[:], hx.UnHex(s))
	return id, true
}

func idTok(id ID) string { return hx.Hex(id[:]) }

// ---- .PASSWDS ----------------------------------------------------------------------------------

func writeFile() {
	path := env.Path(".PASSWDS")
	if fileNone {
		_ = os.Remove(path)
		return
	}
	rec := int(ptttype.USEREC_RAW_SZ)
	off := userIDOffset
	buf := make([]byte, rec*len(fileIDs))
	for i, id := range fileIDs {
		// a plausible record: Version word + the id; everything else zero
		buf[i*rec] = 0x53
		buf[i*rec+1] = 0x10
		copy(buf[i*rec+off:], id[:])
		// logged in just now: not expirable (op `expire` ages single records)
		binary.LittleEndian.PutUint32(buf[i*rec+lastLoginOffset:], uint32(types.NowTS()))
	}
	expirable = map[int]bool{}
	if fileTorn {
		buf = append(buf, make([]byte, 100)...)
	}
	if err := os.WriteFile(path, buf, 0o644); err != nil {
		panic(err)
	}
}

// rereadFile refreshes what the harness knows about .PASSWDS after the code under test wrote to it.
func rereadFile() {
	b, err := os.ReadFile(env.Path(".PASSWDS"))
	if err != nil {
		fileNone, fileTorn, fileIDs = true, false, nil
		return
	}
	rec := int(ptttype.USEREC_RAW_SZ)
	n := len(b) / rec
	fileNone, fileTorn = false, len(b)%rec != 0
	fileIDs = make([]ID, n)
	for i := 0; i < n; i++ {
		copy(fileIDs[i][:], b[i*rec+userIDOffset:])
	}
}

func retName(err error) string {
	switch err {
	case nil:
		return "ok"
	case cache.ErrAddToUHash:
		return "erradd"
	case cache.ErrRemoveFromUHash:
		return "errremove"
	case cache.ErrInvalidUID:
		return "errinvaliduid"
	}
	return "errfile"
}

// ---- one operation -------------------------------------------------------------------------------

// step runs one op line on the real code, records it, and judges it.
func step(line string, label string) (out string, idx int) {
	ws := strings.Fields(line)
	legal := true // inside the property's quantifier
	res := "bad-op"
	withDump := true
	var post func(i int)
	call := func(f func() string) string {
		r := hx.Call(f)
		if r == "PANIC" || r == "TIMEOUT" {
			dead = true
		}
		return r
	}
	// `peer <op>`: the same operation, executed by the second process attached to the segment
	viaPeer := false
	if len(ws) >= 2 && ws[0] == "peer" {
		switch ws[1] {
		case "add", "remove", "set", "search", "dosearch", "getuserid", "lookupall":
			viaPeer = true
			ws = ws[1:]
		default:
			ws = []string{"bad-op"}
		}
	}
	exec := func() string {
		var r string
		if viaPeer {
			r = peerCall(strings.Join(ws, " "))
		} else {
			r = hx.Call(func() string { return execCore(ws) })
		}
		if r == "PANIC" || r == "TIMEOUT" {
			dead = true
		}
		return r
	}
	op := ""
	if len(ws) > 0 {
		op = ws[0]
	}
	switch {
	case op == "lookupall" && len(ws) == 1:
		withDump = false
		res = exec()
		if label == "" {
			label = "lookupall"
		}
		post = func(i int) { judgeLookupAll(i, res) }
	case op == "exists" && len(ws) == 2 && reName.MatchString(ws[1]):
		// bbs.CheckExistsUser: the lookup as the api layer does it, with an id of ANY length (UUserID.ToRaw in front)
		name := hx.UnHex(ws[1])
		withDump = false
		res = call(func() string {
			u, err := bbs.CheckExistsUser(string(name))
			switch {
			case err == bbs.ErrInvalidParams:
				return "invalid"
			case err != nil:
				return "err"
			case u == "":
				return "none"
			}
			return "found"
		})
		// expectation from a linear scan with a whole-string, case-insensitive comparison
		linked, nul := 0, false
		for _, b := range name {
			if b == 0 {
				nul = true
			}
		}
		for k := 0; k < MAX; k++ {
			c := cstrOf(&cache.Shm.Shm.Userid[k])
			if len(c) == len(name) && len(c) > 0 && !detached[k] {
				same := true
				for i := range c {
					if up(c[i]) != up(name[i]) {
						same = false
					}
				}
				if same {
					linked++
				}
			}
		}
		if label == "" {
			label = fmt.Sprintf("exists:%s-len%d", res, min(len(name), 14))
		}
		post = func(i int) {
			if nul {
				return
			}
			if res == "found" && linked == 0 {
				fail(i, "lookup:bbs-absent-found", fmt.Sprintf("CheckExistsUser(%q) = found, but no slot holds that id (a lookup must be for the id that was asked for)", name))
			} else if res != "found" && linked > 0 {
				var id ID
				copy(id[:], name)
				if len(name) <= int(ptttype.IDLEN) && id.IsValid() {
					fail(i, "lookup:wrong-slot", fmt.Sprintf("CheckExistsUser(%q) = %s, but a slot holds it", name, res))
				}
			}
		}
	case op == "expire" && len(ws) == 2:
		// age record k of .PASSWDS (LastLogin = 1970): ptt.tryCleanUser will kill it. No effect on the index.
		k, ok := parseInt(ws[1])
		if !ok || k < 0 {
			break
		}
		withDump = false
		res = "ok"
		if !fileNone && k < len(fileIDs) {
			if f, err := os.OpenFile(env.Path(".PASSWDS"), os.O_WRONLY, 0o600); err == nil {
				var b [4]byte
				binary.LittleEndian.PutUint32(b[:], 1)
				_, _ = f.WriteAt(b[:], int64(k)*int64(ptttype.USEREC_RAW_SZ)+int64(lastLoginOffset))
				f.Close()
				expirable[k] = true
			}
		}
	case op == "register" && (len(ws) == 3 || (len(ws) == 4 && ws[3] == "sweep" && ws[2] == "0")) && (ws[2] == "0" || ws[2] == "1"):
		sweep := len(ws) == 4
		if sweep {
			// the hourly sweep of expired accounts is due (no .fresh): SetupNewUser runs it when no slot is free.
			// Only with a complete, present .PASSWDS (tryCleanUser dereferences the record it could not read).
			if fileNone || fileTorn || len(fileIDs) != MAX {
				break
			}
			_ = os.Remove(ptttype.FN_FRESH)
			defer func() { _ = os.WriteFile(ptttype.FN_FRESH, []byte("fresh"), 0o600) }()
		}
		snapHead, snapNext := cache.Shm.Shm.HashHead, cache.Shm.Shm.NextInHash
		wasExpirable := map[int]bool{}
		for k := range expirable {
			wasExpirable[k] = true
		}
		// ptt.SetupNewUser, the only caller of SetUserID; `1`: .PASSWDS is away while the call runs (the write of the new
		// record fails after the slot was assigned).
		id, ok := parseID(ws[1])
		if !ok {
			break
		}
		fault := ws[2] == "1"
		s := cache.Shm.Shm
		before := s.Userid
		held := false
		for _, k := range holders(&id) {
			if !detached[k] {
				held = true
			}
		}
		free := -1 // the slot DoSearchUserRaw("") must hand out: the first free slot on the empty-id chain
		if ns, okc := chainOf(refHash(&ID{})); okc {
			for _, k := range ns {
				if isEmptyID(&s.Userid[k]) {
					free = k
					break
				}
			}
		}
		if isEmptyID(&id) || len(detached) > 0 {
			legal = false
		}
		path := env.Path(".PASSWDS")
		if fault && !fileNone {
			_ = os.Rename(path, path+".away")
		}
		res = call(func() string {
			u := &ptttype.UserecRaw{}
			u.Version = ptttype.PASSWD_VERSION
			u.UserLevel = ptttype.PERM_DEFAULT
			u.FirstLogin = types.NowTS()
			u.LastLogin = u.FirstLogin
			u.UserID = id
			err := ptt.SetupNewUser(u)
			switch {
			case err == nil:
				return "ok"
			case err == ptttype.ErrUserIDAlreadyExists:
				return "errexists"
			case err == cache.ErrInvalidUID:
				return "errinvaliduid"
			case os.IsNotExist(err) || os.IsPermission(err):
				return "errwrite"
			}
			return "err:" + strings.ReplaceAll(err.Error(), " ", "_")
		})
		if fault && !fileNone {
			_ = os.Rename(path+".away", path)
		}
		got := 0
		for k := 0; k < MAX; k++ {
			if before[k] != s.Userid[k] && (got == 0 || s.Userid[k] == id) {
				got = k + 1 // the slot that now holds the id (else: some slot that changed)
			}
		}
		if !dead {
			res += " " + strconv.Itoa(got)
		}
		rereadFile()
		if label == "" {
			label = "register:" + strings.Fields(res)[0]
			if sweep {
				label = fmt.Sprintf("register-sweep%d:", len(expirable)) + strings.Fields(res)[0]
			}
			if ns, _ := chainOf(refHash(&id)); len(ns) > 1 {
				label += "-collides"
			}
		}
		post = func(i int) {
			want := "ok"
			switch {
			case held:
				want = "errexists"
			case free < 0:
				want = "errinvaliduid"
			case fault || fileNone:
				want = "errwrite"
			}
			f := strings.Fields(res)
			if sweep && !held && free < 0 && f[0] == "ok" && got > 0 && wasExpirable[got-1] && s.Userid[got-1] == id {
				// the sweep released the slot of an account it killed and the registration used it: a legitimate outcome
				// (the unchanged code refuses); whether the slot was released CORRECTLY is the structure oracle's business
				free, want = got-1, "ok"
			}
			if f[0] != want {
				fail(i, "register:result", fmt.Sprintf("SetupNewUser(%q) = %s, expected %s (held=%v, first free slot %d, write fault %v)", cstrOf(&id), f[0], want, held, free, fault))
				return
			}
			if want == "errexists" || want == "errinvaliduid" {
				if got != 0 {
					fail(i, "register:result", fmt.Sprintf("refused registration of %q changed Userid[%d]", cstrOf(&id), got-1))
				} else if snapHead != s.HashHead || snapNext != s.NextInHash {
					fail(i, "register:refused-changed-index", fmt.Sprintf("registration of %q was refused (%s) but HashHead/NextInHash differ from before (sweep due: %v)", cstrOf(&id), want, sweep))
				}
				return
			}
			if want == "errwrite" && got == 0 {
				return // rolled back: the table is as before; the structure oracle judges how the slot was put back
			}
			if got != free+1 || s.Userid[free] != id {
				fail(i, "register:wrong-slot", fmt.Sprintf("SetupNewUser(%q): slot %d changed, the first free slot was %d", cstrOf(&id), got-1, free))
				return
			}
			if want == "ok" && (free >= len(fileIDs) || fileIDs[free] != id) {
				fail(i, "register:passwd-record", fmt.Sprintf("registration of %q in slot %d succeeded but record %d of .PASSWDS does not hold the id", cstrOf(&id), free, free))
			}
		}
	case op == "reset" && len(ws) == 1:
		cache.Shm.Reset()
		tainted, dead, detached, fresh = false, false, map[int]bool{}, true
		res, withDump = "ok", false
	case op == "file" && len(ws) == 2 && ws[1] == "none":
		fileNone, fileTorn, fileIDs = true, false, nil
		writeFile()
		res, withDump = "ok", false
	case op == "file" && len(ws) >= 2 && (ws[1] == "0" || ws[1] == "1"):
		ids := make([]ID, 0, len(ws)-2)
		good := true
		for _, w := range ws[2:] {
			id, ok := parseID(w)
			if !ok {
				good = false
				break
			}
			ids = append(ids, id)
		}
		withDump = false
		if good {
			fileNone, fileTorn, fileIDs = false, ws[1] == "1", ids
			writeFile()
			res = "ok"
		}
	case (op == "load" && len(ws) == 1) ||
		(op == "restart" && len(ws) == 3 && (ws[1] == "create" || ws[1] == "open") && (ws[2] == "load" || ws[2] == "noload")):
		// `restart create|open load|noload`: a NEW process attaches to the live segment the way main_init does
		// (NewSHM(key, …, isCreate)) and, with `load`, runs LoadUHash against the .PASSWDS currently on disk.
		s := cache.Shm.Shm
		cold := s.Number == 0 && s.Loaded == 0
		doLoad := op == "load" || ws[2] == "load"
		wantRes, mustNotWrite := "ok", !doLoad
		if doLoad {
			switch {
			case len(fileIDs) > MAX:
				legal = false
			case cold:
				if fileNone || fileTorn {
					legal = false
				}
				for k := 0; k < MAX; k++ {
					if !isZeroID(&s.Userid[k]) {
						legal = false
					}
				}
			case fileNone:
				// a reload that cannot open its .PASSWDS must leave the live index alone
				wantRes, mustNotWrite = "errfile", true
			default:
				for k := range fileIDs {
					if !sameStr(&fileIDs[k], &s.Userid[k]) {
						legal = false
					}
				}
				if fileTorn {
					wantRes = "errfile"
				}
				if len(detached) > 0 && int(cache.PRE_ALLOCATED_USERS) < MAX {
					legal = false // the loader may skip records: which detached slots it re-links is not judged
				}
			}
		}
		var snap *cache.SHMRaw
		if mustNotWrite && legal {
			snap = &cache.SHMRaw{}
			snap.Userid, snap.HashHead, snap.NextInHash, snap.Number, snap.Loaded = s.Userid, s.HashHead, s.NextInHash, s.Number, s.Loaded
		}
		if label == "" {
			label = "load"
			if op == "restart" {
				label = "restart-" + ws[1] + "-" + ws[2]
			}
			if doLoad {
				if cold {
					label += ":cold"
				} else {
					label += ":onfly"
				}
				switch {
				case fileNone:
					label += "-nofile"
				case fileTorn:
					label += "-torn"
				}
				if len(detached) > 0 {
					label += "-detached"
				}
			}
			if !legal {
				label += "-outside"
			}
		}
		attachRes := ""
		if op == "load" {
			res = call(func() string { return retName(cache.LoadUHash()) })
		} else {
			res = restartChild(ws[1] == "create", doLoad)
			if res == "PANIC" || res == "TIMEOUT" {
				dead = true
			}
			if f := strings.Fields(res); len(f) == 3 {
				attachRes = f[0] + " " + f[1]
			}
		}
		if doLoad {
			fresh = false
		}
		if doLoad && legal && !mustNotWrite {
			if cold {
				detached = map[int]bool{}
			} else {
				// an on-the-fly reload re-examines every record: a slot taken out by RemoveFromUHash whose id is still
				// in the table (and agrees with the file) is linked again
				for k := range detached {
					if k < len(fileIDs) {
						delete(detached, k)
					}
				}
			}
		}
		post = func(i int) {
			got := res
			if op == "restart" {
				if attachRes != "ok 0" {
					fail(i, "attach:handshake", fmt.Sprintf("a second process attaching (%s) to the live segment: %q, expected ok and not-new", ws[1], res))
					return
				}
				got = strings.Fields(res)[2]
				if !doLoad {
					wantRes = "-"
				}
			}
			if got != wantRes {
				fail(i, "op:unexpected-error", fmt.Sprintf("%s: LoadUHash returned %s, expected %s", op, got, wantRes))
				return
			}
			if snap != nil && (snap.Userid != s.Userid || snap.HashHead != s.HashHead || snap.NextInHash != s.NextInHash ||
				snap.Number != s.Number || snap.Loaded != s.Loaded) {
				what := "an attach without a load"
				if doLoad {
					what = "a reload that could not open .PASSWDS"
				}
				fail(i, "reload:failed-load-wrote", what+" changed the live index (Userid/HashHead/NextInHash/Number/Loaded differ from before)")
			}
		}
	case op == "add" && len(ws) == 3:
		k, ok1 := parseInt(ws[1])
		id, ok2 := parseID(ws[2])
		if !ok1 || !ok2 {
			break
		}
		if k < 0 || k >= MAX || onAnyChain(k) {
			legal = false
		}
		if label == "" {
			label = "add"
			if !legal {
				label = "add:outside"
			} else if ns, _ := chainOf(refHash(&id)); len(ns) > 0 {
				label = fmt.Sprintf("add:chainlen%d", min(len(ns), 5))
			}
		}
		res = exec()
		if legal {
			delete(detached, k)
		}
		post = func(i int) {
			if res != "ok" {
				fail(i, "op:unexpected-error", "AddToUHash returned "+res)
			}
		}
	case op == "remove" && len(ws) == 2:
		k, ok1 := parseInt(ws[1])
		if !ok1 {
			break
		}
		if k < 0 || k >= MAX {
			legal = false
		}
		if label == "" {
			label = "remove:" + positionLabel(k)
		}
		res = exec()
		if legal {
			detached[k] = true
		}
		post = func(i int) {
			if res != "ok" {
				fail(i, "op:unexpected-error", "RemoveFromUHash returned "+res)
			}
		}
	case op == "set" && len(ws) == 3:
		u, ok1 := parseInt(ws[1])
		id, ok2 := parseID(ws[2])
		if !ok1 || !ok2 {
			break
		}
		inRange := u >= 1 && u <= MAX
		if label == "" {
			label = "set:range"
			if inRange {
				ns, _ := chainOf(refHash(&id))
				label = fmt.Sprintf("set:%s->chainlen%d", positionLabel(u-1), min(len(ns), 5))
			}
		}
		res = exec()
		if inRange {
			delete(detached, u-1)
		}
		post = func(i int) {
			want := "ok"
			if !inRange {
				want = "errinvaliduid"
			}
			if res != want {
				fail(i, "op:unexpected-error", fmt.Sprintf("SetUserID(%d) returned %s", u, res))
			}
		}
	case (op == "search" || op == "dosearch") && len(ws) == 2:
		q, ok := parseID(ws[1])
		if !ok {
			break
		}
		withDump = false // lookups do not change the state; the structure oracle still walks the segment
		res = exec()
		uid, ridSet := 0, "~"
		if f := strings.Fields(res); len(f) == 2 {
			uid, _ = strconv.Atoi(f[0])
			ridSet = f[1]
		}
		if label == "" {
			hs := holders(&q)
			switch {
			case isEmptyID(&q):
				label = op + ":empty"
			case len(hs) == 0:
				label = op + ":miss"
			case cache.Shm.Shm.Userid[hs[0]] == q:
				label = op + ":hit-exact"
			default:
				label = op + ":hit-othercase"
			}
		}
		post = func(i int) {
			r := ""
			if ridSet != "~" {
				r = ridSet
			}
			judgeLookup(i, op, &q, uid, r)
		}
	case op == "getuserid" && len(ws) == 2:
		u, ok := parseInt(ws[1])
		if !ok {
			break
		}
		withDump = false
		res = exec()
		if label == "" {
			label = "getuserid"
		}
		post = func(i int) {
			want := "errinvaliduid"
			if u >= 1 && u <= MAX {
				want = hx.Hex(cache.Shm.Shm.Userid[u-1][:])
			}
			if res != want {
				fail(i, "lookup:getuserid", fmt.Sprintf("GetUserID(%d) = %s, table says %s", u, res, want))
			}
		}
	case op == "poke" && len(ws) == 4 && (ws[1] == "head" || ws[1] == "next"):
		i, ok1 := parseInt(ws[2])
		v, ok2 := parseInt(ws[3])
		if !ok1 || !ok2 || i < 0 {
			break
		}
		legal = false
		if label == "" {
			label = "poke"
		}
		if ws[1] == "head" {
			if i < NB {
				cache.Shm.Shm.HashHead[i] = ptttype.UIDInStore(v)
				res = "ok"
			} else {
				res, withDump = "PANIC", false
			}
		} else {
			if i < MAX {
				cache.Shm.Shm.NextInHash[i] = ptttype.UIDInStore(v)
				res = "ok"
			} else {
				res, withDump = "PANIC", false
			}
		}
	case op == "attach" && len(ws) == 5:
		v, ok1 := parseInt(ws[1])
		sz, ok2 := parseInt(ws[2])
		_, ok3 := parseInt(ws[3])
		_, ok4 := parseInt(ws[4])
		if !ok1 || !ok2 || !ok3 || !ok4 {
			break
		}
		withDump = false
		var answers []string
		var queries []ID
		for k := 0; k < MAX; k++ {
			if id := cache.Shm.Shm.Userid[k]; !isEmptyID(&id) && !detached[k] {
				queries = append(queries, flipCase(id, run.R.Bool()))
			}
		}
		queries = append(queries, mkID("NoSuchUser1"))
		res, answers = attachChild(int32(v), int32(sz), queries)
		if label == "" {
			label = "attach:" + res
		}
		post = func(i int) {
			want := "ok"
			if int32(v) != int32(cache.SHM_VERSION) {
				want = "errversion"
			} else if int32(sz) != int32(cache.SHM_RAW_SZ) {
				want = "errsize"
			}
			if res != want {
				fail(i, "attach:handshake", fmt.Sprintf("attach with Version=%d Size=%d: %s, expected %s", v, sz, res, want))
				return
			}
			if res != "ok" {
				return
			}
			if len(answers) != len(queries) {
				fail(i, "attach:wrong-answer", fmt.Sprintf("the attached process answered %d of %d lookups", len(answers), len(queries)))
				return
			}
			for j, q := range queries {
				q := q
				uid, _ := strconv.Atoi(answers[j])
				if !judgeLookup(i, "search", &q, uid, "") {
					return
				}
			}
		}
	}
	if fresh && op != "reset" && op != "file" && op != "load" && op != "restart" {
		legal = false
	}
	if res == "bad-op" {
		withDump = false
		label = "bad-op"
		legal = false
		post = nil
	}
	out = res
	if withDump && !dead {
		out += " | " + dump()
	}
	if label == "" {
		label = op
	}
	if viaPeer {
		label = "peer-" + label
	}
	if dead {
		label += ":" + strings.ToLower(res)
	}
	if !legal && op != "file" && op != "reset" {
		tainted = true
	}
	idx = run.Op(line, out, label, legal)
	if tainted {
		return
	}
	if dead {
		fail(idx, "crash:"+op, fmt.Sprintf("%s on %q: %s", res, line, hx.LastPanic))
		return
	}
	if post != nil {
		post(idx)
	}
	if !tainted && op != "reset" && op != "file" && op != "attach" {
		judgeStructure(idx)
	}
	return
}

func positionLabel(k int) string {
	if k < 0 || k >= MAX {
		return "range"
	}
	ns, ok := chainOf(refHash(&cache.Shm.Shm.Userid[k]))
	if !ok {
		return "broken"
	}
	for i, n := range ns {
		if n == k {
			switch {
			case len(ns) == 1:
				return "only"
			case i == 0:
				return "head"
			case i == len(ns)-1:
				return "tail"
			}
			return "middle"
		}
	}
	return "unlinked"
}

// ---- second process --------------------------------------------------------------------------------

// attachChild patches the header words, runs this binary with -mode attach, restores the header.
func attachChild(ver, size int32, queries []ID) (string, []string) {
	s := cache.Shm.Shm
	ov, os_ := s.Version, s.Size
	s.Version, s.Size = ver, size
	defer func() { s.Version, s.Size = ov, os_ }()
	self, err := os.Executable()
	if err != nil {
		return "errexec", nil
	}
	cmd := osexec.Command(self, "-mode", "attach", "-key", strconv.Itoa(env.ShmKey))
	var in strings.Builder
	for _, q := range queries {
		in.WriteString(idTok(q) + "\n")
	}
	cmd.Stdin = strings.NewReader(in.String())
	done := make(chan struct{})
	var outb []byte
	go func() { outb, err = cmd.Output(); close(done) }()
	select {
	case <-done:
	case <-time.After(20 * time.Second):
		_ = cmd.Process.Kill()
		return "TIMEOUT", nil
	}
	lines := strings.Split(strings.TrimSpace(string(outb)), "\n")
	if len(lines) == 0 || lines[0] == "" {
		return "errexec", nil
	}
	return lines[0], lines[1:]
}

// restartChild runs this binary as a fresh process that attaches to the live segment as creator (isCreate=true, what
// main_init does with IS_NEW_SHM) or as opener, and optionally runs LoadUHash with the same BBSHOME. Answer:
// "<attach result> <IsNew 0|1> <LoadUHash result or ->".
func restartChild(create, load bool) string {
	self, err := os.Executable()
	if err != nil {
		return "TIMEOUT"
	}
	b2 := func(b bool) string {
		if b {
			return "1"
		}
		return "0"
	}
	cmd := osexec.Command(self, "-mode", "restart", "-key", strconv.Itoa(env.ShmKey), env.Home, b2(create), b2(load))
	done := make(chan struct{})
	var outb []byte
	go func() { outb, _ = cmd.Output(); close(done) }()
	select {
	case <-done:
	case <-time.After(20 * time.Second):
		_ = cmd.Process.Kill()
		return "TIMEOUT"
	}
	l := strings.TrimSpace(string(outb))
	if len(strings.Fields(l)) != 3 {
		return "PANIC"
	}
	return l
}

func restartMain(key int, home string, create, load bool) {
	bbsenv.Quiet()
	w := bufio.NewWriter(os.Stdout)
	defer w.Flush()
	ptttype.SetBBSHOME(home)
	err := cache.NewSHM(types.Key_t(key), ptttype.USE_HUGETLB, create)
	switch err {
	case nil:
	case cache.ErrShmVersion:
		fmt.Fprintln(w, "errversion 0 -")
		return
	case cache.ErrShmSize:
		fmt.Fprintln(w, "errsize 0 -")
		return
	default:
		fmt.Fprintln(w, "erropen 0 -")
		return
	}
	isNew := "0"
	if cache.Shm.IsNew {
		isNew = "1"
	}
	lr := "-"
	if load {
		lr = hx.CallSync(func() string { return retName(cache.LoadUHash()) })
	}
	fmt.Fprintln(w, "ok", isNew, lr)
	// the process exits without CloseSHM: the segment belongs to the running service
}

func childMain(key int) {
	bbsenv.Quiet()
	err := cache.NewSHM(types.Key_t(key), false, false)
	w := bufio.NewWriter(os.Stdout)
	defer w.Flush()
	switch err {
	case nil:
		fmt.Fprintln(w, "ok")
	case cache.ErrShmVersion:
		fmt.Fprintln(w, "errversion")
		return
	case cache.ErrShmSize:
		fmt.Fprintln(w, "errsize")
		return
	default:
		fmt.Fprintln(w, "erropen")
		return
	}
	sc := bufio.NewScanner(os.Stdin)
	for sc.Scan() {
		q, ok := parseID(strings.TrimSpace(sc.Text()))
		if !ok {
			fmt.Fprintln(w, "bad")
			continue
		}
		uid, _ := cache.SearchUserRaw(&q, nil)
		fmt.Fprintln(w, int(uid))
	}
}

func main() {
	// the child mode has its own two flags and no output directory
	if len(os.Args) >= 5 && os.Args[1] == "-mode" && os.Args[2] == "attach" && os.Args[3] == "-key" {
		k, _ := strconv.Atoi(os.Args[4])
		childMain(k)
		return
	}
	if len(os.Args) >= 8 && os.Args[1] == "-mode" && os.Args[2] == "restart" && os.Args[3] == "-key" {
		k, _ := strconv.Atoi(os.Args[4])
		restartMain(k, os.Args[5], os.Args[6] == "1", os.Args[7] == "1")
		return
	}
	if len(os.Args) >= 5 && os.Args[1] == "-mode" && os.Args[2] == "peer" && os.Args[3] == "-key" {
		k, _ := strconv.Atoi(os.Args[4])
		peerMain(k)
		return
	}
	run = hx.Start("C04")
	defer run.Finish()
	// hx.NewRand(seed) and hx.NewRand(seed+1) produce the same stream shifted by one draw; scramble the seed so that
	// VERIF_SEED=1,2,3 give unrelated histories (still a pure function of the seed).
	{
		z := run.Seed + 0x9E3779B97F4A7C15
		z = (z ^ (z >> 30)) * 0xBF58476D1CE4E5B9
		z = (z ^ (z >> 27)) * 0x94D049BB133111EB
		run.R = hx.NewRand(z ^ (z >> 31))
	}
	var err error
	env, err = bbsenv.New(bbsenv.Options{})
	if err != nil {
		fmt.Fprintln(os.Stderr, "bbsenv:", err)
		os.Exit(2)
	}
	defer env.Close()
	defer peerStop()
	cache.IsTest = true // SHM.Reset is a no-op otherwise
	if ptttype.FN_PASSWD != env.Path(".PASSWDS") {
		fmt.Fprintln(os.Stderr, "unexpected FN_PASSWD", ptttype.FN_PASSWD)
		os.Exit(2)
	}
	detached = map[int]bool{}
	expirable = map[int]bool{}
	// a full table must not start the sweep of expired accounts (ptt.tryCleanUser): keep .fresh fresh
	_ = os.WriteFile(ptttype.FN_FRESH, []byte("fresh"), 0o600)
	run.Rule = "lookup-change-lookup triples (lookup of X, then remove / clear / rename / move / slot re-use / cold reload, then X again with no lookup in between; lookups and changes by this process or by a long-lived peer process on the same segment; the oracle makes no hidden calls: `lookupall` is a recorded op); histories reset;file;load(cold) then set / remove+add / search (stored, upper, lower, mixed case; absent; empty) / dosearch / getuserid / on-the-fly reload from a file agreeing with the live table / cold reload; ids drawn from families precomputed to collide in the 16-bit hash (incl. one family colliding with the empty id), case variants, ids with bytes after the NUL, unterminated 13-byte ids, invalid ids, full tables; first an enumeration of every chain position (length 1..5) x {remove+add, rename inside the family, rename away, clear}. Malformed stream (judged by the correspondence only): adds on linked slots, out-of-range slots and uids, poked pointers repaired by checkHash, disagreeing/torn/missing/over-long files, bad tokens. distinct = distinct op lines inside the quantifier"
	run.Extra["max_users"] = MAX
	run.Extra["hash_buckets"] = NB

	if run.Replay != "" {
		for _, l := range hx.ReplayOps(run.Replay) {
			step(l, "")
		}
		return
	}
	generate()
}
