package main

import (
	"fmt"
	"strings"
	"unsafe"

	"github.com/Ptt-official-app/go-pttbbs/cache"
	"github.com/Ptt-official-app/go-pttbbs/ptttype"
	"verifharness/internal/hx"
)

var userIDOffset = int(unsafe.Offsetof(ptttype.USEREC_RAW.UserID))
var lastLoginOffset = int(unsafe.Offsetof(ptttype.USEREC_RAW.LastLogin))

func mkID(s string) ID {
	var id ID
	copy(id[:], s)
	return id
}

const sufAlpha = "abcdefghijklmnopqrstuvwxyz0123456789"

// families of ids that share a bucket of the 16-bit reduced hash (reference hash; the real hash is compared
// with it on every id by the chain oracle).
type pool struct {
	fams      [][]ID // each: >= 5 valid ids in one bucket
	emptyFam  []ID   // valid ids in the bucket of the empty id
	singles   []ID   // valid ids, no deliberate collisions
	oddballs  []ID   // invalid / unterminated / high-byte ids
	famOfHash map[int]int
}

func buildPool() *pool {
	r := run.R
	p := &pool{famOfHash: map[int]int{}}
	letters := "abcdefghijklmnopqrstuvwxyzABCDEFGHIJKLMNOPQRSTUVWXYZ"
	prefix := make([]byte, 2+r.Intn(3))
	for i := range prefix {
		prefix[i] = letters[r.Intn(len(letters))]
	}
	byBucket := map[int][]ID{}
	empty := ID{}
	eb := refHash(&empty)
	for a := 0; a < len(sufAlpha); a++ {
		for b := 0; b < len(sufAlpha); b++ {
			for c := 0; c < len(sufAlpha); c++ {
				for d := 0; d < 8; d++ {
					id := mkID(string(prefix) + string([]byte{sufAlpha[a], sufAlpha[b], sufAlpha[c], sufAlpha[d]}))
					h := refHash(&id)
					if h == eb && len(p.emptyFam) < 5 {
						p.emptyFam = append(p.emptyFam, id)
					}
					if len(byBucket[h]) < 7 {
						byBucket[h] = append(byBucket[h], id)
					}
				}
			}
		}
	}
	// deterministic order: scan buckets ascending from a seeded start
	start := r.Intn(NB)
	for i := 0; i < NB && len(p.fams) < 6; i++ {
		h := (start + i) % NB
		if h != eb && len(byBucket[h]) >= 6 {
			p.famOfHash[h] = len(p.fams)
			p.fams = append(p.fams, byBucket[h])
		}
	}
	for i := 0; i < 80; i++ {
		n := 2 + r.Intn(11)
		b := make([]byte, n)
		b[0] = letters[r.Intn(len(letters))]
		for j := 1; j < n; j++ {
			b[j] = (letters + "0123456789")[r.Intn(len(letters)+10)]
		}
		p.singles = append(p.singles, mkID(string(b)))
	}
	p.oddballs = []ID{
		mkID("a"), mkID("1abc"), mkID("ab-cd"), mkID("abcdefghijklm"), mkID("ABCDEFGHIJKLM"),
		mkID("a\x80\xfe"), mkID("Zz\xc3\xa9"), mkID("x y"), mkID("abcdefghijkl9"),
	}
	return p
}

// caseVariant flips the case of some letters (never changes the id's case-folded value).
func caseVariant(id ID) ID {
	r := run.R
	switch r.Intn(4) {
	case 0:
		return flipCase(id, true)
	case 1:
		return flipCase(id, false)
	}
	for i, b := range id {
		if b == 0 {
			break
		}
		if r.Bool() {
			if b >= 'a' && b <= 'z' {
				id[i] = b - 32
			} else if b >= 'A' && b <= 'Z' {
				id[i] = b + 32
			}
		}
	}
	return id
}

// tailGarbage keeps the C string and fills the bytes after the NUL.
func tailGarbage(id ID) ID {
	n := len(cstrOf(&id))
	for i := n + 1; i < len(id); i++ {
		id[i] = byte(1 + run.R.Intn(200))
	}
	return id
}

func liveFolded() map[string]bool {
	m := map[string]bool{}
	for k := 0; k < MAX; k++ {
		id := cache.Shm.Shm.Userid[k]
		if !isEmptyID(&id) {
			u := flipCase(id, true)
			m[string(cstrOf(&u))] = true
		}
	}
	return m
}

// freshID draws an id (by preference from `from`) that no slot holds in any letter case.
func (p *pool) freshID(from []ID) (ID, bool) {
	r := run.R
	live := liveFolded()
	for try := 0; try < 30; try++ {
		var id ID
		switch {
		case len(from) > 0 && try < 12:
			id = from[r.Intn(len(from))]
		case r.Intn(3) == 0:
			f := p.fams[r.Intn(len(p.fams))]
			id = f[r.Intn(len(f))]
		case r.Intn(8) == 0 && len(p.emptyFam) > 0:
			id = p.emptyFam[r.Intn(len(p.emptyFam))]
		case r.Intn(10) == 0:
			id = p.oddballs[r.Intn(len(p.oddballs))]
		default:
			id = p.singles[r.Intn(len(p.singles))]
		}
		u := flipCase(id, true)
		if !live[string(cstrOf(&u))] {
			if r.Intn(3) == 0 {
				id = caseVariant(id)
			}
			if r.Intn(6) == 0 {
				id = tailGarbage(id)
			}
			return id, true
		}
	}
	return ID{}, false
}

func fileLine(torn bool, ids []ID) string {
	var sb strings.Builder
	sb.WriteString("file ")
	if torn {
		sb.WriteString("1")
	} else {
		sb.WriteString("0")
	}
	for _, id := range ids {
		sb.WriteByte(' ')
		sb.WriteString(idTok(id))
	}
	return sb.String()
}

func liveTable() []ID {
	out := make([]ID, MAX)
	for k := 0; k < MAX; k++ {
		out[k] = cache.Shm.Shm.Userid[k]
	}
	return out
}

func startHistory(table []ID) bool {
	step("reset", "reset")
	step(fileLine(false, table), "file")
	step("load", "")
	return !tainted && !dead
}

func over() bool { return tainted || dead }

func searchSome(ids []ID) {
	for _, id := range ids {
		if over() {
			return
		}
		step("search "+idTok(caseVariant(id)), "")
	}
}

// enumerate: a family chain of length L in slots 0..L-1; at every position: remove+add, rename inside the
// family, rename to another bucket, clear.  Smallest first.
func enumerate(p *pool) {
	fam := p.fams[0]
	other := p.fams[1]
	for L := 1; L <= 5; L++ {
		for pos := 0; pos < L; pos++ {
			for variant := 0; variant < 4; variant++ {
				table := make([]ID, MAX)
				copy(table, fam[:L])
				table[MAX-1] = other[0]
				if !startHistory(table) {
					continue
				}
				// the last lookup before the mutation resolves the id of the slot that is about to change, and the first
				// lookups after it ask for that id again: a lookup must depend on the segment only, not on what was asked before
				step("search "+idTok(caseVariant(fam[pos])), "")
				switch variant {
				case 0:
					step(fmt.Sprintf("remove %d", pos), "")
					searchSome([]ID{fam[pos], fam[pos]})
					searchSome(fam[:L])
					if !over() {
						step(fmt.Sprintf("add %d %s", pos, idTok(fam[5])), "")
					}
				case 1:
					step(fmt.Sprintf("set %d %s", pos+1, idTok(caseVariant(fam[5]))), "")
				case 2:
					step(fmt.Sprintf("set %d %s", pos+1, idTok(other[1])), "")
				case 3:
					step(fmt.Sprintf("set %d %s", pos+1, idTok(ID{})), "")
				}
				searchSome(append(append([]ID{fam[pos]}, fam[:6]...), other[0], other[1]))
				if !over() {
					step("dosearch "+idTok(ID{}), "")
				}
				if !over() {
					step("lookupall", "")
				}
				if !over() {
					step(fileLine(false, liveTable()), "file")
					step("load", "")
				}
				searchSome(fam[:L])
			}
		}
	}
}

func pfx(peer bool) string {
	if peer {
		return "peer "
	}
	return ""
}

// staleLookups: lookup of X (a hit) -> one change of the index that concerns X's slot -> lookups of X again with no other
// lookup in between, for every kind of change, with the lookups and the change made by this process or by the peer
// process attached to the same segment.  A lookup is a function of the segment: whatever a process remembers from
// earlier lookups must not show.  Smallest first (3-node chain; the slot at the head, in the middle, at the tail).
func staleLookups(p *pool) {
	fam, other := p.fams[0], p.fams[1]
	combos := [][2]bool{{false, false}, {false, true}, {true, false}}
	slots := []int{1}
	if run.Thorough() {
		combos = append(combos, [2]bool{true, true})
		slots = []int{0, 1, 2}
	}
	for mut := 0; mut < 9; mut++ {
		for ci, c := range combos {
			for _, k := range slots {
				if (mut == 6 || mut == 7) && c[1] {
					continue // a cold reload is done by the process that owns the segment
				}
				table := make([]ID, MAX)
				copy(table, fam[:3])
				table[5] = other[0]
				if !startHistory(table) {
					continue
				}
				X := fam[k]
				S, M := pfx(c[0]), pfx(c[1])
				step(S+"search "+idTok(caseVariant(X)), "")
				switch mut {
				case 0: // taken out of the index; the bytes stay in Userid[k]
					step(fmt.Sprintf("%sremove %d", M, k), "")
				case 1: // account cleared
					step(fmt.Sprintf("%sset %d %s", M, k+1, idTok(ID{})), "")
				case 2: // renamed to another bucket
					step(fmt.Sprintf("%sset %d %s", M, k+1, idTok(other[1])), "")
				case 3: // renamed inside the chain
					step(fmt.Sprintf("%sset %d %s", M, k+1, idTok(fam[4])), "")
				case 4: // the id moves to another slot
					step(fmt.Sprintf("%sset %d %s", M, k+1, idTok(ID{})), "")
					step(fmt.Sprintf("%sset %d %s", M, 8, idTok(caseVariant(X))), "")
				case 5: // the slot is re-used for another id
					step(fmt.Sprintf("%sremove %d", M, k), "")
					step(fmt.Sprintf("%sadd %d %s", M, k, idTok(fam[4])), "")
				case 6: // cold reload of a table without the id
					t := liveTable()
					t[k] = ID{}
					step("reset", "reset")
					step(fileLine(false, t), "file")
					step("load", "")
				case 7: // cold reload of a table that has the id in another slot
					t := liveTable()
					t[k], t[9] = ID{}, X
					step("reset", "reset")
					step(fileLine(false, t), "file")
					step("load", "")
				case 8: // removed here, registered again in another slot (the old slot still carries the bytes)
					step(fmt.Sprintf("%sremove %d", M, k), "")
					step(fmt.Sprintf("%sset %d %s", M, 11, idTok(X)), "")
				}
				for _, q := range []ID{caseVariant(X), X} {
					if !over() {
						step(S+"search "+idTok(q), "")
					}
				}
				if !over() {
					step(S+"dosearch "+idTok(X), "")
				}
				if !over() { // the other process has its own memory of earlier lookups
					step(pfx(!c[0])+"search "+idTok(caseVariant(X)), "")
				}
				if mut == 0 && !over() { // as in a re-registration: back under another slot, removed again
					step(fmt.Sprintf("%sset %d %s", M, 13, idTok(caseVariant(X))), "")
					step(S+"search "+idTok(X), "")
					if !over() {
						step(fmt.Sprintf("%sremove %d", M, 12), "")
						step(S+"search "+idTok(caseVariant(X)), "")
					}
				}
				if !over() && ci == 0 {
					step("lookupall", "")
				}
			}
		}
	}
}

// restartCases: a second process starts against the live, loaded segment the way main_init does — as creator
// (IS_NEW_SHM) or as opener — with or without its own LoadUHash, whose .PASSWDS is missing, torn after an agreeing
// prefix, shorter than the table, or agreeing; the chain is out of slot order and (second round) one slot is detached.
// The ids served to the first process and to the long-lived peer must all still resolve afterwards.
func restartCases(p *pool) {
	fam, other := p.fams[0], p.fams[1]
	for _, withDetached := range []bool{false, true} {
		for _, how := range []string{"create", "open"} {
			for fileKind := 0; fileKind < 5; fileKind++ {
				if !run.Thorough() && withDetached && fileKind >= 3 {
					continue
				}
				table := make([]ID, MAX)
				copy(table, fam[:3])
				table[5], table[9] = other[0], other[1]
				if !startHistory(table) {
					continue
				}
				step(fmt.Sprintf("set 1 %s", idTok(fam[3])), "") // chain 1 -> 2 -> 0: not in slot order
				if withDetached && !over() {
					step("remove 2", "")
				}
				step("search "+idTok(caseVariant(fam[1])), "")
				step("peer search "+idTok(caseVariant(fam[3])), "")
				if over() {
					continue
				}
				t := liveTable()
				switch fileKind {
				case 0:
					step("file none", "file")
					step("restart "+how+" load", "")
				case 1:
					step(fileLine(true, t[:7]), "file")
					step("restart "+how+" load", "")
				case 2:
					step(fileLine(false, t), "file")
					step("restart "+how+" load", "")
				case 3:
					step(fileLine(false, t[:2]), "file")
					step("restart "+how+" load", "")
				case 4:
					step("file none", "file")
					step("restart "+how+" noload", "")
				}
				for _, q := range []ID{fam[3], fam[1], fam[2], other[1]} {
					if !over() {
						step("search "+idTok(caseVariant(q)), "")
					}
				}
				if !over() {
					step("peer lookupall", "")
				}
				if !over() { // the index still takes changes
					step(fmt.Sprintf("set 3 %s", idTok(fam[4])), "")
					step("lookupall", "")
				}
				if !over() && fileKind == 0 { // and a later reload by the owner, once the file is back
					step(fileLine(false, liveTable()), "file")
					step("load", "")
					step("lookupall", "")
				}
			}
		}
	}
}

// registerCases: the index driven through its only production writer, ptt.SetupNewUser: registrations into a table with
// a few free slots; ONE of them meets a write fault (.PASSWDS away while its record is written, after the slot was
// assigned); then an id colliding with the failed id in the 16-bit hash, fillers until no free slot is left (so every
// free slot, also the one of the failed registration if it was given back, is handed out again), one registration too
// many, a duplicate in another letter case; lookups of everything at every stage.  Smallest first.
func registerCases(p *pool) {
	fam, other := p.fams[0], p.fams[1]
	frees := []int{2, 3, 4}
	if run.Thorough() {
		frees = []int{1, 2, 3, 4, 6}
	}
	for _, nFree := range frees {
		for faultAt := -1; faultAt < 2; faultAt++ { // which registration meets the write fault (-1: none)
			for _, collide := range []bool{true, false} {
				table := make([]ID, MAX)
				j := 0
				for k := 0; k < MAX-nFree; k++ {
					table[k] = p.singles[j]
					j++
				}
				if !startHistory(table) {
					continue
				}
				fillers := p.singles[j:]
				X, Y := fam[0], fam[1]
				if !collide {
					Y = other[0]
				}
				seq := []ID{X, Y}
				if faultAt == 1 {
					seq = []ID{other[1], X, Y}
				}
				for n, id := range seq {
					if over() {
						break
					}
					f := 0
					if (faultAt == 0 && n == 0) || (faultAt == 1 && n == 1) {
						f = 1
					}
					step(fmt.Sprintf("register %s %d", idTok(id), f), "")
					if !over() {
						step("search "+idTok(caseVariant(id)), "")
					}
				}
				if !over() {
					step("lookupall", "")
				}
				for n := 0; n < nFree+1 && !over(); n++ { // until the table is full, and one more
					out, _ := step(fmt.Sprintf("register %s 0", idTok(fillers[n])), "")
					if strings.HasPrefix(out, "errinvaliduid") {
						break
					}
					for _, q := range []ID{X, Y} {
						if !over() {
							step("search "+idTok(caseVariant(q)), "")
						}
					}
				}
				if !over() {
					step("lookupall", "")
					step(fmt.Sprintf("register %s 0", idTok(caseVariant(Y))), "") // already there, in another letter case
					step("peer lookupall", "")
				}
				if !over() { // the owner's reload afterwards
					step("load", "")
					step("lookupall", "")
				}
			}
		}
	}
}

// sweepCases: a registration on a FULL table while the hourly sweep of expired accounts is due (ptt.tryCleanUser ->
// killUser zeroes the expired records of .PASSWDS; the index in shm is not theirs to touch and the registration is still
// refused).  The expired account A collides in the 16-bit hash with a live id B; B sits behind A on the chain, in a lower
// or a higher slot; A at the head / in the middle / at the tail; one, two or no expirable records; slot 0 (uid 1) aged too
// (never swept).  Every live id must still resolve afterwards, here and in the peer.
func sweepCases(p *pool) {
	fam := p.fams[0]
	type sc struct {
		aSlot, bSlot int  // A = fam[0] in aSlot, B = fam[1] put behind A by a rename of bSlot
		extra        []int // more records to age
		full         bool
	}
	cases := []sc{
		{10, 3, nil, true}, {10, 30, nil, true}, {10, 3, []int{0, 20}, true}, {3, 10, []int{49}, true},
		{10, 3, nil, false}, {-1, 3, nil, true},
	}
	if run.Thorough() {
		cases = append(cases, sc{49, 1, []int{1}, true}, sc{1, 0, nil, true}, sc{25, 24, []int{2, 3, 4, 5, 6}, true})
	}
	for _, c := range cases {
		table := make([]ID, MAX)
		for k := 0; k < MAX; k++ {
			table[k] = p.singles[k]
		}
		if c.aSlot >= 0 {
			table[c.aSlot] = fam[0]
		}
		table[40] = fam[2] // a third member of the chain, loaded in slot order
		if !c.full {
			table[45] = ID{}
		}
		if !startHistory(table) {
			continue
		}
		step(fmt.Sprintf("set %d %s", c.bSlot+1, idTok(fam[1])), "") // B goes to the tail of the chain, behind A
		step(fileLine(false, liveTable()), "file")                  // .PASSWDS agrees with the table
		if c.aSlot >= 0 {
			step(fmt.Sprintf("expire %d", c.aSlot), "")
		}
		for _, k := range c.extra {
			step(fmt.Sprintf("expire %d", k), "")
		}
		step("search "+idTok(caseVariant(fam[1])), "")
		if over() {
			continue
		}
		step(fmt.Sprintf("register %s 0 sweep", idTok(p.singles[60])), "")
		for _, q := range []ID{fam[1], fam[2], fam[0]} {
			if !over() {
				step("search "+idTok(caseVariant(q)), "")
			}
		}
		if !over() {
			step("lookupall", "")
			step("peer lookupall", "")
		}
		if !over() { // again: the records are gone from the file now, nothing left to sweep
			step(fmt.Sprintf("register %s 0 sweep", idTok(p.singles[61])), "")
			step("lookupall", "")
		}
		if !over() { // the killed account's slot is released by the owner (what a later cold start does slot by slot)
			if c.aSlot >= 0 {
				step(fmt.Sprintf("set %d %s", c.aSlot+1, idTok(ID{})), "")
				step(fmt.Sprintf("register %s 0 sweep", idTok(p.singles[62])), "")
				step("lookupall", "")
			}
		}
	}
}

// longIdCases: the lookup as the api layer does it (bbs.CheckExistsUser = UUserID.ToRaw + SearchUserRaw) with ids of any
// length: the table holds ids of exactly IDLEN characters (one registered through SetupNewUser); queried: those ids with
// 1..8 more characters, in all letter cases (ABSENT: must not resolve), the ids themselves (found), their 11-character
// prefixes, 13-character names equal to a stored unterminated 13-byte id, names with bytes that are not alphanumeric.
func longIdCases(p *pool) {
	r := run.R
	letters := "abcdefghijklmnopqrstuvwxyzABCDEFGHIJKLMNOPQRSTUVWXYZ0123456789"
	mk12 := func() ID {
		b := make([]byte, 12)
		b[0] = letters[r.Intn(52)]
		for j := 1; j < 12; j++ {
			b[j] = letters[r.Intn(len(letters))]
		}
		return mkID(string(b))
	}
	n := 2
	if run.Thorough() {
		n = 12
	}
	for h := 0; h < n; h++ {
		S1, S2 := mk12(), mk12()
		table := make([]ID, MAX)
		table[0], table[4], table[7], table[9] = p.singles[0], S1, mkID("abcdefghijklm"), p.fams[0][0]
		if !startHistory(table) {
			continue
		}
		step(fmt.Sprintf("register %s 0", idTok(S2)), "")
		q := func(b []byte) {
			if !over() {
				step("exists "+hx.Hex(b), "")
			}
		}
		for _, S := range []ID{S1, S2} {
			base := cstrOf(&S)
			for _, v := range []ID{S, flipCase(S, true), flipCase(S, false), caseVariant(S)} {
				vb := append([]byte{}, cstrOf(&v)...)
				q(vb)                                        // the id itself: found
				q(append(append([]byte{}, vb...), 'x'))      // 13 characters
				q(append(append([]byte{}, vb...), "Z9"...))  // 14
				q(append(append([]byte{}, vb...), letters[:1+r.Intn(8)]...))
				q(vb[:11]) // a proper prefix: absent
			}
			_ = base
		}
		q([]byte("abcdefghijklm"))
		q([]byte("ABCDEFGHIJKLMN"))
		short := p.fams[0][0]
		q(append(append([]byte{}, cstrOf(&short)...), 'q'))
		q(cstrOf(&short))
		q([]byte("a"))
		q([]byte("ab cd"))
		q([]byte{})
		q([]byte("1abcdef"))
		if !over() {
			step("lookupall", "")
		}
	}
}

func randomTable(p *pool, kind int) []ID {
	r := run.R
	table := make([]ID, MAX)
	n := MAX
	if r.Intn(6) == 0 {
		n = r.Intn(MAX + 1)
	}
	used := map[string]bool{}
	put := func(k int, id ID) {
		u := flipCase(id, true)
		key := string(cstrOf(&u))
		if used[key] {
			return
		}
		used[key] = true
		table[k] = id
	}
	switch kind {
	case 0: // collision heavy: two or three whole families, scattered
		perm := permute(MAX)
		j := 0
		for f := 0; f < 2+r.Intn(2); f++ {
			fam := p.fams[r.Intn(len(p.fams))]
			for _, id := range fam[:3+r.Intn(len(fam)-3)] {
				put(perm[j], id)
				j++
			}
		}
		for _, id := range p.emptyFam {
			if r.Bool() {
				put(perm[j], id)
				j++
			}
		}
	case 1: // full table
		for k := 0; k < MAX; k++ {
			for table[k] == (ID{}) {
				var id ID
				if k%3 == 0 {
					f := p.fams[r.Intn(len(p.fams))]
					id = f[r.Intn(len(f))]
				} else {
					id = p.singles[r.Intn(len(p.singles))]
				}
				put(k, id)
			}
		}
	default: // mixed, about half full
		for k := 0; k < MAX; k++ {
			switch r.Intn(8) {
			case 0, 1:
				f := p.fams[r.Intn(len(p.fams))]
				put(k, f[r.Intn(len(f))])
			case 2, 3:
				put(k, p.singles[r.Intn(len(p.singles))])
			case 4:
				if r.Intn(3) == 0 {
					put(k, p.oddballs[r.Intn(len(p.oddballs))])
				}
			}
		}
	}
	for k := range table {
		if r.Intn(10) == 0 && table[k] != (ID{}) {
			table[k] = tailGarbage(caseVariant(table[k]))
		}
	}
	return table[:n]
}

func permute(n int) []int {
	p := make([]int, n)
	for i := range p {
		p[i] = i
	}
	for i := n - 1; i > 0; i-- {
		j := run.R.Intn(i + 1)
		p[i], p[j] = p[j], p[i]
	}
	return p
}

func liveSlots() (used, free []int) {
	for k := 0; k < MAX; k++ {
		if isEmptyID(&cache.Shm.Shm.Userid[k]) {
			free = append(free, k)
		} else {
			used = append(used, k)
		}
	}
	return
}

// familyOf returns the pool family whose bucket the id is in (to rename inside a chain).
func (p *pool) familyOf(id *ID) []ID {
	if f, ok := p.famOfHash[refHash(id)]; ok {
		return p.fams[f]
	}
	return nil
}

func history(p *pool, kind int, nOps int) {
	r := run.R
	if !startHistory(randomTable(p, kind)) {
		return
	}
	for n := 0; n < nOps && !over(); n++ {
		if n > 0 && r.Intn(6) == 0 {
			step(pfx(r.Intn(8) == 0)+"lookupall", "")
			if over() {
				break
			}
		}
		used, _ := liveSlots()
		c := r.Intn(100)
		switch {
		case c < 8 && len(used) > 0: // lookup X, change X's slot, lookup X again (here or in the peer)
			k := used[r.Intn(len(used))]
			X := cache.Shm.Shm.Userid[k]
			S, M := pfx(r.Intn(4) == 0), pfx(r.Intn(4) == 0)
			step(S+"search "+idTok(caseVariant(X)), "")
			if over() {
				break
			}
			switch r.Intn(4) {
			case 0:
				step(fmt.Sprintf("%sremove %d", M, k), "")
			case 1:
				step(fmt.Sprintf("%sset %d %s", M, k+1, idTok(ID{})), "")
			case 2:
				if id, ok := p.freshID(p.familyOf(&X)); ok {
					step(fmt.Sprintf("%sset %d %s", M, k+1, idTok(id)), "")
				}
			default:
				step(fmt.Sprintf("%sremove %d", M, k), "")
				if !over() {
					step(fmt.Sprintf("%sset %d %s", M, 1+r.Intn(MAX), idTok(caseVariant(X))), "")
				}
			}
			for j := 1 + r.Intn(2); j > 0 && !over(); j-- {
				step(S+"search "+idTok(caseVariant(X)), "")
			}
		case c < 30: // rename / register / clear one slot
			k := r.Intn(MAX)
			var from []ID
			if r.Intn(3) != 0 {
				cur := cache.Shm.Shm.Userid[k]
				from = p.familyOf(&cur)
				if from == nil && len(used) > 0 {
					o := cache.Shm.Shm.Userid[used[r.Intn(len(used))]]
					from = p.familyOf(&o)
				}
			}
			id, ok := p.freshID(from)
			switch {
			case r.Intn(8) == 0:
				id = ID{} // account removed
			case r.Intn(30) == 0 && len(used) > 0:
				id = caseVariant(cache.Shm.Shm.Userid[used[r.Intn(len(used))]]) // a duplicate in another case
			case !ok:
				continue
			}
			step(fmt.Sprintf("set %d %s", k+1, idTok(id)), "")
		case c < 45: // the two halves of SetUserID called separately, lookups in between
			k := r.Intn(MAX)
			if len(used) > 0 && r.Intn(4) != 0 {
				k = used[r.Intn(len(used))]
			}
			step(fmt.Sprintf("remove %d", k), "")
			for j := r.Intn(3); j > 0 && !over() && len(used) > 0; j-- {
				step("search "+idTok(caseVariant(cache.Shm.Shm.Userid[used[r.Intn(len(used))]])), "")
			}
			if over() {
				break
			}
			cur := cache.Shm.Shm.Userid[k]
			id, ok := p.freshID(p.familyOf(&cur))
			if !ok {
				id = ID{}
			}
			if r.Bool() {
				step(fmt.Sprintf("add %d %s", k, idTok(id)), "")
			} else {
				step(fmt.Sprintf("set %d %s", k+1, idTok(id)), "")
			}
		case c < 75: // lookups
			var q ID
			switch x := r.Intn(10); {
			case x < 6 && len(used) > 0:
				q = caseVariant(cache.Shm.Shm.Userid[used[r.Intn(len(used))]])
				if r.Intn(5) == 0 {
					q = tailGarbage(q)
				}
			case x < 9:
				var ok bool
				if q, ok = p.freshID(nil); !ok {
					q = mkID("nobodyhere")
				}
			default:
				q = ID{}
			}
			if r.Intn(6) == 0 {
				name := append([]byte{}, cstrOf(&q)...)
				if r.Bool() {
					name = append(name, "xyzXYZ019"[:1+r.Intn(9)]...)
				}
				if len(name) <= 24 {
					step("exists "+hx.Hex(name), "")
				}
			} else if r.Intn(8) == 0 {
				step("dosearch "+idTok(q), "")
			} else {
				step("search "+idTok(q), "")
			}
		case c < 78:
			step("dosearch "+idTok(ID{}), "")
		case c < 80:
			step(fmt.Sprintf("getuserid %d", r.Intn(MAX+3)-1), "")
		case c < 83 && len(detached) == 0 && !fileNone && !fileTorn: // a registration through ptt.SetupNewUser, sometimes with a write fault
			id, ok := p.freshID(nil)
			if r.Intn(6) == 0 && len(used) > 0 {
				id, ok = caseVariant(cache.Shm.Shm.Userid[used[r.Intn(len(used))]]), true
			}
			if !ok || isEmptyID(&id) {
				continue
			}
			f := 0
			if r.Intn(4) == 0 {
				f = 1
			}
			step(fmt.Sprintf("register %s %d", idTok(id), f), "")
			if !over() {
				step("search "+idTok(caseVariant(id)), "")
			}
		case c < 84: // a second process starts against the live segment; its .PASSWDS is missing, torn, or agrees
			how := []string{"create", "open"}[r.Intn(2)]
			t := liveTable()
			switch r.Intn(4) {
			case 0:
				step("file none", "file")
			case 1:
				step(fileLine(true, t[:r.Intn(MAX)]), "file")
			default:
				step(fileLine(false, t), "file")
			}
			if r.Intn(5) == 0 {
				step("restart "+how+" noload", "")
			} else {
				step("restart "+how+" load", "")
			}
			if !over() {
				step(pfx(r.Intn(3) == 0)+"lookupall", "")
			}
		case c < 92: // reload on the fly from a file that agrees with the live table (detached slots are linked again)
			t := liveTable()
			if r.Intn(4) == 0 {
				t = t[:r.Intn(MAX+1)]
			}
			if r.Intn(3) == 0 { // same C strings, other bytes after the NUL
				for k := range t {
					t[k] = tailGarbage(t[k])
				}
			}
			step(fileLine(false, t), "file")
			step("load", "")
		case c < 97: // cold reload of the same table
			if len(detached) > 0 {
				continue
			}
			t := liveTable()
			step("reset", "reset")
			step(fileLine(false, t), "file")
			step("load", "")
		default:
			if run.Thorough() && r.Intn(4) == 0 {
				step(fmt.Sprintf("attach %d %d %d %d", cache.SHM_VERSION, int(cache.SHM_RAW_SZ), cache.SHM_VERSION, int(cache.SHM_RAW_SZ)), "")
			} else {
				step(fmt.Sprintf("set %d %s", r.Intn(MAX+4)-1, idTok(p.singles[r.Intn(len(p.singles))])), "")
			}
		}
	}
}

// malformed: ops outside the property's quantifier; only the correspondence judges them.
func malformed(p *pool, n int) {
	r := run.R
	for h := 0; h < n; h++ {
		if !startHistory(randomTable(p, r.Intn(3))) {
			continue
		}
		for j := 0; j < 12 && !dead; j++ {
			used, _ := liveSlots()
			switch r.Intn(14) {
			case 0: // add on a slot that is still linked
				if len(used) > 0 {
					k := used[r.Intn(len(used))]
					id, _ := p.freshID(nil)
					step(fmt.Sprintf("add %d %s", k, idTok(id)), "")
				}
			case 1:
				step(fmt.Sprintf("add %d %s", []int{-1, MAX, MAX + 7, -40}[r.Intn(4)], idTok(p.singles[0])), "")
			case 2:
				step(fmt.Sprintf("remove %d", []int{-1, MAX, 99999}[r.Intn(3)]), "")
			case 3: // poke a pointer, then let checkHash repair it
				if r.Bool() {
					step(fmt.Sprintf("poke next %d %d", r.Intn(MAX), []int{-1, -7, MAX, MAX + 3, r.Intn(MAX)}[r.Intn(5)]), "")
				} else if len(used) > 0 {
					id := cache.Shm.Shm.Userid[used[r.Intn(len(used))]]
					step(fmt.Sprintf("poke head %d %d", refHash(&id), []int{-1, -9, MAX, r.Intn(MAX)}[r.Intn(4)]), "")
				}
				safeLoad()
			case 4: // reload on the fly from a file that DISAGREES with the live table
				t := liveTable()
				for x := 0; x < 3; x++ {
					id, _ := p.freshID(nil)
					t[r.Intn(MAX)] = id
				}
				step(fileLine(false, t), "file")
				safeLoad()
			case 5:
				step(fileLine(true, liveTable()[:r.Intn(MAX)]), "file")
				safeLoad()
			case 6:
				step("file none", "file")
				safeLoad()
			case 7: // one record too many: Userid[MAX_USERS]
				t := append(liveTable(), p.singles[1])
				step(fileLine(false, t), "file")
				safeLoad()
			case 8:
				step(fmt.Sprintf("remove %d", r.Intn(MAX)), "")
				step(fileLine(false, liveTable()), "file")
				safeLoad()
			case 9:
				step([]string{"frobnicate", "add x y", "set 1", "search zz", "file 2", "poke mid 1 1", "remove", "getuserid one",
					"search " + strings.Repeat("61", 12), "add 1 " + strings.Repeat("6", 27), "peer", "peer load", "peer reset", "peer add x y",
					"lookupall now", "peer peer lookupall"}[r.Intn(16)], "")
			case 10:
				step(fmt.Sprintf("getuserid %d", []int{0, -1, MAX + 1, -99999}[r.Intn(4)]), "")
			case 11:
				step(fmt.Sprintf("set %d %s", []int{0, -1, MAX + 1}[r.Intn(3)], idTok(p.singles[2])), "")
			case 12: // lookups without any load after a reset: every bucket points at slot 0
				step("reset", "reset")
				step("file 0", "file")
				step("search "+idTok(p.singles[3]), "")
				step("dosearch "+idTok(ID{}), "")
				step(fmt.Sprintf("set 3 %s", idTok(p.singles[4])), "")
			default:
				if len(used) > 0 {
					step("search "+idTok(caseVariant(cache.Shm.Shm.Userid[used[r.Intn(len(used))]])), "")
				}
			}
		}
	}
}

// hasCycle: some bucket's walk does not end (a poked pointer closed a loop); the loader has no guard there.
func hasCycle() bool {
	for h := 0; h < NB; h++ {
		v := int32(cache.Shm.Shm.HashHead[h])
		steps := 0
		for v >= 0 && int(v) < MAX {
			steps++
			if steps > MAX {
				return true
			}
			v = int32(cache.Shm.Shm.NextInHash[v])
		}
	}
	return false
}

func safeLoad() {
	if !hasCycle() {
		step("load", "")
	}
}

// disagreeingReload: the witness recorded OUTSIDE the property's quantifier (Props/C04.lean
// onfly_disagreeing_file_loses_slot): chain A = slot 2 -> slot 0; the file says slot 2 now holds an id of bucket B;
// the on-the-fly reload links slot 2 behind chain B and cuts chain A after it, slot 0 is never re-linked.
func disagreeingReload(p *pool) {
	a, b := p.fams[0], p.fams[1]
	table := make([]ID, MAX)
	table[0], table[1], table[2] = a[0], b[0], a[1]
	if !startHistory(table) {
		return
	}
	step(fmt.Sprintf("set 1 %s", idTok(a[2])), "") // chain A becomes 2 -> 0
	t := liveTable()
	t[2] = b[1]
	step(fileLine(false, t), "file")
	step("load", "load:onfly-disagreeing")
	q := a[2]
	out, _ := step("search "+idTok(q), "search:after-disagreeing-reload")
	key, what := structureDefect()
	run.Note(fmt.Sprintf("outside the quantifier (recorded, not judged): on-the-fly reload from a .PASSWDS that disagrees with the live table in slot 2: lookup of %q, which slot 0 still holds, answers %q; structure: %s %s", cstrOf(&q), out, key, what))
}

func attachCases(p *pool) {
	if !startHistory(randomTable(p, 0)) {
		return
	}
	V, S := int(cache.SHM_VERSION), int(cache.SHM_RAW_SZ)
	for _, c := range [][2]int{{V, S}, {V + 1, S}, {V, S - 4}, {V - 1, S + 8}, {0, 0}, {V, S}} {
		if over() {
			return
		}
		step(fmt.Sprintf("attach %d %d %d %d", c[0], c[1], V, S), "")
	}
}

func generate() {
	p := buildPool()
	if len(p.fams) < 2 {
		fmt.Println("c04: could not build colliding families")
		return
	}
	run.Extra["colliding_families"] = len(p.fams)
	run.Extra["empty_bucket_family"] = len(p.emptyFam)
	enumerate(p)
	staleLookups(p)
	restartCases(p)
	registerCases(p)
	sweepCases(p)
	longIdCases(p)
	nHist, nMal := 130, 25
	if run.Thorough() {
		nHist, nMal = 4000, 400
	}
	for i := 0; i < nHist; i++ {
		history(p, i%3, 10+run.R.Intn(31))
	}
	malformed(p, nMal)
	disagreeingReload(p)
	if run.Thorough() {
		attachCases(p)
	}
	// leave a sane segment behind
	step("reset", "reset")
	step("file 0", "file")
}
