// c18: correspondence harness + property oracle for the byte-string primitives (property C18).
// It calls the real functions of types, cmsys and cmbbs in-process. Per operation it writes the op line for
// the Lean driver, the implementation's canonical answer, and judges the implementation against the
// property's own specification (libc through cgo, reference FNV-1a, a lexer-based ANSI filter, ...).
package main

import (
	"bytes"
	"flag"
	"fmt"
	"strconv"
	"strings"

	"github.com/Ptt-official-app/go-pttbbs/types"
	"verifharness/internal/hx"
)

var run *hx.Run

var onlyAlias = flag.Bool("only-alias", false, "generate only the result-ownership histories (race-detector pass)")

func itoa(i int) string { return strconv.Itoa(i) }

func cp(b []byte) []byte { return append([]byte{}, b...) }

func hasNul(b []byte) bool { return bytes.IndexByte(b, 0) >= 0 }

func nulClass(a []byte) string {
	if hasNul(a) {
		return "z"
	}
	return "n"
}

func signName(x int) string { return [...]string{"lt", "eq", "gt"}[sign(x)+1] }

// exec runs one op line on the real code; it returns the canonical answer and a histogram label.
// judge (may be nil) is the property oracle for this op: it is given the answer and reports (key, what).
func exec(line string) (out, label string, judge func(out string) (string, string)) {
	ws := strings.Fields(line)
	if len(ws) == 0 {
		return "bad-op", "bad-op", nil
	}
	if f, ok := opsTable[ws[0]]; ok {
		return f(ws)
	}
	return "bad-op", "bad-op", nil
}

type opFunc func(ws []string) (out, label string, judge func(string) (string, string))

var opsTable = map[string]opFunc{}

func unhex(s string) (b []byte, ok bool) {
	defer func() {
		if recover() != nil {
			ok = false
		}
	}()
	return hx.UnHex(s), true
}

// args decodes n hex fields ws[1..n]; ok=false on a malformed op (the model answers bad-op as well).
func args(ws []string, n int) ([][]byte, bool) {
	if len(ws) != n+1 {
		return nil, false
	}
	out := make([][]byte, n)
	for i := 0; i < n; i++ {
		b, ok := unhex(ws[i+1])
		if !ok {
			return nil, false
		}
		out[i] = b
	}
	return out, true
}

var bad = func() (string, string, func(string) (string, string)) { return "bad-op", "bad-op", nil }

func init() {
	// ---- group 1: types/cstr.go --------------------------------------------------------------
	opsTable["cstrlen"] = func(ws []string) (string, string, func(string) (string, string)) {
		a, ok := args(ws, 1)
		if !ok {
			return bad()
		}
		s := a[0]
		out := hx.CallSync(func() string { return itoa(types.Cstrlen(cp(s))) })
		return out, "cstrlen:" + nulClass(s), func(out string) (string, string) {
			if want := itoa(libcStrlen(s)); out != want {
				return "len:cstrlen", fmt.Sprintf("Cstrlen(%q)=%s, strlen=%s", s, out, want)
			}
			return "", ""
		}
	}
	opsTable["cstrtobytes"] = func(ws []string) (string, string, func(string) (string, string)) {
		a, ok := args(ws, 1)
		if !ok {
			return bad()
		}
		s := a[0]
		out := hx.CallSync(func() string { return hx.Hex(types.CstrToBytes(cp(s))) })
		return out, "cstrtobytes:" + nulClass(s), func(out string) (string, string) {
			if want := hx.Hex(s[:libcStrlen(s)]); out != want {
				return "prefix:cstrtobytes", fmt.Sprintf("CstrToBytes(%q)=%s, want %s", s, out, want)
			}
			return "", ""
		}
	}
	cmpOp := func(name string, f func(a, b types.Cstr) int, ref func(a, b []byte) int) {
		opsTable[name] = func(ws []string) (string, string, func(string) (string, string)) {
			a, ok := args(ws, 2)
			if !ok {
				return bad()
			}
			x, y := a[0], a[1]
			var v int
			out := hx.CallSync(func() string { v = f(cp(x), cp(y)); return itoa(v) })
			want := ref(x, y)
			return out, name + ":" + signName(want) + ":" + nulClass(x) + nulClass(y), func(out string) (string, string) {
				if sign(v) != sign(want) {
					return "sign:" + name, fmt.Sprintf("%s(%q,%q)=%s, libc gives %d", name, x, y, out, want)
				}
				return "", ""
			}
		}
	}
	cmpOp("cstrcmp", types.Cstrcmp, libcStrcmp)
	cmpOp("cstrcasecmp", types.Cstrcasecmp, libcStrcasecmp)
	strOp := func(name string, f func(a, b types.Cstr) int, ref func(a, b []byte) int) {
		opsTable[name] = func(ws []string) (string, string, func(string) (string, string)) {
			a, ok := args(ws, 2)
			if !ok {
				return bad()
			}
			h, n := a[0], a[1]
			var v int
			out := hx.CallSync(func() string { v = f(cp(h), cp(n)); return itoa(v) })
			// the property speaks about non-empty NUL-free needles; the rest is recorded (O6), compared
			// with the model, not judged.
			if len(n) == 0 || hasNul(n) {
				cls := "needle-with-nul"
				if len(n) == 0 {
					cls = "empty-needle"
				}
				return out, name + ":obs:" + cls, nil
			}
			want := ref(h, n)
			cls := "hit"
			if want < 0 {
				cls = "miss"
				if bytes.Contains(h, n) {
					cls = "miss-hit-behind-nul"
				}
			}
			return out, name + ":" + cls + ":" + nulClass(h), func(out string) (string, string) {
				if v != want {
					return "pos:" + name, fmt.Sprintf("%s(%q,%q)=%s, libc gives %d", name, h, n, out, want)
				}
				return "", ""
			}
		}
	}
	strOp("cstrstr", types.Cstrstr, libcStrstr)
	strOp("cstrcasestr", types.Cstrcasestr, libcStrcasestr)
	opsTable["casehasprefix"] = func(ws []string) (string, string, func(string) (string, string)) {
		a, ok := args(ws, 2)
		if !ok {
			return bad()
		}
		s, p := a[0], a[1]
		out := hx.CallSync(func() string {
			if types.CstrCaseHasPrefix(cp(s), cp(p)) {
				return "1"
			}
			return "0"
		})
		if hasNul(s) || hasNul(p) { // the Go helper has no NUL handling: outside the C comparison
			return out, "casehasprefix:obs:nul", nil
		}
		return out, "casehasprefix:" + out, func(out string) (string, string) {
			want := "0"
			if len(p) <= len(s) && libcStrncasecmp(s, p, len(p)) == 0 {
				want = "1"
			}
			if out != want {
				return "prefix:casehasprefix", fmt.Sprintf("CstrCaseHasPrefix(%q,%q)=%s, strncasecmp says %s", s, p, out, want)
			}
			return "", ""
		}
	}
	opsTable["tokenr"] = func(ws []string) (string, string, func(string) (string, string)) {
		a, ok := args(ws, 2)
		if !ok {
			return bad()
		}
		s, sep := a[0], a[1]
		out := hx.CallSync(func() string {
			f, r := types.CstrTokenR(cp(s), cp(sep))
			return hx.Hex(f) + " " + hx.Hex(r)
		})
		m := len(s)
		for i, c := range s {
			if c == 0 || bytes.IndexByte(sep, c) >= 0 {
				m = i
				break
			}
		}
		cls := "sep"
		if m == len(s) {
			cls = "end"
		} else if s[m] == 0 {
			cls = "nul"
		}
		return out, "tokenr:" + cls, func(out string) (string, string) {
			rest := []byte{}
			if m+1 < len(s) {
				rest = s[m+1:]
			}
			if want := hx.Hex(s[:m]) + " " + hx.Hex(rest); out != want {
				return "split:tokenr", fmt.Sprintf("CstrTokenR(%q,%q)=%s, want %s", s, sep, out, want)
			}
			return "", ""
		}
	}
}

// do runs one op line, records it, and applies the property oracle.
func do(line string, nontrivial bool) string {
	out, label, judge := exec(line)
	crashed := out == "PANIC" || out == "TIMEOUT"
	if crashed {
		label += ":" + strings.ToLower(out)
	}
	i := run.Op(line, out, label, nontrivial)
	op := strings.Fields(line + " ?")[0]
	if crashed {
		if _, isObs := observedCrash[label]; isObs {
			return out
		}
		run.Fail(i, "crash:"+op, fmt.Sprintf("%s on %q: %s", out, line, hx.LastPanic))
		return out
	}
	if judge != nil {
		if key, what := judge(out); key != "" {
			run.Fail(i, key, what)
		}
	}
	return out
}

// crashes that DESIGN.md records as observations outside the property's judged domain (O7 and the
// DBCSStatus precondition); they are compared with the model (which faults on exactly these), not judged.
var observedCrash = map[string]struct{}{}

func main() {
	run = hx.Start("C18")
	defer run.Finish()
	defer closeEnv()
	if run.Replay != "" {
		for _, l := range hx.ReplayOps(run.Replay) {
			do(l, true)
		}
		finishGroup3()
		return
	}
	generate()
}
