package main

// Call sites (C18, added after seeds C18-r6-1 / C18-r6-2): the one place where strip-all mode is used —
// ptt.myWrite, which stores a message in the receiver's queue (UInfo[].Msgs[].LastCallIn) — is driven with
// arbitrary message texts against the real shared memory. myWrite is not exported; it is reached with
// go:linkname (no change to /repo).

import (
	"bytes"
	"fmt"
	"os"
	_ "unsafe"

	"github.com/Ptt-official-app/go-pttbbs/cache"
	"github.com/Ptt-official-app/go-pttbbs/ptttype"
	"github.com/Ptt-official-app/go-pttbbs/types"
	"verifharness/internal/bbsenv"
	"verifharness/internal/hx"

	_ "github.com/Ptt-official-app/go-pttbbs/ptt"
)

//go:linkname pttMyWrite github.com/Ptt-official-app/go-pttbbs/ptt.myWrite
func pttMyWrite(myUtmpID ptttype.UtmpID, myInfo *ptttype.UserInfoRaw, pid types.Pid_t, prompt []byte, flag ptttype.WaterBall, putmpID ptttype.UtmpID, puin *ptttype.UserInfoRaw) (msgCount uint8, err error)

var theEnv *bbsenv.Env

func needEnv() {
	if theEnv != nil {
		return
	}
	e, err := bbsenv.New(bbsenv.Options{})
	if err != nil {
		fmt.Fprintln(os.Stderr, "c18: bbsenv:", err)
		os.Exit(2)
	}
	theEnv = e
}

func closeEnv() {
	if theEnv != nil {
		theEnv.Close()
		theEnv = nil
	}
}

func init() {
	opsTable["callin"] = func(ws []string) (string, string, judgeFn) {
		a, ok := args(ws, 1)
		if !ok {
			return bad()
		}
		msg := a[0]
		needEnv()
		const me, you = ptttype.UtmpID(1), ptttype.UtmpID(2)
		var stored []byte
		out := hx.CallSync(func() string {
			shm := cache.Shm.Shm
			shm.UInfo[me] = ptttype.UserInfoRaw{}
			shm.UInfo[you] = ptttype.UserInfoRaw{}
			copy(shm.UInfo[me].UserID[:], "sender1")
			copy(shm.UInfo[you].UserID[:], "receiver1")
			shm.UInfo[me].Pid = types.Pid_t(os.Getpid())
			shm.UInfo[you].Pid = types.Pid_t(os.Getpid())
			n, err := pttMyWrite(me, &shm.UInfo[me], shm.UInfo[you].Pid, cp(msg), ptttype.WATERBALL_ALOHA, you, &shm.UInfo[you])
			if err != nil || n != 1 {
				return fmt.Sprintf("ERR n=%d err=%v", n, err)
			}
			stored = cp(shm.UInfo[you].Msgs[0].LastCallIn[:])
			return hx.Hex(stored)
		})
		cls := "plain"
		switch {
		case bytes.Contains(msg, []byte{0x1b, '['}):
			cls = "csi"
			if i := bytes.IndexByte(msg, 0x1b); i >= 0 && (i+1 == len(msg) || msg[i+1] != '[') {
				cls = "csi+other-esc"
			}
		case bytes.IndexByte(msg, 0x1b) >= 0:
			cls = "esc-without-csi"
		}
		if len(msg) > 76 {
			cls += ":long"
		}
		return out, "callin:" + cls, func(out string) (string, string) {
			if len(stored) == 0 {
				return "store:callin", fmt.Sprintf("myWrite(%q) stored nothing: %s", msg, out)
			}
			// the clause: in strip-all mode no ESC byte survives — judged on what the receiver gets
			if bytes.IndexByte(stored, 0x1b) >= 0 {
				return "esc:callin", fmt.Sprintf("myWrite(%q) stores %q in LastCallIn: an ESC byte survives", msg, cstrOf(stored))
			}
			// and the stored text is the lexer-filtered text (plain bytes only), cut to the field
			want, _ := refStrip(msg, 0)
			field := make([]byte, len(stored))
			copy(field, want)
			if !bytes.Equal(stored, field) {
				return "text:callin", fmt.Sprintf("myWrite(%q) stores %q, the plain bytes of the message are %q", msg, cstrOf(stored), want)
			}
			return "", ""
		}
	}
}

func genCallSites() {
	r := run.R
	// every short message over the escape alphabet: ESC not followed by '[', lone ESC at the end, ESC ESC, CSI, NUL
	enum([]byte{0x1b, '[', '*', '7', 'm', 'a', 0x00}, 4, func(b []byte) { do("callin "+hx.Hex(b), true) })
	for x := 0; x < 256; x++ { // every byte behind an ESC
		do("callin "+hx.Hex([]byte{'h', 'i', ' ', 0x1b, byte(x), 's'}), true)
	}
	n := 600
	if run.Thorough() {
		n = 20000
	}
	for i := 0; i < n; i++ {
		s := ansiText(r, 8)
		if r.Intn(3) == 0 { // no CSI introducer at all, but other escapes
			s = bytes.ReplaceAll(s, []byte{0x1b, '['}, []byte{0x1b, r.Pick([]byte("*78c(=>"))})
		}
		if r.Intn(8) == 0 {
			s = append(s, bytes.Repeat([]byte("x"), 70)...) // longer than the 76-byte field
			s = append(s, 0x1b, '*', 's')
		}
		do("callin "+hx.Hex(s), true)
	}
}
