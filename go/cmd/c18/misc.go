package main

import (
	"bufio"
	"bytes"
	"fmt"
	"strconv"
	"strings"

	"github.com/Ptt-official-app/go-pttbbs/cmbbs"
	"github.com/Ptt-official-app/go-pttbbs/cmsys"
	"github.com/Ptt-official-app/go-pttbbs/ptttype"
	"github.com/Ptt-official-app/go-pttbbs/types"
	"verifharness/internal/hx"
)

// ---- group 3 ------------------------------------------------------------------------------------

// counters reported in the statistics (how many cases exercised the two repaired defects' classes)
var findingCount = map[string]int{}

func cstrOf(b []byte) []byte {
	if i := bytes.IndexByte(b, 0); i >= 0 {
		return b[:i]
	}
	return b
}

// dbcsRef: the status of every byte of s (0 ascii, 1 lead, 2 trail), parsing from the start.
func dbcsRef(s []byte) []int {
	st := make([]int, len(s))
	for i := 0; i < len(s); i++ {
		if s[i] >= 0x80 {
			st[i] = 1
			if i+1 < len(s) {
				st[i+1] = 2
				i++
			}
		}
	}
	return st
}

// danglingLead: does s end in a lead byte whose trail byte is missing?
func danglingLead(s []byte) bool {
	if len(s) == 0 {
		return false
	}
	return dbcsRef(s)[len(s)-1] == 1
}

func validTrail(d byte) bool { return (d >= 0x40 && d <= 0x7e) || (d >= 0xa1 && d <= 0xfe) }

func refFnv1a(s []byte) uint32 {
	h := uint32(33554467) // pttbbs FNV1_32_INIT
	for _, c := range s {
		if c == 0 {
			break
		}
		if c >= 'a' && c <= 'z' {
			c -= 32
		}
		h ^= uint32(c)
		h *= 16777619
	}
	return h
}

func one(ws []string) ([]byte, bool) {
	a, ok := args(ws, 1)
	if !ok {
		return nil, false
	}
	return a[0], true
}

type judgeFn = func(string) (string, string)

func init() {
	opsTable["readlines"] = func(ws []string) (string, string, judgeFn) {
		in, ok := one(ws)
		if !ok {
			return bad()
		}
		out := hx.CallSync(func() string {
			rd := bufio.NewReader(bytes.NewReader(cp(in)))
			var ls []string
			for n := 0; ; n++ {
				if n > len(in)+2 {
					return "TIMEOUT"
				}
				line, err := types.ReadLine(rd)
				if err != nil {
					break
				}
				ls = append(ls, hx.Hex(line))
			}
			return itoa(len(ls)) + ":" + strings.Join(ls, ",")
		})
		// reference: split at LF, no line after a final LF, one CR removed from the end of each line
		parts := bytes.Split(in, []byte{'\n'})
		if len(parts[len(parts)-1]) == 0 {
			parts = parts[:len(parts)-1]
		}
		cls := ""
		var ref []string
		for _, p := range parts {
			if len(p) == 0 {
				cls += "e"
			}
			if len(p) > 0 && p[len(p)-1] == '\r' {
				p = p[:len(p)-1]
				cls += "c"
				if len(p) == 0 {
					cls += "E"
				}
			}
			ref = append(ref, hx.Hex(p))
		}
		if len(in) > 0 && in[len(in)-1] != '\n' {
			cls += "u"
		}
		if len(in) > 4096 {
			cls += "L"
		}
		want := itoa(len(ref)) + ":" + strings.Join(ref, ",")
		return out, "readlines:" + uniq(cls), func(out string) (string, string) {
			if out != want {
				return "lines:readlines", fmt.Sprintf("ReadLine* on %q gives %s, want %s", trunc(in), trunc([]byte(out)), trunc([]byte(want)))
			}
			return "", ""
		}
	}
	hashOp := func(name string, f func([]byte) cmsys.Fnv32_t, mod uint32) {
		opsTable[name] = func(ws []string) (string, string, judgeFn) {
			s, ok := one(ws)
			if !ok {
				return bad()
			}
			var v uint32
			out := hx.CallSync(func() string { v = uint32(f(cp(s))); return strconv.FormatUint(uint64(v), 10) })
			return out, name + ":" + nulClass(s), func(out string) (string, string) {
				want := refFnv1a(s)
				if mod != 0 {
					want %= mod
					if v >= mod {
						return "range:" + name, fmt.Sprintf("%s(%q)=%d is not below %d", name, s, v, mod)
					}
				}
				if v != want {
					return "value:" + name, fmt.Sprintf("%s(%q)=%d, FNV-1a over the upper-cased C string gives %d", name, s, v, want)
				}
				// case-insensitivity, directly on the implementation
				t := cp(s)
				for i, c := range t {
					if c >= 'a' && c <= 'z' {
						t[i] = c - 32
					} else if c >= 'A' && c <= 'Z' {
						t[i] = c + 32
					}
				}
				if w := uint32(f(t)); w != v {
					return "case:" + name, fmt.Sprintf("%s(%q)=%d but %s(%q)=%d", name, s, v, name, t, w)
				}
				return "", ""
			}
		}
	}
	hashOp("strhash", cmsys.StringHash, 0)
	hashOp("strhashbits", cmsys.StringHashWithHashBits, 1<<ptttype.HASH_BITS)

	opsTable["stripnb5"] = func(ws []string) (string, string, judgeFn) {
		s, ok := one(ws)
		if !ok {
			return bad()
		}
		var got, buf []byte
		out := hx.CallSync(func() string {
			buf = cp(s)
			got = cmsys.StripNoneBig5(buf)
			return hx.Hex(got) + " " + hx.Hex(buf)
		})
		// reference: printable ASCII and (lead, valid trail) pairs of the C string survive
		c := cstrOf(s)
		want := []byte{}
		cls := ""
		for i := 0; i < len(c); i++ {
			switch {
			case c[i] >= 32 && c[i] < 128:
				want = append(want, c[i])
			case c[i] >= 0x80:
				if i+1 < len(s) && validTrail(s[i+1]) {
					want = append(want, c[i], c[i+1])
					i++
					cls += "d"
				} else if i+1 >= len(s) {
					cls += "l" // dangling lead at the very end of the slice
				} else {
					cls += "x" // lead with an invalid trail byte
				}
			default:
				cls += "c" // control character
			}
		}
		return out, "stripnb5:" + uniq(cls) + ":" + nulClass(s), func(out string) (string, string) {
			if !bytes.Equal(got, want) {
				return "filter:stripnb5", fmt.Sprintf("StripNoneBig5(%q)=%q, want %q", s, got, want)
			}
			// every kept high byte is a lead followed by its kept trail byte
			for i := 0; i < len(got); i++ {
				if got[i] >= 0x80 {
					if i+1 >= len(got) || !validTrail(got[i+1]) {
						return "split:stripnb5", fmt.Sprintf("StripNoneBig5(%q)=%q keeps a lead byte without its trail byte", s, got)
					}
					i++
				}
			}
			// the terminator is written inside the slice, bytes behind it are untouched
			wantBuf := cp(s)
			copy(wantBuf, got)
			if len(got) < len(s) {
				wantBuf[len(got)] = 0
			}
			if !bytes.Equal(buf, wantBuf) {
				return "buffer:stripnb5", fmt.Sprintf("StripNoneBig5(%q) leaves the buffer %q, want %q", s, buf, wantBuf)
			}
			again := hx.CallSync(func() string { return hx.Hex(cmsys.StripNoneBig5(cp(got))) })
			if again != hx.Hex(got) {
				return "idem:stripnb5", fmt.Sprintf("StripNoneBig5 twice on %q: %q then %s", s, got, again)
			}
			return "", ""
		}
	}
	opsTable["dbcsnext"] = func(ws []string) (string, string, judgeFn) {
		if len(ws) != 3 {
			return bad()
		}
		c, e1 := strconv.ParseUint(ws[1], 10, 8)
		st, e2 := strconv.ParseUint(ws[2], 10, 31)
		if e1 != nil || e2 != nil {
			return bad()
		}
		out := hx.CallSync(func() string { return itoa(int(cmsys.DBCSNextStatus(byte(c), cmsys.DBCSStatus_t(st)))) })
		return out, "dbcsnext:" + out, nil
	}
	opsTable["dbcsstatus"] = func(ws []string) (string, string, judgeFn) {
		if len(ws) != 3 {
			return bad()
		}
		pos, err := strconv.ParseInt(ws[1], 10, 32)
		s, ok := unhex(ws[2])
		if err != nil || !ok || strings.HasPrefix(ws[1], "+") {
			return bad()
		}
		out := hx.CallSync(func() string { return itoa(int(cmsys.DBCSStatus(cp(s), int(pos)))) })
		if len(s) == 0 && pos >= 0 {
			// outside the domain (no byte at pos): the code indexes str[0] and panics; recorded, not judged
			return out, "dbcsstatus:obs:empty", nil
		}
		cls := "in"
		if pos < 0 {
			cls = "neg"
		} else if int(pos) >= len(s) {
			cls = "past-end"
		}
		return out, "dbcsstatus:" + cls + ":" + out, func(out string) (string, string) {
			want := 0
			if pos >= 0 {
				p := int(pos)
				if p >= len(s) {
					p = len(s) - 1
				}
				want = dbcsRef(s[:p+1])[p]
			}
			if out != itoa(want) {
				return "status:dbcsstatus", fmt.Sprintf("DBCSStatus(%q,%d)=%s, want %d", s, pos, out, want)
			}
			return "", ""
		}
	}
	opsTable["dbcstrim"] = func(ws []string) (string, string, judgeFn) {
		s, ok := one(ws)
		if !ok {
			return bad()
		}
		var got []byte
		out := hx.CallSync(func() string { got = cmsys.DBCSSafeTrim(cp(s)); return hx.Hex(got) })
		cls := "whole"
		if danglingLead(s) {
			cls = "dangling"
		}
		return out, "dbcstrim:" + cls, func(out string) (string, string) {
			want := s
			if danglingLead(s) {
				want = s[:len(s)-1]
			}
			if !bytes.Equal(got, want) {
				return "trim:dbcstrim", fmt.Sprintf("DBCSSafeTrim(%q)=%q, want %q", s, got, want)
			}
			if danglingLead(got) {
				return "split:dbcstrim", fmt.Sprintf("DBCSSafeTrim(%q)=%q ends in a lead byte", s, got)
			}
			return "", ""
		}
	}
	opsTable["trim"] = func(ws []string) (string, string, judgeFn) {
		s, ok := one(ws)
		if !ok {
			return bad()
		}
		out := hx.CallSync(func() string { return hx.Hex(cmsys.Trim(cp(s))) })
		want := hx.Hex([]byte(strings.TrimRight(string(cstrOf(s)), " ")))
		return out, "trim:" + nulClass(s), func(out string) (string, string) {
			if out != want {
				return "trim:trim", fmt.Sprintf("Trim(%q)=%s, want %s", s, out, want)
			}
			return "", ""
		}
	}
	observedCrash["dbcsstatus:obs:empty:panic"] = struct{}{}
	opsTable["trimdbcs"] = func(ws []string) (string, string, judgeFn) {
		s, ok := one(ws)
		if !ok {
			return bad()
		}
		var got, buf []byte
		out := hx.CallSync(func() string {
			buf = cp(s)
			got = types.TrimDBCS(buf)
			return hx.Hex(got) + " " + hx.Hex(buf)
		})
		c := cstrOf(s)
		cls := "ascii-end"
		switch {
		case len(c) == 0:
			cls = "empty"
		case danglingLead(c):
			cls = "dangling-lead-end"
		case c[len(c)-1] >= 0x80:
			cls = "trail-end"
		}
		return out, "trimdbcs:" + cls, func(out string) (string, string) {
			if !bytes.HasPrefix(c, got) || len(c)-len(got) > 1 {
				return "prefix:trimdbcs", fmt.Sprintf("TrimDBCS(%q)=%q is not the C string minus at most one byte", s, got)
			}
			if danglingLead(got) {
				if !danglingLead(c) {
					findingCount["split:trimdbcs"]++
					return "split:trimdbcs", fmt.Sprintf("TrimDBCS(%q)=%q cuts a complete double-byte character in half", c, got)
				}
				return "split:trimdbcs-left", fmt.Sprintf("TrimDBCS(%q)=%q still ends in a lead byte", c, got)
			}
			if !danglingLead(c) && len(got) != len(c) {
				return "trim:trimdbcs", fmt.Sprintf("TrimDBCS(%q)=%q removes a byte although the string ends in a whole character", c, got)
			}
			// the cut byte is zeroed in the caller's array, nothing else changes
			wantBuf := cp(s)
			if len(got) < len(c) {
				wantBuf[len(got)] = 0
			}
			if !bytes.Equal(buf, wantBuf) {
				return "buffer:trimdbcs", fmt.Sprintf("TrimDBCS(%q) leaves the array %q, want %q", s, buf, wantBuf)
			}
			return "", ""
		}
	}
	opsTable["startswith"] = func(ws []string) (string, string, judgeFn) {
		a, ok := args(ws, 2)
		if !ok {
			return bad()
		}
		str, pre := a[0], a[1]
		out := hx.CallSync(func() string {
			if cmsys.StrcaseStartsWith(cp(str), cp(pre)) {
				return "1"
			}
			return "0"
		})
		// reference: strncasecmp(str, prefix, len(prefix)) == 0 on the bytes, ASCII letters fold, nothing else does
		fold := func(c byte) byte {
			if c >= 'A' && c <= 'Z' {
				return c + 32
			}
			return c
		}
		want := "1"
		if len(str) < len(pre) {
			want = "0"
		} else {
			for i := range pre {
				if fold(str[i]) != fold(pre[i]) {
					want = "0"
					break
				}
			}
		}
		cls := "ne"
		if want == "1" {
			cls = "eq"
		} else if len(str) >= len(pre) {
			for i := range pre { // differs from a match only in bit 5 of non-letters?
				if str[i] != pre[i] && (str[i]^pre[i])&^0x20 == 0 && fold(str[i]) != fold(pre[i]) {
					cls = "ne-bit5"
				}
			}
		}
		return out, "startswith:" + cls, func(out string) (string, string) {
			if out != want {
				return "fold:startswith", fmt.Sprintf("StrcaseStartsWith(%q,%q)=%s, strncasecmp over the bytes says %s", str, pre, out, want)
			}
			// libc itself, where C strings can express the case (no NUL inside the compared part)
			if len(str) >= len(pre) && !hasNul(pre) && !hasNul(str[:len(pre)]) {
				lw := "0"
				if libcStrncasecmp(str, pre, len(pre)) == 0 {
					lw = "1"
				}
				if out != lw {
					return "fold:startswith", fmt.Sprintf("StrcaseStartsWith(%q,%q)=%s, libc strncasecmp says %s", str, pre, out, lw)
				}
			}
			return "", ""
		}
	}
	opsTable["subjectex"] = func(ws []string) (string, string, judgeFn) {
		s, ok := one(ws)
		if !ok || len(s) != ptttype.TTLEN+1 {
			return bad()
		}
		var ty int
		var got []byte
		out := hx.CallSync(func() string {
			t := &ptttype.Title_t{}
			copy(t[:], s)
			st, nt := cmbbs.SubjectEx(t)
			ty, got = int(st), nt
			return itoa(ty) + " " + hx.Hex(nt)
		})
		c := cstrOf(s)
		// C reference: strncasecmp on the bytes (pttbbs subject_ex)
		refTy, rest, nPre := 0, c, 0
		for len(rest) > 0 {
			switch {
			case len(rest) >= 3 && libcStrncasecmp(rest, []byte("Re:"), 3) == 0:
				rest, refTy = rest[3:], 1
			case len(rest) >= 3 && libcStrncasecmp(rest, []byte("Fw:"), 3) == 0:
				rest, refTy = rest[3:], 2
			case len(rest) >= 6 && libcStrncasecmp(rest, []byte("[\xc2\xe0\xbf\xfd]"), 6) == 0:
				rest, refTy = rest[6:], 2
			default:
				goto done
			}
			nPre++
			if len(rest) > 0 && rest[0] == ' ' {
				rest = rest[1:]
			}
		}
	done:
		cls := fmt.Sprintf("subjectex:t%d:n%d", refTy, min(nPre, 3))
		if !hasNul(s) {
			cls += ":full"
		}
		return out, cls, func(out string) (string, string) {
			if !bytes.HasSuffix(c, got) {
				return "suffix:subjectex", fmt.Sprintf("SubjectEx(%q) returns %q, not a suffix of the title", c, got)
			}
			k := len(c) - len(got)
			if k > 0 && dbcsRef(c[:k])[k-1] == 1 {
				findingCount["split:subjectex"]++
				return "split:subjectex", fmt.Sprintf("SubjectEx(%q) cuts at byte %d, inside a double-byte character: %q", c, k, got)
			}
			if ty != refTy || !bytes.Equal(got, rest) {
				return "parse:subjectex", fmt.Sprintf("SubjectEx(%q) = (%d,%q), the C parser (strncasecmp on the bytes) gives (%d,%q)", c, ty, got, refTy, rest)
			}
			return "", ""
		}
	}
}

func uniq(s string) string {
	seen := map[rune]bool{}
	var b []rune
	for _, r := range s {
		if !seen[r] {
			seen[r] = true
			b = append(b, r)
		}
	}
	// stable order
	for i := 0; i < len(b); i++ {
		for j := i + 1; j < len(b); j++ {
			if b[j] < b[i] {
				b[i], b[j] = b[j], b[i]
			}
		}
	}
	if len(b) == 0 {
		return "plain"
	}
	return string(b)
}

func trunc(b []byte) []byte {
	if len(b) > 120 {
		return append(cp(b[:120]), "..."...)
	}
	return b
}

func title(b []byte) string {
	t := make([]byte, ptttype.TTLEN+1)
	copy(t, b)
	return hx.Hex(t)
}

func genGroup3() {
	r := run.R
	th := run.Thorough()
	pick := func(q, t int) int {
		if th {
			return t
		}
		return q
	}
	// --- ReadLine ---
	enum(alpha15, pick(3, 4), func(b []byte) { do("readlines "+hx.Hex(b), true) })
	enum([]byte{'a', '\n', '\r'}, pick(7, 9), func(b []byte) { do("readlines "+hx.Hex(b), true) })
	for i := 0; i < pick(1500, 40000); i++ {
		var in []byte
		n := r.Intn(8)
		for k := 0; k < n; k++ {
			switch r.Intn(5) {
			case 0: // empty line
			case 1:
				in = append(in, r.Bytes(1+r.Intn(20), textAlpha)...)
				in = append(in, '\r')
			default:
				in = append(in, r.Bytes(1+r.Intn(40), textAlpha)...)
			}
			switch r.Intn(6) {
			case 0:
				in = append(in, '\r', '\n')
			case 1:
				in = append(in, '\r', '\r', '\n')
			default:
				in = append(in, '\n')
			}
		}
		if r.Intn(3) == 0 {
			in = append(in, r.Bytes(r.Intn(10), textAlpha)...)
			if r.Intn(3) == 0 {
				in = append(in, '\r')
			}
		}
		do("readlines "+hx.Hex(in), true)
	}
	for _, n := range []int{4095, 4096, 4097, 9000} { // longer than bufio's buffer
		line := bytes.Repeat([]byte{'x'}, n)
		do("readlines "+hx.Hex(append(cp(line), '\r', '\n', 'y')), true)
		do("readlines "+hx.Hex(append(cp(line), '\n', '\n')), true)
	}
	// --- hashes ---
	enum(alpha15, pick(3, 4), func(b []byte) {
		do("strhash "+hx.Hex(b), true)
		do("strhashbits "+hx.Hex(b), true)
	})
	idAlpha := []byte("abcxyzABCXYZ0189\x00\x80\xff_")
	for i := 0; i < pick(3000, 60000); i++ {
		id := make([]byte, 13) // a UserID_t: NUL padded, sometimes full
		copy(id, r.Bytes(r.Intn(14), idAlpha))
		do("strhash "+hx.Hex(id), true)
		do("strhashbits "+hx.Hex(flipCase(r, id)), true)
		do("strhashbits "+hx.Hex(r.Bytes(r.Intn(40), nil)), true)
	}
	// --- StripNoneBig5 / DBCS ---
	big5Alpha := []byte{0x00, 'a', 0x1f, 0x7f, 0x80, 0xa4, 0x40, 0x7e, 0xa1, 0xfe, 0xff, 0x3f}
	enum(big5Alpha, pick(4, 5), func(b []byte) { do("stripnb5 "+hx.Hex(b), true) })
	enum(alpha15, 3, func(b []byte) { do("stripnb5 "+hx.Hex(b), true) })
	dbAlpha := []byte{'a', 0x80, 0xa4, 0x7f, 0x00}
	enum(dbAlpha, pick(5, 6), func(b []byte) {
		h := hx.Hex(b)
		do("dbcstrim "+h, true)
		for pos := -1; pos <= len(b)+1; pos++ {
			do("dbcsstatus "+itoa(pos)+" "+h, true)
		}
	})
	for c := 0; c < 256; c++ {
		for st := 0; st < 4; st++ {
			do(fmt.Sprintf("dbcsnext %d %d", c, st), true)
		}
	}
	enum([]byte{'a', ' ', 0, 0x80}, pick(5, 7), func(b []byte) { do("trim "+hx.Hex(b), true) })
	enum([]byte{'a', 0, 0x80, 0xa4, 0x40}, pick(5, 6), func(b []byte) { do("trimdbcs "+hx.Hex(b), true) })
	for i := 0; i < pick(3000, 60000); i++ {
		// nicknames/titles: ASCII, control bytes, Big5 pairs with valid and invalid trail bytes, dangling leads
		var s []byte
		for k, n := 0, r.Intn(14); k < n; k++ {
			switch r.Intn(6) {
			case 0:
				s = append(s, byte(r.Intn(32)))
			case 1:
				s = append(s, byte(0x80+r.Intn(128)))
			case 2, 3:
				s = append(s, byte(0x81+r.Intn(126)), r.Pick([]byte{0x40, 0x7e, 0xa1, 0xfe, 0x3f, 0x7f, 0x80, 0xa0, 0xff, 'a', 0xb5}))
			default:
				s = append(s, r.Bytes(1+r.Intn(3), textAlpha)...)
			}
		}
		if r.Intn(4) == 0 {
			s = append(s, 0)
			s = append(s, r.Bytes(r.Intn(5), textAlpha)...)
		}
		h := hx.Hex(s)
		do("stripnb5 "+h, true)
		do("dbcstrim "+h, true)
		do("dbcsstatus "+itoa(r.Intn(len(s)+2)-1)+" "+h, true)
		do("trimdbcs "+h, true)
		do("trim "+hx.Hex(append(s, r.Bytes(r.Intn(4), []byte{' ', ' ', 0})...)), true)
	}
	// --- StrcaseStartsWith: every pair of single bytes; every byte value at every position of the three prefixes ---
	for x := 0; x < 256; x++ {
		hxs := hx.Hex([]byte{byte(x)})
		for y := 0; y < 256; y++ {
			do("startswith "+hxs+" "+hx.Hex([]byte{byte(y)}), true)
		}
	}
	prefixes := [][]byte{ptttype.STR_REPLY, ptttype.STR_FORWARD, ptttype.STR_LEGACY_FORWARD}
	for _, pf := range prefixes {
		for pos := range pf {
			for x := 0; x < 256; x++ {
				v := cp(pf)
				v[pos] = byte(x)
				do("startswith "+hx.Hex(append(cp(v), ' ', 'h', 'i'))+" "+hx.Hex(pf), true)
				// the same variant as a title: differs from the genuine prefix in one byte (all 8 single-bit flips
				// are among them, bit 5 in particular: '[' / '{', ':' / 0x1a, 0xc2 / 0xe2 ...)
				do("subjectex "+title(append(cp(v), ' ', 'h', 'i')), true)
			}
		}
		do("startswith "+hx.Hex(pf[:len(pf)-1])+" "+hx.Hex(pf), true) // shorter than the prefix
		do("startswith - "+hx.Hex(pf), true)
		do("startswith "+hx.Hex(pf)+" -", true)
	}
	for i := 0; i < pick(2000, 40000); i++ {
		pf := cp(prefixes[r.Intn(3)])
		if r.Bool() {
			pf = r.Bytes(1+r.Intn(6), textAlpha)
		}
		s := flipCase(r, pf)
		for k := 0; k < r.Intn(3); k++ { // a few bytes changed in one bit
			s[r.Intn(len(s))] ^= 1 << uint(r.Intn(8))
		}
		s = append(s, r.Bytes(r.Intn(4), textAlpha)...)
		if r.Intn(5) == 0 {
			s = s[:r.Intn(len(s)+1)]
		}
		do("startswith "+hx.Hex(s)+" "+hx.Hex(pf), true)
	}
	// --- SubjectEx ---
	toks := [][]byte{
		[]byte("Re:"), []byte("RE:"), []byte("re: "), []byte("Fw:"), []byte("fW: "), []byte("[\xc2\xe0\xbf\xfd]"),
		[]byte("[\xc2\xe0\xbf\xfd] "), []byte("[\xb6\xa2\xb2\xe1]"), []byte("[\xef\xbf\xbd\xa4\xa4\xa4]"),
		[]byte("[\x80\x81\x82\x83] "), []byte(" "), []byte("Re"), []byte("R\xe2\x84\xaa:"), []byte("[\xc2\xe0\xbf\xfd"),
		[]byte("[\xc3\xa0\xbf\xfd\x80]"), []byte("\xa4\xa4"), []byte("x"), []byte("[\xef\xbf\xbd\xef\xbf\xbd\xef\xbf\xbd\xef\xbf\xbd]"),
	}
	// all sequences of up to 3 tokens, shortest first
	level := [][]byte{nil}
	for depth := 0; depth <= pick(3, 3); depth++ {
		var next [][]byte
		for _, pre := range level {
			do("subjectex "+title(pre), true)
			if depth < 3 {
				for _, t := range toks {
					next = append(next, append(cp(pre), t...))
				}
			}
		}
		level = next
	}
	for i := 0; i < pick(3000, 60000); i++ {
		var s []byte
		for k, n := 0, r.Intn(6); k < n; k++ {
			s = append(s, toks[r.Intn(len(toks))]...)
		}
		s = append(s, r.Bytes(r.Intn(70), textAlpha)...)
		if r.Intn(10) == 0 {
			s = r.Bytes(r.Intn(8), []byte("[]\xef\xbf\xbd\x80\xa4\xc2\xe0\xfd Re:fw"))
		}
		do("subjectex "+title(s), true) // title() cuts at 65 bytes: long ones have no NUL at all
	}
}

func finishGroup3() {
	for k, v := range findingCount {
		run.Extra["finding:"+k] = v
	}
}
