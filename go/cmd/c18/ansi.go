package main

import (
	"bytes"
	"fmt"
	"strconv"

	"github.com/Ptt-official-app/go-pttbbs/cmsys"
	"verifharness/internal/hx"
)

// ---- group 2: cmsys.StripAnsi -------------------------------------------------------------------

// the character classes of pttbbs common/sys/string.c (written out here, NOT read from the Go table:
// this is the specification side)
const refParams = "0123456789;="
const refCommands = "ABCDHIJKfhlmsu"

// refStrip lexes the C string of src into plain bytes / ESC x / ESC [ params final / cut-off units and
// keeps what the mode allows. cls names the most interesting unit seen (histogram label).
func refStrip(src []byte, flag int) (out []byte, cls string) {
	s := src
	rank := map[string]int{"empty": 0, "plain": 1, "escother": 2, "csi-dropped": 3, "csi-kept": 4, "escend": 5, "csitrunc": 6}
	cls = "empty"
	see := func(c string) {
		if rank[c] > rank[cls] {
			cls = c
		}
	}
	if i := bytes.IndexByte(s, 0); i >= 0 {
		s = s[:i]
	}
	out = []byte{}
	for i := 0; i < len(s); {
		c := s[i]
		if c != 0x1b {
			out = append(out, c)
			see("plain")
			i++
			continue
		}
		if i+1 == len(s) {
			see("escend")
			break
		}
		if s[i+1] != '[' {
			see("escother")
			i += 2
			continue
		}
		j := i + 2
		for j < len(s) && bytes.IndexByte([]byte(refParams), s[j]) >= 0 {
			j++
		}
		if j == len(s) {
			see("csitrunc")
			break
		}
		f := s[j]
		if (flag == 2 && bytes.IndexByte([]byte(refCommands), f) >= 0) || (flag == 1 && f == 'm') {
			out = append(out, s[i:j+1]...)
			see("csi-kept")
		} else {
			see("csi-dropped")
		}
		i = j + 1
	}
	return out, cls
}

func init() {
	opsTable["stripansi"] = func(ws []string) (string, string, func(string) (string, string)) {
		if len(ws) != 3 {
			return bad()
		}
		flag, err := strconv.ParseUint(ws[1], 10, 31)
		if err != nil {
			return bad()
		}
		src, ok := unhex(ws[2])
		if !ok {
			return bad()
		}
		var got []byte
		out := hx.CallSync(func() string {
			got = cmsys.StripAnsi(cp(src), cmsys.StripAnsiFlag(flag))
			return hx.Hex(got)
		})
		want, cls := refStrip(src, int(flag))
		label := fmt.Sprintf("stripansi:f%d:%s:%s", flag, cls, nulClass(src))
		return out, label, func(out string) (string, string) {
			if out != hx.Hex(want) {
				return "lex:stripansi", fmt.Sprintf("StripAnsi(%q,%d)=%q, the lexer-based filter gives %q", src, flag, got, want)
			}
			if flag != 1 && flag != 2 && bytes.IndexByte(got, 0x1b) >= 0 {
				return "esc:stripansi", fmt.Sprintf("StripAnsi(%q,%d)=%q still contains ESC", src, flag, got)
			}
			if bytes.IndexByte(got, 0) >= 0 {
				return "nul:stripansi", fmt.Sprintf("StripAnsi(%q,%d)=%q contains NUL", src, flag, got)
			}
			again := hx.CallSync(func() string { return hx.Hex(cmsys.StripAnsi(cp(got), cmsys.StripAnsiFlag(flag))) })
			if again != out {
				return "idem:stripansi", fmt.Sprintf("StripAnsi twice on %q (flag %d): once %s, twice %s", src, flag, out, again)
			}
			return "", ""
		}
	}
}

// ansiText builds a random text from the lexer grammar; cut: end it inside an escape sequence.
func ansiText(r *hx.Rand, maxTok int) []byte {
	var s []byte
	finals := []byte("mHJKABCDfhlsuEFGrtz@~ \x00\x1b[?")
	n := 1 + r.Intn(maxTok)
	for k := 0; k < n; k++ {
		switch r.Intn(8) {
		case 0, 1, 2:
			s = append(s, r.Bytes(1+r.Intn(6), textAlpha)...)
		case 3:
			s = append(s, 0x1b, r.Pick([]byte("cM78=>(]m3;\x1b\x80")))
		case 4, 5, 6:
			s = append(s, 0x1b, '[')
			s = append(s, r.Bytes(r.Intn(6), []byte(refParams))...)
			if r.Intn(4) == 0 {
				s = append(s, byte(r.U64()))
			} else {
				s = append(s, r.Pick(finals))
			}
		default:
			s = append(s, r.Bytes(1+r.Intn(3), alpha15)...)
		}
	}
	switch r.Intn(6) {
	case 0: // cut off inside the parameters
		s = append(s, 0x1b, '[')
		s = append(s, r.Bytes(r.Intn(4), []byte(refParams))...)
	case 1:
		s = append(s, 0x1b)
	case 2:
		if len(s) > 0 {
			s[r.Intn(len(s))] = 0
		}
	}
	if len(s) > 200 {
		s = s[:200]
	}
	return s
}

func genGroup2() {
	r := run.R
	flags := []string{"0", "1", "2"}
	sLen := 4
	if run.Thorough() {
		sLen = 5
	}
	enum(alpha15, sLen, func(b []byte) {
		h := hx.Hex(b)
		for _, f := range flags {
			do("stripansi "+f+" "+h, true)
		}
	})
	// every byte value in every role of a sequence: final byte, parameter, byte after ESC — so that each
	// entry of the ESCAPE_FLAG table is exercised in both keeping modes
	for x := 0; x < 256; x++ {
		b := byte(x)
		for _, t := range [][]byte{
			{0x1b, '[', b}, {0x1b, '[', '3', b}, {0x1b, '[', b, 'm'}, {'a', 0x1b, '[', '3', ';', b, 'H', 'b'},
			{0x1b, b, '[', 'm'}, {0x1b, '[', '1', b, '2', 'm', 'x'}, {b}, {0x1b, b},
		} {
			for _, f := range flags {
				do("stripansi "+f+" "+hx.Hex(t), true)
			}
		}
	}
	n := 4000
	if run.Thorough() {
		n = 100000
	}
	for i := 0; i < n; i++ {
		h := hx.Hex(ansiText(r, 12))
		for _, f := range flags {
			do("stripansi "+f+" "+h, true)
		}
		if i%50 == 0 { // a flag value that is none of the three constants behaves like strip-all
			do("stripansi 3 "+h, true)
			do("stripansi 7 "+h, true)
		}
	}
}
