package main

import (
	"bytes"
	"fmt"
	"strconv"

	"github.com/Ptt-official-app/go-pttbbs/cmsys"
	"github.com/Ptt-official-app/go-pttbbs/ptt"
	"verifharness/internal/hx"
)

// ---- group 2: cmsys.StripAnsi -------------------------------------------------------------------

// the character classes of pttbbs common/sys/string.c (written out here, NOT read from the Go table:
// this is the specification side)
const refParams = "0123456789;="
const refCommands = "ABCDHIJKfhlmsu"

// refStrip lexes the C string of src into plain bytes / ESC x / ESC [ params final / cut-off units and
// keeps what the mode allows. cls names the most interesting unit seen (histogram label).
func refStrip(src []byte, flag int) (out []byte, cls string) {
	s := src
	rank := map[string]int{"empty": 0, "plain": 1, "escother": 2, "csi-dropped": 3, "csi-kept": 4, "escend": 5, "csitrunc": 6}
	cls = "empty"
	see := func(c string) {
		if rank[c] > rank[cls] {
			cls = c
		}
	}
	if i := bytes.IndexByte(s, 0); i >= 0 {
		s = s[:i]
	}
	out = []byte{}
	for i := 0; i < len(s); {
		c := s[i]
		if c != 0x1b {
			out = append(out, c)
			see("plain")
			i++
			continue
		}
		if i+1 == len(s) {
			see("escend")
			break
		}
		if s[i+1] != '[' {
			see("escother")
			i += 2
			continue
		}
		j := i + 2
		for j < len(s) && bytes.IndexByte([]byte(refParams), s[j]) >= 0 {
			j++
		}
		if j == len(s) {
			see("csitrunc")
			break
		}
		f := s[j]
		if (flag == 2 && bytes.IndexByte([]byte(refCommands), f) >= 0) || (flag == 1 && f == 'm') {
			out = append(out, s[i:j+1]...)
			see("csi-kept")
		} else {
			see("csi-dropped")
		}
		i = j + 1
	}
	return out, cls
}

func init() {
	opsTable["stripansi"] = func(ws []string) (string, string, func(string) (string, string)) {
		if len(ws) != 3 {
			return bad()
		}
		flag, err := strconv.ParseUint(ws[1], 10, 31)
		if err != nil {
			return bad()
		}
		src, ok := unhex(ws[2])
		if !ok {
			return bad()
		}
		var got []byte
		out := hx.CallSync(func() string {
			got = cmsys.StripAnsi(cp(src), cmsys.StripAnsiFlag(flag))
			return hx.Hex(got)
		})
		want, cls := refStrip(src, int(flag))
		label := fmt.Sprintf("stripansi:f%d:%s:%s", flag, cls, nulClass(src))
		return out, label, func(out string) (string, string) {
			if out != hx.Hex(want) {
				return "lex:stripansi", fmt.Sprintf("StripAnsi(%q,%d)=%q, the lexer-based filter gives %q", src, flag, got, want)
			}
			if flag != 1 && flag != 2 && bytes.IndexByte(got, 0x1b) >= 0 {
				return "esc:stripansi", fmt.Sprintf("StripAnsi(%q,%d)=%q still contains ESC", src, flag, got)
			}
			if bytes.IndexByte(got, 0) >= 0 {
				return "nul:stripansi", fmt.Sprintf("StripAnsi(%q,%d)=%q contains NUL", src, flag, got)
			}
			again := hx.CallSync(func() string { return hx.Hex(cmsys.StripAnsi(cp(got), cmsys.StripAnsiFlag(flag))) })
			if again != out {
				return "idem:stripansi", fmt.Sprintf("StripAnsi twice on %q (flag %d): once %s, twice %s", src, flag, out, again)
			}
			return "", ""
		}
	}
}

// ---- ptt.StripANSIMoveCmd -----------------------------------------------------------------------

// the character classes of pttbbs strip_ansi_movecmd (written out here: the specification side)
const refMoveCodes = "0123456789;,["
const refMoveCmds = "ABCDfjHJRu"

// hasMoveSeq: does s contain ESC, any run of code bytes, a movement final — at ANY position (a lexer over all
// start positions, not a left-to-right tokenisation: an ESC inside an unfinished sequence starts a new one)?
func hasMoveSeq(s []byte) (int, bool) {
	for i := 0; i < len(s); i++ {
		if s[i] != 0x1b {
			continue
		}
		j := i + 1
		for j < len(s) && bytes.IndexByte([]byte(refMoveCodes), s[j]) >= 0 {
			j++
		}
		if j < len(s) && bytes.IndexByte([]byte(refMoveCmds), s[j]) >= 0 {
			return i, true
		}
	}
	return -1, false
}

// refMoveCmd: the reference defusing, written from the C routine: repeatedly, find the next ESC from the current
// position, skip code bytes, turn a movement final into 's', and go on searching AT that byte.
func refMoveCmd(in []byte) []byte {
	s := cp(in)
	p := 0
	for {
		k := bytes.IndexByte(s[p:], 0x1b)
		if k < 0 {
			return s
		}
		p += k + 1
		for p < len(s) && bytes.IndexByte([]byte(refMoveCodes), s[p]) >= 0 {
			p++
		}
		if p >= len(s) {
			return s
		}
		if bytes.IndexByte([]byte(refMoveCmds), s[p]) >= 0 {
			s[p] = 's'
		}
	}
}

func init() {
	opsTable["movecmd"] = func(ws []string) (string, string, func(string) (string, string)) {
		a, ok := args(ws, 1)
		if !ok {
			return bad()
		}
		in := a[0]
		var got []byte
		out := hx.Call(func() string { // with the watchdog: the loop condition of the Go port never changes
			got = ptt.StripANSIMoveCmd(cp(in))
			return hx.Hex(got)
		})
		_, had := hasMoveSeq(in)
		cls := "none"
		if had {
			cls = "move"
		}
		if bytes.Contains(in, []byte{0x1b, 0x1b}) {
			cls += ":escesc"
		}
		return out, "movecmd:" + cls, func(out string) (string, string) {
			if len(got) != len(in) {
				return "len:movecmd", fmt.Sprintf("StripANSIMoveCmd(%q) has length %d, the input %d", in, len(got), len(in))
			}
			if at, still := hasMoveSeq(got); still {
				return "move:movecmd", fmt.Sprintf("StripANSIMoveCmd(%q)=%q still holds a cursor-movement sequence at byte %d", in, got, at)
			}
			for i := range got {
				if got[i] != in[i] && !(got[i] == 's' && bytes.IndexByte([]byte(refMoveCmds), in[i]) >= 0) {
					return "change:movecmd", fmt.Sprintf("StripANSIMoveCmd(%q)=%q changes byte %d, which is no movement final", in, got, i)
				}
			}
			if want := refMoveCmd(in); !bytes.Equal(got, want) {
				return "ref:movecmd", fmt.Sprintf("StripANSIMoveCmd(%q)=%q, the reference routine gives %q", in, got, want)
			}
			return "", ""
		}
	}
}

func genMoveCmd() {
	r := run.R
	// every line up to length 6 over {ESC [ ; digit H J x}: ESC directly after ESC, after a cut-off sequence, ...
	mvLen := 6
	enum([]byte{0x1b, '[', ';', '2', 'H', 'J', 'x'}, mvLen, func(b []byte) { do("movecmd "+hx.Hex(b), true) })
	// every byte value as final byte / as byte after ESC
	for x := 0; x < 256; x++ {
		b := byte(x)
		for _, t := range [][]byte{{0x1b, '[', b}, {0x1b, b}, {0x1b, '[', '1', ';', b, 0x1b, '[', 'H'}, {0x1b, b, 0x1b, '[', '2', 'J'}, {b}} {
			do("movecmd "+hx.Hex(t), true)
		}
	}
	n := 2000
	if run.Thorough() {
		n = 60000
	}
	for i := 0; i < n; i++ {
		s := ansiText(r, 10)
		if r.Intn(3) == 0 { // glue an ESC right behind an ESC / behind parameter bytes
			for k := 0; k < 1+r.Intn(3) && len(s) > 0; k++ {
				p := r.Intn(len(s))
				s = append(s[:p], append([]byte{0x1b}, s[p:]...)...)
			}
		}
		do("movecmd "+hx.Hex(s), true)
	}
}

// ansiText builds a random text from the lexer grammar; cut: end it inside an escape sequence.
func ansiText(r *hx.Rand, maxTok int) []byte {
	var s []byte
	finals := []byte("mHJKABCDfhlsuEFGrtz@~ \x00\x1b[?")
	n := 1 + r.Intn(maxTok)
	for k := 0; k < n; k++ {
		switch r.Intn(8) {
		case 0, 1, 2:
			s = append(s, r.Bytes(1+r.Intn(6), textAlpha)...)
		case 3:
			s = append(s, 0x1b, r.Pick([]byte("cM78=>(]m3;\x1b\x80")))
		case 4, 5, 6:
			s = append(s, 0x1b, '[')
			s = append(s, r.Bytes(r.Intn(6), []byte(refParams))...)
			if r.Intn(4) == 0 {
				s = append(s, byte(r.U64()))
			} else {
				s = append(s, r.Pick(finals))
			}
		default:
			s = append(s, r.Bytes(1+r.Intn(3), alpha15)...)
		}
	}
	switch r.Intn(6) {
	case 0: // cut off inside the parameters
		s = append(s, 0x1b, '[')
		s = append(s, r.Bytes(r.Intn(4), []byte(refParams))...)
	case 1:
		s = append(s, 0x1b)
	case 2:
		if len(s) > 0 {
			s[r.Intn(len(s))] = 0
		}
	}
	if len(s) > 200 {
		s = s[:200]
	}
	return s
}

func genGroup2() {
	r := run.R
	flags := []string{"0", "1", "2"}
	sLen := 4
	if run.Thorough() {
		sLen = 5
	}
	enum(alpha15, sLen, func(b []byte) {
		h := hx.Hex(b)
		for _, f := range flags {
			do("stripansi "+f+" "+h, true)
		}
	})
	// every byte value in every role of a sequence: final byte, parameter, byte after ESC — so that each
	// entry of the ESCAPE_FLAG table is exercised in both keeping modes
	for x := 0; x < 256; x++ {
		b := byte(x)
		for _, t := range [][]byte{
			{0x1b, '[', b}, {0x1b, '[', '3', b}, {0x1b, '[', b, 'm'}, {'a', 0x1b, '[', '3', ';', b, 'H', 'b'},
			{0x1b, b, '[', 'm'}, {0x1b, '[', '1', b, '2', 'm', 'x'}, {b}, {0x1b, b},
		} {
			for _, f := range flags {
				do("stripansi "+f+" "+hx.Hex(t), true)
			}
		}
	}
	n := 4000
	if run.Thorough() {
		n = 100000
	}
	for i := 0; i < n; i++ {
		h := hx.Hex(ansiText(r, 12))
		for _, f := range flags {
			do("stripansi "+f+" "+h, true)
		}
		if i%50 == 0 { // a flag value that is none of the three constants behaves like strip-all
			do("stripansi 3 "+h, true)
			do("stripansi 7 "+h, true)
		}
	}
}
