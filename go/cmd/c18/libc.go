package main

// libc through cgo: the C side of the comparison/search clauses of C18. Used only by the property oracle.

/*
#define _GNU_SOURCE
#include <string.h>
#include <strings.h>
#include <stdlib.h>

static long off_strstr(const char *h, const char *n) {
	const char *p = strstr(h, n);
	return p ? (long)(p - h) : -1;
}
static long off_strcasestr(const char *h, const char *n) {
	const char *p = strcasestr(h, n);
	return p ? (long)(p - h) : -1;
}
*/
import "C"

import "unsafe"

// cbuf copies b into C memory and appends the terminator every C string has.
func cbuf(b []byte) *C.char {
	p := (*C.char)(C.malloc(C.size_t(len(b) + 1)))
	s := unsafe.Slice((*byte)(unsafe.Pointer(p)), len(b)+1)
	copy(s, b)
	s[len(b)] = 0
	return p
}

func sign(x int) int {
	switch {
	case x < 0:
		return -1
	case x > 0:
		return 1
	}
	return 0
}

func libcStrlen(a []byte) int {
	p := cbuf(a)
	defer C.free(unsafe.Pointer(p))
	return int(C.strlen(p))
}

func libcStrcmp(a, b []byte) int {
	p, q := cbuf(a), cbuf(b)
	defer C.free(unsafe.Pointer(p))
	defer C.free(unsafe.Pointer(q))
	return int(C.strcmp(p, q))
}

func libcStrcasecmp(a, b []byte) int {
	p, q := cbuf(a), cbuf(b)
	defer C.free(unsafe.Pointer(p))
	defer C.free(unsafe.Pointer(q))
	return int(C.strcasecmp(p, q))
}

func libcStrncasecmp(a, b []byte, n int) int {
	p, q := cbuf(a), cbuf(b)
	defer C.free(unsafe.Pointer(p))
	defer C.free(unsafe.Pointer(q))
	return int(C.strncasecmp(p, q, C.size_t(n)))
}

func libcStrstr(h, n []byte) int {
	p, q := cbuf(h), cbuf(n)
	defer C.free(unsafe.Pointer(p))
	defer C.free(unsafe.Pointer(q))
	return int(C.off_strstr(p, q))
}

func libcStrcasestr(h, n []byte) int {
	p, q := cbuf(h), cbuf(n)
	defer C.free(unsafe.Pointer(p))
	defer C.free(unsafe.Pointer(q))
	return int(C.off_strcasestr(p, q))
}
