// empty: allows the body-less go:linkname declaration in callsite.go
