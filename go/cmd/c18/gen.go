package main

import (
	"verifharness/internal/hx"
)

// the reduced alphabet of DESIGN.md §6 C18
var alpha15 = []byte{0x00, 'a', 'A', 'z', 0x1b, '[', '3', ';', 'm', 'H', '\n', '\r', 0x80, 0xa4, 0xfe}

// for the binary helpers at length 3: terminator, one letter in both cases, the byte after 'Z' (which is also
// the CSI introducer), a DBCS lead byte and 0xfe
var alphaCmp = []byte{0x00, 'a', 'A', '[', 0x80, 0xfe, 'b', 'Z'}

// enum calls f on every string over alpha of length 0..maxLen, shortest first (so that the first failure
// reported is a minimal one). The slice passed to f is reused.
func enum(alpha []byte, maxLen int, f func([]byte)) {
	for l := 0; l <= maxLen; l++ {
		buf := make([]byte, l)
		idx := make([]int, l)
		for {
			for i := range buf {
				buf[i] = alpha[idx[i]]
			}
			f(buf)
			k := l - 1
			for k >= 0 {
				idx[k]++
				if idx[k] < len(alpha) {
					break
				}
				idx[k] = 0
				k--
			}
			if k < 0 {
				break
			}
		}
	}
}

func all(alpha []byte, maxLen int) [][]byte {
	var out [][]byte
	enum(alpha, maxLen, func(b []byte) { out = append(out, cp(b)) })
	return out
}

func flipCase(r *hx.Rand, b []byte) []byte {
	o := cp(b)
	for i, c := range o {
		if r.Intn(3) == 0 {
			switch {
			case c >= 'a' && c <= 'z':
				o[i] = c - 32
			case c >= 'A' && c <= 'Z':
				o[i] = c + 32
			}
		}
	}
	return o
}

// text bytes for the random longer inputs: letters in both cases, the neighbours of the letter ranges,
// DBCS lead/trail bytes, blanks
var textAlpha = []byte("abcxyzABCXYZ@[`{ 019_\x7f\x80\x81\xa1\xa4\xc2\xe0\xfd\xfe\xff")

func genGroup1() {
	r := run.R
	// --- exhaustive short inputs ---------------------------------------------------------------
	uLen, pLen15, pLenCmp, nCmp := 3, 2, 3, 4
	if run.Thorough() {
		uLen, pLen15, pLenCmp, nCmp = 5, 2, 3, 8
	}
	enum(alpha15, uLen, func(b []byte) {
		h := hx.Hex(b)
		do("cstrlen "+h, true)
		do("cstrtobytes "+h, true)
	})
	s15 := all(alpha15, pLen15)
	for _, a := range s15 {
		ha := hx.Hex(a)
		for _, b := range s15 {
			hb := hx.Hex(b)
			do("cstrcmp "+ha+" "+hb, true)
			do("cstrcasecmp "+ha+" "+hb, true)
			do("cstrstr "+ha+" "+hb, true)
		}
	}
	sc := all(alphaCmp[:nCmp], pLenCmp)
	for _, a := range sc {
		ha := hx.Hex(a)
		for _, b := range sc {
			hb := hx.Hex(b)
			do("cstrcmp "+ha+" "+hb, true)
			do("cstrcasecmp "+ha+" "+hb, true)
			do("cstrstr "+ha+" "+hb, true)
			do("cstrcasestr "+ha+" "+hb, true)
			do("casehasprefix "+ha+" "+hb, true)
			do("tokenr "+ha+" "+hb, true)
		}
	}
	// --- every byte value against its would-be case partners (only 'A'..'Z' / 'a'..'z' may fold) -----
	for x := 0; x < 256; x++ {
		a := []byte{byte(x)}
		for _, d := range []int{32, -32, 0} {
			b := []byte{byte(x + d)}
			ha, hb := hx.Hex(a), hx.Hex(b)
			do("cstrcasecmp "+ha+" "+hb, true)
			do("cstrcmp "+ha+" "+hb, true)
			do("cstrcasestr "+hx.Hex([]byte{'q', byte(x), 'q'})+" "+hb, true)
			do("casehasprefix "+hx.Hex([]byte{byte(x), 'q'})+" "+hb, true)
		}
		do("strhash "+hx.Hex(a), true)
	}
	// --- random longer inputs --------------------------------------------------------------------
	n := 6000
	if run.Thorough() {
		n = 150000
	}
	for i := 0; i < n; i++ {
		// comparisons: a common prefix, then a tail that differs by case, by a NUL, by a high byte or by
		// length; each side with or without a terminating NUL and garbage behind it
		pre := r.Bytes(r.Intn(40), textAlpha)
		mk := func() []byte {
			s := cp(pre)
			if r.Intn(3) == 0 {
				s = flipCase(r, s)
			}
			s = append(s, r.Bytes(r.Intn(4), textAlpha)...)
			switch r.Intn(4) {
			case 0: // no terminator at all
			case 1:
				s = append(s, 0)
			default:
				s = append(s, 0)
				s = append(s, r.Bytes(r.Intn(6), textAlpha)...)
			}
			return s
		}
		a, b := mk(), mk()
		ha, hb := hx.Hex(a), hx.Hex(b)
		do("cstrcmp "+ha+" "+hb, true)
		do("cstrcasecmp "+ha+" "+hb, true)
		do("cstrlen "+ha, true)
		do("cstrtobytes "+hb, true)
		// search: the needle is a piece of the haystack (maybe case-flipped, maybe one byte off); the
		// haystack gets a NUL before, inside, behind the hit or none
		h := r.Bytes(1+r.Intn(60), textAlpha)
		lo := r.Intn(len(h))
		hi := lo + 1 + r.Intn(len(h)-lo)
		nd := cp(h[lo:hi])
		switch r.Intn(5) {
		case 0:
			nd = flipCase(r, nd)
		case 1:
			nd[r.Intn(len(nd))] = r.Pick(textAlpha)
		}
		switch r.Intn(5) {
		case 0:
			h[r.Intn(len(h))] = 0
		case 1:
			h = append(h, 0)
			h = append(h, nd...) // a hit that exists only behind the terminator
		case 2:
			if hi < len(h) {
				h[hi] = 0
			}
		case 3:
			if lo > 0 {
				h[lo+(hi-lo)/2] = 0 // terminator inside the would-be hit
			}
		}
		hh, hn := hx.Hex(h), hx.Hex(nd)
		do("cstrstr "+hh+" "+hn, true)
		do("cstrcasestr "+hh+" "+hn, true)
		do("casehasprefix "+hx.Hex(h[lo:])+" "+hn, true)
		do("tokenr "+hh+" "+hx.Hex(r.Bytes(r.Intn(3), textAlpha)), true)
	}
	// needles with a NUL / empty needle: recorded, compared with the model, not judged (O6)
	for _, h := range all([]byte{0, 'a', 'b'}, 3) {
		do("cstrstr "+hx.Hex(h)+" -", true)
		do("cstrstr "+hx.Hex(h)+" 6100", true)
		do("cstrstr "+hx.Hex(h)+" 0061", true)
	}
}

// genMalformed: op lines that are not well-formed; implementation side and model must both refuse them.
func genMalformed() {
	for _, l := range []string{
		"cstrlen", "cstrlen zz", "cstrlen 6", "cstrcmp 61", "cstrcmp 61 62 63", "cstrstr 61 6g",
		"nosuchop 61", "cstrtobytes 0x61", "stripansi 9x 61", "stripansi 61", "readlines", "strhash 1",
		"dbcsstatus x 61", "dbcsstatus 1", "subjectex", "trim 6", "dbcsnext 300 0", "dbcsnext 1",
	} {
		do(l, false)
	}
}

func generate() {
	run.Rule = "exhaustive: every byte string over the 15-symbol alphabet {00 a A z ESC [ 3 ; m H LF CR 80 a4 fe} up to a length per helper " +
		"(unary helpers 3 quick / 5 thorough; all pairs of length<=2, and of length<=3 over a 4/8-symbol sub-alphabet, for the binary helpers; all three strip modes), shortest first; " +
		"random longer inputs (<=200 bytes) built from grammar tokens (common prefixes with case/NUL/high-byte differences, needles cut from the haystack with a NUL before/inside/behind the hit, " +
		"ANSI tokens incl. truncated ones, DBCS runs with dangling leads, CR/LF mixes, subject prefixes); arrays with and without a terminating NUL on either side; " +
		"histories of 2-8 calls of the slice-returning helpers where earlier results are kept, re-read after every later call and re-used as arguments (all three strip modes of one message, strip/other/strip-again, every helper followed by every other one, random mixes), and the same calls from concurrent goroutines; " +
		"a malformed op stream (bad hex, wrong arity, unknown op). distinct = distinct op lines; nontrivial = every well-formed op"
	if *onlyAlias {
		// the race-detector pass: histories and concurrent callers only
		genAlias()
		return
	}
	genGroup1()
	genGroup2()
	genMoveCmd()
	genCallSites()
	genGroup3()
	genAlias()
	genMalformed()
	finishGroup3()
}
