package main

// Result ownership (C18, added after seed C18-r4-2): every helper that returns a slice is driven in HISTORIES.
// The caller keeps every result; after each later call, and at the end, everything held is compared with the
// copy taken when it was returned. `hist` runs a history in one goroutine (arguments may be earlier results,
// `@i`); `conc` runs the steps of a history concurrently, many times, against results computed beforehand.
// The op's answer is what the caller holds as read at the END — the Lean heap model prints the same.

import (
	"bufio"
	"bytes"
	"fmt"
	"runtime"
	"strconv"
	"strings"
	"sync"

	"github.com/Ptt-official-app/go-pttbbs/cmbbs"
	"github.com/Ptt-official-app/go-pttbbs/cmsys"
	"github.com/Ptt-official-app/go-pttbbs/ptttype"
	"github.com/Ptt-official-app/go-pttbbs/types"
	"verifharness/internal/hx"
)

type hstep struct {
	fn    string // sa cb lo up tk dt tr rl nb td sx
	flag  int
	lit   []byte // literal argument (nil when ref >= 0)
	ref   int    // -1: literal
	sep   []byte
	mutIn bool // the function is documented to work in place
}

type heldRes struct {
	fn   string
	tag  string
	sls  [][]byte // the REAL slices returned by the code
	snap [][]byte // copies taken at return
}

func parseHStep(w string, allowRef bool) (st hstep, ok bool) {
	f := strings.Split(w, ":")
	st.ref = -1
	arg := func(a string) bool {
		if strings.HasPrefix(a, "@") {
			if !allowRef {
				return false
			}
			n, err := strconv.ParseUint(a[1:], 10, 31)
			if err != nil || strings.HasPrefix(a[1:], "+") {
				return false
			}
			st.ref = int(n)
			return true
		}
		b, ok := unhex(a)
		if !ok {
			return false
		}
		st.lit = append([]byte{}, b...)
		return true
	}
	lit := func(a string) bool { return !strings.HasPrefix(a, "@") && arg(a) }
	st.fn = f[0]
	switch {
	case f[0] == "sa" && len(f) == 3:
		n, err := strconv.ParseUint(f[1], 10, 31)
		if err != nil || strings.HasPrefix(f[1], "+") {
			return st, false
		}
		st.flag = int(n)
		return st, arg(f[2])
	case (f[0] == "cb" || f[0] == "lo" || f[0] == "up" || f[0] == "dt" || f[0] == "tr" || f[0] == "rl") && len(f) == 2:
		return st, arg(f[1])
	case f[0] == "tk" && len(f) == 3:
		sep, ok := unhex(f[2])
		st.sep = sep
		return st, ok && arg(f[1])
	case (f[0] == "nb" || f[0] == "td") && len(f) == 2:
		st.mutIn = true
		return st, lit(f[1])
	case f[0] == "sx" && len(f) == 2:
		return st, lit(f[1]) && len(st.lit) == ptttype.TTLEN+1
	}
	return st, false
}

// callStep runs the real function on in (NOT copied: in is either the step's own buffer or an earlier result).
func callStep(st hstep, in []byte) (tag string, sls [][]byte) {
	switch st.fn {
	case "sa":
		return "", [][]byte{cmsys.StripAnsi(in, cmsys.StripAnsiFlag(st.flag))}
	case "cb":
		return "", [][]byte{types.CstrToBytes(in)}
	case "lo":
		return "", [][]byte{types.CstrTolower(in)}
	case "up":
		return "", [][]byte{types.CstrToupper(in)}
	case "tk":
		a, b := types.CstrTokenR(in, st.sep)
		return "", [][]byte{a, b}
	case "dt":
		return "", [][]byte{cmsys.DBCSSafeTrim(in)}
	case "tr":
		return "", [][]byte{cmsys.Trim(in)}
	case "rl":
		rd := bufio.NewReader(bytes.NewReader(in))
		var ls [][]byte
		for n := 0; n <= len(in)+2; n++ {
			line, err := types.ReadLine(rd)
			if err != nil {
				break
			}
			ls = append(ls, line)
		}
		return "", ls
	case "nb":
		return "", [][]byte{cmsys.StripNoneBig5(in)}
	case "td":
		return "", [][]byte{types.TrimDBCS(in)}
	case "sx":
		t := &ptttype.Title_t{}
		copy(t[:], in)
		ty, r := cmbbs.SubjectEx(t)
		return itoa(int(ty)), [][]byte{r}
	}
	panic("callStep: " + st.fn)
}

func showHeld(hs []*heldRes) string {
	out := make([]string, len(hs))
	for i, h := range hs {
		s := "."
		if len(h.sls) > 0 {
			p := make([]string, len(h.sls))
			for k, b := range h.sls {
				p[k] = hx.Hex(b)
			}
			s = strings.Join(p, "/")
		}
		if h.tag != "" {
			s = h.tag + "/" + s
		}
		out[i] = s
	}
	return strings.Join(out, ",")
}

// firstChanged returns the index of the first held result that no longer equals its snapshot, or -1.
func firstChanged(hs []*heldRes) int {
	for i, h := range hs {
		for k := range h.sls {
			if !bytes.Equal(h.sls[k], h.snap[k]) {
				return i
			}
		}
	}
	return -1
}

var histFnCalls = map[string]int{}

func init() {
	opsTable["hist"] = func(ws []string) (string, string, judgeFn) {
		if len(ws) < 2 {
			return bad()
		}
		steps := make([]hstep, 0, len(ws)-1)
		hasRef := false
		for _, w := range ws[1:] {
			st, ok := parseHStep(w, true)
			if !ok {
				return bad()
			}
			hasRef = hasRef || st.ref >= 0
			steps = append(steps, st)
		}
		var held []*heldRes
		failKey, failWhat := "", ""
		malformed := false
		out := hx.CallSync(func() string {
			for j, st := range steps {
				var in []byte
				if st.ref >= 0 {
					if st.ref >= len(held) || len(held[st.ref].sls) == 0 {
						malformed = true
						return "bad-op"
					}
					in = held[st.ref].sls[0]
				} else {
					in = st.lit // the step's own buffer (parseHStep made the copy)
				}
				inSnap := cp(in)
				histFnCalls[st.fn]++
				tag, sls := callStep(st, in)
				h := &heldRes{fn: st.fn, tag: tag, sls: sls}
				for _, b := range sls {
					h.snap = append(h.snap, cp(b))
				}
				if failKey == "" {
					// (a) a helper that is not an in-place one leaves its argument alone
					if !st.mutIn && !bytes.Equal(in, inSnap) {
						failKey, failWhat = "input:"+st.fn, fmt.Sprintf("step %d (%s) changed its argument %q into %q", j, st.fn, inSnap, in)
					}
					// (b) nothing held from earlier steps has changed
					if i := firstChanged(held); i >= 0 {
						failKey = "alias:" + held[i].fn
						failWhat = fmt.Sprintf("the result of step %d (%s), %q when it was returned, reads %q after step %d (%s) ran", i, held[i].fn, held[i].snap, held[i].sls, j, st.fn)
					}
					// (c) the value itself, for StripAnsi: still the stripped text of ITS input
					if st.fn == "sa" {
						if want, _ := refStrip(inSnap, st.flag); !bytes.Equal(sls[0], want) {
							failKey, failWhat = "lex:stripansi", fmt.Sprintf("step %d: StripAnsi(%q,%d)=%q, the lexer-based filter gives %q", j, inSnap, st.flag, sls[0], want)
						}
					}
				}
				held = append(held, h)
			}
			return showHeld(held)
		})
		if malformed {
			return "bad-op", "bad-op", nil
		}
		label := fmt.Sprintf("hist:len%d", min(len(steps), 8))
		if hasRef {
			label += ":ref"
		}
		return out, label, func(string) (string, string) { return failKey, failWhat }
	}

	opsTable["conc"] = func(ws []string) (string, string, judgeFn) {
		if len(ws) < 2 {
			return bad()
		}
		steps := make([]hstep, 0, len(ws)-1)
		for _, w := range ws[1:] {
			st, ok := parseHStep(w, false)
			if !ok {
				return bad()
			}
			steps = append(steps, st)
		}
		// reference results, one call each, nothing else running
		var ref []*heldRes
		out := hx.CallSync(func() string {
			for _, st := range steps {
				tag, sls := callStep(st, cp(st.lit))
				h := &heldRes{fn: st.fn, tag: tag}
				for _, b := range sls {
					h.sls = append(h.sls, cp(b))
				}
				ref = append(ref, h)
			}
			return showHeld(ref)
		})
		if out == "PANIC" {
			return out, "conc", nil
		}
		// the same calls from concurrent goroutines: each result, looked at after yielding, must be the reference
		rounds := 200
		if run.Thorough() {
			rounds = 1000
		}
		var mu sync.Mutex
		failKey, failWhat := "", ""
		var wg sync.WaitGroup
		for g, st := range steps {
			wg.Add(1)
			go func(g int, st hstep) {
				defer wg.Done()
				defer func() {
					if e := recover(); e != nil {
						mu.Lock()
						if failKey == "" {
							failKey, failWhat = "crash:conc", fmt.Sprintf("goroutine %d (%s) panicked: %v", g, st.fn, e)
						}
						mu.Unlock()
					}
				}()
				for r := 0; r < rounds; r++ {
					tag, sls := callStep(st, cp(st.lit))
					runtime.Gosched()
					okv := tag == ref[g].tag && len(sls) == len(ref[g].sls)
					for k := 0; okv && k < len(sls); k++ {
						okv = bytes.Equal(sls[k], ref[g].sls[k])
					}
					if !okv {
						mu.Lock()
						if failKey == "" {
							failKey = "conc:" + st.fn
							failWhat = fmt.Sprintf("goroutine %d, round %d: %s on %q gives %q while other goroutines run; alone it gives %q", g, r, st.fn, st.lit, sls, ref[g].sls)
						}
						mu.Unlock()
						return
					}
				}
			}(g, st)
		}
		wg.Wait()
		return out, fmt.Sprintf("conc:g%d", min(len(steps), 8)), func(string) (string, string) { return failKey, failWhat }
	}
}

// ---- generators ---------------------------------------------------------------------------------

func histArg(r *hx.Rand, nHeld int, lit []byte) string {
	if nHeld > 0 && r.Intn(3) == 0 {
		return "@" + itoa(r.Intn(nHeld))
	}
	return hx.Hex(lit)
}

// randStep builds one random step; nHeld = number of earlier steps that hold at least one slice.
func randStep(r *hx.Rand, nHeld int, allowRef bool) string {
	if !allowRef {
		nHeld = 0
	}
	text := ansiText(r, 5)
	switch r.Intn(14) {
	case 0, 1, 2, 3, 4:
		return "sa:" + itoa(r.Intn(3)) + ":" + histArg(r, nHeld, text)
	case 5:
		return "cb:" + histArg(r, nHeld, append(r.Bytes(r.Intn(8), textAlpha), 0, 'x'))
	case 6:
		return "lo:" + histArg(r, nHeld, r.Bytes(r.Intn(10), textAlpha))
	case 7:
		return "up:" + histArg(r, nHeld, r.Bytes(r.Intn(10), textAlpha))
	case 8:
		return "tk:" + histArg(r, nHeld, r.Bytes(1+r.Intn(10), []byte("ab ,\x00c"))) + ":" + hx.Hex([]byte(" ,"))
	case 9:
		return "dt:" + histArg(r, nHeld, r.Bytes(r.Intn(8), []byte{'a', 0xa4, 0x80, 'b'}))
	case 10:
		return "tr:" + histArg(r, nHeld, append(r.Bytes(r.Intn(6), []byte("ab ")), ' ', ' '))
	case 11:
		return "nb:" + hx.Hex(r.Bytes(r.Intn(10), []byte{'a', 1, 0xa4, 0x40, 0x80, 0, 'z'}))
	case 12:
		return "td:" + hx.Hex(r.Bytes(r.Intn(8), []byte{'a', 0xa4, 0x80, 0}))
	default:
		if r.Bool() {
			return "rl:" + histArg(r, nHeld, r.Bytes(r.Intn(12), []byte("ab\n\r")))
		}
		return "sx:" + title(append([]byte("Re: Fw:[\xc2\xe0\xbf\xfd] "), r.Bytes(r.Intn(10), textAlpha)...))
	}
}

func genAlias() {
	r := run.R
	th := run.Thorough()
	// (1) every short ANSI text: all three modes of one message, looked at after all of them were computed;
	//     stripping twice with another message stripped in between
	other := hx.Hex([]byte("\x1b[5m#### another message ####\x1b[m"))
	n := 0
	enum(alpha15, 2, func(b []byte) {
		if bytes.IndexByte(b, 0x1b) < 0 && n%7 != 0 {
			n++
			return
		}
		n++
		h := hx.Hex(b)
		do("hist sa:0:"+h+" sa:1:"+h+" sa:2:"+h, true)
		do("hist sa:2:"+h+" sa:0:"+h+" sa:1:"+other+" sa:0:@1", true)
	})
	for i := 0; i < 300; i++ {
		h := hx.Hex(ansiText(r, 8))
		do("hist sa:0:"+h+" sa:1:"+h+" sa:2:"+h+" sa:0:@1 sa:0:@0", true)
		do("hist sa:0:"+h+" sa:2:"+hx.Hex(ansiText(r, 8))+" sa:0:@0", true)
	}
	// (2) every slice-returning helper followed by every other one: a held result of A must survive a call of B
	samples := []string{
		"sa:0:" + hx.Hex([]byte("a\x1b[1mb")), "sa:1:" + hx.Hex([]byte("\x1b[31mred\x1b[m\x1b[2J")), "sa:2:" + hx.Hex([]byte("x\x1b[Hy")),
		"cb:" + hx.Hex([]byte("abc\x00def")), "lo:" + hx.Hex([]byte("AbC\xa4")), "up:" + hx.Hex([]byte("AbC\xa4")),
		"tk:" + hx.Hex([]byte("ab cd\x00e")) + ":20", "dt:" + hx.Hex([]byte("ab\xa4\xa4\xa4")), "tr:" + hx.Hex([]byte("ab  \x00 ")),
		"rl:" + hx.Hex([]byte("a\r\n\nb")), "nb:" + hx.Hex([]byte("a\x01\xa4\x40\xa4")), "td:" + hx.Hex([]byte("ab\xa4\x00")),
		"sx:" + title([]byte("Re: [\xc2\xe0\xbf\xfd] hello")),
	}
	for _, a := range samples {
		for _, b := range samples {
			do("hist "+a+" "+b+" "+a, true)
		}
	}
	// (3) random histories over all helpers, with earlier results re-used as arguments
	nh := 1500
	if th {
		nh = 40000
	}
	for i := 0; i < nh; i++ {
		k := 2 + r.Intn(7)
		ws := make([]string, k)
		for j := range ws {
			ws[j] = randStep(r, j, true)
		}
		do("hist "+strings.Join(ws, " "), true)
	}
	// (4) concurrent callers
	nc := 12
	if th {
		nc = 120
	}
	for i := 0; i < nc; i++ {
		k := 2 + r.Intn(7)
		ws := make([]string, k)
		for j := range ws {
			if i%2 == 0 { // only StripAnsi: senders stripping different messages at the same time
				ws[j] = "sa:" + itoa(r.Intn(3)) + ":" + hx.Hex(append([]byte(fmt.Sprintf("\x1b[1;3%dmsender %02d \x1b[m", j, j)), ansiText(r, 4)...))
			} else {
				ws[j] = randStep(r, 0, false)
			}
		}
		do("conc "+strings.Join(ws, " "), true)
	}
	// malformed histories
	for _, l := range []string{"hist", "hist sa:0", "hist sa:x:61", "hist sa:0:@0", "hist sa:0:61 cb:@1", "hist nb:@0", "hist sa:0:61 nb:@0",
		"conc sa:0:61 sa:0:@0", "hist rl:- sa:0:@0", "hist sx:6161", "hist zz:61", "conc", "hist sa:0:6g", "hist tk:61"} {
		do(l, false)
	}
	calls := map[string]int{}
	for k, v := range histFnCalls {
		calls[k] = v
	}
	run.Extra["history_calls_per_helper"] = calls
}
