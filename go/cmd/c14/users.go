// users.go — the request-level users of the locks (round 4).
//
// Property C14 is about the record file, whoever else uses the same locks. Two kinds of other users are
// driven here through the REAL request-level functions, not through cmsys directly:
//
//   - header writers: ptt.WriteFile(…, isSaveHeader = true) → writeHeader → writeHeaderAuthorBoard →
//     cmsys.AppendRecord(BBSHOME/.post). WriteFile drops the header writer's error, but the author line
//     is written to the article only after the .post append returned nil — so "the call succeeded" is
//     observable as "the article starts with the author line" (no export hook needed).
//     `hdr` cases are schedule-controlled (the model follows them, incl. a fallback writer if the source
//     has one); `postlog` releases N of them together and is judged by the property oracle alone.
//   - commenters: ptt.Recommend / bbs.CreateComment (EDITPOST_SMARTMERGE → doAddRecommendSmartMerge takes
//     cmsys.GoFlockExNb/GoFunlock on the ARTICLE) in the same process as appenders to record files, with a
//     second process appending to the same record files: `mix`.
package main

import (
	"bytes"
	"encoding/binary"
	"fmt"
	"os"
	"path/filepath"
	"runtime"
	"strconv"
	"strings"
	"sync"
	"sync/atomic"
	"time"

	"github.com/Ptt-official-app/go-pttbbs/bbs"
	"github.com/Ptt-official-app/go-pttbbs/cache"
	"github.com/Ptt-official-app/go-pttbbs/cmsys"
	"github.com/Ptt-official-app/go-pttbbs/ptt"
	"github.com/Ptt-official-app/go-pttbbs/ptttype"
	"verifharness/internal/bbsenv"
	"verifharness/internal/hx"
)

const (
	hdrAuthor = "SYSOP"
	hdrBoard  = "WhoAmI"
)

var mixSleepUs int64 // >0: unregistered appenders of this process pause that long at append.afterSeek

// ---------------------------------------------------------------- child side

var hdrDir string // BBSHOME of the header-writer cases

func hdrUserBoard() (*ptttype.UserecRaw, *ptttype.BoardHeaderRaw) {
	user := &ptttype.UserecRaw{}
	copy(user.UserID[:], hdrAuthor)
	copy(user.Nickname[:], "sysop")
	board := &ptttype.BoardHeaderRaw{}
	copy(board.Brdname[:], hdrBoard)
	return user, board
}

// writeHeaderCall performs one REAL header-writing request and reports whether it succeeded: the author
// line is in the article iff writeHeaderAuthorBoard's append to .post returned nil.
func writeHeaderCall(title string) string {
	return hx.CallSync(func() string {
		user, board := hdrUserBoard()
		art := filepath.Join(hdrDir, "art."+title)
		_ = os.Remove(art)
		_, err := ptt.WriteFile(art, ptttype.EDITFLAG_NONE, true, false, []byte(title), nil, user, 1, board, 10, &ptttype.IPv4_t{}, nil, 0)
		if err != nil {
			return "err:writefile"
		}
		b, _ := os.ReadFile(art)
		if bytes.HasPrefix(b, []byte(ptttype.STR_AUTHOR1_BIG5)) {
			return "ok"
		}
		return "err"
	})
}

// childUsers handles the commands of the request-level users; false if the command is not one of them.
func childUsers(f []string, file string) bool {
	switch f[0] {
	case "home": // BBSHOME of this process (only the paths are used: .post lives there)
		bbsenv.Quiet()
		hdrDir = f[1]
		ptttype.SetBBSHOME(hdrDir)
		say("homed ok")
	case "hstart": // a schedule-controlled header writer
		tid, _ := strconv.Atoi(f[1])
		ch := make(chan struct{}, 1)
		childMu.Lock()
		childGate[tid] = ch
		childMu.Unlock()
		go func() {
			registerThread(tid)
			say("done %d %s", tid, writeHeaderCall("h"+strconv.Itoa(tid)))
		}()
	case "hwrite": // a whole header-writer call, nobody stops it
		say("hwrote %s", writeHeaderCall("h"+f[1]))
	case "hstress": // n header writers released together, `rounds` times
		n, _ := strconv.Atoi(f[1])
		rounds, _ := strconv.Atoi(f[2])
		for r := 0; r < rounds; r++ {
			// every other round the writer that got the lock is slow between reading the length and
			// writing (as in the mix run): the others arrive while it holds the lock
			if r%2 == 1 {
				atomic.StoreInt64(&mixSleepUs, 100)
			} else {
				atomic.StoreInt64(&mixSleepUs, 0)
			}
			res := make([]string, n)
			var wg sync.WaitGroup
			var ready, start int32
			for g := 0; g < n; g++ {
				wg.Add(1)
				go func(g int) {
					defer wg.Done()
					atomic.AddInt32(&ready, 1)
					for atomic.LoadInt32(&start) == 0 { // spin: all of them enter the call at the same moment
					}
					res[g] = writeHeaderCall(fmt.Sprintf("r%d.g%d", r, g))
				}(g)
			}
			for atomic.LoadInt32(&ready) < int32(n) {
				time.Sleep(10 * time.Microsecond)
			}
			atomic.StoreInt32(&start, 1)
			wg.Wait()
			say("hround %d %s", r, strings.Join(res, ","))
		}
		atomic.StoreInt64(&mixSleepUs, 0)
		say("hstress-done")
	case "mix":
		nFiles, _ := strconv.Atoi(f[1])
		nCommenters, _ := strconv.Atoi(f[2])
		sleepUs, _ := strconv.Atoi(f[3])
		mixServer(file, nFiles, nCommenters, sleepUs)
	case "loopappend":
		nFiles, _ := strconv.Atoi(f[1])
		base, _ := strconv.Atoi(f[2])
		loopAppend(file, nFiles, base)
	case "appendto": // an uncontrolled append to the named record file (locks-released check)
		r := pattern(98)
		idx, err := cmsys.AppendRecord(f[1], &r, recSize)
		if err != nil {
			say("appended err:%v", strings.ReplaceAll(err.Error(), " ", "_"))
		} else {
			say("appended ok:%d", idx)
		}
	case "posts":
		n, _ := strconv.Atoi(f[1])
		postServer(n, len(f) > 2 && f[2] == "nolog")
	case "gopost":
		if postsGo != nil {
			atomic.StoreInt32(postsGo, 1)
		}
	case "closeposts":
		postsClose <- struct{}{}
	case "dirappend":
		watch := ""
		if len(f) > 2 {
			watch = f[2]
		}
		dirAppend(f[1], watch)
	case "stopmix":
		atomic.StoreInt32(&mixStop, 1)
	default:
		return false
	}
	return true
}

var mixStop int32

func sayIndices(tid int, idx []string) {
	for len(idx) > 2000 {
		say("stressed %d %s", tid, strings.Join(idx[:2000], ","))
		idx = idx[2000:]
	}
	if len(idx) > 0 {
		say("stressed %d %s", tid, strings.Join(idx, ","))
	}
}

func appendLoop(file string, tid int, pause time.Duration, out *[]string, errs *int, wg *sync.WaitGroup) {
	defer wg.Done()
	for atomic.LoadInt32(&mixStop) == 0 {
		r := pattern(tid)
		idx, err := cmsys.AppendRecord(file, &r, recSize)
		if err != nil {
			*errs++
		} else {
			*out = append(*out, strconv.Itoa(int(idx)))
		}
		if pause > 0 {
			time.Sleep(pause)
		}
	}
}

// loopAppend: the other server process — one appender per record file until `stopmix`.
func loopAppend(file string, nFiles, base int) {
	atomic.StoreInt32(&mixStop, 0)
	res := make([][]string, nFiles)
	errs := make([]int, nFiles)
	var wg sync.WaitGroup
	for i := 0; i < nFiles; i++ {
		wg.Add(1)
		go appendLoop(file+strconv.Itoa(i), base+i, 30*time.Microsecond, &res[i], &errs[i], &wg)
	}
	say("loop-started")
	go func() {
		wg.Wait()
		for i := range res {
			sayIndices(base+i, res[i])
		}
		say("loop-done")
	}()
}

// mixServer: one server process that stores comments through the real request functions while it
// appends to record files. Runs until `stopmix`.
func mixServer(file string, nFiles, nCommenters, sleepUs int) {
	atomic.StoreInt32(&mixStop, 0)
	env, err := bbsenv.New(bbsenv.Options{})
	if err != nil {
		say("mix-started err:%s", strings.ReplaceAll(err.Error(), " ", "_"))
		return
	}
	fail := func(format string, a ...interface{}) {
		env.Close()
		say("mix-started err:%s", strings.ReplaceAll(fmt.Sprintf(format, a...), " ", "_"))
	}
	const bid = ptttype.Bid(10)
	board, err := cache.GetBCache(bid)
	if err != nil || cstring(board.Brdname[:]) != hdrBoard {
		fail("fixture: board 10 is not %s", hdrBoard)
		return
	}
	board.BrdAttr = 0
	ptttype.EDITPOST_SMARTMERGE = true
	boardDir := env.Path("boards", "W", hdrBoard)
	_ = os.MkdirAll(boardDir, 0o755)
	// one article per commenter
	var dir bytes.Buffer
	names := make([]*ptttype.Filename_t, nCommenters)
	for k := 0; k < nCommenters; k++ {
		fh := &ptttype.FileHeaderRaw{}
		name := fmt.Sprintf("M.%d.A.%03X", 1600000000+k, k)
		copy(fh.Filename[:], name)
		copy(fh.Owner[:], hdrAuthor)
		copy(fh.Date[:], "10/01")
		copy(fh.Title[:], fmt.Sprintf("article %d", k))
		_ = binary.Write(&dir, binary.LittleEndian, fh)
		names[k] = &ptttype.Filename_t{}
		copy(names[k][:], name)
		if err := os.WriteFile(filepath.Join(boardDir, name), []byte("content\n"), 0o644); err != nil {
			fail("write article: %v", err)
			return
		}
	}
	if err := os.WriteFile(filepath.Join(boardDir, ".DIR"), dir.Bytes(), 0o644); err != nil {
		fail("write .DIR: %v", err)
		return
	}
	cache.Shm.Shm.Total[bid.ToBidInStore()] = 0
	if err := cache.SetBTotal(bid); err != nil {
		fail("SetBTotal: %v", err)
		return
	}
	sid := &ptttype.UserID_t{}
	copy(sid[:], hdrAuthor)
	if _, su, err := ptt.InitCurrentUser(sid); err != nil || !su.UserLevel.HasUserPerm(ptttype.PERM_SYSOP) {
		fail("fixture: no SYSOP account with PERM_SYSOP (%v)", err)
		return
	}
	boardID := &ptttype.BoardID_t{}
	copy(boardID[:], hdrBoard)

	atomic.StoreInt64(&mixSleepUs, int64(sleepUs))
	var wg, cwg sync.WaitGroup
	var okComments, errComments int64
	firstErr := atomic.Value{}
	for g := 0; g < nCommenters; g++ {
		cwg.Add(1)
		go func(g int) {
			defer cwg.Done()
			userRec := &ptttype.UserecRaw{Version: ptttype.PASSWD_VERSION, NumLoginDays: 100, Over18: true}
			copy(userRec.UserID[:], hdrAuthor)
			userRec.UserLevel = ptttype.PERM_DEFAULT | ptttype.PERM_LOGINOK | ptttype.PERM_POST | ptttype.PERM_SYSOP
			ip := &ptttype.IPv4_t{}
			copy(ip[:], "127.0.0.1")
			aid := bbs.ToArticleID(names[g])
			for n := 0; atomic.LoadInt32(&mixStop) == 0; n++ {
				var err error
				res := hx.CallSync(func() string {
					if g%4 == 3 {
						_, _, err = bbs.CreateComment(bbs.UUserID(hdrAuthor), bbs.BBoardID("10_"+hdrBoard), aid, ptttype.COMMENT_TYPE_COMMENT, []byte("ok"), "127.0.0.1")
					} else {
						bidc := *boardID
						_, _, err = ptt.Recommend(userRec, 1, &bidc, bid, names[g], ptttype.COMMENT_TYPE_COMMENT, []byte("ok"), ip, nil)
					}
					return ""
				})
				if res == "PANIC" {
					err = fmt.Errorf("PANIC %s", hx.LastPanic)
				}
				if err != nil {
					atomic.AddInt64(&errComments, 1)
					firstErr.CompareAndSwap(nil, err.Error())
				} else {
					atomic.AddInt64(&okComments, 1)
				}
			}
		}(g)
	}
	res := make([][]string, nFiles)
	errs := make([]int, nFiles)
	for i := 0; i < nFiles; i++ {
		wg.Add(1)
		go appendLoop(file+strconv.Itoa(i), i, 0, &res[i], &errs[i], &wg)
	}
	say("mix-started ok")
	go func() {
		wg.Wait()
		cwg.Wait()
		atomic.StoreInt64(&mixSleepUs, 0)
		env.Close()
		for i := range res {
			sayIndices(i, res[i])
		}
		fe, _ := firstErr.Load().(string)
		say("mix-done %d %d %s", atomic.LoadInt64(&okComments), atomic.LoadInt64(&errComments), strings.ReplaceAll("first-error:"+fe, " ", "_"))
	}()
}

// sayPairs reports idx:name pairs in chunks.
func sayPairs(tag string, pairs []string) {
	for len(pairs) > 1000 {
		say("%s %s", tag, strings.Join(pairs[:1000], ","))
		pairs = pairs[1000:]
	}
	if len(pairs) > 0 {
		say("%s %s", tag, strings.Join(pairs, ","))
	}
}

// postServer: one server process whose requests post articles on board WhoAmI through the real
// ptt.NewPost until `stopmix`; every successful post is reported as <returned index>:<file name>.
func postServer(nPosters int, noLog bool) {
	atomic.StoreInt32(&mixStop, 0)
	env, err := bbsenv.New(bbsenv.Options{})
	if err != nil {
		say("posts-started err:%s", strings.ReplaceAll(err.Error(), " ", "_"))
		return
	}
	fail := func(format string, a ...interface{}) {
		env.Close()
		say("posts-started err:%s", strings.ReplaceAll(fmt.Sprintf(format, a...), " ", "_"))
	}
	const bid = ptttype.Bid(10)
	board, err := cache.GetBCache(bid)
	if err != nil || cstring(board.Brdname[:]) != hdrBoard {
		fail("fixture: board 10 is not %s", hdrBoard)
		return
	}
	sid := &ptttype.UserID_t{}
	copy(sid[:], hdrAuthor)
	uid, su, err := ptt.InitCurrentUser(sid)
	if err != nil || !su.UserLevel.HasUserPerm(ptttype.PERM_SYSOP) {
		fail("fixture: no SYSOP account with PERM_SYSOP (%v)", err)
		return
	}
	boardID := &ptttype.BoardID_t{}
	copy(boardID[:], hdrBoard)
	dirPath := env.Path("boards", "W", hdrBoard, ".DIR")
	st, _ := os.Stat(dirPath)
	n0 := 0
	if st != nil {
		n0 = int(st.Size() / int64(ptttype.FILE_HEADER_RAW_SZ))
	}
	logDir := env.Path("boards", "A", ptttype.BN_ALLPOST_s, ".DIR")
	if noLog {
		// the log board exists (made by hand) but has no index yet: the first cross-posts create it
		_ = os.MkdirAll(filepath.Dir(logDir), 0o755)
		_ = os.Remove(logDir)
	}
	var wg sync.WaitGroup
	res := make([][]string, nPosters)
	nErr := make([]int, nPosters)
	firstErr := atomic.Value{}
	var goPost int32
	if !noLog {
		goPost = 1
	}
	postsGo = &goPost
	for g := 0; g < nPosters; g++ {
		wg.Add(1)
		go func(g int) {
			defer wg.Done()
			for atomic.LoadInt32(&goPost) == 0 && atomic.LoadInt32(&mixStop) == 0 { // released together by `gopost`
				time.Sleep(50 * time.Microsecond)
			}
			user := *su // every request has its own copy of the user record
			ip := &ptttype.IPv4_t{}
			copy(ip[:], "127.0.0.1")
			for n := 0; atomic.LoadInt32(&mixStop) == 0; n++ {
				var summary *ptttype.ArticleSummaryRaw
				var err error
				out := hx.CallSync(func() string {
					bidc := *boardID
					summary, err = ptt.NewPost(&user, uid, &bidc, bid, []byte("test"), []byte(fmt.Sprintf("p%d.%d", g, n)), [][]byte{[]byte("line")}, ip, nil)
					return ""
				})
				if out == "PANIC" {
					err = fmt.Errorf("PANIC %s", hx.LastPanic)
				}
				if err != nil || summary == nil {
					nErr[g]++
					if err != nil && err != cmsys.ErrPttLock {
						firstErr.CompareAndSwap(nil, err.Error())
					}
					continue
				}
				res[g] = append(res[g], fmt.Sprintf("%d:%s", int(summary.Aid), cstring(summary.FileHeaderRaw.Filename[:])))
			}
		}(g)
	}
	say("posts-started ok %s %d %s", dirPath, n0, logDir)
	go func() {
		wg.Wait()
		errs := 0
		for g := range res {
			sayPairs("posted", res[g])
			errs += nErr[g]
		}
		fe, _ := firstErr.Load().(string)
		say("posts-done %d %s", errs, strings.ReplaceAll("first-other-error:"+fe, " ", "_"))
		// the environment (and with it the board index the parent judges) stays until `closeposts`
		<-postsClose
		env.Close()
		say("posts-closed")
	}()
}

var nOtherLog int

var postsClose = make(chan struct{}, 1)
var postsGo *int32

// dirAppend: the other server process — appends article entries of its own to the board's .DIR
// (what a forward / cross-post of a request served there does) until `stopmix`.
func dirAppend(dirPath, watch string) {
	atomic.StoreInt32(&mixStop, 0)
	size0 := int64(-1)
	if st, err := os.Stat(watch); err == nil {
		size0 = st.Size()
	}
	say("dir-started")
	go func() {
		var res []string
		// with a watch file: start as soon as that file has grown (the first post of the other process is in)
		for watch != "" && atomic.LoadInt32(&mixStop) == 0 {
			if st, err := os.Stat(watch); err == nil && st.Size() > size0 {
				break
			}
			runtime.Gosched()
		}
		for seq := 0; atomic.LoadInt32(&mixStop) == 0; seq++ {
			fh := &ptttype.FileHeaderRaw{}
			name := fmt.Sprintf("M.%010d.A.OTH", 1000000000+seq)
			copy(fh.Filename[:], name)
			copy(fh.Owner[:], "other")
			idx, err := cmsys.AppendRecord(dirPath, fh, ptttype.FILE_HEADER_RAW_SZ)
			if err == nil {
				res = append(res, fmt.Sprintf("%d:%s", int(idx), name))
			}
			time.Sleep(20 * time.Microsecond)
		}
		sayPairs("posted", res)
		say("dir-done")
	}()
}

// ---------------------------------------------------------------- controller side

// postsRun: several requests of one server post on one board (real ptt.NewPost) while a second process
// appends to that board's .DIR. P-hat: the index every successful appender (a post: summary.Aid; the other
// process: AppendRecord's result) was told is told to nobody else, and the record stored there is its own
// (file name).
func postsRun(bin string, nPosters, ms int) { postsRunX(bin, nPosters, ms, false) }

// logPostsRun: the same with the log board's index (ALLPOST/.DIR) missing at the start: the posters are
// released together, their cross-posts create it, and the second process starts appending to it as soon as
// the first post is in. P-hat additionally on the log board's index for the second process's appends.
func logPostsRun(bin string, nPosters, ms int) { postsRunX(bin, nPosters, ms, true) }

func postsRunX(bin string, nPosters, ms int, noLog bool) {
	dir, _ := os.MkdirTemp("", "verif-c14q-")
	defer os.RemoveAll(dir)
	base := filepath.Join(dir, "posts")
	op := fmt.Sprintf("posts %d %d", nPosters, ms)
	extra := ""
	if noLog {
		op = fmt.Sprintf("logposts %d %d", nPosters, ms)
		extra = " nolog"
	}
	c := newController([]int{0, 1}, base, bin)
	defer c.close()
	l := c.ask(0, 30*time.Second, "posts %d%s", nPosters, extra)
	f := strings.Fields(l)
	if len(f) != 5 || f[0] != "posts-started" || f[1] != "ok" {
		i := run.Op(op, "harness:"+strings.ReplaceAll(l, " ", "_"), "posts", false)
		run.Fail(i, "harness:posts-setup", "the server process could not set up its environment: "+l)
		return
	}
	dirPath := f[2]
	n0, _ := strconv.Atoi(f[3])
	logDir := f[4]
	target := dirPath
	if noLog {
		target = logDir + " " + dirPath
	}
	if l := c.ask(1, 10*time.Second, "dirappend %s", target); l != "dir-started" {
		i := run.Op(op, "harness:"+strings.ReplaceAll(l, " ", "_"), "posts", false)
		run.Fail(i, "harness:posts-setup", "the second process did not start: "+l)
		c.send(0, "stopmix")
		return
	}
	c.send(0, "gopost")
	time.Sleep(time.Duration(ms) * time.Millisecond) // the length of the run, nothing is decided by it
	c.send(1, "stopmix") // the other appender first: the posters' last records are then followed by nothing new
	c.send(0, "stopmix")
	type succ struct {
		who  string
		idx  int
		name string
	}
	var all []succ
	doneN, died := 0, false
	postsDone := ""
	deadline := time.After(60 * time.Second)
	for doneN < 2 && !died {
		select {
		case l := <-c.misc:
			f := strings.Fields(l)
			switch {
			case len(f) == 2 && f[0] == "child-exit":
				died = true
			case len(f) == 2 && f[0] == "posted":
				for _, p := range strings.Split(f[1], ",") {
					kv := strings.SplitN(p, ":", 2)
					if len(kv) == 2 {
						idx, _ := strconv.Atoi(kv[0])
						who := "post"
						if strings.HasSuffix(kv[1], ".OTH") {
							who = "other"
						}
						all = append(all, succ{who, idx, kv[1]})
					}
				}
			case len(f) >= 1 && f[0] == "posts-done":
				postsDone = l
				doneN++
			case l == "dir-done":
				doneN++
			}
		case <-deadline:
			died = true
		}
	}
	if died {
		i := run.Op(op, "TIMEOUT", "posts", false)
		run.Fail(i, "stall", "the posting run did not finish")
		c.send(0, "closeposts")
		return
	}
	// both processes have stopped appending: the board index is final
	b, _ := os.ReadFile(dirPath)
	bLog, _ := os.ReadFile(logDir)
	if l := c.ask(0, 20*time.Second, "closeposts"); l != "posts-closed" {
		run.Note("posts: the server process did not confirm closing its environment: " + l)
	}
	sz := int(ptttype.FILE_HEADER_RAW_SZ)
	nameAt := func(idx int) string {
		if idx < 1 || idx*sz > len(b) {
			return "<none>"
		}
		return cstring(b[(idx-1)*sz : (idx-1)*sz+len(ptttype.Filename_t{})])
	}
	var logFails []failure
	if noLog {
		// the second process appended to the log board's index: its successes are judged there
		var posts []succ
		seenLog := map[int]bool{}
		nBad := 0
		for _, s := range all {
			if s.who == "post" {
				posts = append(posts, s)
				continue
			}
			got := "<none>"
			if s.idx >= 1 && s.idx*sz <= len(bLog) {
				got = cstring(bLog[(s.idx-1)*sz : (s.idx-1)*sz+len(ptttype.Filename_t{})])
			}
			if got != s.name || seenLog[s.idx] {
				if nBad++; nBad <= 3 {
					logFails = append(logFails, failure{"posts:log-lost-record", fmt.Sprintf("the second process was told index %d of the log board's index for %s but the entry stored there is %s (%d entries)", s.idx, s.name, got, len(bLog)/sz)})
				}
			}
			seenLog[s.idx] = true
		}
		nOtherLog = len(all) - len(posts)
		all = posts
	}
	fails := append([]failure{}, logFails...)
	nDup, nLost, nPosts, nOther := 0, 0, 0, 0
	seen := map[int]succ{}
	for _, s := range all {
		if s.who == "post" {
			nPosts++
		} else {
			nOther++
		}
		if prev, dup := seen[s.idx]; dup {
			if nDup++; nDup <= 3 {
				fails = append(fails, failure{"posts:double-assign", fmt.Sprintf("index %d was reported to two successful appenders: %s %s and %s %s", s.idx, prev.who, prev.name, s.who, s.name)})
			}
		}
		seen[s.idx] = s
		if s.idx <= n0 {
			fails = append(fails, failure{"posts:overwrote-old", fmt.Sprintf("%s %s was told index %d inside the %d old entries", s.who, s.name, s.idx, n0)})
		}
		if got := nameAt(s.idx); got != s.name {
			if nLost++; nLost <= 3 {
				fails = append(fails, failure{"posts:lost-record", fmt.Sprintf("%s %s was told index %d but the entry stored there is %s", s.who, s.name, s.idx, got)})
			}
		}
	}
	if len(b)%sz != 0 {
		fails = append(fails, failure{"posts:torn", fmt.Sprintf("the board index has %d bytes: no whole number of entries", len(b))})
	}
	if noLog {
		nOther = nOtherLog
	}
	if nPosts == 0 || nOther == 0 {
		fails = append(fails, failure{"harness:posts-idle", fmt.Sprintf("%d successful posts, %d appends of the other process: the run shows nothing (%s)", nPosts, nOther, postsDone)})
	}
	verdict := "consistent"
	if len(fails) > 0 {
		verdict = "inconsistent"
	}
	i := run.Op(op, verdict, "posts", true)
	run.Extra["posts_successes"] = nPosts
	run.Extra["posts_other_appends"] = nOther
	run.Extra["posts_done"] = postsDone
	for k, fl := range fails {
		if k < 6 {
			run.Fail(i, fl.key, fl.what)
		}
	}
}

func postLogImage(title string) []byte {
	pl := &ptt.PostLog{}
	copy(pl.Author[:], hdrAuthor)
	copy(pl.Board[:], hdrBoard)
	copy(pl.Title[:], title)
	pl.Number = 1
	var b bytes.Buffer
	_ = binary.Write(&b, binary.LittleEndian, pl)
	return b.Bytes()
}

type postRec struct {
	title  string
	intact bool
}

func cstring(b []byte) string {
	if i := bytes.IndexByte(b, 0); i >= 0 {
		b = b[:i]
	}
	return string(b)
}

// readPost parses .post: every whole record's title and whether author / board / number are as written.
func readPost(file string) (recs []postRec, tail int) {
	b, _ := os.ReadFile(file)
	sz := int(ptt.POSTLOG_SZ)
	for i := 0; i+sz <= len(b); i += sz {
		pl := &ptt.PostLog{}
		_ = binary.Read(bytes.NewReader(b[i:i+sz]), binary.LittleEndian, pl)
		recs = append(recs, postRec{cstring(pl.Title[:]), cstring(pl.Author[:]) == hdrAuthor && cstring(pl.Board[:]) == hdrBoard && pl.Number == 1})
	}
	return recs, len(b) % sz
}

func (c *controller) ask(p int, wait time.Duration, format string, a ...interface{}) string {
	c.send(p, format, a...)
	select {
	case l := <-c.misc:
		return l
	case <-time.After(wait):
		longStalls++
		return "TIMEOUT"
	}
}

type failure struct{ key, what string }

// judgePost: P-hat for header writers. succ: titles of the calls that reported success.
func judgePost(key string, file string, n0 int, succ map[string]bool, ctx string) (fails []failure) {
	add := func(k, format string, a ...interface{}) {
		fails = append(fails, failure{key + ":" + k, fmt.Sprintf(format, a...) + " (" + ctx + ")"})
	}
	recs, tail := readPost(file)
	if tail != 0 {
		add("torn", ".post ends with %d bytes that are no whole record", tail)
	}
	count := map[string]int{}
	nTorn := 0
	for k, r := range recs {
		if k < n0 {
			if r.title != "old" || !r.intact {
				add("overwrote-old", "old record %d of .post now holds %q", k, r.title)
			}
			continue
		}
		count[r.title]++
		if !r.intact {
			if nTorn++; nTorn <= 3 {
				add("torn", "record %d of .post (%q) is not intact", k, r.title)
			}
		}
	}
	nLost := 0
	for t := range succ {
		if count[t] != 1 {
			if nLost++; nLost <= 3 {
				k := "lost-record"
				if count[t] > 1 {
					k = "duplicate-record"
				}
				add(k, "the header writer %q reported success but .post holds its record %d times", t, count[t])
			}
		}
	}
	if len(recs) != n0+len(succ) {
		add("length", ".post holds %d records, expected %d old + %d successful header writers", len(recs), n0, len(succ))
	}
	return fails
}

// hdrCase: one schedule-controlled history of header writers in one process (see Model/C14.lean runHdr).
func hdrCase(bin string, n0, hold, nw int) {
	if longStalls > 24 {
		return
	}
	dir, _ := os.MkdirTemp("", "verif-c14h-")
	defer os.RemoveAll(dir)
	file := filepath.Join(dir, ".post")
	_ = os.WriteFile(file, bytes.Repeat(postLogImage("old"), n0), 0o644)
	c := newController([]int{0}, file, bin)
	defer c.close()
	c.startCmd = "hstart"
	op := fmt.Sprintf("hdr %d %d %d", n0, hold, nw)
	if l := c.ask(0, 5*time.Second, "home %s", dir); l != "homed ok" {
		i := run.Op(op, "harness:"+l, "hdr", false)
		run.Fail(i, "harness:hdr-home", "child did not take its BBSHOME: "+l)
		return
	}
	states := make([]string, nw+2)
	for k := 0; k < hold; k++ {
		c.release(0)
	}
	for w := 1; w <= nw; w++ {
		states[w] = strings.TrimPrefix(c.ask(0, 10*time.Second, "hwrite %d", w), "hwrote ")
	}
	for k := 0; k < 8 && !c.done[0]; k++ {
		c.release(0)
	}
	states[0] = c.state[0]
	states[nw+1] = strings.TrimPrefix(c.ask(0, 10*time.Second, "hwrite %d", nw+1), "hwrote ")
	recs, _ := readPost(file)
	var shown []string
	for k, r := range recs {
		switch {
		case k < n0 && r.title == "old" && r.intact:
			shown = append(shown, "_")
		case r.intact && strings.HasPrefix(r.title, "h"):
			shown = append(shown, r.title[1:])
		default:
			shown = append(shown, "torn")
		}
	}
	out := strings.Join(states, " ") + " | " + strings.Join(shown, ",")
	i := run.Op(op, out, fmt.Sprintf("hdr:hold%d", hold), true)
	for _, e := range c.errs {
		run.Fail(i, "stall", e)
	}
	succ := map[string]bool{}
	for t, st := range states {
		if st == "ok" {
			succ["h"+strconv.Itoa(t)] = true
		} else if st != "err" {
			run.Fail(i, "hdr:bad-outcome", fmt.Sprintf("header writer %d ended in state %q (%s)", t, st, out))
		}
	}
	for _, fl := range judgePost("hdr", file, n0, succ, out) {
		run.Fail(i, fl.key, fl.what)
	}
	if states[nw+1] != "ok" {
		run.Fail(i, "lock-leak", fmt.Sprintf("a header writer issued after all others had returned failed: %s (%s)", states[nw+1], out))
	}
}

// postlogStress: n header writers of one server released together, `rounds` times.
func postlogStress(bin string, n, rounds int) {
	dir, _ := os.MkdirTemp("", "verif-c14p-")
	defer os.RemoveAll(dir)
	file := filepath.Join(dir, ".post")
	const n0 = 2
	_ = os.WriteFile(file, bytes.Repeat(postLogImage("old"), n0), 0o644)
	c := newController([]int{0}, file, bin)
	defer c.close()
	op := fmt.Sprintf("postlog %d %d", n, rounds)
	if l := c.ask(0, 5*time.Second, "home %s", dir); l != "homed ok" {
		i := run.Op(op, "harness:"+l, "postlog", false)
		run.Fail(i, "harness:hdr-home", "child did not take its BBSHOME: "+l)
		return
	}
	c.send(0, "hstress %d %d", n, rounds)
	succ := map[string]bool{}
	calls, bad := 0, ""
	deadline := time.After(120 * time.Second)
loop:
	for {
		select {
		case l := <-c.misc:
			f := strings.Fields(l)
			if l == "hstress-done" {
				break loop
			}
			if strings.HasPrefix(l, "child-exit") {
				i := run.Op(op, "TIMEOUT", "postlog", false)
				run.Fail(i, "stall", "the server process died while its header writers ran")
				return
			}
			if len(f) == 3 && f[0] == "hround" {
				for g, r := range strings.Split(f[2], ",") {
					calls++
					if r == "ok" {
						succ[fmt.Sprintf("r%s.g%d", f[1], g)] = true
					} else if r != "err" && bad == "" {
						bad = r
					}
				}
			}
		case <-deadline:
			i := run.Op(op, "TIMEOUT", "postlog", false)
			run.Fail(i, "stall", "the header writers did not finish")
			return
		}
	}
	recs, _ := readPost(file)
	ctx := fmt.Sprintf("%d calls, %d successes, %d new records", calls, len(succ), len(recs)-n0)
	fails := judgePost("postlog", file, n0, succ, ctx)
	if bad != "" {
		fails = append(fails, failure{"postlog:bad-outcome", "a header writer ended with " + bad})
	}
	if l := c.ask(0, 10*time.Second, "hwrite 0"); l != "hwrote ok" {
		fails = append(fails, failure{"lock-leak", "a header writer issued after all others had returned failed: " + l})
	}
	verdict := "consistent"
	if len(fails) > 0 {
		verdict = "inconsistent"
	}
	i := run.Op(op, verdict, "postlog", true)
	run.Extra["postlog_calls"] = calls
	run.Extra["postlog_successes"] = len(succ)
	for k, fl := range fails {
		if k < 5 {
			run.Fail(i, fl.key, fl.what)
		}
	}
}

// mixRun: one server process with commenters (real ptt.Recommend / bbs.CreateComment) and appenders to
// nFiles record files, a second process appending to the same files, for ms milliseconds.
// P-hat per record file as in the stress pass: distinct indices, the record at the returned index is the
// caller's, length = number of successful appends; afterwards an append from each process succeeds.
func mixRun(bin string, nFiles, nCommenters, ms, sleepUs int) {
	dir, _ := os.MkdirTemp("", "verif-c14m-")
	defer os.RemoveAll(dir)
	base := filepath.Join(dir, "rec")
	for k := 0; k < nFiles; k++ {
		_ = os.WriteFile(base+strconv.Itoa(k), nil, 0o644)
	}
	op := fmt.Sprintf("mix %d %d %d %d", nFiles, nCommenters, ms, sleepUs)
	c := newController([]int{0, 1}, base, bin)
	defer c.close()
	if l := c.ask(0, 30*time.Second, "mix %d %d %d", nFiles, nCommenters, sleepUs); l != "mix-started ok" {
		i := run.Op(op, "harness:"+l, "mix", false)
		run.Fail(i, "harness:mix-setup", "the server process could not set up its environment: "+l)
		return
	}
	if l := c.ask(1, 10*time.Second, "loopappend %d %d", nFiles, 10); l != "loop-started" {
		i := run.Op(op, "harness:"+l, "mix", false)
		run.Fail(i, "harness:mix-setup", "the second process did not start: "+l)
		c.send(0, "stopmix")
		return
	}
	time.Sleep(time.Duration(ms) * time.Millisecond) // the length of the run, nothing is decided by it
	c.send(0, "stopmix")
	c.send(1, "stopmix")
	results := map[int][]string{}
	mixDone := ""
	doneN := 0
	deadline := time.After(40 * time.Second)
	died := false
	for doneN < 2 && !died {
		select {
		case l := <-c.misc:
			f := strings.Fields(l)
			switch {
			case len(f) == 2 && f[0] == "child-exit":
				died = true
			case len(f) == 3 && f[0] == "stressed":
				tid, _ := strconv.Atoi(f[1])
				results[tid] = append(results[tid], strings.Split(f[2], ",")...)
			case len(f) >= 1 && f[0] == "mix-done":
				mixDone = l
				doneN++
			case l == "loop-done":
				doneN++
			}
		case <-deadline:
			died = true
		}
	}
	if died {
		{
			i := run.Op(op, "TIMEOUT", "mix", false)
			what := "the mixed run did not finish"
			c.close()
			for p, ch := range c.children {
				if e := ch.stderr.String(); strings.Contains(e, "fatal error") {
					what += fmt.Sprintf("; process %d died: %s", p, strings.SplitN(e[strings.Index(e, "fatal error"):], "\n", 2)[0])
				}
			}
			run.Fail(i, "stall", what)
			return
		}
	}
	var fails []failure
	add := func(key, format string, a ...interface{}) {
		fails = append(fails, failure{key, fmt.Sprintf(format, a...)})
	}
	total := 0
	for k := 0; k < nFiles; k++ {
		recs, problems := readRecs(base+strconv.Itoa(k), 0)
		rs := strings.Split(recs, ",")
		if recs == "" {
			rs = nil
		}
		succ := 0
		seen := map[string]int{}
		nBad := 0
		for _, tid := range []int{k, 10 + k} {
			if len(results[tid]) == 0 {
				add("harness:mix-idle", "process %d made no successful append to record file %d: the run shows nothing", tid/10, k)
			}
			for _, x := range results[tid] {
				succ++
				idx, _ := strconv.Atoi(x)
				if prev, dup := seen[x]; dup {
					if nBad++; nBad <= 2 {
						add("mix:double-assign", "record file %d: index %s was returned to the appenders %d and %d (process %d and %d)", k, x, prev, tid, prev/10, tid/10)
					}
				}
				seen[x] = tid
				if idx < 1 || idx > len(rs) || rs[idx-1] != strconv.Itoa(tid) {
					if nBad++; nBad <= 2 {
						add("mix:lost-record", "record file %d: appender %d was given index %d but the record there is %s", k, tid, idx, at(rs, idx-1))
					}
				}
			}
		}
		total += succ
		if len(rs) != succ {
			add("mix:length", "record file %d: %d records for %d successful appends", k, len(rs), succ)
		}
		for _, p := range problems {
			add("mix:torn", "record file %d: %s", k, p)
		}
	}
	md := strings.Fields(mixDone)
	okC, errC := 0, 0
	if len(md) >= 3 {
		okC, _ = strconv.Atoi(md[1])
		errC, _ = strconv.Atoi(md[2])
	}
	if okC == 0 {
		add("harness:mix-no-comments", "no comment was stored during the run (%s)", mixDone)
	}
	for _, p := range []int{0, 1} {
		for k := 0; k < nFiles; k++ {
			if l := c.ask(p, 10*time.Second, "appendto %s%d", base, k); !strings.HasPrefix(l, "appended ok:") {
				add("lock-leak", "an append to record file %d issued by process %d after all others finished failed: %s", k, p, l)
			}
		}
	}
	c.close()
	races := 0
	for _, ch := range c.children {
		races += strings.Count(ch.stderr.String(), "WARNING: DATA RACE")
	}
	if races > 0 {
		add("mix:data-race", "the race detector reported %d data race(s) in the server processes", races)
	}
	verdict := "consistent"
	if len(fails) > 0 {
		verdict = "inconsistent"
	}
	i := run.Op(op, verdict, "mix", true)
	run.Extra["mix_appends"] = total
	run.Extra["mix_comments"] = okC
	run.Extra["mix_comment_errors"] = errC
	run.Extra["mix_race_detector_reports"] = races
	for k, fl := range fails {
		if k < 6 {
			run.Fail(i, fl.key, fl.what)
		}
	}
}
