// c14: schedule-level correspondence for concurrent cmsys.AppendRecord (property C14).
//
// The parent is the schedule controller. Appender threads live in child
// processes (this same binary, -mode child): a child hosts one or more
// goroutines ("threads"), each of which calls the real cmsys.AppendRecord once.
// The verif hook points inside AppendRecord make every thread stop at
// append.afterOpen / afterLock / afterSeek / afterWrite until the controller
// releases it, so every interleaving at those points can be forced.
package main

import (
	"bufio"
	"bytes"
	"errors"
	"flag"
	"fmt"
	"io"
	"os"
	"os/exec"
	"os/signal"
	"runtime"
	"sort"
	"strconv"
	"strings"
	"sync"
	"sync/atomic"
	"syscall"
	"time"

	"github.com/Ptt-official-app/go-pttbbs/cmsys"
	"github.com/Ptt-official-app/go-pttbbs/ptttype"
	"github.com/Ptt-official-app/go-pttbbs/verifhook"
	"verifharness/internal/hx"
)

const recSize = 16

type rec [recSize]byte

func pattern(tid int) rec {
	var r rec
	for i := range r {
		r[i] = byte(tid + 1)
	}
	return r
}

// ---------------------------------------------------------------- child

func goid() string {
	var buf [64]byte
	n := runtime.Stack(buf[:], false)
	f := strings.Fields(string(buf[:n]))
	if len(f) >= 2 {
		return f[1]
	}
	return "?"
}

// shared by the command loop and the request-level users (users.go)
var (
	childSayMu sync.Mutex
	childOut   *bufio.Writer
	childTidOf = map[string]int{}
	childGate  = map[int]chan struct{}{}
	childMu    sync.Mutex
)

func say(format string, a ...interface{}) {
	childSayMu.Lock()
	fmt.Fprintf(childOut, format+"\n", a...)
	childOut.Flush()
	childSayMu.Unlock()
}

// registerThread makes the calling goroutine schedule-controlled thread tid: it stops at every
// append.* hook point until the controller sends `go tid`.
func registerThread(tid int) {
	childMu.Lock()
	childTidOf[goid()] = tid
	childMu.Unlock()
}

func childMain(file string) {
	signal.Ignore(syscall.SIGXFSZ) // a write past RLIMIT_FSIZE returns EFBIG instead of killing the process
	childOut = bufio.NewWriter(os.Stdout)
	tidOf, gate, tmu := childTidOf, childGate, &childMu

	verifhook.SetOnPoint(func(name string) {
		if !strings.HasPrefix(name, "append.") {
			return
		}
		tmu.Lock()
		tid, ok := tidOf[goid()]
		ch := gate[tid]
		tmu.Unlock()
		if !ok {
			// not a controlled thread. In the mix run the appenders of this process take their time
			// between reading the length and writing (a slow disk, a descheduled thread): the lock is
			// what protects them. The pause only widens a window; nothing is decided by it.
			if us := atomic.LoadInt64(&mixSleepUs); us > 0 && name == "append.afterSeek" {
				time.Sleep(time.Duration(us) * time.Microsecond)
			}
			return
		}
		say("at %d %s", tid, strings.TrimPrefix(name, "append."))
		<-ch
	})

	in := bufio.NewScanner(os.Stdin)
	for in.Scan() {
		f := strings.Fields(in.Text())
		if len(f) == 0 {
			continue
		}
		switch f[0] {
		case "start":
			tid, _ := strconv.Atoi(f[1])
			ch := make(chan struct{}, 1)
			tmu.Lock()
			gate[tid] = ch
			tmu.Unlock()
			go func() {
				tmu.Lock()
				tidOf[goid()] = tid
				tmu.Unlock()
				r := pattern(tid)
				res := hx.CallSync(func() string {
					idx, err := cmsys.AppendRecord(file, &r, recSize)
					if err != nil {
						if err == cmsys.ErrPttLock {
							return "err"
						}
						if errors.Is(err, syscall.EFBIG) {
							return "err:write"
						}
						return "err:" + strings.ReplaceAll(err.Error(), " ", "_")
					}
					return "ok:" + strconv.Itoa(int(idx))
				})
				say("done %d %s", tid, res)
			}()
		case "go":
			tid, _ := strconv.Atoi(f[1])
			tmu.Lock()
			ch := gate[tid]
			tmu.Unlock()
			ch <- struct{}{}
		case "append": // an uncontrolled append (locks-released check); hooks ignore unknown goroutines
			r := pattern(98)
			idx, err := cmsys.AppendRecord(file, &r, recSize)
			if err != nil {
				say("appended err:%v", strings.ReplaceAll(err.Error(), " ", "_"))
			} else {
				say("appended ok:%d", idx)
			}
		case "limit": // from now on this process cannot grow the file: writes past its present size fail with EFBIG
			st, err := os.Stat(file)
			if err != nil {
				say("limited err")
				break
			}
			var rl syscall.Rlimit
			_ = syscall.Getrlimit(syscall.RLIMIT_FSIZE, &rl)
			rl.Cur = uint64(st.Size())
			if err := syscall.Setrlimit(syscall.RLIMIT_FSIZE, &rl); err != nil {
				say("limited err")
			} else {
				say("limited ok")
			}
		case "try": // one contended-or-not GoFlockExNb + GoFunlock on the record file (ptt.doAddRecommendSmartMerge's pattern)
			fh, err := os.OpenFile(file, os.O_WRONLY, 0o644)
			if err != nil {
				say("tried openerr")
				break
			}
			err = cmsys.GoFlockExNb(fh.Fd(), file)
			if err == nil {
				_ = cmsys.GoFunlock(fh.Fd(), file)
				say("tried ok")
			} else {
				say("tried err")
			}
			fh.Close()
		case "delete": // cmsys.DeleteRecord shares the file's lock-table key with AppendRecord
			idx, _ := strconv.Atoi(f[1])
			err := cmsys.DeleteRecord(file, ptttype.SortIdxInStore(idx), recSize)
			if err != nil {
				say("deleted err:%v", strings.ReplaceAll(err.Error(), " ", "_"))
			} else {
				say("deleted ok")
			}
		case "substitute":
			idx, _ := strconv.Atoi(f[1])
			r := pattern(97)
			err := cmsys.SubstituteRecord(file, &r, recSize, int32(idx))
			if err != nil {
				say("substituted err:%v", strings.ReplaceAll(err.Error(), " ", "_"))
			} else {
				say("substituted ok")
			}
		case "stress": // n goroutines x m appends each, no hooks: for the race detector pass
			n, _ := strconv.Atoi(f[1])
			m, _ := strconv.Atoi(f[2])
			base, _ := strconv.Atoi(f[3])
			var wg sync.WaitGroup
			results := make([][]string, n)
			// other record files of the same process at the same time: different keys of the one lock table
			// (a server appends to many boards at once); judged by the race detector and by not crashing
			for g := 0; g < 4; g++ {
				wg.Add(1)
				go func(g int) {
					defer wg.Done()
					side := fmt.Sprintf("%s.side%d.%d", file, os.Getpid(), g%2)
					for k := 0; k < m; k++ {
						r := pattern(90 + g)
						_, _ = cmsys.AppendRecord(side, &r, recSize)
					}
				}(g)
			}
			for g := 0; g < n; g++ {
				wg.Add(1)
				go func(g int) {
					defer wg.Done()
					for k := 0; k < m; k++ {
						r := pattern(base + g)
						idx, err := cmsys.AppendRecord(file, &r, recSize)
						if err != nil {
							results[g] = append(results[g], "e")
						} else {
							results[g] = append(results[g], strconv.Itoa(int(idx)))
						}
					}
				}(g)
			}
			wg.Wait()
			for g := 0; g < n; g++ {
				say("stressed %d %s", base+g, strings.Join(results[g], ","))
			}
			say("stress-done")
		case "quit":
			return
		default:
			childUsers(f, file)
		}
	}
}

// ---------------------------------------------------------------- controller

type event struct {
	tid  int
	kind string // "at" | "done"
	arg  string
}

type child struct {
	cmd    *exec.Cmd
	in     io.WriteCloser
	stderr *bytes.Buffer
}

type controller struct {
	procs    []int // thread -> process
	children map[int]*child
	events   map[int]chan event // per thread
	misc     chan string
	file     string
	state    []string // per thread: "" (not started) | point | "blocked" | result
	started  []bool
	blocked  []bool
	done     []bool
	errs     []string
	tries    []string // results of the try-lock calls, in schedule order
	closed   bool
	startCmd string // "start" (an AppendRecord call) or "hstart" (a header writer: ptt.WriteFile)
}

func newController(procs []int, file string, bin string) *controller {
	c := &controller{procs: procs, children: map[int]*child{}, events: map[int]chan event{}, misc: make(chan string, 64),
		file: file, state: make([]string, len(procs)), started: make([]bool, len(procs)),
		blocked: make([]bool, len(procs)), done: make([]bool, len(procs)), startCmd: "start"}
	for t := range procs {
		c.events[t] = make(chan event, 16)
		c.state[t] = "start"
	}
	for _, p := range procs {
		if _, ok := c.children[p]; ok {
			continue
		}
		cmd := exec.Command(bin, "-mode", "child", "-file", file, "-out", os.TempDir())
		in, _ := cmd.StdinPipe()
		outp, _ := cmd.StdoutPipe()
		errBuf := &bytes.Buffer{}
		cmd.Stderr = errBuf
		if err := cmd.Start(); err != nil {
			panic(err)
		}
		c.children[p] = &child{cmd: cmd, in: in, stderr: errBuf}
		if p >= 50 {
			defer func(p int) { // once the reader below is running
				c.send(p, "limit")
				select {
				case l := <-c.misc:
					if l != "limited ok" {
						c.errs = append(c.errs, "harness: could not set the file-size limit: "+l)
					}
				case <-time.After(5 * time.Second):
					c.errs = append(c.errs, "harness: limit command timed out")
				}
			}(p)
		}
		go func(p int) {
			sc := bufio.NewScanner(outp)
			sc.Buffer(make([]byte, 1<<16), 1<<26)
			for sc.Scan() {
				f := strings.Fields(sc.Text())
				if len(f) >= 3 && (f[0] == "at" || f[0] == "done") {
					tid, _ := strconv.Atoi(f[1])
					c.events[tid] <- event{tid, f[0], f[2]}
				} else {
					c.misc <- sc.Text()
				}
			}
			// the process has closed its output (it quit, or it died): tell whoever is waiting for its answer
			select {
			case c.misc <- fmt.Sprintf("child-exit %d", p):
			default:
			}
		}(p)
	}
	return c
}

func (c *controller) send(p int, format string, a ...interface{}) {
	fmt.Fprintf(c.children[p].in, format+"\n", a...)
}

func (c *controller) apply(ev event) {
	if ev.kind == "done" {
		c.done[ev.tid] = true
		c.blocked[ev.tid] = false
		c.state[ev.tid] = ev.arg
		return
	}
	c.blocked[ev.tid] = false
	switch ev.arg {
	case "afterOpen":
		c.state[ev.tid] = "start"
	case "afterLock":
		c.state[ev.tid] = "locked"
	case "afterSeek":
		c.state[ev.tid] = "seeked"
	case "afterWrite":
		c.state[ev.tid] = "written"
	}
}

// wait for thread t's next event; a thread that does not report within the
// grace period is blocked inside flock (another process holds the lock).
func (c *controller) await(t int, grace time.Duration) bool {
	select {
	case ev := <-c.events[t]:
		c.apply(ev)
		return true
	case <-time.After(grace):
		return false
	}
}

func (c *controller) release(t int) {
	if c.done[t] || c.blocked[t] {
		return
	}
	p := c.procs[t]
	if !c.started[t] {
		c.started[t] = true
		c.send(p, c.startCmd+" %d", t)
		if !c.await(t, 5*time.Second) {
			c.errs = append(c.errs, fmt.Sprintf("thread %d never reached afterOpen", t))
		}
		return
	}
	wasWritten := c.state[t] == "written" || c.state[t] == "seeked" || c.state[t] == "locked" // holds the flock
	inSeg1 := c.state[t] == "start"
	c.send(p, "go %d", t)
	grace := 5 * time.Second
	if inSeg1 && c.otherProcessHolds(t) {
		grace = 200 * time.Millisecond
	}
	if !c.await(t, grace) {
		if grace >= 5*time.Second {
			longStalls++
		}
		if inSeg1 {
			c.blocked[t] = true
			c.state[t] = "blocked"
		} else {
			c.errs = append(c.errs, fmt.Sprintf("thread %d stalled after %s", t, c.state[t]))
			c.state[t] = "TIMEOUT"
			c.done[t] = true
		}
		return
	}
	if wasWritten && c.done[t] {
		// the flock is free again: a blocked waiter (at most one in the driven cases) acquires it
		for u := range c.procs {
			if c.blocked[u] {
				if !c.await(u, 5*time.Second) {
					c.errs = append(c.errs, fmt.Sprintf("blocked thread %d did not acquire the lock after the holder released it", u))
					c.state[u] = "TIMEOUT"
					c.done[u] = true
					c.blocked[u] = false
				}
				break
			}
		}
	}
}

// some thread of another process is between afterLock and return
func (c *controller) otherProcessHolds(t int) bool {
	for u := range c.procs {
		if c.procs[u] != c.procs[t] && (c.state[u] == "locked" || c.state[u] == "seeked" || c.state[u] == "written") {
			return true
		}
	}
	return false
}

func (c *controller) close() {
	if c.closed {
		return
	}
	c.closed = true
	for _, ch := range c.children {
		fmt.Fprintln(ch.in, "quit")
		ch.in.Close()
		done := make(chan struct{})
		go func(cmd *exec.Cmd) { cmd.Wait(); close(done) }(ch.cmd)
		select {
		case <-done:
		case <-time.After(2 * time.Second):
			ch.cmd.Process.Kill()
			<-done // Wait also ends the goroutine that copies the child's stderr
		}
	}
}

func readRecs(file string, n0 int) (string, []string) {
	b, _ := os.ReadFile(file)
	var out []string
	var problems []string
	if len(b)%recSize != 0 {
		problems = append(problems, fmt.Sprintf("file length %d is not a multiple of %d", len(b), recSize))
	}
	for i := 0; i+recSize <= len(b); i += recSize {
		ch := b[i : i+recSize]
		if bytes.Equal(ch, bytes.Repeat([]byte{ch[0]}, recSize)) {
			if ch[0] == 0xEE {
				out = append(out, "_")
			} else {
				out = append(out, strconv.Itoa(int(ch[0])-1))
			}
		} else {
			out = append(out, "torn")
			problems = append(problems, fmt.Sprintf("record %d is torn: %x", i/recSize, ch))
		}
	}
	return strings.Join(out, ","), problems
}

func (c *controller) observe() string {
	recs, _ := readRecs(c.file, 0)
	out := strings.Join(c.state, " ") + " | " + recs
	if len(c.tries) > 0 {
		out += " | " + strings.Join(c.tries, " ")
	}
	return out
}

// some thread is between append.afterLock and its return from funlock: its descriptor holds the flock
func (c *controller) flockHeld() bool {
	for _, st := range c.state {
		if st == "locked" || st == "seeked" || st == "written" {
			return true
		}
	}
	return false
}

// tryLock: process p calls GoFlockExNb on the record file while the flock is held
func (c *controller) tryLock(p int) {
	c.send(p, "try")
	select {
	case l := <-c.misc:
		c.tries = append(c.tries, strings.TrimPrefix(l, "tried "))
	case <-time.After(5 * time.Second):
		longStalls++
		c.tries = append(c.tries, "TIMEOUT")
	}
}

var run *hx.Run

func joinInts(xs []int) string {
	if len(xs) == 0 {
		return "-"
	}
	s := make([]string, len(xs))
	for i, x := range xs {
		s[i] = strconv.Itoa(x)
	}
	return strings.Join(s, ",")
}

// runSchedule drives one complete schedule; after every release it records the
// observed system state as one op (the model replays the same prefix).
// longStalls counts 5-second waits that ran out. The unchanged code never produces one (a conflict
// inside a process is an immediate error, a conflict between processes is probed with a short grace);
// once there have been many the failures are on record and the remaining schedules are skipped so
// that a run over broken code ends in minutes.
var longStalls int
var skippedNoted bool

func runSchedule(bin string, procs []int, n0 int, sched []int, nontrivial bool) {
	if longStalls > 24 {
		if !skippedNoted {
			skippedNoted = true
			run.Note("more than 24 five-second stalls: remaining schedules skipped (failures recorded above)")
		}
		return
	}
	dir, _ := os.MkdirTemp("", "verif-c14-")
	defer os.RemoveAll(dir)
	file := dir + "/.DIR"
	_ = os.WriteFile(file, bytes.Repeat([]byte{0xEE}, n0*recSize), 0o644)
	c := newController(procs, file, bin)
	defer c.close()
	last := -1
	var executed []int
	for k, t := range sched {
		label := "prefix"
		if t >= 100 {
			// a try-lock by process (t-100)%10: driven only while the flock is held (contended)
			p := (t - 100) % 10
			if _, ok := c.children[p]; !ok || !c.flockHeld() {
				continue
			}
			c.tryLock(p)
			label = "try"
		} else {
			c.release(t)
		}
		executed = append(executed, t)
		op := fmt.Sprintf("sched %s %d %s", joinInts(procs), n0, joinInts(executed))
		if k == len(sched)-1 {
			label = "complete"
		}
		last = run.Op(op, c.observe(), label, nontrivial && k == len(sched)-1)
	}
	sched = executed
	// drain: a release of a thread blocked in flock is a no-op, so a schedule may leave threads
	// unfinished; keep releasing (lowest thread first) until all have returned.
	for round := 0; round < 12; round++ {
		pending := false
		for t := range procs {
			if !c.done[t] {
				pending = true
				c.release(t)
				sched = append(sched, t)
				last = run.Op(fmt.Sprintf("sched %s %d %s", joinInts(procs), n0, joinInts(sched)), c.observe(), "drain", false)
			}
		}
		if !pending {
			break
		}
	}
	// ---- P-hat on the complete run -------------------------------------------
	for _, e := range c.errs {
		run.Fail(last, "stall", e)
	}
	allDone := true
	for t := range procs {
		if !c.done[t] {
			allDone = false
		}
	}
	if !allDone {
		run.Fail(last, "harness:incomplete-schedule", "schedule did not run every thread to completion: "+c.observe())
		return
	}
	recs, problems := readRecs(file, n0)
	for _, p := range problems {
		run.Fail(last, "torn", p)
	}
	rs := strings.Split(recs, ",")
	if recs == "" {
		rs = nil
	}
	seen := map[int]int{}
	succ := 0
	for t := range procs {
		st := c.state[t]
		if strings.HasPrefix(st, "ok:") {
			succ++
			idx, _ := strconv.Atoi(st[3:])
			if u, dup := seen[idx]; dup {
				run.Fail(last, "double-assign", fmt.Sprintf("threads %d and %d both got index %d (%s)", u, t, idx, c.observe()))
			}
			seen[idx] = t
			if idx < 1 || idx > len(rs) || rs[idx-1] != strconv.Itoa(t) {
				run.Fail(last, "lost-record", fmt.Sprintf("thread %d was given index %d but the record there is %v (%s)", t, idx, at(rs, idx-1), c.observe()))
			}
			if idx <= n0 {
				run.Fail(last, "overwrote-old", fmt.Sprintf("thread %d was given index %d inside the %d old records", t, idx, n0))
			}
		} else if !strings.HasPrefix(st, "err") {
			run.Fail(last, "bad-outcome", fmt.Sprintf("thread %d ended in state %q", t, st))
		}
	}
	for i := 0; i < n0 && i < len(rs); i++ {
		if rs[i] != "_" {
			run.Fail(last, "overwrote-old", fmt.Sprintf("old record %d now holds %s", i, rs[i]))
		}
	}
	if len(rs) != n0+succ {
		run.Fail(last, "length", fmt.Sprintf("file has %d records, expected %d old + %d successful appends (%s)", len(rs), n0, succ, c.observe()))
	}
	// locks released: a later append from every process succeeds
	ps := map[int]bool{}
	for _, p := range procs {
		ps[p] = true
	}
	var plist []int
	for p := range ps {
		plist = append(plist, p)
	}
	sort.Ints(plist)
	for _, p := range plist {
		c.send(p, "append")
		select {
		case l := <-c.misc:
			if p >= 50 {
				// a process under the file-size limit cannot append; what matters is that it gets as far as the write
				if strings.Contains(l, "ptt-lock") || strings.HasPrefix(l, "appended ok:") {
					run.Fail(last, "lock-leak", fmt.Sprintf("an append issued by the size-limited process %d after all others finished: %s", p, l))
				}
				break
			}
			if !strings.HasPrefix(l, "appended ok:") {
				run.Fail(last, "lock-leak", fmt.Sprintf("an append issued by process %d after all others finished failed: %s", p, l))
			}
		case <-time.After(5 * time.Second):
			run.Fail(last, "lock-leak", fmt.Sprintf("an append issued by process %d after all others finished never returned", p))
		}
	}
}

// otherWriters: after DeleteRecord / SubstituteRecord calls with in-range, boundary and out-of-range
// indices (whatever they return), an append in the same process must succeed: the in-process lock
// table is released on every path.
func otherWriters(bin string) {
	dir, _ := os.MkdirTemp("", "verif-c14w-")
	defer os.RemoveAll(dir)
	file := dir + "/.DIR"
	_ = os.WriteFile(file, bytes.Repeat([]byte{0xEE}, 3*recSize), 0o644)
	c := newController([]int{0}, file, bin)
	defer c.close()
	ask := func(cmd string) string {
		c.send(0, cmd)
		select {
		case l := <-c.misc:
			return l
		case <-time.After(15 * time.Second):
			return "TIMEOUT"
		}
	}
	for _, cmd := range []string{"delete 0", "delete 2", "delete 3", "delete 4", "delete 100", "delete -1", "substitute 1", "substitute 3", "substitute 50", "substitute -1"} {
		before := ask(cmd)
		after := ask("append")
		verdict := "append-ok"
		if !strings.HasPrefix(after, "appended ok:") {
			verdict = "append-failed"
		}
		i := run.Op("after "+strings.ReplaceAll(cmd, " ", ":"), verdict, "otherwriter", true)
		if verdict != "append-ok" {
			run.Fail(i, "lock-leak", fmt.Sprintf("after `%s` (%s) an append in the same process failed: %s", cmd, before, after))
		}
	}
}

// longHold: process 0 takes the lock and keeps it for 12 s; process 1's appender, released into
// its lock acquisition meanwhile, must neither return nor reach append.afterLock before the holder
// is released.
func longHold(bin string) {
	dir, _ := os.MkdirTemp("", "verif-c14l-")
	defer os.RemoveAll(dir)
	file := dir + "/.DIR"
	_ = os.WriteFile(file, bytes.Repeat([]byte{0xEE}, recSize), 0o644)
	c := newController([]int{0, 1}, file, bin)
	defer c.close()
	c.release(0) // call -> afterOpen
	c.release(0) // -> afterLock (holds the flock)
	c.release(1) // call -> afterOpen
	c.send(1, "go 1")
	c.started[1] = true
	early := c.await(1, 12*time.Second)
	verdict := "excluded"
	if early {
		verdict = "entered:" + c.state[1]
	}
	i := run.Op("longhold 12", verdict, "longhold", true)
	if early {
		run.Fail(i, "lock:not-exclusive-after-wait", fmt.Sprintf("a second process's append got past the lock (state %q) while the first still held it after 12 s", c.state[1]))
	} else {
		c.blocked[1] = true
		c.state[1] = "blocked"
	}
	for k := 0; k < 12 && !(c.done[0] && c.done[1]); k++ {
		c.release(0)
		c.release(1)
	}
	recs, problems := readRecs(file, 1)
	if recs != "_,0,1" || len(problems) > 0 {
		run.Fail(i, "lost-record", fmt.Sprintf("after the long hold the file holds [%s] (%v), expected [_,0,1]; states %v", recs, problems, c.state))
	}
}

func at(rs []string, i int) string {
	if i < 0 || i >= len(rs) {
		return "<none>"
	}
	return rs[i]
}

// all interleavings of the given per-thread release counts
func interleavings(counts []int, emit func([]int)) {
	total := 0
	for _, c := range counts {
		total += c
	}
	cur := make([]int, 0, total)
	left := append([]int{}, counts...)
	var rec func()
	rec = func() {
		if len(cur) == total {
			emit(append([]int{}, cur...))
			return
		}
		for t := range left {
			if left[t] > 0 {
				left[t]--
				cur = append(cur, t)
				rec()
				cur = cur[:len(cur)-1]
				left[t]++
			}
		}
	}
	rec()
}

func main() {
	mode := flag.String("mode", "", "child")
	raceOnly := flag.Bool("raceonly", false, "only the stress run (race-detector pass)")
	file := flag.String("file", "", "file (child mode)")
	// hx.Start parses the flags (tier/seed/out/replay) — declare ours first
	if len(os.Args) > 2 && os.Args[1] == "-mode" && os.Args[2] == "child" {
		flag.String("tier", "", "")
		flag.String("out", "", "")
		flag.Parse()
		childMain(*file)
		return
	}
	run = hx.Start("C14")
	_ = mode
	defer run.Finish()
	bin, _ := os.Executable()
	run.Rule = "every interleaving of the 5 hook-delimited segments (call, lockFD+flock, seekEnd, write, funlock+unlockFD) of 2 appender threads in one process (exhaustive) and of 2 processes x 1 thread (exhaustive in thorough, sampled in quick), 3 threads / 2x2 in thorough; after every release the observed thread states and file records are compared with the model replaying the same schedule prefix; distinct = distinct complete schedules; request-level users of the same locks: header writers (ptt.WriteFile -> .post) held at each of the 4 hook points x 0..2 whole calls meanwhile (model-compared), N header writers released together, and commenters (ptt.Recommend / bbs.CreateComment) + appenders in one process with a second process appending to the same record files, and posters (ptt.NewPost) on one board with a second process appending to its .DIR: reported index distinct and holding the poster's entry (judged by the property oracle)"

	if run.Replay != "" {
		for _, l := range hx.ReplayOps(run.Replay) {
			f := strings.Fields(l)
			if len(f) == 4 && f[0] == "sched" {
				procs := parseInts(f[1])
				n0, _ := strconv.Atoi(f[2])
				runSchedule(bin, procs, n0, complete(parseInts(f[3]), len(procs)), true)
			}
			if len(f) == 4 && f[0] == "hdr" {
				a := parseInts(f[1] + "," + f[2] + "," + f[3])
				if a[1] >= 1 && a[1] <= 4 && a[2] <= 8 {
					hdrCase(bin, a[0], a[1], a[2])
				}
			}
			if len(f) == 3 && f[0] == "postlog" {
				a := parseInts(f[1] + "," + f[2])
				postlogStress(bin, a[0], a[1])
			}
			if len(f) == 3 && f[0] == "logposts" {
				a := parseInts(f[1] + "," + f[2])
				logPostsRun(bin, a[0], a[1])
			}
			if len(f) == 3 && f[0] == "posts" {
				a := parseInts(f[1] + "," + f[2])
				postsRun(bin, a[0], a[1])
			}
			if len(f) == 5 && f[0] == "mix" {
				a := parseInts(strings.Join(f[1:], ","))
				mixRun(bin, a[0], a[1], a[2], a[3])
			}
		}
		return
	}

	if *raceOnly {
		run.Rule = "stress: goroutines x processes appending concurrently under the Go race detector (-race build); judged by the property oracle on the final file and by the detector's reports"
		stress(bin, true)
		// a second evidence case so the pass reports >1 distinct observation
		stress(bin, false)
		// the request-level users of the lock table (commenters, header writers) under the detector
		if run.Thorough() {
			mixRun(bin, 2, 8, 8000, 200)
			postlogStress(bin, 8, 60)
		} else {
			mixRun(bin, 2, 8, 2500, 200)
			postlogStress(bin, 8, 20)
		}
		return
	}
	r := run.R
	// releases per thread: a thread that fails lockFD finishes after 2 releases; give 5 and
	// let extra releases of a finished thread be no-ops (they are no-ops in the model too).
	type cfg struct {
		procs  []int
		n0     int
		sample int // 0 = all
	}
	cfgs := []cfg{{[]int{0, 0}, 2, 0}, {[]int{0, 1}, 1, 40}}
	if run.Thorough() {
		cfgs = []cfg{{[]int{0, 0}, 2, 0}, {[]int{0, 1}, 1, 0}, {[]int{0, 0}, 0, 0}, {[]int{0, 0, 0}, 1, 1500}, {[]int{0, 0, 1, 1}, 1, 400}, {[]int{0, 1, 0}, 0, 600}}
	}
	exhaustive := true
	for _, cf := range cfgs {
		var all [][]int
		counts := make([]int, len(cf.procs))
		for i := range counts {
			counts[i] = 5
		}
		if len(cf.procs) <= 2 {
			interleavings(counts, func(s []int) { all = append(all, s) })
		}
		if cf.sample == 0 {
			for _, s := range all {
				runSchedule(bin, cf.procs, cf.n0, s, true)
			}
		} else {
			exhaustive = false
			for k := 0; k < cf.sample; k++ {
				var s []int
				if len(all) > 0 {
					s = all[r.Intn(len(all))]
				} else {
					left := append([]int{}, counts...)
					for {
						var cand []int
						for t, l := range left {
							if l > 0 {
								cand = append(cand, t)
							}
						}
						if len(cand) == 0 {
							break
						}
						t := cand[r.Intn(len(cand))]
						left[t]--
						s = append(s, t)
					}
				}
				runSchedule(bin, cf.procs, cf.n0, s, true)
			}
		}
	}
	run.Exhaust = exhaustive && !*raceOnly

	// try-locks (GoFlockExNb) thrown into the schedules: a refused kernel lock must leave the lock
	// table as it found it, so everything after it — and the final appends — behave as without it.
	// processes 50.. run under a file-size limit: their writes fail under the lock (error path of the body)
	tryCfgs := []cfg{{[]int{0, 1}, 1, 30}, {[]int{0, 0}, 1, 12}, {[]int{0, 50}, 1, 25}, {[]int{50, 50}, 2, 8}, {[]int{50, 0, 0}, 1, 8}}
	if run.Thorough() {
		tryCfgs = []cfg{{[]int{0, 1}, 1, 400}, {[]int{0, 0}, 1, 150}, {[]int{0, 0, 1, 1}, 0, 150}, {[]int{0, 50}, 1, 300}, {[]int{50, 50}, 2, 100}, {[]int{50, 0, 0}, 1, 150}, {[]int{50, 51}, 0, 100}}
	}
	for _, cf := range tryCfgs {
		for k := 0; k < cf.sample; k++ {
			left := make([]int, len(cf.procs))
			for i := range left {
				left[i] = 5
			}
			var s []int
			nTry := 0
			for {
				var cand []int
				for t, l := range left {
					if l > 0 {
						cand = append(cand, t)
					}
				}
				if len(cand) == 0 {
					break
				}
				if nTry < 9 && r.Intn(3) == 0 {
					s = append(s, 100+10*nTry+cf.procs[r.Intn(len(cf.procs))])
					nTry++
					continue
				}
				t := cand[r.Intn(len(cand))]
				left[t]--
				s = append(s, t)
			}
			runSchedule(bin, cf.procs, cf.n0, s, true)
		}
	}

	// the lock table is released on every path of the other writers that share the key
	otherWriters(bin)

	// a waiter must stay excluded however long the holder keeps the lock (retry loops with a
	// bounded number of attempts are the classic way to lose this)
	longHold(bin)

	// stress (no hooks): many goroutines in 2..4 processes append concurrently; P-hat on the final file.
	stress(bin, run.Thorough())

	// ---- the other users of the same locks, through the real request functions (users.go) ----
	// header writers (ptt.WriteFile -> .post): every schedule-controlled case of one held writer x the
	// point it is held at x 0..2 (3) whole calls meanwhile; then N writers released together
	maxW := 2
	if run.Thorough() {
		maxW = 3
	}
	for _, n0 := range []int{0, 2} {
		for hold := 1; hold <= 4; hold++ {
			for nw := 0; nw <= maxW; nw++ {
				hdrCase(bin, n0, hold, nw)
			}
		}
	}
	if run.Thorough() {
		postlogStress(bin, 8, 600)
		postlogStress(bin, 3, 600)
		mixRun(bin, 4, 16, 25000, 200)
		mixRun(bin, 4, 16, 10000, 0)
		postsRun(bin, 4, 15000)
		postsRun(bin, 1, 8000)
	} else {
		postlogStress(bin, 8, 150)
		mixRun(bin, 4, 16, 7000, 200)
		postsRun(bin, 3, 3000)
	}
	// the log board's index missing at the start: the first cross-posts create it
	nLog := 4
	if run.Thorough() {
		nLog = 20
	}
	for k := 0; k < nLog; k++ {
		logPostsRun(bin, 4, 250)
	}
}

// complete pads a schedule so that every thread gets its 5 releases
func complete(s []int, n int) []int {
	cnt := make([]int, n)
	for _, t := range s {
		if t < n {
			cnt[t]++
		}
	}
	out := append([]int{}, s...)
	for t := 0; t < n; t++ {
		for cnt[t] < 5 {
			out = append(out, t)
			cnt[t]++
		}
	}
	return out
}

func parseInts(s string) []int {
	if s == "-" {
		return nil
	}
	var out []int
	for _, f := range strings.Split(s, ",") {
		v, _ := strconv.Atoi(f)
		out = append(out, v)
	}
	return out
}

func stress(bin string, thorough bool) {
	nProc, nG, m := 3, 8, 20
	if thorough {
		nProc, nG, m = 4, 32, 40
	}
	dir, _ := os.MkdirTemp("", "verif-c14s-")
	defer os.RemoveAll(dir)
	file := dir + "/.DIR"
	_ = os.WriteFile(file, nil, 0o644)
	procs := make([]int, nProc)
	for i := range procs {
		procs[i] = i
	}
	c := newController(procs, file, bin)
	defer c.close()
	for p := 0; p < nProc; p++ {
		c.send(p, "stress %d %d %d", nG, m, p*nG)
	}
	results := map[int][]string{}
	doneN := 0
	deadline := time.After(60 * time.Second)
	died := false
	for doneN < nProc && !died {
		select {
		case l := <-c.misc:
			f := strings.Fields(l)
			if len(f) == 3 && f[0] == "stressed" {
				tid, _ := strconv.Atoi(f[1])
				results[tid] = strings.Split(f[2], ",")
			} else if l == "stress-done" {
				doneN++
			} else if strings.HasPrefix(l, "child-exit") {
				died = true
			}
		case <-deadline:
			died = true
		}
	}
	if died {
		i := run.Op(fmt.Sprintf("stress %d %d %d", nProc, nG, m), "TIMEOUT", "stress", false)
		what := "stress run did not finish"
		c.close()
		for p, ch := range c.children {
			if e := ch.stderr.String(); strings.Contains(e, "fatal error") {
				what += fmt.Sprintf("; process %d died: %s", p, strings.SplitN(e[strings.Index(e, "fatal error"):], "\n", 2)[0])
			}
		}
		run.Fail(i, "stall", what)
		return
	}
	recs, problems := readRecs(file, 0)
	rs := strings.Split(recs, ",")
	if recs == "" {
		rs = nil
	}
	succ := 0
	var fails []string
	seen := map[string]int{}
	for tid, res := range results {
		for _, x := range res {
			if x == "e" {
				continue
			}
			succ++
			idx, _ := strconv.Atoi(x)
			if prev, dup := seen[x]; dup {
				fails = append(fails, fmt.Sprintf("double-assign: index %s given to threads %d and %d", x, prev, tid))
			}
			seen[x] = tid
			if idx < 1 || idx > len(rs) || rs[idx-1] != strconv.Itoa(tid) {
				fails = append(fails, fmt.Sprintf("lost-record: thread %d index %d holds %s", tid, idx, at(rs, idx-1)))
			}
		}
	}
	if len(rs) != succ {
		fails = append(fails, fmt.Sprintf("length: %d records for %d successful appends", len(rs), succ))
	}
	fails = append(fails, problems...)
	// the race detector (thorough tier builds this binary with -race) reports on the child's stderr
	c.close()
	races := 0
	for _, ch := range c.children {
		races += strings.Count(ch.stderr.String(), "WARNING: DATA RACE")
	}
	run.Extra["race_detector_reports"] = races
	if races > 0 {
		fails = append(fails, fmt.Sprintf("data-race: the race detector reported %d data race(s) in the appender processes", races))
	}
	verdict := "consistent"
	if len(fails) > 0 {
		verdict = "inconsistent"
	}
	// the model's answer to a stress op is the constant "consistent": this op is judged by P-hat
	i := run.Op(fmt.Sprintf("stress %d %d %d", nProc, nG, m), verdict, "stress", true)
	run.Extra["stress_successes"] = succ
	run.Extra["stress_attempts"] = nProc * nG * m
	for k, f := range fails {
		if k < 5 {
			run.Fail(i, "stress:"+strings.SplitN(f, ":", 2)[0], f)
		}
	}
}
